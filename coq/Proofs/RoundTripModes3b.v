(* Round trip under every encoder mode for the whole type universe (C01/C02), part (b): the invariant
   established by induction over the type, generic in the encoder codec and its options (BER with any
   defMode / maxChunkSize, CER, DER), in the decoder codec (BER, CER) and in the relation between abstract
   contents; the simple types; SEQUENCE OF / SET OF. *)
From Coq Require Import Lia Permutation.
From PV Require Import Base.Bytes Model.Tag Model.TableTypes Model.Types Model.Proc Model.Enc Model.Dec Gen.Tables
     Proofs.ProcBind Proofs.RunLemmas Proofs.TagOctets Proofs.TagAlgebra Proofs.DecHeader Proofs.DecFrame Proofs.DecPrim
     Proofs.TagsetShape Proofs.Schemaless Proofs.RoundTrip1 Proofs.RoundTrip2 Proofs.TagReject Proofs.ContainerCodecSort
     Proofs.RoundTripModesA Proofs.RoundTripModesB Proofs.RoundTripModesC Proofs.RoundTripModesBag Proofs.RoundTripModes
     Proofs.RoundTrip3 Proofs.RoundTrip3a Proofs.RoundTrip3b Proofs.RoundTripModes3a.
Local Open Scope N_scope.

Lemma frame_modes_facts t0 r content cns d k si b : Forall explicit_like r -> (tcls t0 <> Univ \/ tnum t0 <> 0) ->
  frame (t0 :: r) content cns (mo d k) si = Ok b -> (length content + 2 <= length b)%nat /\ hd 0 b <> 0.
Proof.
  intros Hex Hnz He. cbn [frame] in He. unfold mo in He. rewrite Bool.andb_false_r in He. cbn [o_def] in He.
  destruct (frame_one t0 cns (if cns then d else true) si content) as [s0|e] eqn:E0; cbn [bind] in He; [|discriminate].
  destruct (frame_outer_facts _ _ _ _ _ _ He Hex) as (Hlen0 & Hhd & _).
  destruct (frame_one_facts _ _ _ _ _ _ E0 Hnz) as (F1 & F2 & F3).
  split; [lia|exact (Hhd F3)].
Qed.

Lemma elem_ae_count rec t parts xs' : Forall2 (elem_ok_ae rec t) parts xs' -> (length parts <= length (concat parts))%nat.
Proof.
  induction 1 as [|p x' parts xs' [_ Hpl] _ IH]; [cbn; lia|]. cbn [length concat]. rewrite app_length. lia.
Qed.

Section Modes3b.
  Variables ce cd : codec.
  Variable d : bool.
  Variable k : N.
  Hypothesis Hst : stable ce d k.
  Hypothesis Hcd : dec_ok cd.
  Variable R : aval -> aval -> Prop.
  Variable srt : bool.
  Hypothesis HR : rel_ok R srt.

  Definition encm (T: ty) (v: val) : res bytes := enc_with ce (enc_content ce) T (mo d k) v.

  (* the invariant, at the level of the value decoder: the encoding is the framing of contents octets
     under the wire tags; the value decoder of the type takes the contents (to the closing 00 00 when
     they are constructed and lengths are indefinite) *)
  Definition val_ok_m (T: ty) (v: val) : Prop :=
    forall b, encm T v = Ok b -> N.of_nat (length b) <= index_max ->
    exists t0 r content cns si v',
      wire_tags T v = t0 :: r /\ Forall explicit_like r /\ (length r < ty_depth T)%nat /\
      (tcls t0 <> Univ \/ tnum t0 <> 0) /\
      (d = false -> (cns = true \/ r <> []) -> si = true) /\
      frame (t0 :: r) content cns (mo d k) si = Ok b /\
      wire_tags T v' = t0 :: r /\ R (abs T v') (abs T v) /\
      exists dcd dfl, by_type cd T = Some (dcd, dfl) /\
        forall f, (length b + ty_depth T <= S f + length r)%nat ->
          val_consumes cd f dcd dfl T (wire t0 cns :: r) d cns content v'.

  (* one complete item under a specification, wherever end-of-octets is or is not allowed *)
  Definition item_dec_m (sp: spec) (T: ty) (b: bytes) (v': val) : Prop :=
    (2 <= length b)%nat /\ hd 0 b <> 0 /\
    forall f ae, fuel_ok T b f -> consumes (dec_call cd f sp [] None ae false) b (DV T v').

  Lemma item_of_val_m T v b : val_ok_m T v -> encm T v = Ok b -> N.of_nat (length b) <= index_max ->
    exists v', R (abs T v') (abs T v) /\ wire_tags T v' = wire_tags T v /\ wire_tags T v <> [] /\
      forall sp, resolves sp T v -> item_dec_m sp T b v'.
  Proof.
    intros Hv He Hmax.
    destruct (Hv b He Hmax) as (t0 & r & content & cns & si & v' & Hw & Hex & Hrd & Hnz & Hmode & Hfr & Hw' & HRv & dcd & dfl & Hby & Hc).
    exists v'. split; [exact HRv|]. split; [congruence|]. split; [congruence|].
    intros sp [Hhit Hmiss]. rewrite Hw in Hhit, Hmiss. cbn [tl] in Hmiss.
    destruct (frame_modes_facts _ _ _ _ _ _ _ _ Hex Hnz Hfr) as [Hl Hh].
    split; [lia|]. split; [exact Hh|].
    intros f ae Hf. unfold fuel_ok in Hf.
    replace f with (S (f - 1 - length r) + length r)%nat by lia.
    refine (proj2 (proj2 (framed_modes_sp cd sp T t0 r cns si d k content b (f - 1 - length r) dcd dfl T v'
              (dec_ok_indef cd Hcd) Hnz Hex Hhit Hmiss Hby Hmode Hfr _ _)) ae).
    - lia.
    - apply (Hc (f - 1 - length r)%nat). lia.
  Qed.

  (* one complete item guided directly by its type *)
  Definition item_sty_m (T: ty) (v: val) : Prop :=
    forall p, encm T v = Ok p -> N.of_nat (length p) <= index_max ->
    exists v', R (abs T v') (abs T v) /\ item_dec_m (STy T) T p v'.

  Lemma item_sty_of_val_m T v : val_ok_m T v -> resolves (STy T) T v -> item_sty_m T v.
  Proof.
    intros Hv Hres p Ep Hmax. destruct (item_of_val_m T v p Hv Ep Hmax) as (v' & HRv & _ & _ & Hit).
    exists v'. split; [exact HRv|exact (Hit _ Hres)].
  Qed.

  (* ---------- the simple types ---------- *)

  Lemma prim_val_m T v : prim_base T = true -> wf_tags T = true -> (d = false -> f01_class T = false) ->
    stage1_val ce cd T v = true -> val_ok_m T v.
  Proof.
    intros Hp Hw Hf01 Hs b He Hmax.
    destruct (RoundTripModesC.enc_with_inv_g ce T d k v b Hst He) as (ec & fl & ts & content & cns & Hce & Hts' & Hcont & Hfr).
    assert (Htb: tagged_base T = true) by (unfold tagged_base, prim_base in *; destruct (base_of T); try discriminate Hp; reflexivity).
    destruct (tagset_shape_nz T Htb Hw) as (t0 & r & b0 & Hb0 & Hts & Hc0 & Hex & Hd & Hnz & Hne).
    rewrite Hts in Hts'. inversion Hts'; subst ts; clear Hts'.
    destruct (leaf_modes ce cd d k T v ec fl content cns Hcd Hs Hce Hcont) as (Hsix & Hnsix & dcd & dfl & vdec & Hby & Habs & Hval).
    assert (Hb0p: tcon b0 = false /\ tnum b0 <> 0).
    { split.
      - unfold prim_base in Hp. destruct (base_of T); try discriminate Hp; cbn [tagset_of] in Hb0; inversion Hb0; reflexivity.
      - apply (base_tag_nz T b0 Hb0). intros n Hbn. unfold stage1_val in Hs. rewrite Hbn in Hs.
        destruct v; try discriminate Hs. apply Bool.andb_true_iff in Hs. destruct Hs as [Hk _].
        unfold known_string in Hk. apply Bool.andb_true_iff in Hk. destruct Hk as [Hk _].
        destruct (lookup3 (KStr n) (enc_type_map ce)) as [[ec' ef]|] eqn:Ele; [|discriminate].
        destruct ec'; try discriminate. exact (proj2 (enc_str_flag ce n ef Ele)). }
    destruct Hb0p as [Hb0c Hb0n].
    assert (Hc0': tcon t0 = false) by congruence.
    assert (Hnz': tcls t0 <> Univ \/ tnum t0 <> 0) by (destruct Hnz as [-> | H]; [right; exact Hb0n|left; exact H]).
    pose proof (frame_modes_len _ _ _ _ _ _ _ _ Hex Hfr) as Hlen.
    assert (Hmode: d = false -> cns = true \/ r <> [] -> ef_indef fl = true).
    { intros Hd0 Hor. destruct (six T) eqn:E6; [|exact (Hnsix eq_refl)].
      exfalso. specialize (Hsix eq_refl). destruct Hor as [Hc|Hr]; [congruence|].
      specialize (Hf01 Hd0). unfold f01_class in Hf01. rewrite E6 in Hf01. cbn [andb] in Hf01.
      apply Bool.negb_false_iff in Hf01. apply Nat.eqb_eq in Hf01. destruct r; [congruence|]. cbn [length] in Hne. lia. }
    assert (Hnc: match T with TChoice _ => False | _ => True end).
    { destruct T; try exact I. discriminate Hp. }
    assert (Hd': (length r < ty_depth T)%nat).
    { assert (1 <= ty_depth (base_of T))%nat by (destruct (base_of T); cbn [ty_depth]; lia). lia. }
    exists t0, r, content, cns, (ef_indef fl), vdec.
    split; [rewrite (wire_tags_plain T v Hnc); apply tagset_of'_ok; exact Hts|].
    split; [exact Hex|]. split; [exact Hd'|]. split; [exact Hnz'|]. split; [exact Hmode|]. split; [exact Hfr|].
    split; [rewrite (wire_tags_plain T vdec Hnc); apply tagset_of'_ok; exact Hts|].
    split; [rewrite Habs; apply (r_refl _ _ HR)|].
    exists dcd, dfl. split; [exact Hby|]. intros f Hf.
    apply (Hval f t0 r Hc0'); lia.
  Qed.

  (* ---------- SEQUENCE OF / SET OF ---------- *)

  Lemma elems_val_m t xs : Forall (item_sty_m t) xs ->
    forall parts, RoundTrip3.enc_elems_g ce t (mo d k) xs = Ok parts ->
    N.of_nat (length (concat parts)) <= index_max ->
    exists xs', Forall2 (fun x' x => R (abs t x') (abs t x)) xs' xs /\
      forall f, (length (concat parts) + ty_depth t <= f)%nat -> Forall2 (elem_ok_ae (dec_call cd f) t) parts xs'.
  Proof.
    induction 1 as [|x xs Hix HF IH]; intros parts He Hmax.
    - inversion He; subst. exists []. split; [constructor|]. intros f _. constructor.
    - cbn [RoundTrip3.enc_elems_g] in He. fold (RoundTrip3.enc_elems_g ce t (mo d k)) in He.
      change (RoundTrip3.encw ce t (mo d k) x) with (encm t x) in He.
      destruct (encm t x) as [p|e] eqn:Ep; cbn [bind] in He; [|discriminate].
      destruct (RoundTrip3.enc_elems_g ce t (mo d k) xs) as [ps|e] eqn:Eps; cbn [bind] in He; [|discriminate].
      inversion He; subst parts; clear He.
      cbn [concat] in Hmax. rewrite app_length in Hmax.
      destruct (Hix p Ep ltac:(lia)) as (x' & Hax & Hpl & Hhd & Hcx).
      destruct (IH ps eq_refl ltac:(lia)) as (xs' & Haxs & Hcxs).
      exists (x' :: xs'). split; [constructor; assumption|].
      intros f Hf. cbn [concat] in Hf. rewrite app_length in Hf. constructor.
      + split; [|lia]. intros ae. apply Hcx. unfold fuel_ok. lia.
      + apply Hcxs. lia.
  Qed.

  Lemma Forall2_map_abs_m t xs' xs : Forall2 (fun x' x => R (abs t x') (abs t x)) xs' xs ->
    Forall2 R (map (abs t) xs') (map (abs t) xs).
  Proof. induction 1; cbn [map]; constructor; assumption. Qed.

  Lemma listof_val_m T' t : (base_of T' = TSeqOf t \/ base_of T' = TSetOf t) -> wf_tags T' = true ->
    (base_of T' = TSetOf t -> sorts_setof ce = true -> srt = true) ->
    forall xs, Forall (item_sty_m t) xs -> val_ok_m T' (VList xs).
  Proof.
    intros Hb Hw Hsrt xs HFx b He Hmax.
    assert (Htb: tagged_base T' = true) by (unfold tagged_base; destruct Hb as [-> | ->]; reflexivity).
    destruct (tagset_shape_nz T' Htb Hw) as (t0 & r & b0 & Hb0 & Hts & Hc0 & Hex & Hd & Hnz & Hne).
    assert (Hb0p: tcon b0 = true /\ tnum b0 <> 0).
    { destruct Hb as [Hb|Hb]; rewrite Hb in Hb0; inversion Hb0; split; try reflexivity; discriminate. }
    destruct Hb0p as [Hb0c Hb0n].
    assert (Hcon: tcon t0 = true) by congruence.
    assert (Hnz': tcls t0 <> Univ \/ tnum t0 <> 0) by (destruct Hnz as [-> | H]; [right; exact Hb0n|left; exact H]).
    assert (Hdep: ty_depth (base_of T') = S (ty_depth t)) by (destruct Hb as [-> | ->]; reflexivity).
    assert (Hnc: match T' with TChoice _ => False | _ => True end).
    { destruct T'; try exact I. destruct Hb; discriminate. }
    destruct (RoundTripModesC.enc_with_inv_g ce T' d k _ b Hst He) as (ec & fl & ts & content & cns & Hcenc & Hts' & Hcont & Hfr).
    rewrite Hts in Hts'. inversion Hts'; subst ts; clear Hts'.
    rewrite concrete_encoder_base in Hcenc. rewrite enc_content_base in Hcont.
    rewrite (enc_content_listof ce (base_of T') t ec fl (mo d k) xs Hb) in Hcont.
    destruct (RoundTrip3.enc_elems_g ce t (mo d k) xs) as [parts|e] eqn:Eparts; cbn [bind] in Hcont; [|discriminate].
    (* the parts as they stand in the contents *)
    assert (Hwire: exists wparts, content = concat wparts /\ cns = true /\ ef_indef fl = true /\ Permutation parts wparts
                     /\ (wparts = parts \/ (base_of T' = TSetOf t /\ sorts_setof ce = true))).
    { unfold sorts_setof. destruct ce; destruct Hb as [Hb|Hb]; rewrite Hb in Hcenc; vm_compute in Hcenc;
        inversion Hcenc; subst ec fl; clear Hcenc; inversion Hcont; subst content cns.
      - exists parts. repeat split; try apply Permutation_refl. left; reflexivity.
      - exists parts. repeat split; try apply Permutation_refl. left; reflexivity.
      - exists parts. repeat split; try apply Permutation_refl. left; reflexivity.
      - exists (sort_setof parts). repeat split; [apply RoundTrip3.sort_setof_perm_self|]. right. split; [exact Hb|reflexivity].
      - exists parts. repeat split; try apply Permutation_refl. left; reflexivity.
      - exists (sort_setof parts). repeat split; [apply RoundTrip3.sort_setof_perm_self|]. right. split; [exact Hb|reflexivity]. }
    destruct Hwire as (wparts & -> & -> & Hsi & Hperm & Hwhich). rewrite Hsi in Hfr.
    pose proof (frame_modes_len _ _ _ _ _ _ _ _ Hex Hfr) as Hlen.
    assert (Hcl: length (concat parts) = length (concat wparts)) by (apply concat_perm_length; exact Hperm).
    destruct (elems_val_m t xs HFx parts Eparts ltac:(lia)) as (xs' & Habs & Helems).
    (* the decoded list, in wire order *)
    assert (Hw': exists ws', R (abs T' (VList ws')) (abs T' (VList xs)) /\
                 forall f, (length (concat parts) + ty_depth t <= f)%nat -> Forall2 (elem_ok_ae (dec_call cd f) t) wparts ws').
    { destruct Hwhich as [-> | [Hset Hsorts]].
      - exists xs'. split; [|exact Helems].
        rewrite (abs_wrappers T' (VList xs')), (abs_wrappers T' (VList xs)).
        destruct Hb as [-> | ->]; cbn [abs]; [apply (r_list _ _ HR)|apply (r_bag _ _ HR)]; apply Forall2_map_abs_m; exact Habs.
      - pose proof (Hsrt Hset Hsorts) as Hs.
        assert (Hlen': length xs' = length parts).
        { symmetry. eapply F2_len. apply (Helems (length (concat parts) + ty_depth t)%nat). lia. }
        destruct (perm_positional' parts wparts Hperm xs' Hlen') as (ws' & Hpw & HP).
        exists ws'. split; [|intros f Hf; apply HP; apply Helems; exact Hf].
        rewrite (abs_wrappers T' (VList ws')), (abs_wrappers T' (VList xs)), Hset. cbn [abs].
        apply (r_perm _ _ HR Hs _ _ (map (abs t) xs')); [apply Permutation_map, Permutation_sym; exact Hpw|].
        apply Forall2_map_abs_m; exact Habs. }
    destruct Hw' as (ws' & HRw & Hwelems).
    exists t0, r, (concat wparts), true, true, (VList ws').
    split; [rewrite (wire_tags_plain T' _ Hnc); apply tagset_of'_ok; exact Hts|].
    split; [exact Hex|]. split; [lia|]. split; [exact Hnz'|]. split; [reflexivity|]. split; [exact Hfr|].
    split; [rewrite (wire_tags_plain T' _ Hnc); apply tagset_of'_ok; exact Hts|].
    split; [exact HRw|].
    assert (Hby: exists dcd dfl, by_type cd T' = Some (dcd, dfl) /\ (dcd = DcSeqOf \/ dcd = DcSetOf)).
    { rewrite by_type_base. destruct Hcd as [-> | ->]; destruct Hb as [-> | ->]; eexists; eexists;
        (split; [vm_compute; reflexivity|]); (left; reflexivity) || (right; reflexivity). }
    destruct Hby as (dcd & dfl & Hby & Hdcd).
    exists dcd, dfl. split; [exact Hby|]. intros f Hf.
    assert (Hw1: wire t0 true = t0) by (apply wire_con; exact Hcon). rewrite Hw1.
    assert (HF: Forall2 (elem_ok_ae (dec_call cd f) t) wparts ws') by (apply Hwelems; lia).
    pose proof (elem_ae_count _ _ _ _ HF) as Hcnt.
    unfold val_consumes. destruct d; cbn [andb negb].
    - assert (Hdv: dec_value (dec_call cd f) f dcd dfl (Some T') (t0 :: r) (Some (N.of_nat (length (concat wparts)))) false
                   = dec_listof (dec_call cd f) f T' t (Some (N.of_nat (length (concat wparts))))).
      { destruct Hdcd as [-> | ->]; cbn [dec_value tag0_cons]; rewrite Hcon; cbn [negb]; destruct Hb as [-> | ->]; reflexivity. }
      rewrite Hdv. apply dec_listof_consumes; [apply Forall2_elem_ok_of_ae; exact HF|lia].
    - assert (Hdv: dec_value (dec_call cd f) f dcd dfl (Some T') (t0 :: r) None false = dec_listof (dec_call cd f) f T' t None).
      { destruct Hdcd as [-> | ->]; cbn [dec_value tag0_cons]; rewrite Hcon; cbn [negb]; destruct Hb as [-> | ->]; reflexivity. }
      rewrite Hdv. destruct f as [|f']; [lia|].
      apply (dec_listof_indef_consumes (dec_call cd (S f')) (eoo_ok_call cd f' Hcd)); [exact HF|lia].
  Qed.

End Modes3b.

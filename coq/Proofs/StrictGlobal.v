(* C15, global form: what acceptance by the DER / CER decoders says about the WHOLE input.

   Phase A  (sections 0-4) every successful run of [dec_call DER] consumed exactly one TLV, and the run is
            described by a derivation [D] (which value decoder was chosen for which element, at every
            depth): no indefinite length is ever accepted, strings are primitive, BOOLEAN contents are
            00/FF.  Any guiding type without ANY (whose content is opaque), or none.
   Phase B  (5-8) the derivation read against the independent TLV parser of Spec/X690.v:
            [der_accepts_der_shape] (no guiding type, [der_shape] on the parse tree),
            [der_accepts_gshape] (guiding type without ANY/CHOICE, [gshape T] on the parse tree),
            [der_accepts_definite] (any guiding type without ANY: no indefinite length anywhere).
   9        [boolean_strict_everywhere]: CER and DER, at the dispatcher, any depth, any tagging.
   10       CER with indefinite lengths: [eoo_only], derivation [E], [cer_accepts_boolean_strict]
            ([cok] on the parse tree), guiding types without strings/ANY/CHOICE.
   Findings: [constructed_boolean_accepted] (defect), [reserved_length_accepted], [any_is_opaque]. *)
From Coq Require Import Lia.
From PV Require Import Base.Bytes Model.Tag Model.Types Model.TableTypes Model.Proc Model.Enc Model.Dec
     Gen.Tables Spec.X690 Proofs.ProcBind Proofs.RunLemmas.
Local Open Scope N_scope.

(* ====================================================================== *)
(* 0. runs that consume a known piece of the input                         *)
(* ====================================================================== *)

(* between s and s' exactly the octets u were consumed *)
Definition took (s s': stream) (u: bytes) : Prop :=
  avail s = u ++ avail s' /\ pos s' = (pos s + length u)%nat.

Lemma took_refl s : took s s [].
Proof. split; [reflexivity|cbn; lia]. Qed.

Lemma took_trans s s1 s2 u v : took s s1 u -> took s1 s2 v -> took s s2 (u ++ v).
Proof.
  intros [H1 P1] [H2 P2]. split.
  - rewrite H1, H2, app_assoc. reflexivity.
  - rewrite app_length. lia.
Qed.

Lemma took_mark s s' u : took (setmark s (pos s)) s' u -> took s s' u.
Proof. intros H. exact H. Qed.

Lemma attempt_got s n b s' : attempt s n = (Got b, s') -> took s s' b.
Proof.
  unfold attempt. destruct (Nat.eqb n 0).
  - intros H. inversion H; subst. apply took_refl.
  - destruct (Nat.ltb_spec (length (avail s)) n) as [Hl|Hl].
    + destruct (closed s); discriminate.
    + intros H. inversion H; subst; clear H. split.
      * unfold avail at 3. cbn [pos arrived setpos].
        rewrite skipn_add. fold (avail s). symmetry. apply firstn_skipn.
      * cbn [pos setpos]. rewrite firstn_length. lia.
Qed.

Lemma readN_inv n s b s' : resume (readN n) s = inr (Ok b, s') -> took s s' b.
Proof.
  unfold readN. cbn [resume]. destruct (attempt s n) as [[c| |] sm] eqn:E; cbn [resume]; intros H; try discriminate.
  inversion H; subst. exact (attempt_got _ _ _ _ E).
Qed.

Lemma read1_inv s o s' : resume read1 s = inr (Ok o, s') -> took s s' [o].
Proof.
  unfold read1. intros H. apply resume_pbind_inv in H. destruct H as (b & s1 & Hb & H).
  cbn [resume] in H. inversion H; subst; clear H.
  unfold readN in Hb. cbn [resume] in Hb.
  destruct (attempt s 1) as [[c| |] sm] eqn:E; cbn [resume] in Hb; try discriminate.
  inversion Hb; subst; clear Hb.
  pose proof (attempt_got _ _ _ _ E) as Ht.
  unfold attempt in E. cbn [Nat.eqb] in E.
  destruct (Nat.ltb_spec (length (avail s)) 1) as [Hl|Hl]; [destruct (closed s); discriminate|].
  inversion E; subst. destruct (avail s) as [|x r] eqn:Ea; [cbn in Hl; lia|].
  cbn [firstn hd] in *. exact Ht.
Qed.

Lemma read_len_inv lf n s b s' : resume (read_len lf n) s = inr (Ok b, s') -> took s s' b.
Proof.
  unfold read_len. destruct (N.ltb index_max n); [cbn [resume]; discriminate|]. apply readN_inv.
Qed.

Lemma lift_inv {A} (r: res A) s a s' : resume (lift r) s = inr (Ok a, s') -> r = Ok a /\ s' = s.
Proof. destruct r; cbn [lift resume]; intros H; inversion H; subst; auto. Qed.

Lemma create_inv sp proto ts v s d s' : resume (create sp proto ts v) s = inr (Ok d, s') -> s' = s.
Proof.
  unfold create.
  destruct (base_of match sp with Some T => T | None => schemaless_ty proto ts end); destruct v;
    try (cbn [resume]; intros H; inversion H; reflexivity).
  destruct (str_octets_ok n b) as [[|]|]; cbn [resume]; intros H; inversion H; reflexivity.
Qed.

(* ====================================================================== *)
(* 1. the header: identifier and length octets as the decoder read them    *)
(* ====================================================================== *)

Lemma long_tag_inv : forall k cl f acc s t s',
  resume (long_tag cl f k acc) s = inr (Ok t, s') ->
  exists hb, took s s' hb /\ hb <> [] /\ tcls t = cl /\ tcon t = f /\
             forall x, dec_b128 acc (hb ++ x) = Some (tnum t, x).
Proof.
  induction k as [|k IH]; intros cl f acc s t s' H; [cbn [long_tag resume] in H; discriminate|].
  cbn [long_tag] in H. apply resume_pbind_inv in H. destruct H as (o & s1 & Ho & H).
  apply read1_inv in Ho.
  destruct (N.eqb (N.land o 128) 0) eqn:E.
  - cbn [resume] in H. inversion H; subst; clear H. exists [o].
    split; [exact Ho|]. split; [discriminate|]. split; [reflexivity|]. split; [reflexivity|].
    intros x. cbn [app dec_b128 tnum]. rewrite E. reflexivity.
  - apply IH in H. destruct H as (hb & Ht & Hne & Hc & Hf & Hd).
    exists ([o] ++ hb).
    split; [exact (took_trans _ _ _ _ _ Ho Ht)|]. split; [discriminate|]. split; [exact Hc|]. split; [exact Hf|].
    intros x. cbn [app dec_b128]. rewrite E. apply Hd.
Qed.

Lemma read_tag_inv lf s t s' : resume (read_tag lf) s = inr (Ok t, s') ->
  exists ib, took s s' ib /\ forall x, dec_ident (ib ++ x) = Some (t, x).
Proof.
  unfold read_tag. intros H. apply resume_pbind_inv in H. destruct H as (o & s1 & Ho & H).
  apply read1_inv in Ho. cbv zeta in H.
  destruct (N.eqb (N.land o 31) 31) eqn:E.
  - apply long_tag_inv in H. destruct H as (hb & Ht & Hne & Hc & Hf & Hd).
    exists ([o] ++ hb). split; [exact (took_trans _ _ _ _ _ Ho Ht)|].
    intros x. cbn [app dec_ident]. cbv zeta. rewrite E, Hd.
    destruct t as [c f n]. cbn in *. subst. reflexivity.
  - cbn [resume] in H. inversion H; subst; clear H. exists [o]. split; [exact Ho|].
    intros x. cbn [app dec_ident]. cbv zeta. rewrite E. reflexivity.
Qed.

(* the DER decoder has no indefinite lengths: its length reader never answers None *)
Lemma read_length_der_inv s ol s' : resume (read_length DER) s = inr (Ok ol, s') ->
  exists lb l, ol = Some l /\ took s s' lb /\ forall x, dec_len (lb ++ x) = Some (Some l, x).
Proof.
  unfold read_length. intros H. apply resume_pbind_inv in H. destruct H as (o & s1 & Ho & H).
  apply read1_inv in Ho.
  destruct (N.ltb o 128) eqn:E1.
  - cbn [resume] in H. inversion H; subst; clear H. exists [o], o.
    split; [reflexivity|]. split; [exact Ho|].
    intros x. cbn [app dec_len]. rewrite E1. reflexivity.
  - destruct (N.eqb o 128) eqn:E2.
    + replace (support_indef DER) with false in H by reflexivity. cbn [resume] in H. discriminate.
    + apply resume_pbind_inv in H. destruct H as (b & s2 & Hb & H).
      pose proof (readN_inv _ _ _ _ Hb) as Ht.
      cbn [resume] in H. inversion H; subst; clear H.
      exists ([o] ++ b), (be_num 0 b).
      split; [reflexivity|]. split; [exact (took_trans _ _ _ _ _ Ho Ht)|].
      { intros x. cbn [app dec_len]. rewrite E1, E2. cbv zeta.
        assert (Hlen: length b = N.to_nat (N.land o 127)).
        { unfold readN in Hb. cbn [resume] in Hb.
          destruct (attempt s1 (N.to_nat (N.land o 127))) as [[c| |] sm] eqn:Ea; cbn [resume] in Hb; try discriminate.
          inversion Hb; subst; clear Hb. unfold attempt in Ea.
          destruct (Nat.eqb_spec (N.to_nat (N.land o 127)) 0) as [Hz|Hz].
          - inversion Ea; subst. rewrite Hz. reflexivity.
          - destruct (Nat.ltb_spec (length (avail s1)) (N.to_nat (N.land o 127))) as [Hl|Hl]; [destruct (closed s1); discriminate|].
            inversion Ea; subst. rewrite firstn_length. lia. }
        destruct (Nat.ltb_spec (length (b ++ x)) (N.to_nat (N.land o 127))) as [Hl|Hl]; [rewrite app_length in Hl; lia|].
        rewrite <- Hlen. rewrite TagOctets.firstn_app_exact, TagOctets.skipn_app_exact. reflexivity. }
Qed.

(* ====================================================================== *)
(* 2. which value decoder the dispatcher picks                              *)
(* ====================================================================== *)

(* Ok (Some (cd, fl, T)): decode the value with cd (guided by T); Ok None: no decoder, the tag may
   still be an EXPLICIT wrapper; Err: the dispatcher raises *)
Definition sel (c: codec) (sp: spec) (ts: tagset) : res (option (dec_codec * dec_flags * option ty)) :=
  match sp with
  | SNone => match by_tag c ts with
             | Some (cd, fl) => Ok (Some (cd, fl, None))
             | None => match by_tag c (firstn 1 ts) with
                       | Some (cd, fl) => Ok (Some (cd, fl, None))
                       | None => Ok None
                       end
             end
  | STy T => if tagset_eqb ts (tagset_of' T) || tm_contains (tagmap_of T) ts then
               (if tm_postponed (tagmap_of T) then Err EMalformed else
                match by_type c T with Some (cd, fl) => Ok (Some (cd, fl, Some T)) | None => Ok None end)
             else Ok None
  | SMap m => match tm_get m ts with
              | Err e => Err e
              | Ok (Some T) => match by_type c T with Some (cd, fl) => Ok (Some (cd, fl, Some T)) | None => Ok None end
              | Ok None => Ok None
              end
  end.

Definition run_value (len: option N) (k: proc dval) : proc dval :=
  match len with
  | None => k
  | Some l => let! p0 := tell in let! v := k in let! p1 := tell in
              if N.eqb (N.of_nat (p1 - p0)) l then Ret v else Raise EMalformed
  end.

Definition explicit_tag (ts: tagset) : bool :=
  match ts with t :: _ => tcon t && negb (cls_eqb (tcls t) Univ) | [] => false end.

Lemma dispatch_sel c rec lf sp ts len sfun :
  dispatch c rec lf sp ts len sfun =
  match sel c sp ts with
  | Err e => Raise e
  | Ok (Some (cd, fl, spT)) => run_value len (dec_value rec lf cd fl spT ts len sfun)
  | Ok None => if explicit_tag ts then run_value len (dec_raw rec lf sp ts len sfun) else Raise EMalformed
  end.
Proof.
  unfold dispatch, sel, run_value, explicit_tag. destruct sp as [|T|m].
  - destruct (by_tag c ts) as [[cd fl]|]; [reflexivity|].
    destruct (by_tag c (firstn 1 ts)) as [[cd fl]|]; [reflexivity|].
    destruct ts as [|t r]; [reflexivity|]. destruct (tcon t && negb (cls_eqb (tcls t) Univ))%bool; reflexivity.
  - destruct (tagset_eqb ts (tagset_of' T) || tm_contains (tagmap_of T) ts)%bool.
    + destruct (tm_postponed (tagmap_of T)); [reflexivity|].
      destruct (by_type c T) as [[cd fl]|]; [reflexivity|].
      destruct ts as [|t r]; [reflexivity|]. destruct (tcon t && negb (cls_eqb (tcls t) Univ))%bool; reflexivity.
    + destruct ts as [|t r]; [reflexivity|]. destruct (tcon t && negb (cls_eqb (tcls t) Univ))%bool; reflexivity.
  - destruct (tm_get m ts) as [[T|]|e]; cbn [lift pbind].
    + destruct (by_type c T) as [[cd fl]|]; [reflexivity|].
      destruct ts as [|t r]; [reflexivity|]. destruct (tcon t && negb (cls_eqb (tcls t) Univ))%bool; reflexivity.
    + destruct ts as [|t r]; [reflexivity|]. destruct (tcon t && negb (cls_eqb (tcls t) Univ))%bool; reflexivity.
    + reflexivity.
Qed.

(* a definite-length value: the dispatcher checks that exactly the announced length was consumed *)
Lemma run_value_inv (k: proc dval) l s v s' :
  resume (run_value (Some l) k) s = inr (Ok v, s') ->
  resume k s = inr (Ok v, s') /\ N.of_nat (pos s' - pos s) = l.
Proof.
  unfold run_value. intros H. cbn [pbind tell resume] in H.
  apply resume_pbind_inv in H. destruct H as (v0 & s1 & Hk & H).
  cbn [pbind tell resume] in H.
  destruct (N.eqb_spec (N.of_nat (pos s1 - pos s)) l) as [E|E]; cbn [resume] in H; [|discriminate].
  inversion H; subst. auto.
Qed.

(* ---------- guiding types without ANY ---------- *)
Fixpoint no_any (T: ty) : bool :=
  match T with
  | TAny => false
  | TImp _ x | TExp _ x => no_any x
  | TSeqOf t | TSetOf t => no_any t
  | TSeq fs | TSet fs => (fix go (l: list (presence * ty)) : bool := match l with [] => true | f :: r => no_any (snd f) && go r end) fs
  | TChoice alts => (fix go (l: list ty) : bool := match l with [] => true | a :: r => no_any a && go r end) alts
  | _ => true
  end.

Lemma no_any_fields fs : (fix go (l: list (presence * ty)) : bool := match l with [] => true | f :: r => no_any (snd f) && go r end) fs = forallb no_any (map snd fs).
Proof. induction fs as [|f r IH]; [reflexivity|]. cbn [map forallb]. rewrite IH. reflexivity. Qed.
Lemma no_any_alts l : (fix go (l: list ty) : bool := match l with [] => true | a :: r => no_any a && go r end) l = forallb no_any l.
Proof. induction l as [|f r IH]; [reflexivity|]. cbn [forallb]. rewrite IH. reflexivity. Qed.

Lemma no_any_base T : no_any T = true -> no_any (base_of T) = true.
Proof. induction T; cbn [no_any base_of]; auto. Qed.

Definition map_ok (m: tmap) : Prop :=
  tm_default m = None /\ Forall (fun kt => no_any (snd kt) = true) (tm_present m).
Definition spec_ok (sp: spec) : Prop :=
  match sp with SNone => True | STy T => no_any T = true | SMap m => map_ok m end.

Lemma assoc_in {A B} (eqb: A -> A -> bool) k (l: list (A * B)) b : assoc eqb k l = Some b -> exists a, In (a, b) l /\ eqb k a = true.
Proof.
  induction l as [|[a0 b0] r IH]; [discriminate|]. cbn [assoc].
  destruct (eqb k a0) eqn:E.
  - intros H. inversion H; subst. exists a0. split; [left; reflexivity|exact E].
  - intros H. destruct (IH H) as (a & Hi & He). exists a. split; [right; exact Hi|exact He].
Qed.

Lemma tm_get_ok m ts T : map_ok m -> tm_get m ts = Ok (Some T) -> no_any T = true /\ In T (map snd (tm_present m)).
Proof.
  intros [Hd Hp] H. unfold tm_get in H. destruct (tm_postponed m); [discriminate|].
  unfold tm_find in H. destruct (assoc tagset_eqb ts (tm_present m)) as [T0|] eqn:E.
  - inversion H; subst. apply assoc_in in E. destruct E as (a & Hi & _).
    rewrite Forall_forall in Hp. split; [exact (Hp _ Hi)|]. apply (in_map snd) in Hi. exact Hi.
  - rewrite Hd in H. discriminate.
Qed.

Lemma combine_maps_ok u : forall l acc,
  (forall mT, In mT l -> map_ok (fst mT) /\ no_any (snd mT) = true) -> map_ok acc ->
  map_ok (combine_maps u l acc).
Proof.
  induction l as [|[m T] r IH]; intros acc Hl Ha; [exact Ha|].
  cbn [combine_maps]. apply IH; [intros mT Hi; apply Hl; right; exact Hi|].
  destruct (Hl (m, T) (or_introl eq_refl)) as [[Hmd Hmp] HT]. destruct Ha as [Had Hap]. cbn [fst snd] in *.
  split; cbn [tm_default tm_present].
  - rewrite Had. exact Hmd.
  - clear Hmp. generalize (tm_present acc) Hap. induction (tm_present m) as [|kt q IHq]; intros p Hp; [exact Hp|].
    cbn [fold_left]. apply IHq. apply Forall_app. split.
    + rewrite Forall_forall in *. intros x Hx. apply filter_In in Hx. apply Hp. exact (proj1 Hx).
    + constructor; [exact HT|constructor].
Qed.

Lemma in_fields_no_any fs f : forallb no_any fs = true -> In f fs -> no_any f = true.
Proof. intros H Hi. rewrite forallb_forall in H. exact (H f Hi). Qed.

Lemma tagmap_ok : forall T, no_any T = true -> map_ok (tagmap_of T).
Proof.
  induction T as [| | | | | | | | n|fs IH|fs IH|t IH|t IH|alts IH| |tg x IH|tg x IH] using ty_ind'; intros Hn;
    try (split; [reflexivity|constructor; [exact Hn|constructor]]).
  - (* CHOICE *)
    cbn [tagmap_of]. cbn [no_any] in Hn. rewrite no_any_alts in Hn.
    apply combine_maps_ok; [|split; [reflexivity|constructor]].
    intros [m T] Hi. cbn [fst snd].
    assert (Hx: exists a, In a alts /\ m = tagmap_of a /\ T = a).
    { clear IH Hn. induction alts as [|a r IHr]; [destruct Hi|]. destruct Hi as [Hi|Hi].
      - injection Hi as E1 E2. exists a. split; [left; reflexivity|]. split; symmetry; assumption.
      - destruct (IHr Hi) as (a' & H1 & H2). exists a'. split; [right; exact H1|exact H2]. }
    destruct Hx as (a & Ha & Hm & HT). subst m T.
    pose proof (in_fields_no_any _ _ Hn Ha) as Hna.
    rewrite Forall_forall in IH. split; [exact (IH a Ha Hna)|exact Hna].
  - discriminate.
Qed.

Lemma fields_tagmap_ok u fs : forallb no_any fs = true -> map_ok (fields_tagmap u fs).
Proof.
  intros H. unfold fields_tagmap. apply combine_maps_ok; [|split; [reflexivity|constructor]].
  intros [m T] Hi. apply in_map_iff in Hi. destruct Hi as (t & Ht & Hi). inversion Ht; subst. cbn [fst snd].
  pose proof (in_fields_no_any _ _ H Hi) as Hn. split; [apply tagmap_ok; exact Hn|exact Hn].
Qed.

(* ---------- the regenerated DER tables, as far as the run of the decoder depends on them ---------- *)
Definition simple_cd (cd: dec_codec) : bool := match cd with DcInt | DcBoolBer | DcNull | DcOid | DcReal => true | _ => false end.
Definition string_cd (cd: dec_codec) : bool := match cd with DcOcts | DcStr | DcBits => true | _ => false end.
Definition container_cd (cd: dec_codec) : bool :=
  match cd with DcSeq | DcSet | DcSeqOf | DcSetOf | DcSeqOrSeqOf | DcSetOrSetOf => true | _ => false end.
Definition is_any_cd (cd: dec_codec) : bool := match cd with DcAny => true | _ => false end.

Definition entry := (tkey * dec_codec * dec_flags)%type.
Definition e_key (e: entry) : tkey := fst (fst e).
Definition e_cd (e: entry) : dec_codec := snd (fst e).
Definition e_fl (e: entry) : dec_flags := snd e.

Lemma lookup3_in (k: tkey) (m: list entry) cd fl :
  lookup3 k m = Some (cd, fl) -> exists k', In (k', cd, fl) m /\ tkey_eqb k k' = true.
Proof.
  unfold lookup3. induction m as [|[[k0 cd0] fl0] r IH]; [discriminate|].
  cbn [map assoc fst snd]. destruct (tkey_eqb k k0) eqn:E.
  - intros H. inversion H; subst. exists k0. split; [left; reflexivity|exact E].
  - intros H. destruct (IH H) as (k' & Hi & He). exists k'. split; [right; exact Hi|exact He].
Qed.

Lemma tkey_eqb_eq a b : tkey_eqb a b = true -> a = b.
Proof. destruct a, b; cbn; intros H; try discriminate; try reflexivity. apply N.eqb_eq in H. subst. reflexivity. Qed.

(* every entry of both DER maps: a string decoder forbids the constructed form; ANY is reached by
   type id only; the lax BOOLEAN decoder is not used *)
Definition der_entry_ok (in_type_map: bool) (e: entry) : bool :=
  implb (string_cd (e_cd e)) (negb (df_constructed (e_fl e)))
  && implb (is_any_cd (e_cd e)) (in_type_map && tkey_eqb (e_key e) KAny)
  && negb (match e_cd e with DcBoolBer => true | _ => false end).

Lemma der_tables_ok :
  forallb (der_entry_ok true) (dec_type_map DER) = true /\ forallb (der_entry_ok false) (dec_tag_map DER) = true.
Proof. split; vm_compute; reflexivity. Qed.

Lemma by_type_entry T cd fl : by_type DER T = Some (cd, fl) ->
  (exists k, In (k, cd, fl) (dec_type_map DER) /\ key_of T = k) \/
  (exists k, In (k, cd, fl) (dec_tag_map DER) /\ tag_fallback_key T = k).
Proof.
  unfold by_type. destruct (lookup3 (key_of T) (dec_type_map DER)) as [[cd0 fl0]|] eqn:E.
  - intros H. inversion H; subst. apply lookup3_in in E. destruct E as (k & Hi & He).
    left. exists k. split; [exact Hi|apply tkey_eqb_eq; exact He].
  - intros H. apply lookup3_in in H. destruct H as (k & Hi & He).
    right. exists k. split; [exact Hi|apply tkey_eqb_eq; exact He].
Qed.

Lemma by_tag_entry ts cd fl : by_tag DER ts = Some (cd, fl) -> exists k, In (k, cd, fl) (dec_tag_map DER).
Proof.
  unfold by_tag. destruct ts as [|t [|t2 r]]; try discriminate.
  - intros H. apply lookup3_in in H. destruct H as (k & Hi & _). exists k. exact Hi.
  - destruct (key_of_univ_tag t) as [k0|]; [|discriminate].
    intros H. apply lookup3_in in H. destruct H as (k & Hi & _). exists k. exact Hi.
Qed.

Lemma entry_in_type k cd fl : In (k, cd, fl) (dec_type_map DER) -> der_entry_ok true (k, cd, fl) = true.
Proof. intros H. destruct der_tables_ok as [H1 _]. rewrite forallb_forall in H1. exact (H1 _ H). Qed.
Lemma entry_in_tag k cd fl : In (k, cd, fl) (dec_tag_map DER) -> der_entry_ok false (k, cd, fl) = true.
Proof. intros H. destruct der_tables_ok as [_ H1]. rewrite forallb_forall in H1. exact (H1 _ H). Qed.

Lemma base_not_wrapper T : match base_of T with TImp _ _ | TExp _ _ => False | _ => True end.
Proof. induction T; cbn [base_of]; auto. Qed.

Lemma key_any_base T : key_of T = KAny -> base_of T = TAny.
Proof.
  unfold key_of. pose proof (base_not_wrapper T) as Hw.
  destruct (base_of T); intros H; try discriminate; try reflexivity; destruct Hw.
Qed.

Lemma by_type_facts T cd fl : no_any T = true -> by_type DER T = Some (cd, fl) ->
  (string_cd cd = true -> df_constructed fl = false) /\ is_any_cd cd = false.
Proof.
  intros Hn H. apply by_type_entry in H. destruct H as [(k & Hi & Hk)|(k & Hi & Hk)].
  - apply entry_in_type in Hi. unfold der_entry_ok, e_cd, e_fl, e_key in Hi. cbn [fst snd] in Hi.
    apply andb_prop in Hi. destruct Hi as [Hi _]. apply andb_prop in Hi. destruct Hi as [H1 H2].
    split.
    + intros Hs. rewrite Hs in H1. cbn [implb] in H1. destruct (df_constructed fl); [discriminate|reflexivity].
    + destruct (is_any_cd cd) eqn:Ea; [|reflexivity]. cbn [implb andb] in H2.
      apply tkey_eqb_eq in H2. rewrite H2 in Hk. apply key_any_base in Hk.
      apply no_any_base in Hn. rewrite Hk in Hn. discriminate.
  - apply entry_in_tag in Hi. unfold der_entry_ok, e_cd, e_fl, e_key in Hi. cbn [fst snd] in Hi.
    apply andb_prop in Hi. destruct Hi as [Hi _]. apply andb_prop in Hi. destruct Hi as [H1 H2].
    split.
    + intros Hs. rewrite Hs in H1. cbn [implb] in H1. destruct (df_constructed fl); [discriminate|reflexivity].
    + destruct (is_any_cd cd) eqn:Ea; [|reflexivity]. cbn [implb andb] in H2. discriminate.
Qed.

Lemma by_tag_facts ts cd fl : by_tag DER ts = Some (cd, fl) ->
  (string_cd cd = true -> df_constructed fl = false) /\ is_any_cd cd = false.
Proof.
  intros H. apply by_tag_entry in H. destruct H as (k & Hi).
  apply entry_in_tag in Hi. unfold der_entry_ok, e_cd, e_fl, e_key in Hi. cbn [fst snd] in Hi.
  apply andb_prop in Hi. destruct Hi as [Hi _]. apply andb_prop in Hi. destruct Hi as [H1 H2].
  split.
  - intros Hs. rewrite Hs in H1. cbn [implb] in H1. destruct (df_constructed fl); [discriminate|reflexivity].
  - destruct (is_any_cd cd) eqn:Ea; [|reflexivity]. cbn [implb andb] in H2. discriminate.
Qed.

Lemma sel_facts sp ts cd fl spT : spec_ok sp -> sel DER sp ts = Ok (Some (cd, fl, spT)) ->
  (string_cd cd = true -> df_constructed fl = false) /\ is_any_cd cd = false
  /\ match spT with Some T => no_any T = true | None => True end.
Proof.
  intros Hok H. destruct sp as [|T|m]; cbn [sel spec_ok] in *.
  - destruct (by_tag DER ts) as [[cd0 fl0]|] eqn:E1.
    + inversion H; subst. destruct (by_tag_facts _ _ _ E1). auto.
    + destruct (by_tag DER (firstn 1 ts)) as [[cd0 fl0]|] eqn:E2; [|discriminate].
      inversion H; subst. destruct (by_tag_facts _ _ _ E2). auto.
  - destruct (tagset_eqb ts (tagset_of' T) || tm_contains (tagmap_of T) ts)%bool; [|discriminate].
    destruct (tm_postponed (tagmap_of T)); [discriminate|].
    destruct (by_type DER T) as [[cd0 fl0]|] eqn:E; [|discriminate].
    inversion H; subst. destruct (by_type_facts _ _ _ Hok E). auto.
  - destruct (tm_get m ts) as [[T|]|e] eqn:Eg; try discriminate.
    destruct (by_type DER T) as [[cd0 fl0]|] eqn:E; [|discriminate].
    inversion H; subst. destruct (tm_get_ok _ _ _ Hok Eg) as [Hn _]. destruct (by_type_facts _ _ _ Hn E). auto.
Qed.

(* ====================================================================== *)
(* 3. the derivation: how an accepted element was read, at every depth      *)
(* ====================================================================== *)

Inductive content := CPrim | CKids (kids: list node).
Definition mk_node (c: tclass) (num: N) (body: bytes) (ct: content) (raw: bytes) : node :=
  match ct with CPrim => Prim c num body raw | CKids kids => Cons c num false kids raw end.

(* the component specs the decoder of a constructed value hands to its members *)
Definition child_spec (spT: option ty) (sp': spec) : Prop :=
  match spT with
  | None => sp' = SNone
  | Some T => match base_of T with
              | TSeqOf t | TSetOf t => sp' = STy t
              | TSeq fs | TSet fs =>
                  (fs = [] /\ sp' = SNone)
                  \/ (exists f, In f (map snd fs) /\ sp' = STy f)
                  \/ (exists u fs', incl fs' (map snd fs) /\ sp' = SMap (fields_tagmap u fs'))
              | _ => False
              end
  end.

(* D sp acc used n q: under component spec sp, with the tags acc already met, the decoder read the
   octets [used] as ONE element: identifier, DEFINITE length, that many contents octets; n is the
   element as a TLV tree.  q flags the two places where the decoder accepts what the reference
   parser of Spec/X690.v refuses: a first length octet FF, and a BOOLEAN in constructed form.
   V sp ts body ct q: the contents octets [body] of an element whose tags (innermost first) are ts. *)
Inductive D : spec -> tagset -> bytes -> node -> bool -> Prop :=
| D_tlv : forall sp acc ib lb body t l ct qv,
    (forall x, dec_ident (ib ++ x) = Some (t, x)) ->
    (forall x, dec_len (lb ++ x) = Some (Some l, x)) ->
    N.of_nat (length body) = l ->
    V sp (t :: acc) body ct qv ->
    D sp acc (ib ++ lb ++ body) (mk_node (tcls t) (tnum t) body ct (ib ++ lb ++ body)) (N.eqb (hd 0 lb) 255 || qv)
with V : spec -> tagset -> bytes -> content -> bool -> Prop :=
| V_bool : forall sp ts fl spT body,
    sel DER sp ts = Ok (Some (DcBoolCer, fl, spT)) -> body = [0] \/ body = [255] ->
    V sp ts body CPrim (tag0_cons ts)
| V_simple : forall sp ts cd fl spT body,
    sel DER sp ts = Ok (Some (cd, fl, spT)) -> simple_cd cd = true -> tag0_simple ts = true ->
    V sp ts body CPrim false
| V_string : forall sp ts cd fl spT body,
    sel DER sp ts = Ok (Some (cd, fl, spT)) -> string_cd cd = true -> tag0_simple ts = true ->
    V sp ts body CPrim false
| V_container : forall sp ts cd fl spT body kids q,
    sel DER sp ts = Ok (Some (cd, fl, spT)) -> container_cd cd = true -> tag0_cons ts = true ->
    F (child_spec spT) body kids q ->
    V sp ts body (CKids kids) q
| V_explicit : forall sp ts body n q,
    sel DER sp ts = Ok None -> explicit_tag ts = true ->
    D sp ts body n q ->
    V sp ts body (CKids [n]) q
| V_choice_tagged : forall sp ts fl T alts body n q,
    sel DER sp ts = Ok (Some (DcChoice, fl, Some T)) -> base_of T = TChoice alts ->
    tagset_eqb (tagset_of' T) ts = true ->
    D (SMap (fields_tagmap true alts)) [] body n q ->
    V sp ts body (if tag0_cons ts then CKids [n] else CPrim) (tag0_cons ts && q)
| V_choice_untagged : forall sp ts fl T alts body ct q,
    sel DER sp ts = Ok (Some (DcChoice, fl, Some T)) -> base_of T = TChoice alts ->
    tagset_eqb (tagset_of' T) ts = false ->
    V (SMap (fields_tagmap true alts)) ts body ct q ->
    V sp ts body ct q
with F : (spec -> Prop) -> bytes -> list node -> bool -> Prop :=
| F_nil : forall A, F A [] [] false
| F_cons : forall (A: spec -> Prop) sp u n q rest ns qs,
    A sp -> spec_ok sp -> D sp [] u n q -> F A rest ns qs -> F A (u ++ rest) (n :: ns) (q || qs).

Scheme D_ind2 := Minimality for D Sort Prop
  with V_ind2 := Minimality for V Sort Prop
  with F_ind2 := Minimality for F Sort Prop.
Combined Scheme DVF_ind from D_ind2, V_ind2, F_ind2.

(* ====================================================================== *)
(* 4. Phase A: a successful run yields a derivation                         *)
(* ====================================================================== *)

Definition rec_t := spec -> tagset -> option (option N) -> bool -> bool -> proc dval.

Definition call_ok (rec: rec_t) : Prop :=
  forall sp acc allow s d s', spec_ok sp ->
    resume (rec sp acc None allow false) s = inr (Ok d, s') ->
    exists u n q, took s s' u /\ D sp acc u n q.
Definition resume_ok (rec: rec_t) : Prop :=
  forall sp ts l allow s d s', spec_ok sp ->
    resume (rec sp ts (Some (Some l)) allow false) s = inr (Ok d, s') ->
    exists u ct q, took s s' u /\ V sp ts u ct q.

Ltac binv H x s1 H1 := apply resume_pbind_inv in H; destruct H as (x & s1 & H1 & H).
Ltac dead H := solve [cbn [resume] in H; discriminate].

Lemma ret_inv {A} (a: A) s b s' : resume (Ret a) s = inr (Ok b, s') -> s' = s.
Proof. cbn [resume]. intros H. inversion H. reflexivity. Qed.

Section PhaseA.
  Variable rec : rec_t.
  Variable lf : nat.
  Hypothesis Hcall : call_ok rec.
  Hypothesis Hres : resume_ok rec.

  (* --- primitive value decoders --- *)
  Lemma dec_integer_inv sp proto ts l s d s' :
    resume (dec_integer lf sp proto ts l) s = inr (Ok d, s') -> tag0_simple ts = true /\ exists u, took s s' u.
  Proof.
    unfold dec_integer. destruct (tag0_simple ts); cbn [negb]; intros H; [|dead H].
    binv H b s1 Hb. apply read_len_inv in Hb. apply create_inv in H. subst. split; [reflexivity|eauto].
  Qed.

  Lemma dec_null_inv sp ts l s d s' :
    resume (dec_null lf sp ts l) s = inr (Ok d, s') -> tag0_simple ts = true /\ exists u, took s s' u.
  Proof.
    unfold dec_null. destruct (tag0_simple ts); cbn [negb]; intros H; [|dead H].
    binv H b s1 Hb. apply read_len_inv in Hb. destruct b; [|dead H]. apply create_inv in H. subst. split; [reflexivity|eauto].
  Qed.

  Lemma dec_oid_inv sp ts l s d s' :
    resume (dec_oid_v lf sp ts l) s = inr (Ok d, s') -> tag0_simple ts = true /\ exists u, took s s' u.
  Proof.
    unfold dec_oid_v. destruct (tag0_simple ts); cbn [negb]; intros H; [|dead H].
    binv H b s1 Hb. apply read_len_inv in Hb. binv H a s2 Ha. apply lift_inv in Ha. destruct Ha as [_ ->].
    apply create_inv in H. subst. split; [reflexivity|eauto].
  Qed.

  Lemma dec_real_inv sp ts l s d s' :
    resume (dec_real_v lf sp ts l) s = inr (Ok d, s') -> tag0_simple ts = true /\ exists u, took s s' u.
  Proof.
    unfold dec_real_v. destruct (tag0_simple ts); cbn [negb]; intros H; [|dead H].
    binv H b s1 Hb. apply read_len_inv in Hb. binv H a s2 Ha. apply lift_inv in Ha. destruct Ha as [_ ->].
    apply create_inv in H. subst. split; [reflexivity|eauto].
  Qed.

  Lemma strict_octet (o: N) (A: Type) (x y z: A) :
    o <> 0 -> o <> 255 -> match o with 0 => x | 255 => y | _ => z end = z.
  Proof.
    intros H0 H255. destruct o as [|p]; [congruence|].
    destruct p as [p|p|]; try reflexivity.
    repeat (destruct p as [p|p|]; try reflexivity; try congruence).
  Qed.

  Lemma dec_bool_cer_inv sp ts l s d s' :
    resume (dec_bool_cer lf sp ts l) s = inr (Ok d, s') -> exists u, took s s' u /\ (u = [0] \/ u = [255]).
  Proof.
    unfold dec_bool_cer. destruct (N.eqb l 1); cbn [negb]; intros H; [|dead H].
    binv H b s1 Hb. apply read_len_inv in Hb.
    destruct b as [|o [|o2 r]]; [dead H| |].
    - destruct (N.eq_dec o 0) as [E0|E0]; [subst o; apply create_inv in H; subst; exists [0]; auto|].
      destruct (N.eq_dec o 255) as [E1|E1]; [subst o; apply create_inv in H; subst; exists [255]; auto|].
      exfalso. revert H.
      change (resume (match o with 0 => create sp TBool ts (VInt 0) | 255 => create sp TBool ts (VInt 1) | _ => Raise EMalformed end) s1 = inr (Ok d, s') -> False).
      rewrite (strict_octet o _ _ _ _ E0 E1). cbn [resume]. discriminate.
    - exfalso. revert H.
      change (resume (match o with 0 => Raise EMalformed | 255 => Raise EMalformed | _ => Raise EMalformed end) s1 = inr (Ok d, s') -> False).
      destruct (N.eq_dec o 0) as [E0|E0]; [subst o; cbn [resume]; discriminate|].
      destruct (N.eq_dec o 255) as [E1|E1]; [subst o; cbn [resume]; discriminate|].
      rewrite (strict_octet o _ _ _ _ E0 E1). cbn [resume]. discriminate.
  Qed.

  Lemma dec_octets_inv proto fl sp ts l sfun s d s' : df_constructed fl = false ->
    resume (dec_octets rec lf proto fl sp ts l sfun) s = inr (Ok d, s') -> tag0_simple ts = true /\ exists u, took s s' u.
  Proof.
    intros Hc. unfold dec_octets. destruct (tag0_simple ts).
    - intros H. binv H b s1 Hb. apply read_len_inv in Hb. apply create_inv in H. subst. split; [reflexivity|eauto].
    - rewrite Hc. cbn [negb]. intros H. dead H.
  Qed.

  Lemma dec_bits_inv fl sp ts l s d s' : df_constructed fl = false ->
    resume (dec_bits rec lf fl sp ts l false) s = inr (Ok d, s') -> tag0_simple ts = true /\ exists u, took s s' u.
  Proof.
    intros Hc. unfold dec_bits.
    destruct (tag0_simple ts).
    - destruct (N.eqb l 0); [intros H; dead H|].
      intros H. binv H tb s1 Htb. apply read1_inv in Htb.
      destruct (N.ltb 7 tb); [dead H|].
      binv H b s2 Hb. apply read_len_inv in Hb. binv H bs s3 Hbs. apply lift_inv in Hbs. destruct Hbs as [_ ->].
      apply create_inv in H. subst. split; [reflexivity|]. exists ([tb] ++ b). exact (took_trans _ _ _ _ _ Htb Hb).
    - rewrite Hc. cbn [negb]. intros H. dead H.
  Qed.

  (* --- the member loops of the constructed decoders: one call of the decoder per member --- *)
  Lemma listof_loop_inv T t l start : spec_ok (STy t) -> forall n acc s d s',
    resume (listof_loop rec T t (Some l) start n acc) s = inr (Ok d, s') ->
    exists u kids q, took s s' u /\ F (fun sp' => sp' = STy t) u kids q.
  Proof.
    intros Hok. induction n as [|n IH]; intros acc s d s' H; [dead H|].
    cbn [listof_loop] in H. cbn [pbind tell resume] in H.
    destruct (negb (N.ltb (N.of_nat (pos s - start)) l)).
    - apply ret_inv in H. subst. exists [], [], false. split; [apply took_refl|constructor].
    - binv H d0 s1 Hd0. destruct (Hcall _ _ _ _ _ _ Hok Hd0) as (u1 & n1 & q1 & Ht1 & HD1).
      assert (Hstop: s' = s1 -> exists u kids q, took s s' u /\ F (fun sp' => sp' = STy t) u kids q).
      { intros ->. exists (u1 ++ []), [n1], (q1 || false)%bool. split; [rewrite app_nil_r; exact Ht1|].
        apply (F_cons _ (STy t)); [reflexivity|exact Hok|exact HD1|constructor]. }
      assert (Hgo: forall acc', resume (listof_loop rec T t (Some l) start n acc') s1 = inr (Ok d, s') ->
                   exists u kids q, took s s' u /\ F (fun sp' => sp' = STy t) u kids q).
      { intros acc' H'. destruct (IH _ _ _ _ H') as (u2 & kids & q2 & Ht2 & HF2).
        exists (u1 ++ u2), (n1 :: kids), (q1 || q2)%bool. split; [exact (took_trans _ _ _ _ _ Ht1 Ht2)|].
        apply (F_cons _ (STy t)); [reflexivity|exact Hok|exact HD1|exact HF2]. }
      destruct d0 as [Tc vc| |b| |].
      + exact (Hgo _ H).
      + apply Hstop. apply ret_inv in H. exact H.
      + destruct (is_any t); [exact (Hgo _ H)|dead H].
      + dead H.
      + dead H.
  Qed.

  Lemma schemaless_loop_inv is_set ts l start : forall n acc s d s',
    resume (schemaless_loop rec is_set ts (Some l) start n acc) s = inr (Ok d, s') ->
    exists u kids q, took s s' u /\ F (fun sp' => sp' = SNone) u kids q.
  Proof.
    induction n as [|n IH]; intros acc s d s' H; [destruct acc as [|[T0 v0] r]; dead H|].
    cbn [schemaless_loop] in H. cbv zeta in H. cbn [pbind tell resume] in H.
    destruct (negb (N.ltb (N.of_nat (pos s)) (N.of_nat start + l))).
    - assert (s' = s) by (destruct acc as [|[T0 v0] r]; apply ret_inv in H; exact H). subst.
      exists [], [], false. split; [apply took_refl|constructor].
    - binv H d0 s1 Hd0. destruct (Hcall SNone [] false s d0 s1 I Hd0) as (u1 & n1 & q1 & Ht1 & HD1).
      destruct d0 as [Tc vc| |b| |]; try dead H.
      + destruct (IH _ _ _ _ H) as (u2 & kids & q2 & Ht2 & HF2).
        exists (u1 ++ u2), (n1 :: kids), (q1 || q2)%bool. split; [exact (took_trans _ _ _ _ _ Ht1 Ht2)|].
        apply (F_cons _ SNone); [reflexivity|exact I|exact HD1|exact HF2].
      + assert (s' = s1) by (destruct acc as [|[T0 v0] r]; apply ret_inv in H; exact H). subst.
        exists (u1 ++ []), [n1], (q1 || false)%bool. split; [rewrite app_nil_r; exact Ht1|].
        apply (F_cons _ SNone); [reflexivity|exact I|exact HD1|constructor].
  Qed.

  Definition rec_child (fs: list (presence * ty)) (sp': spec) : Prop :=
    (fs = [] /\ sp' = SNone)
    \/ (exists f, In f (map snd fs) /\ sp' = STy f)
    \/ (exists u fs', incl fs' (map snd fs) /\ sp' = SMap (fields_tagmap u fs')).

  Lemma ambiguous_run_incl : forall fs, incl (ambiguous_run fs) (map snd fs).
  Proof.
    induction fs as [|[p t] r IH]; [intros x Hx; exact Hx|].
    cbn [ambiguous_run map snd]. destruct p.
    - intros x [Hx|[]]. left. exact Hx.
    - intros x [Hx|Hx]; [left; exact Hx|right; exact (IH x Hx)].
    - intros x [Hx|Hx]; [left; exact Hx|right; exact (IH x Hx)].
  Qed.

  Lemma skipn_incl {X} n (l: list X) : incl (skipn n l) l.
  Proof. intros x Hx. rewrite <- (firstn_skipn n l). apply in_or_app. right. exact Hx. Qed.

  Lemma forallb_incl {X} (f: X -> bool) a b : incl a b -> forallb f b = true -> forallb f a = true.
  Proof. intros Hi Hb. rewrite forallb_forall in *. intros x Hx. apply Hb, Hi, Hx. Qed.

  Lemma record_spec_ok (fs: list (presence * ty)) (is_set det: bool) idx sp' :
    forallb no_any (map snd fs) = true ->
    (if match fs with [] => true | _ => false end then Some SNone
     else if is_set then Some (SMap (fields_tagmap true (map snd fs)))
     else seq_component_spec fs det idx) = Some sp' ->
    rec_child fs sp' /\ spec_ok sp'.
  Proof.
    intros Hfs H. destruct fs as [|f0 fr] eqn:Efs.
    - inversion H; subst. split; [left; auto|exact I].
    - rewrite <- Efs in *. clear Efs. destruct is_set.
      + inversion H; subst. split.
        * right. right. exists true, (map snd fs). split; [apply incl_refl|reflexivity].
        * cbn [spec_ok]. apply fields_tagmap_ok. exact Hfs.
      + unfold seq_component_spec in H. destruct (nth_error fs idx) as [[p t]|] eqn:En; [|discriminate].
        pose proof (nth_error_In _ _ En) as Hin. apply (in_map snd) in Hin. cbn [snd] in Hin.
        destruct (det || is_req p)%bool.
        * inversion H; subst. split; [right; left; exists t; auto|]. cbn [spec_ok]. exact (in_fields_no_any _ _ Hfs Hin).
        * inversion H; subst.
          assert (Hinc: incl (ambiguous_run (skipn idx fs)) (map snd fs)).
          { intros x Hx. apply ambiguous_run_incl in Hx. apply in_map_iff in Hx. destruct Hx as (y & Hy & Hx).
            apply in_map_iff. exists y. split; [exact Hy|exact (skipn_incl _ _ _ Hx)]. }
          split; [right; right; exists false, (ambiguous_run (skipn idx fs)); auto|].
          cbn [spec_ok]. apply fields_tagmap_ok. exact (forallb_incl _ _ _ Hinc Hfs).
  Qed.

  Lemma record_loop_inv T fs is_set l start : forallb no_any (map snd fs) = true ->
    forall n idx vs extra s d s',
    resume (record_loop rec lf T fs is_set (Some l) start n idx vs extra) s = inr (Ok d, s') ->
    exists u kids q, took s s' u /\ F (rec_child fs) u kids q.
  Proof.
    intros Hfs. induction n as [|n IH]; intros idx vs extra s d s' H; [dead H|].
    cbn [record_loop] in H. cbv zeta in H. cbn [pbind tell resume] in H.
    assert (Hfin: forall s0, resume (if match fs with [] => true | _ => false end then Ret (DV T (VRec []))
                    else if required_seen fs vs then Ret (DV T (VRec vs)) else Raise EMalformed) s0 = inr (Ok d, s') -> s' = s0).
    { intros s0 H0. destruct fs; [apply ret_inv in H0; exact H0|].
      destruct (required_seen (p :: fs) vs); [apply ret_inv in H0; exact H0|dead H0]. }
    destruct (negb (N.ltb (N.of_nat (pos s - start)) l)).
    - apply Hfin in H. subst. exists [], [], false. split; [apply took_refl|constructor].
    - match type of H with resume (match ?sp with _ => _ end) _ = _ => destruct sp as [sp'|] eqn:Esp end; [|dead H].
      apply record_spec_ok in Esp; [|exact Hfs]. destruct Esp as [Hch Hok].
      binv H d0 s1 Hd0. destruct (Hcall _ _ _ _ _ _ Hok Hd0) as (u1 & n1 & q1 & Ht1 & HD1).
      assert (Hstop: s' = s1 -> exists u kids q, took s s' u /\ F (rec_child fs) u kids q).
      { intros ->. exists (u1 ++ []), [n1], (q1 || false)%bool. split; [rewrite app_nil_r; exact Ht1|].
        apply (F_cons _ sp'); [exact Hch|exact Hok|exact HD1|constructor]. }
      assert (Hgo: forall idx' vs' s2, s2 = s1 -> resume (record_loop rec lf T fs is_set (Some l) start n idx' vs' extra) s2 = inr (Ok d, s') ->
                   exists u kids q, took s s' u /\ F (rec_child fs) u kids q).
      { intros idx' vs' s2 -> H'. destruct (IH _ _ _ _ _ _ H') as (u2 & kids & q2 & Ht2 & HF2).
        exists (u1 ++ u2), (n1 :: kids), (q1 || q2)%bool. split; [exact (took_trans _ _ _ _ _ Ht1 Ht2)|].
        apply (F_cons _ sp'); [exact Hch|exact Hok|exact HD1|exact HF2]. }
      destruct d0 as [Tc vc| |b| |].
      + destruct fs as [|f fs']; [dead H|].
        destruct (negb is_set && Nat.leb (length (f :: fs')) idx)%bool; [dead H|].
        binv H i s3 Hi. apply lift_inv in Hi. destruct Hi as [_ ->].
        destruct (Nat.leb (length (f :: fs')) i); [dead H|].
        exact (Hgo _ _ _ eq_refl H).
      + apply Hstop. exact (Hfin _ H).
      + destruct fs as [|f fs']; [dead H|].
        match type of H with resume (if ?c then _ else _) _ = _ => destruct c end; [|dead H].
        destruct (nth_error (f :: fs') idx) as [[p0 ft]|]; [|dead H].
        destruct (is_any ft); [|dead H].
        exact (Hgo _ _ _ eq_refl H).
      + dead H.
      + dead H.
  Qed.

  Lemma choice_place_inv T alts d0 s d s' : resume (choice_place lf T alts d0) s = inr (Ok d, s') -> s' = s.
  Proof.
    unfold choice_place. destruct d0; intros H; try dead H.
    binv H i s1 Hi. apply lift_inv in Hi. destruct Hi as [_ ->]. apply ret_inv in H. exact H.
  Qed.

  Lemma container_inv (b: bool) spT ts l s d s' :
    match spT with Some T => no_any T = true | None => True end ->
    resume (if negb (tag0_cons ts) then Raise EMalformed else
            match spT with
            | None => dec_schemaless rec lf b ts (Some l)
            | Some T => match base_of T with
                        | TSeq fs => dec_record rec lf T fs false (Some l)
                        | TSet fs => dec_record rec lf T fs true (Some l)
                        | TSeqOf t | TSetOf t => dec_listof rec lf T t (Some l)
                        | _ => Raise EUnmodelled
                        end
            end) s = inr (Ok d, s') ->
    tag0_cons ts = true /\ exists u kids q, took s s' u /\ F (child_spec spT) u kids q.
  Proof.
    intros HspT H. destruct (tag0_cons ts); cbn [negb] in H; [|dead H]. split; [reflexivity|].
    destruct spT as [T|].
    - pose proof (no_any_base _ HspT) as Hb. unfold child_spec.
      destruct (base_of T) eqn:Eb; try dead H.
      + unfold dec_record in H. cbv zeta in H. cbn [pbind tell resume] in H.
        cbn [no_any] in Hb. rewrite no_any_fields in Hb.
        exact (record_loop_inv _ _ _ _ _ Hb _ _ _ _ _ _ _ H).
      + unfold dec_record in H. cbv zeta in H. cbn [pbind tell resume] in H.
        cbn [no_any] in Hb. rewrite no_any_fields in Hb.
        exact (record_loop_inv _ _ _ _ _ Hb _ _ _ _ _ _ _ H).
      + unfold dec_listof in H. cbn [pbind tell resume] in H. cbn [no_any] in Hb.
        exact (listof_loop_inv _ _ _ _ Hb _ _ _ _ _ H).
      + unfold dec_listof in H. cbn [pbind tell resume] in H. cbn [no_any] in Hb.
        exact (listof_loop_inv _ _ _ _ Hb _ _ _ _ _ H).
    - unfold dec_schemaless in H. cbn [pbind tell resume] in H.
      exact (schemaless_loop_inv _ _ _ _ _ _ _ _ _ H).
  Qed.

  Lemma dec_value_inv sp ts cd fl spT l s d s' :
    spec_ok sp -> sel DER sp ts = Ok (Some (cd, fl, spT)) ->
    resume (dec_value rec lf cd fl spT ts (Some l) false) s = inr (Ok d, s') ->
    exists u ct q, took s s' u /\ V sp ts u ct q.
  Proof.
    intros Hok Hsel H. destruct (sel_facts _ _ _ _ _ Hok Hsel) as (Hstr & Hany & HspT).
    unfold dec_value in H. cbv zeta in H.
    destruct cd; cbv beta iota in H; cbn [is_any_cd] in Hany; try discriminate.
    - (* DcInt *) apply dec_integer_inv in H. destruct H as [Hs [u Hu]].
      exists u, CPrim, false. split; [exact Hu|]. eapply V_simple; eauto.
    - (* DcBoolBer *) apply dec_integer_inv in H. destruct H as [Hs [u Hu]].
      exists u, CPrim, false. split; [exact Hu|]. eapply V_simple; eauto.
    - (* DcBoolCer *) apply dec_bool_cer_inv in H. destruct H as (u & Hu & Hb).
      exists u, CPrim, (tag0_cons ts). split; [exact Hu|]. eapply V_bool; eauto.
    - (* DcBits *) apply dec_bits_inv in H; [|apply Hstr; reflexivity]. destruct H as [Hs [u Hu]].
      exists u, CPrim, false. split; [exact Hu|]. eapply V_string; eauto.
    - (* DcOcts *) apply dec_octets_inv in H; [|apply Hstr; reflexivity]. destruct H as [Hs [u Hu]].
      exists u, CPrim, false. split; [exact Hu|]. eapply V_string; eauto.
    - (* DcNull *) apply dec_null_inv in H. destruct H as [Hs [u Hu]].
      exists u, CPrim, false. split; [exact Hu|]. eapply V_simple; eauto.
    - (* DcOid *) apply dec_oid_inv in H. destruct H as [Hs [u Hu]].
      exists u, CPrim, false. split; [exact Hu|]. eapply V_simple; eauto.
    - (* DcReal *) apply dec_real_inv in H. destruct H as [Hs [u Hu]].
      exists u, CPrim, false. split; [exact Hu|]. eapply V_simple; eauto.
    - (* DcSeqOrSeqOf *) apply (container_inv false) in H; [|exact HspT]. destruct H as (Hc & u & kids & q & Hu & HF).
      exists u, (CKids kids), q. split; [exact Hu|]. eapply V_container; eauto.
    - apply (container_inv true) in H; [|exact HspT]. destruct H as (Hc & u & kids & q & Hu & HF).
      exists u, (CKids kids), q. split; [exact Hu|]. eapply V_container; eauto.
    - apply (container_inv false) in H; [|exact HspT]. destruct H as (Hc & u & kids & q & Hu & HF).
      exists u, (CKids kids), q. split; [exact Hu|]. eapply V_container; eauto.
    - apply (container_inv false) in H; [|exact HspT]. destruct H as (Hc & u & kids & q & Hu & HF).
      exists u, (CKids kids), q. split; [exact Hu|]. eapply V_container; eauto.
    - apply (container_inv true) in H; [|exact HspT]. destruct H as (Hc & u & kids & q & Hu & HF).
      exists u, (CKids kids), q. split; [exact Hu|]. eapply V_container; eauto.
    - apply (container_inv true) in H; [|exact HspT]. destruct H as (Hc & u & kids & q & Hu & HF).
      exists u, (CKids kids), q. split; [exact Hu|]. eapply V_container; eauto.
    - (* DcChoice *)
      destruct spT as [T|]; [|dead H].
      pose proof (no_any_base _ HspT) as Hb.
      destruct (base_of T) eqn:Eb; try dead H.
      cbn [no_any] in Hb. rewrite no_any_alts in Hb.
      assert (Hm: spec_ok (SMap (fields_tagmap true alts))) by (cbn [spec_ok]; apply fields_tagmap_ok; exact Hb).
      unfold dec_choice in H. cbv zeta in H.
      binv H d0 s1 Hd0. apply choice_place_inv in H. subst s1.
      destruct (tagset_eqb (tagset_of' T) ts) eqn:Etg.
      + destruct (Hcall _ _ _ _ _ _ Hm Hd0) as (u & n & q & Hu & HD).
        exists u, (if tag0_cons ts then CKids [n] else CPrim), (tag0_cons ts && q)%bool. split; [exact Hu|].
        eapply V_choice_tagged; eauto.
      + destruct (Hres _ _ _ _ _ _ _ Hm Hd0) as (u & ct & q & Hu & HV).
        exists u, ct, q. split; [exact Hu|].
        eapply V_choice_untagged; eauto.
    - (* DcStr *) apply dec_octets_inv in H; [|apply Hstr; reflexivity]. destruct H as [Hs [u Hu]].
      exists u, CPrim, false. split; [exact Hu|]. eapply V_string; eauto.
  Qed.

  Lemma dispatch_inv sp ts l s d s' : spec_ok sp ->
    resume (dispatch DER rec lf sp ts (Some l) false) s = inr (Ok d, s') ->
    exists u ct q, took s s' u /\ N.of_nat (length u) = l /\ V sp ts u ct q.
  Proof.
    intros Hok H. rewrite dispatch_sel in H.
    destruct (sel DER sp ts) as [[[[cd fl] spT]|]|e] eqn:Esel; [| |dead H].
    - apply run_value_inv in H. destruct H as [H Hl].
      destruct (dec_value_inv _ _ _ _ _ _ _ _ _ Hok Esel H) as (u & ct & q & Hu & HV).
      exists u, ct, q. split; [exact Hu|]. split; [|exact HV].
      destruct Hu as [_ Hp]. rewrite <- Hl. f_equal. lia.
    - destruct (explicit_tag ts) eqn:Ex; [|dead H].
      apply run_value_inv in H. destruct H as [H Hl].
      unfold dec_raw in H.
      destruct (Hcall _ _ _ _ _ _ Hok H) as (u & n & q & Hu & HD).
      exists u, (CKids [n]), q. split; [exact Hu|]. split; [|eapply V_explicit; eauto].
      destruct Hu as [_ Hp]. rewrite <- Hl. f_equal. lia.
  Qed.

  Lemma dec_body_call sp acc allow s d s' : spec_ok sp ->
    resume (dec_body DER rec lf sp acc None allow false) s = inr (Ok d, s') ->
    exists u n q, took s s' u /\ D sp acc u n q.
  Proof.
    intros Hok H. unfold dec_body in H.
    replace (support_indef DER) with false in H by reflexivity. rewrite Bool.andb_false_r in H.
    cbn [resume] in H.
    binv H t s1 Ht. apply read_tag_inv in Ht. destruct Ht as (ib & Hib & Hid).
    binv H ol s2 Hl. apply read_length_der_inv in Hl. destruct Hl as (lb & l & -> & Hlb & Hdl).
    destruct (dispatch_inv _ _ _ _ _ _ Hok H) as (u & ct & q & Hu & Hlen & HV).
    exists (ib ++ lb ++ u), (mk_node (tcls t) (tnum t) u ct (ib ++ lb ++ u)), (N.eqb (hd 0 lb) 255 || q)%bool.
    split.
    - apply took_mark. exact (took_trans _ _ _ _ _ Hib (took_trans _ _ _ _ _ Hlb Hu)).
    - apply D_tlv with (l := l); assumption.
  Qed.

  Lemma dec_body_resume sp ts l allow s d s' : spec_ok sp ->
    resume (dec_body DER rec lf sp ts (Some (Some l)) allow false) s = inr (Ok d, s') ->
    exists u ct q, took s s' u /\ V sp ts u ct q.
  Proof.
    intros Hok H. unfold dec_body in H.
    replace (support_indef DER) with false in H by reflexivity. rewrite Bool.andb_false_r in H.
    cbn [resume] in H.
    destruct (dispatch_inv _ _ _ _ _ _ Hok H) as (u & ct & q & Hu & Hlen & HV).
    exists u, ct, q. split; [apply took_mark; exact Hu|exact HV].
  Qed.
End PhaseA.

Theorem dec_call_der_derivation : forall fuel, call_ok (dec_call DER fuel) /\ resume_ok (dec_call DER fuel).
Proof.
  induction fuel as [|f [IH1 IH2]].
  - split; intros sp; intros; cbn [dec_call resume] in *; discriminate.
  - split.
    + intros sp acc allow s d s' Hok H. cbn [dec_call] in H. exact (dec_body_call _ _ IH1 IH2 _ _ _ _ _ _ Hok H).
    + intros sp ts l allow s d s' Hok H. cbn [dec_call] in H. exact (dec_body_resume _ _ IH1 IH2 _ _ _ _ _ _ _ Hok H).
Qed.

(* the whole-input form of Phase A *)
Definition guide (sp: option ty) : spec := match sp with Some T => STy T | None => SNone end.
Definition guide_ok (sp: option ty) : Prop := match sp with Some T => no_any T = true | None => True end.

Theorem decode_der_derivation : forall sp b d tl, guide_ok sp ->
  decode DER sp b = Ok (d, tl) ->
  exists used n q, b = used ++ tl /\ D (guide sp) [] used n q.
Proof.
  intros sp b d tl Hok H. unfold decode, run_complete in H.
  destruct (resume (dec_item DER (dec_fuel sp b) sp) (mkStream b 0 true 0)) as [[p0 s0]|[[d0|e] s']] eqn:E; try discriminate.
  inversion H; subst; clear H. unfold dec_item in E.
  destruct (dec_call_der_derivation (dec_fuel sp b)) as [Hc _].
  assert (Hok': spec_ok (guide sp)) by (destruct sp; exact Hok).
  destruct (Hc (guide sp) [] false _ _ _ Hok' E) as (u & n & q & [Hu _] & HD).
  exists u, n, q. split; [exact Hu|exact HD].
Qed.

(* ====================================================================== *)
(* 5. Phase B: the header octets as the reference reads them (X.690 8.1)    *)
(* ====================================================================== *)
From PV Require Import Proofs.Bits.

Definition octets256 : list N := map N.of_nat (seq 0 256).
Lemma in_octets256 o : o < 256 -> In o octets256.
Proof.
  intros H. unfold octets256. apply in_map_iff. exists (N.to_nat o). split; [apply N2Nat.id|].
  apply in_seq. lia.
Qed.
Lemma octet_all (P: N -> bool) : forallb P octets256 = true -> forall o, wf_byte o = true -> P o = true.
Proof.
  intros H o Ho. rewrite forallb_forall in H. apply H, in_octets256. unfold wf_byte in Ho. apply N.ltb_lt. exact Ho.
Qed.

Definition first_ok (o: N) : bool :=
  cls_eqb (class_of_no (o / 64)) (cls_of_bits o)
  && Bool.eqb (N.eqb ((o / 32) mod 2) 1) (negb (N.eqb (N.land o 32) 0))
  && N.eqb (o mod 32) (N.land o 31).
Definition cont_ok (o: N) : bool :=
  Bool.eqb (N.eqb (N.land o 128) 0) (N.ltb o 128)
  && N.eqb (N.land o 127) (if N.ltb o 128 then o else o - 128).

Lemma cls_eqb_eq a b : cls_eqb a b = true -> a = b.
Proof. destruct a, b; cbn; intros; try discriminate; reflexivity. Qed.

Lemma first_octet o : wf_byte o = true ->
  class_of_no (o / 64) = cls_of_bits o /\ N.eqb ((o / 32) mod 2) 1 = negb (N.eqb (N.land o 32) 0) /\ o mod 32 = N.land o 31.
Proof.
  intros Ho. assert (H: first_ok o = true) by (apply octet_all; [vm_compute; reflexivity|exact Ho]).
  unfold first_ok in H. apply andb_prop in H. destruct H as [H H3]. apply andb_prop in H. destruct H as [H1 H2].
  split; [apply cls_eqb_eq; exact H1|]. split; [apply Bool.eqb_prop; exact H2|apply N.eqb_eq; exact H3].
Qed.

Lemma cont_octet o : wf_byte o = true ->
  N.eqb (N.land o 128) 0 = N.ltb o 128 /\ N.land o 127 = (if N.ltb o 128 then o else o - 128).
Proof.
  intros Ho. assert (H: cont_ok o = true) by (apply octet_all; [vm_compute; reflexivity|exact Ho]).
  unfold cont_ok in H. apply andb_prop in H. destruct H as [H1 H2].
  split; [apply Bool.eqb_prop; exact H1|apply N.eqb_eq; exact H2].
Qed.

Lemma b128_long : forall hb acc n, forallb wf_byte hb = true -> dec_b128 acc hb = Some (n, []) ->
  forall x fuel, (length hb <= fuel)%nat -> long_number fuel acc (hb ++ x) = Some (n, x).
Proof.
  induction hb as [|o r IH]; intros acc n Hwf Hd x fuel Hf; [discriminate|].
  cbn [forallb] in Hwf. apply andb_prop in Hwf. destruct Hwf as [Ho Hr].
  destruct fuel as [|f]; [cbn [length] in Hf; lia|]. cbn [app long_number dec_b128] in *.
  destruct (cont_octet o Ho) as [E1 E2]. rewrite E1 in Hd.
  destruct (N.ltb_spec o 128) as [Hlt|Hge].
  - inversion Hd; subst. cbn [app]. f_equal. f_equal. rewrite E2, (lor_shl7 acc o Hlt). reflexivity.
  - rewrite E2 in Hd. rewrite lor_shl7 in Hd by (unfold wf_byte in Ho; apply N.ltb_lt in Ho; lia).
    apply IH; [exact Hr|exact Hd|cbn [length] in Hf; lia].
Qed.

Lemma ident_bridge ib t : forallb wf_byte ib = true -> dec_ident ib = Some (t, []) ->
  forall x, split_ident (ib ++ x) = Some (tcls t, tcon t, tnum t, x).
Proof.
  intros Hwf Hd x. destruct ib as [|o r]; [discriminate|].
  cbn [forallb] in Hwf. apply andb_prop in Hwf. destruct Hwf as [Ho Hr].
  cbn [app split_ident dec_ident] in *. cbv zeta in *.
  destruct (first_octet o Ho) as (E1 & E2 & E3). rewrite E1, E2, E3.
  destruct (N.eqb (N.land o 31) 31).
  - destruct (dec_b128 0 r) as [[num r']|] eqn:Eb; [|discriminate]. inversion Hd; subst; clear Hd.
    rewrite (b128_long r 0 num Hr Eb x (length (r ++ x))) by (rewrite app_length; lia). reflexivity.
  - inversion Hd; subst. reflexivity.
Qed.

Lemma be_num_octets_value : forall r acc, forallb wf_byte r = true -> be_num acc r = octets_value acc r.
Proof.
  induction r as [|o r IH]; intros acc Hwf; [reflexivity|].
  cbn [forallb] in Hwf. apply andb_prop in Hwf. destruct Hwf as [Ho Hr].
  cbn [be_num octets_value]. rewrite lor_shl8 by (apply N.ltb_lt; exact Ho). apply IH. exact Hr.
Qed.

Lemma len_bridge lb l : forallb wf_byte lb = true -> dec_len lb = Some (Some l, []) -> hd 0 lb <> 255 ->
  forall x, split_length (lb ++ x) = Some (Some l, x).
Proof.
  intros Hwf Hd Hff x. destruct lb as [|o r]; [discriminate|].
  cbn [forallb] in Hwf. apply andb_prop in Hwf. destruct Hwf as [Ho Hr]. cbn [hd] in Hff.
  cbn [app split_length]. rewrite TagOctets.dec_len_cons in Hd.
  destruct (N.ltb o 128) eqn:E1.
  - inversion Hd; subst. reflexivity.
  - destruct (N.eqb o 128) eqn:E2; [discriminate|]. cbv zeta in Hd.
    destruct (N.eqb_spec o 255) as [E3|E3]; [congruence|].
    destruct (cont_octet o Ho) as [_ E4]. rewrite E1 in E4. rewrite E4 in Hd.
    destruct (Nat.ltb_spec (length r) (N.to_nat (o - 128))) as [Hs|Hs]; [discriminate|].
    inversion Hd as [[Hv Hk]]; clear Hd.
    assert (Hlen: length r = N.to_nat (o - 128)).
    { apply (f_equal (@length N)) in Hk. rewrite skipn_length in Hk. cbn [length] in Hk. lia. }
    destruct (Nat.ltb_spec (length (r ++ x)) (N.to_nat (o - 128))) as [Hs2|Hs2]; [rewrite app_length in Hs2; lia|].
    rewrite <- Hlen. rewrite TagOctets.firstn_app_exact, TagOctets.skipn_app_exact.
    rewrite <- (be_num_octets_value r 0 Hr). rewrite firstn_all. reflexivity.
Qed.

Lemma len_reserved lb x : hd 0 lb = 255 -> lb <> [] -> split_length (lb ++ x) = None.
Proof. intros H Hne. destruct lb as [|o r]; [congruence|]. cbn [hd] in H. subst o. reflexivity. Qed.

(* ====================================================================== *)
(* 6. Phase B: the derivation against the reference parser                  *)
(* ====================================================================== *)

(* the member loop of a definite-length constructed TLV inside X690.parse_one *)
Definition many_def (f: nat) : nat -> bytes -> option (list node) :=
  fix many (k: nat) (cs: bytes) : option (list node) :=
    match k with
    | O => None
    | S k' => match cs with
              | [] => Some []
              | _ => match parse_one f cs with
                     | Some (nd, cs') => match many k' cs' with Some l => Some (nd :: l) | None => None end
                     | None => None
                     end
              end
    end.

Lemma parse_one_prim f b c num r1 n r2 :
  split_ident b = Some (c, false, num, r1) -> split_length r1 = Some (Some n, r2) ->
  parse_one (S f) b =
  if Nat.ltb (length r2) (N.to_nat n) then None
  else Some (Prim c num (firstn (N.to_nat n) r2) (firstn (length b - length (skipn (N.to_nat n) r2)) b), skipn (N.to_nat n) r2).
Proof. intros H1 H2. cbn [parse_one]. rewrite H1, H2. reflexivity. Qed.

Lemma parse_one_cons f b c num r1 n r2 :
  split_ident b = Some (c, true, num, r1) -> split_length r1 = Some (Some n, r2) ->
  parse_one (S f) b =
  if Nat.ltb (length r2) (N.to_nat n) then None
  else match many_def f (S (length (firstn (N.to_nat n) r2))) (firstn (N.to_nat n) r2) with
       | Some kids => Some (Cons c num false kids (firstn (length b - length (skipn (N.to_nat n) r2)) b), skipn (N.to_nat n) r2)
       | None => None
       end.
Proof. intros H1 H2. cbn [parse_one]. rewrite H1, H2. reflexivity. Qed.

Lemma parse_one_nolen f b c pc num r1 :
  split_ident b = Some (c, pc, num, r1) -> split_length r1 = None -> parse_one (S f) b = None.
Proof. intros H1 H2. cbn [parse_one]. rewrite H1, H2. reflexivity. Qed.

Lemma parse_one_single f o : parse_one f [o] = None.
Proof.
  destruct f as [|f]; [reflexivity|]. cbn [parse_one].
  destruct (split_ident [o]) as [[[[c pc] num] r1]|] eqn:E; [|reflexivity].
  assert (r1 = []).
  { cbn [split_ident] in E. cbv zeta in E. destruct (N.eqb (o mod 32) 31); [cbn in E; discriminate|]. inversion E; reflexivity. }
  subst r1. reflexivity.
Qed.

Lemma wf_app a b : forallb wf_byte (a ++ b) = true -> forallb wf_byte a = true /\ forallb wf_byte b = true.
Proof. rewrite forallb_app. intros H. apply andb_prop in H. exact H. Qed.

Definition PD (sp: spec) (acc: tagset) (used: bytes) (n: node) (q: bool) : Prop :=
  forallb wf_byte used = true -> forall f tl, (length used <= f)%nat ->
  parse_one (S f) (used ++ tl) = if q then None else Some (n, tl).
Definition PV (sp: spec) (ts: tagset) (body: bytes) (ct: content) (q: bool) : Prop :=
  forallb wf_byte body = true ->
  match ct with
  | CPrim => if q then tag0_cons ts = true /\ (body = [0] \/ body = [255]) else tag0_cons ts = false
  | CKids kids => tag0_cons ts = true /\
                  forall f k, (length body < f)%nat -> (length body < k)%nat ->
                  many_def f k body = if q then None else Some kids
  end.
Definition PF (A: spec -> Prop) (body: bytes) (kids: list node) (q: bool) : Prop :=
  forallb wf_byte body = true ->
  forall f k, (length body < f)%nat -> (length body < k)%nat ->
  many_def f k body = if q then None else Some kids.

Lemma D_nonempty sp acc used n q : D sp acc used n q -> used <> [].
Proof.
  intros H. destruct H as [sp acc ib lb body t l ct qv Hi _ _ _].
  destruct ib as [|o r]; [|discriminate]. specialize (Hi []). cbn in Hi. discriminate.
Qed.

Lemma simple_not_cons ts : tag0_simple ts = true -> tag0_cons ts = false.
Proof. destruct ts as [|t r]; cbn; [reflexivity|]. destruct (tcon t); [discriminate|reflexivity]. Qed.

Lemma single_kid f k (u: bytes) (n: node) (q: bool) : u <> [] -> (length u < f)%nat -> (length u < k)%nat ->
  (forall f' tl, (length u <= f')%nat -> parse_one (S f') (u ++ tl) = if q then None else Some (n, tl)) ->
  many_def f k u = if q then None else Some [n].
Proof.
  intros Hne Hf Hk HP. destruct k as [|k]; [lia|]. destruct f as [|f]; [lia|].
  cbn [many_def]. destruct u as [|o r] eqn:Eu; [congruence|]. rewrite <- Eu in *.
  rewrite <- (app_nil_r u) at 1. rewrite HP by lia. destruct q; [reflexivity|].
  destruct k as [|k]; [subst u; cbn [length] in Hk; lia|]. reflexivity.
Qed.

Theorem derivation_parse :
  (forall sp acc used n q, D sp acc used n q -> PD sp acc used n q)
  /\ (forall sp ts body ct q, V sp ts body ct q -> PV sp ts body ct q)
  /\ (forall A body kids q, F A body kids q -> PF A body kids q).
Proof.
  apply DVF_ind.
  - (* D_tlv *)
    intros sp acc ib lb body t l ct qv Hid Hdl Hlen HV IHV Hwf f tl Hf.
    apply wf_app in Hwf. destruct Hwf as [Hwi Hwf]. apply wf_app in Hwf. destruct Hwf as [Hwl Hwb].
    specialize (IHV Hwb).
    pose proof (Hid []) as Hid0. rewrite app_nil_r in Hid0.
    pose proof (Hdl []) as Hdl0. rewrite app_nil_r in Hdl0.
    assert (Hlne: lb <> []) by (intros ->; cbn in Hdl0; discriminate).
    assert (Hine: ib <> []) by (intros ->; cbn in Hid0; discriminate).
    assert (Hb: (ib ++ lb ++ body) ++ tl = ib ++ (lb ++ (body ++ tl))) by (rewrite <- !app_assoc; reflexivity).
    pose proof (ident_bridge ib t Hwi Hid0 (lb ++ (body ++ tl))) as Hsi. rewrite <- Hb in Hsi.
    destruct (N.eqb_spec (hd 0 lb) 255) as [Eff|Eff]; cbn [orb].
    + apply (parse_one_nolen f _ _ _ _ _ Hsi). apply len_reserved; assumption.
    + pose proof (len_bridge lb l Hwl Hdl0 Eff (body ++ tl)) as Hsl.
      assert (Hn: N.to_nat l = length body) by lia.
      assert (Hlt: Nat.ltb (length (body ++ tl)) (N.to_nat l) = false) by (apply Nat.ltb_ge; rewrite app_length; lia).
      assert (Hraw: firstn (length ((ib ++ lb ++ body) ++ tl) - length tl) ((ib ++ lb ++ body) ++ tl) = ib ++ lb ++ body).
      { rewrite (app_length (ib ++ lb ++ body) tl). replace (length (ib ++ lb ++ body) + length tl - length tl)%nat with (length (ib ++ lb ++ body)) by lia.
        apply TagOctets.firstn_app_exact. }
      assert (Hil: (length body + 2 <= length (ib ++ lb ++ body))%nat).
      { rewrite !app_length. destruct ib; [congruence|]. destruct lb; [congruence|]. cbn [length]. lia. }
      destruct (tcon t) eqn:Etc.
      * rewrite (parse_one_cons f _ _ _ _ _ _ Hsi Hsl), Hlt, Hn.
        rewrite TagOctets.firstn_app_exact, TagOctets.skipn_app_exact, Hraw.
        destruct ct as [|kids]; cbn [mk_node].
        -- destruct qv.
           ++ destruct IHV as [_ [->| ->]]; cbn [length many_def]; rewrite parse_one_single; reflexivity.
           ++ cbn [tag0_cons] in IHV. congruence.
        -- destruct IHV as [_ IHV]. rewrite (IHV f (S (length body))) by lia. destruct qv; reflexivity.
      * rewrite (parse_one_prim f _ _ _ _ _ _ Hsi Hsl), Hlt, Hn.
        rewrite TagOctets.firstn_app_exact, TagOctets.skipn_app_exact, Hraw.
        destruct ct as [|kids]; cbn [mk_node].
        -- destruct qv; [destruct IHV as [IHV _]; cbn [tag0_cons] in IHV; congruence|reflexivity].
        -- destruct IHV as [IHV _]. cbn [tag0_cons] in IHV. congruence.
  - (* V_bool *) intros sp ts fl spT body Hsel Hb Hwf. cbn. destruct (tag0_cons ts); auto.
  - (* V_simple *) intros sp ts cd fl spT body Hsel Hcd Hs Hwf. cbn. apply simple_not_cons. exact Hs.
  - (* V_string *) intros sp ts cd fl spT body Hsel Hcd Hs Hwf. cbn. apply simple_not_cons. exact Hs.
  - (* V_container *) intros sp ts cd fl spT body kids q Hsel Hcd Hc HF IHF Hwf. cbn. split; [exact Hc|]. exact (IHF Hwf).
  - (* V_explicit *)
    intros sp ts body n q Hsel Hex HD IHD Hwf. cbn. split.
    + destruct ts as [|t r]; [discriminate|]. cbn in *. apply andb_prop in Hex. exact (proj1 Hex).
    + intros f k Hf Hk. apply single_kid; [exact (D_nonempty _ _ _ _ _ HD)|exact Hf|exact Hk|].
      intros f' tl Hf'. exact (IHD Hwf f' tl Hf').
  - (* V_choice_tagged *)
    intros sp ts fl T alts body n q Hsel Hb Htg HD IHD Hwf. destruct (tag0_cons ts) eqn:Etc; cbn [andb].
    + split; [reflexivity|]. intros f k Hf Hk. apply single_kid; [exact (D_nonempty _ _ _ _ _ HD)|exact Hf|exact Hk|].
      intros f' tl Hf'. exact (IHD Hwf f' tl Hf').
    + reflexivity.
  - (* V_choice_untagged *) intros sp ts fl T alts body ct q Hsel Hb Htg HV IHV Hwf. exact (IHV Hwf).
  - (* F_nil *) intros A Hwf f k Hf Hk. destruct k as [|k]; [cbn [length] in Hk; lia|]. reflexivity.
  - (* F_cons *)
    intros A sp u n q rest ns qs HA Hok HD IHD HF IHF Hwf f k Hf Hk.
    apply wf_app in Hwf. destruct Hwf as [Hwu Hwr]. rewrite app_length in Hf, Hk.
    pose proof (D_nonempty _ _ _ _ _ HD) as Hne.
    assert (Hul: (1 <= length u)%nat) by (destruct u; [congruence|cbn [length]; lia]).
    destruct k as [|k]; [lia|]. destruct f as [|f]; [lia|].
    cbn [many_def]. destruct (u ++ rest) as [|o r] eqn:Eur; [destruct u; [congruence|discriminate]|]. rewrite <- Eur.
    rewrite (IHD Hwu f rest) by lia.
    destruct q; cbn [orb]; [reflexivity|].
    fold (many_def (S f)). rewrite (IHF Hwr (S f) k) by lia. destruct qs; reflexivity.
Qed.

(* ====================================================================== *)
(* 7. Phase B: the DER shape of the tree, without a guiding type            *)
(* ====================================================================== *)

(* universal tag numbers of the string types: BIT STRING, OCTET STRING, ObjectDescriptor, UTF8String,
   NumericString .. IA5String, UTCTime, GeneralizedTime, GraphicString .. UniversalString, BMPString *)
Definition string_nums : list N := [3; 4; 7; 12; 18; 19; 20; 21; 22; 23; 24; 25; 26; 27; 28; 30].
Definition is_string_num (n: N) : bool := existsb (N.eqb n) string_nums.
Definition is_univ (c: tclass) : bool := match c with Univ => true | _ => false end.

(* every TLV has a definite length; a UNIVERSAL 1 (BOOLEAN) is primitive with contents 00 or FF;
   no string type is constructed *)
Fixpoint der_shape (n: node) : bool :=
  match n with
  | Prim c num contents _ =>
      implb (is_univ c && N.eqb num 1) (bytes_eqb contents [0] || bytes_eqb contents [255])
  | Cons c num indef kids _ =>
      negb indef && negb (is_univ c && (N.eqb num 1 || is_string_num num)) && forallb der_shape kids
  end.

Lemma key_univ_facts t k : key_of_univ_tag t = Some k ->
  tcls t = Univ /\ (tnum t = 1 -> k = KBool) /\ (k = KSeq -> tnum t = 16) /\ (k = KSet -> tnum t = 17)
  /\ k <> KChoice /\ k <> KSeqOf /\ k <> KSetOf.
Proof.
  unfold key_of_univ_tag. destruct (tcls t); try discriminate. intros H.
  split; [reflexivity|].
  repeat match type of H with context [N.eqb ?a ?b] => destruct (N.eqb_spec a b) end;
    inversion H; subst; clear H; repeat split; intros; try discriminate; try congruence; try lia.
Qed.

Definition der_tag_entry_ok (e: entry) : bool :=
  implb (container_cd (e_cd e)) (match e_key e with KSeq | KSet => true | _ => false end)
  && implb (match e_cd e with DcChoice => true | _ => false end) (match e_key e with KChoice => true | _ => false end)
  && implb (match e_key e with KBool => true | _ => false end) (match e_cd e with DcBoolCer => true | _ => false end).

Lemma der_tag_table_ok : forallb der_tag_entry_ok (dec_tag_map DER) = true.
Proof. vm_compute. reflexivity. Qed.

Lemma sel_none t acc cd fl spT : sel DER SNone (t :: acc) = Ok (Some (cd, fl, spT)) ->
  spT = None /\ exists k, key_of_univ_tag t = Some k /\ In (k, cd, fl) (dec_tag_map DER).
Proof.
  cbn [sel firstn]. intros H.
  assert (Hx: by_tag DER [t] = Some (cd, fl) /\ spT = None).
  { destruct (by_tag DER (t :: acc)) as [[cd0 fl0]|] eqn:E1.
    - inversion H; subst. split; [|reflexivity]. destruct acc; [exact E1|cbn in E1; discriminate].
    - destruct (by_tag DER [t]) as [[cd0 fl0]|] eqn:E2; [|discriminate]. inversion H; subst. auto. }
  destruct Hx as [Hb ->]. split; [reflexivity|].
  cbn [by_tag] in Hb. destruct (key_of_univ_tag t) as [k|]; [|discriminate].
  apply lookup3_in in Hb. destruct Hb as (k' & Hi & He). apply tkey_eqb_eq in He. subst k'. exists k. auto.
Qed.

Definition QD (sp: spec) (acc: tagset) (used: bytes) (n: node) (q: bool) : Prop :=
  sp = SNone -> der_shape n = true.
Definition QV (sp: spec) (ts: tagset) (body: bytes) (ct: content) (q: bool) : Prop :=
  sp = SNone -> forall t acc raw, ts = t :: acc -> der_shape (mk_node (tcls t) (tnum t) body ct raw) = true.
Definition QF (A: spec -> Prop) (body: bytes) (kids: list node) (q: bool) : Prop :=
  (forall sp', A sp' -> sp' = SNone) -> forallb der_shape kids = true.

Lemma not_bool_shape c num body raw : (is_univ c && N.eqb num 1)%bool = false -> der_shape (Prim c num body raw) = true.
Proof. intros H. cbn [der_shape]. rewrite H. reflexivity. Qed.

Theorem derivation_der_shape :
  (forall sp acc used n q, D sp acc used n q -> QD sp acc used n q)
  /\ (forall sp ts body ct q, V sp ts body ct q -> QV sp ts body ct q)
  /\ (forall A body kids q, F A body kids q -> QF A body kids q).
Proof.
  apply DVF_ind.
  - intros sp acc ib lb body t l ct qv Hid Hdl Hlen HV IHV Hsp. exact (IHV Hsp t acc _ eq_refl).
  - (* bool *) intros sp ts fl spT body Hsel Hb -> t acc raw ->. cbn [mk_node der_shape].
    destruct Hb as [-> | ->]; cbn; destruct (is_univ (tcls t) && (tnum t =? 1))%bool; reflexivity.
  - (* simple *) intros sp ts cd fl spT body Hsel Hcd Hs -> t acc raw ->. cbn [mk_node]. apply not_bool_shape.
    apply sel_none in Hsel. destruct Hsel as (_ & k & Hk & Hi).
    destruct (key_univ_facts _ _ Hk) as (Hu & H1 & _).
    destruct (N.eqb_spec (tnum t) 1) as [E|E]; [|apply Bool.andb_false_r].
    specialize (H1 E). subst k. pose proof der_tag_table_ok as Ht. rewrite forallb_forall in Ht. specialize (Ht _ Hi).
    unfold der_tag_entry_ok, e_key, e_cd in Ht. cbn [fst snd] in Ht. destruct cd; try discriminate.
  - (* string *) intros sp ts cd fl spT body Hsel Hcd Hs -> t acc raw ->. cbn [mk_node]. apply not_bool_shape.
    apply sel_none in Hsel. destruct Hsel as (_ & k & Hk & Hi).
    destruct (key_univ_facts _ _ Hk) as (Hu & H1 & _).
    destruct (N.eqb_spec (tnum t) 1) as [E|E]; [|apply Bool.andb_false_r].
    specialize (H1 E). subst k. pose proof der_tag_table_ok as Ht. rewrite forallb_forall in Ht. specialize (Ht _ Hi).
    unfold der_tag_entry_ok, e_key, e_cd in Ht. cbn [fst snd] in Ht. destruct cd; try discriminate.
  - (* container *) intros sp ts cd fl spT body kids q Hsel Hcd Hc HF IHF -> t acc raw ->. cbn [mk_node der_shape negb andb].
    apply sel_none in Hsel. destruct Hsel as (-> & k & Hk & Hi).
    destruct (key_univ_facts _ _ Hk) as (Hu & _ & H16 & H17 & _).
    pose proof der_tag_table_ok as Ht. rewrite forallb_forall in Ht. specialize (Ht _ Hi).
    unfold der_tag_entry_ok, e_key, e_cd in Ht. cbn [fst snd] in Ht. rewrite Hcd in Ht. cbn [implb] in Ht.
    rewrite (IHF (fun sp' H => H)), Bool.andb_true_r.
    destruct k; try discriminate.
    + rewrite (H16 eq_refl). rewrite Hu. reflexivity.
    + rewrite (H17 eq_refl). rewrite Hu. reflexivity.
  - (* explicit *) intros sp ts body n q Hsel Hex HD IHD -> t acc raw ->. cbn [mk_node der_shape negb andb forallb].
    rewrite (IHD eq_refl). cbn [explicit_tag] in Hex. apply andb_prop in Hex. destruct Hex as [_ Hex].
    destruct (tcls t); [discriminate| | |]; reflexivity.
  - (* choice tagged: impossible without a guiding type *)
    intros sp ts fl T alts body n q Hsel Hb Htg HD IHD -> t acc raw ->.
    apply sel_none in Hsel. destruct Hsel as (Hx & _). discriminate.
  - intros sp ts fl T alts body ct q Hsel Hb Htg HV IHV -> t acc raw ->.
    apply sel_none in Hsel. destruct Hsel as (Hx & _). discriminate.
  - intros A _. reflexivity.
  - intros A sp u n q rest ns qs HA Hok HD IHD HF IHF HAll. cbn [forallb].
    rewrite (IHD (HAll _ HA)), (IHF HAll). reflexivity.
Qed.

(* ---------- the global statement, no guiding type ---------- *)

(* Whatever the DER decoder accepts without a guiding type: the octets it consumed are ONE TLV whose
   tree n has the DER shape at every depth (all lengths definite, no constructed string, BOOLEAN
   contents 00/FF).  n IS the tree of the reference parser of Spec/X690.v (q = false), except when
   the input uses one of the two forms that parser refuses and the decoder accepts (q = true):
   a first length octet FF (X.690 8.1.3.5 c) or a BOOLEAN in constructed form. *)
Theorem der_accepts_der_shape : forall b d tl, wf_bytes b = true ->
  decode DER None b = Ok (d, tl) ->
  exists used n q, b = used ++ tl /\ D SNone [] used n q /\ der_shape n = true
                   /\ X690.parse b = (if q then None else Some (n, tl)).
Proof.
  intros b d tl Hwf H.
  destruct (decode_der_derivation None b d tl I H) as (used & n & q & Hb & HD).
  exists used, n, q. split; [exact Hb|]. split; [exact HD|]. split.
  - destruct derivation_der_shape as [H1 _]. exact (H1 _ _ _ _ _ HD eq_refl).
  - destruct derivation_parse as [H1 _]. unfold X690.parse. rewrite Hb.
    unfold wf_bytes in Hwf. rewrite Hb in Hwf. apply wf_app in Hwf. destruct Hwf as [Hwu _].
    apply (H1 _ _ _ _ _ HD Hwu). rewrite app_length. lia.
Qed.

(* in terms of the reference parser alone *)
Corollary der_accepts_parsed_der_shape : forall b d tl n rest, wf_bytes b = true ->
  decode DER None b = Ok (d, tl) -> X690.parse b = Some (n, rest) ->
  rest = tl /\ der_shape n = true.
Proof.
  intros b d tl n rest Hwf H Hp.
  destruct (der_accepts_der_shape b d tl Hwf H) as (used & n0 & q & Hb & _ & Hs & Hq).
  rewrite Hp in Hq. destruct q; [discriminate|]. inversion Hq; subst. auto.
Qed.

(* the hypotheses are satisfiable: SEQUENCE { [0] EXPLICIT BOOLEAN TRUE, OCTET STRING 'A', SEQUENCE { NULL } } *)
Example der_accepts_der_shape_ex :
  let b := [48; 12; 160; 3; 1; 1; 255; 4; 1; 65; 48; 2; 5; 0; 7] in
  wf_bytes b = true
  /\ (exists d, decode DER None b = Ok (d, [7]))
  /\ (exists n, X690.parse b = Some (n, [7]) /\ der_shape n = true).
Proof. vm_compute. split; [reflexivity|]. split; eexists; [reflexivity|split; reflexivity]. Qed.

(* the same element with an inner indefinite length, a constructed OCTET STRING, or BOOLEAN 01 is refused *)
Example der_refuses_deep_ex :
  decode DER None [48; 9; 160; 128; 1; 1; 255; 0; 0; 5; 0] = Err EMalformed
  /\ decode DER None [48; 9; 160; 7; 36; 5; 4; 3; 65; 66; 67] = Err EMalformed
  /\ decode DER None [48; 7; 160; 5; 48; 3; 1; 1; 1] = Err EMalformed.
Proof. vm_compute. repeat split. Qed.

(* DEFECT (also in /repo): the strict BOOLEAN decoder of CER/DER does not check the tag format, so
   DER and CER accept a BOOLEAN in CONSTRUCTED form (21 01 FF), which BER refuses and which is not
   even a TLV tree for the reference parser; at any depth (30 03 21 01 00) and under IMPLICIT tags *)
Example constructed_boolean_accepted :
  decode DER None [33; 1; 255] = Ok (DV TBool (VBool true), [])
  /\ decode CER None [33; 1; 255] = Ok (DV TBool (VBool true), [])
  /\ decode BER None [33; 1; 255] = Err EMalformed
  /\ X690.parse [33; 1; 255] = None
  /\ (exists d, decode DER None [48; 3; 33; 1; 0] = Ok (d, []))
  /\ decode DER (Some (TImp (mkTag Ctx false 0) TBool)) [160; 1; 255] = Ok (DV (TImp (mkTag Ctx false 0) TBool) (VBool true), []).
Proof. vm_compute. repeat split. eexists. reflexivity. Qed.

(* not C15: a reserved first length octet FF followed by 127 length octets is accepted by the decoders *)
Example reserved_length_accepted :
  (exists d, decode DER None ([4; 255] ++ repeat 0 126 ++ [1; 65]) = Ok (d, []))
  /\ X690.parse ([4; 255] ++ repeat 0 126 ++ [1; 65]) = None.
Proof. vm_compute. split; [eexists|]; reflexivity. Qed.

Print Assumptions dec_call_der_derivation.
Print Assumptions decode_der_derivation.
Print Assumptions derivation_parse.
Print Assumptions der_accepts_der_shape.
Print Assumptions der_accepts_parsed_der_shape.

(* ====================================================================== *)
(* 8. Phase B: the shape of the tree against a guiding type                 *)
(* ====================================================================== *)

(* no TLV of the tree has an indefinite length *)
Fixpoint definite (n: node) : bool :=
  match n with Prim _ _ _ _ => true | Cons _ _ indef kids _ => negb indef && forallb definite kids end.

Theorem derivation_definite :
  (forall sp acc used n q, D sp acc used n q -> definite n = true)
  /\ (forall sp ts body ct q, V sp ts body ct q -> forall c num raw, definite (mk_node c num body ct raw) = true)
  /\ (forall A body kids q, F A body kids q -> forallb definite kids = true).
Proof.
  apply DVF_ind.
  - intros sp acc ib lb body t l ct qv Hid Hdl Hlen HV IHV. apply IHV.
  - intros; reflexivity.
  - intros; reflexivity.
  - intros; reflexivity.
  - intros sp ts cd fl spT body kids q Hsel Hcd Hc HF IHF c num raw. cbn [mk_node definite negb andb]. exact IHF.
  - intros sp ts body n q Hsel Hex HD IHD c num raw. cbn [mk_node definite forallb negb andb]. rewrite IHD. reflexivity.
  - intros sp ts fl T alts body n q Hsel Hb Htg HD IHD c num raw.
    destruct (tag0_cons ts); cbn [mk_node definite forallb negb andb]; [rewrite IHD|]; reflexivity.
  - intros sp ts fl T alts body ct q Hsel Hb Htg HV IHV c num raw. apply IHV.
  - intros; reflexivity.
  - intros A sp u n q rest ns qs HA Hok HD IHD HF IHF. cbn [forallb]. rewrite IHD, IHF. reflexivity.
Qed.

(* guiding types built without ANY and CHOICE *)
Fixpoint plain (T: ty) : bool :=
  match T with
  | TAny | TChoice _ => false
  | TImp _ x | TExp _ x => plain x
  | TSeqOf t | TSetOf t => plain t
  | TSeq fs | TSet fs => (fix go (l: list (presence * ty)) : bool := match l with [] => true | f :: r => plain (snd f) && go r end) fs
  | _ => true
  end.
Lemma plain_fields fs : (fix go (l: list (presence * ty)) : bool := match l with [] => true | f :: r => plain (snd f) && go r end) fs = forallb plain (map snd fs).
Proof. induction fs as [|f r IH]; [reflexivity|]. cbn [map forallb]. rewrite IH. reflexivity. Qed.
Lemma plain_base T : plain T = true -> plain (base_of T) = true.
Proof. induction T; cbn [plain base_of]; auto. Qed.

Definition strict_contents (c: bytes) : bool := bytes_eqb c [0] || bytes_eqb c [255].

(* what a guiding type says about the tree of an accepted element: under every EXPLICIT tag exactly one
   member; BOOLEAN primitive with contents 00/FF and string types primitive WHATEVER tag they carry
   (IMPLICIT tagging); members of SEQUENCE OF / SET OF, and each member of a SEQUENCE / SET as one of
   its components - a component whose outermost tag is the member's (X690.may_start) - recursively *)
Fixpoint gshape (T: ty) (n: node) {struct T} : bool :=
  match T with
  | TImp _ x => gshape x n
  | TExp _ x => match n with Cons _ _ false [k] _ => gshape x k | _ => false end
  | TBool => match n with Prim _ _ c _ => strict_contents c | _ => false end
  | TBits | TOcts | TStr _ => match n with Prim _ _ _ _ => true | _ => false end
  | TSeqOf t | TSetOf t => match n with Cons _ _ false kids _ => forallb (gshape t) kids | _ => false end
  | TSeq fs | TSet fs =>
      match n with
      | Cons _ _ false kids _ =>
          match fs with
          | [] => true
          | _ => forallb (fun k => (fix ex (l: list (presence * ty)) : bool :=
                                      match l with [] => false | (_, ft) :: r => (may_start ft (node_tag k) && gshape ft k) || ex r end) fs) kids
          end
      | _ => false
      end
  | TChoice alts => (fix ex (l: list ty) : bool := match l with [] => false | a :: r => (may_start a (node_tag n) && gshape a n) || ex r end) alts
  | _ => true
  end.

Lemma gshape_fields_ex fs k : 
  (fix ex (l: list (presence * ty)) : bool := match l with [] => false | (_, ft) :: r => (may_start ft (node_tag k) && gshape ft k) || ex r end) fs
  = existsb (fun ft => may_start ft (node_tag k) && gshape ft k) (map snd fs).
Proof. induction fs as [|[p ft] r IH]; [reflexivity|]. cbn [map snd existsb]. rewrite IH. reflexivity. Qed.

Fixpoint n_expl (T: ty) : nat := match T with TExp _ x => S (n_expl x) | TImp _ x => n_expl x | _ => O end.

Fixpoint chain (j: nat) (n n0: node) : Prop :=
  match j with
  | O => n = n0
  | S j' => match n with Cons _ _ false [k] _ => chain j' k n0 | _ => False end
  end.

Lemma gshape_chain : forall T n n0, chain (n_expl T) n n0 -> gshape (base_of T) n0 = true -> gshape T n = true.
Proof.
  induction T; intros nd nd0 Hc Hg; cbn [n_expl chain base_of] in *; try (subst nd0; exact Hg).
  - cbn [gshape]. exact (IHT _ _ Hc Hg).
  - destruct nd as [|c num [|] [|k [|k2 r]] raw]; try destruct Hc. cbn [gshape]. exact (IHT _ _ Hc Hg).
Qed.

Lemma tagset_len : forall T ts, plain T = true -> tagset_of T = Ok ts -> length ts = S (n_expl T).
Proof.
  induction T; intros ts Hp H; cbn [tagset_of n_expl plain] in *; try (inversion H; subst; reflexivity); try discriminate.
  - destruct (tagset_of T) as [ts'|] eqn:E; cbn [bind] in H; [|discriminate]. inversion H; subst; clear H.
    specialize (IHT ts' Hp eq_refl). unfold tag_implicitly.
    destruct (rev ts') as [|last r] eqn:Er.
    + apply (f_equal (@length tag)) in Er. rewrite rev_length in Er. cbn in Er. lia.
    + apply (f_equal (@length tag)) in Er. rewrite rev_length in Er. cbn [length] in Er.
      rewrite app_length, rev_length. cbn [length]. lia.
  - destruct (tagset_of T) as [ts'|] eqn:E; cbn [bind] in H; [|discriminate].
    specialize (IHT ts' Hp eq_refl). unfold tag_explicitly in H. destruct (tcls t); [discriminate| | |];
      inversion H; subst; rewrite app_length; cbn [length]; lia.
Qed.

(* CV T ts n: n is the element at which the tags ts (innermost first) of T's tag set have been met; the
   remaining EXPLICIT wrappers lead to the base element n0; the outermost tag met is T's outermost *)
Definition dtag : tag := mkTag Univ false 0.
Definition last_ok (ts: tagset) (T: ty) : Prop := tag_eqb (last ts dtag) (last (tagset_of' T) dtag) = true.
Definition CV (T: ty) (ts: tagset) (n: node) : Prop :=
  exists j n0, chain j n n0 /\ (length ts + j = length (tagset_of' T))%nat /\ gshape (base_of T) n0 = true /\ last_ok ts T.

Lemma cls_eqb_class_no a b : cls_eqb a b = true -> N.eqb (class_no a) (class_no b) = true.
Proof. destruct a, b; cbn; intros; try discriminate; reflexivity. Qed.

Lemma tag_eqb_pair t c f n : tag_eqb t (mkTag c f n) = true -> tag_pair_eqb (tcls t, tnum t) (c, n) = true.
Proof.
  unfold tag_eqb, tag_pair_eqb. cbn [tcls tnum fst snd]. intros H. apply andb_prop in H. destruct H as [H1 H2].
  rewrite (cls_eqb_class_no _ _ H1), H2. reflexivity.
Qed.

(* the outermost tag of a type's tag set is the tag its encodings start with *)
Lemma last_may_start T t : plain T = true -> tagset_of' T <> [] ->
  tag_eqb t (last (tagset_of' T) dtag) = true -> may_start T (tcls t, tnum t) = true.
Proof.
  intros Hp Hne H. unfold may_start.
  destruct T; try discriminate;
    try (cbn in H; cbn [first_tags existsb]; rewrite (tag_eqb_pair _ _ _ _ H); reflexivity).
  - (* IMPLICIT *) cbn [first_tags existsb]. unfold tagset_of' in *. cbn [tagset_of] in *.
    destruct (tagset_of T) as [ts'|]; cbn [bind] in *; [|congruence].
    unfold tag_implicitly in H. destruct (rev ts') as [|l0 r].
    + cbn in H. destruct t0 as [c0 f0 n0]. cbn [tcls tnum]. rewrite (tag_eqb_pair _ _ _ _ H). reflexivity.
    + rewrite last_last in H. rewrite (tag_eqb_pair _ _ _ _ H). reflexivity.
  - (* EXPLICIT *) cbn [first_tags existsb]. unfold tagset_of' in *. cbn [tagset_of] in *.
    destruct (tagset_of T) as [ts'|]; cbn [bind] in *; [|congruence].
    unfold tag_explicitly in *. destruct (tcls t0) eqn:Ec; [congruence| | |];
      rewrite last_last in H; rewrite (tag_eqb_pair _ _ _ _ H); reflexivity.
Qed.

Lemma CV_gshape T t n : plain T = true -> CV T [t] n -> gshape T n = true /\ may_start T (tcls t, tnum t) = true.
Proof.
  intros Hp (j & n0 & Hc & Hl & Hg & Hlast). split.
  - apply (gshape_chain T n n0); [|exact Hg].
    unfold tagset_of' in Hl. destruct (tagset_of T) as [ts|] eqn:E; [|cbn in Hl; lia].
    rewrite (tagset_len _ _ Hp E) in Hl. cbn [length] in Hl. replace (n_expl T) with j by lia. exact Hc.
  - apply last_may_start; [exact Hp| |exact Hlast].
    intros E. rewrite E in Hl. cbn [length] in Hl. lia.
Qed.

Definition plainmap (m: tmap) : Prop :=
  tm_default m = None /\ Forall (fun kt => plain (snd kt) = true /\ fst kt = tagset_of' (snd kt)) (tm_present m).
Definition sp_plain (sp: spec) : Prop :=
  match sp with STy T => plain T = true | SMap m => plainmap m | SNone => True end.
Definition cand (sp: spec) (T': ty) : Prop :=
  match sp with STy T => T' = T | SMap m => In T' (map snd (tm_present m)) | SNone => False end.
Definition claim (sp: spec) (ts: tagset) (n: node) : Prop :=
  match sp with SNone => True | _ => sp_plain sp -> exists T', cand sp T' /\ plain T' = true /\ CV T' ts n end.

Lemma tagmap_plain T : plain T = true -> tagmap_of T = mkTmap [(tagset_of' T, T)] [] None false.
Proof. destruct T; try reflexivity; discriminate. Qed.

Lemma combine_maps_forall u (P: tagset * ty -> Prop) : forall l acc,
  (forall m T kt, In (m, T) l -> In kt (tm_present m) -> P (fst kt, T)) ->
  (forall m T, In (m, T) l -> tm_default m = None) ->
  Forall P (tm_present acc) -> tm_default acc = None ->
  Forall P (tm_present (combine_maps u l acc)) /\ tm_default (combine_maps u l acc) = None.
Proof.
  induction l as [|[m T] r IH]; intros acc Hl Hd Ha Hda; [split; assumption|].
  cbn [combine_maps]. apply IH.
  - intros m' T' kt Hi. apply Hl. right. exact Hi.
  - intros m' T' Hi. apply (Hd m' T'). right. exact Hi.
  - cbn [tm_present].
    assert (Hm: forall kt, In kt (tm_present m) -> P (fst kt, T)) by (intros kt Hk; apply (Hl m T kt); [left; reflexivity|exact Hk]).
    revert Hm. generalize (tm_present acc) Ha. induction (tm_present m) as [|kt q IHq]; intros p Hp Hm; [exact Hp|].
    cbn [fold_left]. apply IHq; [|intros kt' Hk; apply Hm; right; exact Hk].
    apply Forall_app. split.
    + rewrite Forall_forall in *. intros x Hx. apply filter_In in Hx. apply Hp. exact (proj1 Hx).
    + constructor; [apply Hm; left; reflexivity|constructor].
  - cbn [tm_default]. rewrite Hda. apply (Hd m T). left. reflexivity.
Qed.

Lemma fields_tagmap_plain u fs : forallb plain fs = true ->
  plainmap (fields_tagmap u fs) /\ Forall (fun kt => In (snd kt) fs) (tm_present (fields_tagmap u fs)).
Proof.
  intros Hp. unfold fields_tagmap.
  destruct (combine_maps_forall u (fun kt => (plain (snd kt) = true /\ fst kt = tagset_of' (snd kt)) /\ In (snd kt) fs)
              (map (fun t => (tagmap_of t, t)) fs) empty_tmap) as [H1 H2].
  - intros m T kt Hi Hk. apply in_map_iff in Hi. destruct Hi as (t & Ht & Hi). inversion Ht; subst; clear Ht.
    rewrite forallb_forall in Hp. pose proof (Hp _ Hi) as HpT. rewrite (tagmap_plain _ HpT) in Hk.
    cbn [tm_present] in Hk. destruct Hk as [<-|[]]. cbn [fst snd]. auto.
  - intros m T Hi. apply in_map_iff in Hi. destruct Hi as (t & Ht & Hi). inversion Ht; subst; clear Ht.
    rewrite forallb_forall in Hp. rewrite (tagmap_plain _ (Hp _ Hi)). reflexivity.
  - constructor.
  - reflexivity.
  - split; [split; [exact H2|]|].
    + rewrite Forall_forall in *. intros x Hx. exact (proj1 (H1 x Hx)).
    + rewrite Forall_forall in *. intros x Hx. exact (proj2 (H1 x Hx)).
Qed.

(* the DER tables by kind of type: BOOLEAN gets the strict decoder, strings a string decoder, the
   constructed types a constructed decoder - by type id and by tag *)
Definition str_key (k: tkey) : bool := match k with KBits | KOcts | KStr _ => true | _ => false end.
Definition cont_key (k: tkey) : bool := match k with KSeq | KSet | KSeqOf | KSetOf => true | _ => false end.
Definition kind_ok (e: entry) : bool :=
  implb (match e_key e with KBool => true | _ => false end) (match e_cd e with DcBoolCer => true | _ => false end)
  && implb (str_key (e_key e)) (string_cd (e_cd e))
  && implb (cont_key (e_key e)) (container_cd (e_cd e)).
Lemma der_kind_ok : forallb kind_ok (dec_type_map DER) = true /\ forallb kind_ok (dec_tag_map DER) = true.
Proof. split; vm_compute; reflexivity. Qed.

Lemma kind_ok_inv k cd fl : kind_ok (k, cd, fl) = true ->
  (k = KBool -> cd = DcBoolCer) /\ (str_key k = true -> string_cd cd = true) /\ (cont_key k = true -> container_cd cd = true).
Proof.
  unfold kind_ok, e_key, e_cd. cbn [fst snd]. intros H.
  apply andb_prop in H. destruct H as [H H3]. apply andb_prop in H. destruct H as [H1 H2].
  split; [|split].
  - intros ->. destruct cd; try discriminate; reflexivity.
  - intros E. rewrite E in H2. exact H2.
  - intros E. rewrite E in H3. exact H3.
Qed.

Lemma by_type_kind T cd fl : by_type DER T = Some (cd, fl) ->
  (key_of T = KBool -> cd = DcBoolCer) /\ (str_key (key_of T) = true -> string_cd cd = true)
  /\ (cont_key (key_of T) = true -> container_cd cd = true).
Proof.
  intros H. apply by_type_entry in H. destruct der_kind_ok as [K1 K2]. rewrite forallb_forall in K1, K2.
  destruct H as [(k & Hi & Hk)|(k & Hi & Hk)].
  - subst k. exact (kind_ok_inv _ _ _ (K1 _ Hi)).
  - destruct (kind_ok_inv _ _ _ (K2 _ Hi)) as (A1 & A2 & A3). unfold tag_fallback_key in Hk.
    split; [|split].
    + intros E. rewrite E in Hk. exact (A1 (eq_sym Hk)).
    + intros E. apply A2. destruct (key_of T); try discriminate; subst k; reflexivity.
    + intros E. apply A3. destruct (key_of T); try discriminate; subst k; reflexivity.
Qed.

Lemma tagset_eqb_len : forall a b, tagset_eqb a b = true -> length a = length b.
Proof.
  unfold tagset_eqb. induction a as [|x a IH]; destruct b as [|y b]; cbn [list_eqb]; intros H; try discriminate; [reflexivity|].
  apply andb_prop in H. destruct H as [_ H]. cbn [length]. f_equal. apply IH. exact H.
Qed.

Lemma sel_guided_gen c sp ts cd fl spT : sel c sp ts = Ok (Some (cd, fl, spT)) -> sp_plain sp -> sp <> SNone ->
  exists T', spT = Some T' /\ plain T' = true /\ by_type c T' = Some (cd, fl)
             /\ tagset_eqb ts (tagset_of' T') = true /\ cand sp T'.
Proof.
  intros H Hp Hne. destruct sp as [|T|m]; [congruence| |]; cbn [sel sp_plain cand] in *.
  - destruct (tagset_eqb ts (tagset_of' T) || tm_contains (tagmap_of T) ts)%bool eqn:Em; [|discriminate].
    destruct (tm_postponed (tagmap_of T)); [discriminate|].
    destruct (by_type c T) as [[cd0 fl0]|] eqn:E; [|discriminate]. inversion H; subst; clear H.
    exists T. split; [reflexivity|]. split; [exact Hp|]. split; [exact E|]. split; [|reflexivity].
    destruct (tagset_eqb ts (tagset_of' T)) eqn:Et; [reflexivity|].
    cbn [orb] in Em. rewrite (tagmap_plain _ Hp) in Em. unfold tm_contains, tm_find in Em.
    cbn [tm_present tm_default assoc] in Em. rewrite Et in Em. discriminate.
  - destruct (tm_get m ts) as [[T|]|e] eqn:Eg; try discriminate.
    destruct (by_type c T) as [[cd0 fl0]|] eqn:E; [|discriminate]. inversion H; subst; clear H.
    destruct Hp as [Hd Hpr]. unfold tm_get in Eg. destruct (tm_postponed m); [discriminate|].
    unfold tm_find in Eg. destruct (assoc tagset_eqb ts (tm_present m)) as [T0|] eqn:Ea; [|rewrite Hd in Eg; discriminate].
    inversion Eg; subst; clear Eg. apply assoc_in in Ea. destruct Ea as (k & Hi & Hk).
    rewrite Forall_forall in Hpr. destruct (Hpr _ Hi) as [HpT Hkk]. cbn [fst snd] in *. subst k.
    exists T. split; [reflexivity|]. split; [exact HpT|]. split; [exact E|]. split; [exact Hk|].
    apply in_map_iff. exists (tagset_of' T, T). auto.
Qed.

Lemma sel_guided sp ts cd fl spT : sel DER sp ts = Ok (Some (cd, fl, spT)) -> sp_plain sp -> sp <> SNone ->
  exists T', spT = Some T' /\ plain T' = true /\ by_type DER T' = Some (cd, fl)
             /\ tagset_eqb ts (tagset_of' T') = true /\ cand sp T'.
Proof. apply sel_guided_gen. Qed.

Lemma claim_intro sp ts n :
  (sp <> SNone -> sp_plain sp -> exists T', cand sp T' /\ plain T' = true /\ CV T' ts n) -> claim sp ts n.
Proof. intros H. destruct sp as [|T|m]; [exact I| |]; intros Hp; apply H; try discriminate; exact Hp. Qed.

Lemma tagset_eqb_last : forall a b, tagset_eqb a b = true -> tag_eqb (last a dtag) (last b dtag) = true.
Proof.
  unfold tagset_eqb. induction a as [|x a IH]; destruct b as [|y b]; cbn [list_eqb]; intros H; try discriminate; [reflexivity|].
  apply andb_prop in H. destruct H as [Hxy H]. specialize (IH _ H).
  destruct a as [|x2 a]; destruct b as [|y2 b]; cbn [list_eqb] in H; try discriminate; [exact Hxy|exact IH].
Qed.

Lemma claim_match sp (ts: tagset) T' node : cand sp T' -> plain T' = true -> tagset_eqb ts (tagset_of' T') = true ->
  gshape (base_of T') node = true -> exists T', cand sp T' /\ plain T' = true /\ CV T' ts node.
Proof.
  intros Hc Hp Hl Hg. exists T'. split; [exact Hc|]. split; [exact Hp|].
  exists O, node. split; [reflexivity|]. split; [rewrite (tagset_eqb_len _ _ Hl); lia|]. split; [exact Hg|].
  exact (tagset_eqb_last _ _ Hl).
Qed.

Definition kid_claims (spT: option ty) (kids: list node) : Prop :=
  Forall (fun k => exists sp' t, child_spec spT sp' /\ node_tag k = (tcls t, tnum t) /\ claim sp' [t] k) kids.

Lemma kids_listof T' t kids : (base_of T' = TSeqOf t \/ base_of T' = TSetOf t) -> plain t = true ->
  kid_claims (Some T') kids -> forallb (gshape t) kids = true.
Proof.
  intros Hb Hp Hk. apply forallb_forall. intros k Hin. unfold kid_claims in Hk. rewrite Forall_forall in Hk.
  destruct (Hk _ Hin) as (sp' & tk & Hc & Htag & Hcl). unfold child_spec in Hc.
  assert (sp' = STy t) by (destruct Hb as [E|E]; rewrite E in Hc; exact Hc). subst sp'.
  destruct (Hcl Hp) as (T'' & -> & _ & HCV). exact (proj1 (CV_gshape _ _ _ Hp HCV)).
Qed.

Lemma kids_record T' fs kids : (base_of T' = TSeq fs \/ base_of T' = TSet fs) -> forallb plain (map snd fs) = true ->
  fs <> [] -> kid_claims (Some T') kids ->
  forallb (fun k => existsb (fun ft => may_start ft (node_tag k) && gshape ft k) (map snd fs)) kids = true.
Proof.
  intros Hb Hp Hne Hk. apply forallb_forall. intros k Hin. unfold kid_claims in Hk. rewrite Forall_forall in Hk.
  destruct (Hk _ Hin) as (sp' & tk & Hc & Htag & Hcl). unfold child_spec in Hc.
  assert (Hc': (fs = [] /\ sp' = SNone) \/ (exists f, In f (map snd fs) /\ sp' = STy f)
               \/ (exists u fs', incl fs' (map snd fs) /\ sp' = SMap (fields_tagmap u fs')))
    by (destruct Hb as [E|E]; rewrite E in Hc; exact Hc).
  apply existsb_exists. rewrite Htag.
  destruct Hc' as [[E _]|[(f & Hf & ->)|(u & fs' & Hinc & ->)]]; [congruence| |].
  - assert (Hpf: plain f = true) by (rewrite forallb_forall in Hp; exact (Hp _ Hf)).
    destruct (Hcl Hpf) as (T'' & -> & _ & HCV). exists f. split; [exact Hf|].
    destruct (CV_gshape _ _ _ Hpf HCV) as [G1 G2]. rewrite G1, G2. reflexivity.
  - assert (Hp': forallb plain fs' = true) by (apply forallb_forall; intros x Hx; rewrite forallb_forall in Hp; exact (Hp _ (Hinc _ Hx))).
    destruct (fields_tagmap_plain u fs' Hp') as [Hpm Hrange].
    destruct (Hcl Hpm) as (T'' & Hcand & HpT & HCV). cbn [cand] in Hcand.
    apply in_map_iff in Hcand. destruct Hcand as (kt & <- & Hkt). rewrite Forall_forall in Hrange.
    exists (snd kt). split; [exact (Hinc _ (Hrange _ Hkt))|].
    destruct (CV_gshape _ _ _ HpT HCV) as [G1 G2]. rewrite G1, G2. reflexivity.
Qed.

Definition GD (sp: spec) (acc: tagset) (used: bytes) (n: node) (q: bool) : Prop :=
  exists t, node_tag n = (tcls t, tnum t) /\ claim sp (t :: acc) n.
Definition GV (sp: spec) (ts: tagset) (body: bytes) (ct: content) (q: bool) : Prop :=
  forall c num raw, claim sp ts (mk_node c num body ct raw).
Definition GF (A: spec -> Prop) (body: bytes) (kids: list node) (q: bool) : Prop :=
  Forall (fun k => exists sp' t, A sp' /\ node_tag k = (tcls t, tnum t) /\ claim sp' [t] k) kids.

Lemma forallb_ext' {X} (f g: X -> bool) : (forall x, f x = g x) -> forall l, forallb f l = forallb g l.
Proof. intros H. induction l as [|x r IH]; [reflexivity|]. cbn [forallb]. rewrite H, IH. reflexivity. Qed.

Lemma gshape_seq fs n : gshape (TSeq fs) n =
  match n with
  | Cons _ _ false kids _ => match fs with [] => true | _ => forallb (fun k => existsb (fun ft => may_start ft (node_tag k) && gshape ft k) (map snd fs)) kids end
  | _ => false
  end.
Proof.
  cbn [gshape]. destruct n as [|c num [|] kids raw]; try reflexivity. destruct fs as [|f0 fr]; [reflexivity|].
  apply forallb_ext'. intros k. exact (gshape_fields_ex (f0 :: fr) k).
Qed.
Lemma gshape_set fs n : gshape (TSet fs) n =
  match n with
  | Cons _ _ false kids _ => match fs with [] => true | _ => forallb (fun k => existsb (fun ft => may_start ft (node_tag k) && gshape ft k) (map snd fs)) kids end
  | _ => false
  end.
Proof.
  cbn [gshape]. destruct n as [|c num [|] kids raw]; try reflexivity. destruct fs as [|f0 fr]; [reflexivity|].
  apply forallb_ext'. intros k. exact (gshape_fields_ex (f0 :: fr) k).
Qed.

Lemma strict_contents_ok body : body = [0] \/ body = [255] -> strict_contents body = true.
Proof. intros [-> | ->]; reflexivity. Qed.

Theorem derivation_gshape :
  (forall sp acc used n q, D sp acc used n q -> GD sp acc used n q)
  /\ (forall sp ts body ct q, V sp ts body ct q -> GV sp ts body ct q)
  /\ (forall A body kids q, F A body kids q -> GF A body kids q).
Proof.
  apply DVF_ind.
  - intros sp acc ib lb body t l ct qv Hid Hdl Hlen HV IHV. exists t. split; [destruct ct; reflexivity|].
    exact (IHV (tcls t) (tnum t) _).
  - (* bool *)
    intros sp ts fl spT body Hsel Hb c num raw. apply claim_intro; intros Hne Hpl;
      (destruct (sel_guided _ _ _ _ _ Hsel Hpl Hne) as (T' & _ & HpT & Hby & Hl & Hc);
       refine (claim_match sp ts T' _ Hc HpT Hl _);
       destruct (by_type_kind _ _ _ Hby) as (K1 & K2 & K3);
       pose proof (plain_base _ HpT) as Hpb; pose proof (base_not_wrapper T') as Hw;
       unfold key_of in K1, K2, K3; cbn [mk_node];
       destruct (base_of T'); cbn [gshape]; try reflexivity; try discriminate; try (destruct Hw; fail);
       try (apply strict_contents_ok; exact Hb); try (specialize (K3 eq_refl); discriminate)).
  - (* simple *)
    intros sp ts cd fl spT body Hsel Hcd Hs c num raw. apply claim_intro; intros Hne Hpl;
      (destruct (sel_guided _ _ _ _ _ Hsel Hpl Hne) as (T' & _ & HpT & Hby & Hl & Hc);
       refine (claim_match sp ts T' _ Hc HpT Hl _);
       destruct (by_type_kind _ _ _ Hby) as (K1 & K2 & K3);
       pose proof (plain_base _ HpT) as Hpb; pose proof (base_not_wrapper T') as Hw;
       unfold key_of in K1, K2, K3; cbn [mk_node];
       destruct (base_of T'); cbn [gshape]; try reflexivity; try discriminate; try (destruct Hw; fail);
       try (specialize (K1 eq_refl); subst cd; discriminate);
       try (specialize (K3 eq_refl); destruct cd; discriminate)).
  - (* string *)
    intros sp ts cd fl spT body Hsel Hcd Hs c num raw. apply claim_intro; intros Hne Hpl;
      (destruct (sel_guided _ _ _ _ _ Hsel Hpl Hne) as (T' & _ & HpT & Hby & Hl & Hc);
       refine (claim_match sp ts T' _ Hc HpT Hl _);
       destruct (by_type_kind _ _ _ Hby) as (K1 & K2 & K3);
       pose proof (plain_base _ HpT) as Hpb; pose proof (base_not_wrapper T') as Hw;
       unfold key_of in K1, K2, K3; cbn [mk_node];
       destruct (base_of T'); cbn [gshape]; try reflexivity; try discriminate; try (destruct Hw; fail);
       try (specialize (K1 eq_refl); subst cd; discriminate);
       try (specialize (K3 eq_refl); destruct cd; discriminate)).
  - (* container *)
    intros sp ts cd fl spT body kids q Hsel Hcd Hcons HF IHF c num raw.
    apply claim_intro; intros Hne Hpl;
      (destruct (sel_guided _ _ _ _ _ Hsel Hpl Hne) as (T' & -> & HpT & Hby & Hl & Hc);
       refine (claim_match sp ts T' _ Hc HpT Hl _);
       destruct (by_type_kind _ _ _ Hby) as (K1 & K2 & K3);
       pose proof (plain_base _ HpT) as Hpb; pose proof (base_not_wrapper T') as Hw;
       unfold key_of in K1, K2, K3; cbn [mk_node];
       destruct (base_of T') eqn:Eb; try reflexivity; try discriminate; try (destruct Hw; fail);
       try (specialize (K1 eq_refl); subst cd; discriminate);
       try (specialize (K2 eq_refl); destruct cd; discriminate)).
    + rewrite gshape_seq. destruct fs as [|f0 fr] eqn:Efs; [reflexivity|]. rewrite <- Efs in *.
      cbn [plain] in Hpb. rewrite plain_fields in Hpb.
      apply (kids_record T' fs kids); [left; exact Eb|exact Hpb|rewrite Efs; discriminate|exact IHF].
    + rewrite gshape_set. destruct fs as [|f0 fr] eqn:Efs; [reflexivity|]. rewrite <- Efs in *.
      cbn [plain] in Hpb. rewrite plain_fields in Hpb.
      apply (kids_record T' fs kids); [right; exact Eb|exact Hpb|rewrite Efs; discriminate|exact IHF].
    + cbn [plain] in Hpb. cbn [gshape]. apply (kids_listof T' t kids); [left; exact Eb|exact Hpb|exact IHF].
    + cbn [plain] in Hpb. cbn [gshape]. apply (kids_listof T' t kids); [right; exact Eb|exact Hpb|exact IHF].
  - (* explicit *)
    intros sp ts body n q Hsel Hex HD IHD c num raw. unfold GD in IHD. cbn [mk_node].
    destruct IHD as (t1 & Htag1 & IHD).
    assert (Hlast: forall T', last_ok (t1 :: ts) T' -> last_ok ts T').
    { intros T' Hx. unfold last_ok in *. destruct ts as [|t0 r]; [discriminate|]. exact Hx. }
    destruct sp as [|T|m]; [exact I| |]; intros Hpl; destruct (IHD Hpl) as (T' & Hc & HpT & j & n0 & Hch & Hl & Hg & Hlo);
      exists T'; (split; [exact Hc|]); (split; [exact HpT|]); exists (S j), n0; (split; [exact Hch|]);
      (split; [cbn [length] in Hl; lia|]); (split; [exact Hg|exact (Hlast _ Hlo)]).
  - (* choice: not a plain type *)
    intros sp ts fl T alts body n q Hsel Hb Htg HD IHD c num raw.
    apply claim_intro; intros Hne Hpl.
    destruct (sel_guided _ _ _ _ _ Hsel Hpl Hne) as (T' & E & HpT & _). inversion E; subst T'.
    apply plain_base in HpT. rewrite Hb in HpT. discriminate.
  - intros sp ts fl T alts body ct q Hsel Hb Htg HV IHV c num raw.
    apply claim_intro; intros Hne Hpl.
    destruct (sel_guided _ _ _ _ _ Hsel Hpl Hne) as (T' & E & HpT & _). inversion E; subst T'.
    apply plain_base in HpT. rewrite Hb in HpT. discriminate.
  - intros A. constructor.
  - intros A sp u n q rest ns qs HA Hok HD IHD HF IHF. constructor; [|exact IHF].
    destruct IHD as (t & Htag & Hcl). exists sp, t. auto.
Qed.

Lemma plain_no_any : forall T, plain T = true -> no_any T = true.
Proof.
  induction T as [| | | | | | | | n|fs IH|fs IH|t IH|t IH|alts IH| |tg x IH|tg x IH] using ty_ind'; cbn [plain no_any]; auto.
  - intros H. induction IH as [|f r Hf Hr IHr]; [reflexivity|]. apply andb_prop in H. destruct H as [H1 H2].
    rewrite (Hf H1), (IHr H2). reflexivity.
  - intros H. induction IH as [|f r Hf Hr IHr]; [reflexivity|]. apply andb_prop in H. destruct H as [H1 H2].
    rewrite (Hf H1), (IHr H2). reflexivity.
  - discriminate.
Qed.

(* ---------- the global statement, with a guiding type (no ANY, no CHOICE) ---------- *)

(* Whatever the DER decoder accepts under a guiding type T: the octets consumed are one TLV whose tree n
   has no indefinite length anywhere and has the shape T demands at every depth and under any tagging:
   every BOOLEAN component primitive with contents 00/FF, every string component primitive, every
   EXPLICIT tag around exactly one member.  n is the tree of the reference parser unless the input uses
   a first length octet FF or a constructed BOOLEAN (q = true), which that parser refuses. *)
Theorem der_accepts_gshape : forall T b d tl, wf_bytes b = true -> plain T = true ->
  decode DER (Some T) b = Ok (d, tl) ->
  exists used n q, b = used ++ tl /\ D (STy T) [] used n q /\ gshape T n = true /\ definite n = true
                   /\ X690.parse b = (if q then None else Some (n, tl)).
Proof.
  intros T b d tl Hwf Hp H.
  destruct (decode_der_derivation (Some T) b d tl (plain_no_any _ Hp) H) as (used & n & q & Hb & HD).
  cbn [guide] in HD. exists used, n, q. split; [exact Hb|]. split; [exact HD|]. split; [|split].
  - destruct derivation_gshape as [H1 _]. destruct (H1 _ _ _ _ _ HD) as (t & Htag & Hc). cbn [claim] in Hc.
    destruct (Hc Hp) as (T' & -> & _ & HCV). exact (proj1 (CV_gshape _ _ _ Hp HCV)).
  - destruct derivation_definite as [H1 _]. exact (H1 _ _ _ _ _ HD).
  - destruct derivation_parse as [H1 _]. unfold X690.parse. rewrite Hb.
    unfold wf_bytes in Hwf. rewrite Hb in Hwf. apply wf_app in Hwf. destruct Hwf as [Hwu _].
    apply (H1 _ _ _ _ _ HD Hwu). rewrite app_length. lia.
Qed.

Corollary der_accepts_parsed_gshape : forall T b d tl n rest, wf_bytes b = true -> plain T = true ->
  decode DER (Some T) b = Ok (d, tl) -> X690.parse b = Some (n, rest) ->
  rest = tl /\ gshape T n = true /\ definite n = true.
Proof.
  intros T b d tl n rest Hwf Hp H Hpa.
  destruct (der_accepts_gshape T b d tl Hwf Hp H) as (used & n0 & q & Hb & _ & Hg & Hd & Hq).
  rewrite Hpa in Hq. destruct q; [discriminate|]. inversion Hq; subst. auto.
Qed.

(* no indefinite length anywhere, for EVERY guiding type without ANY (CHOICE, SET, OPTIONAL included) *)
Theorem der_accepts_definite : forall sp b d tl, wf_bytes b = true -> guide_ok sp ->
  decode DER sp b = Ok (d, tl) ->
  exists used n q, b = used ++ tl /\ D (guide sp) [] used n q /\ definite n = true
                   /\ X690.parse b = (if q then None else Some (n, tl)).
Proof.
  intros sp b d tl Hwf Hok H.
  destruct (decode_der_derivation sp b d tl Hok H) as (used & n & q & Hb & HD).
  exists used, n, q. split; [exact Hb|]. split; [exact HD|]. split.
  - destruct derivation_definite as [H1 _]. exact (H1 _ _ _ _ _ HD).
  - destruct derivation_parse as [H1 _]. unfold X690.parse. rewrite Hb.
    unfold wf_bytes in Hwf. rewrite Hb in Hwf. apply wf_app in Hwf. destruct Hwf as [Hwu _].
    apply (H1 _ _ _ _ _ HD Hwu). rewrite app_length. lia.
Qed.

(* SEQUENCE { [0] IMPLICIT BOOLEAN, [1] EXPLICIT OCTET STRING OPTIONAL, SET OF [2] IMPLICIT UTF8String } *)
Definition ex_ty : ty :=
  TSeq [(Req, TImp (mkTag Ctx false 0) TBool); (Opt, TExp (mkTag Ctx false 1) TOcts);
        (Req, TSetOf (TImp (mkTag Ctx false 2) (TStr 12)))].
Example der_accepts_gshape_ex :
  let b := [48; 15; 128; 1; 255; 161; 3; 4; 1; 65; 49; 5; 130; 1; 66; 130; 0] in
  wf_bytes b = true /\ plain ex_ty = true
  /\ (exists d, decode DER (Some ex_ty) b = Ok (d, []))
  /\ (exists n, X690.parse b = Some (n, []) /\ gshape ex_ty n = true /\ definite n = true).
Proof. vm_compute. split; [reflexivity|]. split; [reflexivity|]. split; eexists; [reflexivity|repeat split]. Qed.

(* the implicitly tagged BOOLEAN with contents 01, the implicitly tagged string in constructed form and
   an indefinite length inside the SET OF are refused *)
Example der_refuses_guided_ex :
  decode DER (Some ex_ty) [48; 5; 128; 1; 1; 49; 0] = Err EMalformed
  /\ decode DER (Some ex_ty) [48; 12; 128; 1; 255; 49; 7; 162; 5; 12; 3; 65; 66; 67] = Err EMalformed
  /\ decode DER (Some ex_ty) [48; 9; 128; 1; 255; 49; 128; 130; 0; 0; 0] = Err EMalformed.
Proof. vm_compute. repeat split. Qed.

(* the content of an ANY is opaque: under [0] EXPLICIT ANY an inner indefinite length passes *)
Example any_is_opaque :
  exists d, decode DER (Some (TExp (mkTag Ctx false 0) TAny)) [160; 4; 36; 128; 0; 0] = Ok (d, []).
Proof. vm_compute. eexists. reflexivity. Qed.

(* with a CHOICE in the guiding type (not covered by gshape) the definite-length statement still applies *)
Example der_accepts_definite_ex :
  let T := TSeqOf (TChoice [TBool; TImp (mkTag Ctx false 1) TOcts]) in
  guide_ok (Some T) /\ (exists d, decode DER (Some T) [48; 6; 1; 1; 255; 129; 1; 65] = Ok (d, []))
  /\ decode DER (Some T) [48; 128; 1; 1; 255; 0; 0] = Err EMalformed
  /\ decode DER (Some T) [48; 5; 161; 3; 4; 1; 65] = Err EMalformed
  /\ decode DER (Some T) [48; 3; 1; 1; 7] = Err EMalformed.
Proof. vm_compute. split; [reflexivity|]. split; [eexists; reflexivity|]. repeat split. Qed.

Print Assumptions derivation_gshape.
Print Assumptions der_accepts_gshape.
Print Assumptions der_accepts_parsed_gshape.
Print Assumptions der_accepts_definite.

(* ====================================================================== *)
(* 9. BOOLEAN under CER and DER: wherever the dispatcher meets one           *)
(* ====================================================================== *)

(* the element the dispatcher is looking at is a BOOLEAN: by its guiding type (under whatever tags), or,
   without a guiding type, by its UNIVERSAL 1 tag *)
Definition boolean_element (c: codec) (sp: spec) (ts: tagset) : Prop :=
  (exists cd fl T, sel c sp ts = Ok (Some (cd, fl, Some T)) /\ base_of T = TBool)
  \/ (sp = SNone /\ exists t acc, ts = t :: acc /\ tcls t = Univ /\ tnum t = 1).

Lemma key_bool T : base_of T = TBool -> key_of T = KBool.
Proof. unfold key_of. intros ->. reflexivity. Qed.

Lemma by_type_bool c T : c = CER \/ c = DER -> base_of T = TBool -> exists fl, by_type c T = Some (DcBoolCer, fl).
Proof.
  intros Hc Hb. unfold by_type. rewrite (key_bool _ Hb). destruct Hc as [-> | ->]; eexists; vm_compute; reflexivity.
Qed.

Lemma sel_boolean c sp ts : c = CER \/ c = DER -> boolean_element c sp ts ->
  exists fl spT, sel c sp ts = Ok (Some (DcBoolCer, fl, spT)).
Proof.
  intros Hc [(cd & fl & T & Hsel & Hb)|(-> & t & acc & -> & Hu & Hn)].
  - destruct (by_type_bool c T Hc Hb) as (fl' & Hby).
    destruct sp as [|T0|m]; cbn [sel] in *.
    + destruct (by_tag c ts) as [[? ?]|]; [discriminate|]. destruct (by_tag c (firstn 1 ts)) as [[? ?]|]; discriminate.
    + destruct (tagset_eqb ts (tagset_of' T0) || tm_contains (tagmap_of T0) ts)%bool; [|discriminate].
      destruct (tm_postponed (tagmap_of T0)); [discriminate|].
      destruct (by_type c T0) as [[cd0 fl0]|] eqn:E; [|discriminate]. inversion Hsel; subst.
      rewrite Hby in E. inversion E; subst. eauto.
    + destruct (tm_get m ts) as [[T1|]|e]; try discriminate.
      destruct (by_type c T1) as [[cd0 fl0]|] eqn:E; [|discriminate]. inversion Hsel; subst.
      rewrite Hby in E. inversion E; subst. eauto.
  - assert (Hk: key_of_univ_tag t = Some KBool) by (unfold key_of_univ_tag; rewrite Hu, Hn; reflexivity).
    assert (Hb1: exists fl, by_tag c [t] = Some (DcBoolCer, fl)).
    { cbn [by_tag]. rewrite Hk. destruct Hc as [-> | ->]; eexists; vm_compute; reflexivity. }
    destruct Hb1 as (fl & Hb1). cbn [sel firstn].
    destruct acc as [|t2 r]; [rewrite Hb1; eauto|].
    replace (by_tag c (t :: t2 :: r)) with (@None (dec_codec * dec_flags)) by reflexivity. rewrite Hb1. eauto.
Qed.

(* The CER and DER decoders: wherever the dispatcher meets a BOOLEAN - at top level or inside any
   constructed value ([rec] and the fuel are arbitrary, so this is every depth), under any tag stack,
   with or without a guiding type - a successful run read a definite length 1 and one contents octet,
   00 or FF.  In particular an indefinite-length BOOLEAN is refused. *)
Theorem boolean_strict_everywhere : forall c rec lf sp ts len sfun s d s',
  c = CER \/ c = DER -> boolean_element c sp ts ->
  resume (dispatch c rec lf sp ts len sfun) s = inr (Ok d, s') ->
  len = Some 1 /\ exists o, took s s' [o] /\ (o = 0 \/ o = 255).
Proof.
  intros c rec lf sp ts len sfun s d s' Hc Hb H.
  destruct (sel_boolean c sp ts Hc Hb) as (fl & spT & Hsel).
  rewrite dispatch_sel, Hsel in H.
  destruct len as [l|]; [|cbn [run_value dec_value] in H; cbn [resume] in H; discriminate].
  apply run_value_inv in H. destruct H as [H _].
  unfold dec_value in H. cbv beta iota zeta in H.
  assert (Hl: l = 1).
  { unfold dec_bool_cer in H. destruct (N.eqb_spec l 1) as [E|E]; [exact E|]. cbn [negb resume] in H. discriminate. }
  split; [f_equal; exact Hl|].
  apply dec_bool_cer_inv in H. destruct H as (u & Hu & [-> | ->]); eauto.
Qed.

(* at the entry point of the decoder: any fuel, any spec, any accumulated tags; e.g. DER and CER on the
   members of a SEQUENCE, where BER accepts 01 *)
Example boolean_strict_everywhere_ex :
  let T := TSeq [(Req, TExp (mkTag Ctx false 0) (TImp (mkTag Appl false 3) TBool)); (Req, TInt)] in
  (exists d, decode CER (Some T) [48; 128; 160; 128; 67; 1; 255; 0; 0; 2; 1; 5; 0; 0] = Ok (d, []))
  /\ decode CER (Some T) [48; 128; 160; 128; 67; 1; 1; 0; 0; 2; 1; 5; 0; 0] = Err EMalformed
  /\ (exists d, decode BER (Some T) [48; 128; 160; 128; 67; 1; 1; 0; 0; 2; 1; 5; 0; 0] = Ok (d, []))
  /\ decode CER None [48; 128; 160; 128; 1; 1; 1; 0; 0; 0; 0] = Err EMalformed
  /\ (exists d, decode CER None [48; 128; 160; 128; 1; 1; 255; 0; 0; 0; 0] = Ok (d, [])).
Proof. vm_compute. repeat split; try (eexists; reflexivity). Qed.

Print Assumptions boolean_strict_everywhere.

(* ====================================================================== *)
(* 10. The CER decoder: BOOLEAN at every depth, definite and indefinite      *)
(* ====================================================================== *)
(* Guiding types built from BOOLEAN, INTEGER, ENUMERATED, NULL, OID, REAL, SEQUENCE / SET (with members,
   any presence), SEQUENCE OF / SET OF and any tagging.  String types are left out: inside a constructed
   string the CER decoder hands unknown fragments to a raw collector and inspects nothing; so are ANY
   (opaque) and CHOICE. *)
Fixpoint cplain (T: ty) : bool :=
  match T with
  | TAny | TChoice _ | TBits | TOcts | TStr _ => false
  | TImp _ x | TExp _ x => cplain x
  | TSeqOf t | TSetOf t => cplain t
  | TSeq fs | TSet fs =>
      match fs with
      | [] => false
      | _ => (fix go (l: list (presence * ty)) : bool := match l with [] => true | f :: r => cplain (snd f) && go r end) fs
      end
  | _ => true
  end.
Lemma cplain_fields fs : (fix go (l: list (presence * ty)) : bool := match l with [] => true | f :: r => cplain (snd f) && go r end) fs = forallb cplain (map snd fs).
Proof. induction fs as [|f r IH]; [reflexivity|]. cbn [map forallb]. rewrite IH. reflexivity. Qed.
Lemma cplain_base T : cplain T = true -> cplain (base_of T) = true.
Proof. induction T; cbn [cplain base_of]; auto. Qed.

Lemma cplain_plain_fields (fs: list (presence * ty)) :
  Forall (fun f => cplain (snd f) = true -> plain (snd f) = true) fs ->
  forallb cplain (map snd fs) = true -> forallb plain (map snd fs) = true.
Proof.
  intros IH. induction IH as [|f r Hf Hr IHr]; [reflexivity|]. cbn [map forallb]. intros H.
  apply andb_prop in H. destruct H as [H1 H2]. rewrite (Hf H1), (IHr H2). reflexivity.
Qed.

Lemma cplain_plain : forall T, cplain T = true -> plain T = true.
Proof.
  induction T as [| | | | | | | | n|fs IH|fs IH|t IH|t IH|alts IH| |tg x IH|tg x IH] using ty_ind'; cbn [plain cplain]; auto.
  - rewrite plain_fields, cplain_fields. destruct fs as [|f0 fr]; [discriminate|]. apply cplain_plain_fields. exact IH.
  - rewrite plain_fields, cplain_fields. destruct fs as [|f0 fr]; [discriminate|]. apply cplain_plain_fields. exact IH.
Qed.

Definition cmap_ok (m: tmap) : Prop :=
  tm_default m = None /\ Forall (fun kt => cplain (snd kt) = true) (tm_present m).
Definition cspec_ok (sp: spec) : Prop :=
  match sp with SNone => False | STy T => cplain T = true | SMap m => cmap_ok m end.

Lemma fields_tagmap_cok u fs : forallb cplain fs = true -> cmap_ok (fields_tagmap u fs).
Proof.
  intros Hp. unfold fields_tagmap.
  destruct (combine_maps_forall u (fun kt => cplain (snd kt) = true) (map (fun t => (tagmap_of t, t)) fs) empty_tmap) as [H1 H2].
  - intros m T kt Hi Hk. apply in_map_iff in Hi. destruct Hi as (t & Ht & Hi). inversion Ht; subst; clear Ht.
    rewrite forallb_forall in Hp. exact (Hp _ Hi).
  - intros m T Hi. apply in_map_iff in Hi. destruct Hi as (t & Ht & Hi). inversion Ht; subst; clear Ht.
    rewrite forallb_forall in Hp. rewrite (tagmap_plain _ (cplain_plain _ (Hp _ Hi))). reflexivity.
  - constructor.
  - reflexivity.
  - split; assumption.
Qed.

(* the CER tables on these types *)
Lemma by_type_cer_kind T cd fl : cplain T = true -> by_type CER T = Some (cd, fl) ->
  match base_of T with
  | TBool => cd = DcBoolCer
  | TSeq _ | TSet _ | TSeqOf _ | TSetOf _ => container_cd cd = true
  | _ => simple_cd cd = true /\ cd <> DcBoolBer
  end.
Proof.
  intros Hp H. apply cplain_base in Hp. pose proof (base_not_wrapper T) as Hw.
  unfold by_type, tag_fallback_key, key_of in H.
  destruct (base_of T); try discriminate; try (destruct Hw; fail);
    vm_compute in H; inversion H; subst; try reflexivity; split; try reflexivity; discriminate.
Qed.

Lemma sel_cer sp ts cd fl spT : cspec_ok sp -> sel CER sp ts = Ok (Some (cd, fl, spT)) ->
  exists T', spT = Some T' /\ cplain T' = true /\ by_type CER T' = Some (cd, fl).
Proof.
  intros Hok H. destruct sp as [|T|m]; [destruct Hok| |]; cbn [sel cspec_ok] in *.
  - destruct (tagset_eqb ts (tagset_of' T) || tm_contains (tagmap_of T) ts)%bool; [|discriminate].
    destruct (tm_postponed (tagmap_of T)); [discriminate|].
    destruct (by_type CER T) as [[cd0 fl0]|] eqn:E; [|discriminate]. inversion H; subst. eauto.
  - destruct (tm_get m ts) as [[T|]|e] eqn:Eg; try discriminate.
    destruct (by_type CER T) as [[cd0 fl0]|] eqn:E; [|discriminate]. inversion H; subst.
    exists T. split; [reflexivity|]. split; [|exact E].
    destruct Hok as [Hd Hpr]. unfold tm_get in Eg. destruct (tm_postponed m); [discriminate|].
    unfold tm_find in Eg. destruct (assoc tagset_eqb ts (tm_present m)) as [T0|] eqn:Ea; [|rewrite Hd in Eg; discriminate].
    inversion Eg; subst. apply assoc_in in Ea. destruct Ea as (k & Hi & _). rewrite Forall_forall in Hpr. exact (Hpr _ Hi).
Qed.

(* ---------- the derivation for CER: definite and indefinite elements ---------- *)
Definition is_none {X} (o: option X) : bool := match o with None => true | Some _ => false end.

Inductive E : spec -> tagset -> bytes -> node -> bool -> Prop :=
| E_def : forall sp acc ib lb body t l ct qv,
    (forall x, dec_ident (ib ++ x) = Some (t, x)) ->
    (forall x, dec_len (lb ++ x) = Some (Some l, x)) ->
    N.of_nat (length body) = l ->
    W sp (t :: acc) false body ct qv ->
    E sp acc (ib ++ lb ++ body) (mk_node (tcls t) (tnum t) body ct (ib ++ lb ++ body)) (N.eqb (hd 0 lb) 255 || qv)
| E_indef : forall sp acc ib body t kids qv,
    (forall x, dec_ident (ib ++ x) = Some (t, x)) ->
    W sp (t :: acc) true body (CKids kids) qv ->
    E sp acc (ib ++ [128] ++ body ++ [0; 0])
      (Cons (tcls t) (tnum t) true kids (ib ++ [128] ++ body ++ [0; 0])) qv
with W : spec -> tagset -> bool -> bytes -> content -> bool -> Prop :=
| W_bool : forall sp ts fl spT body,
    sel CER sp ts = Ok (Some (DcBoolCer, fl, spT)) -> body = [0] \/ body = [255] ->
    W sp ts false body CPrim (tag0_cons ts)
| W_simple : forall sp ts cd fl spT body,
    sel CER sp ts = Ok (Some (cd, fl, spT)) -> simple_cd cd = true -> cd <> DcBoolBer -> tag0_simple ts = true ->
    W sp ts false body CPrim false
| W_container : forall sp ts indef cd fl spT body kids q,
    sel CER sp ts = Ok (Some (cd, fl, spT)) -> container_cd cd = true -> tag0_cons ts = true ->
    FE (child_spec spT) [] indef body kids q ->
    W sp ts indef body (CKids kids) q
| W_explicit : forall sp ts body n q,
    sel CER sp ts = Ok None -> explicit_tag ts = true ->
    E sp ts body n q ->
    W sp ts false body (CKids [n]) q
| W_explicit_indef : forall sp ts body kids q,
    (* an indefinite-length EXPLICIT wrapper: the decoder takes elements until the end-of-contents
       octets and keeps the last *)
    sel CER sp ts = Ok None -> explicit_tag ts = true -> kids <> [] ->
    FE (fun sp' => sp' = sp) ts true body kids q ->
    W sp ts true body (CKids kids) q
with FE : (spec -> Prop) -> tagset -> bool -> bytes -> list node -> bool -> Prop :=
| FE_nil : forall A acc indef, FE A acc indef [] [] false
| FE_cons : forall (A: spec -> Prop) acc indef sp u n q rest ns qs,
    A sp -> cspec_ok sp -> E sp acc u n q -> (indef = true -> firstn 2 u <> [0; 0]) ->
    FE A acc indef rest ns qs -> FE A acc indef (u ++ rest) (n :: ns) (q || qs).

Scheme E_ind2 := Minimality for E Sort Prop
  with W_ind2 := Minimality for W Sort Prop
  with FE_ind2 := Minimality for FE Sort Prop.
Combined Scheme EWF_ind from E_ind2, W_ind2, FE_ind2.

Definition ccall_ok (rec: rec_t) : Prop :=
  forall sp acc allow s d s', cspec_ok sp ->
    resume (rec sp acc None allow false) s = inr (Ok d, s') ->
    (d = DEoo /\ allow = true /\ took s s' [0; 0])
    \/ (d <> DEoo /\ exists u n q, took s s' u /\ E sp acc u n q /\ (allow = true -> firstn 2 u <> [0; 0])).

Lemma create_not_eoo sp proto ts v s d s' : resume (create sp proto ts v) s = inr (Ok d, s') -> d <> DEoo.
Proof.
  unfold create.
  destruct (base_of match sp with Some T => T | None => schemaless_ty proto ts end); destruct v;
    try (cbn [resume]; intros H; inversion H; discriminate).
  destruct (str_octets_ok n b) as [[|]|]; cbn [resume]; intros H; inversion H; discriminate.
Qed.

Lemma dec_integer_not_eoo lf sp proto ts l s d s' :
  resume (dec_integer lf sp proto ts l) s = inr (Ok d, s') -> d <> DEoo.
Proof.
  unfold dec_integer. destruct (tag0_simple ts); cbn [negb]; intros H; [|dead H].
  binv H b s1 Hb. exact (create_not_eoo _ _ _ _ _ _ _ H).
Qed.
Lemma dec_null_not_eoo lf sp ts l s d s' : resume (dec_null lf sp ts l) s = inr (Ok d, s') -> d <> DEoo.
Proof.
  unfold dec_null. destruct (tag0_simple ts); cbn [negb]; intros H; [|dead H].
  binv H b s1 Hb. destruct b; [|dead H]. exact (create_not_eoo _ _ _ _ _ _ _ H).
Qed.
Lemma dec_oid_not_eoo lf sp ts l s d s' : resume (dec_oid_v lf sp ts l) s = inr (Ok d, s') -> d <> DEoo.
Proof.
  unfold dec_oid_v. destruct (tag0_simple ts); cbn [negb]; intros H; [|dead H].
  binv H b s1 Hb. binv H a s2 Ha. exact (create_not_eoo _ _ _ _ _ _ _ H).
Qed.
Lemma dec_real_not_eoo lf sp ts l s d s' : resume (dec_real_v lf sp ts l) s = inr (Ok d, s') -> d <> DEoo.
Proof.
  unfold dec_real_v. destruct (tag0_simple ts); cbn [negb]; intros H; [|dead H].
  binv H b s1 Hb. binv H a s2 Ha. exact (create_not_eoo _ _ _ _ _ _ _ H).
Qed.
Lemma dec_bool_cer_not_eoo lf sp ts l s d s' : resume (dec_bool_cer lf sp ts l) s = inr (Ok d, s') -> d <> DEoo.
Proof.
  unfold dec_bool_cer. destruct (N.eqb l 1); cbn [negb]; intros H; [|dead H].
  binv H b s1 Hb.
  destruct b as [|o [|o2 r]]; [dead H| |].
  - destruct (N.eq_dec o 0) as [E0|E0]; [subst o; exact (create_not_eoo _ _ _ _ _ _ _ H)|].
    destruct (N.eq_dec o 255) as [E1|E1]; [subst o; exact (create_not_eoo _ _ _ _ _ _ _ H)|].
    exfalso. revert H.
    change (resume (match o with 0 => create sp TBool ts (VInt 0) | 255 => create sp TBool ts (VInt 1) | _ => Raise EMalformed end) s1 = inr (Ok d, s') -> False).
    rewrite (strict_octet o _ _ _ _ E0 E1). cbn [resume]. discriminate.
  - exfalso. revert H.
    change (resume (match o with 0 => Raise EMalformed | 255 => Raise EMalformed | _ => Raise EMalformed end) s1 = inr (Ok d, s') -> False).
    destruct (N.eq_dec o 0) as [E0|E0]; [subst o; cbn [resume]; discriminate|].
    destruct (N.eq_dec o 255) as [E1|E1]; [subst o; cbn [resume]; discriminate|].
    rewrite (strict_octet o _ _ _ _ E0 E1). cbn [resume]. discriminate.
Qed.

(* ---------- end-of-contents is answered only where it was asked for ---------- *)
Definition ne (p: proc dval) : Prop := forall s d s', resume p s = inr (Ok d, s') -> d <> DEoo.

Lemma ne_raise e : ne (Raise e). Proof. intros s d s' H. dead H. Qed.
Lemma ne_ret d0 : d0 <> DEoo -> ne (Ret d0). Proof. intros Hd s d s' H. cbn [resume] in H. inversion H; subst. exact Hd. Qed.
Lemma ne_create sp proto ts v : ne (create sp proto ts v).
Proof. intros s d s' H. exact (create_not_eoo _ _ _ _ _ _ _ H). Qed.
Lemma ne_bind {X} (p: proc X) (f: X -> proc dval) : (forall x, ne (f x)) -> ne (pbind p f).
Proof. intros Hf s d s' H. binv H x s1 Hx. exact (Hf x _ _ _ H). Qed.
Lemma ne_if (b: bool) (p q: proc dval) : ne p -> ne q -> ne (if b then p else q).
Proof. destruct b; auto. Qed.
Lemma ne_collector lf len : ne (collector lf len).
Proof. destruct len; cbn [collector]; apply ne_bind; intros b; apply ne_ret; discriminate. Qed.

Section NoEoo.
  Variable rec : rec_t.
  Variable lf : nat.
  (* the recursive entry point answers end-of-contents only when allowed to *)
  Hypothesis Hrec : forall sp acc r sfun s d s', resume (rec sp acc r false sfun) s = inr (Ok d, s') -> d <> DEoo.

  Lemma ne_octets_loop proto sp ts len start : forall n acc, ne (octets_loop rec proto sp ts len start n acc).
  Proof.
    induction n as [|n IH]; intros acc; [apply ne_raise|]. cbn [octets_loop]. apply ne_bind. intros p.
    apply ne_if; [|apply ne_create]. apply ne_bind. intros f.
    destruct f as [T v| |b| |]; try apply ne_raise; [|apply IH]. destruct v; try apply ne_raise. apply IH.
  Qed.
  Lemma ne_octets_indef_loop proto sp ts : forall n acc, ne (octets_indef_loop rec proto sp ts n acc).
  Proof.
    induction n as [|n IH]; intros acc; [apply ne_raise|]. cbn [octets_indef_loop]. apply ne_bind. intros f.
    destruct f as [T v| |b| |]; try apply ne_raise; [|apply ne_create|apply IH]. destruct v; try apply ne_raise. apply IH.
  Qed.
  Lemma ne_bits_loop sp ts len start : forall n acc, ne (bits_loop rec sp ts len start n acc).
  Proof.
    induction n as [|n IH]; intros acc; [apply ne_raise|]. cbn [bits_loop]. apply ne_bind. intros p.
    apply ne_if; [|apply ne_create]. apply ne_bind. intros f. apply ne_bind. intros acc'. apply IH.
  Qed.
  Lemma ne_bits_indef_loop sp ts : forall n acc, ne (bits_indef_loop rec sp ts n acc).
  Proof.
    induction n as [|n IH]; intros acc; [apply ne_raise|]. cbn [bits_indef_loop]. apply ne_bind. intros f.
    destruct f; try apply ne_create; apply ne_bind; intros acc'; apply IH.
  Qed.
  Lemma ne_any_indef_loop sp ts sfun tagged : forall n acc, ne (any_indef_loop rec sp ts sfun tagged n acc).
  Proof.
    induction n as [|n IH]; intros acc; [apply ne_raise|]. cbn [any_indef_loop]. apply ne_bind. intros f.
    destruct f as [T v| |b| |]; try apply ne_raise.
    - destruct v; try apply ne_raise. apply IH.
    - apply ne_if; [apply ne_ret; discriminate|apply ne_create].
    - apply IH.
  Qed.
  Lemma ne_record_loop T fs is_set len start : forall n idx vs extra, ne (record_loop rec lf T fs is_set len start n idx vs extra).
  Proof.
    induction n as [|n IH]; intros idx vs extra; [apply ne_raise|]. cbn [record_loop]. cbv zeta. apply ne_bind. intros p.
    assert (Hfin: ne (if match fs with [] => true | _ => false end then Ret (DV T (VRec []))
                      else if required_seen fs vs then Ret (DV T (VRec vs)) else Raise EMalformed)).
    { repeat apply ne_if; try apply ne_raise; apply ne_ret; discriminate. }
    apply ne_if; [exact Hfin|].
    match goal with |- ne (match ?sp with _ => _ end) => destruct sp as [sp'|] end; [|apply ne_raise].
    apply ne_bind. intros d0. destruct d0 as [Tc vc| |b| |]; try apply ne_raise; [|exact Hfin|].
    - repeat apply ne_if; try apply ne_raise. apply ne_bind. intros i. apply ne_if; [apply ne_raise|apply IH].
    - repeat apply ne_if; try apply ne_raise.
      destruct (nth_error fs idx) as [[p0 ft]|]; [|apply ne_raise]. apply ne_if; [apply IH|apply ne_raise].
  Qed.
  Lemma ne_listof_loop T t len start : forall n acc, ne (listof_loop rec T t len start n acc).
  Proof.
    induction n as [|n IH]; intros acc; [apply ne_raise|]. cbn [listof_loop]. apply ne_bind. intros p.
    apply ne_if; [apply ne_ret; discriminate|]. apply ne_bind. intros d0.
    destruct d0 as [Tc vc| |b| |]; try apply ne_raise; [apply IH|apply ne_ret; discriminate|].
    apply ne_if; [apply IH|apply ne_raise].
  Qed.
  Lemma ne_schemaless_loop is_set ts len start : forall n acc, ne (schemaless_loop rec is_set ts len start n acc).
  Proof.
    induction n as [|n IH]; intros acc; [destruct acc as [|[T0 v0] r]; apply ne_raise|].
    cbn [schemaless_loop]. cbv zeta.
    assert (Hfin: forall X Y, ne (match acc with [] => Ret (DV X (VList [])) | (T0, _) :: _ => Ret (Y T0) end) -> True) by auto. clear Hfin.
    apply ne_bind. intros p.
    apply ne_if; [destruct acc as [|[T0 v0] r]; apply ne_ret; discriminate|].
    apply ne_bind. intros d0. destruct d0 as [Tc vc| |b| |]; try apply ne_raise; [apply IH|].
    destruct acc as [|[T0 v0] r]; apply ne_ret; discriminate.
  Qed.
  Lemma ne_choice_place T alts d0 : ne (choice_place lf T alts d0).
  Proof. unfold choice_place. destruct d0; try apply ne_raise. apply ne_bind. intros i. apply ne_ret. discriminate. Qed.
  Lemma ne_choice_loop T alts ts tagged : forall n cur, (forall x, cur = Some x -> x <> DEoo) -> ne (choice_loop rec lf T alts ts tagged n cur).
  Proof.
    induction n as [|n IH]; intros cur Hcur; [apply ne_raise|]. cbn [choice_loop]. cbv zeta. apply ne_bind. intros d0.
    assert (Hgo: ne (pbind (choice_place lf T alts d0) (fun x => if tagged then choice_loop rec lf T alts ts tagged n (Some x) else Ret x))).
    { intros s d s' H. binv H x s1 Hx. pose proof (ne_choice_place _ _ _ _ _ _ Hx) as Hxn.
      destruct tagged; [|cbn [resume] in H; inversion H; subst; exact Hxn].
      apply (IH (Some x)) in H; [exact H|]. intros y Hy. inversion Hy; subst. exact Hxn. }
    destruct d0; try exact Hgo.
    destruct cur as [x|]; [apply ne_ret; apply Hcur; reflexivity|apply ne_raise].
  Qed.
  Lemma ne_raw_loop sp ts : forall n last, last <> DEoo -> ne (raw_loop rec sp ts n last).
  Proof.
    induction n as [|n IH]; intros last Hl; [apply ne_raise|]. cbn [raw_loop]. apply ne_bind. intros d0.
    destruct d0; try (apply IH; discriminate).
    destruct last; try apply ne_raise; try (apply ne_ret; discriminate). congruence.
  Qed.

  Lemma ne_dec_value cd fl spT ts len sfun : ne (dec_value rec lf cd fl spT ts len sfun).
  Proof.
    unfold dec_value. cbv zeta.
    assert (Hcont: forall b, ne (if negb (tag0_cons ts) then Raise EMalformed else
              if sfun then collector lf len else
              match spT with
              | None => dec_schemaless rec lf b ts len
              | Some T => match base_of T with
                          | TSeq fs => dec_record rec lf T fs false len
                          | TSet fs => dec_record rec lf T fs true len
                          | TSeqOf t | TSetOf t => dec_listof rec lf T t len
                          | _ => Raise EUnmodelled
                          end
              end)).
    { intros b. apply ne_if; [apply ne_raise|]. apply ne_if; [apply ne_collector|].
      destruct spT as [T|].
      - destruct (base_of T); try apply ne_raise.
        + unfold dec_record. cbv zeta. apply ne_bind. intros p. apply ne_record_loop.
        + unfold dec_record. cbv zeta. apply ne_bind. intros p. apply ne_record_loop.
        + unfold dec_listof. apply ne_bind. intros p. apply ne_listof_loop.
        + unfold dec_listof. apply ne_bind. intros p. apply ne_listof_loop.
      - unfold dec_schemaless. apply ne_bind. intros p. apply ne_schemaless_loop. }
    assert (Hocts: forall proto l, ne (dec_octets rec lf proto fl spT ts l sfun)).
    { intros proto l. unfold dec_octets. apply ne_if; [apply ne_bind; intros b; apply ne_create|].
      apply ne_if; [apply ne_raise|]. apply ne_bind. intros p. apply ne_octets_loop. }
    destruct cd; destruct len as [l|]; cbv beta iota; try apply ne_raise; try apply Hcont; try apply Hocts.
    - intros s d s' H. exact (dec_integer_not_eoo _ _ _ _ _ _ _ _ H).
    - intros s d s' H. exact (dec_integer_not_eoo _ _ _ _ _ _ _ _ H).
    - intros s d s' H. exact (dec_bool_cer_not_eoo _ _ _ _ _ _ _ H).
    - unfold dec_bits. apply ne_if; [apply ne_collector|].
      apply ne_if.
      + apply ne_if; [apply ne_raise|]. apply ne_bind. intros tb. apply ne_if; [apply ne_raise|]. apply ne_bind. intros b. apply ne_bind. intros bs. apply ne_create.
      + apply ne_if; [apply ne_raise|]. apply ne_bind. intros p. apply ne_bits_loop.
    - unfold dec_bits_indef. apply ne_if; [apply ne_collector|]. apply ne_bits_indef_loop.
    - unfold dec_octets_indef. apply ne_octets_indef_loop.
    - intros s d s' H. exact (dec_null_not_eoo _ _ _ _ _ _ _ H).
    - intros s d s' H. exact (dec_oid_not_eoo _ _ _ _ _ _ _ H).
    - intros s d s' H. exact (dec_real_not_eoo _ _ _ _ _ _ _ H).
    - (* choice, definite *)
      destruct spT as [T|]; [|apply ne_raise]. destruct (base_of T); try apply ne_raise.
      apply ne_if; [apply ne_collector|]. unfold dec_choice. cbv zeta. apply ne_bind. intros d0. apply ne_choice_place.
    - destruct spT as [T|]; [|apply ne_raise]. destruct (base_of T); try apply ne_raise.
      apply ne_if; [apply ne_collector|]. unfold dec_choice. cbv zeta. apply ne_choice_loop. intros x Hx. discriminate.
    - (* any *)
      unfold dec_any. cbv zeta. apply ne_bind. intros l'. apply ne_bind. intros b.
      apply ne_if; [apply ne_ret; discriminate|apply ne_create].
    - unfold dec_any_indef. cbv zeta. apply ne_bind. intros h. apply ne_any_indef_loop.
    - unfold dec_octets_indef. apply ne_octets_indef_loop.
  Qed.

  Lemma ne_run_value len k : ne k -> ne (run_value len k).
  Proof.
    intros Hk. destruct len as [l|]; [|exact Hk]. intros s d s' H.
    apply run_value_inv in H. destruct H as [H _]. exact (Hk _ _ _ H).
  Qed.

  Lemma ne_dispatch c sp ts len sfun : ne (dispatch c rec lf sp ts len sfun).
  Proof.
    rewrite dispatch_sel. destruct (sel c sp ts) as [[[[cd fl] spT]|]|e]; [| |apply ne_raise].
    - apply ne_run_value. apply ne_dec_value.
    - apply ne_if; [|apply ne_raise]. apply ne_run_value. unfold dec_raw.
      apply ne_if; [apply ne_collector|]. destruct len as [l|].
      + intros s d s' H. exact (Hrec _ _ _ _ _ _ _ H).
      + apply ne_raw_loop. discriminate.
  Qed.

  Lemma ne_main c sp acc r sfun :
    ne (match r with
        | Some len => dispatch c rec lf sp acc len sfun
        | None => Mark (let! t := read_tag lf in let! len := read_length c in dispatch c rec lf sp (t :: acc) len sfun)
        end).
  Proof.
    intros s d s' H.
    destruct r as [len|]; [exact (ne_dispatch _ _ _ _ _ _ _ _ H)|].
    cbn [resume] in H. revert H. generalize (setmark s (pos s)). intros s0 H.
    binv H t s1 Ht. binv H len s2 Hl. exact (ne_dispatch _ _ _ _ _ _ _ _ H).
  Qed.
End NoEoo.

(* end-of-contents is answered only by the look-ahead of an indefinite-length loop, and costs 00 00 *)
Theorem eoo_only : forall c fuel sp acc r allow sfun s s',
  resume (dec_call c fuel sp acc r allow sfun) s = inr (Ok DEoo, s') -> allow = true /\ took s s' [0; 0].
Proof.
  intros c. induction fuel as [|f IH]; intros sp acc r allow sfun s s' H; [cbn [dec_call resume] in H; discriminate|].
  assert (Hrec: forall sp acc r sfun s d s', resume (dec_call c f sp acc r false sfun) s = inr (Ok d, s') -> d <> DEoo).
  { intros sp0 acc0 r0 sfun0 s0 d0 s0' H0 ->. destruct (IH _ _ _ _ _ _ _ H0) as [Hx _]. discriminate. }
  cbn [dec_call] in H. unfold dec_body in H.
  destruct (allow && support_indef c)%bool eqn:Ea.
  - apply andb_prop in Ea. destruct Ea as [-> _]. split; [reflexivity|].
    binv H b s1 Hb. apply readN_inv in Hb.
    assert (Hm: forall s0, resume (SeekBack 2 (match r with
              | Some len => dispatch c (dec_call c f) f sp acc len sfun
              | None => Mark (let! t := read_tag f in let! len := read_length c in dispatch c (dec_call c f) f sp (t :: acc) len sfun)
              end)) s0 = inr (Ok DEoo, s') -> False).
    { intros s0 H0. cbn [resume] in H0. exact (ne_main (dec_call c f) f Hrec c sp acc r sfun _ _ _ H0 eq_refl). }
    destruct b as [|x r1]; [exfalso; exact (Hm _ H)|]. destruct x; [|exfalso; exact (Hm _ H)].
    destruct r1 as [|y r2]; [exfalso; exact (Hm _ H)|]. destruct y; [|exfalso; exact (Hm _ H)].
    destruct r2; [|exfalso; exact (Hm _ H)].
    apply ret_inv in H. subst. exact Hb.
  - exfalso. exact (ne_main (dec_call c f) f Hrec c sp acc r sfun _ _ _ H eq_refl).
Qed.

Section PhaseC.
  Variable rec : rec_t.
  Variable lf : nat.
  Hypothesis Hcall : ccall_ok rec.
  Hypothesis Heoo : forall sp acc r allow sfun s s',
    resume (rec sp acc r allow sfun) s = inr (Ok DEoo, s') -> allow = true /\ took s s' [0; 0].

  Definition eoo_tail (len: option N) : bytes := if is_none len then [0; 0] else [].

  (* SEQUENCE OF / SET OF members, definite (until the length is used up) or indefinite (until EOO) *)
  Lemma c_listof_loop_inv T t len start : cspec_ok (STy t) -> forall n acc s d s',
    resume (listof_loop rec T t len start n acc) s = inr (Ok d, s') ->
    d <> DEoo /\ exists u kids q, took s s' (u ++ eoo_tail len) /\ FE (fun sp' => sp' = STy t) [] (is_none len) u kids q.
  Proof.
    intros Hok. induction n as [|n IH]; intros acc s d s' H; [dead H|].
    cbn [listof_loop] in H. cbn [pbind tell resume] in H.
    destruct (negb match len with Some l => N.ltb (N.of_nat (pos s - start)) l | None => true end) eqn:Econt.
    - cbn [resume] in H. inversion H; subst. split; [discriminate|].
      destruct len as [l|]; [|discriminate]. exists [], [], false. split; [apply took_refl|constructor].
    - binv H d0 s1 Hd0. destruct (Hcall _ _ _ _ _ _ Hok Hd0) as [(-> & Hal & Ht0)|(Hne & u1 & n1 & q1 & Ht1 & HE1 & Hnz)].
      + cbn [resume] in H. inversion H; subst. split; [discriminate|].
        destruct len as [l|]; [discriminate|]. exists [], [], false. split; [exact Ht0|constructor].
      + assert (Hgo: forall acc', resume (listof_loop rec T t len start n acc') s1 = inr (Ok d, s') ->
                   d <> DEoo /\ exists u kids q, took s s' (u ++ eoo_tail len) /\ FE (fun sp' => sp' = STy t) [] (is_none len) u kids q).
        { intros acc' H'. destruct (IH _ _ _ _ H') as (Hd & u2 & kids & q2 & Ht2 & HF2). split; [exact Hd|].
          exists (u1 ++ u2), (n1 :: kids), (q1 || q2)%bool. split; [rewrite <- app_assoc; exact (took_trans _ _ _ _ _ Ht1 Ht2)|].
          apply (FE_cons _ _ _ (STy t)); [reflexivity|exact Hok|exact HE1| |exact HF2].
          intros Hi. apply Hnz. destruct len; [discriminate|reflexivity]. }
        destruct d0 as [Tc vc| |b| |]; try dead H; try congruence.
        * exact (Hgo _ H).
        * destruct (is_any t); [exact (Hgo _ H)|dead H].
  Qed.

  Lemma c_record_spec (fs: list (presence * ty)) (is_set det: bool) (len: option N) idx sp' :
    fs <> [] -> forallb cplain (map snd fs) = true ->
    (if match fs with [] => true | _ => false end then (match len with Some _ => Some SNone | None => Some SNone end)
     else match len with
          | None => if negb is_set && Nat.leb (length fs) idx then Some SNone
                    else if is_set then Some (SMap (fields_tagmap true (map snd fs)))
                    else seq_component_spec fs det idx
          | Some _ => if is_set then Some (SMap (fields_tagmap true (map snd fs)))
                      else seq_component_spec fs det idx
          end) = Some sp' ->
    (sp' = SNone /\ len = None /\ (negb is_set && Nat.leb (length fs) idx)%bool = true)
    \/ (rec_child fs sp' /\ cspec_ok sp').
  Proof.
    intros Hne Hfs H.
    assert (Hnf: match fs with [] => true | _ => false end = false) by (destruct fs; [congruence|reflexivity]).
    rewrite Hnf in H. clear Hnf.
    assert (Hcore: (if is_set then Some (SMap (fields_tagmap true (map snd fs))) else seq_component_spec fs det idx) = Some sp' ->
                   rec_child fs sp' /\ cspec_ok sp').
    { clear H. intros H. destruct is_set.
      - inversion H; subst. split.
        + right. right. exists true, (map snd fs). split; [apply incl_refl|reflexivity].
        + cbn [cspec_ok]. apply fields_tagmap_cok. exact Hfs.
      - unfold seq_component_spec in H. destruct (nth_error fs idx) as [[p t]|] eqn:En; [|discriminate].
        pose proof (nth_error_In _ _ En) as Hin. apply (in_map snd) in Hin. cbn [snd] in Hin.
        destruct (det || is_req p)%bool.
        + inversion H; subst. split; [right; left; exists t; auto|]. cbn [cspec_ok]. rewrite forallb_forall in Hfs. exact (Hfs _ Hin).
        + inversion H; subst.
          assert (Hinc: incl (ambiguous_run (skipn idx fs)) (map snd fs)).
          { intros x Hx. apply ambiguous_run_incl in Hx. apply in_map_iff in Hx. destruct Hx as (y & Hy & Hx).
            apply in_map_iff. exists y. split; [exact Hy|exact (skipn_incl _ _ _ Hx)]. }
          split; [right; right; exists false, (ambiguous_run (skipn idx fs)); auto|].
          cbn [cspec_ok]. apply fields_tagmap_cok. exact (forallb_incl _ _ _ Hinc Hfs). }
    destruct len as [l|].
    - right. exact (Hcore H).
    - destruct (negb is_set && Nat.leb (length fs) idx)%bool eqn:Ec.
      + inversion H; subst. left. auto.
      + right. exact (Hcore H).
  Qed.

  Lemma c_record_loop_inv T fs is_set len start : fs <> [] -> forallb cplain (map snd fs) = true ->
    forall n idx vs extra s d s',
    resume (record_loop rec lf T fs is_set len start n idx vs extra) s = inr (Ok d, s') ->
    d <> DEoo /\ exists u kids q, took s s' (u ++ eoo_tail len) /\ FE (rec_child fs) [] (is_none len) u kids q.
  Proof.
    intros Hfne Hfs. induction n as [|n IH]; intros idx vs extra s d s' H; [dead H|].
    cbn [record_loop] in H. cbv zeta in H. cbn [pbind tell resume] in H.
    assert (Hfin: forall s0, resume (if match fs with [] => true | _ => false end then Ret (DV T (VRec []))
                    else if required_seen fs vs then Ret (DV T (VRec vs)) else Raise EMalformed) s0 = inr (Ok d, s') -> s' = s0 /\ d <> DEoo).
    { intros s0 H0. destruct fs; [cbn [resume] in H0; inversion H0; subst; split; [reflexivity|discriminate]|].
      destruct (required_seen (p :: fs) vs); [cbn [resume] in H0; inversion H0; subst; split; [reflexivity|discriminate]|dead H0]. }
    destruct (negb match len with Some l => N.ltb (N.of_nat (pos s - start)) l | None => true end) eqn:Econt.
    - apply Hfin in H. destruct H as [-> Hd]. split; [exact Hd|].
      destruct len as [l|]; [|discriminate]. exists [], [], false. split; [apply took_refl|constructor].
    - match type of H with resume (match ?sp with _ => _ end) _ = _ => destruct sp as [sp'|] eqn:Esp end; [|dead H].
      apply c_record_spec in Esp; [|exact Hfne|exact Hfs].
      binv H d0 s1 Hd0.
      destruct Esp as [(-> & -> & Hpast)|[Hch Hok]].
      + (* past the last member of an indefinite SEQUENCE: only end-of-contents goes on *)
        destruct d0 as [Tc vc| |b| |]; try dead H.
        * destruct fs as [|f fs']; [dead H|]. rewrite Hpast in H. dead H.
        * destruct (Heoo _ _ _ _ _ _ _ Hd0) as [_ Ht0]. apply Hfin in H. destruct H as [-> Hd]. split; [exact Hd|].
          exists [], [], false. split; [exact Ht0|constructor].
        * destruct fs as [|f fs']; [dead H|].
          apply andb_prop in Hpast. destruct Hpast as [_ Hleb]. apply Nat.leb_le in Hleb.
          assert (Hnth: nth_error (f :: fs') idx = None) by (apply nth_error_None; exact Hleb).
          rewrite Hnth in H. match type of H with resume (if ?c then _ else _) _ = _ => destruct c end; dead H.
      + destruct (Hcall _ _ _ _ _ _ Hok Hd0) as [(-> & Hal & Ht0)|(Hne & u1 & n1 & q1 & Ht1 & HE1 & Hnz)].
        * apply Hfin in H. destruct H as [-> Hd]. split; [exact Hd|].
          destruct len as [l|]; [discriminate|]. exists [], [], false. split; [exact Ht0|constructor].
        * assert (Hgo: forall idx' vs' s2, s2 = s1 -> resume (record_loop rec lf T fs is_set len start n idx' vs' extra) s2 = inr (Ok d, s') ->
                   d <> DEoo /\ exists u kids q, took s s' (u ++ eoo_tail len) /\ FE (rec_child fs) [] (is_none len) u kids q).
          { intros idx' vs' s2 -> H'. destruct (IH _ _ _ _ _ _ H') as (Hd & u2 & kids & q2 & Ht2 & HF2). split; [exact Hd|].
            exists (u1 ++ u2), (n1 :: kids), (q1 || q2)%bool. split; [rewrite <- app_assoc; exact (took_trans _ _ _ _ _ Ht1 Ht2)|].
            apply (FE_cons _ _ _ sp'); [exact Hch|exact Hok|exact HE1| |exact HF2].
            intros Hi. apply Hnz. destruct len; [discriminate|reflexivity]. }
          destruct d0 as [Tc vc| |b| |]; try dead H; try congruence.
          -- destruct fs as [|f fs']; [dead H|].
             destruct (negb is_set && Nat.leb (length (f :: fs')) idx)%bool; [dead H|].
             binv H i s3 Hi. apply lift_inv in Hi. destruct Hi as [_ ->].
             destruct (Nat.leb (length (f :: fs')) i); [dead H|].
             exact (Hgo _ _ _ eq_refl H).
          -- destruct fs as [|f fs']; [dead H|].
             match type of H with resume (if ?c then _ else _) _ = _ => destruct c end; [|dead H].
             destruct (nth_error (f :: fs') idx) as [[p0 ft]|]; [|dead H].
             destruct (is_any ft); [|dead H].
             exact (Hgo _ _ _ eq_refl H).
  Qed.

  Lemma c_raw_loop_inv sp ts : cspec_ok sp -> forall n last s d s', last <> DEoo ->
    resume (raw_loop rec sp ts n last) s = inr (Ok d, s') ->
    d <> DEoo /\ exists u kids q, took s s' (u ++ [0; 0]) /\ FE (fun sp' => sp' = sp) ts true u kids q
                                  /\ (last = DNoValue -> kids <> []).
  Proof.
    intros Hok. induction n as [|n IH]; intros last s d s' Hl H; [dead H|].
    cbn [raw_loop] in H. binv H d0 s1 Hd0.
    destruct (Hcall _ _ _ _ _ _ Hok Hd0) as [(-> & _ & Ht0)|(Hne & u1 & n1 & q1 & Ht1 & HE1 & Hnz)].
    - assert (Hx: last <> DNoValue /\ d = last /\ s' = s1).
      { destruct last; try dead H; cbn [resume] in H; inversion H; subst; (split; [discriminate|auto]). }
      destruct Hx as (Hnv & -> & ->). split; [exact Hl|].
      exists [], [], false. split; [exact Ht0|]. split; [constructor|]. intros E. congruence.
    - assert (H': resume (raw_loop rec sp ts n d0) s1 = inr (Ok d, s')) by (destruct d0; try exact H; congruence).
      destruct (IH _ _ _ _ Hne H') as (Hd & u2 & kids & q2 & Ht2 & HF2 & _). split; [exact Hd|].
      exists (u1 ++ u2), (n1 :: kids), (q1 || q2)%bool.
      split; [rewrite <- app_assoc; exact (took_trans _ _ _ _ _ Ht1 Ht2)|]. split; [|discriminate].
      apply (FE_cons _ _ _ sp); [reflexivity|exact Hok|exact HE1|intros _; apply Hnz; reflexivity|exact HF2].
  Qed.

  Lemma c_container_inv (b: bool) T' ts len s d s' : cplain T' = true ->
    resume (if negb (tag0_cons ts) then Raise EMalformed else
            match base_of T' with
            | TSeq fs => dec_record rec lf T' fs false len
            | TSet fs => dec_record rec lf T' fs true len
            | TSeqOf t | TSetOf t => dec_listof rec lf T' t len
            | _ => Raise EUnmodelled
            end) s = inr (Ok d, s') ->
    d <> DEoo /\ tag0_cons ts = true /\
    exists u kids q, took s s' (u ++ eoo_tail len) /\ FE (child_spec (Some T')) [] (is_none len) u kids q.
  Proof.
    intros HpT H. destruct (tag0_cons ts); cbn [negb] in H; [|dead H].
    pose proof (cplain_base _ HpT) as Hb. unfold child_spec.
    destruct (base_of T') eqn:Eb; try dead H.
    - unfold dec_record in H. cbv zeta in H. cbn [pbind tell resume] in H.
      cbn [cplain] in Hb. rewrite cplain_fields in Hb.
      assert (Hfne: fs <> []) by (intros ->; discriminate).
      assert (Hb': forallb cplain (map snd fs) = true) by (destruct fs; [congruence|exact Hb]). clear Hb. rename Hb' into Hb.
      destruct (c_record_loop_inv _ _ _ _ _ Hfne Hb _ _ _ _ _ _ _ H) as (Hd & X). auto.
    - unfold dec_record in H. cbv zeta in H. cbn [pbind tell resume] in H.
      cbn [cplain] in Hb. rewrite cplain_fields in Hb.
      assert (Hfne: fs <> []) by (intros ->; discriminate).
      assert (Hb': forallb cplain (map snd fs) = true) by (destruct fs; [congruence|exact Hb]). clear Hb. rename Hb' into Hb.
      destruct (c_record_loop_inv _ _ _ _ _ Hfne Hb _ _ _ _ _ _ _ H) as (Hd & X). auto.
    - unfold dec_listof in H. cbn [pbind tell resume] in H. cbn [cplain] in Hb.
      destruct (c_listof_loop_inv _ _ _ _ Hb _ _ _ _ _ H) as (Hd & X). auto.
    - unfold dec_listof in H. cbn [pbind tell resume] in H. cbn [cplain] in Hb.
      destruct (c_listof_loop_inv _ _ _ _ Hb _ _ _ _ _ H) as (Hd & X). auto.
  Qed.

  Lemma c_dec_value_inv sp ts cd fl spT len s d s' :
    cspec_ok sp -> sel CER sp ts = Ok (Some (cd, fl, spT)) ->
    resume (dec_value rec lf cd fl spT ts len false) s = inr (Ok d, s') ->
    d <> DEoo /\ exists u ct q, took s s' (u ++ eoo_tail len) /\ W sp ts (is_none len) u ct q
                               /\ (len = None -> exists kids, ct = CKids kids).
  Proof.
    intros Hok Hsel H. destruct (sel_cer _ _ _ _ _ Hok Hsel) as (T' & -> & HpT & Hby).
    assert (Hk: cd = DcBoolCer \/ (simple_cd cd = true /\ cd <> DcBoolBer) \/ container_cd cd = true).
    { pose proof (by_type_cer_kind _ _ _ HpT Hby) as Hk. destruct (base_of T'); auto. }
    assert (Hprim: forall u, took s s' u -> took s s' (u ++ eoo_tail (Some 0))) by (intros u Hu; cbn; rewrite app_nil_r; exact Hu).
    unfold dec_value in H. cbv zeta in H.
    destruct cd; destruct len as [l|]; cbv beta iota in H; try dead H;
      try (exfalso; destruct Hk as [Hk|[[Hk Hk2]|Hk]]; try discriminate; congruence).
    - (* DcInt *) pose proof (dec_integer_not_eoo _ _ _ _ _ _ _ _ H) as Hd. apply dec_integer_inv in H. destruct H as [Hs [u Hu]].
      split; [exact Hd|]. exists u, CPrim, false. split; [exact (Hprim _ Hu)|]. split; [|discriminate].
      eapply W_simple; eauto. discriminate.
    - (* DcBoolCer *) pose proof (dec_bool_cer_not_eoo _ _ _ _ _ _ _ H) as Hd. apply dec_bool_cer_inv in H. destruct H as (u & Hu & Hb).
      split; [exact Hd|]. exists u, CPrim, (tag0_cons ts). split; [exact (Hprim _ Hu)|]. split; [|discriminate].
      eapply W_bool; eauto.
    - (* DcNull *) pose proof (dec_null_not_eoo _ _ _ _ _ _ _ H) as Hd. apply dec_null_inv in H. destruct H as [Hs [u Hu]].
      split; [exact Hd|]. exists u, CPrim, false. split; [exact (Hprim _ Hu)|]. split; [|discriminate].
      eapply W_simple; eauto. discriminate.
    - (* DcOid *) pose proof (dec_oid_not_eoo _ _ _ _ _ _ _ H) as Hd. apply dec_oid_inv in H. destruct H as [Hs [u Hu]].
      split; [exact Hd|]. exists u, CPrim, false. split; [exact (Hprim _ Hu)|]. split; [|discriminate].
      eapply W_simple; eauto. discriminate.
    - (* DcReal *) pose proof (dec_real_not_eoo _ _ _ _ _ _ _ H) as Hd. apply dec_real_inv in H. destruct H as [Hs [u Hu]].
      split; [exact Hd|]. exists u, CPrim, false. split; [exact (Hprim _ Hu)|]. split; [|discriminate].
      eapply W_simple; eauto. discriminate.
    - apply (c_container_inv false) in H; [|exact HpT]. destruct H as (Hd & Hc & u & kids & q & Hu & HF).
      split; [exact Hd|]. exists u, (CKids kids), q. split; [exact Hu|]. split; [eapply W_container; eauto|eauto].
    - apply (c_container_inv false) in H; [|exact HpT]. destruct H as (Hd & Hc & u & kids & q & Hu & HF).
      split; [exact Hd|]. exists u, (CKids kids), q. split; [exact Hu|]. split; [eapply W_container; eauto|eauto].
    - apply (c_container_inv false) in H; [|exact HpT]. destruct H as (Hd & Hc & u & kids & q & Hu & HF).
      split; [exact Hd|]. exists u, (CKids kids), q. split; [exact Hu|]. split; [eapply W_container; eauto|eauto].
    - apply (c_container_inv false) in H; [|exact HpT]. destruct H as (Hd & Hc & u & kids & q & Hu & HF).
      split; [exact Hd|]. exists u, (CKids kids), q. split; [exact Hu|]. split; [eapply W_container; eauto|eauto].
    - apply (c_container_inv false) in H; [|exact HpT]. destruct H as (Hd & Hc & u & kids & q & Hu & HF).
      split; [exact Hd|]. exists u, (CKids kids), q. split; [exact Hu|]. split; [eapply W_container; eauto|eauto].
    - apply (c_container_inv false) in H; [|exact HpT]. destruct H as (Hd & Hc & u & kids & q & Hu & HF).
      split; [exact Hd|]. exists u, (CKids kids), q. split; [exact Hu|]. split; [eapply W_container; eauto|eauto].
    - apply (c_container_inv false) in H; [|exact HpT]. destruct H as (Hd & Hc & u & kids & q & Hu & HF).
      split; [exact Hd|]. exists u, (CKids kids), q. split; [exact Hu|]. split; [eapply W_container; eauto|eauto].
    - apply (c_container_inv false) in H; [|exact HpT]. destruct H as (Hd & Hc & u & kids & q & Hu & HF).
      split; [exact Hd|]. exists u, (CKids kids), q. split; [exact Hu|]. split; [eapply W_container; eauto|eauto].
    - apply (c_container_inv false) in H; [|exact HpT]. destruct H as (Hd & Hc & u & kids & q & Hu & HF).
      split; [exact Hd|]. exists u, (CKids kids), q. split; [exact Hu|]. split; [eapply W_container; eauto|eauto].
    - apply (c_container_inv false) in H; [|exact HpT]. destruct H as (Hd & Hc & u & kids & q & Hu & HF).
      split; [exact Hd|]. exists u, (CKids kids), q. split; [exact Hu|]. split; [eapply W_container; eauto|eauto].
    - apply (c_container_inv false) in H; [|exact HpT]. destruct H as (Hd & Hc & u & kids & q & Hu & HF).
      split; [exact Hd|]. exists u, (CKids kids), q. split; [exact Hu|]. split; [eapply W_container; eauto|eauto].
    - apply (c_container_inv false) in H; [|exact HpT]. destruct H as (Hd & Hc & u & kids & q & Hu & HF).
      split; [exact Hd|]. exists u, (CKids kids), q. split; [exact Hu|]. split; [eapply W_container; eauto|eauto].
  Qed.

  Lemma c_dispatch_inv sp ts len s d s' : cspec_ok sp ->
    resume (dispatch CER rec lf sp ts len false) s = inr (Ok d, s') ->
    d <> DEoo /\ exists u ct q, took s s' (u ++ eoo_tail len) /\ W sp ts (is_none len) u ct q
                               /\ (forall l, len = Some l -> N.of_nat (length u) = l)
                               /\ (len = None -> exists kids, ct = CKids kids).
  Proof.
    intros Hok H. rewrite dispatch_sel in H.
    destruct (sel CER sp ts) as [[[[cd fl] spT]|]|e] eqn:Esel; [| |dead H].
    - assert (Hk: resume (dec_value rec lf cd fl spT ts len false) s = inr (Ok d, s')
                  /\ forall l, len = Some l -> N.of_nat (pos s' - pos s) = l).
      { destruct len as [l|]; [apply run_value_inv in H; destruct H as [H Hl]; split; [exact H|intros l0 E; injection E as E; rewrite <- E; exact Hl]|].
        split; [exact H|discriminate]. }
      destruct Hk as [Hk Hl].
      destruct (c_dec_value_inv _ _ _ _ _ _ _ _ _ Hok Esel Hk) as (Hd & u & ct & q & Hu & HW & Hck).
      split; [exact Hd|]. exists u, ct, q. split; [exact Hu|]. split; [exact HW|]. split; [|exact Hck].
      intros l E. subst len. specialize (Hl l eq_refl). cbn [eoo_tail is_none] in Hu. rewrite app_nil_r in Hu.
      destruct Hu as [_ Hp]. rewrite <- Hl. f_equal. lia.
    - destruct (explicit_tag ts) eqn:Ex; [|dead H]. destruct len as [l|].
      + apply run_value_inv in H. destruct H as [H Hl]. unfold dec_raw in H.
        destruct (Hcall _ _ _ _ _ _ Hok H) as [(_ & Hal & _)|(Hne & u & n & q & Hu & HE & _)]; [discriminate|].
        split; [exact Hne|]. exists u, (CKids [n]), q. cbn [eoo_tail is_none]. rewrite app_nil_r.
        split; [exact Hu|]. split; [eapply W_explicit; eauto|]. split; [|discriminate].
        intros l0 E. injection E as E. rewrite <- E. destruct Hu as [_ Hp]. rewrite <- Hl. f_equal. lia.
      + unfold run_value, dec_raw in H.
        assert (Hnv: DNoValue <> DEoo) by discriminate.
        destruct (c_raw_loop_inv _ _ Hok _ _ _ _ _ Hnv H) as (Hd & u & kids & q & Hu & HF & Hkne).
        split; [exact Hd|]. exists u, (CKids kids), q. split; [exact Hu|].
        split; [eapply W_explicit_indef; eauto|]. split; [discriminate|eauto].
  Qed.
End PhaseC.

Lemma read_length_cer_inv s ol s' : resume (read_length CER) s = inr (Ok ol, s') ->
  exists lb, took s s' lb /\
    ((exists l, ol = Some l /\ forall x, dec_len (lb ++ x) = Some (Some l, x)) \/ (ol = None /\ lb = [128])).
Proof.
  unfold read_length. intros H. apply resume_pbind_inv in H. destruct H as (o & s1 & Ho & H).
  apply read1_inv in Ho.
  destruct (N.ltb o 128) eqn:E1.
  - cbn [resume] in H. inversion H; subst; clear H. exists [o]. split; [exact Ho|]. left. exists o. split; [reflexivity|].
    intros x. cbn [app dec_len]. rewrite E1. reflexivity.
  - destruct (N.eqb_spec o 128) as [E2|E2].
    + replace (support_indef CER) with true in H by reflexivity. cbn [resume] in H. inversion H; subst; clear H.
      exists [128]. split; [exact Ho|]. right. auto.
    + apply resume_pbind_inv in H. destruct H as (b & s2 & Hb & H).
      pose proof (readN_inv _ _ _ _ Hb) as Ht.
      cbn [resume] in H. inversion H; subst; clear H.
      exists ([o] ++ b). split; [exact (took_trans _ _ _ _ _ Ho Ht)|]. left. exists (be_num 0 b). split; [reflexivity|].
      intros x. cbn [app dec_len]. rewrite E1. apply N.eqb_neq in E2. rewrite E2. cbv zeta.
      assert (Hlen: length b = N.to_nat (N.land o 127)).
      { unfold readN in Hb. cbn [resume] in Hb.
        destruct (attempt s1 (N.to_nat (N.land o 127))) as [[c| |] sm] eqn:Ea; cbn [resume] in Hb; try discriminate.
        inversion Hb; subst; clear Hb. unfold attempt in Ea.
        destruct (Nat.eqb_spec (N.to_nat (N.land o 127)) 0) as [Hz|Hz].
        - inversion Ea; subst. rewrite Hz. reflexivity.
        - destruct (Nat.ltb_spec (length (avail s1)) (N.to_nat (N.land o 127))) as [Hl|Hl]; [destruct (closed s1); discriminate|].
          inversion Ea; subst. rewrite firstn_length. lia. }
      destruct (Nat.ltb_spec (length (b ++ x)) (N.to_nat (N.land o 127))) as [Hl|Hl]; [rewrite app_length in Hl; lia|].
      rewrite <- Hlen. rewrite TagOctets.firstn_app_exact, TagOctets.skipn_app_exact. reflexivity.
Qed.

Lemma readN_len n s b s' : resume (readN n) s = inr (Ok b, s') -> length b = n /\ arrived s' = arrived s.
Proof.
  unfold readN. cbn [resume]. destruct (attempt s n) as [[c| |] sm] eqn:E; cbn [resume]; intros H; try discriminate.
  inversion H; subst; clear H. unfold attempt in E.
  destruct (Nat.eqb_spec n 0) as [Hz|Hz].
  - inversion E; subst. auto.
  - destruct (Nat.ltb_spec (length (avail s)) n) as [Hl|Hl]; [destruct (closed s); discriminate|].
    inversion E; subst. split; [rewrite firstn_length; lia|reflexivity].
Qed.

Lemma D_len2 sp acc u n q : E sp acc u n q -> (2 <= length u)%nat.
Proof.
  intros H. destruct H as [sp acc ib lb body t l ct qv Hi Hl _ _|sp acc ib body t kids qv Hi _].
  - destruct ib as [|o r]; [specialize (Hi []); cbn in Hi; discriminate|].
    destruct lb as [|o2 r2]; [specialize (Hl []); cbn in Hl; discriminate|]. rewrite !app_length. cbn [length]. lia.
  - destruct ib as [|o r]; [specialize (Hi []); cbn in Hi; discriminate|]. rewrite !app_length. cbn [length]. lia.
Qed.

Section PhaseC2.
  Variable rec : rec_t.
  Variable lf : nat.
  Hypothesis Hcall : ccall_ok rec.
  Hypothesis Heoo : forall sp acc r allow sfun s s',
    resume (rec sp acc r allow sfun) s = inr (Ok DEoo, s') -> allow = true /\ took s s' [0; 0].

  Lemma c_main_inv sp acc s d s' : cspec_ok sp ->
    resume (Mark (let! t := read_tag lf in let! len := read_length CER in dispatch CER rec lf sp (t :: acc) len false)) s = inr (Ok d, s') ->
    d <> DEoo /\ exists u n q, took s s' u /\ E sp acc u n q.
  Proof.
    intros Hok H. cbn [resume] in H.
    binv H t s1 Ht. apply read_tag_inv in Ht. destruct Ht as (ib & Hib & Hid).
    binv H ol s2 Hl. apply read_length_cer_inv in Hl. destruct Hl as (lb & Hlb & Hol).
    destruct (c_dispatch_inv _ _ Hcall Heoo _ _ _ _ _ _ Hok H) as (Hd & u & ct & q & Hu & HW & Hlen & Hck).
    split; [exact Hd|].
    destruct Hol as [(l & -> & Hdl)|(-> & ->)].
    - cbn [eoo_tail is_none] in Hu, HW. rewrite app_nil_r in Hu.
      exists (ib ++ lb ++ u), (mk_node (tcls t) (tnum t) u ct (ib ++ lb ++ u)), (N.eqb (hd 0 lb) 255 || q)%bool.
      split; [apply took_mark; exact (took_trans _ _ _ _ _ Hib (took_trans _ _ _ _ _ Hlb Hu))|].
      apply E_def with (l := l); try assumption. apply Hlen. reflexivity.
    - cbn [eoo_tail is_none] in Hu, HW. destruct (Hck eq_refl) as (kids & ->).
      exists (ib ++ [128] ++ u ++ [0; 0]), (Cons (tcls t) (tnum t) true kids (ib ++ [128] ++ u ++ [0; 0])), q.
      split; [apply took_mark; exact (took_trans _ _ _ _ _ Hib (took_trans _ _ _ _ _ Hlb Hu))|].
      apply E_indef; assumption.
  Qed.

  Lemma seek_back_same s s1 (b: bytes) : took s s1 b -> arrived s1 = arrived s -> length b = 2%nat ->
    avail (setpos s1 (pos s1 - 2)) = avail s /\ pos (setpos s1 (pos s1 - 2)) = pos s.
  Proof.
    intros [_ Hp] Ha Hl. unfold avail. cbn [pos arrived setpos]. rewrite Ha.
    replace (pos s1 - 2)%nat with (pos s) by lia. auto.
  Qed.

  Lemma c_dec_body_call sp acc allow s d s' : cspec_ok sp ->
    resume (dec_body CER rec lf sp acc None allow false) s = inr (Ok d, s') ->
    (d = DEoo /\ allow = true /\ took s s' [0; 0])
    \/ (d <> DEoo /\ exists u n q, took s s' u /\ E sp acc u n q /\ (allow = true -> firstn 2 u <> [0; 0])).
  Proof.
    intros Hok H. unfold dec_body in H.
    replace (support_indef CER) with true in H by reflexivity. rewrite Bool.andb_true_r in H.
    destruct allow.
    - binv H b s1 Hb. destruct (readN_len _ _ _ _ Hb) as [Hbl Hba]. apply readN_inv in Hb.
      assert (Hmain: b <> [0; 0] ->
                resume (SeekBack 2 (Mark (let! t := read_tag lf in let! len := read_length CER in dispatch CER rec lf sp (t :: acc) len false))) s1 = inr (Ok d, s') ->
                d <> DEoo /\ exists u n q, took s s' u /\ E sp acc u n q /\ (true = true -> firstn 2 u <> [0; 0])).
      { intros Hb0 H0. cbn [resume] in H0. cbn [resume] in H0.
        destruct (seek_back_same _ _ _ Hb Hba Hbl) as [Hav Hpos].
        change (resume (Mark (let! t := read_tag lf in let! len := read_length CER in dispatch CER rec lf sp (t :: acc) len false))
                       (setpos s1 (pos s1 - 2)) = inr (Ok d, s')) in H0.
        destruct (c_main_inv _ _ _ _ _ Hok H0) as (Hd & u & n & q & Hu & HE).
        split; [exact Hd|]. exists u, n, q.
        assert (Hu': took s s' u) by (destruct Hu as [A B]; split; [rewrite <- Hav; exact A|rewrite <- Hpos; exact B]).
        split; [exact Hu'|]. split; [exact HE|]. intros _ Hf. apply Hb0.
        pose proof (D_len2 _ _ _ _ _ HE) as Hl2. destruct Hb as [Hb1 _]. destruct Hu' as [Hu1 _].
        rewrite Hb1 in Hu1. apply (f_equal (firstn 2)) in Hu1.
        rewrite <- Hbl in Hu1 at 1. rewrite TagOctets.firstn_app_exact in Hu1.
        rewrite firstn_app in Hu1. replace (2 - length u)%nat with 0%nat in Hu1 by lia. cbn [firstn] in Hu1. rewrite app_nil_r in Hu1.
        rewrite Hu1. exact Hf. }
      destruct b as [|x r1]; [right; apply Hmain; [discriminate|exact H]|].
      destruct x; [|right; apply Hmain; [discriminate|exact H]].
      destruct r1 as [|y r2]; [right; apply Hmain; [discriminate|exact H]|].
      destruct y; [|right; apply Hmain; [discriminate|exact H]].
      destruct r2; [|right; apply Hmain; [discriminate|exact H]].
      cbn [resume] in H. inversion H; subst. left. split; [reflexivity|]. split; [reflexivity|exact Hb].
    - destruct (c_main_inv _ _ _ _ _ Hok H) as (Hd & u & n & q & Hu & HE). right.
      split; [exact Hd|]. exists u, n, q. split; [exact Hu|]. split; [exact HE|discriminate].
  Qed.
End PhaseC2.

Theorem dec_call_cer_derivation : forall fuel, ccall_ok (dec_call CER fuel).
Proof.
  induction fuel as [|f IH].
  - intros sp acc allow s d s' _ H. cbn [dec_call resume] in H. discriminate.
  - intros sp acc allow s d s' Hok H. cbn [dec_call] in H.
    apply (c_dec_body_call (dec_call CER f) f IH); [|exact Hok|exact H].
    intros sp0 acc0 r0 allow0 sfun0 s0 s0' H0. exact (eoo_only CER f _ _ _ _ _ _ _ H0).
Qed.

Theorem decode_cer_derivation : forall T b d tl, cplain T = true ->
  decode CER (Some T) b = Ok (d, tl) ->
  exists used n q, b = used ++ tl /\ E (STy T) [] used n q.
Proof.
  intros T b d tl Hok H. unfold decode, run_complete in H.
  destruct (resume (dec_item CER (dec_fuel (Some T) b) (Some T)) (mkStream b 0 true 0)) as [[p0 s0]|[[d0|e] s']] eqn:Ex; try discriminate.
  inversion H; subst; clear H. unfold dec_item in Ex.
  destruct (dec_call_cer_derivation (dec_fuel (Some T) b) (STy T) [] false _ _ _ Hok Ex)
    as [(_ & Hx & _)|(_ & u & n & q & [Hu _] & HE & _)]; [discriminate|].
  exists u, n, q. split; [exact Hu|exact HE].
Qed.
Print Assumptions decode_cer_derivation.

(* ---------- what the CER derivation says about BOOLEAN, as a predicate on the tree ---------- *)

(* induction on TLV trees *)
Section node_ind_strong.
  Variable P : node -> Prop.
  Hypothesis HP : forall c num ct raw, P (Prim c num ct raw).
  Hypothesis HC : forall c num i kids raw, Forall P kids -> P (Cons c num i kids raw).
  Fixpoint node_ind' (n: node) : P n :=
    match n with
    | Prim c num ct raw => HP c num ct raw
    | Cons c num i kids raw =>
        HC c num i kids raw ((fix go (l: list node) : Forall P l :=
                               match l with [] => Forall_nil _ | x :: r => Forall_cons x (node_ind' x) (go r) end) kids)
    end.
End node_ind_strong.

Definition is_nil {X} (l: list X) : bool := match l with [] => true | _ => false end.

(* cok n cs k rt: n is the k-th tag level of an element whose outermost tag is rt and whose type is one of
   the candidates cs.  Either a candidate T' that starts with rt and has exactly k tags makes n its base
   element - then a BOOLEAN is primitive with contents 00/FF, and the members of a constructed type are
   elements of the component types, recursively, in definite or indefinite form - or n is a constructed
   wrapper (an EXPLICIT tag) all of whose members are at level k+1 *)
Fixpoint cok (n: node) (cs: list ty) (k: nat) (rt: tclass * N) {struct n} : bool :=
  existsb (fun T' =>
     may_start T' rt && Nat.eqb k (length (tagset_of' T')) &&
     match base_of T' with
     | TBool => match n with Prim _ _ c _ => strict_contents c | _ => false end
     | TSeqOf t | TSetOf t =>
         match n with Cons _ _ _ kids _ => forallb (fun kid => cok kid [t] 1 (node_tag kid)) kids | _ => false end
     | TSeq fs | TSet fs =>
         match n with Cons _ _ _ kids _ => forallb (fun kid => cok kid (map snd fs) 1 (node_tag kid)) kids | _ => false end
     | _ => true
     end) cs
  || match n with
     | Cons _ _ _ kids _ => negb (is_nil kids) && forallb (fun kid => cok kid cs (S k) rt) kids
     | Prim _ _ _ _ => false
     end.

Lemma existsb_incl {X} (f: X -> bool) a b : incl a b -> existsb f a = true -> existsb f b = true.
Proof. intros Hi H. apply existsb_exists in H. destruct H as (x & Hx & Hf). apply existsb_exists. exists x. split; [exact (Hi _ Hx)|exact Hf]. Qed.

Lemma cok_mono : forall n cs cs' k rt, incl cs cs' -> cok n cs k rt = true -> cok n cs' k rt = true.
Proof.
  induction n as [c num ct raw|c num i kids raw IH] using node_ind'; intros cs cs' k rt Hi H.
  - cbn [cok] in *. rewrite Bool.orb_false_r in *. exact (existsb_incl _ _ _ Hi H).
  - cbn [cok] in *. apply Bool.orb_true_iff in H. apply Bool.orb_true_iff. destruct H as [H|H].
    + left. exact (existsb_incl _ _ _ Hi H).
    + right. apply andb_prop in H. destruct H as [H1 H2]. rewrite H1. cbn [andb].
      apply forallb_forall. intros kid Hk. rewrite forallb_forall in H2. rewrite Forall_forall in IH.
      exact (IH kid Hk cs cs' (S k) rt Hi (H2 kid Hk)).
Qed.

Definition cands (sp: spec) : list ty :=
  match sp with STy T => [T] | SMap m => map snd (tm_present m) | SNone => [] end.
Definition sp_cplain (sp: spec) : Prop :=
  match sp with STy T => cplain T = true | SMap m => plainmap m /\ cmap_ok m | SNone => False end.
Definition rtag (ts: tagset) : tclass * N := (tcls (last ts dtag), tnum (last ts dtag)).

Lemma sp_cplain_plain sp : sp_cplain sp -> sp_plain sp /\ cspec_ok sp /\ sp <> SNone.
Proof.
  destruct sp as [|T|m]; cbn; [intros []| |].
  - intros H. split; [exact (cplain_plain _ H)|]. split; [exact H|discriminate].
  - intros [H1 H2]. split; [exact H1|]. split; [exact H2|discriminate].
Qed.

Lemma cand_cands sp T' : cand sp T' -> In T' (cands sp).
Proof. destruct sp as [|T|m]; cbn; [intros []|intros ->; left; reflexivity|auto]. Qed.

Definition node_of (c: tclass) (num: N) (i: bool) (body: bytes) (ct: content) (raw: bytes) : node :=
  match ct with CPrim => Prim c num body raw | CKids kids => Cons c num i kids raw end.

Definition HE (sp: spec) (acc: tagset) (used: bytes) (n: node) (q: bool) : Prop :=
  sp_cplain sp -> exists t, node_tag n = (tcls t, tnum t) /\ cok n (cands sp) (S (length acc)) (rtag (t :: acc)) = true.
Definition HW (sp: spec) (ts: tagset) (indef: bool) (body: bytes) (ct: content) (q: bool) : Prop :=
  sp_cplain sp -> ts <> [] -> forall c num i raw, cok (node_of c num i body ct raw) (cands sp) (length ts) (rtag ts) = true.
Definition HFE (A: spec -> Prop) (acc: tagset) (indef: bool) (body: bytes) (kids: list node) (q: bool) : Prop :=
  Forall (fun k => exists sp' t, A sp' /\ node_tag k = (tcls t, tnum t) /\
                    (sp_cplain sp' -> cok k (cands sp') (S (length acc)) (rtag (t :: acc)) = true)) kids.

(* a candidate matched at this level *)
Lemma cok_here n cs k rt T' : In T' cs -> may_start T' rt = true -> k = length (tagset_of' T') ->
  match base_of T' with
  | TBool => match n with Prim _ _ c _ => strict_contents c | _ => false end
  | TSeqOf t | TSetOf t =>
      match n with Cons _ _ _ kids _ => forallb (fun kid => cok kid [t] 1 (node_tag kid)) kids | _ => false end
  | TSeq fs | TSet fs =>
      match n with Cons _ _ _ kids _ => forallb (fun kid => cok kid (map snd fs) 1 (node_tag kid)) kids | _ => false end
  | _ => true
  end = true ->
  cok n cs k rt = true.
Proof.
  intros Hin Hm Hk Hb.
  assert (Hex: existsb (fun T' =>
     may_start T' rt && Nat.eqb k (length (tagset_of' T')) &&
     match base_of T' with
     | TBool => match n with Prim _ _ c _ => strict_contents c | _ => false end
     | TSeqOf t | TSetOf t =>
         match n with Cons _ _ _ kids _ => forallb (fun kid => cok kid [t] 1 (node_tag kid)) kids | _ => false end
     | TSeq fs | TSet fs =>
         match n with Cons _ _ _ kids _ => forallb (fun kid => cok kid (map snd fs) 1 (node_tag kid)) kids | _ => false end
     | _ => true
     end) cs = true).
  { apply existsb_exists. exists T'. split; [exact Hin|]. rewrite Hm, Hb. subst k. rewrite Nat.eqb_refl. reflexivity. }
  destruct n; cbn [cok]; rewrite Hex; reflexivity.
Qed.

Lemma rtag_cons t ts : ts <> [] -> rtag (t :: ts) = rtag ts.
Proof. intros H. unfold rtag. destruct ts as [|t0 r]; [congruence|reflexivity]. Qed.

Lemma rtag_cong t t' acc : (tcls t, tnum t) = (tcls t', tnum t') -> rtag (t :: acc) = rtag (t' :: acc).
Proof. intros H. unfold rtag. destruct acc as [|a r]; [cbn [last]; exact H|reflexivity]. Qed.

Lemma node_of_mk c num body ct raw : node_of c num false body ct raw = mk_node c num body ct raw.
Proof. destruct ct; reflexivity. Qed.

(* the facts about a matched candidate, for CER *)
Lemma cer_match sp ts cd fl spT : sp_cplain sp -> ts <> [] -> sel CER sp ts = Ok (Some (cd, fl, spT)) ->
  exists T', spT = Some T' /\ cplain T' = true /\ by_type CER T' = Some (cd, fl) /\ In T' (cands sp)
             /\ may_start T' (rtag ts) = true /\ length ts = length (tagset_of' T').
Proof.
  intros Hpl Hne Hsel. destruct (sp_cplain_plain _ Hpl) as (Hsp & Hok & Hn).
  destruct (sel_guided_gen CER _ _ _ _ _ Hsel Hsp Hn) as (T' & -> & HpT & Hby & Heq & Hc).
  destruct (sel_cer _ _ _ _ _ Hok Hsel) as (T'' & E & HcT & _). inversion E; subst T''.
  exists T'. split; [reflexivity|]. split; [exact HcT|]. split; [exact Hby|]. split; [exact (cand_cands _ _ Hc)|].
  pose proof (tagset_eqb_len _ _ Heq) as Hl. split; [|exact Hl].
  unfold rtag. apply last_may_start; [exact HpT| |exact (tagset_eqb_last _ _ Heq)].
  intros E0. rewrite E0 in Hl. destruct ts; [congruence|discriminate].
Qed.

Theorem derivation_cok :
  (forall sp acc used n q, E sp acc used n q -> HE sp acc used n q)
  /\ (forall sp ts indef body ct q, W sp ts indef body ct q -> HW sp ts indef body ct q)
  /\ (forall A acc indef body kids q, FE A acc indef body kids q -> HFE A acc indef body kids q).
Proof.
  apply EWF_ind.
  - (* E_def *)
    intros sp acc ib lb body t l ct qv Hid Hdl Hlen HWv IHW Hpl. exists t. split; [destruct ct; reflexivity|].
    rewrite <- node_of_mk. apply (IHW Hpl); discriminate.
  - (* E_indef *)
    intros sp acc ib body t kids qv Hid HWv IHW Hpl. exists t. split; [reflexivity|].
    assert (Hne: t :: acc <> []) by discriminate.
    exact (IHW Hpl Hne (tcls t) (tnum t) true _).
  - (* W_bool *)
    intros sp ts fl spT body Hsel Hb Hpl Hne c num i raw.
    destruct (cer_match _ _ _ _ _ Hpl Hne Hsel) as (T' & _ & HcT & Hby & Hin & Hms & Hl).
    pose proof (by_type_cer_kind _ _ _ HcT Hby) as Hk.
    apply (cok_here _ _ _ _ T' Hin Hms Hl). cbn [node_of].
    destruct (base_of T'); try reflexivity; try discriminate; try (apply proj1 in Hk; discriminate).
    apply strict_contents_ok. exact Hb.
  - (* W_simple *)
    intros sp ts cd fl spT body Hsel Hcd Hnb Hs Hpl Hne c num i raw.
    destruct (cer_match _ _ _ _ _ Hpl Hne Hsel) as (T' & _ & HcT & Hby & Hin & Hms & Hl).
    pose proof (by_type_cer_kind _ _ _ HcT Hby) as Hk.
    apply (cok_here _ _ _ _ T' Hin Hms Hl). cbn [node_of].
    destruct (base_of T'); try reflexivity; try (subst cd; discriminate); try (destruct cd; discriminate).
  - (* W_container *)
    intros sp ts indef cd fl spT body kids q Hsel Hcd Hcons HFk IHF Hpl Hne c num i raw.
    destruct (cer_match _ _ _ _ _ Hpl Hne Hsel) as (T' & -> & HcT & Hby & Hin & Hms & Hl).
    pose proof (by_type_cer_kind _ _ _ HcT Hby) as Hk. pose proof (cplain_base _ HcT) as Hcb.
    apply (cok_here _ _ _ _ T' Hin Hms Hl). cbn [node_of].
    unfold HFE, child_spec in IHF.
    destruct (base_of T') eqn:Eb; try reflexivity; try (subst cd; discriminate);
      try (apply proj1 in Hk; destruct cd; discriminate).
    + (* SEQUENCE *)
      cbn [cplain] in Hcb. rewrite cplain_fields in Hcb.
      assert (Hfs: fs <> [] /\ forallb cplain (map snd fs) = true) by (destruct fs; [discriminate|split; [discriminate|exact Hcb]]).
      destruct Hfs as [Hfne Hfs]. apply forallb_forall. intros kid Hkid. rewrite Forall_forall in IHF.
      destruct (IHF _ Hkid) as (sp' & tk & Hch & Htag & Hcl). rewrite Htag.
      destruct Hch as [[E0 _]|[(f & Hf & ->)|(u & fs' & Hinc & ->)]]; [congruence| |].
      * assert (Hcf: cplain f = true) by (rewrite forallb_forall in Hfs; exact (Hfs _ Hf)).
        apply (cok_mono kid [f]); [intros x [<-|[]]; exact Hf|]. exact (Hcl Hcf).
      * assert (Hc': forallb cplain fs' = true) by (apply forallb_forall; intros x Hx; rewrite forallb_forall in Hfs; exact (Hfs _ (Hinc _ Hx))).
        assert (Hp': forallb plain fs' = true) by (apply forallb_forall; intros x Hx; rewrite forallb_forall in Hc'; exact (cplain_plain _ (Hc' _ Hx))).
        destruct (fields_tagmap_plain u fs' Hp') as [Hpm Hrange].
        apply (cok_mono kid (cands (SMap (fields_tagmap u fs')))); [|exact (Hcl (conj Hpm (fields_tagmap_cok u fs' Hc')))].
        intros x Hx. cbn [cands] in Hx. apply in_map_iff in Hx. destruct Hx as (kt & <- & Hkt).
        rewrite Forall_forall in Hrange. exact (Hinc _ (Hrange _ Hkt)).
    + (* SET *)
      cbn [cplain] in Hcb. rewrite cplain_fields in Hcb.
      assert (Hfs: fs <> [] /\ forallb cplain (map snd fs) = true) by (destruct fs; [discriminate|split; [discriminate|exact Hcb]]).
      destruct Hfs as [Hfne Hfs]. apply forallb_forall. intros kid Hkid. rewrite Forall_forall in IHF.
      destruct (IHF _ Hkid) as (sp' & tk & Hch & Htag & Hcl). rewrite Htag.
      destruct Hch as [[E0 _]|[(f & Hf & ->)|(u & fs' & Hinc & ->)]]; [congruence| |].
      * assert (Hcf: cplain f = true) by (rewrite forallb_forall in Hfs; exact (Hfs _ Hf)).
        apply (cok_mono kid [f]); [intros x [<-|[]]; exact Hf|]. exact (Hcl Hcf).
      * assert (Hc': forallb cplain fs' = true) by (apply forallb_forall; intros x Hx; rewrite forallb_forall in Hfs; exact (Hfs _ (Hinc _ Hx))).
        assert (Hp': forallb plain fs' = true) by (apply forallb_forall; intros x Hx; rewrite forallb_forall in Hc'; exact (cplain_plain _ (Hc' _ Hx))).
        destruct (fields_tagmap_plain u fs' Hp') as [Hpm Hrange].
        apply (cok_mono kid (cands (SMap (fields_tagmap u fs')))); [|exact (Hcl (conj Hpm (fields_tagmap_cok u fs' Hc')))].
        intros x Hx. cbn [cands] in Hx. apply in_map_iff in Hx. destruct Hx as (kt & <- & Hkt).
        rewrite Forall_forall in Hrange. exact (Hinc _ (Hrange _ Hkt)).
    + (* SEQUENCE OF *)
      cbn [cplain] in Hcb. apply forallb_forall. intros kid Hkid. rewrite Forall_forall in IHF.
      destruct (IHF _ Hkid) as (sp' & tk & Hch & Htag & Hcl). rewrite Htag. subst sp'. exact (Hcl Hcb).
    + (* SET OF *)
      cbn [cplain] in Hcb. apply forallb_forall. intros kid Hkid. rewrite Forall_forall in IHF.
      destruct (IHF _ Hkid) as (sp' & tk & Hch & Htag & Hcl). rewrite Htag. subst sp'. exact (Hcl Hcb).
  - (* W_explicit *)
    intros sp ts body n q Hsel Hex HEn IHE Hpl Hne c num i raw. cbn [node_of cok].
    apply Bool.orb_true_iff. right. cbn [is_nil negb andb forallb].
    destruct (IHE Hpl) as (t1 & Htag & Hc). rewrite (rtag_cons _ _ Hne) in Hc. cbn [length] in Hc. rewrite Hc. reflexivity.
  - (* W_explicit_indef *)
    intros sp ts body kids q Hsel Hex Hkne HFk IHF Hpl Hne c num i raw. cbn [node_of cok].
    apply Bool.orb_true_iff. right.
    assert (Hnil: negb (is_nil kids) = true) by (destruct kids; [congruence|reflexivity]). rewrite Hnil. cbn [andb].
    apply forallb_forall. intros kid Hkid. unfold HFE in IHF. rewrite Forall_forall in IHF.
    destruct (IHF _ Hkid) as (sp' & tk & -> & Htag & Hcl). specialize (Hcl Hpl).
    rewrite (rtag_cons _ _ Hne) in Hcl. exact Hcl.
  - intros A acc indef. constructor.
  - (* FE_cons *)
    intros A acc indef sp u n q rest ns qs HA Hok HEn IHE Hnz HFr IHF. constructor; [|exact IHF].
    exists sp, (mkTag (fst (node_tag n)) false (snd (node_tag n))). split; [exact HA|]. split; [destruct (node_tag n); reflexivity|].
    intros Hpl. destruct (IHE Hpl) as (t' & Htag & Hc).
    rewrite (rtag_cong _ t' acc); [exact Hc|]. cbn [tcls tnum]. rewrite <- Htag. destruct (node_tag n); reflexivity.
Qed.

(* ---------- the CER derivation against the reference parser ---------- *)

(* the member loop of an indefinite-length constructed TLV inside X690.parse_one *)
Definition many_indef (f: nat) : nat -> bytes -> option (list node * bytes) :=
  fix many (k: nat) (cs: bytes) : option (list node * bytes) :=
    match k with
    | O => None
    | S k' => match cs with
              | 0 :: 0 :: cs' => Some ([], cs')
              | _ => match parse_one f cs with
                     | Some (nd, cs') => match many k' cs' with Some (l, r) => Some (nd :: l, r) | None => None end
                     | None => None
                     end
              end
    end.

Lemma parse_one_indef f b c num r1 r2 :
  split_ident b = Some (c, true, num, r1) -> split_length r1 = Some (None, r2) ->
  parse_one (S f) b =
  match many_indef f (S (length r2)) r2 with
  | Some (kids, rest) => Some (Cons c num true kids (firstn (length b - length rest) b), rest)
  | None => None
  end.
Proof. intros H1 H2. cbn [parse_one]. rewrite H1, H2. reflexivity. Qed.

Lemma many_indef_eoo f k tl : many_indef f (S k) (0 :: 0 :: tl) = Some ([], tl).
Proof. reflexivity. Qed.

Lemma many_indef_step f k (x y: N) r : [x; y] <> [0; 0] ->
  many_indef f (S k) (x :: y :: r) =
  match parse_one f (x :: y :: r) with
  | Some (nd, cs') => match many_indef f k cs' with Some (l, r') => Some (nd :: l, r') | None => None end
  | None => None
  end.
Proof. intros H. destruct x; [destruct y; [congruence|reflexivity]|reflexivity]. Qed.

Definition PE (sp: spec) (acc: tagset) (used: bytes) (n: node) (q: bool) : Prop :=
  forallb wf_byte used = true -> forall f tl, (length used <= f)%nat ->
  parse_one (S f) (used ++ tl) = if q then None else Some (n, tl).
Definition members_ok (indef: bool) (body: bytes) (kids: list node) (q: bool) : Prop :=
  if indef
  then forall f k tl, (length body < f)%nat -> (length body < k)%nat ->
       many_indef f k (body ++ [0; 0] ++ tl) = if q then None else Some (kids, tl)
  else forall f k, (length body < f)%nat -> (length body < k)%nat ->
       many_def f k body = if q then None else Some kids.
Definition PW (sp: spec) (ts: tagset) (indef: bool) (body: bytes) (ct: content) (q: bool) : Prop :=
  forallb wf_byte body = true ->
  match ct with
  | CPrim => indef = false /\ (if q then tag0_cons ts = true /\ (body = [0] \/ body = [255]) else tag0_cons ts = false)
  | CKids kids => tag0_cons ts = true /\ members_ok indef body kids q
  end.
Definition PFE (A: spec -> Prop) (acc: tagset) (indef: bool) (body: bytes) (kids: list node) (q: bool) : Prop :=
  forallb wf_byte body = true -> members_ok indef body kids q.

Lemma explicit_cons ts : explicit_tag ts = true -> tag0_cons ts = true.
Proof. destruct ts as [|t r]; [discriminate|]. cbn. intros H. apply andb_prop in H. exact (proj1 H). Qed.

Theorem cer_derivation_parse :
  (forall sp acc used n q, E sp acc used n q -> PE sp acc used n q)
  /\ (forall sp ts indef body ct q, W sp ts indef body ct q -> PW sp ts indef body ct q)
  /\ (forall A acc indef body kids q, FE A acc indef body kids q -> PFE A acc indef body kids q).
Proof.
  apply EWF_ind.
  - (* E_def *)
    intros sp acc ib lb body t l ct qv Hid Hdl Hlen HV IHV Hwf f tl Hf.
    apply wf_app in Hwf. destruct Hwf as [Hwi Hwf]. apply wf_app in Hwf. destruct Hwf as [Hwl Hwb].
    specialize (IHV Hwb).
    pose proof (Hid []) as Hid0. rewrite app_nil_r in Hid0.
    pose proof (Hdl []) as Hdl0. rewrite app_nil_r in Hdl0.
    assert (Hlne: lb <> []) by (intros ->; cbn in Hdl0; discriminate).
    assert (Hine: ib <> []) by (intros ->; cbn in Hid0; discriminate).
    assert (Hb: (ib ++ lb ++ body) ++ tl = ib ++ (lb ++ (body ++ tl))) by (rewrite <- !app_assoc; reflexivity).
    pose proof (ident_bridge ib t Hwi Hid0 (lb ++ (body ++ tl))) as Hsi. rewrite <- Hb in Hsi.
    destruct (N.eqb_spec (hd 0 lb) 255) as [Eff|Eff]; cbn [orb].
    + apply (parse_one_nolen f _ _ _ _ _ Hsi). apply len_reserved; assumption.
    + pose proof (len_bridge lb l Hwl Hdl0 Eff (body ++ tl)) as Hsl.
      assert (Hn: N.to_nat l = length body) by lia.
      assert (Hlt: Nat.ltb (length (body ++ tl)) (N.to_nat l) = false) by (apply Nat.ltb_ge; rewrite app_length; lia).
      assert (Hraw: firstn (length ((ib ++ lb ++ body) ++ tl) - length tl) ((ib ++ lb ++ body) ++ tl) = ib ++ lb ++ body).
      { rewrite (app_length (ib ++ lb ++ body) tl). replace (length (ib ++ lb ++ body) + length tl - length tl)%nat with (length (ib ++ lb ++ body)) by lia.
        apply TagOctets.firstn_app_exact. }
      assert (Hil: (length body + 2 <= length (ib ++ lb ++ body))%nat).
      { rewrite !app_length. destruct ib; [congruence|]. destruct lb; [congruence|]. cbn [length]. lia. }
      destruct (tcon t) eqn:Etc.
      * rewrite (parse_one_cons f _ _ _ _ _ _ Hsi Hsl), Hlt, Hn.
        rewrite TagOctets.firstn_app_exact, TagOctets.skipn_app_exact, Hraw.
        destruct ct as [|kids]; cbn [mk_node].
        -- destruct IHV as [_ IHV]. destruct qv.
           ++ destruct IHV as [_ [->| ->]]; cbn [length many_def]; rewrite parse_one_single; reflexivity.
           ++ cbn [tag0_cons] in IHV. congruence.
        -- destruct IHV as [_ IHV]. unfold members_ok in IHV. rewrite (IHV f (S (length body))) by lia. destruct qv; reflexivity.
      * rewrite (parse_one_prim f _ _ _ _ _ _ Hsi Hsl), Hlt, Hn.
        rewrite TagOctets.firstn_app_exact, TagOctets.skipn_app_exact, Hraw.
        destruct ct as [|kids]; cbn [mk_node].
        -- destruct IHV as [_ IHV]. destruct qv; [destruct IHV as [IHV _]; cbn [tag0_cons] in IHV; congruence|reflexivity].
        -- destruct IHV as [IHV _]. cbn [tag0_cons] in IHV. congruence.
  - (* E_indef *)
    intros sp acc ib body t kids qv Hid HV IHV Hwf f tl Hf.
    apply wf_app in Hwf. destruct Hwf as [Hwi Hwf]. apply wf_app in Hwf. destruct Hwf as [_ Hwf].
    apply wf_app in Hwf. destruct Hwf as [Hwb _].
    destruct (IHV Hwb) as [Hcons IHm]. cbn [tag0_cons] in Hcons. unfold members_ok in IHm.
    pose proof (Hid []) as Hid0. rewrite app_nil_r in Hid0.
    assert (Hb: (ib ++ [128] ++ body ++ [0; 0]) ++ tl = ib ++ (128 :: (body ++ [0; 0] ++ tl))).
    { rewrite <- !app_assoc. reflexivity. }
    pose proof (ident_bridge ib t Hwi Hid0 (128 :: (body ++ [0; 0] ++ tl))) as Hsi. rewrite <- Hb in Hsi. rewrite Hcons in Hsi.
    assert (Hsl: split_length (128 :: (body ++ [0; 0] ++ tl)) = Some (None, body ++ [0; 0] ++ tl)) by reflexivity.
    rewrite (parse_one_indef f _ _ _ _ _ Hsi Hsl).
    remember (ib ++ [128] ++ body ++ [0; 0]) as used0 eqn:Eu0.
    assert (Hlen: (length body + 4 <= length used0)%nat).
    { rewrite Eu0, !app_length. cbn [length]. destruct ib; [cbn in Hid0; discriminate|cbn [length]; lia]. }
    remember (body ++ [0; 0] ++ tl) as r2 eqn:Er2.
    assert (Hr2: (length body < S (length r2))%nat) by (rewrite Er2, !app_length; lia).
    rewrite Er2 at 2. rewrite (IHm f (S (length r2)) tl) by lia.
    destruct qv; [reflexivity|].
    rewrite (app_length used0 tl).
    replace (length used0 + length tl - length tl)%nat with (length used0) by lia.
    rewrite TagOctets.firstn_app_exact. reflexivity.
  - (* W_bool *) intros sp ts fl spT body Hsel Hb Hwf. cbn. split; [reflexivity|]. destruct (tag0_cons ts); auto.
  - (* W_simple *) intros sp ts cd fl spT body Hsel Hcd Hnb Hs Hwf. cbn. split; [reflexivity|]. apply simple_not_cons. exact Hs.
  - (* W_container *) intros sp ts indef cd fl spT body kids q Hsel Hcd Hc HF IHF Hwf. cbn. split; [exact Hc|]. exact (IHF Hwf).
  - (* W_explicit *)
    intros sp ts body n q Hsel Hex HD IHD Hwf. cbn. split; [exact (explicit_cons _ Hex)|].
    intros f k Hf Hk. apply single_kid; [|exact Hf|exact Hk|].
    + pose proof (D_len2 _ _ _ _ _ HD). destruct body; [cbn in *; lia|discriminate].
    + intros f' tl Hf'. exact (IHD Hwf f' tl Hf').
  - (* W_explicit_indef *)
    intros sp ts body kids q Hsel Hex Hkne HF IHF Hwf. cbn. split; [exact (explicit_cons _ Hex)|]. exact (IHF Hwf).
  - (* FE_nil *)
    intros A acc indef Hwf. unfold members_ok. destruct indef.
    + intros f k tl Hf Hk. destruct k as [|k]; [cbn [length] in Hk; lia|]. reflexivity.
    + intros f k Hf Hk. destruct k as [|k]; [cbn [length] in Hk; lia|]. reflexivity.
  - (* FE_cons *)
    intros A acc indef sp u n q rest ns qs HA Hok HD IHD Hnz HF IHF Hwf.
    apply wf_app in Hwf. destruct Hwf as [Hwu Hwr]. specialize (IHF Hwr).
    pose proof (D_len2 _ _ _ _ _ HD) as Hl2. unfold members_ok in *. destruct indef.
    + intros f k tl Hf Hk. rewrite app_length in Hf, Hk.
      destruct k as [|k]; [lia|]. destruct f as [|f]; [lia|].
      destruct u as [|x [|y r]] eqn:Eu; try (cbn [length] in Hl2; lia). rewrite <- Eu in *.
      assert (Hxy: [x; y] <> [0; 0]) by (specialize (Hnz eq_refl); rewrite Eu in Hnz; exact Hnz).
      assert (Hcs: (u ++ rest) ++ [0; 0] ++ tl = x :: y :: (r ++ rest ++ [0; 0] ++ tl)) by (rewrite Eu, <- !app_assoc; reflexivity).
      rewrite Hcs, (many_indef_step _ _ _ _ _ Hxy), <- Hcs, <- app_assoc.
      rewrite (IHD Hwu f (rest ++ [0; 0] ++ tl)) by lia.
      destruct q; cbn [orb]; [reflexivity|].
      rewrite (IHF (S f) k tl) by lia. destruct qs; reflexivity.
    + intros f k Hf Hk. rewrite app_length in Hf, Hk.
      destruct k as [|k]; [lia|]. destruct f as [|f]; [lia|].
      cbn [many_def]. destruct (u ++ rest) as [|o r] eqn:Eur; [destruct u; [cbn [length] in Hl2; lia|discriminate]|]. rewrite <- Eur.
      rewrite (IHD Hwu f rest) by lia.
      destruct q; cbn [orb]; [reflexivity|].
      fold (many_def (S f)). rewrite (IHF (S f) k) by lia. destruct qs; reflexivity.
Qed.

(* ---------- the global statement for CER ---------- *)

(* Whatever the CER decoder accepts under a guiding type T (no strings, ANY, CHOICE): the octets consumed
   are one TLV tree n - definite or indefinite lengths at any level - in which every element that T makes a
   BOOLEAN, at every depth and under any tagging, is primitive with contents 00 or FF ([cok]); n is the tree
   of the reference parser unless the input uses a first length octet FF or a constructed BOOLEAN (q). *)
Theorem cer_accepts_boolean_strict : forall T b d tl, wf_bytes b = true -> cplain T = true ->
  decode CER (Some T) b = Ok (d, tl) ->
  exists used n q, b = used ++ tl /\ E (STy T) [] used n q /\ cok n [T] 1 (node_tag n) = true
                   /\ X690.parse b = (if q then None else Some (n, tl)).
Proof.
  intros T b d tl Hwf Hp H.
  destruct (decode_cer_derivation T b d tl Hp H) as (used & n & q & Hb & HE0).
  exists used, n, q. split; [exact Hb|]. split; [exact HE0|]. split.
  - destruct derivation_cok as [H1 _]. destruct (H1 _ _ _ _ _ HE0 Hp) as (t & Htag & Hc).
    cbn [cands length] in Hc. unfold rtag in Hc. cbn [last] in Hc. rewrite Htag. exact Hc.
  - destruct cer_derivation_parse as [H1 _]. unfold X690.parse. rewrite Hb.
    unfold wf_bytes in Hwf. rewrite Hb in Hwf. apply wf_app in Hwf. destruct Hwf as [Hwu _].
    apply (H1 _ _ _ _ _ HE0 Hwu). rewrite app_length. lia.
Qed.

Corollary cer_accepts_parsed_boolean_strict : forall T b d tl n rest, wf_bytes b = true -> cplain T = true ->
  decode CER (Some T) b = Ok (d, tl) -> X690.parse b = Some (n, rest) ->
  rest = tl /\ cok n [T] 1 (node_tag n) = true.
Proof.
  intros T b d tl n rest Hwf Hp H Hpa.
  destruct (cer_accepts_boolean_strict T b d tl Hwf Hp H) as (used & n0 & q & Hb & _ & Hc & Hq).
  rewrite Hpa in Hq. destruct q; [discriminate|]. inversion Hq; subst. auto.
Qed.

(* SEQUENCE { [0] EXPLICIT [APPLICATION 3] IMPLICIT BOOLEAN, INTEGER OPTIONAL, SET OF BOOLEAN }, indefinite lengths *)
Definition ex_cty : ty :=
  TSeq [(Req, TExp (mkTag Ctx false 0) (TImp (mkTag Appl false 3) TBool)); (Opt, TInt); (Req, TSetOf TBool)].
Example cer_accepts_boolean_strict_ex :
  let b := [48; 128; 160; 128; 67; 1; 255; 0; 0; 2; 1; 5; 49; 128; 1; 1; 0; 1; 1; 255; 0; 0; 0; 0] in
  wf_bytes b = true /\ cplain ex_cty = true
  /\ (exists d, decode CER (Some ex_cty) b = Ok (d, []))
  /\ (exists n, X690.parse b = Some (n, []) /\ cok n [ex_cty] 1 (node_tag n) = true).
Proof. vm_compute. split; [reflexivity|]. split; [reflexivity|]. split; eexists; [reflexivity|split; reflexivity]. Qed.

(* the predicate tells a lax BOOLEAN apart: same octets with 01 in the SET OF *)
Example cok_discriminates :
  let b := [48; 128; 160; 128; 67; 1; 255; 0; 0; 2; 1; 5; 49; 128; 1; 1; 1; 0; 0; 0; 0] in
  (exists n, X690.parse b = Some (n, []) /\ cok n [ex_cty] 1 (node_tag n) = false)
  /\ decode CER (Some ex_cty) b = Err EMalformed
  /\ (exists d, decode BER (Some ex_cty) b = Ok (d, [])).
Proof. vm_compute. split; [eexists; split; reflexivity|]. split; [reflexivity|eexists; reflexivity]. Qed.

(* likewise gshape for DER: SEQUENCE { BOOLEAN, INTEGER } with BOOLEAN 05 *)
Example gshape_discriminates :
  let T := TSeq [(Req, TBool); (Req, TInt)] in
  (exists n, X690.parse [48; 6; 1; 1; 5; 2; 1; 5] = Some (n, []) /\ gshape T n = false)
  /\ (exists n, X690.parse [48; 6; 1; 1; 255; 2; 1; 5] = Some (n, []) /\ gshape T n = true)
  /\ decode DER (Some T) [48; 6; 1; 1; 5; 2; 1; 5] = Err EMalformed.
Proof. vm_compute. split; [eexists; split; reflexivity|]. split; [eexists; split; reflexivity|reflexivity]. Qed.

Print Assumptions eoo_only.
Print Assumptions dec_call_cer_derivation.
Print Assumptions derivation_cok.
Print Assumptions cer_derivation_parse.
Print Assumptions cer_accepts_boolean_strict.
Print Assumptions cer_accepts_parsed_boolean_strict.

(* C04 at the level of the codec: the DER octets of a value are a function of its abstract content.
   Two values of a type with the same abstract content ([abs], compared by [aval_eqb]: SET OF contents
   as multisets, a DEFAULT component given explicitly with the default value or left out, a character
   string given as text or as octets, ANY given as VAny or VOcts, a REAL given with another
   mantissa/exponent split) have the same encoding: [der_abs_function] for DER over the whole universe of
   types; [cer_abs_function_partial] for CER (SET OF only of primitive definite-length members);
   [ber_abs_function_partial] for BER (no SET OF: BER does not sort).  One induction, generic in the codec
   ([Section Codec]: [encw_abs_function]), instantiated three times.

   Domain.  [c04_val T v]: the value fits the type at every level (no [ABad] inside), a base-10 REAL is
   normalised as the constructor of univ.Real leaves it (mantissa not divisible by 10), and an untagged
   ANY that is (through untagged CHOICEs) an element of a SET OF holds one complete TLV (the canonical
   order of SET OF compares zero-padded octets and is only well defined on prefix-free members).
   [c04_ty sof T]: every DEFAULT value fits its component type, and the element type of every SET OF
   satisfies [sof] (DER: no condition).  Nothing else: any tagging, SEQUENCE, SET, SEQUENCE OF, SET OF,
   CHOICE, ANY, at any depth.  The witnesses at the end show each condition is needed in the model. *)
From Coq Require Import Lia Sorting.Permutation.
From PV Require Import Base.Bytes Model.Tag Model.TableTypes Model.Types Model.Enc Gen.Tables
     Proofs.TagOctets Proofs.ContainerCodecDefs Proofs.ContainerCodecSort Proofs.RoundTripModesBag.
Local Open Scope N_scope.

(* ---------- the domain ---------- *)

Definition real_ok (r: real) : bool :=
  match r with RDec m _ => Z.eqb m 0 || negb (Z.eqb (Z.rem m 10) 0) | _ => true end.

(* one complete TLV with a definite length, in any form *)
Definition tlvb (b: bytes) : bool :=
  match dec_ident b with
  | Some (_, r1) => match dec_len r1 with
                    | Some (Some n, r2) => N.eqb (N.of_nat (length r2)) n
                    | _ => false end
  | None => false
  end.

Definition hdo {A} (l: list (option A)) : option A := match l with x :: _ => x | [] => None end.

(* the octets of an untagged ANY (reached through untagged CHOICEs) are one TLV *)
Fixpoint any_tlv (T: ty) (v: val) {struct T} : bool :=
  match T with
  | TAny => match octets_of v with Some b => tlvb b | None => false end
  | TChoice alts =>
      match v with
      | VChoice i x =>
          (fix go (l: list ty) (k: nat) : bool :=
             match l, k with
             | a :: _, O => any_tlv a x
             | _ :: r, S k' => go r k'
             | [], _ => true
             end) alts i
      | _ => true
      end
  | _ => true
  end.

Fixpoint c04_val (T: ty) (v: val) {struct T} : bool :=
  match T with
  | TImp _ x | TExp _ x => c04_val x v
  | TBool => match v with VBool _ => true | _ => false end
  | TInt | TEnum => match v with VInt _ => true | _ => false end
  | TBits => match v with VBits _ => true | _ => false end
  | TOcts => match v with VOcts _ => true | _ => false end
  | TStr _ => match v with VOcts _ | VChars _ => true | _ => false end
  | TNull => match v with VNull => true | _ => false end
  | TOid => match v with VOid _ => true | _ => false end
  | TReal => match v with VReal r => real_ok r | _ => false end
  | TAny => match v with VAny _ | VOcts _ => true | _ => false end
  | TSeqOf t => match v with VList xs => forallb (c04_val t) xs | _ => false end
  | TSetOf t => match v with VList xs => forallb (fun x => c04_val t x && any_tlv t x) xs | _ => false end
  | TSeq fs | TSet fs =>
      match v with
      | VRec vs =>
          (fix go (fs: list (presence * ty)) (vs: list (option val)) : bool :=
             match fs with
             | [] => true
             | (p, ft) :: fs' => (match hdo vs with Some x => c04_val ft x | None => true end) && go fs' (tl vs)
             end) fs vs
      | _ => false
      end
  | TChoice alts =>
      match v with
      | VChoice i x =>
          (fix go (l: list ty) (k: nat) : bool :=
             match l, k with
             | a :: _, O => c04_val a x
             | _ :: r, S k' => go r k'
             | [], _ => false
             end) alts i
      | _ => false
      end
  end.

(* every DEFAULT value fits its component type; [sof]: the element types for which SET OF is allowed *)
Fixpoint c04_ty (sof: ty -> bool) (T: ty) : bool :=
  match T with
  | TImp _ x | TExp _ x | TSeqOf x => c04_ty sof x
  | TSetOf x => sof x && c04_ty sof x
  | TSeq fs | TSet fs =>
      forallb (fun f => c04_ty sof (snd f) && match fst f with Def d => c04_val (snd f) d | _ => true end) fs
  | TChoice alts => forallb (c04_ty sof) alts
  | _ => true
  end.

(* ---------- equalities decided by the comparison functions ---------- *)

Lemma Neqb_iff x y : N.eqb x y = true <-> x = y. Proof. apply N.eqb_eq. Qed.

Lemma bytes_eqb_eq x y : bytes_eqb x y = true -> x = y.
Proof. intros H. apply (list_eqb_eq N.eqb Neqb_iff). exact H. Qed.

Lemma bits_eqb_eq x y : list_eqb Bool.eqb x y = true -> x = y.
Proof. intros H. apply (list_eqb_eq Bool.eqb bool_eqb_eq). exact H. Qed.

Lemma bytes_eqb_refl x : bytes_eqb x x = true.
Proof. apply (list_eqb_eq N.eqb Neqb_iff). reflexivity. Qed.

Lemma bytes_eqb_comm a b : bytes_eqb a b = bytes_eqb b a.
Proof.
  destruct (bytes_eqb a b) eqn:E1; destruct (bytes_eqb b a) eqn:E2; try reflexivity.
  - apply bytes_eqb_eq in E1. subst. rewrite bytes_eqb_refl in E2. discriminate.
  - apply bytes_eqb_eq in E2. subst. rewrite bytes_eqb_refl in E1. discriminate.
Qed.

(* ---------- REAL: the encoder's normalisation and the one of [abs_real] agree ---------- *)

Lemma pos_size_nat p : Pos.size_nat p = Pos.to_nat (Pos.size p).
Proof.
  induction p as [p IH|p IH|]; cbn [Pos.size_nat Pos.size]; rewrite ?Pos2Nat.inj_succ, ?IH; reflexivity.
Qed.

Lemma real_fuel m : m <> 0%Z -> (Z.to_nat (Z.log2 (Z.abs m)) + 1)%nat = N.size_nat (Z.abs_N m).
Proof.
  intros Hm.
  assert (H: forall p, (Z.to_nat (Z.log2 (Z.pos p)) + 1)%nat = Pos.size_nat p).
  { intros p. destruct p as [p|p|]; cbn [Z.log2 Pos.size_nat Z.to_nat]; rewrite ?pos_size_nat; lia. }
  destruct m as [|p|p]; [congruence|exact (H p)|exact (H p)].
Qed.

Lemma strip_sim : forall fuel m e m' e', m <> 0%Z -> strip_factor fuel 2 m e = (m', e') ->
  strip2 fuel (Z.abs_N m) e = (Z.abs_N m', e') /\ Z.ltb m' 0 = Z.ltb m 0 /\ m' <> 0%Z.
Proof.
  induction fuel as [|f IH]; intros m e m' e' Hm H; cbn [strip_factor strip2] in *.
  - inversion H; subst. repeat split; assumption.
  - assert (Hland: N.land (Z.abs_N m) 1 = Z.abs_N (Z.rem m 2)).
    { rewrite Zabs2N.inj_rem. change 1 with (N.ones 1). rewrite N.land_ones. reflexivity. }
    rewrite Hland.
    destruct (Z.eqb_spec (Z.rem m 2) 0) as [E|E].
    + rewrite E. cbn [Z.abs_N N.eqb].
      pose proof (Z.quot_rem' m 2) as Hq. rewrite E in Hq.
      assert (Hq0: Z.quot m 2 <> 0%Z) by lia.
      destruct (IH (Z.quot m 2) (e + 1)%Z m' e' Hq0 H) as (H1 & H2 & H3).
      assert (Hs: N.shiftr (Z.abs_N m) 1 = Z.abs_N (Z.quot m 2)).
      { rewrite Zabs2N.inj_quot, N.shiftr_div_pow2. reflexivity. }
      rewrite Hs. split; [exact H1|]. split; [|exact H3].
      rewrite H2. destruct (Z.ltb_spec (Z.quot m 2) 0); destruct (Z.ltb_spec m 0); try reflexivity; lia.
    + inversion H; subst.
      destruct (N.eqb_spec (Z.abs_N (Z.rem m' 2)) 0) as [E2|E2].
      * exfalso. apply E. destruct (Z.rem m' 2); [reflexivity|discriminate E2|discriminate E2].
      * repeat split; assumption.
Qed.

(* what the encoder writes for a non-zero base-2 REAL, from the sign and the normalised pair *)
Definition enc_bin (neg: bool) (me: N * Z) : res bytes :=
  let '(m', e') := me in
  let eo := exp_octets e' in
  let n := length eo in
  if Nat.ltb 255 n then Err EMalformed else
  let fo := 128 + (if neg then 64 else 0) in
  let '(fo', eo') := match n with
                     | 1%nat => (fo, eo) | 2%nat => (fo + 1, eo) | 3%nat => (fo + 2, eo)
                     | _ => (fo + 3, N.of_nat n :: eo) end in
  Ok ([fo'] ++ eo' ++ b256 m').

Lemma enc_real_bin m e : m <> 0%Z ->
  enc_real (RBin m e) = enc_bin (Z.ltb m 0) (strip2 (N.size_nat (Z.abs_N m)) (Z.abs_N m) e).
Proof.
  intros Hm. unfold enc_real, enc_bin. destruct (Z.eqb_spec m 0) as [E|_]; [congruence|]. reflexivity.
Qed.

Lemma strip10_id f m e : Z.eqb (Z.rem m 10) 0 = false -> strip_factor (f + 1) 10 m e = (m, e).
Proof. intros H. rewrite Nat.add_1_r. cbn [strip_factor]. rewrite H. reflexivity. Qed.

Lemma enc_real_abs r1 r2 : real_ok r1 = true -> real_ok r2 = true ->
  areal_eqb (abs_real r1) (abs_real r2) = true -> enc_real r1 = enc_real r2.
Proof.
  assert (Hzero: forall r, real_ok r = true -> abs_real r = AZero -> enc_real r = Ok []).
  { intros r Hok H. destruct r as [| |m e|m e|]; cbn [abs_real] in H; try discriminate H.
    - destruct (Z.eqb_spec m 0) as [->|Hm]; [reflexivity|].
      destruct (strip_factor _ 2 m e); discriminate H.
    - destruct (Z.eqb_spec m 0) as [->|Hm]; [reflexivity|].
      destruct (strip_factor _ 10 m e); discriminate H. }
  assert (Hbin: forall r m' e', abs_real r = ABin m' e' ->
            exists m e, r = RBin m e /\ m <> 0%Z /\
              strip2 (N.size_nat (Z.abs_N m)) (Z.abs_N m) e = (Z.abs_N m', e') /\ Z.ltb m' 0 = Z.ltb m 0).
  { intros r m' e' H. destruct r as [| |m e|m e|]; cbn [abs_real] in H; try discriminate H.
    - destruct (Z.eqb_spec m 0) as [->|Hm]; [discriminate H|].
      destruct (strip_factor _ 2 m e) as [m1 e1] eqn:Es. inversion H; subst m1 e1.
      rewrite (real_fuel m Hm) in Es. destruct (strip_sim _ m e m' e' Hm Es) as (H1 & H2 & _).
      exists m, e. repeat split; assumption.
    - destruct (Z.eqb m 0); [discriminate H|]. destruct (strip_factor _ 10 m e); discriminate H. }
  assert (Hdec: forall r m' e', real_ok r = true -> abs_real r = ADec m' e' -> r = RDec m' e' /\ m' <> 0%Z).
  { intros r m' e' Hok H. destruct r as [| |m e|m e|]; cbn [abs_real] in H; try discriminate H.
    - destruct (Z.eqb m 0); [discriminate H|]. destruct (strip_factor _ 2 m e); discriminate H.
    - cbn [real_ok] in Hok. destruct (Z.eqb_spec m 0) as [->|Hm]; [discriminate H|]. cbn [orb] in Hok.
      apply Bool.negb_true_iff in Hok. rewrite (strip10_id _ m e Hok) in H. inversion H; subst. split; [reflexivity|exact Hm]. }
  intros Hok1 Hok2 H.
  destruct (abs_real r1) as [| | |m1 e1|m1 e1|] eqn:E1; destruct (abs_real r2) as [| | |m2 e2|m2 e2|] eqn:E2;
    cbn [areal_eqb] in H; try discriminate H.
  - rewrite (Hzero r1 Hok1 E1), (Hzero r2 Hok2 E2). reflexivity.
  - destruct r1 as [| |m e|m e|]; cbn [abs_real] in E1; try discriminate E1;
      [| destruct (Z.eqb m 0); [discriminate E1|]; destruct (strip_factor _ 2 m e); discriminate E1
       | destruct (Z.eqb m 0); [discriminate E1|]; destruct (strip_factor _ 10 m e); discriminate E1].
    destruct r2 as [| |m e|m e|]; cbn [abs_real] in E2; try discriminate E2;
      [reflexivity
      | destruct (Z.eqb m 0); [discriminate E2|]; destruct (strip_factor _ 2 m e); discriminate E2
      | destruct (Z.eqb m 0); [discriminate E2|]; destruct (strip_factor _ 10 m e); discriminate E2].
  - destruct r1 as [| |m e|m e|]; cbn [abs_real] in E1; try discriminate E1;
      [| destruct (Z.eqb m 0); [discriminate E1|]; destruct (strip_factor _ 2 m e); discriminate E1
       | destruct (Z.eqb m 0); [discriminate E1|]; destruct (strip_factor _ 10 m e); discriminate E1].
    destruct r2 as [| |m e|m e|]; cbn [abs_real] in E2; try discriminate E2;
      [reflexivity
      | destruct (Z.eqb m 0); [discriminate E2|]; destruct (strip_factor _ 2 m e); discriminate E2
      | destruct (Z.eqb m 0); [discriminate E2|]; destruct (strip_factor _ 10 m e); discriminate E2].
  - apply Bool.andb_true_iff in H. destruct H as [Hm He]. apply Z.eqb_eq in Hm, He. subst m2 e2.
    destruct (Hbin r1 m1 e1 E1) as (ma & ea & -> & Hma & Hsa & Hna).
    destruct (Hbin r2 m1 e1 E2) as (mb & eb & -> & Hmb & Hsb & Hnb).
    rewrite (enc_real_bin ma ea Hma), (enc_real_bin mb eb Hmb), Hsa, Hsb, <- Hna, <- Hnb. reflexivity.
  - apply Bool.andb_true_iff in H. destruct H as [Hm He]. apply Z.eqb_eq in Hm, He. subst m2 e2.
    destruct (Hdec r1 m1 e1 Hok1 E1) as [-> _]. destruct (Hdec r2 m1 e1 Hok2 E2) as [-> _]. reflexivity.
Qed.

(* ---------- complete TLVs are prefix-free; what the framing writes is a complete TLV ---------- *)

Lemma dec_b128_app' : forall b acc n r tl, dec_b128 acc b = Some (n, r) -> dec_b128 acc (b ++ tl) = Some (n, r ++ tl).
Proof.
  induction b as [|o b IH]; intros acc n r tl H; [discriminate H|].
  cbn [dec_b128 app] in *. destruct (N.eqb (N.land o 128) 0).
  - inversion H; subst. reflexivity.
  - apply IH. exact H.
Qed.

Lemma dec_ident_app' b t r tl : dec_ident b = Some (t, r) -> dec_ident (b ++ tl) = Some (t, r ++ tl).
Proof.
  destruct b as [|o b]; [discriminate|]. cbn [dec_ident app]. cbv zeta.
  destruct (N.eqb (N.land o 31) 31).
  - destruct (dec_b128 0 b) as [[num r']|] eqn:E; [|discriminate]. intros H. inversion H; subst.
    rewrite (dec_b128_app' b 0 num r tl E). reflexivity.
  - intros H. inversion H; subst. reflexivity.
Qed.

Lemma dec_len_app' b ol r tl : dec_len b = Some (ol, r) -> dec_len (b ++ tl) = Some (ol, r ++ tl).
Proof.
  destruct b as [|o b]; [discriminate|]. change ((o :: b) ++ tl) with (o :: (b ++ tl)). rewrite !dec_len_cons.
  destruct (N.ltb o 128); [intros H; inversion H; subst; reflexivity|].
  destruct (N.eqb o 128); [intros H; inversion H; subst; reflexivity|]. cbv zeta.
  destruct (Nat.ltb_spec (length b) (N.to_nat (N.land o 127))) as [Hs|Hs]; [discriminate|].
  intros H. inversion H; subst; clear H.
  destruct (Nat.ltb_spec (length (b ++ tl)) (N.to_nat (N.land o 127))) as [Hs2|_]; [rewrite app_length in Hs2; lia|].
  rewrite firstn_app, skipn_app.
  replace (N.to_nat (N.land o 127) - length b)%nat with 0%nat by lia. cbn [firstn skipn]. rewrite app_nil_r. reflexivity.
Qed.

Lemma tlvb_prefix_free a z : tlvb a = true -> tlvb (a ++ z) = true -> z = [].
Proof.
  unfold tlvb. intros Ha Hb.
  destruct (dec_ident a) as [[t r1]|] eqn:E1; [|discriminate Ha].
  rewrite (dec_ident_app' a t r1 z E1) in Hb.
  destruct (dec_len r1) as [[[n|] r2]|] eqn:E2; try discriminate Ha.
  rewrite (dec_len_app' r1 (Some n) r2 z E2) in Hb.
  apply N.eqb_eq in Ha, Hb. rewrite app_length in Hb.
  destruct z as [|x z]; [reflexivity|]. cbn [length] in Hb. lia.
Qed.

Lemma frame_one_tlv t cns si sub b : frame_one t cns true si sub = Ok b -> tlvb b = true.
Proof.
  unfold frame_one. cbn [negb andb]. intros H.
  destruct (enc_len (N.of_nat (length sub)) false) as [l|e] eqn:El; cbn [bind] in H; [|discriminate H].
  inversion H; subst b; clear H. unfold tlvb.
  rewrite dec_enc_tag. rewrite (dec_enc_len _ l (sub ++ []) El). rewrite app_nil_r. apply N.eqb_refl.
Qed.

Lemma frame_outer_tlv : forall r cns si sub b, tlvb sub = true -> frame_outer r cns true si sub = Ok b -> tlvb b = true.
Proof.
  induction r as [|t r IH]; intros cns si sub b Hs H; cbn [frame_outer] in H.
  - inversion H; subst. exact Hs.
  - destruct (frame_one t cns true si sub) as [s1|e] eqn:E1; cbn [bind] in H; [|discriminate H].
    apply (IH cns si s1 b); [|exact H]. exact (frame_one_tlv _ _ _ _ _ E1).
Qed.

(* a framed item in the definite mode, not emptied by ifNotEmpty *)
Lemma frame_tlv t0 r content cns o si b : o_def o = true -> o_ifne o = false ->
  frame (t0 :: r) content cns o si = Ok b -> tlvb b = true.
Proof.
  intros Hd Hi H. cbn [frame] in H. rewrite Hi, Bool.andb_false_r, Hd in H.
  assert (Hc: (if cns then true else true) = true) by (destruct cns; reflexivity). rewrite Hc in H.
  destruct (frame_one t0 cns true si content) as [s0|e] eqn:E0; cbn [bind] in H; [|discriminate H].
  apply (frame_outer_tlv r cns si s0 b); [|exact H]. exact (frame_one_tlv _ _ _ _ _ E0).
Qed.

(* members that are complete TLVs are told apart by the zero-padded comparison *)
Lemma tlv_pad_distinct ps : Forall (fun p => tlvb p = true) ps -> pad_distinct ps.
Proof.
  intros HF a b Ha Hb E. rewrite Forall_forall in HF. unfold pad_to in E.
  apply app_eq_app in E. destruct E as (l & [[E1 _]|[E1 _]]).
  - rewrite E1. rewrite (tlvb_prefix_free b l (HF b Hb)); [apply app_nil_r|]. rewrite <- E1. exact (HF a Ha).
  - rewrite E1. rewrite (tlvb_prefix_free a l (HF a Ha)); [rewrite app_nil_r; reflexivity|]. rewrite <- E1. exact (HF b Hb).
Qed.

(* ---------- tag sets ---------- *)

Lemma tagset_nonempty : forall T ts, tagset_of T = Ok ts -> ts = [] -> T = TAny \/ exists alts, T = TChoice alts.
Proof.
  intros T ts H E. subst ts. destruct T; cbn [tagset_of] in H; try discriminate H.
  - right. eexists. reflexivity.
  - left. reflexivity.
  - destruct (tagset_of T) as [ts|e]; cbn [bind] in H; [|discriminate H]. inversion H as [H1]. exfalso.
    unfold tag_implicitly in H1. destruct (rev ts) as [|l r]; [discriminate H1|]. destruct (rev r); discriminate H1.
  - destruct (tagset_of T) as [ts|e]; cbn [bind] in H; [|discriminate H]. exfalso.
    unfold tag_explicitly in H. destruct (tcls t); [discriminate H| | |]; inversion H as [H1]; destruct ts; discriminate H1.
Qed.

Lemma concrete_encoder_imp c t x : concrete_encoder c (TImp t x) = concrete_encoder c x.
Proof. reflexivity. Qed.
Lemma concrete_encoder_exp c t x : concrete_encoder c (TExp t x) = concrete_encoder c x.
Proof. reflexivity. Qed.

(* ---------- the nested recursions of the model, named ---------- *)

Definition absf : list (presence * ty) -> list (option val) -> list (option aval) :=
  fix go (fs: list (presence * ty)) (vs: list (option val)) : list (option aval) :=
    match fs, vs with
    | (p, ft) :: fs', ov :: vs' =>
        (match ov, p with
         | Some x, _ => Some (abs ft x)
         | None, Def d => Some (abs ft d)
         | None, _ => None
         end) :: go fs' vs'
    | (p, ft) :: fs', [] =>
        (match p with Def d => Some (abs ft d) | _ => None end) :: go fs' []
    | [], _ => []
    end.

Lemma abs_rec T fs vs : T = TSeq fs \/ T = TSet fs -> abs T (VRec vs) = ARec (absf fs vs).
Proof. intros [-> | ->]; reflexivity. Qed.

Lemma absf_cons p ft fs vs :
  absf ((p, ft) :: fs) vs =
  (match hdo vs, p with Some x, _ => Some (abs ft x) | None, Def d => Some (abs ft d) | None, _ => None end) :: absf fs (tl vs).
Proof. destruct vs as [|ov vs]; [|reflexivity]. cbn [absf hdo tl]. destruct p; reflexivity. Qed.

Definition okf : list (presence * ty) -> list (option val) -> bool :=
  fix go (fs: list (presence * ty)) (vs: list (option val)) : bool :=
    match fs with
    | [] => true
    | (p, ft) :: fs' => (match hdo vs with Some x => c04_val ft x | None => true end) && go fs' (tl vs)
    end.

Lemma c04_val_rec T fs vs : T = TSeq fs \/ T = TSet fs -> c04_val T (VRec vs) = okf fs vs.
Proof. intros [-> | ->]; reflexivity. Qed.

Lemma c04_val_choice alts i x :
  c04_val (TChoice alts) (VChoice i x) = match nth_error alts i with Some a => c04_val a x | None => false end.
Proof. cbn [c04_val]. revert i. induction alts as [|a r IH]; intros [|i]; try reflexivity. cbn [nth_error]. apply IH. Qed.

Lemma any_tlv_choice alts i x :
  any_tlv (TChoice alts) (VChoice i x) = match nth_error alts i with Some a => any_tlv a x | None => true end.
Proof. cbn [any_tlv]. revert i. induction alts as [|a r IH]; intros [|i]; try reflexivity. cbn [nth_error]. apply IH. Qed.

Lemma chosen_outer_choice alts i x :
  chosen_outer (TChoice alts) (VChoice i x) = match nth_error alts i with Some a => chosen_outer a x | None => [] end.
Proof. cbn [chosen_outer]. revert i. induction alts as [|a r IH]; intros [|i]; try reflexivity. cbn [nth_error]. apply IH. Qed.

Lemma abs_choice' alts i x :
  abs (TChoice alts) (VChoice i x) = match nth_error alts i with Some a => AChoice i (abs a x) | None => ABad end.
Proof.
  assert (H: forall j k, (fix go (alts: list ty) (k: nat) : aval :=
                            match alts, k with
                            | a :: _, O => AChoice j (abs a x)
                            | _ :: r, S k' => go r k'
                            | [], _ => ABad
                            end) alts k = match nth_error alts k with Some a => AChoice j (abs a x) | None => ABad end).
  { intros j. induction alts as [|a r IH]; intros [|k]; try reflexivity. cbn [nth_error]. apply IH. }
  exact (H i i).
Qed.

(* the sort key of a SET component is determined by the abstract content *)
Lemma chosen_outer_abs : forall T x y, c04_val T x = true -> c04_val T y = true ->
  aval_eqb (abs T x) (abs T y) = true -> chosen_outer T x = chosen_outer T y.
Proof.
  induction T as [| | | | | | | | n|fs IH|fs IH|t IH|t IH|alts IH| |tg x0 IH|tg x0 IH] using ty_ind'; intros x y Hx Hy H;
    try reflexivity.
  destruct x as [| | | | | | | | | |i x|]; try discriminate Hx. destruct y as [| | | | | | | | | |j y|]; try discriminate Hy.
  rewrite c04_val_choice in Hx, Hy. rewrite !abs_choice' in H. rewrite !chosen_outer_choice.
  destruct (nth_error alts i) as [a|] eqn:Ei; [|discriminate Hx].
  destruct (nth_error alts j) as [a'|] eqn:Ej; [|discriminate Hy].
  cbn [aval_eqb] in H. apply Bool.andb_true_iff in H. destruct H as [Hij H]. apply Nat.eqb_eq in Hij. subst j.
  rewrite Ei in Ej. inversion Ej; subst a'.
  rewrite Forall_forall in IH. apply (IH a (nth_error_In _ _ Ei)); assumption.
Qed.

Lemma sort_key_abs dyn T x y : c04_val T x = true -> c04_val T y = true ->
  aval_eqb (abs T x) (abs T y) = true -> set_sort_key dyn T x = set_sort_key dyn T y.
Proof. intros Hx Hy H. unfold set_sort_key. destruct dyn; [apply chosen_outer_abs; assumption|reflexivity]. Qed.

(* Python == of a component value and the DEFAULT decides the equality of abstract contents *)
Lemma py_eq_abs' : forall ft x d b, val_py_eq x d = Some b -> c04_val ft x = true -> c04_val ft d = true ->
  aval_eqb (abs ft x) (abs ft d) = b.
Proof.
  induction ft; intros x d b H Hx Hd;
    try (cbn [c04_val abs] in *; apply IHft with (b := b); assumption);
    destruct x; try discriminate Hx; destruct d; try discriminate Hd; cbn [val_py_eq] in H; try discriminate H;
    inversion H; subst b; clear H; cbn [abs aval_eqb]; try reflexivity.
  apply bytes_eqb_comm.
Qed.

(* ---------- string contents depend on the octets only ---------- *)

Lemma enc_string_chunked_oct v b k : octets_of v = Some b ->
  enc_string_chunked v k =
  fold_left (fun acc piece => do a <- acc; do p <- frame_piece 4 piece; Ok (a ++ p)) (chunks (S (length b)) k b) (Ok []).
Proof. destruct v; intros H; inversion H; subst; reflexivity. Qed.

Lemma enc_octets_like_oct o v1 v2 : octets_of v1 = octets_of v2 -> enc_octets_like o v1 = enc_octets_like o v2.
Proof.
  intros H. unfold enc_octets_like. rewrite H. destruct (octets_of v2) as [b|] eqn:E; [|reflexivity].
  rewrite (enc_string_chunked_oct v1 b _ H), (enc_string_chunked_oct v2 b _ E). reflexivity.
Qed.

Section Codec.
  Variable c : codec.
  (* the element types for which SET OF is allowed *)
  Variable sof : ty -> bool.
  (* the options under which the members of such a SET OF are complete definite-length TLVs *)
  Variable dmode : eopts -> Prop.

  Definition encw (T: ty) (o: eopts) (v: val) : res bytes := enc_with c (enc_content c) T o v.

  Lemma fix_opts_ifne o : o_ifne (fix_opts c o) = o_ifne o.
  Proof. unfold fix_opts. destruct (enc_fixed c) as [fd fc]. reflexivity. Qed.

  Definition inner (o: eopts) : eopts := mkOpts (o_def (fix_opts c o)) (o_chunk (fix_opts c o)) false.

  Lemma encw_inv T o v b : encw T o v = Ok b ->
    exists cd fl ts content cns, concrete_encoder c T = Ok (cd, fl) /\ tagset_of T = Ok ts /\
      enc_content c T cd fl (inner o) v = Ok (content, cns) /\ frame ts content cns (fix_opts c o) (ef_indef fl) = Ok b.
  Proof.
    unfold encw, enc_with. intros H.
    destruct (concrete_encoder c T) as [[cd fl]|e] eqn:E1; cbn [bind] in H; [|discriminate H].
    destruct (tagset_of T) as [ts|e] eqn:E2; cbn [bind] in H; [|discriminate H].
    fold (inner o) in H.
    destruct (enc_content c T cd fl (inner o) v) as [[content cns]|e] eqn:E3; cbn [bind] in H; [|discriminate H].
    exists cd, fl, ts, content, cns. repeat split; assumption.
  Qed.

  Definition enc_elems (t: ty) (o: eopts) : list val -> res (list bytes) :=
    fix go (xs: list val) : res (list bytes) :=
    match xs with
    | [] => Ok []
    | x :: r => do p <- encw t o x; do ps <- go r; Ok (p :: ps)
    end.

  Lemma enc_content_listof T t cd fl o xs : T = TSeqOf t \/ T = TSetOf t ->
    enc_content c T cd fl o (VList xs) =
    (do parts <- enc_elems t o xs;
     match cd with
     | EcSeqOfBer | EcSeqOfCer => Ok (concat parts, true)
     | EcSetOfCer => Ok (concat (sort_setof parts), true)
     | _ => Err EMalformed
     end).
  Proof. intros [-> | ->]; reflexivity. Qed.

  Lemma enc_elems_F2 t o : forall xs ps, enc_elems t o xs = Ok ps <-> Forall2 (fun x p => encw t o x = Ok p) xs ps.
  Proof.
    induction xs as [|x xs IH]; intros ps; cbn [enc_elems]; split; intros H.
    - inversion H; subst. constructor.
    - inversion H; subst. reflexivity.
    - fold (enc_elems t o) in H. destruct (encw t o x) as [p|e] eqn:Ep; cbn [bind] in H; [|discriminate H].
      destruct (enc_elems t o xs) as [ps'|e] eqn:Eps; cbn [bind] in H; [|discriminate H].
      inversion H; subst. constructor; [exact Ep|]. apply IH. reflexivity.
    - inversion H as [|? p ? ps' Hp Hps]; subst. fold (enc_elems t o). rewrite Hp. cbn [bind].
      apply IH in Hps. rewrite Hps. reflexivity.
  Qed.

  Definition enc_fields (cd: enc_codec) (omit: bool) (o: eopts) : list (presence * ty) -> list (option val) -> res (list (tagset * bytes)) :=
    fix go (fs: list (presence * ty)) (vs: list (option val)) : res (list (tagset * bytes)) :=
      match fs with
      | [] => Ok []
      | (p, ft) :: fs' =>
          let ov := match vs with x :: _ => x | [] => None end in
          let vs' := match vs with _ :: r => r | [] => [] end in
          let o' := if omit then mkOpts (o_def o) (o_chunk o) (match p with Opt => true | _ => false end) else o in
          let emit (x: val) := do b <- encw ft o' x; do rest <- go fs' vs';
                               Ok ((set_sort_key (match cd with EcSetDer => true | _ => false end) ft x, b) :: rest) in
          match p, ov with
          | Opt, None => go fs' vs'
          | Def d, None => go fs' vs'
          | Def d, Some x => match val_py_eq x d with
                             | Some true => go fs' vs'
                             | Some false => emit x
                             | None => Err EUnmodelled end
          | Req, None => if all_optional_container ft then emit (VRec []) else Err EMalformed
          | _, Some x => emit x
          end
      end.

  Lemma enc_content_rec T fs cd fl o vs : T = TSeq fs \/ T = TSet fs ->
    enc_content c T cd fl o (VRec vs) =
    (do parts <- enc_fields cd (match cd with EcSeq => ef_omit_empty fl | EcSetCer | EcSetDer => true | _ => false end) o fs vs;
     match cd with
     | EcSeq => Ok (concat (map snd parts), true)
     | EcSetCer | EcSetDer => Ok (concat (map snd (sort_by tagset_ltb fst parts)), true)
     | _ => Err EMalformed
     end).
  Proof. intros [-> | ->]; reflexivity. Qed.

  Lemma enc_content_choice alts fl o i x :
    enc_content c (TChoice alts) EcChoice fl o (VChoice i x) =
    match nth_error alts i with Some a => (do p <- encw a o x; Ok (p, true)) | None => Err EMalformed end.
  Proof.
    cbn [enc_content]. revert i. induction alts as [|a r IH]; intros [|i]; try reflexivity. cbn [nth_error]. apply IH.
  Qed.

  Hypothesis Hdm_inner : forall o, dmode o -> dmode (inner o).
  Hypothesis Hdm_field : forall o b, dmode o -> dmode (mkOpts (o_def o) (o_chunk o) b).
  (* the codec sends such a SET OF to the sorting encoder (CER, DER; not BER) *)
  Hypothesis Hset : forall t, sof t = true -> forall cd fl, concrete_encoder c (TSetOf t) = Ok (cd, fl) -> cd = EcSetOfCer.
  (* and its members are complete definite-length TLVs *)
  Hypothesis Htlv : forall t, sof t = true -> forall o x p, dmode o -> o_ifne o = false -> any_tlv t x = true ->
    encw t o x = Ok p -> tlvb p = true.

  (* ---------- the two levels of the induction ---------- *)

  Definition Pw (T: ty) : Prop := forall o v1 v2 b1 b2, dmode o -> c04_ty sof T = true ->
    c04_val T v1 = true -> c04_val T v2 = true -> aval_eqb (abs T v1) (abs T v2) = true ->
    encw T o v1 = Ok b1 -> encw T o v2 = Ok b2 -> b1 = b2.

  Definition Qc (T: ty) : Prop := forall cd fl o v1 v2 c1 c2, concrete_encoder c T = Ok (cd, fl) ->
    dmode o -> o_ifne o = false -> c04_ty sof T = true ->
    c04_val T v1 = true -> c04_val T v2 = true -> aval_eqb (abs T v1) (abs T v2) = true ->
    enc_content c T cd fl o v1 = Ok c1 -> enc_content c T cd fl o v2 = Ok c2 -> c1 = c2.

  Lemma Pw_of_Qc T : Qc T -> Pw T.
  Proof.
    intros HQ o v1 v2 b1 b2 Hd Hty H1 H2 Habs E1 E2.
    destruct (encw_inv _ _ _ _ E1) as (cd & fl & ts & content & cns & Hce & Hts & Hcont & Hfr).
    destruct (encw_inv _ _ _ _ E2) as (cd' & fl' & ts' & content' & cns' & Hce' & Hts' & Hcont' & Hfr').
    rewrite Hce in Hce'. inversion Hce'; subst cd' fl'. rewrite Hts in Hts'. inversion Hts'; subst ts'.
    pose proof (HQ cd fl (inner o) v1 v2 _ _ Hce (Hdm_inner o Hd) eq_refl Hty H1 H2 Habs Hcont Hcont') as E.
    inversion E; subst content' cns'. rewrite Hfr in Hfr'. inversion Hfr'. reflexivity.
  Qed.

  (* the simple types and ANY: the contents octets are a function of the abstract content *)
  Definition leaf_ty (T: ty) : Prop :=
    match T with
    | TBool | TInt | TEnum | TBits | TOcts | TNull | TOid | TReal | TStr _ | TAny => True
    | _ => False
    end.

  Lemma leaf_content T cd fl o v1 v2 : leaf_ty T -> c04_val T v1 = true -> c04_val T v2 = true ->
    aval_eqb (abs T v1) (abs T v2) = true -> enc_content c T cd fl o v1 = enc_content c T cd fl o v2.
  Proof.
    intros HT H1 H2 H.
    destruct T; try contradiction HT; cbn [c04_val] in H1, H2.
    - destruct v1; try discriminate H1. destruct v2; try discriminate H2. cbn [abs aval_eqb] in H.
      apply Bool.eqb_prop in H. subst. reflexivity.
    - destruct v1; try discriminate H1. destruct v2; try discriminate H2. cbn [abs aval_eqb] in H.
      apply Z.eqb_eq in H. subst. reflexivity.
    - destruct v1; try discriminate H1. destruct v2; try discriminate H2. cbn [abs aval_eqb] in H.
      apply Z.eqb_eq in H. subst. reflexivity.
    - destruct v1; try discriminate H1. destruct v2; try discriminate H2. cbn [abs aval_eqb] in H.
      apply bits_eqb_eq in H. subst. reflexivity.
    - destruct v1; try discriminate H1. destruct v2; try discriminate H2. cbn [abs aval_eqb] in H.
      apply bytes_eqb_eq in H. subst. reflexivity.
    - destruct v1; try discriminate H1. destruct v2; try discriminate H2. reflexivity.
    - destruct v1; try discriminate H1. destruct v2; try discriminate H2. cbn [abs aval_eqb] in H.
      apply (list_eqb_eq N.eqb Neqb_iff) in H. subst. reflexivity.
    - destruct v1 as [| | | | | | |r1| | | |]; try discriminate H1. destruct v2 as [| | | | | | |r2| | | |]; try discriminate H2.
      cbn [abs aval_eqb] in H. cbn [enc_content]. rewrite (enc_real_abs r1 r2 H1 H2 H). reflexivity.
    - assert (Ho: octets_of v1 = octets_of v2).
      { destruct v1; try discriminate H1; destruct v2; try discriminate H2; cbn [abs aval_eqb] in H;
          apply bytes_eqb_eq in H; cbn [octets_of]; rewrite H; reflexivity. }
      cbn [enc_content]. destruct cd; try reflexivity.
      + apply enc_octets_like_oct. exact Ho.
      + rewrite Ho. destruct (octets_of v2) as [b|] eqn:E2; [|reflexivity]. destruct (time_guard fl b); [|reflexivity]. cbn [bind].
        apply enc_octets_like_oct. congruence.
      + rewrite Ho. destruct (octets_of v2) as [b|] eqn:E2; [|reflexivity]. destruct (time_guard fl b); [|reflexivity]. cbn [bind].
        apply enc_octets_like_oct. congruence.
    - assert (Ho: octets_of v1 = octets_of v2).
      { destruct v1; try discriminate H1; destruct v2; try discriminate H2; cbn [abs aval_eqb] in H;
          apply bytes_eqb_eq in H; cbn [octets_of]; rewrite H; reflexivity. }
      cbn [enc_content]. rewrite Ho. reflexivity.
  Qed.

  (* ---------- SEQUENCE OF / SET OF ---------- *)

  Lemma Forall2_map_inv {A B C D} (P: C -> D -> Prop) (f: A -> C) (g: B -> D) : forall xs ys,
    Forall2 P (map f xs) (map g ys) -> Forall2 (fun x y => P (f x) (g y)) xs ys.
  Proof.
    induction xs as [|x xs IH]; intros [|y ys] H; cbn [map] in H; inversion H; subst; constructor; [assumption|].
    apply IH. assumption.
  Qed.

  Lemma elems_pointwise t o : Pw t -> c04_ty sof t = true -> dmode o -> forall xs ys,
    Forall2 (fun x y => aval_eqb (abs t x) (abs t y) = true) xs ys ->
    Forall (fun x => c04_val t x = true) xs -> Forall (fun x => c04_val t x = true) ys ->
    forall ps qs, Forall2 (fun x p => encw t o x = Ok p) xs ps -> Forall2 (fun x p => encw t o x = Ok p) ys qs -> ps = qs.
  Proof.
    intros HP Hty Hd xs ys HF. induction HF as [|x y xs ys Hxy HF IH]; intros Hx Hy ps qs Ep Eq.
    - inversion Ep; inversion Eq; reflexivity.
    - inversion Ep as [|? p ? ps' Hp Hps]; subst. inversion Eq as [|? q ? qs' Hq Hqs]; subst.
      inversion Hx; subst. inversion Hy; subst.
      f_equal; [exact (HP o x y p q Hd Hty ltac:(assumption) ltac:(assumption) Hxy Hp Hq)|].
      apply IH; assumption.
  Qed.

  Lemma Qc_seqof t : Pw t -> Qc (TSeqOf t).
  Proof.
    intros HP cd fl o v1 v2 c1 c2 Hce Hd Hi Hty H1 H2 Habs E1 E2.
    cbn [c04_ty] in Hty.
    destruct v1 as [| | | | | | | | |xs| |]; try discriminate H1. destruct v2 as [| | | | | | | | |ys| |]; try discriminate H2.
    cbn [c04_val] in H1, H2. rewrite forallb_forall in H1, H2.
    cbn [abs aval_eqb] in Habs. apply list_eqb_F2 in Habs. apply Forall2_map_inv in Habs.
    rewrite (enc_content_listof (TSeqOf t) t cd fl o xs (or_introl eq_refl)) in E1.
    rewrite (enc_content_listof (TSeqOf t) t cd fl o ys (or_introl eq_refl)) in E2.
    destruct (enc_elems t o xs) as [ps|e] eqn:Ep; cbn [bind] in E1; [|discriminate E1].
    destruct (enc_elems t o ys) as [qs|e] eqn:Eq; cbn [bind] in E2; [|discriminate E2].
    apply enc_elems_F2 in Ep, Eq.
    assert (E: ps = qs).
    { apply (elems_pointwise t o HP Hty Hd xs ys Habs); try assumption; apply Forall_forall; assumption. }
    subst qs. rewrite E1 in E2. inversion E2. reflexivity.
  Qed.

  Lemma Qc_setof t : Pw t -> Qc (TSetOf t).
  Proof.
    intros HP cd fl o v1 v2 c1 c2 Hce Hd Hi Hty H1 H2 Habs E1 E2.
    cbn [c04_ty] in Hty. apply Bool.andb_true_iff in Hty. destruct Hty as [S Hty]. pose proof (Hset t S cd fl Hce) as ->.
    destruct v1 as [| | | | | | | | |xs| |]; try discriminate H1. destruct v2 as [| | | | | | | | |ys| |]; try discriminate H2.
    cbn [c04_val] in H1, H2. rewrite forallb_forall in H1, H2.
    cbn [abs aval_eqb] in Habs.
    destruct (bag_eqb_sound aval_eqb _ _ Habs) as (l2' & Hperm & HF).
    destruct (Permutation_map_inv _ _ Hperm) as (ys' & -> & Hpy).
    apply Forall2_map_inv in HF.
    rewrite (enc_content_listof (TSetOf t) t EcSetOfCer fl o xs (or_intror eq_refl)) in E1.
    rewrite (enc_content_listof (TSetOf t) t EcSetOfCer fl o ys (or_intror eq_refl)) in E2.
    destruct (enc_elems t o xs) as [ps|e] eqn:Ep; cbn [bind] in E1; [|discriminate E1].
    destruct (enc_elems t o ys) as [qs|e] eqn:Eq; cbn [bind] in E2; [|discriminate E2].
    apply enc_elems_F2 in Ep, Eq.
    destruct (Permutation_Forall2 Hpy Eq) as (qs' & Hpq & Eq').
    assert (Hxs: Forall (fun x => c04_val t x = true) xs).
    { apply Forall_forall. intros x Hx. specialize (H1 x Hx). apply Bool.andb_true_iff in H1. exact (proj1 H1). }
    assert (Hys: Forall (fun x => c04_val t x = true) ys').
    { apply Forall_forall. intros x Hx. assert (Hin: In x ys) by (eapply Permutation_in; [apply Permutation_sym; exact Hpy|exact Hx]).
      specialize (H2 x Hin). apply Bool.andb_true_iff in H2. exact (proj1 H2). }
    assert (E: ps = qs') by (apply (elems_pointwise t o HP Hty Hd xs ys' HF Hxs Hys); assumption).
    subst qs'.
    assert (Hps: Forall (fun p => tlvb p = true) ps).
    { clear - Ep H1 Hd Hi Htlv S. induction Ep as [|x p xs ps Hp Hps' IH]; constructor.
      - assert (Hx: In x (x :: xs)) by (left; reflexivity). specialize (H1 x Hx). apply Bool.andb_true_iff in H1.
        exact (Htlv t S o x p Hd Hi (proj2 H1) Hp).
      - apply IH. intros y Hy. apply H1. right. exact Hy. }
    rewrite (sort_setof_perm ps qs (Permutation_sym Hpq) (tlv_pad_distinct ps Hps)) in E1.
    inversion E1; inversion E2; subst. reflexivity.
  Qed.

  (* ---------- SEQUENCE / SET ---------- *)

  Definition emitf (cd: enc_codec) (omit: bool) (o: eopts) (p: presence) (ft: ty) (k: res (list (tagset * bytes))) (x: val)
    : res (list (tagset * bytes)) :=
    do b <- encw ft (if omit then mkOpts (o_def o) (o_chunk o) (match p with Opt => true | _ => false end) else o) x;
    do rest <- k;
    Ok ((set_sort_key (match cd with EcSetDer => true | _ => false end) ft x, b) :: rest).

  Definition field_step (cd: enc_codec) (omit: bool) (o: eopts) (p: presence) (ft: ty) (h: option val)
             (k: res (list (tagset * bytes))) : res (list (tagset * bytes)) :=
    match p, h with
    | Opt, None => k
    | Def d, None => k
    | Def d, Some x => match val_py_eq x d with
                       | Some true => k
                       | Some false => emitf cd omit o p ft k x
                       | None => Err EUnmodelled end
    | Req, None => if all_optional_container ft then emitf cd omit o p ft k (VRec []) else Err EMalformed
    | _, Some x => emitf cd omit o p ft k x
    end.

  Lemma enc_fields_cons cd omit o p ft fs vs :
    enc_fields cd omit o ((p, ft) :: fs) vs = field_step cd omit o p ft (hdo vs) (enc_fields cd omit o fs (tl vs)).
  Proof. destruct vs as [|ov vs]; destruct p; try reflexivity; cbn [hdo]; destruct ov; reflexivity. Qed.

  Lemma okf_cons p ft fs vs :
    okf ((p, ft) :: fs) vs = (match hdo vs with Some x => c04_val ft x | None => true end) && okf fs (tl vs).
  Proof. reflexivity. Qed.

  Lemma emitf_eq cd (omit: bool) o (p: presence) ft k1 k2 x y p1 p2 :
    (forall b1 b2, encw ft (if omit then mkOpts (o_def o) (o_chunk o) (match p with Opt => true | _ => false end) else o) x = Ok b1 ->
                   encw ft (if omit then mkOpts (o_def o) (o_chunk o) (match p with Opt => true | _ => false end) else o) y = Ok b2 -> b1 = b2) ->
    (forall dyn, set_sort_key dyn ft x = set_sort_key dyn ft y) ->
    (forall r1 r2, k1 = Ok r1 -> k2 = Ok r2 -> r1 = r2) ->
    emitf cd omit o p ft k1 x = Ok p1 -> emitf cd omit o p ft k2 y = Ok p2 -> p1 = p2.
  Proof.
    intros Hb Hk Hr E1 E2. unfold emitf in E1, E2.
    destruct (encw ft _ x) as [b1|e] eqn:Ex; cbn [bind] in E1; [|discriminate E1].
    destruct (encw ft _ y) as [b2|e] eqn:Ey; cbn [bind] in E2; [|discriminate E2].
    destruct k1 as [r1|e]; cbn [bind] in E1; [|discriminate E1].
    destruct k2 as [r2|e]; cbn [bind] in E2; [|discriminate E2].
    rewrite (Hb b1 b2 eq_refl eq_refl), (Hr r1 r2 eq_refl eq_refl), (Hk _) in E1. rewrite E1 in E2. inversion E2. reflexivity.
  Qed.

  Definition absh (p: presence) (ft: ty) (h: option val) : option aval :=
    match h, p with Some x, _ => Some (abs ft x) | None, Def d => Some (abs ft d) | None, _ => None end.
  Definition okh (ft: ty) (h: option val) : bool := match h with Some x => c04_val ft x | None => true end.

  Lemma field_step_eq cd omit o p ft h1 h2 k1 k2 p1 p2 :
    Pw ft -> c04_ty sof ft = true -> (match p with Def d => c04_val ft d | _ => true end) = true -> dmode o ->
    okh ft h1 = true -> okh ft h2 = true -> opt_eqb aval_eqb (absh p ft h1) (absh p ft h2) = true ->
    (forall r1 r2, k1 = Ok r1 -> k2 = Ok r2 -> r1 = r2) ->
    field_step cd omit o p ft h1 k1 = Ok p1 -> field_step cd omit o p ft h2 k2 = Ok p2 -> p1 = p2.
  Proof.
    intros HP Hty Hdef Hd Hk1 Hk2 Habs Hr E1 E2.
    assert (Hemit: forall x y, c04_val ft x = true -> c04_val ft y = true -> aval_eqb (abs ft x) (abs ft y) = true ->
              emitf cd omit o p ft k1 x = Ok p1 -> emitf cd omit o p ft k2 y = Ok p2 -> p1 = p2).
    { intros x y Hx Hy Hxy. apply emitf_eq; [|intros dyn; apply sort_key_abs; assumption|exact Hr].
      intros b1 b2. apply HP; try assumption. destruct omit; [apply Hdm_field; exact Hd|exact Hd]. }
    destruct p as [| |d]; destruct h1 as [x|]; destruct h2 as [y|]; cbn [absh opt_eqb okh] in *; try discriminate Habs;
      cbn [field_step] in E1, E2.
    - exact (Hemit x y Hk1 Hk2 Habs E1 E2).
    - destruct (all_optional_container ft); [|discriminate E1].
      apply (emitf_eq cd omit o Req ft k1 k2 (VRec []) (VRec []) p1 p2); try assumption; [|reflexivity].
      intros b1 b2 A B. rewrite A in B. inversion B. reflexivity.
    - exact (Hemit x y Hk1 Hk2 Habs E1 E2).
    - exact (Hr p1 p2 E1 E2).
    - (* DEFAULT: both present *)
      destruct (val_py_eq x d) as [[|]|] eqn:Ex; [| |discriminate E1];
        (destruct (val_py_eq y d) as [[|]|] eqn:Ey; [| |discriminate E2]).
      + exact (Hr p1 p2 E1 E2).
      + exfalso. pose proof (py_eq_abs' ft x d true Ex Hk1 Hdef) as A. pose proof (py_eq_abs' ft y d false Ey Hk2 Hdef) as B.
        rewrite (aval_eqb_trans _ _ _ (aval_eqb_sym _ _ Habs) A) in B. discriminate B.
      + exfalso. pose proof (py_eq_abs' ft x d false Ex Hk1 Hdef) as A. pose proof (py_eq_abs' ft y d true Ey Hk2 Hdef) as B.
        rewrite (aval_eqb_trans _ _ _ Habs B) in A. discriminate A.
      + exact (Hemit x y Hk1 Hk2 Habs E1 E2).
    - (* DEFAULT: given / left out *)
      destruct (val_py_eq x d) as [[|]|] eqn:Ex; [| |discriminate E1].
      + exact (Hr p1 p2 E1 E2).
      + exfalso. pose proof (py_eq_abs' ft x d false Ex Hk1 Hdef) as A. rewrite Habs in A. discriminate A.
    - (* DEFAULT: left out / given *)
      destruct (val_py_eq y d) as [[|]|] eqn:Ey; [| |discriminate E2].
      + exact (Hr p1 p2 E1 E2).
      + exfalso. pose proof (py_eq_abs' ft y d false Ey Hk2 Hdef) as B. rewrite (aval_eqb_sym _ _ Habs) in B. discriminate B.
    - exact (Hr p1 p2 E1 E2).
  Qed.

  Lemma fields_eq cd omit o : dmode o -> forall fs, Forall (fun f => Pw (snd f)) fs ->
    forallb (fun f => c04_ty sof (snd f) && match fst f with Def d => c04_val (snd f) d | _ => true end) fs = true ->
    forall vs1 vs2 p1 p2, okf fs vs1 = true -> okf fs vs2 = true ->
    list_eqb (opt_eqb aval_eqb) (absf fs vs1) (absf fs vs2) = true ->
    enc_fields cd omit o fs vs1 = Ok p1 -> enc_fields cd omit o fs vs2 = Ok p2 -> p1 = p2.
  Proof.
    intros Hd fs HF. induction HF as [|[p ft] fs HPf HF IH]; intros Hty vs1 vs2 p1 p2 H1 H2 Habs E1 E2.
    - cbn [enc_fields] in E1, E2. inversion E1; inversion E2; reflexivity.
    - cbn [forallb fst snd] in Hty. apply Bool.andb_true_iff in Hty. destruct Hty as [Hty0 Hty].
      apply Bool.andb_true_iff in Hty0. destruct Hty0 as [Htyf Hdef].
      rewrite okf_cons in H1, H2. apply Bool.andb_true_iff in H1, H2. destruct H1 as [H1a H1b]. destruct H2 as [H2a H2b].
      rewrite !absf_cons in Habs. cbn [list_eqb] in Habs. apply Bool.andb_true_iff in Habs. destruct Habs as [Ha Hb].
      rewrite enc_fields_cons in E1, E2. cbn [snd] in HPf.
      apply (field_step_eq cd omit o p ft (hdo vs1) (hdo vs2) (enc_fields cd omit o fs (tl vs1)) (enc_fields cd omit o fs (tl vs2)) p1 p2
               HPf Htyf Hdef Hd H1a H2a Ha); [|exact E1|exact E2].
      intros r1 r2 R1 R2. exact (IH Hty (tl vs1) (tl vs2) r1 r2 H1b H2b Hb R1 R2).
  Qed.

  Lemma Qc_rec T fs : T = TSeq fs \/ T = TSet fs -> Forall (fun f => Pw (snd f)) fs -> Qc T.
  Proof.
    intros HT HF cd fl o v1 v2 c1 c2 Hce Hd Hi Hty H1 H2 Habs E1 E2.
    assert (Hty': forallb (fun f => c04_ty sof (snd f) && match fst f with Def d => c04_val (snd f) d | _ => true end) fs = true).
    { destruct HT as [-> | ->]; exact Hty. }
    destruct v1 as [| | | | | | | |vs1| | |]; try (destruct HT as [-> | ->]; discriminate H1).
    destruct v2 as [| | | | | | | |vs2| | |]; try (destruct HT as [-> | ->]; discriminate H2).
    rewrite (c04_val_rec T fs vs1 HT) in H1. rewrite (c04_val_rec T fs vs2 HT) in H2.
    rewrite (abs_rec T fs vs1 HT), (abs_rec T fs vs2 HT) in Habs. cbn [aval_eqb] in Habs.
    rewrite (enc_content_rec T fs cd fl o vs1 HT) in E1. rewrite (enc_content_rec T fs cd fl o vs2 HT) in E2.
    destruct (enc_fields cd _ o fs vs1) as [q1|e] eqn:F1; cbn [bind] in E1; [|discriminate E1].
    destruct (enc_fields cd _ o fs vs2) as [q2|e] eqn:F2; cbn [bind] in E2; [|discriminate E2].
    rewrite (fields_eq cd _ o Hd fs HF Hty' vs1 vs2 q1 q2 H1 H2 Habs F1 F2) in E1. rewrite E1 in E2. inversion E2. reflexivity.
  Qed.

  (* ---------- CHOICE ---------- *)

  Lemma Qc_choice alts : Forall Pw alts -> Qc (TChoice alts).
  Proof.
    intros HF cd fl o v1 v2 c1 c2 Hce Hd Hi Hty H1 H2 Habs E1 E2.
    destruct v1 as [| | | | | | | | | |i x|]; try discriminate H1. destruct v2 as [| | | | | | | | | |j y|]; try discriminate H2.
    rewrite c04_val_choice in H1, H2. rewrite !abs_choice' in Habs.
    destruct (nth_error alts i) as [a|] eqn:Ei; [|discriminate H1].
    destruct (nth_error alts j) as [a'|] eqn:Ej; [|discriminate H2].
    cbn [aval_eqb] in Habs. apply Bool.andb_true_iff in Habs. destruct Habs as [Hij Habs]. apply Nat.eqb_eq in Hij. subst j.
    rewrite Ei in Ej. inversion Ej; subst a'.
    destruct cd; try (cbn [enc_content] in E1; discriminate E1).
    rewrite enc_content_choice, Ei in E1, E2.
    destruct (encw a o x) as [p1|e] eqn:Ep1; cbn [bind] in E1; [|discriminate E1].
    destruct (encw a o y) as [p2|e] eqn:Ep2; cbn [bind] in E2; [|discriminate E2].
    rewrite Forall_forall in HF. pose proof (HF a (nth_error_In _ _ Ei)) as HPa.
    cbn [c04_ty] in Hty. rewrite forallb_forall in Hty.
    rewrite (HPa o x y p1 p2 Hd (Hty a (nth_error_In _ _ Ei)) H1 H2 Habs Ep1 Ep2) in E1. rewrite E1 in E2. inversion E2. reflexivity.
  Qed.

  (* ---------- the induction ---------- *)

  Lemma Qc_leaf T : leaf_ty T -> Qc T.
  Proof.
    intros HT cd fl o v1 v2 c1 c2 Hce Hd Hi Hty H1 H2 Habs E1 E2.
    rewrite (leaf_content T cd fl o v1 v2 HT H1 H2 Habs) in E1. rewrite E1 in E2. inversion E2. reflexivity.
  Qed.

  Theorem Qc_all : forall T, Qc T.
  Proof.
    induction T as [| | | | | | | | n|fs IH|fs IH|t IH|t IH|alts IH| |tg x IH|tg x IH] using ty_ind';
      try (apply Qc_leaf; exact I).
    - apply (Qc_rec (TSeq fs) fs (or_introl eq_refl)). apply Forall_forall. rewrite Forall_forall in IH.
      intros f Hf. apply Pw_of_Qc. exact (IH f Hf).
    - apply (Qc_rec (TSet fs) fs (or_intror eq_refl)). apply Forall_forall. rewrite Forall_forall in IH.
      intros f Hf. apply Pw_of_Qc. exact (IH f Hf).
    - apply Qc_seqof. apply Pw_of_Qc. exact IH.
    - apply Qc_setof. apply Pw_of_Qc. exact IH.
    - apply Qc_choice. apply Forall_forall. rewrite Forall_forall in IH. intros a Ha. apply Pw_of_Qc. exact (IH a Ha).
    - intros cd fl o v1 v2 c1 c2 Hce. rewrite concrete_encoder_imp in Hce. exact (IH cd fl o v1 v2 c1 c2 Hce).
    - intros cd fl o v1 v2 c1 c2 Hce. rewrite concrete_encoder_exp in Hce. exact (IH cd fl o v1 v2 c1 c2 Hce).
  Qed.

  Theorem encw_abs_function : forall T, Pw T.
  Proof. intros T. apply Pw_of_Qc. apply Qc_all. Qed.

End Codec.

(* ---------- in the definite-length mode every item the encoder writes is one complete TLV ---------- *)

Section Tlv.
  Variable c : codec.
  (* the codec keeps the definite-length mode once it is chosen (BER, DER; not CER) *)
  Hypothesis Hfix : forall o, o_def o = true -> o_def (fix_opts c o) = true.

  Lemma encw_tlv : forall T o v b, o_def o = true -> o_ifne o = false -> any_tlv T v = true ->
    encw c T o v = Ok b -> tlvb b = true.
  Proof.
    induction T as [| | | | | | | | n|fs IH|fs IH|t IH|t IH|alts IH| |tg x0 IH|tg x0 IH] using ty_ind'; intros o v b Hd Hi Ha He;
      destruct (encw_inv c _ o v b He) as (cd & fl & ts & content & cns & Hce & Hts & Hcont & Hfr);
      (destruct ts as [|t0 r];
       [|apply (frame_tlv t0 r content cns (fix_opts c o) (ef_indef fl) b); [apply Hfix; exact Hd|rewrite fix_opts_ifne; exact Hi|exact Hfr]]);
      destruct (tagset_nonempty _ _ Hts eq_refl) as [E|[alts' E]]; try discriminate E.
    - (* CHOICE *)
      cbn [frame] in Hfr. inversion Hfr; subst content; clear Hfr.
      destruct v as [| | | | | | | | | |i x|]; try (cbn [enc_content] in Hcont; discriminate Hcont).
      destruct cd; try (cbn [enc_content] in Hcont; discriminate Hcont).
      rewrite enc_content_choice in Hcont. rewrite any_tlv_choice in Ha.
      destruct (nth_error alts i) as [a|] eqn:Ei; [|discriminate Hcont].
      destruct (encw c a (inner c o) x) as [p|e] eqn:Ep; cbn [bind] in Hcont; [|discriminate Hcont].
      inversion Hcont; subst p cns; clear Hcont.
      rewrite Forall_forall in IH. apply (IH a (nth_error_In _ _ Ei) (inner c o) x b); [exact (Hfix o Hd)|reflexivity|exact Ha|exact Ep].
    - (* ANY *)
      cbn [frame] in Hfr. inversion Hfr; subst content; clear Hfr.
      cbn [enc_content] in Hcont. cbn [any_tlv] in Ha.
      destruct cd; try discriminate Hcont.
      destruct (octets_of v) as [b0|]; [|discriminate Hcont]. inversion Hcont; subst. exact Ha.
  Qed.

End Tlv.

(* ---------- the codecs ---------- *)

Definition all_ty (T: ty) : bool := true.
Definition no_ty (T: ty) : bool := false.

Lemma der_fix : forall o, o_def o = true -> o_def (fix_opts DER o) = true.
Proof. intros o _. reflexivity. Qed.

Lemma der_setof : forall t, all_ty t = true -> forall cd fl, concrete_encoder DER (TSetOf t) = Ok (cd, fl) -> cd = EcSetOfCer.
Proof. intros t _ cd fl H. vm_compute in H. inversion H. reflexivity. Qed.

Lemma der_opts T d k v : encode DER d k T v = encw DER T (mkOpts true 0 false) v.
Proof. reflexivity. Qed.

(* DER (whatever defMode / maxChunkSize the caller passes: the DER encoder fixes them): the octets are a
   function of the abstract content, over the whole universe of types *)
Theorem der_abs_function : forall T v1 v2 b1 b2 d k,
  c04_ty all_ty T = true -> c04_val T v1 = true -> c04_val T v2 = true ->
  aval_eqb (abs T v1) (abs T v2) = true ->
  encode DER d k T v1 = Ok b1 -> encode DER d k T v2 = Ok b2 -> b1 = b2.
Proof.
  intros T v1 v2 b1 b2 d k Hty H1 H2 Habs E1 E2. rewrite der_opts in E1, E2.
  apply (encw_abs_function DER all_ty (fun o => o_def o = true)
           (fun o Ho => der_fix o Ho) (fun o b Ho => Ho) der_setof
           (fun t _ o x p Hd Hi Ha He => encw_tlv DER der_fix t o x p Hd Hi Ha He)
           T (mkOpts true 0 false) v1 v2 b1 b2); try assumption. reflexivity.
Qed.

(* the statement as asked for *)
Corollary der_abs_function_def : forall T v1 v2 b1 b2,
  c04_ty all_ty T = true -> c04_val T v1 = true -> c04_val T v2 = true ->
  aval_eqb (abs T v1) (abs T v2) = true ->
  encode DER true 0 T v1 = Ok b1 -> encode DER true 0 T v2 = Ok b2 -> b1 = b2.
Proof. intros T v1 v2 b1 b2. apply der_abs_function. Qed.

(* CER: SET OF is covered where the members are primitive encodings under one tag (BOOLEAN, INTEGER, ENUMERATED,
   NULL, OBJECT IDENTIFIER, REAL, IMPLICITly tagged or not): these keep a definite length under CER *)
Fixpoint cer_prim (T: ty) : bool :=
  match T with
  | TImp _ x => cer_prim x
  | TBool | TInt | TEnum | TNull | TOid | TReal => true
  | _ => false
  end.

Lemma cer_prim_tagset : forall T, cer_prim T = true -> forall ts, tagset_of T = Ok ts -> exists t0, ts = [t0].
Proof.
  induction T; intros H ts Hts; try discriminate H; cbn [tagset_of] in Hts; try (inversion Hts; eexists; reflexivity).
  cbn [cer_prim] in H. destruct (tagset_of T) as [ts0|e] eqn:E; cbn [bind] in Hts; [|discriminate Hts].
  destruct (IHT H ts0 eq_refl) as (t0 & ->). inversion Hts. eexists. reflexivity.
Qed.

Lemma cer_prim_content : forall T, cer_prim T = true -> forall c cd fl o v content cns,
  enc_content c T cd fl o v = Ok (content, cns) -> cns = false.
Proof.
  induction T; intros H c cd fl o v content cns E; try discriminate H; cbn [enc_content] in E.
  - destruct v; try discriminate E; destruct cd; try discriminate E; inversion E; reflexivity.
  - destruct v; try discriminate E; destruct cd; try discriminate E; inversion E; reflexivity.
  - destruct v; try discriminate E; destruct cd; try discriminate E; inversion E; reflexivity.
  - destruct v; try discriminate E; destruct cd; try discriminate E; inversion E; reflexivity.
  - destruct v; try discriminate E; destruct cd; try discriminate E;
      destruct (enc_oid arcs); cbn [bind] in E; try discriminate E; inversion E; reflexivity.
  - destruct v; try discriminate E; destruct cd; try discriminate E;
      destruct (enc_real r); cbn [bind] in E; try discriminate E; inversion E; reflexivity.
  - exact (IHT H c cd fl o v content cns E).
Qed.

Lemma cer_prim_tlv t : cer_prim t = true -> forall c o x p, o_ifne o = false -> encw c t o x = Ok p -> tlvb p = true.
Proof.
  intros H c o x p Hi He.
  destruct (encw_inv c _ o x p He) as (cd & fl & ts & content & cns & Hce & Hts & Hcont & Hfr).
  destruct (cer_prim_tagset t H ts Hts) as (t0 & ->). pose proof (cer_prim_content t H _ _ _ _ _ _ _ Hcont) as ->.
  cbn [frame andb] in Hfr. rewrite Bool.andb_false_r in Hfr.
  destruct (frame_one t0 false true (ef_indef fl) content) as [s0|e] eqn:E0; cbn [bind frame_outer] in Hfr; [|discriminate Hfr].
  inversion Hfr; subst p. exact (frame_one_tlv _ _ _ _ _ E0).
Qed.

Lemma cer_setof : forall t, cer_prim t = true -> forall cd fl, concrete_encoder CER (TSetOf t) = Ok (cd, fl) -> cd = EcSetOfCer.
Proof. intros t _ cd fl H. vm_compute in H. inversion H. reflexivity. Qed.

(* CER, any defMode / maxChunkSize.  [_partial]: SET OF of constructed (indefinite-length) or string members is not
   covered - such members would have to be shown prefix-free under zero padding, which fails e.g. for an ANY holding
   arbitrary octets anywhere inside a member (see [cer_setof_any_witness]) *)
Theorem cer_abs_function_partial : forall T v1 v2 b1 b2 d k,
  c04_ty cer_prim T = true -> c04_val T v1 = true -> c04_val T v2 = true ->
  aval_eqb (abs T v1) (abs T v2) = true ->
  encode CER d k T v1 = Ok b1 -> encode CER d k T v2 = Ok b2 -> b1 = b2.
Proof.
  intros T v1 v2 b1 b2 d k Hty H1 H2 Habs E1 E2.
  apply (encw_abs_function CER cer_prim (fun _ => True)
           (fun o _ => I) (fun o b _ => I) cer_setof
           (fun t Ht o x p _ Hi _ He => cer_prim_tlv t Ht CER o x p Hi He)
           T (mkOpts d k false) v1 v2 b1 b2); try assumption. exact I.
Qed.

(* BER, any defMode / maxChunkSize: the types without SET OF (BER does not sort) *)
Theorem ber_abs_function_partial : forall T v1 v2 b1 b2 d k,
  c04_ty no_ty T = true -> c04_val T v1 = true -> c04_val T v2 = true ->
  aval_eqb (abs T v1) (abs T v2) = true ->
  encode BER d k T v1 = Ok b1 -> encode BER d k T v2 = Ok b2 -> b1 = b2.
Proof.
  intros T v1 v2 b1 b2 d k Hty H1 H2 Habs E1 E2.
  apply (encw_abs_function BER no_ty (fun _ => True)
           (fun o _ => I) (fun o b _ => I)
           (fun t (Ht: no_ty t = true) => ltac:(discriminate Ht))
           (fun t (Ht: no_ty t = true) => ltac:(discriminate Ht))
           T (mkOpts d k false) v1 v2 b1 b2); try assumption. exact I.
Qed.

Print Assumptions der_abs_function.
Print Assumptions der_abs_function_def.
Print Assumptions cer_abs_function_partial.
Print Assumptions ber_abs_function_partial.

(* ---------- non-vacuity: the hypotheses hold of distinct representations, and the octets agree ---------- *)

Definition c04_case (T: ty) (v1 v2: val) (b: bytes) : Prop :=
  c04_ty all_ty T = true /\ c04_val T v1 = true /\ c04_val T v2 = true /\ v1 <> v2 /\
  aval_eqb (abs T v1) (abs T v2) = true /\ encode DER true 0 T v1 = Ok b /\ encode DER true 0 T v2 = Ok b.

Ltac c04_case_tac := unfold c04_case; repeat split; try (vm_compute; reflexivity); intros H; discriminate H.

(* SET OF INTEGER {3, 1, 2} and {1, 2, 3} *)
Example der_abs_function_setof :
  c04_case (TSetOf TInt) (VList [VInt 3; VInt 1; VInt 2]) (VList [VInt 1; VInt 2; VInt 3]) [49; 9; 2; 1; 1; 2; 1; 2; 2; 1; 3].
Proof. c04_case_tac. Qed.

Definition c04_ctx0 : tag := mkTag Ctx false 0.
Definition c04_seq : ty :=
  TSeq [(Req, TInt); (Def (VInt 5), TImp c04_ctx0 TInt); (Def (VChars [[104]; [105]]), TStr 12)].

(* DEFAULT components given explicitly with the default value (a string default given as octets where the
   schema has text), or left out (here: the slots are not even there) *)
Example der_abs_function_default :
  c04_case c04_seq (VRec [Some (VInt 1); Some (VInt 5); Some (VOcts [104; 105])]) (VRec [Some (VInt 1)]) [48; 3; 2; 1; 1].
Proof. c04_case_tac. Qed.

(* UTF8String given as text (two characters, one of two octets) or as octets *)
Example der_abs_function_text :
  c04_case (TStr 12) (VChars [[104]; [195; 169]]) (VOcts [104; 195; 169]) [12; 3; 104; 195; 169].
Proof. c04_case_tac. Qed.

(* REAL -12 = (-12, 2, 0) = (-3, 2, 2); zero in base 2 and in base 10 *)
Example der_abs_function_real :
  c04_case TReal (VReal (RBin (-12) 0)) (VReal (RBin (-3) 2)) [9; 3; 192; 2; 3] /\
  c04_case TReal (VReal (RBin 0 7)) (VReal (RDec 0 2)) [9; 0].
Proof. split; c04_case_tac. Qed.

(* everything at once: SET OF CHOICE { [0] EXPLICIT SEQUENCE {.. DEFAULT ..}, SET { CHOICE, [0] REAL OPTIONAL, ANY }, ANY },
   the members in another order and each in another representation *)
Definition c04_big : ty :=
  TSetOf (TChoice [TExp c04_ctx0 c04_seq;
                   TSet [(Req, TChoice [TInt; TBool]); (Opt, TImp c04_ctx0 TReal); (Req, TAny)];
                   TAny]).
Definition c04_big_v1 : val :=
  VList [VChoice 0 (VRec [Some (VInt 1); Some (VInt 5); Some (VOcts [104; 105])]);
         VChoice 1 (VRec [Some (VChoice 1 (VBool true)); Some (VReal (RBin 12 0)); Some (VAny [1])]);
         VChoice 2 (VAny [5; 0]);
         VChoice 0 (VRec [Some (VInt 1)])].
Definition c04_big_v2 : val :=
  VList [VChoice 2 (VOcts [5; 0]);
         VChoice 0 (VRec [Some (VInt 1); None; Some (VChars [[104]; [105]])]);
         VChoice 1 (VRec [Some (VChoice 1 (VBool true)); Some (VReal (RBin 3 2)); Some (VOcts [1]); None]);
         VChoice 0 (VRec [Some (VInt 1)])].
Example der_abs_function_nonvacuous :
  c04_case c04_big c04_big_v1 c04_big_v2
    [49; 27; 5; 0; 49; 9; 1; 1; 1; 255; 128; 3; 128; 2; 3; 160; 5; 48; 3; 2; 1; 1; 160; 5; 48; 3; 2; 1; 1].
Proof. c04_case_tac. Qed.

(* the CER and BER statements, on the SEQUENCE with DEFAULT components; CER on a SET OF [0] IMPLICIT INTEGER *)
Example cer_abs_function_nonvacuous :
  let v1 := VRec [Some (VInt 1); Some (VInt 5); Some (VOcts [104; 105])] in
  let v2 := VRec [Some (VInt 1)] in
  c04_ty cer_prim c04_seq = true /\ c04_ty no_ty c04_seq = true /\ c04_val c04_seq v1 = true /\ c04_val c04_seq v2 = true /\
  aval_eqb (abs c04_seq v1) (abs c04_seq v2) = true /\
  encode CER false 0 c04_seq v1 = Ok [48; 128; 2; 1; 1; 0; 0] /\ encode CER false 0 c04_seq v2 = Ok [48; 128; 2; 1; 1; 0; 0] /\
  encode BER true 0 c04_seq v1 = Ok [48; 3; 2; 1; 1] /\ encode BER true 0 c04_seq v2 = Ok [48; 3; 2; 1; 1].
Proof. vm_compute. repeat split; reflexivity. Qed.

Example cer_abs_function_setof_nonvacuous :
  let T := TSetOf (TImp c04_ctx0 TInt) in
  let v1 := VList [VInt 3; VInt 1; VInt 2] in
  let v2 := VList [VInt 1; VInt 2; VInt 3] in
  c04_ty cer_prim T = true /\ c04_val T v1 = true /\ c04_val T v2 = true /\ aval_eqb (abs T v1) (abs T v2) = true /\
  encode CER false 0 T v1 = Ok [49; 128; 128; 1; 1; 128; 1; 2; 128; 1; 3; 0; 0] /\
  encode CER false 0 T v2 = Ok [49; 128; 128; 1; 1; 128; 1; 2; 128; 1; 3; 0; 0].
Proof. vm_compute. repeat split; reflexivity. Qed.

(* ---------- why the domain is what it is: witnesses on the model ---------- *)

(* [abs] identifies the base-10 REALs (10, 10, 0) and (1, 10, 1); the encoder writes the mantissa and exponent
   it is given.  The former is not a state of univ.Real with an integer mantissa (the constructor normalises),
   hence [real_ok]. *)
Example real_dec_unnormalised_witness :
  aval_eqb (abs TReal (VReal (RDec 10 0))) (abs TReal (VReal (RDec 1 1))) = true /\
  encode DER true 0 TReal (VReal (RDec 10 0)) = Ok [9; 6; 3; 49; 48; 69; 43; 48] /\
  encode DER true 0 TReal (VReal (RDec 1 1)) = Ok [9; 4; 3; 49; 69; 49].
Proof. vm_compute. repeat split; reflexivity. Qed.

(* an untagged ANY member of a SET OF that is not a TLV: the zero-padded comparison cannot order [1] and [1; 0],
   the stable sort keeps the order the members came in, hence [any_tlv] *)
Example setof_any_witness :
  let T := TSetOf TAny in
  aval_eqb (abs T (VList [VAny [1]; VAny [1; 0]])) (abs T (VList [VAny [1; 0]; VAny [1]])) = true /\
  encode DER true 0 T (VList [VAny [1]; VAny [1; 0]]) = Ok [49; 3; 1; 1; 0] /\
  encode DER true 0 T (VList [VAny [1; 0]; VAny [1]]) = Ok [49; 3; 1; 0; 1].
Proof. vm_compute. repeat split; reflexivity. Qed.

(* CER, SET OF SEQUENCE { ANY }: arbitrary octets in an ANY deep inside a member defeat the padded comparison of
   the indefinite-length members (DER tells the same two members apart) *)
Example cer_setof_any_witness :
  let T := TSetOf (TSeq [(Req, TAny)]) in
  let v1 := VList [VRec [Some (VAny [])]; VRec [Some (VAny [0; 0])]] in
  let v2 := VList [VRec [Some (VAny [0; 0])]; VRec [Some (VAny [])]] in
  c04_val T v1 = true /\ c04_val T v2 = true /\ aval_eqb (abs T v1) (abs T v2) = true /\
  encode CER false 0 T v1 = Ok [49; 128; 48; 128; 0; 0; 48; 128; 0; 0; 0; 0; 0; 0] /\
  encode CER false 0 T v2 = Ok [49; 128; 48; 128; 0; 0; 0; 0; 48; 128; 0; 0; 0; 0] /\
  encode DER true 0 T v1 = Ok [49; 6; 48; 0; 48; 2; 0; 0] /\ encode DER true 0 T v2 = Ok [49; 6; 48; 0; 48; 2; 0; 0].
Proof. vm_compute. repeat split; reflexivity. Qed.

(* the converse direction fails (finding F24): a present but empty OPTIONAL constructed component is dropped,
   so two values with different abstract contents share their DER octets *)
Example f24_converse_witness :
  let T := TSeq [(Opt, TSeqOf TInt)] in
  aval_eqb (abs T (VRec [Some (VList [])])) (abs T (VRec [None])) = false /\
  encode DER true 0 T (VRec [Some (VList [])]) = Ok [48; 0] /\ encode DER true 0 T (VRec [None]) = Ok [48; 0].
Proof. vm_compute. repeat split; reflexivity. Qed.

(* SEQUENCE / SET with declared components refine the finite map name -> value. *)
From Coq Require Import Lia.
From PV Require Import Spec.ListSpec Proofs.ContainerBase Proofs.ContainerChoice Proofs.ContainerSeqOf.
Local Open Scope nat_scope.

(* ---------- the abstraction, pointwise ---------- *)

Lemma nth_enumerate_from {A} (l: list A) : forall i j d, j < length l ->
  nth j (enumerate_from i l) d = (i + j, nth j l (snd d)).
Proof.
  induction l as [|x l IH]; intros i j d H; cbn [length] in H; [lia|].
  destruct j as [|j]; cbn [enumerate_from nth].
  - rewrite Nat.add_0_r. reflexivity.
  - rewrite IH by lia. f_equal. lia.
Qed.

Lemma rabs_length cfg s : length (rabs cfg s) = length cfg.
Proof. unfold rabs, enumerate. rewrite map_length, enumerate_from_length. reflexivity. Qed.

Lemma nth_rabs cfg s k : k < length cfg ->
  nth k (rabs cfg s) None = slot_val (kind_of cfg k) (nth k (rslots s) None).
Proof.
  intros H. unfold rabs, enumerate.
  set (g := fun kf : nat * field => slot_val (fst (snd kf)) (nth (fst kf) (rslots s) None)).
  rewrite (nth_indep (map g (enumerate_from 0 cfg)) None (g (0, (FReq, tag_integer)))) by (rewrite map_length, enumerate_from_length; lia).
  rewrite map_nth. rewrite nth_enumerate_from by lia. unfold g. cbn [fst snd plus]. reflexivity.
Qed.

Lemma rabs_ext cfg s1 s2 :
  (forall j, j < length cfg -> nth j (rslots s1) None = nth j (rslots s2) None) ->
  rabs cfg s1 = rabs cfg s2.
Proof.
  intros H. apply (nth_ext _ _ None None).
  - rewrite !rabs_length. reflexivity.
  - intros j Hj. rewrite rabs_length in Hj. rewrite !nth_rabs by lia. rewrite H by lia. reflexivity.
Qed.

Lemma nth_r_init cfg : forall j, j < length cfg -> nth j (r_init cfg) None = default_of (kind_of cfg j).
Proof.
  unfold r_init, kind_of. induction cfg as [|f cfg IH]; intros [|j] H; cbn [length map nth] in *; try lia; auto.
  apply IH. lia.
Qed.

Lemma rabs_empty cfg s : rslots s = [] -> rabs cfg s = r_init cfg.
Proof.
  intros H. apply (nth_ext _ _ None None).
  - rewrite rabs_length. unfold r_init. rewrite map_length. reflexivity.
  - intros j Hj. rewrite rabs_length in Hj. rewrite nth_rabs by lia. rewrite H, nth_r_init by lia.
    destruct j; reflexivity.
Qed.

Lemma alloc_nth cfg s j : nth j (alloc cfg s) None = nth j (rslots s) None.
Proof.
  unfold alloc. destruct (rslots s); [|reflexivity].
  rewrite nth_repeat. destruct (Nat.ltb j (length cfg)), j; reflexivity.
Qed.

Lemma set_nth_same {A} (l: list A) k d : set_nth k (nth k l d) l = l.
Proof.
  revert k; induction l as [|x l IH]; intros [|k]; cbn [set_nth nth]; try reflexivity. f_equal. apply IH.
Qed.

Lemma nth_set_nth {A} (l: list A) k j x d :
  nth j (set_nth k x l) d = if Nat.eqb j k && Nat.ltb k (length l) then x else nth j l d.
Proof.
  destruct (Nat.eqb_spec j k) as [->|Hne]; cbn [andb].
  - destruct (Nat.ltb_spec k (length l)).
    + apply nth_set_nth_same; auto.
    + rewrite set_nth_out by lia. reflexivity.
  - apply nth_set_nth_other; auto.
Qed.

(* storing c at k changes the content at k only *)
Lemma rabs_store cfg s k c : shaped cfg s -> k < length cfg ->
  rabs cfg (Some (set_nth k (Some c) (alloc cfg s))) = set_nth k (slot_val (kind_of cfg k) (Some c)) (rabs cfg s).
Proof.
  intros Hs Hk. apply (nth_ext _ _ None None).
  - rewrite set_nth_length, !rabs_length. reflexivity.
  - intros j Hj. rewrite rabs_length in Hj. rewrite nth_rabs by lia. cbn [rslots].
    rewrite !nth_set_nth. rewrite (alloc_length cfg s Hs), rabs_length.
    destruct (Nat.eqb_spec j k) as [->|Hne]; cbn [andb].
    + destruct (Nat.ltb_spec k (length cfg)); [reflexivity|lia].
    + rewrite alloc_nth. rewrite nth_rabs by lia. reflexivity.
Qed.

Lemma rinv_shaped cfg s : rinv cfg s -> shaped cfg s.
Proof. intros [H _]. exact H. Qed.

Lemma rinv_store cfg s k c : rinv cfg s -> k < length cfg ->
  (forall d, kind_of cfg k = FDef d -> c <> CSchema) ->
  rinv cfg (Some (set_nth k (Some c) (alloc cfg s))).
Proof.
  intros [Hs Hd] Hk Hc. split.
  - right. cbn [rslots]. rewrite set_nth_length. apply alloc_length; auto.
  - intros j d Hj. cbn [rslots]. rewrite nth_set_nth. rewrite (alloc_length cfg s Hs).
    destruct (Nat.eqb_spec j k) as [->|Hne]; cbn [andb].
    + destruct (Nat.ltb_spec k (length cfg)); [|lia]. intros E. inversion E. exact (Hc d Hj H1).
    + rewrite alloc_nth. apply (Hd j d Hj).
Qed.

Lemma rslot_at_shaped cfg s i k : shaped cfg s -> pyidx i (length cfg) = Some k ->
  rslot_at s i = nth k (rslots s) None.
Proof.
  intros [H|H] Hi; unfold rslot_at; rewrite H.
  - cbn [length]. rewrite pyidx_nil. destruct k; reflexivity.
  - rewrite Hi. reflexivity.
Qed.

Lemma rslot_at_bad cfg s i : shaped cfg s -> pyidx i (length cfg) = None -> rslot_at s i = None.
Proof.
  intros [H|H] Hi; unfold rslot_at; rewrite H.
  - cbn [length]. rewrite pyidx_nil. reflexivity.
  - rewrite Hi. reflexivity.
Qed.

(* ---------- assignments ---------- *)

Definition resolved (fk: fkind) (v: option pyval) : option comp :=
  match v with
  | None => Some (match fk with FDef d => CVal d | _ => CSchema end)
  | Some pv => option_map CVal (pv_z pv)
  end.

Lemma rec_resolve_resolved fk v c : resolved fk v = Some c -> rec_resolve fk v = Ok c.
Proof.
  destruct v as [pv|]; cbn.
  - destruct pv; cbn; intros E; inversion E; reflexivity.
  - intros E; inversion E; reflexivity.
Qed.

Lemma resolved_val fk v c : resolved fk v = Some c ->
  slot_val fk (Some c) = match v with Some pv => pv_z pv | None => default_of fk end /\
  (forall d, fk = FDef d -> c <> CSchema).
Proof.
  destruct v as [pv|]; cbn.
  - destruct (pv_z pv) as [z|]; cbn; intros E; inversion E; subst. split; [reflexivity|]. intros; discriminate.
  - intros E; inversion E; subst. destruct fk; split; try reflexivity; intros; try discriminate.
Qed.

Lemma set_core_rec cfg s i k v c : rinv cfg s -> pyidx i (length cfg) = Some k ->
  resolved (kind_of cfg k) v = Some c ->
  exists s', rec_set cfg s i v = Ok s' /\ rinv cfg s' /\
             rabs cfg s' = set_nth k (match v with Some pv => pv_z pv | None => default_of (kind_of cfg k) end) (rabs cfg s) /\
             nth k (rslots s') None = Some c /\ length (rslots s') = length cfg.
Proof.
  intros Hinv Hi Hc. pose proof (pyidx_lt _ _ _ Hi) as Hk. pose proof (rinv_shaped _ _ Hinv) as Hs.
  unfold rec_set. rewrite (rec_store_ok cfg s i k _ c Hs Hi (rec_resolve_resolved _ _ _ Hc)).
  destruct (resolved_val _ _ _ Hc) as [Hv Hd].
  eexists. split; [reflexivity|]. split; [apply rinv_store; auto|]. split.
  - rewrite rabs_store by auto. rewrite Hv. reflexivity.
  - cbn [rslots]. rewrite set_nth_length, (alloc_length cfg s Hs). split; [|reflexivity].
    apply nth_set_nth_same. rewrite (alloc_length cfg s Hs). lia.
Qed.

(* ---------- reads ---------- *)

Lemma get_inst_core cfg s i k : rinv cfg s -> pyidx i (length cfg) = Some k ->
  exists s1 c0, rec_get cfg s i true = Ok (s1, Some c0) /\ rinv cfg s1 /\ rabs cfg s1 = rabs cfg s /\
                nth k (rabs cfg s) None = slot_val (kind_of cfg k) (Some c0) /\
                (forall d, kind_of cfg k = FDef d -> c0 <> CSchema) /\
                nth k (rslots s1) None = Some c0 /\ length (rslots s1) = length cfg /\
                (forall j, nth j (rslots s) None <> None -> nth j (rslots s1) None = nth j (rslots s) None).
Proof.
  intros Hinv Hi. pose proof (pyidx_lt _ _ _ Hi) as Hk. pose proof (rinv_shaped _ _ Hinv) as Hs.
  unfold rec_get, gen_get. rewrite (rslot_at_shaped cfg s i k Hs Hi).
  destruct (nth k (rslots s) None) as [c0|] eqn:Ec.
  - exists s, c0. split; [reflexivity|]. split; [exact Hinv|]. split; [reflexivity|].
    split; [rewrite nth_rabs by auto; rewrite Ec; reflexivity|].
    split; [intros d Hd E; subst c0; destruct Hinv as [_ Hdef]; exact (Hdef k d Hd Ec)|].
    split; [exact Ec|].
    split; [destruct Hs as [H|H]; [rewrite H in Ec; destruct k; discriminate|exact H]|].
    intros; reflexivity.
  - set (c := match kind_of cfg k with FDef d => CVal d | _ => CSchema end).
    destruct (set_core_rec cfg s i k None c Hinv Hi eq_refl) as (s' & Es & Hinv' & Ha & Hn & Hl).
    rewrite Es. exists s', c. rewrite (rslot_at_shaped cfg s' i k (rinv_shaped _ _ Hinv') Hi), Hn.
    split; [reflexivity|]. split; [exact Hinv'|]. split.
    { rewrite Ha. replace (default_of (kind_of cfg k)) with (nth k (rabs cfg s) None).
      - apply set_nth_same.
      - rewrite nth_rabs by auto. rewrite Ec. reflexivity. }
    split. { rewrite nth_rabs by auto. rewrite Ec. unfold c. destruct (kind_of cfg k); reflexivity. }
    split. { intros d Hd. unfold c. rewrite Hd. discriminate. }
    split; [reflexivity|]. split; [exact Hl|].
    intros j Hj. unfold rec_set in Es. rewrite (rec_store_ok cfg s i k _ c Hs Hi) in Es.
    + inversion Es; subst s'. cbn [rslots]. rewrite nth_set_nth.
      destruct (Nat.eqb_spec j k) as [->|Hne]; cbn [andb]; [congruence|]. apply alloc_nth.
    + unfold c. destruct (kind_of cfg k); reflexivity.
Qed.

Lemma slot_abs_val fk c0 : (forall d, fk = FDef d -> c0 <> CSchema) ->
  slot_abs (Some c0) = oslot (slot_val fk (Some c0)).
Proof.
  intros H. destruct c0 as [z|]; [reflexivity|]. destruct fk; try reflexivity.
  exfalso. exact (H d eq_refl eq_refl).
Qed.

Lemma get_noinst_core cfg s i k : rinv cfg s -> pyidx i (length cfg) = Some k ->
  (match kind_of cfg k, nth k (rabs cfg s) None with FDef d, Some z => Z.eqb z d | _, _ => false end) = false ->
  exists c, rec_get cfg s i false = Ok (s, c) /\ slot_abs c = oslot (nth k (rabs cfg s) None).
Proof.
  intros Hinv Hi Hx. pose proof (pyidx_lt _ _ _ Hi) as Hk. pose proof (rinv_shaped _ _ Hinv) as Hs.
  unfold rec_get, gen_get. rewrite (rslot_at_shaped cfg s i k Hs Hi).
  eexists. split; [reflexivity|]. rewrite nth_rabs in * by auto.
  destruct (nth k (rslots s) None) as [[z|]|] eqn:Ec; cbn [is_value slot_val slot_abs] in *.
  - reflexivity.
  - destruct Hinv as [_ Hdef]. destruct (kind_of cfg k) eqn:Ek; try reflexivity.
    exfalso. exact (Hdef k d Ek Ec).
  - destruct (kind_of cfg k); try reflexivity. cbn [default_of] in Hx. rewrite Z.eqb_refl in Hx. discriminate.
Qed.

Lemma get_bad_noinst_rec cfg s i : rinv cfg s -> pyidx i (length cfg) = None ->
  rec_get cfg s i false = Ok (s, None).
Proof.
  intros Hinv Hi. unfold rec_get, gen_get. rewrite (rslot_at_bad cfg s i (rinv_shaped _ _ Hinv) Hi). reflexivity.
Qed.

(* values(): every declared position is read with instantiation; the content is untouched and
   what comes back is the content up to placeholders *)
Definition sv (fc: field * slot) : option Z := slot_val (fst (fst fc)) (snd fc).
Definition elt_ok (fc: field * slot) : Prop :=
  exists c0, snd fc = Some c0 /\ forall d, fst (fst fc) = FDef d -> c0 <> CSchema.

Lemma skipn_cons_nth {A} (l: list A) k d : k < length l -> skipn k l = nth k l d :: skipn (S k) l.
Proof.
  revert k; induction l as [|x l IH]; intros [|k] H; cbn [length] in H; try lia; [reflexivity|].
  cbn [skipn nth]. apply IH. lia.
Qed.

Lemma kind_of_nth cfg k : kind_of cfg k = fst (nth k cfg (FReq, tag_integer)).
Proof. reflexivity. Qed.

Lemma gen_values_S {St} (get: St -> Z -> bool -> res (St * slot)) s from n acc :
  gen_values get s from (S n) acc =
  match get s (Z.of_nat from) true with
  | Ok (s', c) => gen_values get s' (S from) n (c :: acc)
  | Err e => (s, Err (to_index e))
  end.
Proof. reflexivity. Qed.

Lemma gen_values_core cfg : forall n from acc s, from + n = length cfg -> rinv cfg s ->
  exists s' l, gen_values (rec_get cfg) s from n acc = (s', Ok (rev acc ++ l)) /\
               rinv cfg s' /\ rabs cfg s' = rabs cfg s /\ length l = n /\
               Forall elt_ok (combine (skipn from cfg) l) /\
               map sv (combine (skipn from cfg) l) = skipn from (rabs cfg s).
Proof.
  induction n as [|n IH]; intros from acc s Hlen Hinv.
  - cbn [gen_values]. exists s, []. rewrite app_nil_r. rewrite !skipn_all2 by (rewrite ?rabs_length; lia).
    split; [reflexivity|]. split; [exact Hinv|]. split; [reflexivity|]. split; [reflexivity|].
    split; [constructor|reflexivity].
  - assert (Hk: from < length cfg) by lia.
    destruct (get_inst_core cfg s (Z.of_nat from) from Hinv) as (s1 & c0 & Eg & Hinv1 & Ha1 & Hv & Hd & _).
    { rewrite pyidx_nat. destruct (Nat.ltb_spec from (length cfg)); [reflexivity|lia]. }
    rewrite gen_values_S, Eg. cbv beta iota. destruct (IH (S from) (Some c0 :: acc) s1 ltac:(lia) Hinv1) as (s' & l & E & Hinv' & Ha' & Hl & Hok & Hsv).
    exists s', (Some c0 :: l).
    split; [etransitivity; [exact E|]; cbn [rev]; rewrite <- app_assoc; reflexivity|]. split; [exact Hinv'|]. split; [congruence|]. split; [cbn [length]; lia|].
    rewrite (skipn_cons_nth cfg from (FReq, tag_integer) Hk).
    rewrite (skipn_cons_nth (rabs cfg s) from None) by (rewrite rabs_length; lia).
    cbn [combine map]. split.
    + constructor; [|exact Hok]. exists c0. split; [reflexivity|]. cbn [fst snd]. rewrite <- kind_of_nth. exact Hd.
    + f_equal; [|rewrite Hsv, Ha1; reflexivity]. unfold sv. cbn [fst snd]. rewrite <- kind_of_nth. symmetry. exact Hv.
Qed.

Lemma map_slot_abs_ok (L: list (field * slot)) : Forall elt_ok L ->
  map slot_abs (map snd L) = map oslot (map sv L).
Proof.
  induction 1 as [|x L Hx _ IH]; [reflexivity|]. cbn [map]. f_equal; [|exact IH].
  destruct Hx as (c0 & E & Hd). unfold sv. rewrite E. apply slot_abs_val. exact Hd.
Qed.

Lemma combine_snd {A B} : forall (l: list A) (r: list B), length l = length r -> map snd (combine l r) = r.
Proof.
  induction l as [|x l IH]; intros [|y r] H; cbn [length] in H; try discriminate; [reflexivity|].
  cbn [combine map snd]. f_equal. apply IH. lia.
Qed.

Lemma values_abs cfg s : rinv cfg s ->
  exists s' l, gen_values (rec_get cfg) s 0 (length cfg) [] = (s', Ok l) /\
               rinv cfg s' /\ rabs cfg s' = rabs cfg s /\ length l = length cfg /\
               map slot_abs l = map oslot (rabs cfg s) /\
               Forall elt_ok (combine cfg l) /\ map sv (combine cfg l) = rabs cfg s.
Proof.
  intros Hinv. destruct (gen_values_core cfg (length cfg) 0 [] s eq_refl Hinv) as (s' & l & E & Hi & Ha & Hl & Hok & Hsv).
  cbn [skipn rev app] in *. exists s', l.
  split; [exact E|]. split; [exact Hi|]. split; [exact Ha|]. split; [exact Hl|].
  split; [|split; [exact Hok|exact Hsv]].
  rewrite <- Hsv. rewrite <- (map_slot_abs_ok _ Hok). rewrite combine_snd by lia. reflexivity.
Qed.

(* ---------- isValue ---------- *)

Definition req_ok (fv: field * option Z) : bool :=
  match fst (fst fv) with FReq => is_some (snd fv) | _ => true end.

Lemma r_isvalue_combine cfg a : length a = length cfg -> r_isvalue cfg a = forallb req_ok (combine cfg a).
Proof.
  unfold r_isvalue, enumerate. intros H.
  assert (G: forall (c: rcfg) i (b: rspec), length b = length c ->
             (forall j, j < length c -> nth (i + j) a None = nth j b None) ->
             forallb (fun kf : nat * field => match fst (snd kf) with FReq => is_some (nth (fst kf) a None) | _ => true end)
                     (enumerate_from i c) = forallb req_ok (combine c b)).
  { induction c as [|f c IH]; intros i b Hb Hn; [reflexivity|].
    destruct b as [|x b]; [discriminate|]. cbn [length] in Hb.
    cbn [enumerate_from forallb combine fst snd]. unfold req_ok at 1. cbn [fst snd].
    f_equal.
    - destruct (fst f); try reflexivity. specialize (Hn 0 ltac:(cbn; lia)). rewrite Nat.add_0_r in Hn.
      rewrite Hn. reflexivity.
    - apply IH; [lia|]. intros j Hj. specialize (Hn (S j) ltac:(cbn; lia)).
      replace (S i + j) with (i + S j) by lia. exact Hn. }
  apply G; auto.
Qed.

Lemma forallb_enum_ext {A} (P Q: nat -> A -> bool) (d: A) : forall (c: list A) i,
  (forall j, j < length c -> P (i + j) (nth j c d) = Q (i + j) (nth j c d)) ->
  forallb (fun kf => P (fst kf) (snd kf)) (enumerate_from i c) =
  forallb (fun kf => Q (fst kf) (snd kf)) (enumerate_from i c).
Proof.
  induction c as [|x c IH]; intros i H; [reflexivity|].
  cbn [enumerate_from forallb fst snd]. f_equal.
  - specialize (H 0 ltac:(cbn; lia)). rewrite Nat.add_0_r in H. exact H.
  - apply IH. intros j Hj. specialize (H (S j) ltac:(cbn; lia)). replace (S i + j) with (i + S j) by lia. exact H.
Qed.

Lemma isvalue_init cfg : has_req cfg = true -> r_isvalue cfg (r_init cfg) = false.
Proof.
  intros H. rewrite r_isvalue_combine by (unfold r_init; rewrite map_length; reflexivity).
  unfold r_init, has_req in *. induction cfg as [|f cfg IH]; [discriminate|].
  cbn [existsb map combine forallb] in *. unfold req_ok at 1. cbn [fst snd].
  destruct (fst f); cbn [default_of is_some andb orb] in *; auto.
Qed.

Lemma isvalue_abs cfg s : has_req cfg = true -> rinv cfg s -> rec_isvalue cfg s = r_isvalue cfg (rabs cfg s).
Proof.
  intros Hreq Hinv. destruct s as [l|].
  - unfold rec_isvalue, r_isvalue, enumerate.
    apply (forallb_enum_ext
             (fun k (f: field) => match fst f with FReq => negb (Nat.eqb (length l) 0) && is_value (nth k l None) | _ => true end)
             (fun k (f: field) => match fst f with FReq => is_some (nth k (rabs cfg (Some l)) None) | _ => true end)
             (FReq, tag_integer)).
    intros j Hj. cbn [plus]. destruct (fst (nth j cfg (FReq, tag_integer))) eqn:Ek; try reflexivity.
    rewrite nth_rabs by auto. unfold kind_of. rewrite Ek. cbn [rslots slot_val default_of].
    destruct l as [|x l]; [destruct j; reflexivity|]. cbn [length Nat.eqb negb andb].
    destruct (nth j (x :: l) None) as [[z|]|]; reflexivity.
  - rewrite rabs_empty by reflexivity. rewrite isvalue_init by auto. reflexivity.
Qed.

(* ---------- DER ---------- *)

Definition keepf (fv: field * option Z) : bool := r_keep (fst (fst fv)) (snd fv).
Definition tlvf (fv: field * option Z) : bytes :=
  int_tlv (snd (fst fv)) (match snd fv with Some z => z | None => 0%Z end).

Lemma r_chunks_seq cfg a : r_chunks cfg false a = map tlvf (filter keepf (combine cfg a)).
Proof. reflexivity. Qed.

(* what the encoder reads: a required component is instantiated (value or placeholder), an OPTIONAL or
   DEFAULT one comes back as a value or as nothing *)
Definition enc_ok (fc: field * slot) : Prop :=
  match snd fc with
  | Some CSchema => fst (fst fc) = FReq
  | None => fst (fst fc) <> FReq
  | Some (CVal _) => True
  end.

(* what the encoder does with one component it read agrees with the prototype's view of it *)
Lemma enc_elt fk t c v : v = slot_val fk c -> enc_ok ((fk, t), c) ->
  (fk = FReq -> is_some v = true) ->
  enc_keep fk c = r_keep fk v /\
  (r_keep fk v = true -> enc_slot t c = Ok (tlvf ((fk, t), v))).
Proof.
  intros -> Hok Hr. unfold enc_ok in Hok. cbn [fst snd] in Hok. destruct c as [[z|]|]; cbn [slot_val].
  - split; [destruct fk; reflexivity|]. intros _. reflexivity.
  - subst fk. specialize (Hr eq_refl). discriminate.
  - destruct fk; cbn [default_of enc_keep r_keep]; try congruence.
    + split; [reflexivity|discriminate].
    + rewrite Z.eqb_refl. split; [reflexivity|discriminate].
Qed.

Lemma isvalue_at cfg a k : length a = length cfg -> r_isvalue cfg a = true -> k < length cfg ->
  kind_of cfg k = FReq -> is_some (nth k a None) = true.
Proof.
  intros Hl Hv Hk Hreq. rewrite r_isvalue_combine in Hv by auto. rewrite forallb_forall in Hv.
  specialize (Hv (nth k cfg (FReq, tag_integer), nth k a None)).
  unfold req_ok in Hv. cbn [fst snd] in Hv. unfold kind_of in Hreq. rewrite Hreq in Hv. apply Hv.
  rewrite <- combine_nth by auto. apply nth_In. rewrite combine_length. lia.
Qed.

Lemma seq_chunks_S {St} (get: St -> Z -> bool -> res (St * slot)) s from fk t r acc :
  seq_chunks get s from ((fk, t) :: r) acc =
  match enc_read get s from fk with
  | Err e => (s, Err e)
  | Ok (s', c) =>
      if enc_keep fk c then
        match enc_slot t c with
        | Ok b => seq_chunks get s' (S from) r (b :: acc)
        | Err e => (s', Err e)
        end
      else seq_chunks get s' (S from) r acc
  end.
Proof. reflexivity. Qed.

Lemma enc_collect_S {St} (get: St -> Z -> bool -> res (St * slot)) s from fk t r acc :
  enc_collect get s from ((fk, t) :: r) acc =
  match enc_read get s from fk with
  | Err e => (s, Err e)
  | Ok (s', c) => enc_collect get s' (S from) r (c :: acc)
  end.
Proof. reflexivity. Qed.

(* one read of the encoder: the content is untouched and what comes back abstracts to the content *)
Lemma enc_read_core cfg s k t : rinv cfg s -> k < length cfg ->
  exists s1 c, enc_read (rec_get cfg) s k (kind_of cfg k) = Ok (s1, c) /\ rinv cfg s1 /\
               rabs cfg s1 = rabs cfg s /\ nth k (rabs cfg s) None = slot_val (kind_of cfg k) c /\
               enc_ok ((kind_of cfg k, t), c).
Proof.
  intros Hinv Hk.
  assert (Hi: pyidx (Z.of_nat k) (length cfg) = Some k)
    by (rewrite pyidx_nat; destruct (Nat.ltb_spec k (length cfg)); [reflexivity|lia]).
  assert (Hno: exists c, rec_get cfg s (Z.of_nat k) false = Ok (s, c) /\
                         nth k (rabs cfg s) None = slot_val (kind_of cfg k) c /\
                         (kind_of cfg k <> FReq -> enc_ok ((kind_of cfg k, t), c))).
  { unfold rec_get, gen_get. rewrite (rslot_at_shaped cfg s _ k (rinv_shaped _ _ Hinv) Hi).
    eexists. split; [reflexivity|]. rewrite nth_rabs by auto.
    destruct (nth k (rslots s) None) as [[z|]|]; cbn [is_value slot_val]; split; auto; intros H;
      unfold enc_ok; cbn [fst snd]; first [exact I|exact H]. }
  unfold enc_read. destruct (kind_of cfg k) eqn:Ek.
  - destruct (get_inst_core cfg s (Z.of_nat k) k Hinv Hi) as (s1 & c0 & Eg & Hinv1 & Ha1 & Hval & Hd & _).
    rewrite Eg. exists s1, (Some c0). rewrite Ek in Hval.
    split; [reflexivity|]. split; [exact Hinv1|]. split; [exact Ha1|]. split; [exact Hval|].
    unfold enc_ok. cbn [fst snd]. destruct c0; auto.
  - destruct Hno as (c & Eg & Hv & Hok). rewrite Eg. exists s, c.
    split; [reflexivity|]. split; [exact Hinv|]. split; [reflexivity|]. split; [exact Hv|]. apply Hok. discriminate.
  - destruct Hno as (c & Eg & Hv & Hok). rewrite Eg. exists s, c.
    split; [reflexivity|]. split; [exact Hinv|]. split; [reflexivity|]. split; [exact Hv|]. apply Hok. discriminate.
Qed.

Lemma seq_chunks_core cfg a : r_isvalue cfg a = true -> forall fs from acc s,
  fs = skipn from cfg -> rinv cfg s -> rabs cfg s = a ->
  exists s', seq_chunks (rec_get cfg) s from fs acc =
             (s', Ok (rev acc ++ map tlvf (filter keepf (combine fs (skipn from a))))) /\
             rinv cfg s' /\ rabs cfg s' = a.
Proof.
  intros Hv. induction fs as [|[fk t] r IH]; intros from acc s Hfs Hinv Ha.
  - exists s. cbn [seq_chunks combine filter map]. rewrite app_nil_r. auto.
  - assert (Hk: from < length cfg).
    { destruct (Nat.lt_ge_cases from (length cfg)); auto. rewrite skipn_all2 in Hfs by lia. discriminate. }
    rewrite (skipn_cons_nth cfg from (FReq, tag_integer) Hk) in Hfs. inversion Hfs as [[Hf Hr]].
    assert (Hfk: kind_of cfg from = fk) by (unfold kind_of; rewrite <- Hf; reflexivity).
    assert (Hla: length a = length cfg) by (rewrite <- Ha; apply rabs_length).
    destruct (enc_read_core cfg s from t Hinv Hk) as (s1 & c & Eg & Hinv1 & Ha1 & Hval & Hok).
    rewrite Hfk in Eg, Hval, Hok.
    rewrite seq_chunks_S, Eg. cbv beta iota.
    rewrite (skipn_cons_nth a from None) by lia. cbn [combine filter].
    rewrite Ha in Hval.
    destruct (enc_elt fk t c (nth from a None) Hval Hok) as [Hkeep Henc].
    { intros E. apply (isvalue_at cfg a from); auto. congruence. }
    unfold keepf at 1. cbn [fst snd]. rewrite Hkeep.
    destruct (IH (S from) (if r_keep fk (nth from a None) then tlvf (fk, t, nth from a None) :: acc else acc) s1 Hr Hinv1 ltac:(congruence))
      as (s' & E & Hinv' & Ha').
    destruct (r_keep fk (nth from a None)) eqn:Ek.
    + rewrite (Henc eq_refl). exists s'. rewrite <- Hr. rewrite E. cbn [rev map]. rewrite <- app_assoc. auto.
    + exists s'. rewrite <- Hr. rewrite E. auto.
Qed.

Lemma enc_collect_core cfg : forall fs from acc s, fs = skipn from cfg -> rinv cfg s ->
  exists s' l, enc_collect (rec_get cfg) s from fs acc = (s', Ok (rev acc ++ l)) /\
               rinv cfg s' /\ rabs cfg s' = rabs cfg s /\ length l = length fs /\
               Forall enc_ok (combine fs l) /\ map sv (combine fs l) = skipn from (rabs cfg s).
Proof.
  induction fs as [|[fk t] r IH]; intros from acc s Hfs Hinv.
  - exists s, []. cbn [enc_collect combine map length]. rewrite app_nil_r.
    assert (length cfg <= from).
    { pose proof (skipn_length from cfg) as E. rewrite <- Hfs in E. cbn [length] in E. lia. }
    rewrite skipn_all2 by (rewrite rabs_length; lia).
    split; [reflexivity|]. split; [exact Hinv|]. split; [reflexivity|]. split; [reflexivity|]. split; [constructor|reflexivity].
  - assert (Hk: from < length cfg).
    { destruct (Nat.lt_ge_cases from (length cfg)); auto. rewrite skipn_all2 in Hfs by lia. discriminate. }
    rewrite (skipn_cons_nth cfg from (FReq, tag_integer) Hk) in Hfs. injection Hfs as Hf Hr. assert (Hr': r = skipn (S from) cfg) by exact Hr.
    assert (Hfk: kind_of cfg from = fk) by (unfold kind_of; rewrite <- Hf; reflexivity).
    destruct (enc_read_core cfg s from t Hinv Hk) as (s1 & c & Eg & Hinv1 & Ha1 & Hval & Hok).
    rewrite Hfk in Eg, Hval, Hok.
    rewrite enc_collect_S, Eg. cbv beta iota.
    destruct (IH (S from) (c :: acc) s1 Hr' Hinv1) as (s' & l & E & Hinv' & Ha' & Hl & Hoks & Hsv).
    exists s', (c :: l).
    split; [etransitivity; [exact E|]; cbn [rev]; rewrite <- app_assoc; reflexivity|].
    split; [exact Hinv'|]. split; [congruence|]. split; [cbn [length]; rewrite Hl; reflexivity|].
    rewrite (skipn_cons_nth (rabs cfg s) from None) by (rewrite rabs_length; lia).
    cbn [combine map]. split.
    + constructor; [exact Hok|exact Hoks].
    + f_equal; [unfold sv; cbn [fst snd]; symmetry; exact Hval|]. rewrite Hsv, Ha1. reflexivity.
Qed.

(* SET: collect, sort by tag, encode *)
Definition hmap (fc: field * slot) : field * option Z := (fst fc, sv fc).
Definition keepE (fc: field * slot) : bool := enc_keep (fst (fst fc)) (snd fc).
Definition lebE (x y: field * slot) : bool := tag_leb (snd (fst x)) (snd (fst y)).
Definition lebS (x y: field * option Z) : bool := tag_leb (snd (fst x)) (snd (fst y)).

Lemma insert_by_map {A B} (h: A -> B) lebA lebB : (forall x y, lebB (h x) (h y) = lebA x y) ->
  forall x l, insert_by lebB (h x) (map h l) = map h (insert_by lebA x l).
Proof.
  intros H x l. induction l as [|y l IH]; [reflexivity|]. cbn [map insert_by]. rewrite H.
  destruct (lebA x y); [reflexivity|]. cbn [map]. f_equal. exact IH.
Qed.

Lemma sort_by_map {A B} (h: A -> B) lebA lebB : (forall x y, lebB (h x) (h y) = lebA x y) ->
  forall l, sort_by lebB (map h l) = map h (sort_by lebA l).
Proof.
  intros H l. induction l as [|x l IH]; [reflexivity|].
  change (sort_by lebB (map h (x :: l))) with (insert_by lebB (h x) (sort_by lebB (map h l))).
  change (sort_by lebA (x :: l)) with (insert_by lebA x (sort_by lebA l)).
  rewrite IH. apply insert_by_map. exact H.
Qed.

Lemma insert_by_in {A} leb (x y: A) l : In y (insert_by leb x l) -> y = x \/ In y l.
Proof.
  induction l as [|z l IH]; cbn [insert_by].
  - intros [H|[]]; auto.
  - destruct (leb x z).
    + intros [H|H]; auto.
    + intros [H|H]; [right; left; exact H|]. destruct (IH H); auto. right; right; auto.
Qed.

Lemma sort_by_in {A} leb (y: A) l : In y (sort_by leb l) -> In y l.
Proof.
  induction l as [|x l IH]; [auto|].
  change (sort_by leb (x :: l)) with (insert_by leb x (sort_by leb l)).
  intros H. destruct (insert_by_in _ _ _ _ H) as [->|H']; [left; reflexivity|right; auto].
Qed.

Lemma filter_map_comm {A B} (h: A -> B) (p: B -> bool) (q: A -> bool) l :
  (forall x, In x l -> p (h x) = q x) -> filter p (map h l) = map h (filter q l).
Proof.
  induction l as [|x l IH]; intros H; [reflexivity|]. cbn [map filter].
  rewrite (H x (or_introl eq_refl)). rewrite IH by (intros y Hy; apply H; right; exact Hy).
  destruct (q x); reflexivity.
Qed.

Lemma collect_errs_ok {A} (e: A -> res bytes) (g: A -> bytes) : forall l acc,
  (forall x, In x l -> e x = Ok (g x)) -> collect_errs (map e l) acc = Ok (rev acc ++ map g l).
Proof.
  induction l as [|x l IH]; intros acc H; cbn [map collect_errs].
  - rewrite app_nil_r. reflexivity.
  - rewrite (H x (or_introl eq_refl)). rewrite IH by (intros y Hy; apply H; right; exact Hy).
    cbn [rev]. rewrite <- app_assoc. reflexivity.
Qed.

Lemma hmap_combine : forall (cfg: rcfg) (vals: list slot), length vals = length cfg ->
  map hmap (combine cfg vals) = combine cfg (map sv (combine cfg vals)).
Proof.
  induction cfg as [|f cfg IH]; intros [|v vals] H; cbn [length] in H; try discriminate; [reflexivity|].
  cbn [combine map]. f_equal. apply IH. lia.
Qed.

Lemma set_chunks_abs cfg vals a : length vals = length cfg -> Forall enc_ok (combine cfg vals) ->
  map sv (combine cfg vals) = a -> r_isvalue cfg a = true ->
  set_chunks cfg vals = Ok (r_chunks cfg true a).
Proof.
  intros Hl Hok Hsv Hv.
  assert (Hla: length a = length cfg) by (rewrite <- Hsv, map_length, combine_length; lia).
  assert (Hcomb: combine cfg a = map hmap (combine cfg vals)) by (rewrite hmap_combine by auto; rewrite Hsv; reflexivity).
  (* every collected element is instantiated, and required ones hold a value *)
  assert (Helt: forall x, In x (combine cfg vals) ->
            keepf (hmap x) = keepE x /\ (keepE x = true -> enc_slot (snd (fst x)) (snd x) = Ok (tlvf (hmap x)))).
  { intros [[fk t] c] Hin. rewrite Forall_forall in Hok. pose proof (Hok _ Hin) as Hc.
    assert (Hreq: fk = FReq -> is_some (slot_val fk c) = true).
    { intros ->. rewrite r_isvalue_combine in Hv by auto. rewrite Hcomb in Hv. rewrite forallb_forall in Hv.
      specialize (Hv (hmap ((FReq, t), c)) (in_map hmap _ _ Hin)). exact Hv. }
    destruct (enc_elt fk t c _ eq_refl Hc Hreq) as [H1 H2].
    unfold keepf, keepE, hmap, sv. cbn [fst snd]. split; [symmetry; exact H1|].
    intros Hk. apply H2. rewrite <- H1. exact Hk. }
  unfold set_chunks, r_chunks. rewrite Hcomb.
  rewrite (filter_map_comm hmap (fun fv => r_keep (fst (fst fv)) (snd fv)) keepE) by (intros x Hx; apply (Helt x Hx)).
  rewrite (sort_by_map hmap lebE (fun x y => tag_leb (snd (fst x)) (snd (fst y)))) by reflexivity.
  rewrite map_map.
  change (filter (fun fc : fkind * tag * slot => enc_keep (fst (fst fc)) (snd fc)) (combine cfg vals)) with (filter keepE (combine cfg vals)).
  change (sort_by (fun x y : fkind * tag * slot => tag_leb (snd (fst x)) (snd (fst y)))) with (sort_by lebE).
  rewrite (collect_errs_ok (fun fc : field * slot => enc_slot (snd (fst fc)) (snd fc)) (fun x => tlvf (hmap x))).
  - reflexivity.
  - intros x Hx. apply sort_by_in in Hx. apply filter_In in Hx as [Hx Hk]. apply (Helt x Hx). exact Hk.
Qed.

(* ---------- clone ---------- *)

Definition clone_step (cfg: rcfg) (acc: rstate) (kc: nat * slot) : rstate :=
  match snd kc with
  | None => acc
  | Some c => match rec_store cfg acc (Z.of_nat (fst kc)) (fun _ => Ok c) with
              | Ok acc' => acc' | Err _ => acc end
  end.

Lemma clone_fold_rec cfg L : (L = [] \/ length L = length cfg) -> forall rest m acc,
  rest = skipn m L -> shaped cfg acc ->
  (forall j, nth j (rslots acc) None = if Nat.ltb j m then nth j L None else None) ->
  shaped cfg (fold_left (clone_step cfg) (enumerate_from m rest) acc) /\
  forall j, nth j (rslots (fold_left (clone_step cfg) (enumerate_from m rest) acc)) None = nth j L None.
Proof.
  intros HL. induction rest as [|x r IH]; intros m acc Hrest Hs Hn.
  - cbn [enumerate_from fold_left]. split; [exact Hs|]. intros j. rewrite Hn.
    destruct (Nat.ltb_spec j m); [reflexivity|].
    assert (length L <= m). { pose proof (skipn_length m L) as E. rewrite <- Hrest in E. cbn [length] in E. lia. }
    rewrite nth_overflow by lia. reflexivity.
  - assert (Hm: m < length L).
    { destruct (Nat.lt_ge_cases m (length L)); auto. rewrite skipn_all2 in Hrest by lia. discriminate. }
    rewrite (skipn_cons_nth L m None Hm) in Hrest. injection Hrest as Hx Hr.
    cbn [enumerate_from fold_left]. rewrite Hx.
    assert (Hlen: length L = length cfg) by (destruct HL as [->|H]; [cbn in Hm; lia|exact H]).
    destruct (nth m L None) as [c0|] eqn:Ec.
    + assert (Estep: clone_step cfg acc (m, Some c0) = Some (set_nth m (Some c0) (alloc cfg acc))).
      { unfold clone_step. cbn [fst snd]. rewrite (rec_store_ok cfg acc (Z.of_nat m) m _ c0 Hs); [reflexivity| |reflexivity].
        rewrite pyidx_nat. destruct (Nat.ltb_spec m (length cfg)); [reflexivity|lia]. }
      rewrite Estep. apply IH; [exact Hr| |].
      * right. cbn [rslots]. rewrite set_nth_length. apply alloc_length. exact Hs.
      * intros j. cbn [rslots]. rewrite nth_set_nth, (alloc_length cfg acc Hs), alloc_nth, Hn.
        destruct (Nat.eqb_spec j m) as [->|Hne]; cbn [andb].
        -- destruct (Nat.ltb_spec m (length cfg)); [|lia]. destruct (Nat.ltb_spec m (S m)); [|lia]. congruence.
        -- destruct (Nat.ltb_spec j m), (Nat.ltb_spec j (S m)); try lia; reflexivity.
    + change (clone_step cfg acc (m, None)) with acc.
      apply IH; [exact Hr|exact Hs|]. intros j. rewrite Hn.
      destruct (Nat.ltb_spec j m), (Nat.ltb_spec j (S m)); try lia; try reflexivity.
      assert (j = m) by lia. subst j. congruence.
Qed.

Lemma rec_clone_abs cfg s : rinv cfg s ->
  rinv cfg (rec_clone cfg s) /\ rabs cfg (rec_clone cfg s) = rabs cfg s.
Proof.
  intros [Hs Hd].
  destruct (clone_fold_rec cfg (rslots s) Hs (rslots s) 0 (Some []) eq_refl (or_introl eq_refl)) as [H1 H2].
  { intros j. cbn [rslots]. destruct j; reflexivity. }
  change (fold_left (clone_step cfg) (enumerate_from 0 (rslots s)) (Some [])) with (rec_clone cfg s) in *.
  split; [split|].
  - exact H1.
  - intros k d Hk. rewrite H2. apply (Hd k d Hk).
  - apply rabs_ext. intros j _. apply H2.
Qed.

(* ---------- == on a fully explicit record ---------- *)

Lemma nth_map_default {A B} (f: A -> B) l j d d' : j < length l -> nth j (map f l) d' = f (nth j l d).
Proof. intros H. rewrite (nth_indep _ d' (f d)) by (rewrite map_length; auto). apply map_nth. Qed.

Lemma all_explicit_slots cfg s : rinv cfg s -> all_explicit cfg (rabs cfg s) = true -> cfg <> [] ->
  exists sl, s = Some sl /\
             sl = map Some (map CVal (map (fun v : option Z => match v with Some z => z | None => 0%Z end) (rabs cfg s))).
Proof.
  intros Hinv Hall Hne. unfold all_explicit in Hall. rewrite forallb_forall in Hall.
  assert (Hpt: forall j, j < length cfg -> exists z, nth j (rslots s) None = Some (CVal z) /\ nth j (rabs cfg s) None = Some z).
  { intros j Hj.
    assert (Hin: In (nth j cfg (FReq, tag_integer), nth j (rabs cfg s) None) (combine cfg (rabs cfg s))).
    { rewrite <- combine_nth by (rewrite rabs_length; reflexivity). apply nth_In. rewrite combine_length, rabs_length. lia. }
    specialize (Hall _ Hin). cbn [fst snd] in Hall.
    rewrite nth_rabs in * by auto. unfold kind_of in *.
    destruct (nth j (rslots s) None) as [[z|]|]; cbn [slot_val] in *.
    - exists z. split; reflexivity.
    - destruct (fst (nth j cfg (FReq, tag_integer))); cbn [default_of r_keep] in Hall; try discriminate.
      rewrite Z.eqb_refl in Hall. discriminate.
    - destruct (fst (nth j cfg (FReq, tag_integer))); cbn [default_of r_keep] in Hall; try discriminate.
      rewrite Z.eqb_refl in Hall. discriminate. }
  assert (Hlen: length (rslots s) = length cfg).
  { destruct (rinv_shaped _ _ Hinv) as [H|H]; [|exact H]. destruct cfg as [|f cfg]; [congruence|].
    destruct (Hpt 0 ltac:(cbn; lia)) as (z & E & _). rewrite H in E. discriminate. }
  destruct s as [sl|]; [|destruct cfg; [congruence|discriminate]].
  exists sl. split; [reflexivity|]. cbn [rslots] in *.
  apply (nth_ext _ _ None None).
  - rewrite !map_length, rabs_length. exact Hlen.
  - intros j Hj. assert (Hj': j < length cfg) by (rewrite <- Hlen; exact Hj). destruct (Hpt j Hj') as (z & E1 & E2). etransitivity; [exact E1|]. symmetry.
    rewrite (nth_map_default Some _ j (CVal 0%Z)) by (rewrite !map_length, rabs_length; lia).
    rewrite (nth_map_default CVal _ j 0%Z) by (rewrite !map_length, rabs_length; lia).
    rewrite (nth_map_default _ _ j None) by (rewrite rabs_length; lia).
    rewrite E2. reflexivity.
Qed.

(* ---------- one step ---------- *)

Lemma combine_map_snd {A B C} (f: B -> C) : forall (l: list A) (r: list B),
  map (fun kc => (fst kc, f (snd kc))) (combine l r) = combine l (map f r).
Proof.
  induction l as [|x l IH]; intros [|y r]; cbn [combine map fst snd]; try reflexivity. f_equal. apply IH.
Qed.

Lemma has_req_nonempty cfg : has_req cfg = true -> cfg <> [].
Proof. destruct cfg; [discriminate|congruence]. Qed.

Theorem rec_sim_step cfg isset s o : has_req cfg = true -> rinv cfg s ->
  r_wf cfg isset (rabs cfg s) o = true ->
  rinv cfg (fst (rec_step cfg isset s o)) /\
  rabs cfg (fst (rec_step cfg isset s o)) = fst (r_step cfg isset (rabs cfg s) o) /\
  out_abs (snd (rec_step cfg isset s o)) = snd (r_step cfg isset (rabs cfg s) o).
Proof.
  intros Hreq Hinv Hwf.
  (* assignments at a resolved position *)
  assert (Hset: forall i k v conv, pyidx i (length cfg) = Some k ->
            match v with Some pv => is_some (pv_z pv) | None => true end = true ->
            let r := @lift_set rstate (rec_set cfg s i v) s conv in
            rinv cfg (fst r) /\
            rabs cfg (fst r) = match v with
                               | Some pv => match pv_z pv with Some z => set_nth k (Some z) (rabs cfg s) | None => rabs cfg s end
                               | None => set_nth k (default_of (kind_of cfg k)) (rabs cfg s) end /\
            out_abs (snd r) = ORet).
  { intros i k v conv Hi Hv.
    assert (exists c, resolved (kind_of cfg k) v = Some c) as [c Hc].
    { destruct v as [pv|]; cbn [resolved]; [|eauto]. destruct (pv_z pv); [cbn; eauto|discriminate]. }
    destruct (set_core_rec cfg s i k v c Hinv Hi Hc) as (s' & Es & Hinv' & Ha & _).
    cbn zeta. unfold lift_set. rewrite Es. cbn [fst snd]. split; [exact Hinv'|]. split; [|reflexivity].
    rewrite Ha. destruct v as [pv|]; [|reflexivity]. destruct (pv_z pv); [reflexivity|discriminate]. }
  assert (Hgeti: forall i k conv, pyidx i (length cfg) = Some k ->
            let r := @lift_get rstate (rec_get cfg s i true) s conv in
            rinv cfg (fst r) /\ rabs cfg (fst r) = rabs cfg s /\
            out_abs (snd r) = OSlot (oslot (nth k (rabs cfg s) None))).
  { intros i k conv Hi. destruct (get_inst_core cfg s i k Hinv Hi) as (s1 & c0 & Eg & Hinv1 & Ha1 & Hval & Hd & _).
    cbn zeta. unfold lift_get. rewrite Eg. cbn [fst snd out_abs]. split; [exact Hinv1|]. split; [exact Ha1|].
    rewrite Hval. rewrite (slot_abs_val _ _ Hd). reflexivity. }
  assert (Hgetn: forall i k conv, pyidx i (length cfg) = Some k ->
            (match kind_of cfg k, nth k (rabs cfg s) None with FDef d, Some z => Z.eqb z d | _, _ => false end) = false ->
            let r := @lift_get rstate (rec_get cfg s i false) s conv in
            rinv cfg (fst r) /\ rabs cfg (fst r) = rabs cfg s /\
            out_abs (snd r) = OSlot (oslot (nth k (rabs cfg s) None))).
  { intros i k conv Hi Hx. destruct (get_noinst_core cfg s i k Hinv Hi Hx) as (c & Eg & Hc).
    cbn zeta. unfold lift_get. rewrite Eg. cbn [fst snd out_abs]. rewrite Hc. auto. }
  assert (Hget: forall i k inst conv, pyidx i (length cfg) = Some k ->
            (inst || negb (match kind_of cfg k, nth k (rabs cfg s) None with FDef d, Some z => Z.eqb z d | _, _ => false end)) = true ->
            let r := @lift_get rstate (rec_get cfg s i inst) s conv in
            rinv cfg (fst r) /\ rabs cfg (fst r) = rabs cfg s /\
            out_abs (snd r) = OSlot (oslot (nth k (rabs cfg s) None))).
  { intros i k inst conv Hi Hx. destruct inst; [apply Hgeti; auto|].
    apply Hgetn; auto. cbn [orb] in Hx. apply negb_true_iff in Hx. exact Hx. }
  assert (Hname: forall n, n < length cfg -> pos_of_name cfg n = Ok (Z.of_nat n) /\ pyidx (Z.of_nat n) (length cfg) = Some n)
    by (intros; apply pos_of_name_ok; auto).
  destruct o; cbn [r_wf] in Hwf; cbn [rec_step r_step r_addr r_setval r_inst fst snd].
  - (* RSetItem *)
    apply andb_prop in Hwf as [Ha Hv]. cbn [r_addr] in Ha. destruct k as [i|n].
    + destruct (pyidx i (length cfg)) as [k|] eqn:Hi; [|discriminate].
      destruct (Hset i k (Some v) to_index Hi Hv) as (H1 & H2 & H3). cbn zeta in *.
      split; [exact H1|]. rewrite H2, H3. destruct (pv_z v); split; reflexivity.
    + destruct (Nat.ltb_spec n (length cfg)) as [Hn|Hn]; [|discriminate].
      destruct (Hname n Hn) as [Ep Hi]. rewrite Ep. cbn [with_pos].
      destruct (Hset (Z.of_nat n) n (Some v) to_key Hi Hv) as (H1 & H2 & H3). cbn zeta in *.
      split; [exact H1|]. rewrite H2, H3. destruct (pv_z v); split; reflexivity.
  - (* RSetPos *)
    apply andb_prop in Hwf as [Ha Hv]. cbn [r_addr r_setval] in *.
    destruct (pyidx i (length cfg)) as [k|] eqn:Hi; [|discriminate].
    destruct (Hset i k v noconv Hi ltac:(destruct v; exact Hv)) as (H1 & H2 & H3). cbn zeta in *.
    split; [exact H1|]. rewrite H2, H3. destruct v as [pv|]; [destruct (pv_z pv)|]; split; reflexivity.
  - (* RSetName *)
    apply andb_prop in Hwf as [Ha Hv]. cbn [r_addr r_setval] in *.
    destruct (Nat.ltb_spec n (length cfg)) as [Hn|Hn]; [|discriminate].
    destruct (Hname n Hn) as [Ep Hi]. rewrite Ep. cbn [with_pos].
    destruct (Hset (Z.of_nat n) n v noconv Hi ltac:(destruct v; exact Hv)) as (H1 & H2 & H3). cbn zeta in *.
    split; [exact H1|]. rewrite H2, H3. destruct v as [pv|]; [destruct (pv_z pv)|]; split; reflexivity.
  - (* RSetType *)
    apply andb_prop in Hwf as [Ha Hv]. apply andb_prop in Ha as [Hset' Ha]. subst isset. cbn [r_addr r_setval] in *.
    destruct (Nat.ltb_spec t (length cfg)) as [Hn|Hn]; [|discriminate].
    destruct (Hname t Hn) as [Ep Hi]. rewrite Ep. cbn [with_pos].
    destruct (Hset (Z.of_nat t) t v noconv Hi ltac:(destruct v; exact Hv)) as (H1 & H2 & H3). cbn zeta in *.
    split; [exact H1|]. rewrite H2, H3. destruct v as [pv|]; [destruct (pv_z pv)|]; split; reflexivity.
  - (* RClear *)
    split; [split; [left; reflexivity|intros k d _; destruct k; discriminate]|].
    split; [apply rabs_empty; reflexivity|reflexivity].
  - (* RReset *)
    split; [split; [left; reflexivity|intros k d _; destruct k; discriminate]|].
    split; [apply rabs_empty; reflexivity|reflexivity].
  - (* RClone *)
    destruct cloneValueFlag; cbn [fst snd].
    + destruct (rec_clone_abs cfg s Hinv) as [H1 H2]. auto.
    + split; [split; [left; reflexivity|intros k d _; destruct k; discriminate]|].
      split; [apply rabs_empty; reflexivity|reflexivity].
  - (* RLen *) discriminate.
  - (* RIter *) auto.
  - (* RKeys *) auto.
  - (* RIn *) auto.
  - (* RGetItem *)
    cbn [r_addr] in Hwf. destruct k as [i|n].
    + destruct (pyidx i (length cfg)) as [k|] eqn:Hi; [|discriminate]. apply (Hgeti i k to_index Hi).
    + destruct (Nat.ltb_spec n (length cfg)) as [Hn|Hn]; [|discriminate].
      destruct (Hname n Hn) as [Ep Hi]. rewrite Ep. cbn [with_pos]. apply (Hgeti (Z.of_nat n) n to_key Hi).
  - (* RGetPos *)
    cbn [r_addr] in Hwf. destruct (pyidx i (length cfg)) as [k|] eqn:Hi.
    + apply (Hget i k inst noconv Hi Hwf).
    + destruct inst; [discriminate|]. rewrite (get_bad_noinst_rec cfg s i Hinv Hi). cbn [lift_get fst snd out_abs slot_abs]. auto.
  - (* RGetName *)
    cbn [r_addr] in Hwf. destruct (Nat.ltb_spec n (length cfg)) as [Hn|Hn]; [|discriminate].
    destruct (Hname n Hn) as [Ep Hi]. rewrite Ep. cbn [with_pos]. apply (Hget (Z.of_nat n) n inst noconv Hi Hwf).
  - (* RGetType *)
    apply andb_prop in Hwf as [Hs' Hwf]. subst isset. cbn [r_addr] in Hwf.
    destruct (Nat.ltb_spec t (length cfg)) as [Hn|Hn]; [|discriminate].
    destruct (Hname t Hn) as [Ep Hi]. rewrite Ep. cbn [with_pos]. apply (Hget (Z.of_nat t) t inst noconv Hi Hwf).
  - (* RValues *)
    destruct (values_abs cfg s Hinv) as (s' & l & E & Hi & Ha & Hl & Hm & _). rewrite E. cbn [fst snd out_abs].
    rewrite Hm. auto.
  - (* RItems *)
    destruct (values_abs cfg s Hinv) as (s' & l & E & Hi & Ha & Hl & Hm & _). rewrite E. cbn [fst snd out_abs].
    rewrite (combine_map_snd slot_abs), Hm. auto.
  - (* RPretty *) discriminate.
  - (* REq *)
    destruct (all_explicit_slots cfg s Hinv Hwf (has_req_nonempty cfg Hreq)) as (sl & -> & Esl).
    cbn [fst snd]. split; [exact Hinv|]. split; [reflexivity|].
    set (zs := map (fun v : option Z => match v with Some z => z | None => 0%Z end) (rabs cfg (Some sl))) in *.
    clearbody zs. rewrite Esl.
    rewrite Proofs.ContainerSeqOf.eq_list_vals. reflexivity.
  - (* RIsValue *)
    cbn [out_abs]. rewrite (isvalue_abs cfg s Hreq Hinv). auto.
  - (* REncode *)
    destruct isset.
    + destruct (enc_collect_core cfg cfg 0 [] s eq_refl Hinv) as (s' & l & E & Hi & Ha & Hl & Hok & Hsv).
      cbn [rev app skipn] in *. rewrite E. cbn [fst snd].
      rewrite (set_chunks_abs cfg l (rabs cfg s) Hl Hok Hsv Hwf).
      split; [exact Hi|]. split; [exact Ha|]. unfold r_der. destruct (tlv tag_set true (concat (r_chunks cfg true (rabs cfg s)))); reflexivity.
    + destruct (seq_chunks_core cfg (rabs cfg s) Hwf cfg 0 [] s eq_refl Hinv eq_refl) as (s' & E & Hi & Ha).
      rewrite E. cbn [fst snd rev app skipn]. split; [exact Hi|]. split; [exact Ha|].
      unfold r_der. rewrite r_chunks_seq.
      destruct (tlv tag_sequence true (concat (map tlvf (filter keepf (combine cfg (rabs cfg s)))))); reflexivity.
  - discriminate.
  - discriminate.
Qed.

(* ---------- histories ---------- *)

Lemma rinv_init cfg : rinv cfg (Some []).
Proof. split; [left; reflexivity|intros k d _; destruct k; discriminate]. Qed.

Theorem rec_refines_from cfg isset : has_req cfg = true -> forall ops s,
  rinv cfg s -> r_wf_hist cfg isset (rabs cfg s) ops = true ->
  rinv cfg (fst (rec_run cfg isset s ops)) /\
  rabs cfg (fst (rec_run cfg isset s ops)) = fst (r_run cfg isset (rabs cfg s) ops) /\
  map out_abs (snd (rec_run cfg isset s ops)) = snd (r_run cfg isset (rabs cfg s) ops).
Proof.
  intros Hreq. induction ops as [|o r IH]; intros s Hinv H; [cbn [rec_run r_run fst snd map]; auto|].
  cbn [r_wf_hist] in H. apply andb_prop in H as [H1 H2].
  destruct (rec_sim_step cfg isset s o Hreq Hinv H1) as (Hi' & Ha & Ho).
  cbn [rec_run r_run]. destruct (rec_step cfg isset s o) as [s1 x]. destruct (r_step cfg isset (rabs cfg s) o) as [a1 y].
  cbn [fst snd] in *. subst a1 y. destruct (IH s1 Hi' H2) as (E0 & E1 & E2).
  destruct (rec_run cfg isset s1 r) as [s2 xs]. destruct (r_run cfg isset (rabs cfg s1) r) as [a2 ys].
  cbn [fst snd map] in *. split; [exact E0|]. split; [exact E1|]. rewrite E2. reflexivity.
Qed.

Theorem rec_refines cfg isset ops : has_req cfg = true -> r_wf_hist cfg isset (r_init cfg) ops = true ->
  let '(s, outs) := rec_run cfg isset (Some []) ops in
  let '(a, outs') := r_run cfg isset (r_init cfg) ops in
  rabs cfg s = a /\ map out_abs outs = outs' /\
  rec_isvalue cfg s = r_isvalue cfg a /\
  (r_isvalue cfg a = true -> snd (rec_step cfg isset s REncode) = out_of_bytes (r_der cfg isset a)).
Proof.
  intros Hreq H. pose proof (rec_refines_from cfg isset Hreq ops (Some []) (rinv_init cfg)) as E.
  rewrite (rabs_empty cfg (Some []) eq_refl) in E. destruct (E H) as (Hinv & E1 & E2).
  destruct (rec_run cfg isset (Some []) ops) as [s outs]. destruct (r_run cfg isset (r_init cfg) ops) as [a outs'].
  cbn [fst snd] in *. split; [exact E1|]. split; [exact E2|]. split.
  - rewrite (isvalue_abs cfg s Hreq Hinv). rewrite E1. reflexivity.
  - intros Hv. destruct (rec_sim_step cfg isset s REncode Hreq Hinv) as (_ & _ & Ho).
    + cbn [r_wf]. rewrite E1. exact Hv.
    + cbn [r_step snd] in Ho. rewrite E1 in Ho.
      destruct (r_der cfg isset a) as [b|e]; cbn [out_of_bytes] in *;
        destruct (snd (rec_step cfg isset s REncode)); cbn [out_abs] in Ho; try discriminate; exact Ho.
Qed.

(* ---------- reads never change the content (no exclusion for SEQUENCE / SET) ---------- *)

Lemma rec_get_any cfg s i inst : rinv cfg s ->
  match rec_get cfg s i inst with
  | Ok (s', _) => rinv cfg s' /\ rabs cfg s' = rabs cfg s
  | Err _ => True
  end.
Proof.
  intros Hinv. destruct inst.
  - destruct (pyidx i (length cfg)) as [k|] eqn:Hi.
    + destruct (get_inst_core cfg s i k Hinv Hi) as (s1 & c0 & Eg & Hinv1 & Ha1 & _). rewrite Eg. auto.
    + unfold rec_get, gen_get. rewrite (rslot_at_bad cfg s i (rinv_shaped _ _ Hinv) Hi).
      unfold rec_set. rewrite (rec_store_bad_addr cfg s i _ (rinv_shaped _ _ Hinv) Hi). exact I.
  - unfold rec_get, gen_get. auto.
Qed.

Lemma lift_get_any cfg s i inst conv : rinv cfg s ->
  rinv cfg (fst (@lift_get rstate (rec_get cfg s i inst) s conv)) /\
  rabs cfg (fst (@lift_get rstate (rec_get cfg s i inst) s conv)) = rabs cfg s.
Proof.
  intros Hinv. pose proof (rec_get_any cfg s i inst Hinv) as H. unfold lift_get.
  destruct (rec_get cfg s i inst) as [[s' c]|e]; cbn [fst]; auto.
Qed.

Lemma gen_values_any cfg : forall n from acc s, rinv cfg s ->
  rinv cfg (fst (gen_values (rec_get cfg) s from n acc)) /\
  rabs cfg (fst (gen_values (rec_get cfg) s from n acc)) = rabs cfg s.
Proof.
  induction n as [|n IH]; intros from acc s Hinv; [cbn [gen_values fst]; auto|].
  rewrite gen_values_S. pose proof (rec_get_any cfg s (Z.of_nat from) true Hinv) as H.
  destruct (rec_get cfg s (Z.of_nat from) true) as [[s' c]|e]; [|cbn [fst]; auto].
  destruct H as [H1 H2]. destruct (IH (S from) (c :: acc) s' H1) as [H3 H4]. split; [exact H3|congruence].
Qed.

Lemma enc_read_any cfg s k fk : rinv cfg s ->
  match enc_read (rec_get cfg) s k fk with
  | Ok (s', _) => rinv cfg s' /\ rabs cfg s' = rabs cfg s
  | Err _ => True
  end.
Proof.
  intros Hinv. unfold enc_read. destruct fk.
  - pose proof (rec_get_any cfg s (Z.of_nat k) true Hinv) as H.
    destruct (rec_get cfg s (Z.of_nat k) true) as [[s' c]|e]; auto.
  - apply rec_get_any; auto.
  - apply rec_get_any; auto.
Qed.

Lemma seq_chunks_any cfg : forall fs from acc s, rinv cfg s ->
  rinv cfg (fst (seq_chunks (rec_get cfg) s from fs acc)) /\
  rabs cfg (fst (seq_chunks (rec_get cfg) s from fs acc)) = rabs cfg s.
Proof.
  induction fs as [|[fk t] r IH]; intros from acc s Hinv; [cbn [seq_chunks fst]; auto|].
  rewrite seq_chunks_S. pose proof (enc_read_any cfg s from fk Hinv) as H.
  destruct (enc_read (rec_get cfg) s from fk) as [[s' c]|e]; [|cbn [fst]; auto].
  destruct H as [H1 H2].
  destruct (enc_keep fk c).
  - destruct (enc_slot t c) as [b|e].
    + destruct (IH (S from) (b :: acc) s' H1) as [H3 H4]. split; [exact H3|congruence].
    + cbn [fst]. auto.
  - destruct (IH (S from) acc s' H1) as [H3 H4]. split; [exact H3|congruence].
Qed.

Lemma enc_collect_any cfg : forall fs from acc s, rinv cfg s ->
  rinv cfg (fst (enc_collect (rec_get cfg) s from fs acc)) /\
  rabs cfg (fst (enc_collect (rec_get cfg) s from fs acc)) = rabs cfg s.
Proof.
  induction fs as [|[fk t] r IH]; intros from acc s Hinv; [cbn [enc_collect fst]; auto|].
  rewrite enc_collect_S. pose proof (enc_read_any cfg s from fk Hinv) as H.
  destruct (enc_read (rec_get cfg) s from fk) as [[s' c]|e]; [|cbn [fst]; auto].
  destruct H as [H1 H2]. destruct (IH (S from) (c :: acc) s' H1) as [H3 H4]. split; [exact H3|congruence].
Qed.

Theorem rec_reads_inert cfg isset s o : rinv cfg s -> rec_reader o = true ->
  rinv cfg (fst (rec_step cfg isset s o)) /\ rabs cfg (fst (rec_step cfg isset s o)) = rabs cfg s.
Proof.
  intros Hinv Hr. destruct o; cbn [rec_reader] in Hr; try discriminate; cbn [rec_step]; auto.
  - destruct s; auto.
  - destruct k as [i|n]; [apply lift_get_any; auto|].
    unfold with_pos. destruct (pos_of_name cfg n); [apply lift_get_any; auto|auto].
  - apply lift_get_any; auto.
  - unfold with_pos. destruct (pos_of_name cfg n); [apply lift_get_any; auto|auto].
  - destruct isset; [|auto]. unfold with_pos. destruct (pos_of_name cfg t); [apply lift_get_any; auto|auto].
  - pose proof (gen_values_any cfg (length cfg) 0 [] s Hinv) as H.
    destruct (gen_values (rec_get cfg) s 0 (length cfg) []) as [s' [l|e]]; exact H.
  - pose proof (gen_values_any cfg (length cfg) 0 [] s Hinv) as H.
    destruct (gen_values (rec_get cfg) s 0 (length cfg) []) as [s' [l|e]]; exact H.
  - destruct s; auto.
  - destruct s; auto.
  - destruct isset.
    + pose proof (enc_collect_any cfg cfg 0 [] s Hinv) as H.
      destruct (enc_collect (rec_get cfg) s 0 cfg []) as [s' [l|e]]; exact H.
    + pose proof (seq_chunks_any cfg cfg 0 [] s Hinv) as H.
      destruct (seq_chunks (rec_get cfg) s 0 cfg []) as [s' [l|e]]; exact H.
Qed.

(* the concrete state does change: a read leaves placeholders behind and allocates the slots *)
Theorem rec_reads_concrete_refuted :
  exists cfg s o, rec_reader o = true /\ rinv cfg s /\ fst (rec_step cfg false s o) <> s /\
                  snd (rec_step cfg false s RLen) <> snd (rec_step cfg false (fst (rec_step cfg false s o)) RLen).
Proof.
  exists [(FReq, tag_integer); (FOpt, mkTag Ctx false 0%N)], (Some []), (RGetItem (KName 1)).
  split; [reflexivity|]. split; [apply rinv_init|]. split; vm_compute; discriminate.
Qed.

(* ---------- ill-formed operations ---------- *)

Lemma rec_set_bad_val cfg s i k v : pyidx i (length cfg) = Some k -> is_some (pv_z v) = false ->
  rec_set cfg s i (Some v) = Err ELib.
Proof.
  intros Hi Hv. unfold rec_set, rec_store. rewrite (kind_at_some cfg i k Hi).
  assert (rec_resolve (kind_of cfg k) (Some v) = Err ELib) as -> by (destruct v; cbn in *; auto; discriminate).
  destruct (pyidx i (length (rslots s))); [reflexivity|].
  destruct (Z.ltb (Z.of_nat (length cfg)) i); reflexivity.
Qed.

Theorem rec_illformed_inert cfg isset s o : rinv cfg s -> r_ill cfg o = true -> r_in_api isset o = true ->
  fst (rec_step cfg isset s o) = s /\
  exists e, snd (rec_step cfg isset s o) = ORaise e /\ lookup_or_library e = true.
Proof.
  intros Hinv Hill Hapi. pose proof (rinv_shaped _ _ Hinv) as Hs.
  assert (Hset: forall i v, (pyidx i (length cfg) = None \/ exists pv, v = Some pv /\ is_some (pv_z pv) = false) ->
            rec_set cfg s i v = Err ELib).
  { intros i v [Hi|(pv & -> & Hv)].
    - unfold rec_set. apply rec_store_bad_addr; auto.
    - destruct (pyidx i (length cfg)) as [k|] eqn:Hi.
      + apply (rec_set_bad_val cfg s i k); auto.
      + unfold rec_set. apply rec_store_bad_addr; auto. }
  assert (Hget: forall i, pyidx i (length cfg) = None -> rec_get cfg s i true = Err ELib).
  { intros i Hi. unfold rec_get, gen_get. rewrite (rslot_at_bad cfg s i Hs Hi).
    rewrite (Hset i None (or_introl Hi)). reflexivity. }
  assert (Hname2: forall n, n < length cfg -> pos_of_name cfg n = Ok (Z.of_nat n)) by (intros n Hn; apply pos_of_name_ok; auto).
  destruct o; cbn [r_ill r_addr r_setval] in Hill; try discriminate; cbn [r_in_api] in Hapi; cbn [rec_step].
  - (* RSetItem *)
    destruct k as [i|n].
    + unfold lift_set. rewrite Hset; [split; [reflexivity|exists EIndex; split; reflexivity]|].
      apply orb_prop in Hill as [H|H].
      * left. destruct (pyidx i (length cfg)); [discriminate|reflexivity].
      * right. exists v. split; [reflexivity|]. apply negb_true_iff in H. exact H.
    + destruct (Nat.ltb_spec n (length cfg)) as [Hn|Hn].
      * rewrite (Hname2 n Hn). cbn [with_pos]. cbn [is_some negb orb] in Hill. apply negb_true_iff in Hill.
        unfold lift_set. rewrite Hset; [split; [reflexivity|exists EKey; split; reflexivity]|]. right. eauto.
      * unfold pos_of_name. destruct (Nat.ltb_spec n (length cfg)); [lia|]. cbn [with_pos].
        split; [reflexivity|exists EKey; split; reflexivity].
  - (* RSetPos *)
    unfold lift_set. rewrite Hset; [split; [reflexivity|exists ELib; split; reflexivity]|].
    apply orb_prop in Hill as [H|H].
    + left. destruct (pyidx i (length cfg)); [discriminate|reflexivity].
    + right. destruct v as [pv|]; [|discriminate]. exists pv. split; [reflexivity|]. apply negb_true_iff in H. exact H.
  - (* RSetName *)
    destruct (Nat.ltb_spec n (length cfg)) as [Hn|Hn].
    + rewrite (Hname2 n Hn). cbn [with_pos]. cbn [is_some negb orb] in Hill.
      destruct v as [pv|]; [|discriminate]. apply negb_true_iff in Hill.
      unfold lift_set. rewrite Hset; [split; [reflexivity|exists ELib; split; reflexivity]|]. right. eauto.
    + unfold pos_of_name. destruct (Nat.ltb_spec n (length cfg)); [lia|]. cbn [with_pos].
      split; [reflexivity|exists ELib; split; reflexivity].
  - (* RSetType *)
    subst isset. destruct (Nat.ltb_spec t (length cfg)) as [Hn|Hn].
    + rewrite (Hname2 t Hn). cbn [with_pos]. cbn [is_some negb orb] in Hill.
      destruct v as [pv|]; [|discriminate]. apply negb_true_iff in Hill.
      unfold lift_set. rewrite Hset; [split; [reflexivity|exists ELib; split; reflexivity]|]. right. eauto.
    + unfold pos_of_name. destruct (Nat.ltb_spec t (length cfg)); [lia|]. cbn [with_pos].
      split; [reflexivity|exists ELib; split; reflexivity].
  - (* RGetItem *)
    destruct k as [i|n].
    + unfold lift_get. rewrite Hget; [split; [reflexivity|exists EIndex; split; reflexivity]|].
      destruct (pyidx i (length cfg)); [discriminate|reflexivity].
    + unfold pos_of_name. destruct (Nat.ltb n (length cfg)); [discriminate|]. cbn [with_pos].
      split; [reflexivity|exists EKey; split; reflexivity].
  - (* RGetPos *)
    destruct inst; [|discriminate].
    unfold lift_get. rewrite Hget; [split; [reflexivity|exists ELib; split; reflexivity]|].
    destruct (pyidx i (length cfg)); [discriminate|reflexivity].
  - (* RGetName *)
    unfold pos_of_name. destruct (Nat.ltb n (length cfg)); [discriminate|]. cbn [with_pos].
    split; [reflexivity|exists ELib; split; reflexivity].
  - (* RGetType *)
    subst isset. unfold pos_of_name. destruct (Nat.ltb t (length cfg)); [discriminate|]. cbn [with_pos].
    split; [reflexivity|exists ELib; split; reflexivity].
Qed.

(* len() of a SEQUENCE/SET is not a function of the content: 0 while no slot is allocated, the declared
   count afterwards (F18h) *)
Theorem rec_len_not_abstract :
  exists cfg s s', rinv cfg s /\ s' = fst (rec_step cfg false s (RGetItem (KName 1))) /\
                   rabs cfg s = rabs cfg s' /\
                   snd (rec_step cfg false s RLen) = ONat 0 /\ snd (rec_step cfg false s' RLen) = ONat 2 /\
                   snd (r_step cfg false (rabs cfg s) RLen) = ONat 2.
Proof.
  exists [(FReq, tag_integer); (FOpt, mkTag Ctx false 0%N)], (Some []), (Some [None; Some CSchema]).
  split; [apply rinv_init|]. repeat split.
Qed.

(* Round trip under every encoder mode (C01/C02), part B: the decoder's component loops on what the
   encoder wrote - indefinite-length SEQUENCE OF / SET OF / SEQUENCE (closed by 00 00), and segmented
   OCTET STRING / character string / BIT STRING contents in definite and indefinite form. *)
From Coq Require Import Lia.
From PV Require Import Base.Bytes Model.Tag Model.TableTypes Model.Types Model.Proc Model.Enc Model.Dec Gen.Tables
     Proofs.ProcBind Proofs.RunLemmas Proofs.TagOctets Proofs.TagAlgebra Proofs.DecHeader Proofs.DecFrame Proofs.DecPrim
     Proofs.TagsetShape Proofs.Schemaless Proofs.RoundTrip1 Proofs.RoundTrip2 Proofs.RoundTripModesA.
Local Open Scope N_scope.

Section LoopsModes.
  Variable rec : spec -> tagset -> option (option N) -> bool -> bool -> proc dval.

  (* an element decodes wherever end-of-octets is or is not allowed *)
  Definition elem_ok_ae (t: ty) (p: bytes) (x': val) : Prop :=
    (forall ae, consumes (rec (STy t) [] None ae false) p (DV t x')) /\ (0 < length p)%nat.

  Lemma elem_ok_of_ae t p x' : elem_ok_ae t p x' -> elem_ok rec t p x'.
  Proof. intros [H Hl]. split; [exact (H false)|exact Hl]. Qed.

  Lemma Forall2_elem_ok_of_ae t parts xs' : Forall2 (elem_ok_ae t) parts xs' -> Forall2 (elem_ok rec t) parts xs'.
  Proof. induction 1; constructor; [apply elem_ok_of_ae; assumption|assumption]. Qed.

  (* 00 00 where end-of-octets is allowed *)
  Definition eoo_ok : Prop :=
    forall sp sfun s tl, avail s = [0; 0] ++ tl -> resume (rec sp [] None true sfun) s = inr (Ok DEoo, adv s 2).

  Hypothesis Heoo : eoo_ok.

  (* ----- SEQUENCE OF / SET OF, indefinite length ----- *)
  Lemma listof_indef_run T t : forall parts xs',
    Forall2 (elem_ok_ae t) parts xs' ->
    forall n acc start s tl,
      (length parts < n)%nat ->
      avail s = concat parts ++ [0; 0] ++ tl ->
      exists s', resume (listof_loop rec T t None start n acc) s = inr (Ok (DV T (VList (acc ++ xs'))), s')
        /\ pos s' = (pos s + length (concat parts) + 2)%nat /\ arrived s' = arrived s /\ closed s' = closed s.
  Proof.
    intros parts xs' HF. induction HF as [|p x' parts xs' [Hp Hpl] HF IH]; intros n acc start s tl Hn Hav.
    - destruct n as [|n']; [cbn [length] in Hn; lia|].
      cbn [listof_loop]. cbv zeta. rewrite resume_tell. cbn [negb].
      cbn [concat app] in Hav.
      rewrite (resume_pbind_done _ _ _ _ _ (Heoo (STy t) false s tl Hav)). cbn [resume].
      exists (adv s 2). rewrite app_nil_r. cbn [concat length]. rewrite pos_adv. repeat split. lia.
    - destruct n as [|n']; [cbn [length] in Hn; lia|].
      cbn [listof_loop]. cbv zeta. rewrite resume_tell. cbn [negb].
      cbn [concat] in Hav. rewrite <- app_assoc in Hav.
      destruct (Hp true s _ Hav) as (s1 & Hrun & Hpos & Harr & Hcl).
      rewrite (resume_pbind_done _ _ _ _ _ Hrun).
      pose proof (consumes_avail p s _ s1 Hav Hpos Harr) as Hav1.
      cbn [length] in Hn.
      destruct (IH n' (acc ++ [x']) start s1 tl ltac:(lia) Hav1) as (s2 & Hrun2 & Hpos2 & Harr2 & Hcl2).
      exists s2. rewrite Hrun2. rewrite <- app_assoc. cbn [app concat]. rewrite app_length.
      split; [reflexivity|]. split; [lia|]. split; congruence.
  Qed.

  Lemma dec_listof_indef_consumes lf T t parts xs' :
    Forall2 (elem_ok_ae t) parts xs' -> (length parts < lf)%nat ->
    consumes (dec_listof rec lf T t None) (concat parts ++ [0; 0]) (DV T (VList xs')).
  Proof.
    intros HF Hlf s tl Hav. unfold dec_listof. rewrite resume_tell. rewrite <- app_assoc in Hav.
    destruct (listof_indef_run T t parts xs' HF lf [] (pos s) s tl Hlf Hav) as (s' & Hrun & Hpos & Harr & Hcl).
    exists s'. rewrite Hrun. cbn [app]. rewrite app_length. cbn [length]. repeat split; try assumption. lia.
  Qed.

  (* ----- segmented OCTET STRING / character string ----- *)
  Definition frag_o (ae: bool) (piece p: bytes) : Prop :=
    consumes (rec (STy TOcts) [] None ae true) p (DV TOcts (VOcts piece)) /\ (0 < length p)%nat.

  Lemma octets_loop_run proto sp ts : forall pieces ps,
    Forall2 (frag_o false) pieces ps ->
    forall n acc start total s tl,
      (length pieces < n)%nat ->
      avail s = concat ps ++ tl ->
      (start <= pos s)%nat ->
      (pos s - start + length (concat ps) = total)%nat ->
      exists s', resume (octets_loop rec proto sp ts (N.of_nat total) start n acc) s
                 = resume (create sp proto ts (VOcts (acc ++ concat pieces))) s'
        /\ pos s' = (pos s + length (concat ps))%nat /\ arrived s' = arrived s /\ closed s' = closed s.
  Proof.
    intros pieces ps HF. induction HF as [|piece p pieces ps [Hp Hpl] HF IH]; intros n acc start total s tl Hn Hav Hst Htot.
    - destruct n as [|n']; [cbn [length] in Hn; lia|].
      cbn [octets_loop]. rewrite resume_tell.
      cbn [concat length] in Htot.
      destruct (N.ltb_spec (N.of_nat (pos s - start)) (N.of_nat total)) as [Hlt|_]; [lia|].
      exists s. cbn [concat length]. rewrite app_nil_r. repeat split. lia.
    - destruct n as [|n']; [cbn [length] in Hn; lia|].
      cbn [octets_loop]. rewrite resume_tell.
      cbn [concat] in Htot, Hav. rewrite app_length in Htot.
      destruct (N.ltb_spec (N.of_nat (pos s - start)) (N.of_nat total)) as [_|Hge]; [|lia].
      unfold fragment. rewrite <- app_assoc in Hav.
      destruct (Hp s _ Hav) as (s1 & Hrun & Hpos & Harr & Hcl).
      rewrite (resume_pbind_done _ _ _ _ _ Hrun).
      pose proof (consumes_avail p s _ s1 Hav Hpos Harr) as Hav1.
      cbn [length] in Hn.
      destruct (IH n' (acc ++ piece) start total s1 tl ltac:(lia) Hav1 ltac:(lia) ltac:(lia)) as (s2 & Hrun2 & Hpos2 & Harr2 & Hcl2).
      exists s2. rewrite Hrun2. rewrite <- app_assoc. cbn [concat]. rewrite app_length.
      split; [reflexivity|]. split; [lia|]. split; congruence.
  Qed.

  Lemma octets_indef_run proto sp ts : forall pieces ps,
    Forall2 (frag_o true) pieces ps ->
    forall n acc s tl,
      (length pieces < n)%nat ->
      avail s = concat ps ++ [0; 0] ++ tl ->
      exists s', resume (octets_indef_loop rec proto sp ts n acc) s
                 = resume (create sp proto ts (VOcts (acc ++ concat pieces))) s'
        /\ pos s' = (pos s + length (concat ps) + 2)%nat /\ arrived s' = arrived s /\ closed s' = closed s.
  Proof.
    intros pieces ps HF. induction HF as [|piece p pieces ps [Hp Hpl] HF IH]; intros n acc s tl Hn Hav.
    - destruct n as [|n']; [cbn [length] in Hn; lia|].
      cbn [octets_indef_loop]. unfold fragment. cbn [concat app] in Hav.
      rewrite (resume_pbind_done _ _ _ _ _ (Heoo (STy TOcts) true s tl Hav)).
      exists (adv s 2). cbn [concat length]. rewrite app_nil_r, pos_adv. repeat split. lia.
    - destruct n as [|n']; [cbn [length] in Hn; lia|].
      cbn [octets_indef_loop]. unfold fragment.
      cbn [concat] in Hav. rewrite <- app_assoc in Hav.
      destruct (Hp s _ Hav) as (s1 & Hrun & Hpos & Harr & Hcl).
      rewrite (resume_pbind_done _ _ _ _ _ Hrun).
      pose proof (consumes_avail p s _ s1 Hav Hpos Harr) as Hav1.
      cbn [length] in Hn.
      destruct (IH n' (acc ++ piece) s1 tl ltac:(lia) Hav1) as (s2 & Hrun2 & Hpos2 & Harr2 & Hcl2).
      exists s2. rewrite Hrun2. rewrite <- app_assoc. cbn [concat]. rewrite app_length.
      split; [reflexivity|]. split; [lia|]. split; congruence.
  Qed.

  (* ----- segmented BIT STRING: the fragments are BIT STRING values ----- *)
  Definition frag_b (ae: bool) (piece: list bool) (p: bytes) : Prop :=
    consumes (rec (STy TBits) [] None ae false) p (DV TBits (VBits piece)) /\ (0 < length p)%nat.

  Lemma bits_loop_run sp ts : forall pieces ps,
    Forall2 (frag_b false) pieces ps ->
    forall n acc start total s tl,
      (length pieces < n)%nat ->
      avail s = concat ps ++ tl ->
      (start <= pos s)%nat ->
      (pos s - start + length (concat ps) = total)%nat ->
      exists s', resume (bits_loop rec sp ts (N.of_nat total) start n acc) s
                 = resume (create sp TBits ts (VBits (acc ++ concat pieces))) s'
        /\ pos s' = (pos s + length (concat ps))%nat /\ arrived s' = arrived s /\ closed s' = closed s.
  Proof.
    intros pieces ps HF. induction HF as [|piece p pieces ps [Hp Hpl] HF IH]; intros n acc start total s tl Hn Hav Hst Htot.
    - destruct n as [|n']; [cbn [length] in Hn; lia|].
      cbn [bits_loop]. rewrite resume_tell.
      cbn [concat length] in Htot.
      destruct (N.ltb_spec (N.of_nat (pos s - start)) (N.of_nat total)) as [Hlt|_]; [lia|].
      exists s. cbn [concat length]. rewrite app_nil_r. repeat split. lia.
    - destruct n as [|n']; [cbn [length] in Hn; lia|].
      cbn [bits_loop]. rewrite resume_tell.
      cbn [concat] in Htot, Hav. rewrite app_length in Htot.
      destruct (N.ltb_spec (N.of_nat (pos s - start)) (N.of_nat total)) as [_|Hge]; [|lia].
      unfold bits_fragment. rewrite <- app_assoc in Hav.
      destruct (Hp s _ Hav) as (s1 & Hrun & Hpos & Harr & Hcl).
      rewrite (resume_pbind_done _ _ _ _ _ Hrun). cbn [add_bits_fragment pbind].
      pose proof (consumes_avail p s _ s1 Hav Hpos Harr) as Hav1.
      cbn [length] in Hn.
      destruct (IH n' (acc ++ piece) start total s1 tl ltac:(lia) Hav1 ltac:(lia) ltac:(lia)) as (s2 & Hrun2 & Hpos2 & Harr2 & Hcl2).
      exists s2. rewrite Hrun2. rewrite <- app_assoc. cbn [concat]. rewrite app_length.
      split; [reflexivity|]. split; [lia|]. split; congruence.
  Qed.

  Lemma bits_indef_run sp ts : forall pieces ps,
    Forall2 (frag_b true) pieces ps ->
    forall n acc s tl,
      (length pieces < n)%nat ->
      avail s = concat ps ++ [0; 0] ++ tl ->
      exists s', resume (bits_indef_loop rec sp ts n acc) s
                 = resume (create sp TBits ts (VBits (acc ++ concat pieces))) s'
        /\ pos s' = (pos s + length (concat ps) + 2)%nat /\ arrived s' = arrived s /\ closed s' = closed s.
  Proof.
    intros pieces ps HF. induction HF as [|piece p pieces ps [Hp Hpl] HF IH]; intros n acc s tl Hn Hav.
    - destruct n as [|n']; [cbn [length] in Hn; lia|].
      cbn [bits_indef_loop]. unfold bits_fragment. cbn [concat app] in Hav.
      rewrite (resume_pbind_done _ _ _ _ _ (Heoo (STy TBits) false s tl Hav)).
      exists (adv s 2). cbn [concat length]. rewrite app_nil_r, pos_adv. repeat split. lia.
    - destruct n as [|n']; [cbn [length] in Hn; lia|].
      cbn [bits_indef_loop]. unfold bits_fragment.
      cbn [concat] in Hav. rewrite <- app_assoc in Hav.
      destruct (Hp s _ Hav) as (s1 & Hrun & Hpos & Harr & Hcl).
      rewrite (resume_pbind_done _ _ _ _ _ Hrun). cbn [add_bits_fragment pbind].
      pose proof (consumes_avail p s _ s1 Hav Hpos Harr) as Hav1.
      cbn [length] in Hn.
      destruct (IH n' (acc ++ piece) s1 tl ltac:(lia) Hav1) as (s2 & Hrun2 & Hpos2 & Harr2 & Hcl2).
      exists s2. rewrite Hrun2. rewrite <- app_assoc. cbn [concat]. rewrite app_length.
      split; [reflexivity|]. split; [lia|]. split; congruence.
  Qed.

  (* ----- SEQUENCE with mandatory components, indefinite length ----- *)
  Variable lf : nat.

  Inductive fields_ok_ae : list (presence * ty) -> list bytes -> list val -> Prop :=
  | fields_ae_nil : fields_ok_ae [] [] []
  | fields_ae_cons f p x' fs ps xs : elem_ok_ae (snd f) p x' -> fields_ok_ae fs ps xs -> fields_ok_ae (f :: fs) (p :: ps) (x' :: xs).

  Lemma fields_ok_of_ae fs ps xs : fields_ok_ae fs ps xs -> fields_ok rec fs ps xs.
  Proof. induction 1; constructor; [apply elem_ok_of_ae; assumption|assumption]. Qed.

  Lemma record_indef_run T fs :
    forallb (fun f => is_req (fst f)) fs = true ->
    (match fs with [] => true | _ => false end) = false ->
    forall todo parts xs', fields_ok_ae todo parts xs' ->
    forall done vdone n start s tl,
      fs = done ++ todo -> length vdone = length done ->
      (length todo < n)%nat ->
      avail s = concat parts ++ [0; 0] ++ tl ->
      exists s', resume (record_loop rec lf T fs false None start n (length done)
                                     (map Some vdone ++ map (fun _ => None) todo) 0%nat) s
                 = inr (Ok (DV T (VRec (map Some (vdone ++ xs')))), s')
        /\ pos s' = (pos s + length (concat parts) + 2)%nat /\ arrived s' = arrived s /\ closed s' = closed s.
  Proof.
    intros Hreq Hne todo parts xs' HF.
    induction HF as [|f p x' todo parts xs' [Hp Hpl] HF IH]; intros done vdone n start s tl Hfs Hvd Hn Hav.
    - destruct n as [|n']; [cbn [length] in Hn; lia|].
      cbn [record_loop]. cbv zeta. rewrite resume_tell. cbn [negb]. rewrite Hne.
      rewrite app_nil_r in Hfs. subst done.
      rewrite Nat.leb_refl. cbn [andb].
      cbn [concat app] in Hav.
      rewrite (resume_pbind_done _ _ _ _ _ (Heoo SNone false s tl Hav)).
      cbn [map]. rewrite !app_nil_r. rewrite required_seen_all_some. cbn [resume].
      exists (adv s 2). cbn [concat length]. rewrite pos_adv. repeat split. lia.
    - destruct n as [|n']; [cbn [length] in Hn; lia|].
      cbn [record_loop]. cbv zeta. rewrite resume_tell. cbn [negb andb]. rewrite Hne, Hreq.
      assert (Hidx: Nat.leb (length fs) (length done) = false).
      { apply Nat.leb_gt. rewrite Hfs, app_length. cbn [length]. lia. }
      rewrite Hidx.
      unfold seq_component_spec.
      assert (Hnth: nth_error fs (length done) = Some f) by (rewrite Hfs; apply nth_error_app_exact). rewrite Hnth.
      destruct f as [pr ft]. cbn [orb snd] in *.
      cbn [concat] in Hav. rewrite <- app_assoc in Hav.
      destruct (Hp true s _ Hav) as (s1 & Hrun & Hpos & Harr & Hcl).
      rewrite (resume_pbind_done _ _ _ _ _ Hrun).
      pose proof (consumes_avail p s _ s1 Hav Hpos Harr) as Hav1.
      unfold seq_position. cbn [lift pbind]. rewrite Hidx.
      cbn [map].
      match goal with |- context [set_nth ?i ?x (?a ++ ?y :: ?b)] =>
        replace (set_nth i x (a ++ y :: b)) with (a ++ x :: b)
          by (symmetry; rewrite <- Hvd, <- (map_length Some vdone); apply set_nth_app) end.
      cbn [length] in Hn.
      assert (Hfs': fs = (done ++ [(pr, ft)]) ++ todo) by (rewrite <- app_assoc; exact Hfs).
      assert (Hvd': length (vdone ++ [x']) = length (done ++ [(pr, ft)])) by (rewrite !app_length; cbn [length]; lia).
      destruct (IH (done ++ [(pr, ft)]) (vdone ++ [x']) n' start s1 tl Hfs' Hvd' ltac:(lia) Hav1)
        as (s2 & Hrun2 & Hpos2 & Harr2 & Hcl2).
      rewrite app_length in Hrun2. cbn [length] in Hrun2. rewrite Nat.add_1_r in Hrun2.
      rewrite map_app in Hrun2. cbn [map] in Hrun2. rewrite <- app_assoc in Hrun2. cbn [app] in Hrun2.
      exists s2. rewrite Hrun2. rewrite <- app_assoc. cbn [app concat]. rewrite app_length.
      split; [reflexivity|]. split; [lia|]. split; congruence.
  Qed.

  Lemma dec_record_indef_consumes T fs parts xs' :
    forallb (fun f => is_req (fst f)) fs = true -> fields_ok_ae fs parts xs' -> (length fs < lf)%nat ->
    consumes (dec_record rec lf T fs false None) (concat parts ++ [0; 0]) (DV T (VRec (map Some xs'))).
  Proof.
    intros Hreq HF Hlf s tl Hav. unfold dec_record. rewrite resume_tell. rewrite <- app_assoc in Hav.
    destruct fs as [|f0 fs0].
    - inversion HF; subst. destruct lf as [|n]; [cbn [length] in Hlf; lia|].
      cbn [record_loop]. cbv zeta. rewrite resume_tell. cbn [negb].
      cbn [concat app] in Hav.
      rewrite (resume_pbind_done _ _ _ _ _ (Heoo SNone false s tl Hav)). cbn [resume map].
      exists (adv s 2). cbn [concat app length]. rewrite pos_adv. repeat split.
    - destruct (record_indef_run T (f0 :: fs0) Hreq eq_refl (f0 :: fs0) parts xs' HF [] [] lf (pos s)
                  s tl eq_refl eq_refl Hlf Hav)
        as (s' & Hrun & Hpos & Harr & Hcl).
      exists s'. split; [exact Hrun|]. rewrite app_length. cbn [length]. repeat split; try assumption. lia.
  Qed.

End LoopsModes.

(* The independent reference's identifier and length octets (positional digits, Spec/X690.v)
   coincide with what the model of pyasn1's encoder writes (shifts and masks, Model/Tag.v). *)
From Coq Require Import Lia.
From PV Require Import Base.Bytes Model.Tag Spec.X690 Proofs.Bits.
Local Open Scope N_scope.

Lemma size_nat_0 n : N.size_nat n = O -> n = 0.
Proof. destruct n as [|p]; [reflexivity|]. destruct p; simpl; lia. Qed.

(* with enough fuel the digits do not depend on it *)
Lemma digits_fuel (k: N) (Hk: 0 < k) : forall f1 f2 n,
  (N.size_nat n <= f1)%nat -> (N.size_nat n <= f2)%nat ->
  digits f1 (2 ^ k) n = digits f2 (2 ^ k) n.
Proof.
  induction f1 as [|f1 IH]; intros f2 n H1 H2.
  - assert (n = 0) as -> by (apply size_nat_0; lia).
    destruct f2; cbn [digits]; [reflexivity|].
    destruct (N.ltb_spec 0 (2 ^ k)) as [_|Hc]; [reflexivity|].
    assert (0 < 2 ^ k) by (apply N.neq_0_lt_0, N.pow_nonzero; lia). lia.
  - destruct f2 as [|f2].
    + assert (n = 0) as -> by (apply size_nat_0; lia). cbn [digits].
      destruct (N.ltb_spec 0 (2 ^ k)) as [_|Hc]; [reflexivity|].
      assert (0 < 2 ^ k) by (apply N.neq_0_lt_0, N.pow_nonzero; lia). lia.
    + cbn [digits]. destruct (N.ltb_spec n (2 ^ k)) as [Hs|Hl]; [reflexivity|].
      assert (Hn: n <> 0).
      { assert (0 < 2 ^ k) by (apply N.neq_0_lt_0, N.pow_nonzero; lia). lia. }
      pose proof (size_nat_div n k Hn Hk) as Hd.
      rewrite (IH f2 (n / 2 ^ k)) by lia. reflexivity.
Qed.

Lemma digits_nonempty f b n : digits f b n <> [].
Proof.
  destruct f; cbn [digits]; [discriminate|].
  destruct (N.ltb n b); [discriminate|].
  intros H. apply app_eq_nil in H. destruct H as [_ H]. discriminate.
Qed.

Lemma mark_continuation_snoc l d : l <> [] ->
  mark_continuation (l ++ [d]) = map (N.add 128) l ++ [d].
Proof.
  induction l as [|x l IH]; intros Hne; [congruence|].
  destruct l as [|y l'].
  - reflexivity.
  - change (mark_continuation ((x :: y :: l') ++ [d])) with ((128 + x) :: mark_continuation ((y :: l') ++ [d])).
    rewrite IH by discriminate. reflexivity.
Qed.

(* ---- base 128 ---- *)

Lemma b128_hi_digits : forall fuel n acc, (N.size_nat n <= fuel)%nat ->
  b128_hi fuel n acc = (if N.eqb n 0 then [] else map (N.add 128) (digits fuel 128 n)) ++ acc.
Proof.
  induction fuel as [|f IH]; intros n acc Hf.
  - assert (n = 0) as -> by (apply size_nat_0; lia). reflexivity.
  - cbn [b128_hi]. destruct (N.eqb_spec n 0) as [->|Hn]; [reflexivity|].
    assert (Hm: N.land n 127 < 128) by (rewrite land127; apply N.mod_lt; lia).
    rewrite (lor128 _ Hm), shiftr7, land127.
    pose proof (size_nat_div n 7 Hn eq_refl) as Hd. change (2 ^ 7) with 128 in Hd.
    rewrite IH by lia. cbn [digits].
    destruct (N.ltb_spec n 128) as [Hs|Hl].
    + rewrite N.div_small by assumption. cbn [N.eqb app map]. rewrite N.mod_small by assumption. reflexivity.
    + destruct (N.eqb_spec (n / 128) 0) as [Hz|Hnz].
      { apply N.div_small_iff in Hz; lia. }
      rewrite map_app. cbn [map]. rewrite <- app_assoc. reflexivity.
Qed.

Lemma digits_of_128_is_b128 n : mark_continuation (digits_of 128 n) = b128 n.
Proof.
  unfold digits_of, b128. rewrite shiftr7, land127.
  destruct (N.eq_dec n 0) as [->|Hn]; [reflexivity|].
  pose proof (size_nat_div n 7 Hn eq_refl) as Hd. change (2 ^ 7) with 128 in Hd.
  rewrite b128_hi_digits by lia.
  destruct (N.size_nat n) as [|f] eqn:Ef; [apply size_nat_0 in Ef; congruence|].
  cbn [digits]. destruct (N.ltb_spec n 128) as [Hs|Hl].
  - rewrite N.div_small by assumption. cbn [N.eqb app mark_continuation].
    rewrite N.mod_small by assumption. reflexivity.
  - destruct (N.eqb_spec (n / 128) 0) as [Hz|Hnz].
    { apply N.div_small_iff in Hz; lia. }
    rewrite mark_continuation_snoc by apply digits_nonempty.
    pose proof (digits_fuel 7 eq_refl f (S f) (n / 128)) as E. change (2 ^ 7) with 128 in E.
    rewrite E by lia. reflexivity.
Qed.

Lemma lead_octet (c: tclass) (pc: bool) (n: N) : n < 32 ->
  64 * class_no c + (if pc then 32 else 0) + n = N.lor (N.lor (cls_bits c) (if pc then 32 else 0)) n.
Proof.
  intros Hn.
  assert (n = 0 \/ n = 1 \/ n = 2 \/ n = 3 \/ n = 4 \/ n = 5 \/ n = 6 \/ n = 7 \/ n = 8 \/ n = 9 \/
          n = 10 \/ n = 11 \/ n = 12 \/ n = 13 \/ n = 14 \/ n = 15 \/ n = 16 \/ n = 17 \/ n = 18 \/
          n = 19 \/ n = 20 \/ n = 21 \/ n = 22 \/ n = 23 \/ n = 24 \/ n = 25 \/ n = 26 \/ n = 27 \/
          n = 28 \/ n = 29 \/ n = 30 \/ n = 31) as H by lia.
  repeat (destruct H as [->|H]; [destruct c, pc; reflexivity|]). subst; destruct c, pc; reflexivity.
Qed.

Theorem ident_is_enc_tag (c: tclass) (pc: bool) (n: N) : ident c pc n = enc_tag (mkTag c pc n) false.
Proof.
  unfold ident, enc_tag. cbn [tcls tcon tnum]. rewrite Bool.orb_false_r.
  destruct (N.ltb_spec n 31) as [Hs|Hl].
  - rewrite lead_octet by lia. reflexivity.
  - rewrite (lead_octet c pc 31) by lia. rewrite digits_of_128_is_b128. reflexivity.
Qed.

(* ---- base 256 ---- *)

Lemma b256_hi_digits : forall fuel n acc, (N.size_nat n <= fuel)%nat ->
  b256_hi fuel n acc = (if N.eqb n 0 then [] else digits fuel 256 n) ++ acc.
Proof.
  induction fuel as [|f IH]; intros n acc Hf.
  - assert (n = 0) as -> by (apply size_nat_0; lia). reflexivity.
  - cbn [b256_hi]. destruct (N.eqb_spec n 0) as [->|Hn]; [reflexivity|].
    rewrite shiftr8, land255.
    pose proof (size_nat_div n 8 Hn eq_refl) as Hd. change (2 ^ 8) with 256 in Hd.
    rewrite IH by lia. cbn [digits].
    destruct (N.ltb_spec n 256) as [Hs|Hl].
    + rewrite N.div_small by assumption. cbn [N.eqb app]. rewrite N.mod_small by assumption. reflexivity.
    + destruct (N.eqb_spec (n / 256) 0) as [Hz|Hnz].
      { apply N.div_small_iff in Hz; lia. }
      rewrite <- app_assoc. reflexivity.
Qed.

Lemma digits_of_256_is_b256 n : n <> 0 -> digits_of 256 n = b256 n.
Proof.
  intros Hn. unfold digits_of, b256. rewrite b256_hi_digits by lia.
  destruct (N.eqb_spec n 0); [congruence|]. rewrite app_nil_r. reflexivity.
Qed.

Theorem length_octets_is_enc_len (n: N) (l: bytes) : enc_len n false = Ok l -> length_octets n = l.
Proof.
  unfold enc_len, length_octets. destruct (N.ltb_spec n 128) as [Hs|Hl].
  - intros H. apply (f_equal (fun x => match x with Ok a => a | Err _ => [] end)) in H. exact H.
  - destruct (Nat.ltb_spec 126 (length (b256 n))) as [Hbig|Hok]; [discriminate|].
    intros H. apply (f_equal (fun x => match x with Ok a => a | Err _ => [] end)) in H. cbv beta iota in H.
    subst l. rewrite digits_of_256_is_b256 by lia.
    rewrite lor128 by lia. reflexivity.
Qed.

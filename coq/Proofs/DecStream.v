(* Instances of the generic stream theorems for the model of pyasn1's decoders. *)
From PV Require Import Base.Bytes Model.Proc Model.Types Model.Enc Model.Dec Proofs.ProcSim Proofs.ProcSched.

Lemma streaming_sched_indep : forall c fuel sp sched s r sF,
  wf_sched (closed s) sched -> (closed s || has_close sched = true)%bool ->
  resume (guard_ra EUnclean (streaming c fuel sp)) (complete s sched) = inr (r, sF) -> r <> Err EUnclean ->
  exists j, drive sched (streaming c fuel sp) s = repeat OUnder j ++ [ODone r (pos sF)].
Proof.
  intros c fuel sp sched s r sF Hw Hcl H Hne.
  exact (sched_indep_close_run_sched EUnclean sched (streaming c fuel sp) s r sF Hw Hcl H Hne).
Qed.

Lemma decoder_prefix : forall c fuel sp e k d s',
  k < length e ->
  resume (guard EUnclean (dec_item c fuel sp)) (mkStream e 0 true 0) = inr (Ok d, s') -> k < pos s' ->
  decode_with c fuel sp (firstn k e) = Err EEndOfStream
  /\ exists p' s1, resume (dec_item c fuel sp) (mkStream (firstn k e) 0 false 0) = inl (p', s1).
Proof.
  intros c fuel sp e k d s' Hk H Hpos. split.
  - destruct (prefix_closed_eos_run EUnclean (dec_item c fuel sp) e k 0 d s') as [s1 E]; try assumption.
    + discriminate.
    + apply Nat.le_0_l.
    + unfold decode_with, run_complete. rewrite E. reflexivity.
  - apply (prefix_insufficient_open_run EUnclean (dec_item c fuel sp) e k 0 d s'); try assumption.
    apply Nat.le_0_l.
Qed.

Lemma decoder_exact : forall c fuel sp e t d s',
  resume (guard EUnclean (dec_item c fuel sp)) (mkStream e 0 true 0) = inr (Ok d, s') ->
  decode_with c fuel sp e = Ok (d, avail s')
  /\ decode_with c fuel sp (e ++ t) = Ok (d, avail s' ++ t).
Proof.
  intros c fuel sp e t d s' H.
  destruct (exact_consumption_run EUnclean (dec_item c fuel sp) e t d s' H) as [E [s'' [E2 [_ Hav]]]].
  unfold decode_with, run_complete. rewrite E, E2, Hav. split; reflexivity.
Qed.

(* Instances of the generic stream theorems for the model of pyasn1's decoders. *)
From PV Require Import Base.Bytes Model.Proc Model.Types Model.Enc Model.Dec Proofs.ProcSim Proofs.ProcSched.

Lemma streaming_sched_indep : forall c fuel sp sched s r sF,
  wf_sched (closed s) sched -> (closed s || has_close sched = true)%bool ->
  resume (guard_ra EUnclean (streaming c fuel sp)) (complete s sched) = inr (r, sF) -> r <> Err EUnclean ->
  exists j, drive sched (streaming c fuel sp) s = repeat OUnder j ++ [ODone r (pos sF)].
Proof.
  intros c fuel sp sched s r sF Hw Hcl H Hne.
  exact (sched_indep_close_run_sched EUnclean sched (streaming c fuel sp) s r sF Hw Hcl H Hne).
Qed.

(* SEQUENCE OF / SET OF .sort(key=..., reverse=...) against Python's list.sort: a NEW file (Model/Container.v
   is not touched), holding
   - the specification [py_sorted]: sorted(l, key=k, reverse=r) is stable in both directions: members that tie
     under the key keep their original relative order, also with reverse=True;
   - the model of `self._componentValues = dict(enumerate(sorted(values, key=key, reverse=reverse)))` for
     keys of the form int(x) % m, as an extension [kop] of the operations of Model/Container.v;
   - proofs: the specification is a stable sort; the model refines it on list-like states; sorting ascending and
     then reversing is a different function (it reverses the ties). *)
From Coq Require Import Lia Sorting.Permutation.
From PV Require Import Spec.ListSpec Proofs.ContainerBase Proofs.ContainerSeqOf.
Local Open Scope nat_scope.

(* ---------- specification: Python's stable sort with a key ---------- *)

Section PySorted.
  Context {A: Type} (key: A -> Z).
  (* x came before everything in l *)
  Fixpoint ins_asc (x: A) (l: list A) : list A :=
    match l with [] => [x] | y :: r => if Z.leb (key x) (key y) then x :: l else y :: ins_asc x r end.
  Fixpoint ins_desc (x: A) (l: list A) : list A :=
    match l with [] => [x] | y :: r => if Z.leb (key y) (key x) then x :: l else y :: ins_desc x r end.
  Definition py_sorted (reverse: bool) (l: list A) : list A :=
    fold_right (if reverse then ins_desc else ins_asc) [] l.

  Definition tied (k: Z) (l: list A) : list A := filter (fun x => Z.eqb (key x) k) l.

  Lemma ins_asc_perm x l : Permutation (x :: l) (ins_asc x l).
  Proof.
    induction l as [|y l IH]; cbn [ins_asc]; [apply Permutation_refl|].
    destruct (Z.leb (key x) (key y)); [apply Permutation_refl|].
    eapply perm_trans; [apply perm_swap|]. apply perm_skip. exact IH.
  Qed.
  Lemma ins_desc_perm x l : Permutation (x :: l) (ins_desc x l).
  Proof.
    induction l as [|y l IH]; cbn [ins_desc]; [apply Permutation_refl|].
    destruct (Z.leb (key y) (key x)); [apply Permutation_refl|].
    eapply perm_trans; [apply perm_swap|]. apply perm_skip. exact IH.
  Qed.
  Theorem py_sorted_perm r l : Permutation l (py_sorted r l).
  Proof.
    unfold py_sorted. induction l as [|x l IH]; [apply perm_nil|]. cbn [fold_right].
    eapply perm_trans; [apply perm_skip; exact IH|]. destruct r; [apply ins_desc_perm|apply ins_asc_perm].
  Qed.

  (* ordered by key *)
  Fixpoint ordered (le: Z -> Z -> Prop) (l: list A) : Prop :=
    match l with
    | [] => True
    | x :: r => (forall y, In y r -> le (key x) (key y)) /\ ordered le r
    end.
  Lemma ins_asc_in x y l : In y (ins_asc x l) -> y = x \/ In y l.
  Proof.
    induction l as [|z l IH]; cbn [ins_asc]; [intros [H|[]]; auto|].
    destruct (Z.leb (key x) (key z)); cbn [In]; intuition.
  Qed.
  Lemma ins_desc_in x y l : In y (ins_desc x l) -> y = x \/ In y l.
  Proof.
    induction l as [|z l IH]; cbn [ins_desc]; [intros [H|[]]; auto|].
    destruct (Z.leb (key z) (key x)); cbn [In]; intuition.
  Qed.
  Lemma ins_asc_ordered x l : ordered Z.le l -> ordered Z.le (ins_asc x l).
  Proof.
    induction l as [|z l IH]; [cbn; intuition|]. intros H. destruct H as [Hz Hl]. cbn [ins_asc].
    destruct (Z.leb_spec (key x) (key z)); cbn [ordered].
    - split; [|split; assumption]. intros y Hy. destruct Hy as [E|Hy]; [subst; assumption|]. specialize (Hz y Hy). lia.
    - split; [|apply IH; assumption]. intros y Hy. apply ins_asc_in in Hy as [->|Hy]; [lia|apply Hz; exact Hy].
  Qed.
  Lemma ins_desc_ordered x l : ordered Z.ge l -> ordered Z.ge (ins_desc x l).
  Proof.
    induction l as [|z l IH]; [cbn; intuition|]. intros H. destruct H as [Hz Hl]. cbn [ins_desc].
    destruct (Z.leb_spec (key z) (key x)); cbn [ordered].
    - split; [|split; assumption]. intros y Hy. destruct Hy as [E|Hy]; [subst; lia|]. specialize (Hz y Hy). lia.
    - split; [|apply IH; assumption]. intros y Hy. apply ins_desc_in in Hy as [->|Hy]; [lia|apply Hz; exact Hy].
  Qed.
  Theorem py_sorted_ordered l :
    ordered Z.le (py_sorted false l) /\ ordered Z.ge (py_sorted true l).
  Proof.
    unfold py_sorted. split; induction l as [|x l IH]; cbn [fold_right ordered]; auto.
    - apply ins_asc_ordered. exact IH.
    - apply ins_desc_ordered. exact IH.
  Qed.

  (* stability: the members with a given key come out in the order they were in, in both directions *)
  Lemma tied_ins_asc k x l : ordered Z.le l -> tied k (ins_asc x l) = tied k (x :: l).
  Proof.
    induction l as [|z l IH]; [reflexivity|]. intros H. destruct H as [Hz Hl]. cbn [ins_asc].
    destruct (Z.leb_spec (key x) (key z)); [reflexivity|].
    unfold tied in *. cbn [filter] in *. rewrite (IH Hl).
    destruct (Z.eqb_spec (key x) k), (Z.eqb_spec (key z) k); try reflexivity. lia.
  Qed.
  Lemma tied_ins_desc k x l : ordered Z.ge l -> tied k (ins_desc x l) = tied k (x :: l).
  Proof.
    induction l as [|z l IH]; [reflexivity|]. intros H. destruct H as [Hz Hl]. cbn [ins_desc].
    destruct (Z.leb_spec (key z) (key x)); [reflexivity|].
    unfold tied in *. cbn [filter] in *. rewrite (IH Hl).
    destruct (Z.eqb_spec (key x) k), (Z.eqb_spec (key z) k); try reflexivity. lia.
  Qed.
  Theorem py_sorted_stable r k l : tied k (py_sorted r l) = tied k l.
  Proof.
    induction l as [|x l IH]; [destruct r; reflexivity|].
    destruct (py_sorted_ordered l) as [Ha Hd].
    destruct r; unfold py_sorted in *; cbn [fold_right].
    - rewrite tied_ins_desc by exact Hd. unfold tied in *. cbn [filter]. rewrite IH. reflexivity.
    - rewrite tied_ins_asc by exact Ha. unfold tied in *. cbn [filter]. rewrite IH. reflexivity.
  Qed.
End PySorted.

(* sorting ascending and reversing afterwards is NOT sorted(..., reverse=True): the ties come out reversed *)
Theorem sort_then_reverse_differs :
  exists (key: Z -> Z) l, py_sorted key true l <> rev (py_sorted key false l) /\
                          py_sorted key true l = [5; 12; 11; 21; 41]%Z.
Proof. exists (fun z => Z.modulo z 10), [11; 5; 21; 12; 41]%Z. split; [vm_compute; discriminate|reflexivity]. Qed.

(* ---------- the model, extended by the keyed sort ---------- *)

Inductive kop :=
| Plain (o: sop)
| SortKey (m: Z) (reverse: bool).       (* s.sort(key=lambda x: int(x) % m, reverse=reverse), m > 0 *)

Definition kkey (m: Z) (z: Z) : Z := Z.modulo z m.

Definition sofk_step (ct isset: bool) (s: sstate) (o: kop) : sstate * out :=
  match o with
  | Plain o' => sof_step ct isset s o'
  | SortKey m reverse =>
      match s with
      | None => (s, ORaise ELib)                                   (* noValue.values *)
      | Some d =>
          let vals := map snd d in
          if has_schema vals then (s, ORaise ELib)                 (* int() of a placeholder *)
          else (Some (enumerate (map CVal (py_sorted (kkey m) reverse (map comp_z vals)))), ORet)
      end
  end.

Definition lk_step (isset: bool) (a: lspec) (o: kop) : lspec * out :=
  match o with
  | Plain o' => l_step isset a o'
  | SortKey m reverse => (Some (py_sorted (kkey m) reverse (lst a)), ORet)     (* l.sort(key=..., reverse=...) *)
  end.
Definition lk_wf (ct: bool) (a: lspec) (o: kop) : bool :=
  match o with Plain o' => l_wf ct a o' | SortKey m _ => is_some a && Z.ltb 0 m end.

Fixpoint sofk_run (ct isset: bool) (s: sstate) (ops: list kop) : sstate * list out :=
  match ops with
  | [] => (s, [])
  | o :: r => let '(s', x) := sofk_step ct isset s o in
              let '(s'', xs) := sofk_run ct isset s' r in (s'', x :: xs)
  end.
Fixpoint lk_run (isset: bool) (a: lspec) (ops: list kop) : lspec * list out :=
  match ops with
  | [] => (a, [])
  | o :: r => let '(a', x) := lk_step isset a o in
              let '(a'', xs) := lk_run isset a' r in (a'', x :: xs)
  end.
Fixpoint lk_wf_hist (ct isset: bool) (a: lspec) (ops: list kop) : bool :=
  match ops with
  | [] => true
  | o :: r => lk_wf ct a o && lk_wf_hist ct isset (fst (lk_step isset a o)) r
  end.

(* correspondence with the implementation, as sof_first_bad / l_spec_check, over the extended operations *)
Fixpoint sofk_first_bad (ct isset: bool) (s: sstate) (ops: list kop) (tr: list (out * sstate)) (i: nat) : option nat :=
  match ops, tr with
  | [], [] => None
  | o :: ops', (eo, es) :: tr' =>
      let '(s', x) := sofk_step ct isset s o in
      if out_unmodelled x then None
      else if out_eqb x eo && sstate_eqb s' es then sofk_first_bad ct isset s' ops' tr' (S i)
      else Some i
  | _, _ => Some i
  end.
Definition sofk_check ct isset ops tr : bool :=
  match sofk_first_bad ct isset None ops tr 0 with None => true | Some _ => false end.
Fixpoint lk_spec_check (ct isset: bool) (a: lspec) (ops: list kop) (tr: list (option (lspec * out))) : bool :=
  match ops, tr with
  | o :: ops', e :: tr' =>
      if lk_wf ct a o then
        match e with
        | Some (a', x) => let '(a1, y) := lk_step isset a o in
                          lspec_eqb a1 a' && out_eqb y x && lk_spec_check ct isset a1 ops' tr'
        | None => false
        end
      else true
  | _, _ => true
  end.

(* ---------- refinement ---------- *)

Theorem sofk_sim_step ct isset a o : lk_wf ct a o = true ->
  sofk_step ct isset (conc a) o = (conc (fst (lk_step isset a o)), snd (lk_step isset a o)).
Proof.
  destruct o as [o'|m reverse]; cbn [lk_wf sofk_step lk_step].
  - apply sof_sim_step.
  - intros H. apply andb_prop in H as [Ha _]. destruct a as [l|]; [|discriminate].
    cbn [conc option_map lst fst snd]. rewrite dense_vals, has_schema_vals, comp_z_vals. reflexivity.
Qed.

Theorem sofk_refines ct isset : forall ops a, lk_wf_hist ct isset a ops = true ->
  sofk_run ct isset (conc a) ops = (conc (fst (lk_run isset a ops)), snd (lk_run isset a ops)).
Proof.
  induction ops as [|o r IH]; intros a H; [reflexivity|].
  cbn [lk_wf_hist] in H. apply andb_prop in H as [H1 H2].
  cbn [sofk_run lk_run]. rewrite (sofk_sim_step ct isset a o H1).
  destruct (lk_step isset a o) as [a' x] eqn:E. cbn [fst snd] in *.
  rewrite (IH a' H2). destruct (lk_run isset a' r). reflexivity.
Qed.

Example sofk_nonvacuous :
  let h := [Plain (SExtend [PInt 11; PInt 5; PInt 21; PInt 12; PInt 41]); SortKey 10 true; Plain SEncode] in
  lk_wf_hist true false None h = true /\
  fst (sofk_run true false None h) = conc (Some [5; 12; 11; 21; 41]%Z) /\
  fst (lk_run false None h) = Some [5; 12; 11; 21; 41]%Z.
Proof. repeat split. Qed.

(* Stage 2 of the BER round trip (C01): types built to any nesting depth from the stage-1 simple
   types, SEQUENCE OF / SET OF, SEQUENCE with mandatory components, and IMPLICIT / EXPLICIT tagging
   of any of these; definite-length, unsegmented encoder mode. *)
From Coq Require Import Lia.
From PV Require Import Base.Bytes Model.Tag Model.TableTypes Model.Types Model.Proc Model.Enc Model.Dec Gen.Tables
     Proofs.ProcBind Proofs.RunLemmas Proofs.TagOctets Proofs.TagAlgebra Proofs.DecHeader Proofs.DecFrame Proofs.DecPrim
     Proofs.TagsetShape Proofs.Schemaless Proofs.RoundTrip1.
Local Open Scope N_scope.

(* ---------- the domain ---------- *)

Definition non_univ (t: tag) : bool := negb (cls_eqb (tcls t) Univ).

Fixpoint stage2_ty (T: ty) : bool :=
  match T with
  | TBool | TInt | TEnum | TBits | TOcts | TNull | TOid | TReal | TStr _ => true
  | TSeqOf t | TSetOf t => stage2_ty t
  | TSeq fs => forallb (fun f => is_req (fst f) && stage2_ty (snd f)) fs
  | TImp t x | TExp t x => non_univ t && stage2_ty x
  | TSet _ | TChoice _ | TAny => false
  end.

Fixpoint stage2_val (T: ty) (v: val) {struct T} : bool :=
  match T with
  | TImp _ x | TExp _ x => stage2_val x v
  | TSeqOf t | TSetOf t => match v with VList xs => forallb (stage2_val t) xs | _ => false end
  | TSeq fs =>
      match v with
      | VRec vs =>
          (fix go (fs: list (presence * ty)) (vs: list (option val)) : bool :=
             match fs, vs with
             | [], [] => true
             | f :: fs', Some x :: vs' => stage2_val (snd f) x && go fs' vs'
             | _, _ => false
             end) fs vs
      | _ => false
      end
  | TSet _ | TChoice _ | TAny => false
  | _ => stage1_val BER BER T v
  end.

(* named versions of the encoder's local loops (convertible with them) *)
Definition enc_elems (t: ty) (o: eopts) : list val -> res (list bytes) :=
  fix go (xs: list val) : res (list bytes) :=
  match xs with
  | [] => Ok []
  | x :: r => do p <- enc_with BER (enc_content BER) t o x; do ps <- go r; Ok (p :: ps)
  end.

Lemma enc_content_seqof t cd fl o xs :
  enc_content BER (TSeqOf t) cd fl o (VList xs) =
  (do parts <- enc_elems t o xs;
   match cd with
   | EcSeqOfBer | EcSeqOfCer => Ok (concat parts, true)
   | EcSetOfCer => Ok (concat (sort_setof parts), true)
   | _ => Err EMalformed
   end).
Proof. reflexivity. Qed.

Lemma enc_content_setof t cd fl o xs :
  enc_content BER (TSetOf t) cd fl o (VList xs) =
  (do parts <- enc_elems t o xs;
   match cd with
   | EcSeqOfBer | EcSeqOfCer => Ok (concat parts, true)
   | EcSetOfCer => Ok (concat (sort_setof parts), true)
   | _ => Err EMalformed
   end).
Proof. reflexivity. Qed.

(* the SEQUENCE component loop when nothing is omitted and every slot is filled *)
Definition enc_fields (o: eopts) : list (presence * ty) -> list val -> res (list bytes) :=
  fix go (fs: list (presence * ty)) (vs: list val) : res (list bytes) :=
  match fs, vs with
  | [], _ => Ok []
  | f :: fs', x :: vs' => do b <- enc_with BER (enc_content BER) (snd f) o x; do rest <- go fs' vs'; Ok (b :: rest)
  | _ :: _, [] => Err EMalformed
  end.

Lemma stage2_val_base : forall T v, stage2_val T v = stage2_val (base_of T) v.
Proof.
  induction T as [| | | | | | | | n|fs IH|fs IH|t IH|t IH|alts IH| |tg x IH|tg x IH] using ty_ind'; intros v; try reflexivity.
  - cbn [base_of stage2_val]. apply IH.
  - cbn [base_of stage2_val]. apply IH.
Qed.

Lemma stage2_ty_base : forall T, stage2_ty T = true -> wf_tags T = true /\ stage2_ty (base_of T) = true.
Proof.
  induction T as [| | | | | | | | n|fs IH|fs IH|t IH|t IH|alts IH| |tg x IH|tg x IH] using ty_ind'; intros H;
    try (split; [reflexivity|exact H]).
  - cbn [stage2_ty] in H. apply Bool.andb_true_iff in H. destruct H as [Hn Hx]. destruct (IH Hx) as [Hw Hb].
    cbn [wf_tags base_of]. unfold non_univ in Hn. rewrite Hn, Hw. split; [reflexivity|exact Hb].
  - cbn [stage2_ty] in H. apply Bool.andb_true_iff in H. destruct H as [Hn Hx]. destruct (IH Hx) as [Hw Hb].
    cbn [wf_tags base_of]. unfold non_univ in Hn. rewrite Hn, Hw. split; [reflexivity|exact Hb].
Qed.

Lemma base_of_idem : forall T, base_of (base_of T) = base_of T.
Proof.
  induction T as [| | | | | | | | n|fs IH|fs IH|t IH|t IH|alts IH| |tg x IH|tg x IH] using ty_ind'; try reflexivity; exact IH.
Qed.

Lemma stage1_val_base ce cd T v : stage1_val ce cd T v = stage1_val ce cd (base_of T) v.
Proof. unfold stage1_val. rewrite base_of_idem. reflexivity. Qed.

Lemma stage2_val_prim T v : prim_base T = true -> stage2_val T v = stage1_val BER BER T v.
Proof.
  intros Hp. rewrite stage2_val_base, (stage1_val_base BER BER T). unfold prim_base in Hp.
  destruct (base_of T); try discriminate Hp; reflexivity.
Qed.

(* ---------- shape of the tag set of any tagged type ---------- *)

Definition tagged_base (T: ty) : bool := match base_of T with TChoice _ | TAny => false | _ => true end.

Lemma tagset_shape : forall T, tagged_base T = true -> wf_tags T = true ->
  exists t0 r b0, tagset_of (base_of T) = Ok [b0] /\ tagset_of T = Ok (t0 :: r) /\ tcon t0 = tcon b0
    /\ Forall explicit_like r /\ (length r + ty_depth (base_of T) <= ty_depth T)%nat.
Proof.
  induction T as [| | | | | | | | n|fs IH|fs IH|t IH|t IH|alts IH| |tg x IH|tg x IH] using ty_ind';
    intros Hp Hw; try discriminate Hp;
    try (eexists; exists []; eexists; split; [reflexivity|split; [reflexivity|split; [reflexivity|split; [constructor|cbn [length base_of]; lia]]]]).
  - (* TImp *)
    cbn [wf_tags] in Hw. apply Bool.andb_true_iff in Hw. destruct Hw as [Hcl Hw].
    destruct (IH Hp Hw) as (t0 & r & b0 & Hb0 & Hts & Hc0 & Hex & Hd).
    cbn [tagset_of base_of]. rewrite Hts. cbn [bind].
    destruct r as [|r1 r'].
    + exists (mkTag (tcls tg) (tcon t0) (tnum tg)), [], b0.
      split; [exact Hb0|]. split; [reflexivity|]. split; [exact Hc0|]. split; [constructor|]. cbn [ty_depth length] in *. lia.
    + destruct (tag_implicitly_cons t0 (r1 :: r') tg) as (r2 & E & Hl & Hf); [discriminate|].
      exists t0, r2, b0. rewrite E. split; [exact Hb0|]. split; [reflexivity|]. split; [exact Hc0|]. split.
      * apply Hf; [exact Hex|]. destruct (tcls tg); try discriminate; cbn in Hcl; congruence.
      * cbn [ty_depth]. lia.
  - (* TExp *)
    cbn [wf_tags] in Hw. apply Bool.andb_true_iff in Hw. destruct Hw as [Hcl Hw].
    destruct (IH Hp Hw) as (t0 & r & b0 & Hb0 & Hts & Hc0 & Hex & Hd).
    cbn [tagset_of base_of]. rewrite Hts. cbn [bind]. unfold tag_explicitly.
    assert (Hnu: tcls tg <> Univ) by (destruct (tcls tg); try discriminate; cbn in Hcl; congruence).
    exists t0, (r ++ [mkTag (tcls tg) true (tnum tg)]), b0.
    split; [exact Hb0|].
    split; [destruct (tcls tg); try reflexivity; congruence|].
    split; [exact Hc0|]. split.
    + apply Forall_app. split; [exact Hex|]. constructor; [|constructor]. split; [reflexivity|exact Hnu].
    + rewrite app_length. cbn [length ty_depth]. lia.
Qed.

(* ---------- framing of any tagged type, primitive or constructed ---------- *)

Lemma enc_tag_con t c : tcon t = true -> enc_tag t c = enc_tag t false.
Proof. intros H. unfold enc_tag. rewrite H. reflexivity. Qed.

Lemma frame_one_con t c d si sub : tcon t = true -> frame_one t c d si sub = frame_one t false d si sub.
Proof. intros H. unfold frame_one. rewrite (enc_tag_con t c H). reflexivity. Qed.

Lemma frame_outer_con : forall r c d si sub, Forall explicit_like r ->
  frame_outer r c d si sub = frame_outer r false d si sub.
Proof.
  induction r as [|t r IH]; intros c d si sub Hex; [reflexivity|].
  inversion Hex as [|? ? [Hc _] Hr]; subst. cbn [frame_outer].
  rewrite (frame_one_con t c d si sub Hc).
  destruct (frame_one t false d si sub) as [s'|e]; cbn [bind]; [apply IH; exact Hr|reflexivity].
Qed.

Lemma frame_one_length t c si sub b : frame_one t c true si sub = Ok b ->
  exists l, b = enc_tag t c ++ l ++ sub /\ (0 < length l)%nat.
Proof.
  unfold frame_one. cbn [negb andb]. intros H.
  destruct (enc_len (N.of_nat (length sub)) false) as [l|e] eqn:El; cbn [bind] in H; [|discriminate].
  inversion H; subst. exists l. rewrite app_nil_r. split; [reflexivity|].
  unfold enc_len in El. destruct (N.of_nat (length sub) <? 128).
  - inversion El; subst. cbn. lia.
  - destruct (Nat.ltb 126 (length (b256 (N.of_nat (length sub))))); [discriminate|]. inversion El; subst. cbn [length]. lia.
Qed.

Lemma enc_tag_nonempty t c : (0 < length (enc_tag t c))%nat.
Proof. unfold enc_tag. destruct (N.ltb (tnum t) 31); cbn [length]; lia. Qed.

Lemma frame_outer_length : forall r c si sub b, frame_outer r c true si sub = Ok b -> (length sub <= length b)%nat.
Proof.
  induction r as [|t r IH]; intros c si sub b H; cbn [frame_outer] in H.
  - inversion H; subst. lia.
  - destruct (frame_one t c true si sub) as [s1|e] eqn:E1; cbn [bind] in H; [|discriminate].
    specialize (IH _ _ _ _ H). destruct (frame_one_length _ _ _ _ _ E1) as (l & -> & _).
    rewrite !app_length in IH. lia.
Qed.

Lemma frame_outer_taglens : forall r c si sub b k, frame_outer r c true si sub = Ok b -> (length b <= k)%nat ->
  Forall (fun t => (length (enc_tag t c) <= k)%nat) r.
Proof.
  induction r as [|t r IH]; intros c si sub b k H Hk; [constructor|].
  cbn [frame_outer] in H.
  destruct (frame_one t c true si sub) as [s1|e] eqn:E1; cbn [bind] in H; [|discriminate].
  pose proof (frame_outer_length _ _ _ _ _ H) as Hl.
  constructor; [|exact (IH _ _ _ _ _ H Hk)].
  destruct (frame_one_length _ _ _ _ _ E1) as (l & -> & _). rewrite !app_length in Hl. lia.
Qed.

Lemma wire_con t c : tcon t = true -> wire t c = t.
Proof. intros H. destruct t as [cl f n]. cbn in H. subst f. reflexivity. Qed.

(* every level of the framing the encoder wrote, for any fuel that covers the octets *)
Theorem framed_consumes : forall c T t0 r cns si content b f0 dcd dfl v,
  tagset_of T = Ok (t0 :: r) -> tcon t0 = cns -> Forall explicit_like r -> plain_map T ->
  by_type c T = Some (dcd, dfl) ->
  frame (t0 :: r) content cns def_opts si = Ok b ->
  (length b <= S f0)%nat ->
  consumes (dec_value (dec_call c f0) f0 dcd dfl (Some T) (t0 :: r) (Some (N.of_nat (length content))) false) content v ->
  consumes (dec_call c (S f0 + length r) (STy T) [] None false false) b v.
Proof.
  intros c T t0 r cns si content b f0 dcd dfl v Hts Hc0 Hex Hpm Hby He Hb Hval.
  cbn [frame] in He. rewrite Bool.andb_false_r in He. cbn [o_def def_opts] in He.
  assert (Hd: (if cns then true else true) = true) by (destruct cns; reflexivity). rewrite Hd in He. clear Hd.
  destruct (frame_one t0 cns true si content) as [s0|e] eqn:E0; cbn [bind] in He; [|discriminate].
  rewrite (frame_outer_con r cns true si s0 Hex) in He.
  pose proof (frame_outer_length _ _ _ _ _ He) as Hlen0.
  pose proof (frame_outer_taglens _ _ _ _ _ (S (S f0)) He ltac:(lia)) as Htl.
  rewrite Nat.add_comm. replace (length r + S f0)%nat with (S f0 + length r)%nat by lia.
  apply (peel_all c T (S f0) si r [] s0 b v He Hex Htl Hpm).
  - rewrite (tagset_of'_ok T _ Hts). cbn [length]. lia.
  - rewrite app_nil_r.
    assert (Hw: wire t0 cns = t0).
    { destruct cns; [apply wire_con; exact Hc0|apply wire_false]. }
    apply (match_level c f0 T r t0 cns si content s0 v dcd dfl E0).
    + rewrite Hw, (tagset_of'_ok T _ Hts). apply tagset_eqb_refl.
    + rewrite Hpm. reflexivity.
    + exact Hby.
    + destruct (frame_one_length _ _ _ _ _ E0) as (l & -> & _). rewrite !app_length in Hlen0. lia.
    + rewrite Hw. exact Hval.
Qed.

(* ---------- the component loops on the concatenation of component encodings ---------- *)

Section Loops.
  Variable rec : spec -> tagset -> option (option N) -> bool -> bool -> proc dval.

  Definition elem_ok (t: ty) (p: bytes) (x': val) : Prop :=
    consumes (rec (STy t) [] None false false) p (DV t x') /\ (0 < length p)%nat.

  Lemma listof_loop_run T t : forall parts xs',
    Forall2 (elem_ok t) parts xs' ->
    forall n acc start total s tl,
      (length parts < n)%nat ->
      avail s = concat parts ++ tl ->
      (start <= pos s)%nat ->
      (pos s - start + length (concat parts) = total)%nat ->
      exists s', resume (listof_loop rec T t (Some (N.of_nat total)) start n acc) s = inr (Ok (DV T (VList (acc ++ xs'))), s')
        /\ pos s' = (pos s + length (concat parts))%nat /\ arrived s' = arrived s /\ closed s' = closed s.
  Proof.
    intros parts xs' HF. induction HF as [|p x' parts xs' [Hp Hpl] HF IH]; intros n acc start total s tl Hn Hav Hst Htot.
    - destruct n as [|n']; [cbn [length] in Hn; lia|].
      cbn [listof_loop]. cbv zeta. rewrite resume_tell.
      cbn [concat length] in Htot.
      destruct (N.ltb_spec (N.of_nat (pos s - start)) (N.of_nat total)) as [Hlt|_]; [lia|].
      cbn [negb resume]. exists s. rewrite app_nil_r. cbn [concat length]. repeat split. lia.
    - destruct n as [|n']; [cbn [length] in Hn; lia|].
      cbn [listof_loop]. cbv zeta. rewrite resume_tell.
      cbn [concat] in Htot, Hav. rewrite app_length in Htot.
      destruct (N.ltb_spec (N.of_nat (pos s - start)) (N.of_nat total)) as [_|Hge]; [|lia].
      cbn [negb]. rewrite <- app_assoc in Hav.
      destruct (Hp s _ Hav) as (s1 & Hrun & Hpos & Harr & Hcl).
      rewrite (resume_pbind_done _ _ _ _ _ Hrun).
      pose proof (consumes_avail p s _ s1 Hav Hpos Harr) as Hav1.
      cbn [length] in Hn.
      destruct (IH n' (acc ++ [x']) start total s1 tl ltac:(lia) Hav1 ltac:(lia) ltac:(lia)) as (s2 & Hrun2 & Hpos2 & Harr2 & Hcl2).
      exists s2. rewrite Hrun2. rewrite <- app_assoc. cbn [app concat]. rewrite app_length.
      split; [reflexivity|]. split; [lia|]. split; congruence.
  Qed.

  Lemma dec_listof_consumes lf T t parts xs' :
    Forall2 (elem_ok t) parts xs' -> (length parts < lf)%nat ->
    consumes (dec_listof rec lf T t (Some (N.of_nat (length (concat parts))))) (concat parts) (DV T (VList xs')).
  Proof.
    intros HF Hlf s tl Hav. unfold dec_listof. rewrite resume_tell.
    destruct (listof_loop_run T t parts xs' HF lf [] (pos s) (length (concat parts)) s tl Hlf Hav ltac:(lia) ltac:(lia))
      as (s' & Hrun & Hpos & Harr & Hcl).
    exists s'. rewrite Hrun. cbn [app]. repeat split; assumption.
  Qed.
End Loops.

Section RecordLoop.
  Variable rec : spec -> tagset -> option (option N) -> bool -> bool -> proc dval.
  Variable lf : nat.

  Inductive fields_ok : list (presence * ty) -> list bytes -> list val -> Prop :=
  | fields_nil : fields_ok [] [] []
  | fields_cons f p x' fs ps xs : elem_ok rec (snd f) p x' -> fields_ok fs ps xs -> fields_ok (f :: fs) (p :: ps) (x' :: xs).

  Lemma required_seen_all_some : forall fs vs, required_seen fs (map Some vs) = true.
  Proof.
    unfold required_seen. induction fs as [|f fs IH]; intros vs; [reflexivity|].
    destruct vs as [|x vs]; [reflexivity|]. cbn [map combine forallb fst snd].
    rewrite IH. destruct (fst f); reflexivity.
  Qed.

  Lemma set_nth_app {X} : forall (a: list X) x y b, set_nth (length a) x (a ++ y :: b) = a ++ x :: b.
  Proof. induction a as [|z a IH]; intros x y b; [reflexivity|]. cbn [length app set_nth]. rewrite IH. reflexivity. Qed.

  Lemma nth_error_app_exact {X} : forall (a: list X) x b, nth_error (a ++ x :: b) (length a) = Some x.
  Proof. induction a as [|z a IH]; intros x b; [reflexivity|]. cbn [length app nth_error]. apply IH. Qed.

  Lemma record_loop_run T fs :
    forallb (fun f => is_req (fst f)) fs = true ->
    (match fs with [] => true | _ => false end) = false ->
    forall todo parts xs', fields_ok todo parts xs' ->
    forall done vdone n start total s tl,
      fs = done ++ todo -> length vdone = length done ->
      (length todo < n)%nat ->
      avail s = concat parts ++ tl ->
      (start <= pos s)%nat ->
      (pos s - start + length (concat parts) = total)%nat ->
      exists s', resume (record_loop rec lf T fs false (Some (N.of_nat total)) start n (length done)
                                     (map Some vdone ++ map (fun _ => None) todo) 0%nat) s
                 = inr (Ok (DV T (VRec (map Some (vdone ++ xs')))), s')
        /\ pos s' = (pos s + length (concat parts))%nat /\ arrived s' = arrived s /\ closed s' = closed s.
  Proof.
    intros Hreq Hne todo parts xs' HF.
    induction HF as [|f p x' todo parts xs' [Hp Hpl] HF IH]; intros done vdone n start total s tl Hfs Hvd Hn Hav Hst Htot.
    - destruct n as [|n']; [cbn [length] in Hn; lia|].
      cbn [record_loop]. cbv zeta. rewrite resume_tell.
      cbn [concat length] in Htot.
      destruct (N.ltb_spec (N.of_nat (pos s - start)) (N.of_nat total)) as [Hlt|_]; [lia|].
      cbn [negb]. rewrite Hne. cbn [map]. rewrite !app_nil_r. rewrite required_seen_all_some. cbn [resume].
      exists s. cbn [concat length]. repeat split. lia.
    - destruct n as [|n']; [cbn [length] in Hn; lia|].
      cbn [record_loop]. cbv zeta. rewrite resume_tell.
      cbn [concat] in Htot, Hav. rewrite app_length in Htot.
      destruct (N.ltb_spec (N.of_nat (pos s - start)) (N.of_nat total)) as [_|Hge]; [|lia].
      cbn [negb andb]. rewrite Hne, Hreq.
      unfold seq_component_spec.
      assert (Hnth: nth_error fs (length done) = Some f) by (rewrite Hfs; apply nth_error_app_exact). rewrite Hnth.
      destruct f as [pr ft]. cbn [orb snd] in *.
      rewrite <- app_assoc in Hav.
      destruct (Hp s _ Hav) as (s1 & Hrun & Hpos & Harr & Hcl).
      rewrite (resume_pbind_done _ _ _ _ _ Hrun).
      pose proof (consumes_avail p s _ s1 Hav Hpos Harr) as Hav1.
      assert (Hidx: Nat.leb (length fs) (length done) = false).
      { apply Nat.leb_gt. rewrite Hfs, app_length. cbn [length]. lia. }
      rewrite Hidx. unfold seq_position. cbn [lift pbind]. rewrite Hidx.
      cbn [map].
      match goal with |- context [set_nth ?i ?x (?a ++ ?y :: ?b)] =>
        replace (set_nth i x (a ++ y :: b)) with (a ++ x :: b)
          by (symmetry; rewrite <- Hvd, <- (map_length Some vdone); apply set_nth_app) end.
      cbn [length] in Hn.
      assert (Hfs': fs = (done ++ [(pr, ft)]) ++ todo) by (rewrite <- app_assoc; exact Hfs).
      assert (Hvd': length (vdone ++ [x']) = length (done ++ [(pr, ft)])) by (rewrite !app_length; cbn [length]; lia).
      destruct (IH (done ++ [(pr, ft)]) (vdone ++ [x']) n' start total s1 tl Hfs' Hvd' ltac:(lia) Hav1 ltac:(lia) ltac:(lia))
        as (s2 & Hrun2 & Hpos2 & Harr2 & Hcl2).
      rewrite app_length in Hrun2. cbn [length] in Hrun2. rewrite Nat.add_1_r in Hrun2.
      rewrite map_app in Hrun2. cbn [map] in Hrun2. rewrite <- app_assoc in Hrun2. cbn [app] in Hrun2.
      exists s2. rewrite Hrun2. rewrite <- app_assoc. cbn [app concat]. rewrite app_length.
      split; [reflexivity|]. split; [lia|]. split; congruence.
  Qed.
End RecordLoop.

Lemma dec_record_consumes rec lf T fs parts xs' :
  forallb (fun f => is_req (fst f)) fs = true -> fields_ok rec fs parts xs' -> (length fs < lf)%nat ->
  consumes (dec_record rec lf T fs false (Some (N.of_nat (length (concat parts))))) (concat parts) (DV T (VRec (map Some xs'))).
Proof.
  intros Hreq HF Hlf s tl Hav. unfold dec_record. rewrite resume_tell.
  destruct fs as [|f0 fs0].
  - inversion HF; subst. destruct lf as [|n]; [cbn [length] in Hlf; lia|].
    cbn [record_loop]. cbv zeta. rewrite resume_tell. cbn [concat length]. rewrite Nat.sub_diag.
    cbn [N.of_nat N.ltb N.compare negb map resume]. exists s. repeat split. lia.
  - destruct (record_loop_run rec lf T (f0 :: fs0) Hreq eq_refl (f0 :: fs0) parts xs' HF [] [] lf (pos s)
                (length (concat parts)) s tl eq_refl eq_refl Hlf Hav ltac:(lia) ltac:(lia))
      as (s' & Hrun & Hpos & Harr & Hcl).
    exists s'. split; [exact Hrun|]. repeat split; assumption.
Qed.

(* ---------- one item: what the induction over the type establishes ---------- *)

Definition fuel_ok (T: ty) (b: bytes) (f: nat) : Prop := (length b + ty_depth T <= f)%nat.

Definition item_ok (T: ty) (v: val) : Prop :=
  forall b, enc_with BER (enc_content BER) T def_opts v = Ok b -> N.of_nat (length b) <= index_max ->
  (0 < length b)%nat /\
  exists v', abs T v' = abs T v /\
    forall f, fuel_ok T b f -> consumes (dec_call BER f (STy T) [] None false false) b (DV T v').

Lemma enc_with_inv T v b : enc_with BER (enc_content BER) T def_opts v = Ok b ->
  exists ec fl ts content cns, concrete_encoder BER T = Ok (ec, fl) /\ tagset_of T = Ok ts
    /\ enc_content BER T ec fl def_opts v = Ok (content, cns) /\ frame ts content cns def_opts (ef_indef fl) = Ok b.
Proof.
  unfold enc_with. change (fix_opts BER def_opts) with def_opts. intros H.
  destruct (concrete_encoder BER T) as [[ec fl]|e] eqn:E1; cbn [bind] in H; [|discriminate].
  destruct (tagset_of T) as [ts|e] eqn:E2; cbn [bind] in H; [|discriminate].
  change (mkOpts (o_def def_opts) (o_chunk def_opts) false) with def_opts in H.
  destruct (enc_content BER T ec fl def_opts v) as [[content cns]|e] eqn:E3; cbn [bind] in H; [|discriminate].
  exists ec, fl, ts, content, cns. split; [reflexivity|]. split; [reflexivity|]. split; [exact E3|exact H].
Qed.

Lemma frame_nonempty t0 r content cns si b : frame (t0 :: r) content cns def_opts si = Ok b ->
  (length content + 2 <= length b)%nat.
Proof.
  cbn [frame]. rewrite Bool.andb_false_r. cbn [o_def def_opts]. intros H.
  assert (Hd: (if cns then true else true) = true) by (destruct cns; reflexivity). rewrite Hd in H. clear Hd.
  destruct (frame_one t0 cns true si content) as [s0|e] eqn:E0; cbn [bind] in H; [|discriminate].
  pose proof (frame_outer_length _ _ _ _ _ H) as Hl.
  destruct (frame_one_length _ _ _ _ _ E0) as (l & -> & Hl0). pose proof (enc_tag_nonempty t0 cns).
  rewrite !app_length in Hl. lia.
Qed.

Lemma enc_nonempty T v b t0 r : tagset_of T = Ok (t0 :: r) ->
  enc_with BER (enc_content BER) T def_opts v = Ok b -> (2 <= length b)%nat.
Proof.
  intros Hts He. destruct (enc_with_inv T v b He) as (ec & fl & ts & content & cns & _ & Hts' & _ & Hfr).
  rewrite Hts in Hts'. inversion Hts'; subst ts. pose proof (frame_nonempty _ _ _ _ _ _ Hfr). lia.
Qed.

(* the simple types, in the "any sufficient fuel" form *)
Lemma prim_item T v : prim_base T = true -> wf_tags T = true -> stage1_val BER BER T v = true -> item_ok T v.
Proof.
  intros Hp Hw Hs b He Hmax.
  assert (He': encode BER true 0 T v = Ok b) by exact He.
  destruct (stage1_leaf BER BER T v b (or_introl eq_refl) Hs He') as (content & vdec & Hleaf & Habs).
  pose proof (content_le_encoding BER BER T v content vdec b def_codec_ber Hp Hw Hleaf He') as Hcl.
  destruct (tagset_prim_shape T Hp Hw) as (t0 & r & Hts & _ & _ & Hd).
  split.
  - pose proof (enc_nonempty T v b t0 r Hts He). lia.
  - exists vdec. split; [exact Habs|]. intros f Hf. unfold fuel_ok in Hf.
    pose proof (stage1_generic BER BER T v content vdec b (f - 1 - length r) def_codec_ber Hp Hw Hleaf He') as Hg.
    rewrite (tagset_of'_ok T _ Hts) in Hg. cbn [length] in Hg.
    replace (S (f - 1 - length r) + (S (length r) - 1))%nat with f in Hg by lia.
    apply Hg; [split; lia|lia].
Qed.

Lemma enc_elems_cons t o x r :
  enc_elems t o (x :: r) = (do p <- enc_with BER (enc_content BER) t o x; do ps <- enc_elems t o r; Ok (p :: ps)).
Proof. reflexivity. Qed.

Lemma elems_item t : (forall x, stage2_val t x = true -> item_ok t x) ->
  forall xs parts, enc_elems t def_opts xs = Ok parts -> forallb (stage2_val t) xs = true ->
  N.of_nat (length (concat parts)) <= index_max ->
  exists xs', map (abs t) xs' = map (abs t) xs /\
    forall f, (length (concat parts) + ty_depth t <= f)%nat -> Forall2 (elem_ok (dec_call BER f) t) parts xs'.
Proof.
  intros IHt. induction xs as [|x xs IH]; intros parts He Hs Hmax.
  - inversion He; subst. exists []. split; [reflexivity|]. intros f _. constructor.
  - rewrite enc_elems_cons in He.
    destruct (enc_with BER (enc_content BER) t def_opts x) as [p|e] eqn:Ep; cbn [bind] in He; [|discriminate].
    destruct (enc_elems t def_opts xs) as [ps|e] eqn:Eps; cbn [bind] in He; [|discriminate].
    inversion He; subst parts; clear He.
    cbn [forallb] in Hs. apply Bool.andb_true_iff in Hs. destruct Hs as [Hx Hxs].
    cbn [concat] in Hmax. rewrite app_length in Hmax.
    destruct (IHt x Hx p Ep ltac:(lia)) as (Hpl & x' & Hax & Hcx).
    destruct (IH ps eq_refl Hxs ltac:(lia)) as (xs' & Haxs & Hcxs).
    exists (x' :: xs'). split; [cbn [map]; rewrite Hax, Haxs; reflexivity|].
    intros f Hf. cbn [concat] in Hf. rewrite app_length in Hf. constructor.
    + split; [|exact Hpl]. apply Hcx. unfold fuel_ok. lia.
    + apply Hcxs. lia.
Qed.

Lemma Forall2_elem_count rec t parts xs' : Forall2 (elem_ok rec t) parts xs' -> (length parts <= length (concat parts))%nat.
Proof.
  induction 1 as [|p x' parts xs' [_ Hpl] _ IH]; [cbn; lia|]. cbn [length concat]. rewrite app_length. lia.
Qed.

(* SEQUENCE OF / SET OF under any tagging *)
Lemma listof_item T' t : (base_of T' = TSeqOf t \/ base_of T' = TSetOf t) -> wf_tags T' = true ->
  (forall x, stage2_val t x = true -> item_ok t x) ->
  forall xs, forallb (stage2_val t) xs = true -> item_ok T' (VList xs).
Proof.
  intros Hb Hw IHt xs Hs b He Hmax.
  assert (Htb: tagged_base T' = true) by (unfold tagged_base; destruct Hb as [-> | ->]; reflexivity).
  destruct (tagset_shape T' Htb Hw) as (t0 & r & b0 & Hb0 & Hts & Hc0 & Hex & Hd).
  assert (Hcon: tcon t0 = true).
  { rewrite Hc0. destruct Hb as [Hb|Hb]; rewrite Hb in Hb0; inversion Hb0; reflexivity. }
  assert (Hdep: ty_depth (base_of T') = S (ty_depth t)) by (destruct Hb as [-> | ->]; reflexivity).
  split; [pose proof (enc_nonempty T' _ b t0 r Hts He); lia|].
  destruct (enc_with_inv T' _ b He) as (ec & fl & ts & content & cns & Hce & Hts' & Hcont & Hfr).
  rewrite Hts in Hts'. inversion Hts'; subst ts; clear Hts'.
  rewrite concrete_encoder_base in Hce. rewrite enc_content_base in Hcont.
  assert (Hparts: exists parts, enc_elems t def_opts xs = Ok parts /\ content = concat parts /\ cns = true /\ ef_indef fl = true).
  { destruct Hb as [Hb|Hb]; rewrite Hb in Hce, Hcont; vm_compute in Hce; inversion Hce; subst ec fl; clear Hce.
    - rewrite enc_content_seqof in Hcont. destruct (enc_elems t def_opts xs) as [parts|e]; cbn [bind] in Hcont; [|discriminate].
      inversion Hcont; subst. exists parts. repeat split.
    - rewrite enc_content_setof in Hcont. destruct (enc_elems t def_opts xs) as [parts|e]; cbn [bind] in Hcont; [|discriminate].
      inversion Hcont; subst. exists parts. repeat split. }
  destruct Hparts as (parts & Hel & -> & -> & Hsi). rewrite Hsi in Hfr.
  pose proof (frame_nonempty _ _ _ _ _ _ Hfr) as Hlen.
  destruct (elems_item t IHt xs parts Hel Hs ltac:(lia)) as (xs' & Habs & Helems).
  exists (VList xs'). split.
  { rewrite (abs_wrappers T' (VList xs')), (abs_wrappers T' (VList xs)).
    destruct Hb as [-> | ->]; cbn [abs]; rewrite Habs; reflexivity. }
  intros f Hf. unfold fuel_ok in Hf.
  assert (Hby: exists dcd dfl, by_type BER T' = Some (dcd, dfl) /\ (dcd = DcSeqOf \/ dcd = DcSetOf)).
  { rewrite by_type_base. destruct Hb as [-> | ->]; eexists; eexists; (split; [vm_compute; reflexivity|]); [left|right]; reflexivity. }
  destruct Hby as (dcd & dfl & Hby & Hdcd).
  assert (Hpm: plain_map T').
  { apply plain_map_tagged. destruct T'; try exact I; destruct Hb; discriminate. }
  replace f with (S (f - 1 - length r) + length r)%nat by lia.
  apply (framed_consumes BER T' t0 r true true (concat parts) b (f - 1 - length r) dcd dfl _ Hts Hcon Hex Hpm Hby Hfr); [lia|].
  assert (Hdv: dec_value (dec_call BER (f - 1 - length r)) (f - 1 - length r) dcd dfl (Some T') (t0 :: r)
                         (Some (N.of_nat (length (concat parts)))) false
               = dec_listof (dec_call BER (f - 1 - length r)) (f - 1 - length r) T' t (Some (N.of_nat (length (concat parts))))).
  { destruct Hdcd as [-> | ->]; cbn [dec_value tag0_cons]; rewrite Hcon; cbn [negb]; destruct Hb as [-> | ->]; reflexivity. }
  rewrite Hdv.
  assert (HF: Forall2 (elem_ok (dec_call BER (f - 1 - length r)) t) parts xs') by (apply Helems; lia).
  apply dec_listof_consumes; [exact HF|].
  pose proof (Forall2_elem_count _ _ _ _ HF). lia.
Qed.

(* ---------- SEQUENCE: named versions of the local loops of the model ---------- *)

Definition sv_fields : list (presence * ty) -> list (option val) -> bool :=
  fix go (fs: list (presence * ty)) (vs: list (option val)) : bool :=
    match fs, vs with
    | [], [] => true
    | f :: fs', Some x :: vs' => stage2_val (snd f) x && go fs' vs'
    | _, _ => false
    end.

Lemma stage2_val_seq fs vs : stage2_val (TSeq fs) (VRec vs) = sv_fields fs vs.
Proof. reflexivity. Qed.

Definition abs_fields : list (presence * ty) -> list (option val) -> list (option aval) :=
  fix go (fs: list (presence * ty)) (vs: list (option val)) : list (option aval) :=
    match fs, vs with
    | (p, ft) :: fs', ov :: vs' =>
        (match ov, p with
         | Some x, _ => Some (abs ft x)
         | None, Def d => Some (abs ft d)
         | None, _ => None
         end) :: go fs' vs'
    | (p, ft) :: fs', [] =>
        (match p with Def d => Some (abs ft d) | _ => None end) :: go fs' []
    | [], _ => []
    end.

Lemma abs_seq fs vs : abs (TSeq fs) (VRec vs) = ARec (abs_fields fs vs).
Proof. reflexivity. Qed.

Definition enc_rec_fields (cd: enc_codec) (omit: bool) (o: eopts) : list (presence * ty) -> list (option val) -> res (list (tagset * bytes)) :=
  fix go (fs: list (presence * ty)) (vs: list (option val)) : res (list (tagset * bytes)) :=
    match fs with
    | [] => Ok []
    | (p, ft) :: fs' =>
        let ov := match vs with x :: _ => x | [] => None end in
        let vs' := match vs with _ :: r => r | [] => [] end in
        let o' := if omit then mkOpts (o_def o) (o_chunk o) (match p with Opt => true | _ => false end) else o in
        let emit (x: val) := do b <- enc_with BER (enc_content BER) ft o' x; do rest <- go fs' vs';
                             Ok ((set_sort_key (match cd with EcSetDer => true | _ => false end) ft x, b) :: rest) in
        match p, ov with
        | Opt, None => go fs' vs'
        | Def d, None => go fs' vs'
        | Def d, Some x => match val_py_eq x d with
                           | Some true => go fs' vs'
                           | Some false => emit x
                           | None => Err EUnmodelled end
        | Req, None => if all_optional_container ft then emit (VRec []) else Err EMalformed
        | _, Some x => emit x
        end
    end.

Lemma enc_content_seq fs cd fl o vs :
  enc_content BER (TSeq fs) cd fl o (VRec vs) =
  (do parts <- enc_rec_fields cd (match cd with EcSeq => ef_omit_empty fl | EcSetCer | EcSetDer => true | _ => false end) o fs vs;
   match cd with
   | EcSeq => Ok (concat (map snd parts), true)
   | EcSetCer | EcSetDer => Ok (concat (map snd (sort_by tagset_ltb fst parts)), true)
   | _ => Err EMalformed
   end).
Proof. reflexivity. Qed.

Lemma enc_rec_fields_req o ft fs' x vs' :
  enc_rec_fields EcSeq false o ((Req, ft) :: fs') (Some x :: vs') =
  (do b <- enc_with BER (enc_content BER) ft o x; do rest <- enc_rec_fields EcSeq false o fs' vs';
   Ok ((set_sort_key false ft x, b) :: rest)).
Proof. reflexivity. Qed.

Definition max_depth (fs: list (presence * ty)) : nat :=
  fold_right (fun f acc => Nat.max (ty_depth (snd f)) acc) O fs.

Lemma fields_item : forall fs,
  Forall (fun f => forall x, stage2_val (snd f) x = true -> item_ok (snd f) x) fs ->
  forallb (fun f => is_req (fst f)) fs = true ->
  forall vs parts, sv_fields fs vs = true -> enc_rec_fields EcSeq false def_opts fs vs = Ok parts ->
  N.of_nat (length (concat (map snd parts))) <= index_max ->
  exists xs', abs_fields fs (map Some xs') = abs_fields fs vs /\
    forall f, (length (concat (map snd parts)) + max_depth fs <= f)%nat ->
              fields_ok (dec_call BER f) fs (map snd parts) xs'.
Proof.
  intros fs HF. induction HF as [|[p ft] fs IHf HF IH]; intros Hreq vs parts Hs He Hmax.
  - destruct vs; [|discriminate Hs]. inversion He; subst. exists []. split; [reflexivity|]. intros f _. constructor.
  - cbn [forallb fst] in Hreq. apply Bool.andb_true_iff in Hreq. destruct Hreq as [Hp Hreq].
    destruct p; try discriminate Hp. cbn [snd] in IHf.
    destruct vs as [|[x|] vs']; try discriminate Hs.
    change (sv_fields ((Req, ft) :: fs) (Some x :: vs')) with (stage2_val ft x && sv_fields fs vs')%bool in Hs.
    apply Bool.andb_true_iff in Hs. destruct Hs as [Hx Hxs].
    rewrite enc_rec_fields_req in He.
    destruct (enc_with BER (enc_content BER) ft def_opts x) as [pb|e] eqn:Ep; cbn [bind] in He; [|discriminate].
    destruct (enc_rec_fields EcSeq false def_opts fs vs') as [ps|e] eqn:Eps; cbn [bind] in He; [|discriminate].
    inversion He; subst parts; clear He.
    cbn [map snd concat] in Hmax. rewrite app_length in Hmax.
    destruct (IHf x Hx pb Ep ltac:(lia)) as (Hpl & x' & Hax & Hcx).
    destruct (IH Hreq vs' ps Hxs Eps ltac:(lia)) as (xs' & Haxs & Hcxs).
    exists (x' :: xs'). split.
    { change (abs_fields ((Req, ft) :: fs) (map Some (x' :: xs'))) with (Some (abs ft x') :: abs_fields fs (map Some xs')).
      change (abs_fields ((Req, ft) :: fs) (Some x :: vs')) with (Some (abs ft x) :: abs_fields fs vs').
      rewrite Hax, Haxs. reflexivity. }
    intros f Hf. cbn [map snd concat max_depth fold_right] in Hf. rewrite app_length in Hf.
    cbn [map snd]. constructor.
    + cbn [snd]. split; [|exact Hpl]. apply Hcx. unfold fuel_ok. lia.
    + apply Hcxs. unfold max_depth. lia.
Qed.

Lemma fields_ok_count rec fs parts xs' : fields_ok rec fs parts xs' ->
  (length fs <= length (concat parts))%nat.
Proof.
  induction 1 as [|f p x' fs ps xs [_ Hpl] _ IH]; [cbn; lia|]. cbn [length concat]. rewrite app_length. lia.
Qed.

(* SEQUENCE with mandatory components, under any tagging *)
Lemma record_item T' fs : base_of T' = TSeq fs -> wf_tags T' = true ->
  forallb (fun f => is_req (fst f)) fs = true ->
  Forall (fun f => forall x, stage2_val (snd f) x = true -> item_ok (snd f) x) fs ->
  forall vs, sv_fields fs vs = true -> item_ok T' (VRec vs).
Proof.
  intros Hb Hw Hreq IHfs vs Hs b He Hmax.
  assert (Htb: tagged_base T' = true) by (unfold tagged_base; rewrite Hb; reflexivity).
  destruct (tagset_shape T' Htb Hw) as (t0 & r & b0 & Hb0 & Hts & Hc0 & Hex & Hd).
  assert (Hcon: tcon t0 = true).
  { rewrite Hc0. rewrite Hb in Hb0; inversion Hb0; reflexivity. }
  assert (Hdep: ty_depth (base_of T') = S (max_depth fs)) by (rewrite Hb; reflexivity).
  split; [pose proof (enc_nonempty T' _ b t0 r Hts He); lia|].
  destruct (enc_with_inv T' _ b He) as (ec & fl & ts & content & cns & Hce & Hts' & Hcont & Hfr).
  rewrite Hts in Hts'. inversion Hts'; subst ts; clear Hts'.
  rewrite concrete_encoder_base in Hce. rewrite enc_content_base in Hcont.
  rewrite Hb in Hce, Hcont. vm_compute in Hce. inversion Hce; subst ec fl; clear Hce.
  rewrite enc_content_seq in Hcont. cbn [ef_omit_empty] in Hcont.
  destruct (enc_rec_fields EcSeq false def_opts fs vs) as [parts|e] eqn:Eparts; cbn [bind] in Hcont; [|discriminate].
  inversion Hcont; subst content cns; clear Hcont. cbn [ef_indef] in Hfr.
  pose proof (frame_nonempty _ _ _ _ _ _ Hfr) as Hlen.
  destruct (fields_item fs IHfs Hreq vs parts Hs Eparts ltac:(lia)) as (xs' & Habs & Hfields).
  exists (VRec (map Some xs')). split.
  { rewrite (abs_wrappers T' (VRec (map Some xs'))), (abs_wrappers T' (VRec vs)), Hb.
    rewrite !abs_seq, Habs. reflexivity. }
  intros f Hf. unfold fuel_ok in Hf.
  assert (Hby: by_type BER T' = Some (DcSeq, mkDecFlags true (Some KSeq))).
  { rewrite by_type_base, Hb. vm_compute. reflexivity. }
  assert (Hpm: plain_map T').
  { apply plain_map_tagged. destruct T'; try exact I; discriminate. }
  replace f with (S (f - 1 - length r) + length r)%nat by lia.
  apply (framed_consumes BER T' t0 r true true (concat (map snd parts)) b (f - 1 - length r) _ _ _ Hts Hcon Hex Hpm Hby Hfr); [lia|].
  cbn [dec_value tag0_cons]. rewrite Hcon. cbn [negb]. rewrite Hb.
  assert (HF: fields_ok (dec_call BER (f - 1 - length r)) fs (map snd parts) xs') by (apply Hfields; lia).
  apply dec_record_consumes; [exact Hreq|exact HF|].
  pose proof (fields_ok_count _ _ _ _ HF). lia.
Qed.

(* ---------- the induction over the type ---------- *)

Theorem stage2_item : forall T T', base_of T' = base_of T -> stage2_ty T' = true ->
  forall v, stage2_val T' v = true -> item_ok T' v.
Proof.
  induction T as [| | | | | | | | n|fs IH|fs IH|t IH|t IH|alts IH| |tg x IH|tg x IH] using ty_ind';
    intros T' Hb Hty v Hv; cbn [base_of] in Hb;
    destruct (stage2_ty_base T' Hty) as [Hw Htb];
    try (assert (Hp: prim_base T' = true) by (unfold prim_base; rewrite Hb; reflexivity);
         rewrite (stage2_val_prim T' v Hp) in Hv; exact (prim_item T' v Hp Hw Hv));
    try (rewrite Hb in Htb; discriminate Htb).
  - (* SEQUENCE *)
    rewrite Hb in Htb. cbn [stage2_ty] in Htb.
    rewrite stage2_val_base, Hb in Hv. destruct v; try discriminate Hv. rewrite stage2_val_seq in Hv.
    assert (Hreq: forallb (fun f => is_req (fst f)) fs = true).
    { apply forallb_forall. intros f Hin. rewrite forallb_forall in Htb. specialize (Htb f Hin).
      apply Bool.andb_true_iff in Htb. exact (proj1 Htb). }
    apply (record_item T' fs Hb Hw Hreq); [|exact Hv].
    apply Forall_forall. intros f Hin x Hx. rewrite Forall_forall in IH.
    rewrite forallb_forall in Htb. specialize (Htb f Hin). apply Bool.andb_true_iff in Htb.
    exact (IH f Hin (snd f) eq_refl (proj2 Htb) x Hx).
  - (* SEQUENCE OF *)
    rewrite Hb in Htb. cbn [stage2_ty] in Htb.
    rewrite stage2_val_base, Hb in Hv. destruct v; try discriminate Hv. cbn [stage2_val] in Hv.
    apply (listof_item T' t (or_introl Hb) Hw); [|exact Hv].
    intros x Hx. exact (IH t eq_refl Htb x Hx).
  - (* SET OF *)
    rewrite Hb in Htb. cbn [stage2_ty] in Htb.
    rewrite stage2_val_base, Hb in Hv. destruct v; try discriminate Hv. cbn [stage2_val] in Hv.
    apply (listof_item T' t (or_intror Hb) Hw); [|exact Hv].
    intros x Hx. exact (IH t eq_refl Htb x Hx).
  - exact (IH T' Hb Hty v Hv).
  - exact (IH T' Hb Hty v Hv).
Qed.

(* Round trip, stage 2: every type built to any nesting depth from the stage-1 simple types,
   SEQUENCE OF, SET OF, SEQUENCE with mandatory components, and IMPLICIT / EXPLICIT tagging (with
   non-UNIVERSAL tags) of any of these. *)
Theorem roundtrip_stage2 : forall T v b tl,
  stage2_ty T = true -> stage2_val T v = true ->
  encode BER true 0 T v = Ok b -> N.of_nat (length b) <= index_max ->
  exists v', decode BER (Some T) (b ++ tl) = Ok (DV T v', tl) /\ abs T v' = abs T v.
Proof.
  intros T v b tl Hty Hv He Hmax.
  destruct (stage2_item T T eq_refl Hty v Hv b He Hmax) as (_ & v' & Habs & Hc).
  exists v'. split; [|exact Habs]. unfold decode.
  assert (Hf: fuel_ok T b (dec_fuel (Some T) (b ++ tl))).
  { unfold fuel_ok, dec_fuel. rewrite app_length. lia. }
  pose proof (consumes_decode_with BER _ (Some T) b tl (DV T v') (Hc _ Hf)) as Hdw.
  unfold decode_with in Hdw. exact Hdw.
Qed.

Print Assumptions roundtrip_stage2.

(* the same for any fuel the caller chooses above (length of the encoding + depth of the type):
   the fuel [decode] gives itself (dec_fuel = 2 * input length + 2 * depth + 6) is one such *)
Theorem roundtrip_stage2_fuel : forall T v b tl fuel,
  stage2_ty T = true -> stage2_val T v = true ->
  encode BER true 0 T v = Ok b -> N.of_nat (length b) <= index_max ->
  (length b + ty_depth T <= fuel)%nat ->
  exists v', decode_with BER fuel (Some T) (b ++ tl) = Ok (DV T v', tl) /\ abs T v' = abs T v.
Proof.
  intros T v b tl fuel Hty Hv He Hmax Hf.
  destruct (stage2_item T T eq_refl Hty v Hv b He Hmax) as (_ & v' & Habs & Hc).
  exists v'. split; [|exact Habs].
  exact (consumes_decode_with BER fuel (Some T) b tl (DV T v') (Hc fuel Hf)).
Qed.

Print Assumptions roundtrip_stage2_fuel.

(* the hypotheses are met by a nested case:
   [APPLICATION 7] EXPLICIT SEQUENCE { [0] EXPLICIT SEQUENCE OF INTEGER,
                                       [1] IMPLICIT SET OF SEQUENCE { BOOLEAN, OCTET STRING },
                                       [PRIVATE 1000] IMPLICIT [2] EXPLICIT SEQUENCE OF SEQUENCE OF NULL,
                                       SEQUENCE {} } *)
Definition stage2_example_ty : ty :=
  TExp (mkTag Appl false 7)
   (TSeq [ (Req, TExp (mkTag Ctx false 0) (TSeqOf TInt));
           (Req, TImp (mkTag Ctx false 1) (TSetOf (TSeq [(Req, TBool); (Req, TOcts)])));
           (Req, TImp (mkTag Priv false 1000) (TExp (mkTag Ctx false 2) (TSeqOf (TSeqOf TNull))));
           (Req, TSeq []) ]).
Definition stage2_example_val : val :=
  VRec [ Some (VList [VInt 5; VInt (-129)]);
         Some (VList [VRec [Some (VBool true); Some (VOcts [1;2;3])]; VRec [Some (VBool false); Some (VOcts [])]]);
         Some (VList [VList [VNull; VNull]; VList []]);
         Some (VRec []) ].

Example roundtrip_stage2_nonvacuous :
  stage2_ty stage2_example_ty = true /\ stage2_val stage2_example_ty stage2_example_val = true
  /\ encode BER true 0 stage2_example_ty stage2_example_val
     = Ok [103; 48; 48; 46; 160; 9; 48; 7; 2; 1; 5; 2; 2; 255; 127; 161; 17;
           48; 8; 1; 1; 1; 4; 3; 1; 2; 3; 48; 5; 1; 1; 0; 4; 0; 255; 135;
           104; 10; 48; 8; 48; 4; 5; 0; 5; 0; 48; 0; 48; 0]
  /\ N.of_nat 50 <= index_max.
Proof. vm_compute. repeat split; try reflexivity; discriminate. Qed.

(* C16: self-describing encodings decode faithfully WITHOUT a schema.
   Stage 1: every simple type with its own UNIVERSAL tag, under any stack of EXPLICIT tags of
   non-universal class, definite lengths, unsegmented, written by the BER or the DER encoder and
   read by the BER, the CER or the DER decoder with no guiding type (asn1Spec=None): the decoder
   returns an object whose tag set is exactly the tag set of the encoded type (the tags on the
   wire), whose base type is the encoded base type (ENUMERATED comes back as an INTEGER object
   carrying the ENUMERATED tag), and whose abstract content is that of the encoded value. *)
From Coq Require Import Lia.
From PV Require Import Base.Bytes Model.Tag Model.TableTypes Model.Types Model.Proc Model.Enc Model.Dec Gen.Tables
     Proofs.LeafInt Proofs.LeafOidBits Proofs.LeafReal
     Proofs.ProcBind Proofs.RunLemmas Proofs.TagOctets Proofs.DecHeader Proofs.DecFrame Proofs.DecPrim
     Proofs.TagsetShape Proofs.Schemaless Proofs.RoundTrip1.
Local Open Scope N_scope.

(* ---------- the self-describing types of stage 1 ---------- *)

(* a simple base type with its own UNIVERSAL tag, under zero or more EXPLICIT tags of
   non-universal class; no IMPLICIT tag anywhere (an implicitly tagged value is not self-describing) *)
Fixpoint univ_explicit (T: ty) : bool :=
  match T with
  | TBool | TInt | TEnum | TBits | TOcts | TNull | TOid | TReal | TStr _ => true
  | TExp t x => negb (cls_eqb (tcls t) Univ) && univ_explicit x
  | _ => false
  end.

Lemma univ_explicit_wf T : univ_explicit T = true -> wf_tags T = true.
Proof.
  induction T as [| | | | | | | | n|fs IH|fs IH|t IH|t IH|alts IH| |tg x IH|tg x IH] using ty_ind';
    intros H; try reflexivity; try discriminate H.
  cbn [univ_explicit] in H. apply Bool.andb_true_iff in H. destruct H as [H1 H2].
  cbn [wf_tags]. rewrite H1, (IH H2). reflexivity.
Qed.

Lemma univ_explicit_prim T : univ_explicit T = true -> prim_base T = true.
Proof.
  unfold prim_base.
  induction T as [| | | | | | | | n|fs IH|fs IH|t IH|t IH|alts IH| |tg x IH|tg x IH] using ty_ind';
    intros H; try reflexivity; try discriminate H.
  cbn [univ_explicit] in H. apply Bool.andb_true_iff in H. destruct H as [_ H2].
  cbn [base_of]. exact (IH H2).
Qed.

(* the type object the schemaless decoder builds for an encoding of T: the prototype of the value
   decoder registered for the base tag (INTEGER for ENUMERATED) under the tags of T *)
Definition sl_proto (B: ty) : ty := match B with TEnum => TInt | _ => B end.
Definition sl_ty (T: ty) : ty := schemaless_ty (sl_proto (base_of T)) (tagset_of' T).

Lemma explicit_like_self t : explicit_like t -> mkTag (tcls t) true (tnum t) = t.
Proof. intros [Hc _]. destruct t as [c f n]. cbn in *. subst f. reflexivity. Qed.

(* tag set of a stage-1 type: the base type's universal primitive tag, then the explicit tags *)
Lemma univ_explicit_shape : forall T, univ_explicit T = true ->
  exists b0 r, tagset_of (base_of T) = Ok [b0] /\ tagset_of T = Ok (b0 :: r)
               /\ tcon b0 = false /\ tcls b0 = Univ /\ Forall explicit_like r.
Proof.
  induction T as [| | | | | | | | n|fs IH|fs IH|t IH|t IH|alts IH| |tg x IH|tg x IH] using ty_ind';
    intros H; try discriminate H;
    try (eexists; exists []; split; [reflexivity|split; [reflexivity|split; [reflexivity|split; [reflexivity|constructor]]]]).
  cbn [univ_explicit] in H. apply Bool.andb_true_iff in H. destruct H as [Hcl H2].
  destruct (IH H2) as (b0 & r & Hb & Hts & Hc0 & Hu & Hex).
  assert (Hnu: tcls tg <> Univ) by (destruct (tcls tg); try discriminate; cbn in Hcl; congruence).
  exists b0, (r ++ [mkTag (tcls tg) true (tnum tg)]).
  split; [exact Hb|]. split.
  - cbn [tagset_of]. rewrite Hts. cbn [bind]. unfold tag_explicitly. destruct (tcls tg); try reflexivity; congruence.
  - split; [exact Hc0|]. split; [exact Hu|]. apply Forall_app. split; [exact Hex|].
    constructor; [|constructor]. split; [reflexivity|exact Hnu].
Qed.

(* the explicit wrappers the schemaless decoder puts around the prototype reproduce the wire tags exactly *)
Lemma wrap_explicit_tags_exact : forall outer X ts0,
  Forall explicit_like outer -> tagset_of X = Ok ts0 ->
  tagset_of (wrap_explicit outer X) = Ok (ts0 ++ outer).
Proof.
  induction outer as [|t r IH]; intros X ts0 Hex HX; cbn [wrap_explicit].
  - rewrite app_nil_r. exact HX.
  - inversion Hex as [|? ? Ht Hr]; subst.
    assert (HE: tagset_of (TExp t X) = Ok (ts0 ++ [t])).
    { cbn [tagset_of]. rewrite HX. cbn [bind]. unfold tag_explicitly.
      rewrite (explicit_like_self t Ht). destruct Ht as [_ Hn]. destruct (tcls t); try reflexivity; congruence. }
    rewrite (IH (TExp t X) _ Hr HE). rewrite <- app_assoc. reflexivity.
Qed.

Lemma wrap_explicit_tags_one : forall outer X t,
  Forall explicit_like outer -> tagset_of X = Ok [t] ->
  tagset_of (wrap_explicit outer X) = Ok (t :: outer).
Proof. intros outer X t Hex HX. exact (wrap_explicit_tags_exact outer X [t] Hex HX). Qed.

Lemma base_of_wrap_explicit : forall outer X, base_of (wrap_explicit outer X) = base_of X.
Proof.
  induction outer as [|t r IH]; intros X; cbn [wrap_explicit]; [reflexivity|].
  rewrite IH. reflexivity.
Qed.

(* the object built without a schema: same tag set as the encoded type, and the expected base type *)
Theorem sl_ty_facts : forall T, univ_explicit T = true ->
  tagset_of (sl_ty T) = tagset_of T /\ base_of (sl_ty T) = sl_proto (base_of T).
Proof.
  intros T H. destruct (univ_explicit_shape T H) as (b0 & r & Hb & Hts & Hc0 & Hu & Hex).
  unfold sl_ty. rewrite (tagset_of'_ok T _ Hts). unfold schemaless_ty.
  pose proof (univ_explicit_prim T H) as Hp. unfold prim_base in Hp.
  destruct (base_of T) eqn:EB; try discriminate Hp; cbn [sl_proto];
    cbn [tagset_of] in Hb; inversion Hb; subst b0; clear Hb;
    cbn [tagset_of' tagset_of]; rewrite ?tag_eqb_refl.
  all: rewrite base_of_wrap_explicit; (split; [|reflexivity]); rewrite Hts.
  (* for ENUMERATED: the INTEGER prototype, re-tagged with the tag met on the wire *)
  all: apply wrap_explicit_tags_one; [exact Hex|reflexivity].
Qed.

(* ---------- framing without a guiding type ---------- *)

(* a non-universal tag is in no tag map entry: neither as the whole tag set nor as its first tag *)
Lemma by_tag_nonuniv c t acc0 : tcls t <> Univ -> by_tag c (t :: acc0) = None.
Proof.
  intros Hn. unfold by_tag. destruct acc0 as [|a l]; [|reflexivity].
  unfold key_of_univ_tag. destruct (tcls t); [congruence|reflexivity|reflexivity|reflexivity].
Qed.

(* one EXPLICIT tag level, no guiding type: no decoder is registered for the constructed
   non-universal tag, so it is taken for an explicit wrapper; the decoder re-enters with the tag
   accumulated and finally checks that exactly the announced number of octets was consumed *)
Lemma explicit_level_none : forall c f acc0 t si inner b v,
  frame_one t false true si inner = Ok b ->
  tcon t = true -> tcls t <> Univ ->
  (length (enc_tag t false) <= S f)%nat ->
  consumes (dec_call c f SNone (t :: acc0) None false false) inner v ->
  consumes (dec_call c (S f) SNone acc0 None false false) b v.
Proof.
  intros c f acc0 t si inner b v Hfr Hcon Hcls Hlen Hin s tl Hav.
  unfold frame_one in Hfr. cbn [negb andb] in Hfr.
  destruct (enc_len (N.of_nat (length inner)) false) as [l|e] eqn:El; cbn [bind] in Hfr; [|discriminate].
  inversion Hfr; subst b; clear Hfr. rewrite app_nil_r in Hav. rewrite <- !app_assoc in Hav.
  rewrite (dec_call_header c f SNone acc0 false t false _ l (inner ++ tl) s El Hav Hlen).
  rewrite wire_false.
  set (s1 := adv (setmark s (pos s)) (length (enc_tag t false) + length l)).
  assert (Hav1: avail s1 = inner ++ tl).
  { subst s1. rewrite avail_adv, avail_setmark, Hav. rewrite app_assoc.
    rewrite <- app_length. apply skipn_app_exact. }
  assert (Hp1: pos s1 = (pos s + (length (enc_tag t false) + length l))%nat) by reflexivity.
  assert (Ha1: arrived s1 = arrived s) by reflexivity.
  assert (Hc1: closed s1 = closed s) by reflexivity.
  clearbody s1.
  unfold dispatch. cbn [firstn]. rewrite (by_tag_nonuniv c t acc0 Hcls), (by_tag_nonuniv c t [] Hcls).
  rewrite Hcon. cbn [andb].
  assert (Hnu: negb (cls_eqb (tcls t) Univ) = true) by (destruct (tcls t); [congruence|reflexivity|reflexivity|reflexivity]).
  rewrite Hnu. rewrite resume_tell.
  unfold dec_raw.
  destruct (Hin s1 tl Hav1) as (s2 & Hrun & Hpos & Harr & Hcl).
  rewrite (resume_pbind_done _ _ _ _ _ Hrun). rewrite resume_tell.
  rewrite Hpos. rewrite (Nat.add_comm (pos s1)), Nat.add_sub.
  rewrite N.eqb_refl. cbn [resume].
  exists s2. split; [reflexivity|].
  rewrite !app_length. cbn [length]. repeat split; [lia|congruence|congruence].
Qed.

(* the innermost level: the value decoder registered for the first (base) tag is run on exactly
   the contents octets, whatever explicit tags were accumulated on the way *)
Lemma match_level_none : forall c f acc0 t0 cns si content b v cd fl,
  frame_one t0 cns true si content = Ok b ->
  by_tag c [wire t0 cns] = Some (cd, fl) ->
  (length (enc_tag t0 cns) <= S f)%nat ->
  consumes (dec_value (dec_call c f) f cd fl None (wire t0 cns :: acc0) (Some (N.of_nat (length content))) false) content v ->
  consumes (dec_call c (S f) SNone acc0 None false false) b v.
Proof.
  intros c f acc0 t0 cns si content b v cd fl Hfr Hby Hlen Hin s tl Hav.
  unfold frame_one in Hfr. cbn [negb andb] in Hfr.
  destruct (enc_len (N.of_nat (length content)) false) as [l|e] eqn:El; cbn [bind] in Hfr; [|discriminate].
  inversion Hfr; subst b; clear Hfr. rewrite app_nil_r in Hav. rewrite <- !app_assoc in Hav.
  rewrite (dec_call_header c f SNone acc0 false t0 cns _ l (content ++ tl) s El Hav Hlen).
  set (s1 := adv (setmark s (pos s)) (length (enc_tag t0 cns) + length l)).
  assert (Hav1: avail s1 = content ++ tl).
  { subst s1. rewrite avail_adv, avail_setmark, Hav. rewrite app_assoc.
    rewrite <- app_length. apply skipn_app_exact. }
  assert (Hp1: pos s1 = (pos s + (length (enc_tag t0 cns) + length l))%nat) by reflexivity.
  assert (Ha1: arrived s1 = arrived s) by reflexivity.
  assert (Hc1: closed s1 = closed s) by reflexivity.
  clearbody s1.
  destruct (Hin s1 tl Hav1) as (s2 & Hrun & Hpos & Harr & Hcl).
  unfold dispatch. cbn [firstn].
  destruct acc0 as [|a0 acc1].
  - rewrite Hby. rewrite resume_tell.
    rewrite (resume_pbind_done _ _ _ _ _ Hrun). rewrite resume_tell.
    rewrite Hpos. rewrite (Nat.add_comm (pos s1)), Nat.add_sub.
    rewrite N.eqb_refl. cbn [resume].
    exists s2. split; [reflexivity|].
    rewrite !app_length. cbn [length]. repeat split; [lia|congruence|congruence].
  - change (by_tag c (wire t0 cns :: a0 :: acc1)) with (@None (dec_codec * dec_flags)).
    rewrite Hby. rewrite resume_tell.
    rewrite (resume_pbind_done _ _ _ _ _ Hrun). rewrite resume_tell.
    rewrite Hpos. rewrite (Nat.add_comm (pos s1)), Nat.add_sub.
    rewrite N.eqb_refl. cbn [resume].
    exists s2. split; [reflexivity|].
    rewrite !app_length. cbn [length]. repeat split; [lia|congruence|congruence].
Qed.

(* all the EXPLICIT levels of a definite-length encoding, from the outermost inwards *)
Lemma peel_all_none : forall c f si r acc0 sub b v,
  frame_outer r false true si sub = Ok b ->
  Forall explicit_like r ->
  Forall (fun t => (length (enc_tag t false) <= S f)%nat) r ->
  consumes (dec_call c f SNone (r ++ acc0) None false false) sub v ->
  consumes (dec_call c (f + length r) SNone acc0 None false false) b v.
Proof.
  intros c f si r. induction r as [|tn r' IH] using rev_ind; intros acc0 sub b v Hfr Hex Hlen Hin.
  - cbn [frame_outer] in Hfr. inversion Hfr; subst. cbn [length app] in *. rewrite Nat.add_0_r. exact Hin.
  - rewrite frame_outer_snoc in Hfr.
    destruct (frame_outer r' false true si sub) as [inner|e] eqn:Ein; cbn [bind] in Hfr; [|discriminate].
    apply Forall_app in Hex. destruct Hex as [Hex' Hexn]. inversion Hexn as [|? ? [Hcon Hcls] _]; subst.
    apply Forall_app in Hlen. destruct Hlen as [Hlen' Hlenn]. inversion Hlenn as [|? ? Hl _]; subst.
    rewrite app_length in *. cbn [length] in *.
    replace (f + (length r' + 1))%nat with (S (f + length r')) by lia.
    apply (explicit_level_none c (f + length r') acc0 tn si inner b v Hfr Hcon Hcls); [lia|].
    apply (IH (tn :: acc0) sub inner v Ein Hex' Hlen').
    rewrite <- app_assoc in Hin. exact Hin.
Qed.

(* ---------- the value decoders, with or without a guiding type ---------- *)

(* the type of the object [create] builds *)
Definition cty (sp: option ty) (proto: ty) (ts: tagset) : ty :=
  match sp with Some T => T | None => schemaless_ty proto ts end.

Definition plain_base (T: ty) : Prop := match base_of T with TBool | TStr _ => False | _ => True end.

Lemma consumes_integer_g f sp proto ts content :
  tag0_simple ts = true -> fits f content -> plain_base (cty sp proto ts) ->
  consumes (dec_integer f sp proto ts (N.of_nat (length content))) content
           (DV (cty sp proto ts) (VInt (from_bytes_signed content))).
Proof.
  intros Hts Hfit Hb. unfold dec_integer. rewrite Hts. cbn [negb].
  apply consumes_ret; [exact Hfit|]. unfold create. fold (cty sp proto ts).
  unfold plain_base in Hb. destruct (base_of (cty sp proto ts)); try reflexivity; contradiction.
Qed.

Lemma consumes_boolean_g f sp proto ts content :
  tag0_simple ts = true -> fits f content -> base_of (cty sp proto ts) = TBool ->
  consumes (dec_integer f sp proto ts (N.of_nat (length content))) content
           (DV (cty sp proto ts) (VBool (negb (Z.eqb (from_bytes_signed content) 0)))).
Proof.
  intros Hts Hfit Hb. unfold dec_integer. rewrite Hts. cbn [negb].
  apply consumes_ret; [exact Hfit|]. unfold create. fold (cty sp proto ts). rewrite Hb. reflexivity.
Qed.

Lemma consumes_bool_cer_g f sp ts (b: bool) :
  base_of (cty sp TBool ts) = TBool ->
  consumes (dec_bool_cer f sp ts 1) [if b then 255 else 0] (DV (cty sp TBool ts) (VBool b)).
Proof.
  intros Hb s tl Hav. unfold dec_bool_cer. cbn [N.eqb Pos.eqb negb].
  change 1 with (N.of_nat (length [if b then 255 else 0])).
  rewrite (resume_read_len f [if b then 255 else 0] tl s _ Hav); [|vm_compute; discriminate|cbn; lia].
  destruct b; unfold create; fold (cty sp TBool ts); rewrite Hb; cbn [Z.eqb negb resume];
    (eexists; split; [reflexivity|]; repeat split).
Qed.

Lemma consumes_null_g f sp ts :
  tag0_simple ts = true -> plain_base (cty sp TNull ts) ->
  consumes (dec_null f sp ts 0) [] (DV (cty sp TNull ts) VNull).
Proof.
  intros Hts Hb. unfold dec_null. rewrite Hts. cbn [negb].
  change 0 with (N.of_nat (length (@nil N))).
  apply consumes_ret; [split; [vm_compute; discriminate|cbn; lia]|]. unfold create. fold (cty sp TNull ts).
  unfold plain_base in Hb. destruct (base_of (cty sp TNull ts)); try reflexivity; contradiction.
Qed.

Lemma consumes_octets_g rec f fl sp ts content sfun :
  tag0_simple ts = true -> fits f content -> base_of (cty sp TOcts ts) = TOcts ->
  consumes (dec_octets rec f TOcts fl sp ts (N.of_nat (length content)) sfun) content
           (DV (cty sp TOcts ts) (VOcts content)).
Proof.
  intros Hts Hfit Hb. unfold dec_octets. rewrite Hts.
  apply consumes_ret; [exact Hfit|]. unfold create. fold (cty sp TOcts ts). rewrite Hb. reflexivity.
Qed.

Lemma consumes_string_g rec f fl sp n ts content sfun :
  tag0_simple ts = true -> fits f content -> base_of (cty sp (TStr n) ts) = TStr n ->
  str_octets_ok n content = Some true ->
  consumes (dec_octets rec f (TStr n) fl sp ts (N.of_nat (length content)) sfun) content
           (DV (cty sp (TStr n) ts) (VOcts content)).
Proof.
  intros Hts Hfit Hb Hok. unfold dec_octets. rewrite Hts.
  apply consumes_ret; [exact Hfit|]. unfold create. fold (cty sp (TStr n) ts). rewrite Hb, Hok. reflexivity.
Qed.

Lemma consumes_oid_g f sp ts content arcs :
  tag0_simple ts = true -> fits f content -> base_of (cty sp TOid ts) = TOid -> dec_oid content = Ok arcs ->
  consumes (dec_oid_v f sp ts (N.of_nat (length content))) content (DV (cty sp TOid ts) (VOid arcs)).
Proof.
  intros Hts Hfit Hb Hd. unfold dec_oid_v. rewrite Hts. cbn [negb].
  apply (consumes_bind_lift f content arcs dec_oid); [exact Hfit|exact Hd|].
  unfold create. fold (cty sp TOid ts). rewrite Hb. reflexivity.
Qed.

Lemma consumes_real_g f sp ts content r :
  tag0_simple ts = true -> fits f content -> base_of (cty sp TReal ts) = TReal -> dec_real content = Ok r ->
  consumes (dec_real_v f sp ts (N.of_nat (length content))) content (DV (cty sp TReal ts) (VReal r)).
Proof.
  intros Hts Hfit Hb Hd. unfold dec_real_v. rewrite Hts. cbn [negb].
  apply (consumes_bind_lift f content r dec_real); [exact Hfit|exact Hd|].
  unfold create. fold (cty sp TReal ts). rewrite Hb. reflexivity.
Qed.

Lemma consumes_bits_g rec f fl sp ts (pad: N) (octs: bytes) bs :
  tag0_simple ts = true -> fits f (pad :: octs) -> base_of (cty sp TBits ts) = TBits ->
  pad <= 7 -> bits_of_octets octs pad = Ok bs ->
  consumes (dec_bits rec f fl sp ts (N.of_nat (length (pad :: octs))) false) (pad :: octs)
           (DV (cty sp TBits ts) (VBits bs)).
Proof.
  intros Hts [Hmax Hf] Hb Hpad Hd s tl Hav. unfold dec_bits.
  destruct (N.eqb_spec (N.of_nat (length (pad :: octs))) 0) as [E|_]; [cbn [length] in E; lia|].
  rewrite Hts.
  rewrite (resume_read1 s pad (octs ++ tl) _ Hav).
  destruct (N.ltb_spec 7 pad) as [Hc|_]; [lia|].
  replace (N.of_nat (length (pad :: octs)) - 1) with (N.of_nat (length octs)) by (cbn [length]; lia).
  assert (Hav1: avail (adv s 1) = octs ++ tl) by (apply (avail_cons_adv _ _ _ Hav)).
  cbn [length] in Hmax, Hf.
  rewrite (resume_read_len f octs tl (adv s 1) _ Hav1) by lia.
  rewrite Hd. cbn [lift pbind]. unfold create. fold (cty sp TBits ts). rewrite Hb. cbn [resume].
  exists (adv (adv s 1) (length octs)). rewrite adv_adv. cbn [length]. split; [reflexivity|].
  split; [rewrite pos_adv; lia|]. split; reflexivity.
Qed.

(* ---------- the leaves, decoded without a guiding type ---------- *)

(* the value decoder found by the first (base) tag turns the contents octets into vdec, inside
   the object type sl_ty T *)
Definition sl_dec (cd: codec) (T: ty) (content: bytes) (vdec: val) : Prop :=
  exists dcd dfl, by_tag cd (firstn 1 (tagset_of' T)) = Some (dcd, dfl)
    /\ forall f, fits f content ->
       consumes (dec_value (dec_call cd f) f dcd dfl None (tagset_of' T) (Some (N.of_nat (length content))) false)
                content (DV (sl_ty T) vdec).

Lemma ue_tags T : univ_explicit T = true ->
  exists b0, tagset_of (base_of T) = Ok [b0] /\ firstn 1 (tagset_of' T) = [b0] /\ tag0_simple (tagset_of' T) = true.
Proof.
  intros H. destruct (univ_explicit_shape T H) as (b0 & r & Hb & Hts & Hc0 & Hu & Hex).
  exists b0. rewrite (tagset_of'_ok T _ Hts). split; [exact Hb|]. split; [reflexivity|].
  unfold tag0_simple. rewrite Hc0. reflexivity.
Qed.

Lemma sl_ty_cty T proto : sl_proto (base_of T) = proto -> sl_ty T = cty None proto (tagset_of' T).
Proof. intros <-. reflexivity. Qed.

Lemma sl_int cd T z : univ_explicit T = true -> (base_of T = TInt \/ base_of T = TEnum) ->
  sl_dec cd T (enc_integer false z) (VInt z).
Proof.
  intros Hue Hb. destruct (ue_tags T Hue) as (b0 & Hb0 & Hf1 & Hsimple).
  destruct (sl_ty_facts T Hue) as [_ Hbase].
  unfold sl_dec. rewrite Hf1.
  destruct Hb as [Hb|Hb]; rewrite Hb in Hb0, Hbase; cbn [tagset_of] in Hb0; inversion Hb0; subst b0; clear Hb0;
    (eexists; eexists; split; [destruct cd; vm_compute; reflexivity|]);
    intros f Hfit; cbn [dec_value df_proto];
    rewrite (sl_ty_cty T TInt) in * by (rewrite Hb; reflexivity);
    replace (VInt z) with (VInt (from_bytes_signed (enc_integer false z)))
      by (rewrite (enc_integer_roundtrip_all false z); reflexivity);
    (apply consumes_integer_g; [exact Hsimple|exact Hfit|unfold plain_base; rewrite Hbase; exact I]).
Qed.

Lemma sl_bool ce cd T b : enc_ok ce -> univ_explicit T = true -> base_of T = TBool -> bool_compat ce cd b = true ->
  sl_dec cd T [bool_octet ce b] (VBool b).
Proof.
  intros Hce Hue Hb Hcompat. destruct (ue_tags T Hue) as (b0 & Hb0 & Hf1 & Hsimple).
  destruct (sl_ty_facts T Hue) as [_ Hbase].
  unfold sl_dec. rewrite Hf1. rewrite Hb in Hb0, Hbase. cbn [tagset_of] in Hb0. inversion Hb0; subst b0; clear Hb0.
  rewrite (sl_ty_cty T TBool) in * by (rewrite Hb; reflexivity). cbn [sl_proto] in Hbase.
  destruct cd.
  - eexists; eexists. split; [vm_compute; reflexivity|].
    intros f Hfit. cbn [dec_value df_proto].
    replace (VBool b) with (VBool (negb (Z.eqb (from_bytes_signed [bool_octet ce b]) 0)))
      by (destruct Hce as [-> | ->]; destruct b; reflexivity).
    apply consumes_boolean_g; assumption.
  - eexists; eexists. split; [vm_compute; reflexivity|].
    intros f Hfit. cbn [dec_value length].
    destruct Hce as [-> | ->]; [destruct b; [discriminate Hcompat|apply (consumes_bool_cer_g f None _ false Hbase)]|];
      apply (consumes_bool_cer_g f None _ b Hbase).
  - eexists; eexists. split; [vm_compute; reflexivity|].
    intros f Hfit. cbn [dec_value length].
    destruct Hce as [-> | ->]; [destruct b; [discriminate Hcompat|apply (consumes_bool_cer_g f None _ false Hbase)]|];
      apply (consumes_bool_cer_g f None _ b Hbase).
Qed.

Lemma sl_null cd T : univ_explicit T = true -> base_of T = TNull -> sl_dec cd T [] VNull.
Proof.
  intros Hue Hb. destruct (ue_tags T Hue) as (b0 & Hb0 & Hf1 & Hsimple).
  destruct (sl_ty_facts T Hue) as [_ Hbase].
  unfold sl_dec. rewrite Hf1. rewrite Hb in Hb0, Hbase. cbn [tagset_of] in Hb0. inversion Hb0; subst b0; clear Hb0.
  rewrite (sl_ty_cty T TNull) in * by (rewrite Hb; reflexivity). cbn [sl_proto] in Hbase.
  eexists; eexists. split; [destruct cd; vm_compute; reflexivity|].
  intros f Hfit. cbn [dec_value length].
  apply consumes_null_g; [exact Hsimple|unfold plain_base; rewrite Hbase; exact I].
Qed.

Lemma sl_octets cd T bs : univ_explicit T = true -> base_of T = TOcts -> sl_dec cd T bs (VOcts bs).
Proof.
  intros Hue Hb. destruct (ue_tags T Hue) as (b0 & Hb0 & Hf1 & Hsimple).
  destruct (sl_ty_facts T Hue) as [_ Hbase].
  unfold sl_dec. rewrite Hf1. rewrite Hb in Hb0, Hbase. cbn [tagset_of] in Hb0. inversion Hb0; subst b0; clear Hb0.
  rewrite (sl_ty_cty T TOcts) in * by (rewrite Hb; reflexivity). cbn [sl_proto] in Hbase.
  destruct cd; (eexists; eexists; split; [vm_compute; reflexivity|]);
    intros f Hfit; cbn [dec_value df_proto]; apply consumes_octets_g; assumption.
Qed.

Lemma sl_oid cd T arcs content : univ_explicit T = true -> base_of T = TOid -> enc_oid arcs = Ok content ->
  sl_dec cd T content (VOid arcs).
Proof.
  intros Hue Hb He. destruct (ue_tags T Hue) as (b0 & Hb0 & Hf1 & Hsimple).
  destruct (sl_ty_facts T Hue) as [_ Hbase].
  unfold sl_dec. rewrite Hf1. rewrite Hb in Hb0, Hbase. cbn [tagset_of] in Hb0. inversion Hb0; subst b0; clear Hb0.
  rewrite (sl_ty_cty T TOid) in * by (rewrite Hb; reflexivity). cbn [sl_proto] in Hbase.
  eexists; eexists. split; [destruct cd; vm_compute; reflexivity|].
  intros f Hfit. cbn [dec_value].
  apply consumes_oid_g; try assumption. exact (oid_roundtrip arcs content He).
Qed.

Lemma sl_real cd T content r' : univ_explicit T = true -> base_of T = TReal -> dec_real content = Ok r' ->
  sl_dec cd T content (VReal r').
Proof.
  intros Hue Hb Hd. destruct (ue_tags T Hue) as (b0 & Hb0 & Hf1 & Hsimple).
  destruct (sl_ty_facts T Hue) as [_ Hbase].
  unfold sl_dec. rewrite Hf1. rewrite Hb in Hb0, Hbase. cbn [tagset_of] in Hb0. inversion Hb0; subst b0; clear Hb0.
  rewrite (sl_ty_cty T TReal) in * by (rewrite Hb; reflexivity). cbn [sl_proto] in Hbase.
  eexists; eexists. split; [destruct cd; vm_compute; reflexivity|].
  intros f Hfit. cbn [dec_value].
  apply consumes_real_g; assumption.
Qed.

Lemma sl_bits cd T bs : univ_explicit T = true -> base_of T = TBits ->
  sl_dec cd T (enc_bits_prim bs) (VBits bs).
Proof.
  intros Hue Hb. destruct (ue_tags T Hue) as (b0 & Hb0 & Hf1 & Hsimple).
  destruct (sl_ty_facts T Hue) as [_ Hbase].
  unfold sl_dec. rewrite Hf1. rewrite Hb in Hb0, Hbase. cbn [tagset_of] in Hb0. inversion Hb0; subst b0; clear Hb0.
  rewrite (sl_ty_cty T TBits) in * by (rewrite Hb; reflexivity). cbn [sl_proto] in Hbase.
  destruct cd; (eexists; eexists; split; [vm_compute; reflexivity|]);
    intros f Hfit; cbn [dec_value]; unfold enc_bits_prim in *;
    (apply consumes_bits_g; try assumption; [pose proof (pad_of_lt (length bs)); lia|apply bits_roundtrip]).
Qed.

(* character and useful strings: the universal tag must be one the codec's tag map knows, with a
   prototype of that very string type *)
Definition sl_string (cd: codec) (n: N) : bool :=
  match by_tag cd [utag false n] with
  | Some (DcStr, fl) => match df_proto fl with Some (KStr m) => N.eqb m n | _ => false end
  | _ => false
  end.

Lemma sl_str cd T n bs : univ_explicit T = true -> base_of T = TStr n -> sl_string cd n = true ->
  str_octets_ok n bs = Some true -> sl_dec cd T bs (VOcts bs).
Proof.
  intros Hue Hb Hs Hok. destruct (ue_tags T Hue) as (b0 & Hb0 & Hf1 & Hsimple).
  destruct (sl_ty_facts T Hue) as [_ Hbase].
  unfold sl_dec. rewrite Hf1. rewrite Hb in Hb0, Hbase. cbn [tagset_of] in Hb0. inversion Hb0; subst b0; clear Hb0.
  rewrite (sl_ty_cty T (TStr n)) in * by (rewrite Hb; reflexivity). cbn [sl_proto] in Hbase.
  unfold sl_string in Hs.
  destruct (by_tag cd [utag false n]) as [[dcd dfl]|]; [|discriminate].
  destruct dcd; try discriminate.
  destruct (df_proto dfl) as [k|] eqn:Ep; [|discriminate]. destruct k; try discriminate.
  apply N.eqb_eq in Hs. subst n0.
  eexists; eexists. split; [reflexivity|].
  intros f Hfit. cbn [dec_value]. rewrite Ep.
  apply consumes_string_g; assumption.
Qed.

(* every string type registered in the decoder's type map is also registered, with its own
   prototype, under its universal tag in the tag map regenerated from /repo *)
Lemma known_string_sl ce cd n : known_string ce cd n = true -> sl_string cd n = true.
Proof.
  unfold known_string. intros H. apply Bool.andb_true_iff in H. destruct H as [_ H].
  destruct cd; unfold dec_type_map, lookup3 in H;
    [unfold ber_dec_type_map in H|unfold cer_dec_type_map in H|unfold der_dec_type_map in H];
    cbn [map assoc fst snd tkey_eqb] in H; revert H;
    repeat (match goal with |- context [N.eqb n ?k] =>
              destruct (N.eqb_spec n k) as [->|_]; [intros _; vm_compute; reflexivity|] end);
    intros H; discriminate H.
Qed.

(* every stage-1 value of a self-describing type: what the encoder writes as contents is what the
   tag-selected value decoder reads back, with the same abstract content *)
Lemma sl_stage1_leaf ce cd T v b : enc_ok ce -> univ_explicit T = true -> stage1_val ce cd T v = true ->
  encode ce true 0 T v = Ok b ->
  exists content vdec, leaf_ok ce cd T v content vdec /\ sl_dec cd T content vdec /\ abs (sl_ty T) vdec = abs T v.
Proof.
  unfold stage1_val. intros Hce Hue Hs He.
  destruct (sl_ty_facts T Hue) as [_ Hbase].
  assert (Habs0: forall w, abs (sl_ty T) w = abs (sl_proto (base_of T)) w) by (intros w; rewrite abs_wrappers, Hbase; reflexivity).
  assert (Hdef: def_codec ce) by (destruct Hce as [-> | ->]; reflexivity).
  assert (Hpb: forall ec fl, concrete_encoder ce T = Ok (ec, fl) -> exists cc, enc_content ce (base_of T) ec fl def_opts v = Ok cc).
  { intros ec fl Hc. unfold encode, enc, enc_with in He. change (mkOpts true 0 false) with def_opts in He.
    unfold def_codec in Hdef. rewrite Hdef, Hc in He. cbn [bind] in He.
    destruct (tagset_of T); cbn [bind] in He; [|discriminate].
    change (mkOpts (o_def def_opts) (o_chunk def_opts) false) with def_opts in He.
    rewrite enc_content_base in He. destruct (enc_content ce (base_of T) ec fl def_opts v) as [cc|]; [eauto|discriminate]. }
  rewrite (abs_wrappers T v).
  destruct (base_of T) eqn:Hb; destruct v as [bb|z|bs|bo|cs| |arcs|r|vfs|xs|i x|ab]; try discriminate;
    cbn [sl_proto] in Habs0.
  - exists [bool_octet ce bb], (VBool bb). split; [apply leaf_bool; assumption|]. split; [apply sl_bool; assumption|apply Habs0].
  - exists (enc_integer false z), (VInt z). split; [apply leaf_int; [assumption|left; exact Hb]|].
    split; [apply sl_int; [assumption|left; exact Hb]|apply Habs0].
  - exists (enc_integer false z), (VInt z). split; [apply leaf_int; [assumption|right; exact Hb]|].
    split; [apply sl_int; [assumption|right; exact Hb]|rewrite Habs0; reflexivity].
  - exists (enc_bits_prim bs), (VBits bs). split; [apply leaf_bits; assumption|]. split; [apply sl_bits; assumption|apply Habs0].
  - exists bo, (VOcts bo). split; [apply leaf_octets; assumption|]. split; [apply sl_octets; assumption|apply Habs0].
  - exists [], VNull. split; [apply leaf_null; assumption|]. split; [apply sl_null; assumption|apply Habs0].
  - (* OID: the encoder succeeded, so enc_oid did *)
    destruct (Hpb EcOid (mkEncFlags false false false None 0 0)) as [cc Hcc].
    { rewrite concrete_encoder_base, Hb. destruct Hce as [-> | ->]; vm_compute; reflexivity. }
    cbn [enc_content] in Hcc. destruct (enc_oid arcs) as [content|] eqn:Eo; cbn [bind] in Hcc; [|discriminate].
    exists content, (VOid arcs). split; [apply leaf_oid; assumption|].
    split; [apply (sl_oid cd T arcs content Hue Hb Eo)|apply Habs0].
  - (* REAL *)
    assert (Hr: exists content, enc_real r = Ok content).
    { destruct Hce as [-> | ->].
      - destruct (Hpb EcRealBer (mkEncFlags false false false (Some 2) 0 0)) as [cc Hcc].
        { rewrite concrete_encoder_base, Hb. vm_compute. reflexivity. }
        cbn [enc_content] in Hcc. destruct (enc_real r) as [content|]; cbn [bind] in Hcc; [eauto|discriminate].
      - destruct (Hpb EcRealCer (mkEncFlags false false false (Some 2) 0 0)) as [cc Hcc].
        { rewrite concrete_encoder_base, Hb. vm_compute. reflexivity. }
        cbn [enc_content] in Hcc. destruct (enc_real r) as [content|]; cbn [bind] in Hcc; [eauto|discriminate]. }
    destruct Hr as [content Er].
    destruct r as [| |m e|m e|]; try discriminate.
    + exists content, (VReal RPInf). destruct real_roundtrip_special as [[E1 D1] _].
      rewrite E1 in Er. inversion Er; subst.
      split; [apply (leaf_real ce cd T RPInf [64] RPInf Hce Hb E1 D1)|].
      split; [apply (sl_real cd T [64] RPInf Hue Hb D1)|apply Habs0].
    + exists content, (VReal RNInf). destruct real_roundtrip_special as [_ [[E1 D1] _]].
      rewrite E1 in Er. inversion Er; subst.
      split; [apply (leaf_real ce cd T RNInf [65] RNInf Hce Hb E1 D1)|].
      split; [apply (sl_real cd T [65] RNInf Hue Hb D1)|apply Habs0].
    + assert (Hm: m <> 0%Z) by (destruct (Z.eqb_spec m 0); [discriminate|assumption]).
      destruct (real_roundtrip_bin m e content Hm Er) as (r' & Hd & Habs).
      exists content, (VReal r'). split; [apply (leaf_real ce cd T _ content r' Hce Hb Er Hd)|].
      split; [apply (sl_real cd T content r' Hue Hb Hd)|].
      rewrite Habs0. cbn [abs]. rewrite Habs. reflexivity.
  - (* strings *)
    apply Bool.andb_true_iff in Hs. destruct Hs as [Hk Hok].
    destruct (str_octets_ok n bo) as [[|]|] eqn:Eok; try discriminate.
    pose proof (known_string_sl ce cd n Hk) as Hsl.
    unfold known_string in Hk. apply Bool.andb_true_iff in Hk. destruct Hk as [Hk1 Hk2].
    destruct (lookup3 (KStr n) (enc_type_map ce)) as [[ec ef]|] eqn:Ele; [|discriminate].
    destruct (lookup3 (KStr n) (dec_type_map cd)) as [[dc df]|] eqn:Eld; [|discriminate].
    destruct ec; try discriminate. destruct dc; try discriminate.
    exists bo, (VOcts bo). split; [apply (leaf_string ce cd T n bo ef df Hb Eok Ele Eld)|].
    split; [apply (sl_str cd T n bo Hue Hb Hsl Eok)|apply Habs0].
Qed.

(* ---------- the whole encoding ---------- *)

Lemma frame_outer_len : forall r si s0 b, frame_outer r false true si s0 = Ok b ->
  (length s0 + 2 * length r <= length b)%nat.
Proof.
  induction r as [|x r IH]; intros si s0 b He; cbn [frame_outer] in He.
  - inversion He; subst. cbn [length]. lia.
  - destruct (frame_one x false true si s0) as [s1|e] eqn:E1; cbn [bind] in He; [|discriminate].
    specialize (IH _ _ _ He). unfold frame_one in E1.
    destruct (enc_len (N.of_nat (length s0)) (negb true && si)) as [l|] eqn:El; cbn [bind] in E1; [|discriminate].
    inversion E1; subst. rewrite !app_length in IH. cbn [length].
    assert (H1: (1 <= length (enc_tag x false))%nat).
    { unfold enc_tag. destruct (N.ltb (tnum x) 31); cbn [length]; lia. }
    assert (H2: (1 <= length l)%nat).
    { cbn [negb andb] in El. unfold enc_len in El.
      destruct (N.ltb (N.of_nat (length s0)) 128); [inversion El; cbn [length]; lia|].
      destruct (Nat.ltb 126 (length (b256 (N.of_nat (length s0))))); [discriminate|]. inversion El. cbn [length]. lia. }
    lia.
Qed.

Lemma frame_outer_taglens : forall r si s0 b, frame_outer r false true si s0 = Ok b ->
  Forall (fun t => (length (enc_tag t false) <= length b)%nat) r.
Proof.
  induction r as [|x r IH]; intros si s0 b He; [constructor|].
  cbn [frame_outer] in He.
  destruct (frame_one x false true si s0) as [s1|e] eqn:E1; cbn [bind] in He; [|discriminate].
  constructor; [|exact (IH _ _ _ He)].
  pose proof (frame_outer_len r si s1 b He) as Hl.
  unfold frame_one in E1. destruct (enc_len (N.of_nat (length s0)) (negb true && si)); cbn [bind] in E1; [|discriminate].
  inversion E1; subst. rewrite !app_length in Hl. lia.
Qed.

Theorem sl_stage1_generic : forall ce cd T v content vdec b f0,
  def_codec ce -> univ_explicit T = true ->
  leaf_ok ce cd T v content vdec -> sl_dec cd T content vdec ->
  encode ce true 0 T v = Ok b ->
  fits f0 content -> (length b <= S f0)%nat ->
  consumes (dec_item cd (S f0 + (length (tagset_of' T) - 1)) None) b (DV (sl_ty T) vdec).
Proof.
  intros ce cd T v content vdec b f0 Hdef Hue [Henc _] Hdec He Hfit Hb.
  destruct (univ_explicit_shape T Hue) as (t0 & r & _ & Hts & Hc0 & Hu & Hex).
  destruct Henc as (ec & fl & Hce & Hcont). destruct Hdec as (dcd & dfl & Hby & Hval).
  unfold def_codec in Hdef. unfold encode, enc, enc_with in He. change (mkOpts true 0 false) with def_opts in He. rewrite Hdef in He.
  rewrite Hce in He. cbn [bind] in He.
  rewrite Hts in He. cbn [bind] in He. change (mkOpts (o_def def_opts) (o_chunk def_opts) false) with def_opts in He.
  rewrite Hcont in He. cbn [bind] in He.
  cbn [frame] in He. rewrite Bool.andb_false_r in He. cbn [andb o_def def_opts] in He.
  destruct (frame_one t0 false true (ef_indef fl) content) as [s0|e] eqn:E0; cbn [bind] in He; [|discriminate].
  rewrite (tagset_of'_ok T _ Hts) in *. replace (length (t0 :: r) - 1)%nat with (length r) by (cbn [length]; lia).
  cbn [firstn] in Hby.
  unfold dec_item.
  pose proof (frame_outer_len r _ s0 b He) as Hlen0.
  assert (Htaglens: Forall (fun t => (length (enc_tag t false) <= S (S f0))%nat) r).
  { pose proof (frame_outer_taglens r _ s0 b He) as Hl. revert Hl. apply Forall_impl. intros a Ha. lia. }
  apply (peel_all_none cd (S f0) (ef_indef fl) r [] s0 b (DV (sl_ty T) vdec) He Hex Htaglens).
  rewrite app_nil_r.
  apply (match_level_none cd f0 r t0 false (ef_indef fl) content s0 (DV (sl_ty T) vdec) dcd dfl E0).
  - rewrite wire_false. exact Hby.
  - unfold frame_one in E0. destruct (enc_len (N.of_nat (length content)) (negb true && ef_indef fl)); cbn [bind] in E0; [|discriminate].
    inversion E0; subst. rewrite !app_length in Hlen0. lia.
  - rewrite wire_false. apply Hval. exact Hfit.
Qed.

(* C16, stage 1.  With NO guiding type, the encoding of a stage-1 value of a self-describing type
   decodes to an object
     - of the type [sl_ty T]: the base type of T (INTEGER when it is ENUMERATED) under the tags of T,
     - whose tag set is exactly the tag set of T (the tags that were on the wire),
     - with the abstract content of the encoded value,
   leaving exactly the octets that followed the encoding. *)
Theorem schemaless_roundtrip_stage1_codecs : forall ce cd T v b tl,
  enc_ok ce -> univ_explicit T = true -> stage1_val ce cd T v = true ->
  encode ce true 0 T v = Ok b -> N.of_nat (length b) <= index_max ->
  exists T0 v', decode cd None (b ++ tl) = Ok (DV T0 v', tl)
    /\ T0 = sl_ty T
    /\ tagset_of T0 = tagset_of T
    /\ base_of T0 = sl_proto (base_of T)
    /\ abs T0 v' = abs T v.
Proof.
  intros ce cd T v b tl Hce Hue Hs He Hmax.
  assert (Hdef: def_codec ce) by (destruct Hce as [-> | ->]; reflexivity).
  destruct (sl_stage1_leaf ce cd T v b Hce Hue Hs He) as (content & vdec & Hleaf & Hsl & Habs).
  pose proof (univ_explicit_prim T Hue) as Hp. pose proof (univ_explicit_wf T Hue) as Hw.
  pose proof (content_le_encoding ce cd T v content vdec b Hdef Hp Hw Hleaf He) as Hcl.
  destruct (sl_ty_facts T Hue) as [Htags Hbase].
  exists (sl_ty T), vdec. split; [|split; [reflexivity|split; [exact Htags|split; [exact Hbase|exact Habs]]]].
  (* the number of explicit levels is bounded by the length of the encoding *)
  assert (Hr: (length (tagset_of' T) - 1 <= length b)%nat).
  { destruct (univ_explicit_shape T Hue) as (t0 & r & _ & Hts & _ & _ & _).
    destruct Hleaf as [(ec & fl & Hce' & Hcont) _].
    unfold encode, enc, enc_with in He. change (mkOpts true 0 false) with def_opts in He.
    unfold def_codec in Hdef. rewrite Hdef, Hce' in He. cbn [bind] in He.
    rewrite Hts in He. cbn [bind] in He.
    change (mkOpts (o_def def_opts) (o_chunk def_opts) false) with def_opts in He.
    rewrite Hcont in He. cbn [bind frame] in He. rewrite Bool.andb_false_r in He. cbn [andb o_def def_opts] in He.
    destruct (frame_one t0 false true (ef_indef fl) content) as [s0|e] eqn:E0; cbn [bind] in He; [|discriminate].
    pose proof (frame_outer_len r _ s0 b He) as Hl.
    rewrite (tagset_of'_ok T _ Hts). cbn [length]. lia. }
  unfold decode.
  set (fuel := dec_fuel None (b ++ tl)).
  set (k := (length (tagset_of' T) - 1)%nat) in *.
  assert (Hfuel: fuel = (S (fuel - 1 - k) + k)%nat).
  { subst fuel. unfold dec_fuel. rewrite app_length. lia. }
  assert (Hbig: (length b <= S (fuel - 1 - k))%nat).
  { subst fuel. unfold dec_fuel. rewrite app_length. lia. }
  assert (Hfit: fits (fuel - 1 - k) content) by (split; lia).
  pose proof (sl_stage1_generic ce cd T v content vdec b (fuel - 1 - k) Hdef Hue Hleaf Hsl He Hfit Hbig) as Hg.
  fold k in Hg. rewrite <- Hfuel in Hg.
  pose proof (consumes_decode_with cd fuel None b tl (DV (sl_ty T) vdec) Hg) as Hdw.
  unfold decode_with in Hdw. exact Hdw.
Qed.

(* the BER encoder read back by the BER decoder; the tag set as the model's total function *)
Corollary schemaless_roundtrip_stage1 : forall T v b tl,
  univ_explicit T = true -> stage1_val BER BER T v = true ->
  encode BER true 0 T v = Ok b -> N.of_nat (length b) <= index_max ->
  exists T0 v', decode BER None (b ++ tl) = Ok (DV T0 v', tl)
    /\ tagset_of' T0 = tagset_of' T
    /\ base_of T0 = sl_proto (base_of T)
    /\ abs T0 v' = abs T v.
Proof.
  intros T v b tl Hue Hs He Hmax.
  destruct (schemaless_roundtrip_stage1_codecs BER BER T v b tl (or_introl eq_refl) Hue Hs He Hmax)
    as (T0 & v' & Hd & _ & Hts & Hb & Ha).
  exists T0, v'. split; [exact Hd|]. split; [unfold tagset_of'; rewrite Hts; reflexivity|]. split; assumption.
Qed.

(* DER encodings of self-describing stage-1 values are read back the same way by all three decoders *)
Corollary schemaless_der_stage1 : forall cd T v b tl,
  univ_explicit T = true -> stage1_val DER cd T v = true ->
  encode DER true 0 T v = Ok b -> N.of_nat (length b) <= index_max ->
  exists T0 v', decode cd None (b ++ tl) = Ok (DV T0 v', tl)
    /\ tagset_of' T0 = tagset_of' T
    /\ base_of T0 = sl_proto (base_of T)
    /\ abs T0 v' = abs T v.
Proof.
  intros cd T v b tl Hue Hs He Hmax.
  destruct (schemaless_roundtrip_stage1_codecs DER cd T v b tl (or_intror eq_refl) Hue Hs He Hmax)
    as (T0 & v' & Hd & _ & Hts & Hb & Ha).
  exists T0, v'. split; [exact Hd|]. split; [unfold tagset_of'; rewrite Hts; reflexivity|]. split; assumption.
Qed.

(* ---------- when the guessed type IS the encoded type ---------- *)

(* explicit tags written in their canonical (constructed) form over a base type other than ENUMERATED *)
Fixpoint canon_explicit (T: ty) : bool :=
  match T with
  | TBool | TInt | TBits | TOcts | TNull | TOid | TReal | TStr _ => true
  | TExp t x => negb (cls_eqb (tcls t) Univ) && tcon t && canon_explicit x
  | _ => false
  end.

Lemma canon_univ_explicit T : canon_explicit T = true -> univ_explicit T = true.
Proof.
  induction T as [| | | | | | | | n|fs IH|fs IH|t IH|t IH|alts IH| |tg x IH|tg x IH] using ty_ind';
    intros H; try reflexivity; try discriminate H.
  cbn [canon_explicit] in H. apply Bool.andb_true_iff in H. destruct H as [H1 H2].
  apply Bool.andb_true_iff in H1. destruct H1 as [H0 H1].
  cbn [univ_explicit]. rewrite H0, (IH H2). reflexivity.
Qed.

Lemma wrap_explicit_snoc : forall r t X, wrap_explicit (r ++ [t]) X = TExp t (wrap_explicit r X).
Proof.
  induction r as [|a r IH]; intros t X; cbn [app wrap_explicit]; [reflexivity|]. apply IH.
Qed.

Theorem sl_ty_canon : forall T, canon_explicit T = true -> sl_ty T = T.
Proof.
  induction T as [| | | | | | | | n|fs IH|fs IH|t IH|t IH|alts IH| |tg x IH|tg x IH] using ty_ind';
    intros H; try discriminate H;
    try (unfold sl_ty; cbn [base_of sl_proto tagset_of' tagset_of schemaless_ty]; rewrite tag_eqb_refl; reflexivity).
  cbn [canon_explicit] in H. apply Bool.andb_true_iff in H. destruct H as [H1 H2].
  apply Bool.andb_true_iff in H1. destruct H1 as [H0 H1].
  specialize (IH H2).
  destruct (univ_explicit_shape x (canon_univ_explicit x H2)) as (b0 & r & Hb & Hts & _ & _ & _).
  assert (Htg: mkTag (tcls tg) true (tnum tg) = tg) by (destruct tg as [c f n]; cbn in *; subst f; reflexivity).
  assert (HtsT: tagset_of (TExp tg x) = Ok (b0 :: r ++ [tg])).
  { cbn [tagset_of]. rewrite Hts. cbn [bind]. unfold tag_explicitly. rewrite Htg.
    destruct (tcls tg); try reflexivity. discriminate H0. }
  unfold sl_ty in *. rewrite (tagset_of'_ok _ _ HtsT). rewrite (tagset_of'_ok _ _ Hts) in IH.
  cbn [base_of]. unfold schemaless_ty in *. rewrite wrap_explicit_snoc. rewrite IH. reflexivity.
Qed.

(* a self-describing encoding decodes, without a schema, to a value OF THE ENCODED TYPE *)
Corollary schemaless_roundtrip_stage1_same_type : forall ce cd T v b tl,
  enc_ok ce -> canon_explicit T = true -> stage1_val ce cd T v = true ->
  encode ce true 0 T v = Ok b -> N.of_nat (length b) <= index_max ->
  exists v', decode cd None (b ++ tl) = Ok (DV T v', tl) /\ abs T v' = abs T v.
Proof.
  intros ce cd T v b tl Hce Hc Hs He Hmax.
  destruct (schemaless_roundtrip_stage1_codecs ce cd T v b tl Hce (canon_univ_explicit T Hc) Hs He Hmax)
    as (T0 & v' & Hd & HT0 & _ & _ & Ha).
  rewrite (sl_ty_canon T Hc) in HT0. subst T0. exists v'. split; assumption.
Qed.

(* ---------- non-vacuity ---------- *)

Example schemaless_roundtrip_stage1_nonvacuous :
  let T := TExp (mkTag Appl false 2) (TExp (mkTag Ctx true 1) TEnum) in
  let v := VInt (-300) in
  let b := [98; 6; 161; 4; 10; 2; 254; 212] in
  univ_explicit T = true /\ stage1_val BER BER T v = true /\ encode BER true 0 T v = Ok b
  /\ N.of_nat (length b) <= index_max
  /\ decode BER None (b ++ [7; 7])
     = Ok (DV (TExp (mkTag Appl true 2) (TExp (mkTag Ctx true 1) (TImp (utag false 10) TInt))) v, [7; 7])
  /\ sl_ty T = TExp (mkTag Appl true 2) (TExp (mkTag Ctx true 1) (TImp (utag false 10) TInt)).
Proof. cbv zeta. repeat match goal with |- _ /\ _ => split end; vm_compute; try reflexivity; discriminate. Qed.

Example schemaless_same_type_nonvacuous :
  let T := TExp (mkTag Priv true 1000) (TExp (mkTag Ctx true 0) (TStr 12)) in
  let v := VOcts [104; 105] in
  canon_explicit T = true /\ stage1_val DER CER T v = true
  /\ encode DER true 0 T v = Ok [255; 135; 104; 6; 160; 4; 12; 2; 104; 105]
  /\ decode CER None [255; 135; 104; 6; 160; 4; 12; 2; 104; 105; 1] = Ok (DV T v, [1])
  /\ (let T2 := TExp (mkTag Ctx true 3) TReal in
      stage1_val BER DER T2 (VReal (RBin 10 0)) = true
      /\ exists b, encode BER true 0 T2 (VReal (RBin 10 0)) = Ok b
                   /\ decode DER None b = Ok (DV T2 (VReal (RBin 5 1)), [])).
Proof.
  cbv zeta. repeat match goal with |- _ /\ _ => split end;
    match goal with
    | |- exists _, _ => eexists; split; [vm_compute; reflexivity | vm_compute; reflexivity]   (* never normalise under a binder or over an open evar *)
    | |- _ => vm_compute; reflexivity
    end.
Qed.

(* what is NOT self-describing or not known to the tag map is refused: an IMPLICIT tag, a string
   type the codec has no decoder for *)
Example schemaless_refused :
  (exists b, encode BER true 0 (TImp (mkTag Ctx false 1) TInt) (VInt 5) = Ok b /\ decode BER None b = Err EMalformed)
  /\ (exists b, encode BER true 0 (TStr 13) (VOcts [65]) = Ok b /\ decode BER None b = Err EMalformed).
Proof. split; (eexists; split; [vm_compute; reflexivity | vm_compute; reflexivity]). Qed.

Print Assumptions schemaless_roundtrip_stage1_codecs.
Print Assumptions schemaless_roundtrip_stage1.
Print Assumptions schemaless_der_stage1.
Print Assumptions schemaless_roundtrip_stage1_same_type.
Print Assumptions sl_ty_facts.
Print Assumptions sl_ty_canon.
Print Assumptions schemaless_roundtrip_stage1_nonvacuous.
Print Assumptions schemaless_same_type_nonvacuous.

(* Round trip under every encoder mode for the whole type universe (C01/C02), part (d): CHOICE,
   untagged and tagged, in every mode.  New here: the untagged CHOICE whose alternative is written
   with an indefinite length (the CHOICE decoder re-enters the item decoder after the header with
   "length unknown"), and the CHOICE under an indefinite-length EXPLICIT tag (the decoder's loop
   reads the alternative where end-of-octets is allowed, then the closing 00 00). *)
From Coq Require Import Lia Permutation.
From PV Require Import Base.Bytes Model.Tag Model.TableTypes Model.Types Model.Proc Model.Enc Model.Dec Gen.Tables
     Proofs.ProcBind Proofs.RunLemmas Proofs.TagOctets Proofs.TagAlgebra Proofs.DecHeader Proofs.DecFrame Proofs.DecPrim
     Proofs.TagsetShape Proofs.Schemaless Proofs.RoundTrip1 Proofs.RoundTrip2 Proofs.TagReject Proofs.ContainerCodecSort
     Proofs.RoundTripModesA Proofs.RoundTripModesB Proofs.RoundTripModesC Proofs.RoundTripModesBag Proofs.RoundTripModes
     Proofs.RoundTrip3 Proofs.RoundTrip3a Proofs.RoundTrip3b Proofs.RoundTrip3c
     Proofs.RoundTripModes3a Proofs.RoundTripModes3b Proofs.RoundTripModes3c.
Local Open Scope N_scope.

Lemma choice_codecs_m ce cd T' alts : dec_ok cd -> base_of T' = TChoice alts ->
  (exists fl, concrete_encoder ce T' = Ok (EcChoice, fl) /\ ef_indef fl = true)
  /\ by_type cd T' = Some (DcChoice, mkDecFlags true (Some KChoice)).
Proof.
  intros Hcd Hb. split.
  - rewrite concrete_encoder_base, Hb. destruct ce; eexists; (split; [vm_compute; reflexivity|reflexivity]).
  - rewrite by_type_base, Hb. destruct Hcd as [-> | ->]; vm_compute; reflexivity.
Qed.

Lemma explicit_all_nz t0 r : Forall explicit_like (t0 :: r) -> tcls t0 <> Univ \/ tnum t0 <> 0.
Proof. intros H. inversion H as [|? ? [_ Hc] _]; subst. left. exact Hc. Qed.

Lemma frame_outer_len_m : forall r c d si sub b, frame_outer r c d si sub = Ok b ->
  (length sub + 2 * length r <= length b)%nat.
Proof.
  induction r as [|t r IH]; intros c d si sub b H; cbn [frame_outer] in H.
  - inversion H; subst. cbn [length]. lia.
  - destruct (frame_one t c d si sub) as [s1|e] eqn:E1; cbn [bind] in H; [|discriminate].
    specialize (IH _ _ _ _ _ H). destruct (frame_one_shape _ _ _ _ _ _ E1) as (l & e & -> & Hl).
    pose proof (enc_tag_nonempty t c). rewrite !app_length in IH. cbn [length]. lia.
Qed.

Lemma frame_modes_len_r t0 r content cns d k si b : frame (t0 :: r) content cns (mo d k) si = Ok b ->
  (length content + 2 + 2 * length r <= length b)%nat.
Proof.
  intros He. cbn [frame] in He. unfold mo in He. rewrite Bool.andb_false_r in He. cbn [o_def] in He.
  destruct (frame_one t0 cns (if cns then d else true) si content) as [s0|e] eqn:E0; cbn [bind] in He; [|discriminate].
  pose proof (frame_outer_len_m _ _ _ _ _ _ He) as Hl.
  destruct (frame_one_shape _ _ _ _ _ _ E0) as (l & e & -> & Hl0). pose proof (enc_tag_nonempty t0 cns).
  rewrite !app_length in Hl. lia.
Qed.

Section Modes3d.
  Variables ce cd : codec.
  Variable d : bool.
  Variable k : N.
  Hypothesis Hst : stable ce d k.
  Hypothesis Hcd : dec_ok cd.
  Variable R : aval -> aval -> Prop.
  Variable srt : bool.
  Hypothesis HR : rel_ok R srt.

  Notation encm := (encm ce d k).
  Notation val_ok_m := (val_ok_m ce cd d k R).
  Notation item_sty_m := (item_sty_m ce cd d k R).

  (* the untagged CHOICE: the value decoder is entered with the tags of the alternative already read *)
  Lemma choice_val_untagged_m (Pv: ty -> val -> Prop) alts :
    keys_ok (flat_map ckeys alts) = true ->
    Forall (fun a => forall x, Pv a x -> val_ok_m a x) alts ->
    forall i x a, nth_error alts i = Some a -> Pv a x -> val_ok_m (TChoice alts) (VChoice i x).
  Proof.
    intros HK IHa i x a En HPx b He Hmax.
    destruct (choice_codecs_m ce cd (TChoice alts) alts Hcd eq_refl) as [(fl & Hcenc & Hsi) Hby].
    destruct (RoundTripModesC.enc_with_inv_g ce _ d k _ b Hst He) as (ec & fl' & ts & content & cns & Hcenc' & Hts & Hcont & Hfr).
    rewrite Hcenc in Hcenc'. inversion Hcenc'; subst ec fl'; clear Hcenc'.
    cbn [tagset_of] in Hts. inversion Hts; subst ts; clear Hts.
    rewrite enc_content_choice, En in Hcont.
    change (encw ce a (mo d k) x) with (encm a x) in Hcont.
    destruct (encm a x) as [p|e] eqn:Ep; cbn [bind] in Hcont; [|discriminate].
    inversion Hcont; subst content cns; clear Hcont. cbn [frame] in Hfr. inversion Hfr; subst p; clear Hfr.
    rewrite Forall_forall in IHa. pose proof (IHa a (nth_error_In _ _ En) x HPx) as Hva.
    destruct (Hva b Ep Hmax) as (t0 & r & content & cns & si & x' & Hw & Hex & Hrd & Hnz & Hmode & Hfr & Hw' & HRx & dcd & dfl & Hbya & Hc).
    pose proof (depth_alt alts i a En) as Hda.
    pose proof (frame_modes_len_r _ _ _ _ _ _ _ _ Hfr) as Hlr.
    exists t0, r, content, cns, si, (VChoice i x').
    split; [rewrite wire_tags_choice, En; exact Hw|]. split; [exact Hex|]. split; [lia|]. split; [exact Hnz|].
    split; [exact Hmode|]. split; [exact Hfr|].
    split; [rewrite wire_tags_choice, En; exact Hw'|].
    split; [rewrite !abs_choice, En; apply (r_choice _ _ HR); exact HRx|].
    exists DcChoice, (mkDecFlags true (Some KChoice)). split; [exact Hby|].
    intros f Hf.
    assert (Hwne: wire_tags a x <> []) by (rewrite Hw; discriminate).
    assert (Hget: tm_get (fields_tagmap true alts) (wire t0 cns :: r) = Ok (Some a)).
    { rewrite (tm_get_eqb _ _ (t0 :: r) (wire_tagset_eqb t0 cns r)).
      apply (sib_hit true alts HK i a (t0 :: r) En). rewrite <- Hw. apply tm_mem_in, wire_in_ckeys. exact Hwne. }
    destruct f as [|f']; [lia|].
    specialize (Hc f' ltac:(lia)).
    pose proof (choice_place_ok (S f') (TChoice alts) alts i a x x' HK En Hwne ltac:(congruence) ltac:(lia)) as Hplace.
    unfold val_consumes in *. destruct (cns && negb d)%bool.
    - (* the alternative was written with an indefinite length *)
      cbn [dec_value base_of]. unfold dec_choice.
      assert (Htag: tagset_eqb (tagset_of' (TChoice alts)) (wire t0 cns :: r) = false) by reflexivity.
      rewrite Htag. cbn [choice_loop].
      intros s tl Hav.
      cbn [dec_call]. unfold dec_body. cbn [andb]. cbn [pbind resume].
      set (s0 := s).
      assert (Hav0: avail s0 = (content ++ [0; 0]) ++ tl) by exact Hav.
      unfold dispatch. rewrite Hget. cbn [lift pbind]. rewrite Hbya.
      destruct (Hc s0 tl Hav0) as (s1 & Hrun & Hpos & Harr & Hcl).
      rewrite (resume_pbind_done _ _ _ _ _ Hrun). rewrite Hplace.
      cbn [pbind resume]. exists s1. split; [reflexivity|]. repeat split; assumption.
    - cbn [dec_value base_of]. unfold dec_choice.
      assert (Htag: tagset_eqb (tagset_of' (TChoice alts)) (wire t0 cns :: r) = false) by reflexivity.
      rewrite Htag.
      intros s tl Hav.
      cbn [dec_call]. unfold dec_body. cbn [andb]. cbn [pbind resume].
      set (s0 := s).
      assert (Hav0: avail s0 = content ++ tl) by exact Hav.
      unfold dispatch. rewrite Hget. cbn [lift pbind]. rewrite Hbya.
      destruct (Hc s0 tl Hav0) as (s1 & Hrun & Hpos & Harr & Hcl).
      assert (Hinner: resume (let! p0 := tell in
                              let! v := dec_value (dec_call cd f') f' dcd dfl (Some a) (wire t0 cns :: r) (Some (N.of_nat (length content))) false in
                              let! p1 := tell in
                              if N.eqb (N.of_nat (p1 - p0)) (N.of_nat (length content)) then Ret v else Raise EMalformed) s0
                      = inr (Ok (DV a x'), s1)).
      { rewrite resume_tell. rewrite (resume_pbind_done _ _ _ _ _ Hrun). rewrite resume_tell.
        rewrite Hpos. rewrite (Nat.add_comm (pos s0)), Nat.add_sub. rewrite N.eqb_refl. reflexivity. }
      rewrite (resume_pbind_done _ _ _ _ _ Hinner). rewrite Hplace.
      cbn [resume]. exists s1. split; [reflexivity|]. repeat split; assumption.
  Qed.

  (* the tagged CHOICE: the contents are one complete encoding of an alternative, resolved by the tag map;
     under an indefinite-length tag the 00 00 follows it *)
  Lemma choice_val_tagged_m (Pv: ty -> val -> Prop) srt0 T' alts :
    base_of T' = TChoice alts -> is_wrapped T' = true -> stage3_ty srt0 ce T' = true ->
    keys_ok (flat_map ckeys alts) = true ->
    Forall (fun a => forall x, Pv a x -> val_ok_m a x) alts ->
    forall i x a, nth_error alts i = Some a -> Pv a x -> val_ok_m T' (VChoice i x).
  Proof.
    intros Hb Hwr Hty HK IHa i x a En HPx b He Hmax.
    assert (Hub: untagged_base T' = true) by (unfold untagged_base; rewrite Hb; reflexivity).
    destruct (tagset_shape_u srt0 ce T' Hty Hub Hwr) as (t0 & r & Hts & Hc0 & Hexall & Hd).
    pose proof (explicit_all_nz t0 r Hexall) as Hnz.
    inversion Hexall as [|? ? _ Hex]; subst.
    assert (Hnc: match T' with TChoice _ => False | _ => True end) by (destruct T'; try exact I; discriminate Hwr).
    destruct (choice_codecs_m ce cd T' alts Hcd Hb) as [(fl & Hcenc & Hsi) Hby].
    destruct (RoundTripModesC.enc_with_inv_g ce _ d k _ b Hst He) as (ec & fl' & ts & content & cns & Hcenc' & Hts' & Hcont & Hfr).
    rewrite Hcenc in Hcenc'. inversion Hcenc'; subst ec fl'; clear Hcenc'.
    rewrite Hts in Hts'. inversion Hts'; subst ts; clear Hts'.
    rewrite enc_content_base, Hb, enc_content_choice, En in Hcont.
    change (encw ce a (mo d k) x) with (encm a x) in Hcont.
    destruct (encm a x) as [p|e] eqn:Ep; cbn [bind] in Hcont; [|discriminate].
    inversion Hcont; subst content cns; clear Hcont. rewrite Hsi in Hfr.
    pose proof (frame_modes_len _ _ _ _ _ _ _ _ Hex Hfr) as Hlr.
    rewrite Forall_forall in IHa. pose proof (IHa a (nth_error_In _ _ En) x HPx) as Hva.
    destruct (item_of_val_m ce cd d k Hcd R a x p Hva Ep ltac:(lia)) as (x' & HRx & Hwx & Hwne & Hit).
    destruct (Hit _ (resolves_sib true alts i a x HK En Hwne)) as (Hpl & Hphd & Hcons).
    pose proof (depth_alt alts i a En) as Hda. rewrite Hb in Hd.
    exists t0, r, p, true, true, (VChoice i x').
    split; [rewrite (wire_tags_plain T' _ Hnc); apply tagset_of'_ok; exact Hts|].
    split; [exact Hex|]. split; [lia|]. split; [exact Hnz|]. split; [reflexivity|]. split; [exact Hfr|].
    split; [rewrite (wire_tags_plain T' _ Hnc); apply tagset_of'_ok; exact Hts|].
    split.
    { rewrite (abs_wrappers T' (VChoice i x')), (abs_wrappers T' (VChoice i x)), Hb, !abs_choice, En.
      apply (r_choice _ _ HR). exact HRx. }
    exists DcChoice, (mkDecFlags true (Some KChoice)). split; [exact Hby|].
    intros f Hf.
    assert (Hw1: wire t0 true = t0) by (apply wire_con; exact Hc0). rewrite Hw1.
    pose proof (choice_place_ok f T' alts i a x x' HK En Hwne Hwx ltac:(lia)) as Hplace.
    unfold val_consumes. destruct d; cbn [andb negb]; cbn [dec_value]; rewrite Hb; unfold dec_choice;
      rewrite (tagset_of'_ok T' _ Hts), tagset_eqb_refl.
    - intros s tl Hav.
      destruct (Hcons f false ltac:(unfold fuel_ok; lia) s tl Hav) as (s1 & Hrun & Hpos & Harr & Hcl).
      rewrite (resume_pbind_done _ _ _ _ _ Hrun). rewrite Hplace.
      cbn [resume]. exists s1. split; [reflexivity|]. repeat split; assumption.
    - intros s tl Hav. rewrite <- app_assoc in Hav.
      destruct f as [|[|f']]; try lia.
      cbn [choice_loop].
      destruct (Hcons (S (S f')) true ltac:(unfold fuel_ok; lia) s _ Hav) as (s1 & Hrun & Hpos & Harr & Hcl).
      rewrite (resume_pbind_done _ _ _ _ _ Hrun). rewrite Hplace. cbn [pbind].
      pose proof (consumes_avail p s _ s1 Hav Hpos Harr) as Hav1.
      rewrite (resume_pbind_done _ _ _ _ _ (eoo_read cd (S f') (SMap (fields_tagmap true alts)) [] None false s1 tl (dec_ok_indef cd Hcd) Hav1)).
      cbn [resume]. exists (adv s1 2). split; [reflexivity|].
      rewrite app_length, pos_adv, arrived_adv, closed_adv. cbn [length]. repeat split; [lia|congruence|congruence].
  Qed.
End Modes3d.

(* C03: the DER encoder's output is byte-identical to the distinguished encoding computed by the
   independent reference Spec/X690.v.

   1. identifier octets read back by the reference (split_ident (ident ...)), needed for 8.14.3 retag;
   2. framing: the model's frame / frame_one / frame_outer in definite mode write exactly the
      reference's nested TLVs over the type's tag set (ref_frame);
   3. tagging: the reference's treatment of IMPLICIT (retag) and EXPLICIT (constructed wrapper)
      computes ref_frame over the library's tagset_of (tag_implicitly / tag_explicitly);
   4. contents per base type; the theorems. *)
From Coq Require Import Lia.
From PV Require Import Base.Bytes Model.Tag Model.TableTypes Model.Types Model.Enc Gen.Tables Spec.X690
     Proofs.Bits Proofs.SpecOctets Proofs.LeafInt Proofs.LeafOidBits Proofs.LeafReal Proofs.TagAlgebra.
From PV Require Proofs.TagsetShape Proofs.RoundTrip1.
Local Open Scope N_scope.

(* ====================================================================== *)
(* 1. the reference reads back its own identifier octets                    *)
(* ====================================================================== *)

(* positional value of base-128 digits *)
Fixpoint val128 (acc: N) (ds: list N) : N :=
  match ds with [] => acc | d :: r => val128 (acc * 128 + d) r end.

Lemma val128_snoc l : forall acc d, val128 acc (l ++ [d]) = val128 acc l * 128 + d.
Proof. induction l as [|x l IH]; intros acc d; [reflexivity|]. cbn [app val128]. apply IH. Qed.

Lemma digits128_value : forall f n, (N.size_nat n <= f)%nat ->
  Forall (fun d => d < 128) (digits f 128 n) /\ val128 0 (digits f 128 n) = n.
Proof.
  induction f as [|f IH]; intros n Hf.
  - assert (n = 0) as -> by (apply size_nat_0; lia). cbn [digits val128]. split; [constructor; [lia|constructor]|reflexivity].
  - cbn [digits]. destruct (N.ltb_spec n 128) as [Hs|Hl].
    + cbn [val128]. split; [constructor; [exact Hs|constructor]|lia].
    + assert (Hn: n <> 0) by lia.
      pose proof (size_nat_div n 7 Hn eq_refl) as Hd. change (2 ^ 7) with 128 in Hd.
      destruct (IH (n / 128)) as [Hall Hval]; [lia|].
      split.
      * apply Forall_app. split; [exact Hall|]. constructor; [|constructor].
        apply N.mod_lt. lia.
      * rewrite val128_snoc, Hval. pose proof (N.div_mod n 128). lia.
Qed.

Lemma digits_of_128_value n : Forall (fun d => d < 128) (digits_of 128 n) /\ val128 0 (digits_of 128 n) = n.
Proof. unfold digits_of. apply digits128_value. lia. Qed.

Lemma mark_continuation_cons2 d e r : mark_continuation (d :: e :: r) = (128 + d) :: mark_continuation (e :: r).
Proof. reflexivity. Qed.

Lemma long_number_digits : forall ds fuel acc rest, ds <> [] -> Forall (fun d => d < 128) ds ->
  (length ds <= fuel)%nat ->
  long_number fuel acc (mark_continuation ds ++ rest) = Some (val128 acc ds, rest).
Proof.
  induction ds as [|d ds IH]; intros fuel acc rest Hne Hall Hf; [congruence|].
  inversion Hall as [|? ? Hd Hall']; subst.
  destruct fuel as [|fuel]; [cbn [length] in Hf; lia|].
  destruct ds as [|e ds'].
  - cbn [mark_continuation app long_number val128].
    destruct (N.ltb_spec d 128) as [_|Hc]; [reflexivity|lia].
  - rewrite mark_continuation_cons2. cbn [app long_number].
    destruct (N.ltb_spec (128 + d) 128) as [Hc|_]; [lia|].
    replace (128 + d - 128) with d by lia.
    change (val128 acc (d :: e :: ds')) with (val128 (acc * 128 + d) (e :: ds')).
    apply IH; [discriminate|exact Hall'|cbn [length] in *; lia].
Qed.

Lemma mark_continuation_length ds : length (mark_continuation ds) = length ds.
Proof.
  induction ds as [|d [|e r] IH]; [reflexivity|reflexivity|].
  rewrite mark_continuation_cons2. cbn [length] in *. rewrite IH. reflexivity.
Qed.

Lemma class_of_no_class_no c : class_of_no (class_no c) = c.
Proof. destruct c; reflexivity. Qed.

Lemma lead_fields (a b low: N) : b < 2 -> low < 32 ->
  (64 * a + 32 * b + low) / 64 = a /\ ((64 * a + 32 * b + low) / 32) mod 2 = b /\ (64 * a + 32 * b + low) mod 32 = low.
Proof.
  intros Hb Hl. repeat split.
  - symmetry. apply (N.div_unique _ 64 a (32 * b + low)); lia.
  - assert (E: (64 * a + 32 * b + low) / 32 = 2 * a + b).
    { symmetry. apply (N.div_unique _ 32 (2 * a + b) low); lia. }
    rewrite E. symmetry. apply (N.mod_unique _ 2 a b); lia.
  - symmetry. apply (N.mod_unique _ 32 (2 * a + b) low); lia.
Qed.

(* X.690 8.1.2 read back *)
Theorem split_ident_ident (c: tclass) (pc: bool) (n: N) (rest: bytes) :
  split_ident (ident c pc n ++ rest) = Some (c, pc, n, rest).
Proof.
  unfold ident.
  set (b := if pc then 1 else 0).
  assert (Hb: b < 2) by (subst b; destruct pc; lia).
  assert (Hlead: 64 * class_no c + (if pc then 32 else 0) = 64 * class_no c + 32 * b) by (subst b; destruct pc; lia).
  assert (Hpc: N.eqb b 1 = pc) by (subst b; destruct pc; reflexivity).
  rewrite Hlead.
  destruct (N.ltb_spec n 31) as [Hs|Hl].
  - cbn [app split_ident].
    destruct (lead_fields (class_no c) b n Hb) as (E1 & E2 & E3); [lia|].
    rewrite E1, E2, E3, class_of_no_class_no, Hpc.
    destruct (N.eqb_spec n 31) as [Hc|_]; [lia|reflexivity].
  - cbn [app split_ident].
    destruct (lead_fields (class_no c) b 31 Hb) as (E1 & E2 & E3); [lia|].
    rewrite E1, E2, E3, class_of_no_class_no, Hpc. cbn [N.eqb Pos.eqb].
    destruct (digits_of_128_value n) as [Hall Hval].
    rewrite (long_number_digits (digits_of 128 n) _ 0 rest).
    + rewrite Hval. reflexivity.
    + apply digits_nonempty.
    + exact Hall.
    + rewrite app_length, mark_continuation_length. lia.
Qed.

(* ====================================================================== *)
(* 2. framing: the model's definite-mode frame is the reference's nested TLV *)
(* ====================================================================== *)

Definition tlv_tag (t: tag) (c: bytes) : bytes := tlv (tcls t) (tcon t) (tnum t) c.

(* the reference's TLVs nested over a tag set, innermost tag first *)
Definition ref_frame (ts: tagset) (c: bytes) : bytes := fold_left (fun acc t => tlv_tag t acc) ts c.

Lemma ref_frame_snoc ts t c : ref_frame (ts ++ [t]) c = tlv_tag t (ref_frame ts c).
Proof. unfold ref_frame. rewrite fold_left_app. reflexivity. Qed.

Lemma ident_tag t : ident (tcls t) (tcon t) (tnum t) = enc_tag t false.
Proof. destruct t as [c f n]. apply ident_is_enc_tag. Qed.

(* the tag's own form bit already says what the encoder's [constructed] argument says *)
Definition form_agrees (ic: bool) (t: tag) : Prop := (tcon t || ic)%bool = tcon t.

Lemma enc_tag_form t ic : form_agrees ic t -> enc_tag t ic = enc_tag t false.
Proof. unfold form_agrees, enc_tag. intros H. rewrite H, Bool.orb_false_r. reflexivity. Qed.

Lemma form_agrees_prim t : form_agrees false t.
Proof. unfold form_agrees. apply Bool.orb_false_r. Qed.

Lemma frame_one_is_tlv t ic si sub s : form_agrees ic t ->
  frame_one t ic true si sub = Ok s -> s = tlv_tag t sub.
Proof.
  intros Hf. unfold frame_one. cbn [negb andb].
  destruct (enc_len (N.of_nat (length sub)) false) as [l|e] eqn:E; cbn [bind]; [|discriminate].
  intros H. apply (f_equal (fun x => match x with Ok a => a | Err _ => [] end)) in H. cbv beta iota in H. subst s.
  apply length_octets_is_enc_len in E.
  unfold tlv_tag, tlv. rewrite ident_tag, E, app_nil_r, (enc_tag_form t ic Hf). reflexivity.
Qed.

Lemma frame_outer_is_ref : forall r ic si s b, Forall (form_agrees ic) r ->
  frame_outer r ic true si s = Ok b -> b = ref_frame r s.
Proof.
  induction r as [|x r IH]; intros ic si s b Hall H; cbn [frame_outer] in H.
  - apply (f_equal (fun x => match x with Ok a => a | Err _ => [] end)) in H. symmetry. exact H.
  - inversion Hall as [|? ? Hx Hr]; subst.
    destruct (frame_one x ic true si s) as [s1|e] eqn:E1; cbn [bind] in H; [|discriminate].
    apply (frame_one_is_tlv x ic si s s1 Hx) in E1. subst s1.
    apply (IH ic si _ b Hr H).
Qed.

Theorem frame_is_ref ts content ic o si b :
  o_def o = true -> o_ifne o = false -> Forall (form_agrees ic) ts ->
  frame ts content ic o si = Ok b -> b = ref_frame ts content.
Proof.
  intros Hd Hi Hall H. destruct ts as [|t0 r]; cbn [frame] in H.
  - apply (f_equal (fun x => match x with Ok a => a | Err _ => [] end)) in H. symmetry. exact H.
  - rewrite Hi, Bool.andb_false_r, Hd in H.
    replace (if ic then true else true) with true in H by (destruct ic; reflexivity).
    inversion Hall as [|? ? H0 Hr]; subst.
    destruct (frame_one t0 ic true si content) as [s0|e] eqn:E0; cbn [bind] in H; [|discriminate].
    apply (frame_one_is_tlv t0 ic si content s0 H0) in E0. subst s0.
    apply (frame_outer_is_ref r ic si _ b Hr H).
Qed.

(* --- and the framing never fails on encodings of representable length --- *)

Lemma digits256_length : forall f (k: nat) n, (1 <= k)%nat -> n < 256 ^ N.of_nat k -> (length (digits f 256 n) <= k)%nat.
Proof.
  induction f as [|f IH]; intros k n Hk Hn; cbn [digits]; [cbn [length]; lia|].
  destruct (N.ltb_spec n 256) as [Hs|Hl]; [cbn [length]; lia|].
  destruct k as [|k]; [lia|].
  rewrite pow256_succ in Hn.
  assert (Hq: n / 256 < 256 ^ N.of_nat k) by (apply N.div_lt_upper_bound; lia).
  destruct k as [|k].
  { change (256 ^ N.of_nat 0) with 1 in Hq. assert (n / 256 = 0) as Hz by lia. apply N.div_small_iff in Hz; lia. }
  rewrite app_length. cbn [length]. specialize (IH (S k) (n / 256)). lia.
Qed.

Definition max_len : N := 256 ^ 126.

Lemma enc_len_total n : n < max_len -> exists l, enc_len n false = Ok l.
Proof.
  intros Hn. unfold enc_len. destruct (N.ltb_spec n 128) as [Hs|Hl]; [eexists; reflexivity|].
  rewrite <- digits_of_256_is_b256 by lia.
  pose proof (digits256_length (N.size_nat n) 126 n) as Hlen.
  unfold digits_of.
  destruct (Nat.ltb_spec 126 (length (digits (N.size_nat n) 256 n))) as [Hc|_]; [|eexists; reflexivity].
  assert (length (digits (N.size_nat n) 256 n) <= 126)%nat; [|lia].
  apply Hlen; [lia|]. exact Hn.
Qed.

Lemma tlv_tag_length t c : (length c <= length (tlv_tag t c))%nat.
Proof. unfold tlv_tag, tlv. rewrite !app_length. lia. Qed.

Lemma ref_frame_length : forall ts c, (length c <= length (ref_frame ts c))%nat.
Proof.
  induction ts as [|t ts IH]; intros c; [cbn; lia|].
  change (ref_frame (t :: ts) c) with (ref_frame ts (tlv_tag t c)).
  pose proof (IH (tlv_tag t c)). pose proof (tlv_tag_length t c). lia.
Qed.

Lemma frame_one_total t ic si sub : form_agrees ic t -> N.of_nat (length sub) < max_len ->
  frame_one t ic true si sub = Ok (tlv_tag t sub).
Proof.
  intros Hf Hn. destruct (enc_len_total _ Hn) as [l El].
  assert (E: frame_one t ic true si sub = Ok (enc_tag t ic ++ l ++ sub ++ [])).
  { unfold frame_one. cbn [negb andb]. rewrite El. reflexivity. }
  rewrite E. f_equal. apply (frame_one_is_tlv t ic si sub _ Hf E).
Qed.

Lemma frame_outer_total : forall r ic si s, Forall (form_agrees ic) r ->
  N.of_nat (length (ref_frame r s)) < max_len -> frame_outer r ic true si s = Ok (ref_frame r s).
Proof.
  induction r as [|x r IH]; intros ic si s Hall Hn; [reflexivity|].
  inversion Hall as [|? ? Hx Hr]; subst.
  change (ref_frame (x :: r) s) with (ref_frame r (tlv_tag x s)) in *.
  cbn [frame_outer]. rewrite (frame_one_total x ic si s Hx).
  - cbn [bind]. apply IH; assumption.
  - pose proof (ref_frame_length r (tlv_tag x s)). pose proof (tlv_tag_length x s). lia.
Qed.

Theorem frame_total ts content ic o si :
  o_def o = true -> o_ifne o = false -> Forall (form_agrees ic) ts ->
  N.of_nat (length (ref_frame ts content)) < max_len ->
  frame ts content ic o si = Ok (ref_frame ts content).
Proof.
  intros Hd Hi Hall Hn. destruct ts as [|t0 r]; [reflexivity|].
  cbn [frame]. rewrite Hi, Bool.andb_false_r, Hd.
  replace (if ic then true else true) with true by (destruct ic; reflexivity).
  inversion Hall as [|? ? H0 Hr]; subst.
  change (ref_frame (t0 :: r) content) with (ref_frame r (tlv_tag t0 content)) in *.
  rewrite (frame_one_total t0 ic si content H0).
  - cbn [bind]. apply frame_outer_total; assumption.
  - pose proof (ref_frame_length r (tlv_tag t0 content)). pose proof (tlv_tag_length t0 content). lia.
Qed.

(* ====================================================================== *)
(* 3. tagging: IMPLICIT = retag, EXPLICIT = constructed wrapper             *)
(* ====================================================================== *)

Lemma canon_imp cer t x v : canon cer (TImp t x) v = opt_bind (canon cer x v) (retag t).
Proof. destruct v; reflexivity. Qed.

Lemma canon_exp cer t x v :
  canon cer (TExp t x) v = match tcls t with
                           | Univ => None
                           | _ => opt_bind (canon cer x v) (fun e => Some (ctlv cer (tcls t) (tnum t) e))
                           end.
Proof. destruct v; reflexivity. Qed.

(* CHOICE and ANY have no tag of their own *)
Definition untagged (T: ty) : bool := match base_of T with TChoice _ | TAny => true | _ => false end.

Lemma tag_implicitly_nonempty ts t : tag_implicitly ts t <> [].
Proof.
  unfold tag_implicitly. destruct (rev ts) as [|l r]; [discriminate|].
  intros H. apply app_eq_nil in H. destruct H as [_ H]. discriminate H.
Qed.

Lemma tagset_nonempty : forall T ts, untagged T = false -> tagset_of T = Ok ts -> ts <> [].
Proof.
  intros T. destruct T; intros ts Hu Hts; try discriminate Hu; cbn [tagset_of] in Hts;
    try (injection Hts as <-; discriminate).
  - destruct (tagset_of T) as [ts'|]; cbn [bind] in Hts; [|discriminate]. injection Hts as <-. apply tag_implicitly_nonempty.
  - destruct (tagset_of T) as [ts'|]; cbn [bind] in Hts; [|discriminate].
    unfold tag_explicitly in Hts. destruct (tcls t); try discriminate; injection Hts as <-;
      intros H; apply app_eq_nil in H; destruct H as [_ H]; discriminate H.
Qed.

(* 8.14.3 on a TLV: the identifier is replaced, P/C kept *)
Lemma retag_tlv_tag t last e : retag t (tlv_tag last e) = Some (tlv_tag (mkTag (tcls t) (tcon last) (tnum t)) e).
Proof. unfold retag, tlv_tag, tlv. rewrite split_ident_ident. reflexivity. Qed.

(* the reference on a tagged type = the reference on the base type, re-framed over the library's tag set *)
Theorem canon_wrappers : forall T v c, untagged T = false ->
  (exists tsb, tagset_of (base_of T) = Ok tsb /\ canon false (base_of T) v = Some (ref_frame tsb c)) ->
  forall ts, tagset_of T = Ok ts -> canon false T v = Some (ref_frame ts c).
Proof.
  induction T as [| | | | | | | | n|fs IH|fs IH|t IH|t IH|alts IH| |tg x IH|tg x IH] using ty_ind';
    intros v c Hu Hb ts Hts;
    try (destruct Hb as (tsb & H1 & H2); cbn [base_of] in H1, H2; rewrite H1 in Hts; injection Hts as <-; exact H2).
  - (* IMPLICIT *)
    cbn [tagset_of] in Hts. destruct (tagset_of x) as [ts'|] eqn:Ex; cbn [bind] in Hts; [|discriminate].
    injection Hts as <-.
    pose proof (tagset_nonempty x ts' Hu Ex) as Hne.
    rewrite canon_imp, (IH v c Hu Hb ts' eq_refl).
    destruct (exists_last Hne) as (ts0 & last & ->).
    rewrite tag_implicitly_spec, !ref_frame_snoc. cbn [opt_bind]. apply retag_tlv_tag.
  - (* EXPLICIT *)
    cbn [tagset_of] in Hts. destruct (tagset_of x) as [ts'|] eqn:Ex; cbn [bind] in Hts; [|discriminate].
    pose proof (tag_explicitly_spec ts' tg) as Hsp. rewrite Hts in Hsp. destruct Hsp as [Hnu ->].
    rewrite canon_exp, (IH v c Hu Hb ts' eq_refl), ref_frame_snoc. cbn [opt_bind ctlv].
    destruct (tcls tg); [congruence|reflexivity|reflexivity|reflexivity].
Qed.

Theorem canon_wrappers_none : forall T v, canon false (base_of T) v = None -> canon false T v = None.
Proof.
  induction T as [| | | | | | | | n|fs IH|fs IH|t IH|t IH|alts IH| |tg x IH|tg x IH] using ty_ind';
    intros v Hb; try exact Hb.
  - rewrite canon_imp, (IH v Hb). reflexivity.
  - rewrite canon_exp, (IH v Hb). destruct (tcls tg); reflexivity.
Qed.

(* EXPLICIT UNIVERSAL is refused by both sides *)
Theorem canon_tagset_err : forall T v e, tagset_of T = Err e -> canon false T v = None.
Proof.
  induction T as [| | | | | | | | n|fs IH|fs IH|t IH|t IH|alts IH| |tg x IH|tg x IH] using ty_ind';
    intros v e Hts; try discriminate Hts.
  - cbn [tagset_of] in Hts. destruct (tagset_of x) as [ts'|e'] eqn:Ex; cbn [bind] in Hts; [discriminate|].
    rewrite canon_imp, (IH v e' eq_refl). reflexivity.
  - cbn [tagset_of] in Hts. rewrite canon_exp. destruct (tagset_of x) as [ts'|e'] eqn:Ex; cbn [bind] in Hts.
    + pose proof (tag_explicitly_spec ts' tg) as Hsp. rewrite Hts in Hsp. destruct Hsp as [-> _]. reflexivity.
    + rewrite (IH v e' eq_refl). destruct (tcls tg); reflexivity.
Qed.

(* ====================================================================== *)
(* 4. contents of the simple types                                         *)
(* ====================================================================== *)

Definition def_opts : eopts := mkOpts true 0 false.

(* what encode DER amounts to: DER's fixed options are definite lengths, no segmentation *)
Lemma encode_der_unfold T v :
  encode DER true 0 T v =
  (do ce <- concrete_encoder DER T;
   do ts <- tagset_of T;
   do cc <- enc_content DER T (fst ce) (snd ce) def_opts v;
   frame ts (fst cc) (snd cc) def_opts (ef_indef (snd ce))).
Proof.
  unfold encode, enc, enc_with. change (fix_opts DER (mkOpts true 0 false)) with def_opts.
  destruct (concrete_encoder DER T) as [[cd fl]|]; cbn [bind fst snd]; [|reflexivity].
  destruct (tagset_of T) as [ts|]; cbn [bind]; [|reflexivity].
  change (mkOpts (o_def def_opts) (o_chunk def_opts) false) with def_opts.
  destruct (enc_content DER T cd fl def_opts v) as [[content ic]|]; reflexivity.
Qed.

Lemma enc_content_base : forall c T cd fl o v, enc_content c T cd fl o v = enc_content c (base_of T) cd fl o v.
Proof.
  induction T as [| | | | | | | | n|fs IH|fs IH|t IH|t IH|alts IH| |tg x IH|tg x IH] using ty_ind'; intros; try reflexivity.
  - cbn [base_of enc_content]. apply IH.
  - cbn [base_of enc_content]. apply IH.
Qed.

Lemma base_of_idem T : base_of (base_of T) = base_of T.
Proof. induction T as [| | | | | | | | n|fs IH|fs IH|t IH|t IH|alts IH| |tg x IH|tg x IH] using ty_ind'; try reflexivity; exact IH. Qed.

Lemma concrete_encoder_base c T : concrete_encoder c T = concrete_encoder c (base_of T).
Proof. unfold concrete_encoder, tag_fallback_key, key_of. rewrite base_of_idem. reflexivity. Qed.

(* the universal tag of a simple type *)
Definition base_tag (B: ty) : tag :=
  match B with
  | TBool => utag false 1 | TInt => utag false 2 | TBits => utag false 3 | TOcts => utag false 4
  | TNull => utag false 5 | TOid => utag false 6 | TReal => utag false 9 | TEnum => utag false 10
  | TStr n => utag false n
  | _ => utag false 0
  end.

Definition simple_base (B: ty) : bool :=
  match B with TBool | TInt | TEnum | TBits | TOcts | TNull | TOid | TReal | TStr _ => true | _ => false end.

(* the reference's contents octets (clauses 8.2-8.23, 11.2, 11.3), before any framing *)
Definition ref_contents (B: ty) (v: val) : option bytes :=
  match B, v with
  | TBool, VBool b => Some [if b then 255 else 0]
  | (TInt | TEnum), VInt z => Some (int_contents z)
  | TBits, VBits bs => Some (bitstring_contents bs)
  | TOcts, VOcts b => Some b
  | TNull, VNull => Some []
  | TOid, VOid a => oid_contents a
  | TReal, VReal r => real_contents r
  | TStr n, _ => string_octets v
  | _, _ => None
  end.

Lemma canon_simple B v : simple_base B = true ->
  tagset_of B = Ok [base_tag B] /\
  canon false B v = match ref_contents B v with Some c => Some (ref_frame [base_tag B] c) | None => None end.
Proof.
  intros Hs. destruct B; try discriminate Hs; (split; [reflexivity|]); destruct v; reflexivity.
Qed.

(* ---- the model's side ---- *)

(* the values of a simple type on which the reference is defined the way the library is:
   REAL in decimal form is outside the reference (only a zero mantissa, empty contents, is common) *)
Definition der_ref_base (B: ty) (v: val) : bool :=
  match B, v with
  | TBool, VBool _ | (TInt | TEnum), VInt _ | TNull, VNull | TOcts, VOcts _ | TBits, VBits _ | TOid, VOid _ => true
  | TReal, VReal (RBin _ _ | RPInf | RNInf | RFloat) => true
  | TReal, VReal (RDec m _) => Z.eqb m 0
  | TStr _, (VOcts _ | VChars _) => true
  | _, _ => false
  end.
Definition der_ref_val (T: ty) (v: val) : bool := der_ref_base (base_of T) v.

Lemma lookup3_in {B C} (k: tkey) (l: list (tkey * B * C)) b c :
  lookup3 k l = Some (b, c) -> exists k', tkey_eqb k k' = true /\ In (k', b, c) l.
Proof.
  unfold lookup3. induction l as [|[[k' b'] c'] l IH]; cbn [map assoc fst snd]; [discriminate|].
  destruct (tkey_eqb k k') eqn:E.
  - intros H. injection H as <- <-. exists k'. split; [exact E|left; reflexivity].
  - intros H. destruct (IH H) as (k2 & H1 & H2). exists k2. split; [exact H1|right; exact H2].
Qed.

(* character and useful string types: plain octets, except the two time types *)
Lemma der_string_encoder n cd fl : concrete_encoder DER (TStr n) = Ok (cd, fl) ->
  cd = EcOcts \/ ((cd = EcUtcTime \/ cd = EcGenTime) /\ ef_max_len fl <= 20 /\ (n = 23 \/ n = 24)).
Proof.
  unfold concrete_encoder. cbn [key_of base_of tag_fallback_key enc_type_map enc_tag_map].
  destruct (lookup3 (KStr n) der_enc_type_map) as [[cd' fl']|] eqn:E.
  - intros H. injection H as <- <-.
    destruct (lookup3_in _ _ _ _ E) as (k' & Hk & Hin).
    unfold der_enc_type_map in Hin. cbn [In] in Hin.
    repeat (destruct Hin as [Hin|Hin];
            [injection Hin as <- <- <-;
             first [discriminate Hk | left; reflexivity
                   | right; cbn [tkey_eqb] in Hk; apply N.eqb_eq in Hk; split; [auto|split; [cbn [ef_max_len]; lia|auto]]]|]).
    contradiction.
  - assert (Ek: lookup3 KOcts der_enc_tag_map = Some (EcOcts, mkEncFlags true false false None 0 0)) by (vm_compute; reflexivity).
    rewrite Ek. intros H. injection H as <- <-. left; reflexivity.
Qed.

Lemma der_string_encoder_total n : exists cd fl, concrete_encoder DER (TStr n) = Ok (cd, fl).
Proof.
  unfold concrete_encoder. cbn [key_of base_of tag_fallback_key enc_type_map enc_tag_map].
  destruct (lookup3 (KStr n) der_enc_type_map) as [[cd' fl']|]; [eexists; eexists; reflexivity|].
  assert (Ek: lookup3 KOcts der_enc_tag_map = Some (EcOcts, mkEncFlags true false false None 0 0)) by (vm_compute; reflexivity).
  rewrite Ek. eexists; eexists; reflexivity.
Qed.

Lemma time_guard_len fl b : time_guard fl b = Ok tt -> N.of_nat (length b) < ef_max_len fl.
Proof.
  unfold time_guard. destruct (existsb (fun x => N.eqb x 43 || N.eqb x 45) b); [discriminate|].
  generalize (rev b) as rb. intros rb H.
  destruct rb as [|x l]; [discriminate H|]. destruct x as [|p]; [discriminate H|].
  do 7 (destruct p as [p|p|]; try discriminate H).
  destruct (existsb (N.eqb 44) b); [discriminate H|]. destruct (existsb (N.eqb 46) b); [discriminate H|].
  destruct (N.ltb_spec (N.of_nat (length b)) (ef_max_len fl)) as [Hlt|]; [exact Hlt|].
  rewrite Bool.andb_false_r in H. discriminate H.
Qed.

Lemma octets_like_plain v b : octets_of v = Some b -> enc_octets_like def_opts v = Ok (b, false).
Proof. intros H. unfold enc_octets_like. rewrite H. reflexivity. Qed.

Lemma octets_like_1000 v b : octets_of v = Some b -> N.of_nat (length b) <= 1000 ->
  enc_octets_like (mkOpts true 1000 false) v = Ok (b, false).
Proof.
  intros H Hl. unfold enc_octets_like. rewrite H. cbn [o_chunk].
  destruct (Nat.leb_spec (length b) (N.to_nat 1000)) as [_|Hc]; [rewrite Bool.orb_true_r; reflexivity|lia].
Qed.

Ltac encoder_is Hce :=
  match type of Hce with
  | ?lhs = Ok _ => let r := fresh "r" in let Er := fresh "Er" in
                   remember lhs as r eqn:Er; vm_compute in Er; subst r; injection Hce as <- <-
  end.

(* contents: whenever the library's DER encodeValue answers, it answers the reference's contents octets *)
Theorem der_contents_sound B v cd fl content ic :
  der_ref_base B v = true -> concrete_encoder DER B = Ok (cd, fl) ->
  enc_content DER B cd fl def_opts v = Ok (content, ic) ->
  ic = false /\ ref_contents B v = Some content.
Proof.
  intros Hd Hce He.
  destruct B; try discriminate Hd; destruct v as [bb|z|bs|bo|cs| |arcs|r|vfs|xs|i x|ab]; try discriminate Hd.
  - (* BOOLEAN *) encoder_is Hce. cbn [enc_content] in He. injection He as <- <-. split; reflexivity.
  - (* INTEGER *) encoder_is Hce. cbn [enc_content ef_compact_zero] in He. injection He as <- <-.
    split; [reflexivity|]. cbn [ref_contents]. rewrite int_contents_is_enc_integer. reflexivity.
  - (* ENUMERATED *) encoder_is Hce. cbn [enc_content ef_compact_zero] in He. injection He as <- <-.
    split; [reflexivity|]. cbn [ref_contents]. rewrite int_contents_is_enc_integer. reflexivity.
  - (* BIT STRING *) encoder_is Hce. cbn [enc_content] in He.
    change (enc_bits def_opts bs) with (Ok (enc_bits_prim bs, false)) in He. injection He as <- <-.
    split; [reflexivity|]. cbn [ref_contents]. rewrite bitstring_contents_is_enc_bits_prim. reflexivity.
  - (* OCTET STRING *) encoder_is Hce. cbn [enc_content] in He.
    rewrite (octets_like_plain (VOcts bo) bo eq_refl) in He. injection He as <- <-. split; reflexivity.
  - (* NULL *) encoder_is Hce. cbn [enc_content] in He. injection He as <- <-. split; reflexivity.
  - (* OBJECT IDENTIFIER *) encoder_is Hce. cbn [enc_content] in He. cbn [ref_contents].
    rewrite oid_contents_is_enc_oid.
    destruct (enc_oid arcs) as [c|]; cbn [bind] in He; [|discriminate He]. injection He as <- <-. split; reflexivity.
  - (* REAL *) encoder_is Hce. cbn [enc_content] in He. cbn [ref_contents].
    destruct (enc_real r) as [c|] eqn:Er; cbn [bind] in He; [|discriminate He]. injection He as <- <-.
    split; [reflexivity|].
    destruct r as [| |m e|m e|].
    + cbn [enc_real] in Er. injection Er as <-. reflexivity.
    + cbn [enc_real] in Er. injection Er as <-. reflexivity.
    + assert (Hfit: real_exp_fits m e = true) by (apply enc_real_bin_ok_iff; exists c; exact Er).
      rewrite (real_contents_is_enc_real_partial m e Hfit), Er. reflexivity.
    + cbn [der_ref_base] in Hd. cbn [enc_real real_contents] in *. rewrite Hd in *. injection Er as <-. reflexivity.
    + discriminate Er.
  - (* strings as octets *)
    destruct (der_string_encoder n cd fl Hce) as [->|[Hcd [Hmax _]]].
    + cbn [enc_content] in He. rewrite (octets_like_plain (VOcts bo) bo eq_refl) in He. injection He as <- <-. split; reflexivity.
    + assert (Hg: (do _ <- time_guard fl bo; enc_octets_like (mkOpts true 1000 false) (VOcts bo)) = Ok (content, ic)).
      { destruct Hcd as [-> | ->]; exact He. }
      destruct (time_guard fl bo) as [[]|] eqn:Eg; cbn [bind] in Hg; [|discriminate Hg].
      apply time_guard_len in Eg.
      rewrite (octets_like_1000 (VOcts bo) bo eq_refl) in Hg by lia. injection Hg as <- <-. split; reflexivity.
  - (* strings as characters *)
    destruct (der_string_encoder n cd fl Hce) as [->|[Hcd [Hmax _]]].
    + cbn [enc_content] in He. rewrite (octets_like_plain (VChars cs) (concat cs) eq_refl) in He. injection He as <- <-. split; reflexivity.
    + assert (Hg: (do _ <- time_guard fl (concat cs); enc_octets_like (mkOpts true 1000 false) (VChars cs)) = Ok (content, ic)).
      { destruct Hcd as [-> | ->]; exact He. }
      destruct (time_guard fl (concat cs)) as [[]|] eqn:Eg; cbn [bind] in Hg; [|discriminate Hg].
      apply time_guard_len in Eg.
      rewrite (octets_like_1000 (VChars cs) (concat cs) eq_refl) in Hg by lia. injection Hg as <- <-. split; reflexivity.
Qed.

(* ====================================================================== *)
(* 5. the theorems: simple types under any stack of tags                   *)
(* ====================================================================== *)

Lemma der_ref_simple B v : der_ref_base B v = true -> simple_base B = true.
Proof. destruct B; try reflexivity; destruct v; discriminate. Qed.

Lemma simple_tagged T : simple_base (base_of T) = true -> untagged T = false.
Proof. unfold untagged. destruct (base_of T); try reflexivity; discriminate. Qed.

Lemma all_form_agrees_prim ts : Forall (form_agrees false) ts.
Proof. apply Forall_forall. intros t _. apply form_agrees_prim. Qed.

(* Soundness.  Every simple type - BOOLEAN, INTEGER, ENUMERATED, BIT STRING, OCTET STRING, NULL,
   OBJECT IDENTIFIER, REAL, every character and useful string type (as octets or as characters) -
   under ANY stack of IMPLICIT and EXPLICIT tags of any class and number (UNIVERSAL included):
   whatever the library's DER encoder outputs is the distinguished encoding of the reference. *)
Theorem der_is_reference_simple : forall T v b,
  der_ref_val T v = true -> encode DER true 0 T v = Ok b -> X690.der T v = Some b.
Proof.
  intros T v b Hd He. unfold der_ref_val in Hd. rewrite encode_der_unfold in He.
  destruct (concrete_encoder DER T) as [[cd fl]|] eqn:Ece; cbn [bind fst snd] in He; [|discriminate He].
  destruct (tagset_of T) as [ts|] eqn:Ets; cbn [bind] in He; [|discriminate He].
  destruct (enc_content DER T cd fl def_opts v) as [[content ic]|] eqn:Ec; cbn [bind fst snd] in He; [|discriminate He].
  rewrite concrete_encoder_base in Ece. rewrite enc_content_base in Ec.
  destruct (der_contents_sound (base_of T) v cd fl content ic Hd Ece Ec) as [-> Hrc].
  pose proof (der_ref_simple _ _ Hd) as Hs.
  destruct (canon_simple (base_of T) v Hs) as [Htb Hcb]. rewrite Hrc in Hcb.
  apply (frame_is_ref ts content false def_opts (ef_indef fl) b eq_refl eq_refl (all_form_agrees_prim ts)) in He.
  subst b. unfold der.
  apply (canon_wrappers T v content (simple_tagged T Hs)); [|exact Ets].
  exists [base_tag (base_of T)]. split; assumption.
Qed.

(* ---- completeness: where the reference answers, so does the library, with the same octets ---- *)

(* On top of der_ref_val, two places where the library refuses what X.690 allows:
   - REAL whose (odd-mantissa) exponent needs more than 255 octets (LeafReal.real_exp_fits);
   - UTCTime / GeneralizedTime (universal 23, 24): the DER encoder vets the text (Model/Time.v, C20). *)
Definition exact_extra (B: ty) (v: val) : bool :=
  match B, v with
  | TReal, VReal (RBin m e) => real_exp_fits m e
  | TStr n, _ => negb (N.eqb n 23 || N.eqb n 24)
  | _, _ => true
  end.
Definition der_exact_base (B: ty) (v: val) : bool := der_ref_base B v && exact_extra B v.
Definition der_exact_val (T: ty) (v: val) : bool := der_exact_base (base_of T) v.

Lemma der_contents_total B v : der_exact_base B v = true ->
  exists cd fl, concrete_encoder DER B = Ok (cd, fl) /\
    (ref_contents B v = None \/ exists cc, enc_content DER B cd fl def_opts v = Ok cc).
Proof.
  unfold der_exact_base, exact_extra. intros Hx. apply Bool.andb_true_iff in Hx. destruct Hx as [Hd Hx].
  destruct B; try discriminate Hd; destruct v as [bb|z|bs|bo|cs| |arcs|r|vfs|xs|i x|ab]; try discriminate Hd.
  - eexists; eexists. split; [vm_compute; reflexivity|]. right. eexists. reflexivity.
  - eexists; eexists. split; [vm_compute; reflexivity|]. right. eexists. reflexivity.
  - eexists; eexists. split; [vm_compute; reflexivity|]. right. eexists. reflexivity.
  - eexists; eexists. split; [vm_compute; reflexivity|]. right. eexists. reflexivity.
  - eexists; eexists. split; [vm_compute; reflexivity|]. right. eexists. reflexivity.
  - eexists; eexists. split; [vm_compute; reflexivity|]. right. eexists. reflexivity.
  - eexists; eexists. split; [vm_compute; reflexivity|]. cbn [enc_content ref_contents].
    rewrite oid_contents_is_enc_oid. destruct (enc_oid arcs) as [c|]; [right; eexists; reflexivity|left; reflexivity].
  - eexists; eexists. split; [vm_compute; reflexivity|]. cbn [enc_content ref_contents].
    destruct r as [| |m e|m e|].
    + right. eexists. reflexivity.
    + right. eexists. reflexivity.
    + apply enc_real_bin_ok_iff in Hx. destruct Hx as [c Hc]. right. rewrite Hc. eexists. reflexivity.
    + cbn [der_ref_base] in Hd. right. cbn [enc_real]. rewrite Hd. eexists. reflexivity.
    + left. reflexivity.
  - destruct (der_string_encoder_total n) as (cd & fl & Hce). exists cd, fl. split; [exact Hce|].
    destruct (der_string_encoder n cd fl Hce) as [->|[_ [_ Hn]]].
    + right. eexists. cbn [enc_content]. apply (octets_like_plain (VOcts bo) bo eq_refl).
    + destruct Hn as [-> | ->]; discriminate Hx.
  - destruct (der_string_encoder_total n) as (cd & fl & Hce). exists cd, fl. split; [exact Hce|].
    destruct (der_string_encoder n cd fl Hce) as [->|[_ [_ Hn]]].
    + right. eexists. cbn [enc_content]. apply (octets_like_plain (VChars cs) (concat cs) eq_refl).
    + destruct Hn as [-> | ->]; discriminate Hx.
Qed.

Lemma der_exact_ref B v : der_exact_base B v = true -> der_ref_base B v = true.
Proof. unfold der_exact_base. intros H. apply Bool.andb_true_iff in H. tauto. Qed.

(* Completeness.  On the same types, outside the two documented refusals, if the reference assigns
   a distinguished encoding (of a length that definite length octets can express at all, < 256^126),
   the library's DER encoder succeeds and outputs exactly it. *)
Theorem der_is_reference_complete : forall T v b,
  der_exact_val T v = true -> X690.der T v = Some b -> N.of_nat (length b) < max_len ->
  encode DER true 0 T v = Ok b.
Proof.
  intros T v b Hx Hr Hlen. unfold der_exact_val in Hx. unfold der in Hr.
  pose proof (der_exact_ref _ _ Hx) as Hd. pose proof (der_ref_simple _ _ Hd) as Hs.
  destruct (tagset_of T) as [ts|e] eqn:Ets; [|rewrite (canon_tagset_err T v e Ets) in Hr; discriminate Hr].
  destruct (der_contents_total _ _ Hx) as (cd & fl & Hce & Hc).
  destruct (canon_simple (base_of T) v Hs) as [Htb Hcb].
  destruct Hc as [Hnone|[[content ic] Hc]].
  { rewrite Hnone in Hcb. rewrite (canon_wrappers_none T v Hcb) in Hr. discriminate Hr. }
  destruct (der_contents_sound (base_of T) v cd fl content ic Hd Hce Hc) as [-> Hrc].
  rewrite Hrc in Hcb.
  assert (Hcan: canon false T v = Some (ref_frame ts content)).
  { apply (canon_wrappers T v content (simple_tagged T Hs)); [|exact Ets].
    exists [base_tag (base_of T)]. split; assumption. }
  rewrite Hcan in Hr. injection Hr as <-.
  rewrite encode_der_unfold, concrete_encoder_base, Hce. cbn [bind fst snd]. rewrite Ets. cbn [bind].
  rewrite enc_content_base, Hc. cbn [bind fst snd].
  apply frame_total; [reflexivity|reflexivity|apply all_form_agrees_prim|exact Hlen].
Qed.

(* the contrapositive, as asked: when the encoder refuses, the reference has no encoding either
   (or only one whose length no definite form can express) *)
Corollary der_refusal_is_reference : forall T v e,
  der_exact_val T v = true -> encode DER true 0 T v = Err e ->
  X690.der T v = None \/ exists b, X690.der T v = Some b /\ max_len <= N.of_nat (length b).
Proof.
  intros T v e Hx He. destruct (der T v) as [b|] eqn:Er; [|left; reflexivity].
  right. exists b. split; [reflexivity|].
  destruct (N.lt_ge_cases (N.of_nat (length b)) max_len) as [Hlt|Hge]; [|exact Hge].
  rewrite (der_is_reference_complete T v b Hx Er Hlt) in He. discriminate He.
Qed.

(* the statement over the predicate of the round-trip theorem (Proofs/RoundTrip1.v); wf_tags is not needed *)
Lemma stage1_val_der_ref T v : RoundTrip1.stage1_val DER DER T v = true -> der_ref_val T v = true.
Proof.
  unfold RoundTrip1.stage1_val, der_ref_val. destruct (base_of T); destruct v; try discriminate; try reflexivity.
  destruct r; try discriminate; reflexivity.
Qed.

Theorem der_is_reference_stage1 : forall T v b,
  TagsetShape.wf_tags T = true -> RoundTrip1.stage1_val DER DER T v = true ->
  encode DER true 0 T v = Ok b -> X690.der T v = Some b.
Proof. intros T v b _ Hs He. apply der_is_reference_simple; [apply stage1_val_der_ref; exact Hs|exact He]. Qed.

(* ---- the hypotheses are satisfiable on non-trivial inputs ---- *)

(* [CONTEXT 40] EXPLICIT [APPLICATION 5] IMPLICIT [PRIVATE 1000] EXPLICIT INTEGER, value -129:
   long-form tag numbers, retagging of a constructed wrapper, two-octet two's complement *)
Example der_is_reference_witness_int :
  let T := TExp (mkTag Ctx false 40) (TImp (mkTag Appl false 5) (TExp (mkTag Priv false 1000) TInt)) in
  let v := VInt (-129)%Z in
  TagsetShape.wf_tags T = true /\ RoundTrip1.stage1_val DER DER T v = true /\ der_exact_val T v = true /\
  encode DER true 0 T v = Ok [191; 40; 6; 101; 4; 2; 2; 255; 127] /\
  der T v = Some [191; 40; 6; 101; 4; 2; 2; 255; 127].
Proof. vm_compute. repeat split. Qed.

(* [UNIVERSAL 77] IMPLICIT [APPLICATION 31] EXPLICIT [2] IMPLICIT REAL, value -80 * 2^3 = -5 * 2^7 *)
Example der_is_reference_witness_real :
  let T := TImp (mkTag Univ false 77) (TExp (mkTag Appl true 31) (TImp (mkTag Ctx true 2) TReal)) in
  let v := VReal (RBin (-80) 3) in
  der_ref_val T v = true /\ der_exact_val T v = true /\
  encode DER true 0 T v = Ok [63; 77; 5; 130; 3; 192; 7; 5] /\ der T v = Some [63; 77; 5; 130; 3; 192; 7; 5].
Proof. vm_compute. repeat split. Qed.

(* [0] EXPLICIT [PRIVATE 16383] IMPLICIT BIT STRING of 10 bits; [3] IMPLICIT UTF8String given as characters;
   [1] EXPLICIT OBJECT IDENTIFIER 2.999.3; GeneralizedTime *)
Example der_is_reference_witness_strings :
  (let T := TExp (mkTag Ctx false 0) (TImp (mkTag Priv false 16383) TBits) in
   let v := VBits [true;false;true;true;false;false;false;false;true;true] in
   der_exact_val T v = true /\ encode DER true 0 T v = Ok [160; 7; 223; 255; 127; 3; 6; 176; 192]
   /\ der T v = Some [160; 7; 223; 255; 127; 3; 6; 176; 192]) /\
  (let T := TImp (mkTag Ctx false 3) (TStr 12) in let v := VChars [[195;169];[65]] in
   der_exact_val T v = true /\ encode DER true 0 T v = Ok [131; 3; 195; 169; 65] /\ der T v = Some [131; 3; 195; 169; 65]) /\
  (let T := TExp (mkTag Ctx false 1) TOid in let v := VOid [2;999;3] in
   der_exact_val T v = true /\ encode DER true 0 T v = Ok [161; 5; 6; 3; 136; 55; 3] /\ der T v = Some [161; 5; 6; 3; 136; 55; 3]) /\
  (let T := TStr 24 in let v := VOcts [50;48;50;48;48;49;48;49;49;50;48;48;48;48;90] in
   der_ref_val T v = true /\ exists b, encode DER true 0 T v = Ok b /\ der T v = Some b).
Proof. vm_compute. repeat split. eexists. split; reflexivity. Qed.

(* both sides refuse: arc 1.40 is not an OBJECT IDENTIFIER; EXPLICIT UNIVERSAL is not a tagging *)
Example der_refusal_witness :
  (let T := TExp (mkTag Ctx false 1) TOid in let v := VOid [1;40;3] in
   der_exact_val T v = true /\ encode DER true 0 T v = Err EMalformed /\ der T v = None) /\
  (let T := TExp (mkTag Univ false 1) TInt in let v := VInt 5 in
   der_exact_val T v = true /\ encode DER true 0 T v = Err EMalformed /\ der T v = None).
Proof. vm_compute. repeat split. Qed.

(* ---- why the predicates exclude what they exclude ---- *)

(* REAL in decimal form: the library writes ISO 6093 NR3 text (X.690 8.5.8), the reference covers
   the binary forms only - der_ref_val excludes RDec with a non-zero mantissa *)
Example der_reference_excludes_decimal_real :
  encode DER true 0 TReal (VReal (RDec 15 (-1))) = Ok [9; 6; 3; 49; 53; 69; 45; 49] /\
  der TReal (VReal (RDec 15 (-1))) = None /\ der_ref_val TReal (VReal (RDec 15 (-1))) = false.
Proof. vm_compute. repeat split. Qed.

(* a value of the wrong kind that the library's OCTET STRING encoder happens to take *)
Example der_reference_excludes_any_as_octets :
  encode DER true 0 TOcts (VAny [1; 2]) = Ok [4; 2; 1; 2] /\ der TOcts (VAny [1; 2]) = None
  /\ der_ref_val TOcts (VAny [1; 2]) = false.
Proof. vm_compute. repeat split. Qed.

(* completeness only: UTCTime text the DER encoder vets and refuses; a REAL exponent of 256 octets *)
Example der_exact_excludes_time_and_huge_exponent :
  (encode DER true 0 (TStr 23) (VOcts [49; 50]) = Err EMalformed /\ der (TStr 23) (VOcts [49; 50]) = Some [23; 2; 49; 50]
   /\ der_exact_val (TStr 23) (VOcts [49; 50]) = false) /\
  (encode DER true 0 TReal (VReal (RBin 1 (2 ^ 2039))) = Err EMalformed
   /\ (exists b, der TReal (VReal (RBin 1 (2 ^ 2039))) = Some b /\ length b = 263%nat)
   /\ der_exact_val TReal (VReal (RBin 1 (2 ^ 2039))) = false).
Proof. vm_compute. repeat split. eexists. split; reflexivity. Qed.

(* ====================================================================== *)
(* 6. SEQUENCE OF and SEQUENCE over such types, nested, under any tags      *)
(* ====================================================================== *)

(* enc under DER with an arbitrary ifNotEmpty flag *)
Lemma enc_der_unfold T i v :
  enc DER T (mkOpts true 0 i) v =
  (do ce <- concrete_encoder DER T;
   do ts <- tagset_of T;
   do cc <- enc_content DER T (fst ce) (snd ce) def_opts v;
   frame ts (fst cc) (snd cc) (mkOpts true 0 i) (ef_indef (snd ce))).
Proof.
  unfold enc, enc_with. change (fix_opts DER (mkOpts true 0 i)) with (mkOpts true 0 i).
  destruct (concrete_encoder DER T) as [[cd fl]|]; cbn [bind fst snd]; [|reflexivity].
  destruct (tagset_of T) as [ts|]; cbn [bind]; [|reflexivity].
  change (mkOpts (o_def (mkOpts true 0 i)) (o_chunk (mkOpts true 0 i)) false) with def_opts.
  destruct (enc_content DER T cd fl def_opts v) as [[content ic]|]; reflexivity.
Qed.

(* ifNotEmpty only matters for constructed content *)
Lemma frame_prim_ifne ts content i si :
  frame ts content false (mkOpts true 0 i) si = frame ts content false def_opts si.
Proof. destruct ts as [|t0 r]; [reflexivity|]. cbn [frame]. rewrite !Bool.andb_false_r. reflexivity. Qed.

(* over a constructed base tag every tag of the set is constructed *)
Lemma tagset_all_cons : forall T tb ts, tagset_of (base_of T) = Ok [tb] -> tcon tb = true ->
  tagset_of T = Ok ts -> Forall (fun t => tcon t = true) ts.
Proof.
  induction T as [| | | | | | | | n|fs IH|fs IH|t IH|t IH|alts IH| |tg x IH|tg x IH] using ty_ind';
    intros tb ts Hb Hc Hts;
    try (cbn [base_of] in Hb; rewrite Hb in Hts; injection Hts as <-; constructor; [exact Hc|constructor]).
  - cbn [tagset_of] in Hts. destruct (tagset_of x) as [ts'|] eqn:Ex; cbn [bind] in Hts; [|discriminate].
    injection Hts as <-. pose proof (IH tb ts' Hb Hc eq_refl) as Hall.
    destruct ts' as [|t1 r1]; [cbn; constructor; [|constructor]|].
    + (* untagged below: impossible here, but the tag is then taken as written; not needed *)
      cbn [base_of] in Hb. exfalso.
      assert (Hne: @nil tag <> []).
      { apply (tagset_nonempty x []); [|exact Ex]. unfold untagged. destruct (base_of x); try reflexivity; discriminate Hb. }
      congruence.
    + destruct (@exists_last _ (t1 :: r1)) as (ts0 & last & E); [discriminate|]. rewrite E in *.
      rewrite tag_implicitly_spec. apply Forall_app in Hall. destruct Hall as [H0 Hl].
      apply Forall_app. split; [exact H0|]. constructor; [|constructor]. inversion Hl; subst. assumption.
  - cbn [tagset_of] in Hts. destruct (tagset_of x) as [ts'|] eqn:Ex; cbn [bind] in Hts; [|discriminate].
    pose proof (tag_explicitly_spec ts' tg) as Hsp. rewrite Hts in Hsp. destruct Hsp as [_ ->].
    apply Forall_app. split; [exact (IH tb ts' Hb Hc eq_refl)|]. constructor; [reflexivity|constructor].
Qed.

(* what the generic tagging/framing argument needs to know about a type's base *)
Definition content_sound (deep: ty -> val -> bool) (T: ty) : Prop :=
  forall v cd fl content ic,
    deep T v = true -> concrete_encoder DER (base_of T) = Ok (cd, fl) ->
    enc_content DER (base_of T) cd fl def_opts v = Ok (content, ic) ->
    exists tb, tagset_of (base_of T) = Ok [tb] /\ (ic = true -> tcon tb = true) /\
               (simple_base (base_of T) = true -> ic = false) /\
               canon false (base_of T) v = Some (ref_frame [tb] content).

Lemma tagged_of_base T tb : tagset_of (base_of T) = Ok [tb] -> untagged T = false.
Proof. unfold untagged. destruct (base_of T); intros H; try reflexivity; discriminate H. Qed.

Theorem sound_of_content deep T : content_sound deep T ->
  forall i v b, deep T v = true -> (i = false \/ simple_base (base_of T) = true) ->
  enc DER T (mkOpts true 0 i) v = Ok b -> der T v = Some b.
Proof.
  intros Hcs i v b Hd Hi He. rewrite enc_der_unfold in He.
  destruct (concrete_encoder DER T) as [[cd fl]|] eqn:Ece; cbn [bind fst snd] in He; [|discriminate He].
  destruct (tagset_of T) as [ts|] eqn:Ets; cbn [bind] in He; [|discriminate He].
  destruct (enc_content DER T cd fl def_opts v) as [[content ic]|] eqn:Ec; cbn [bind fst snd] in He; [|discriminate He].
  rewrite concrete_encoder_base in Ece. rewrite enc_content_base in Ec.
  destruct (Hcs v cd fl content ic Hd Ece Ec) as (tb & Htb & Hcons & Hsimp & Hcan).
  assert (Hb: b = ref_frame ts content).
  { destruct ic.
    - assert (Hif: i = false).
      { destruct Hi as [Hi|Hi]; [exact Hi|]. specialize (Hsimp Hi). discriminate Hsimp. }
      subst i. apply (frame_is_ref ts content true def_opts (ef_indef fl) b eq_refl eq_refl); [|exact He].
      pose proof (tagset_all_cons T tb ts Htb (Hcons eq_refl) Ets) as Hall.
      apply Forall_forall. intros t Ht. rewrite Forall_forall in Hall. unfold form_agrees. rewrite (Hall t Ht). reflexivity.
    - rewrite frame_prim_ifne in He.
      apply (frame_is_ref ts content false def_opts (ef_indef fl) b eq_refl eq_refl (all_form_agrees_prim ts) He). }
  subst b. unfold der.
  apply (canon_wrappers T v content (tagged_of_base T tb Htb)); [|exact Ets].
  exists [tb]. split; assumption.
Qed.

(* ---- the fragment ---- *)

(* SEQUENCE components: mandatory ones assigned; OPTIONAL and DEFAULT ones of simple type
   (a present-but-empty OPTIONAL constructed component is omitted by the library, finding F24;
   DEFAULT values of constructed or REAL type are compared by Python == outside the model) *)
Fixpoint der_ref_deep (T: ty) (v: val) {struct T} : bool :=
  match T with
  | TImp _ x | TExp _ x => der_ref_deep x v
  | TSeqOf t => match v with VList xs => forallb (der_ref_deep t) xs | _ => false end
  | TSeq fs =>
      match v with
      | VRec vs =>
          (fix go (fs: list (presence * ty)) (vs: list (option val)) : bool :=
             match fs with
             | [] => true
             | (p, ft) :: fs' =>
                 let ov := match vs with x :: _ => x | [] => None end in
                 let vs' := match vs with _ :: r => r | [] => [] end in
                 (match p, ov with
                  | Req, None => false
                  | _, None => true
                  | Req, Some x => der_ref_deep ft x
                  | Opt, Some x => simple_base (base_of ft) && der_ref_deep ft x
                  | Def d, Some x => simple_base (base_of ft) && der_ref_deep ft x && der_ref_deep ft d
                  end) && go fs' vs'
             end) fs vs
      | _ => false
      end
  | _ => der_ref_base T v
  end.

Definition deep_fields : list (presence * ty) -> list (option val) -> bool :=
  fix go (fs: list (presence * ty)) (vs: list (option val)) : bool :=
    match fs with
    | [] => true
    | (p, ft) :: fs' =>
        let ov := match vs with x :: _ => x | [] => None end in
        let vs' := match vs with _ :: r => r | [] => [] end in
        (match p, ov with
         | Req, None => false
         | _, None => true
         | Req, Some x => der_ref_deep ft x
         | Opt, Some x => simple_base (base_of ft) && der_ref_deep ft x
         | Def d, Some x => simple_base (base_of ft) && der_ref_deep ft x && der_ref_deep ft d
         end) && go fs' vs'
    end.

Lemma deep_seq fs vs : der_ref_deep (TSeq fs) (VRec vs) = deep_fields fs vs.
Proof. reflexivity. Qed.

Lemma deep_base : forall T v, der_ref_deep T v = der_ref_deep (base_of T) v.
Proof.
  induction T as [| | | | | | | | n|fs IH|fs IH|t IH|t IH|alts IH| |tg x IH|tg x IH] using ty_ind'; intros v; try reflexivity.
  - cbn [der_ref_deep base_of]. apply IH.
  - cbn [der_ref_deep base_of]. apply IH.
Qed.

Lemma deep_simple T v : simple_base (base_of T) = true -> der_ref_deep T v = der_ref_val T v.
Proof.
  intros Hs. rewrite deep_base. unfold der_ref_val. destruct (base_of T); try discriminate Hs; reflexivity.
Qed.

(* ---- the model's and the reference's component loops, named ---- *)

Definition seqof_parts (t: ty) (o: eopts) : list val -> res (list bytes) :=
  fix go (xs: list val) : res (list bytes) :=
    match xs with
    | [] => Ok []
    | x :: r => do p <- enc DER t o x; do ps <- go r; Ok (p :: ps)
    end.

Lemma enc_content_seqof t fl o xs :
  enc_content DER (TSeqOf t) EcSeqOfCer fl o (VList xs) = (do parts <- seqof_parts t o xs; Ok (concat parts, true)).
Proof. reflexivity. Qed.

Lemma canon_seqof cer t xs :
  canon cer (TSeqOf t) (VList xs) =
  opt_bind (opt_all (map (canon cer t) xs)) (fun es => Some (ctlv cer Univ 16 (concat es))).
Proof.
  cbn [canon].
  match goal with |- opt_bind (opt_all ?a) _ = _ => assert (E: a = map (canon cer t) xs) end.
  { induction xs as [|x r IH]; [reflexivity|]. cbn [map]. rewrite <- IH. reflexivity. }
  rewrite E. reflexivity.
Qed.

Definition seq_parts (omit: bool) (o: eopts) : list (presence * ty) -> list (option val) -> res (list (tagset * bytes)) :=
  fix go (fs: list (presence * ty)) (vs: list (option val)) : res (list (tagset * bytes)) :=
    match fs with
    | [] => Ok []
    | (p, ft) :: fs' =>
        let ov := match vs with x :: _ => x | [] => None end in
        let vs' := match vs with _ :: r => r | [] => [] end in
        let o' := if omit then mkOpts (o_def o) (o_chunk o) (match p with Opt => true | _ => false end) else o in
        let emit (x: val) := do b <- enc DER ft o' x; do rest <- go fs' vs';
                             Ok ((set_sort_key false ft x, b) :: rest) in
        match p, ov with
        | Opt, None => go fs' vs'
        | Def d, None => go fs' vs'
        | Def d, Some x => match val_py_eq x d with
                           | Some true => go fs' vs'
                           | Some false => emit x
                           | None => Err EUnmodelled end
        | Req, None => if all_optional_container ft then emit (VRec []) else Err EMalformed
        | _, Some x => emit x
        end
    end.

Lemma enc_content_seq fs fl o vs :
  enc_content DER (TSeq fs) EcSeq fl o (VRec vs) =
  (do parts <- seq_parts (ef_omit_empty fl) o fs vs; Ok (concat (map snd parts), true)).
Proof. reflexivity. Qed.

Definition canon_fields (cer: bool) : list (presence * ty) -> list (option val) -> option (list bytes) :=
  fix go (fs: list (presence * ty)) (vs: list (option val)) : option (list bytes) :=
    match fs with
    | [] => Some []
    | (p, ft) :: fs' =>
        let ov := match vs with x :: _ => x | [] => None end in
        let vs' := match vs with _ :: r => r | [] => [] end in
        match p, ov with
        | Req, None => None
        | Opt, None | Def _, None => go fs' vs'
        | Def d, Some x => if is_default ft x d then go fs' vs'
                           else opt_bind (canon cer ft x) (fun e => opt_bind (go fs' vs') (fun r => Some (e :: r)))
        | _, Some x => opt_bind (canon cer ft x) (fun e => opt_bind (go fs' vs') (fun r => Some (e :: r)))
        end
    end.

Lemma canon_seq cer fs vs :
  canon cer (TSeq fs) (VRec vs) = opt_bind (canon_fields cer fs vs) (fun es => Some (ctlv cer Univ 16 (concat es))).
Proof. reflexivity. Qed.

Definition ohd (vs: list (option val)) : option val := match vs with x :: _ => x | [] => None end.
Definition otl (vs: list (option val)) : list (option val) := match vs with _ :: r => r | [] => [] end.

Lemma deep_fields_cons p ft fs' vs :
  deep_fields ((p, ft) :: fs') vs =
  (match p, ohd vs with
   | Req, None => false
   | _, None => true
   | Req, Some x => der_ref_deep ft x
   | Opt, Some x => simple_base (base_of ft) && der_ref_deep ft x
   | Def d, Some x => simple_base (base_of ft) && der_ref_deep ft x && der_ref_deep ft d
   end) && deep_fields fs' (otl vs).
Proof. reflexivity. Qed.

Lemma seq_parts_cons p ft fs' vs :
  seq_parts true def_opts ((p, ft) :: fs') vs =
  let emit (x: val) := do b <- enc DER ft (mkOpts true 0 (match p with Opt => true | _ => false end)) x;
                       do rest <- seq_parts true def_opts fs' (otl vs);
                       Ok ((set_sort_key false ft x, b) :: rest) in
  match p, ohd vs with
  | Opt, None => seq_parts true def_opts fs' (otl vs)
  | Def d, None => seq_parts true def_opts fs' (otl vs)
  | Def d, Some x => match val_py_eq x d with
                     | Some true => seq_parts true def_opts fs' (otl vs)
                     | Some false => emit x
                     | None => Err EUnmodelled end
  | Req, None => if all_optional_container ft then emit (VRec []) else Err EMalformed
  | _, Some x => emit x
  end.
Proof. reflexivity. Qed.

Lemma canon_fields_cons cer p ft fs' vs :
  canon_fields cer ((p, ft) :: fs') vs =
  match p, ohd vs with
  | Req, None => None
  | Opt, None | Def _, None => canon_fields cer fs' (otl vs)
  | Def d, Some x => if is_default ft x d then canon_fields cer fs' (otl vs)
                     else opt_bind (canon cer ft x) (fun e => opt_bind (canon_fields cer fs' (otl vs)) (fun r => Some (e :: r)))
  | _, Some x => opt_bind (canon cer ft x) (fun e => opt_bind (canon_fields cer fs' (otl vs)) (fun r => Some (e :: r)))
  end.
Proof. reflexivity. Qed.

Lemma bytes_eqb_sym : forall a b, bytes_eqb a b = bytes_eqb b a.
Proof.
  induction a as [|x a IH]; destruct b as [|y b]; try reflexivity.
  change (bytes_eqb (x :: a) (y :: b)) with (N.eqb x y && bytes_eqb a b)%bool.
  change (bytes_eqb (y :: b) (x :: a)) with (N.eqb y x && bytes_eqb b a)%bool.
  rewrite N.eqb_sym, IH. reflexivity.
Qed.

(* DEFAULT (11.5): Python == on simple values is equality of abstract values *)
Lemma py_eq_is_default ft x d q : simple_base (base_of ft) = true ->
  der_ref_deep ft x = true -> der_ref_deep ft d = true -> val_py_eq x d = Some q -> is_default ft x d = q.
Proof.
  intros Hs Hx Hd Hq. unfold is_default. rewrite (TagsetShape.abs_wrappers ft x), (TagsetShape.abs_wrappers ft d).
  rewrite deep_base in Hx, Hd.
  destruct (base_of ft); try discriminate Hs;
    destruct x; try discriminate Hx; destruct d; try discriminate Hd; try discriminate Hq;
    cbn [val_py_eq] in Hq; injection Hq as <-; cbn [abs aval_eqb]; try reflexivity.
  - apply bytes_eqb_sym.
Qed.

Lemma seq_fields_sound : forall fs, Forall (fun f => content_sound der_ref_deep (snd f)) fs ->
  forall vs parts, deep_fields fs vs = true -> seq_parts true def_opts fs vs = Ok parts ->
  canon_fields false fs vs = Some (map snd parts).
Proof.
  induction fs as [|[p ft] fs' IH]; intros Hall vs parts Hd Hp.
  - cbn in Hp. injection Hp as <-. reflexivity.
  - inversion Hall as [|? ? Hft Hall']; subst. cbn [snd] in Hft. specialize (IH Hall').
    rewrite deep_fields_cons in Hd. apply Bool.andb_true_iff in Hd. destruct Hd as [Hd1 Hd2].
    rewrite seq_parts_cons in Hp. rewrite canon_fields_cons. cbv zeta in Hp.
    assert (Hemit: forall i x, der_ref_deep ft x = true -> (i = false \/ simple_base (base_of ft) = true) ->
              (do b <- enc DER ft (mkOpts true 0 i) x; do rest <- seq_parts true def_opts fs' (otl vs);
               Ok ((set_sort_key false ft x, b) :: rest)) = Ok parts ->
              opt_bind (canon false ft x) (fun e => opt_bind (canon_fields false fs' (otl vs)) (fun r => Some (e :: r)))
              = Some (map snd parts)).
    { intros i x Hx Hi H.
      destruct (enc DER ft (mkOpts true 0 i) x) as [b0|] eqn:Eb; cbn [bind] in H; [|discriminate H].
      destruct (seq_parts true def_opts fs' (otl vs)) as [rest|] eqn:Er; cbn [bind] in H; [|discriminate H].
      injection H as <-.
      pose proof (sound_of_content der_ref_deep ft Hft i x b0 Hx Hi Eb) as Hc. unfold der in Hc.
      rewrite Hc, (IH (otl vs) rest Hd2 Er). reflexivity. }
    destruct p as [| |d]; destruct (ohd vs) as [x|].
    + apply (Hemit false x Hd1); [left; reflexivity|exact Hp].
    + discriminate Hd1.
    + apply Bool.andb_true_iff in Hd1. destruct Hd1 as [Hs Hx].
      apply (Hemit true x Hx); [right; exact Hs|exact Hp].
    + apply IH; assumption.
    + apply Bool.andb_true_iff in Hd1. destruct Hd1 as [Hd1 Hdd]. apply Bool.andb_true_iff in Hd1. destruct Hd1 as [Hs Hx].
      destruct (val_py_eq x d) as [[|]|] eqn:Eq; [| |discriminate Hp].
      * rewrite (py_eq_is_default ft x d true Hs Hx Hdd Eq). apply IH; assumption.
      * rewrite (py_eq_is_default ft x d false Hs Hx Hdd Eq). apply (Hemit false x Hx); [left; reflexivity|exact Hp].
    + apply IH; assumption.
Qed.

Lemma seqof_parts_sound t : content_sound der_ref_deep t ->
  forall xs parts, forallb (der_ref_deep t) xs = true -> seqof_parts t def_opts xs = Ok parts ->
  opt_all (map (canon false t) xs) = Some parts.
Proof.
  intros Ht. induction xs as [|x r IH]; intros parts Hd Hp.
  - cbn in Hp. injection Hp as <-. reflexivity.
  - cbn [forallb] in Hd. apply Bool.andb_true_iff in Hd. destruct Hd as [Hx Hr].
    change (seqof_parts t def_opts (x :: r)) with
      (do p <- enc DER t def_opts x; do ps <- seqof_parts t def_opts r; Ok (p :: ps)) in Hp.
    destruct (enc DER t def_opts x) as [b0|] eqn:Eb; cbn [bind] in Hp; [|discriminate Hp].
    destruct (seqof_parts t def_opts r) as [ps|] eqn:Er; cbn [bind] in Hp; [|discriminate Hp].
    injection Hp as <-.
    pose proof (sound_of_content der_ref_deep t Ht false x b0 Hx (or_introl eq_refl) Eb) as Hc. unfold der in Hc.
    cbn [map opt_all]. rewrite Hc, (IH ps Hr eq_refl). reflexivity.
Qed.

(* every type of the fragment: contents and base tag agree with the reference *)
Theorem content_sound_deep : forall T, content_sound der_ref_deep T.
Proof.
  induction T as [| | | | | | | | n|fs IH|fs IH|t IH|t IH|alts IH| |tg x IH|tg x IH] using ty_ind'.
  16: { (* IMPLICIT *) exact IH. }
  16: { (* EXPLICIT *) exact IH. }
  all: intros v cd fl content ic Hd Hce He; cbn [base_of] in *.
  (* the simple types *)
  all: try (cbn [der_ref_deep] in Hd;
            match goal with |- exists tb, tagset_of ?B = _ /\ _ =>
              destruct (der_contents_sound B v cd fl content ic Hd Hce He) as [-> Hrc];
              destruct (canon_simple B v eq_refl) as [Htb Hcb]; rewrite Hrc in Hcb;
              exists (base_tag B); split; [exact Htb|split; [discriminate|split; [reflexivity|exact Hcb]]]
            end).
  - (* SEQUENCE *)
    destruct v as [bb|z|bs|bo|cs| |arcs|r|vs|xs|i x|ab]; try discriminate Hd.
    rewrite deep_seq in Hd. encoder_is Hce. rewrite enc_content_seq in He. cbn [ef_omit_empty] in He.
    destruct (seq_parts true def_opts fs vs) as [parts|] eqn:Ep; cbn [bind] in He; [|discriminate He].
    injection He as <- <-.
    exists (utag true 16). split; [reflexivity|split; [reflexivity|split; [discriminate|]]].
    rewrite canon_seq, (seq_fields_sound fs IH vs parts Hd Ep). reflexivity.
  - (* SET: outside the fragment *) destruct v; discriminate Hd.
  - (* SEQUENCE OF *)
    destruct v as [bb|z|bs|bo|cs| |arcs|r|vs|xs|i x|ab]; try discriminate Hd. cbn [der_ref_deep] in Hd.
    encoder_is Hce. rewrite enc_content_seqof in He.
    destruct (seqof_parts t def_opts xs) as [parts|] eqn:Ep; cbn [bind] in He; [|discriminate He].
    injection He as <- <-.
    exists (utag true 16). split; [reflexivity|split; [reflexivity|split; [discriminate|]]].
    rewrite canon_seqof, (seqof_parts_sound t IH xs parts Hd Ep). reflexivity.
  - (* SET OF *) destruct v; discriminate Hd.
  - (* CHOICE *) destruct v; discriminate Hd.
  - (* ANY *) destruct v; discriminate Hd.
Qed.

(* Soundness on the whole fragment: SEQUENCE and SEQUENCE OF, nested to any depth, of simple types,
   every one of them under any stack of IMPLICIT/EXPLICIT tags. *)
Theorem der_is_reference_deep : forall T v b,
  der_ref_deep T v = true -> encode DER true 0 T v = Ok b -> X690.der T v = Some b.
Proof.
  intros T v b Hd He.
  apply (sound_of_content der_ref_deep T (content_sound_deep T) false v b Hd (or_introl eq_refl)). exact He.
Qed.

(* ---- completeness on the fragment ---- *)

(* the additional conditions of der_exact_val at the leaves, and DEFAULT comparisons the model can make *)
Fixpoint deep_extra (T: ty) (v: val) {struct T} : bool :=
  match T with
  | TImp _ x | TExp _ x => deep_extra x v
  | TSeqOf t => match v with VList xs => forallb (deep_extra t) xs | _ => true end
  | TSeq fs =>
      match v with
      | VRec vs =>
          (fix go (fs: list (presence * ty)) (vs: list (option val)) : bool :=
             match fs with
             | [] => true
             | (p, ft) :: fs' =>
                 let ov := match vs with x :: _ => x | [] => None end in
                 let vs' := match vs with _ :: r => r | [] => [] end in
                 (match p, ov with
                  | _, None => true
                  | Def d, Some x => deep_extra ft x && match val_py_eq x d with Some _ => true | None => false end
                  | _, Some x => deep_extra ft x
                  end) && go fs' vs'
             end) fs vs
      | _ => true
      end
  | _ => exact_extra T v
  end.

Definition extra_fields : list (presence * ty) -> list (option val) -> bool :=
  fix go (fs: list (presence * ty)) (vs: list (option val)) : bool :=
    match fs with
    | [] => true
    | (p, ft) :: fs' =>
        let ov := match vs with x :: _ => x | [] => None end in
        let vs' := match vs with _ :: r => r | [] => [] end in
        (match p, ov with
         | _, None => true
         | Def d, Some x => deep_extra ft x && match val_py_eq x d with Some _ => true | None => false end
         | _, Some x => deep_extra ft x
         end) && go fs' vs'
    end.

Lemma extra_seq fs vs : deep_extra (TSeq fs) (VRec vs) = extra_fields fs vs.
Proof. reflexivity. Qed.

Lemma extra_fields_cons p ft fs' vs :
  extra_fields ((p, ft) :: fs') vs =
  (match p, ohd vs with
   | _, None => true
   | Def d, Some x => deep_extra ft x && match val_py_eq x d with Some _ => true | None => false end
   | _, Some x => deep_extra ft x
   end) && extra_fields fs' (otl vs).
Proof. reflexivity. Qed.

Definition der_exact_deep (T: ty) (v: val) : bool := der_ref_deep T v && deep_extra T v.

Definition content_complete (T: ty) : Prop :=
  forall v e, der_ref_deep T v = true -> deep_extra T v = true -> canon false (base_of T) v = Some e ->
  exists tb c cd fl ic,
    tagset_of (base_of T) = Ok [tb] /\ e = ref_frame [tb] c /\ concrete_encoder DER (base_of T) = Ok (cd, fl) /\
    (N.of_nat (length c) < max_len -> enc_content DER (base_of T) cd fl def_opts v = Ok (c, ic)) /\
    (ic = true -> tcon tb = true) /\ (simple_base (base_of T) = true -> ic = false).

Theorem complete_of_content T : content_complete T ->
  forall i v b, der_ref_deep T v = true -> deep_extra T v = true -> (i = false \/ simple_base (base_of T) = true) ->
  der T v = Some b -> N.of_nat (length b) < max_len -> enc DER T (mkOpts true 0 i) v = Ok b.
Proof.
  intros Hcc i v b Hd Hx Hi Hr Hlen. unfold der in Hr.
  destruct (tagset_of T) as [ts|e0] eqn:Ets; [|rewrite (canon_tagset_err T v e0 Ets) in Hr; discriminate Hr].
  destruct (canon false (base_of T) v) as [e|] eqn:Eb; [|rewrite (canon_wrappers_none T v Eb) in Hr; discriminate Hr].
  destruct (Hcc v e Hd Hx Eb) as (tb & c & cd & fl & ic & Htb & -> & Hce & Henc & Hcons & Hsimp).
  assert (Hcan: canon false T v = Some (ref_frame ts c)).
  { apply (canon_wrappers T v c (tagged_of_base T tb Htb)); [|exact Ets]. exists [tb]. split; assumption. }
  rewrite Hcan in Hr. injection Hr as <-.
  pose proof (ref_frame_length ts c) as Hcl.
  rewrite enc_der_unfold, concrete_encoder_base, Hce. cbn [bind fst snd]. rewrite Ets. cbn [bind].
  rewrite enc_content_base, Henc by lia. cbn [bind fst snd].
  destruct ic.
  - assert (Hif: i = false).
    { destruct Hi as [Hi|Hi]; [exact Hi|]. specialize (Hsimp Hi). discriminate Hsimp. }
    subst i. apply frame_total; [reflexivity|reflexivity| |exact Hlen].
    pose proof (tagset_all_cons T tb ts Htb (Hcons eq_refl) Ets) as Hall.
    apply Forall_forall. intros t Ht. rewrite Forall_forall in Hall. unfold form_agrees. rewrite (Hall t Ht). reflexivity.
  - rewrite frame_prim_ifne. apply frame_total; [reflexivity|reflexivity|apply all_form_agrees_prim|exact Hlen].
Qed.

Lemma concat_length_head (e: bytes) (es: list bytes) :
  (length e <= length (concat (e :: es)))%nat /\ (length (concat es) <= length (concat (e :: es)))%nat.
Proof. cbn [concat]. rewrite app_length. lia. Qed.

Lemma seqof_parts_complete t : content_complete t ->
  forall xs es, forallb (der_ref_deep t) xs = true -> forallb (deep_extra t) xs = true ->
  opt_all (map (canon false t) xs) = Some es -> N.of_nat (length (concat es)) < max_len ->
  seqof_parts t def_opts xs = Ok es.
Proof.
  intros Ht. induction xs as [|x r IH]; intros es Hd Hx Hc Hlen.
  - cbn in Hc. injection Hc as <-. reflexivity.
  - cbn [forallb] in Hd, Hx. apply Bool.andb_true_iff in Hd. destruct Hd as [Hd1 Hd2].
    apply Bool.andb_true_iff in Hx. destruct Hx as [Hx1 Hx2].
    cbn [map opt_all] in Hc.
    destruct (canon false t x) as [e0|] eqn:E0; [|discriminate Hc].
    destruct (opt_all (map (canon false t) r)) as [es'|] eqn:Er; cbn [opt_bind] in Hc; [|discriminate Hc].
    injection Hc as <-. destruct (concat_length_head e0 es') as [L1 L2].
    change (seqof_parts t def_opts (x :: r)) with
      (do p <- enc DER t def_opts x; do ps <- seqof_parts t def_opts r; Ok (p :: ps)).
    assert (Ex: enc DER t def_opts x = Ok e0).
    { apply (complete_of_content t Ht false x e0 Hd1 Hx1 (or_introl eq_refl) E0). lia. }
    rewrite Ex. cbn [bind].
    rewrite (IH es' Hd2 Hx2 eq_refl) by lia. reflexivity.
Qed.

Lemma seq_fields_complete : forall fs, Forall (fun f => content_complete (snd f)) fs ->
  forall vs es, deep_fields fs vs = true -> extra_fields fs vs = true ->
  canon_fields false fs vs = Some es -> N.of_nat (length (concat es)) < max_len ->
  exists parts, seq_parts true def_opts fs vs = Ok parts /\ map snd parts = es.
Proof.
  induction fs as [|[p ft] fs' IH]; intros Hall vs es Hd Hx Hc Hlen.
  - cbn in Hc. injection Hc as <-. exists []. split; reflexivity.
  - inversion Hall as [|? ? Hft Hall']; subst. cbn [snd] in Hft. specialize (IH Hall').
    rewrite deep_fields_cons in Hd. apply Bool.andb_true_iff in Hd. destruct Hd as [Hd1 Hd2].
    rewrite extra_fields_cons in Hx. apply Bool.andb_true_iff in Hx. destruct Hx as [Hx1 Hx2].
    rewrite canon_fields_cons in Hc. rewrite seq_parts_cons. cbv zeta.
    assert (Hemit: forall i x, der_ref_deep ft x = true -> deep_extra ft x = true -> (i = false \/ simple_base (base_of ft) = true) ->
              opt_bind (canon false ft x) (fun e => opt_bind (canon_fields false fs' (otl vs)) (fun r => Some (e :: r))) = Some es ->
              exists parts,
              (do b <- enc DER ft (mkOpts true 0 i) x; do rest <- seq_parts true def_opts fs' (otl vs);
               Ok ((set_sort_key false ft x, b) :: rest)) = Ok parts /\ map snd parts = es).
    { intros i x Hdx Hxx Hi H.
      destruct (canon false ft x) as [e0|] eqn:E0; cbn [opt_bind] in H; [|discriminate H].
      destruct (canon_fields false fs' (otl vs)) as [es'|] eqn:Er; cbn [opt_bind] in H; [|discriminate H].
      injection H as <-. destruct (concat_length_head e0 es') as [L1 L2].
      rewrite (complete_of_content ft Hft i x e0 Hdx Hxx Hi E0) by lia. cbn [bind].
      destruct (IH (otl vs) es' Hd2 Hx2 Er) as (rest & Hrest & Hmap); [lia|].
      rewrite Hrest. cbn [bind]. eexists. split; [reflexivity|]. cbn [map snd]. rewrite Hmap. reflexivity. }
    destruct p as [| |d]; destruct (ohd vs) as [x|].
    + apply (Hemit false x Hd1 Hx1); [left; reflexivity|exact Hc].
    + discriminate Hd1.
    + apply Bool.andb_true_iff in Hd1. destruct Hd1 as [Hs Hdx].
      apply (Hemit true x Hdx Hx1); [right; exact Hs|exact Hc].
    + apply IH; assumption.
    + apply Bool.andb_true_iff in Hd1. destruct Hd1 as [Hd1 Hdd]. apply Bool.andb_true_iff in Hd1. destruct Hd1 as [Hs Hdx].
      apply Bool.andb_true_iff in Hx1. destruct Hx1 as [Hxx Hpy].
      destruct (val_py_eq x d) as [q|] eqn:Eq; [|discriminate Hpy].
      rewrite (py_eq_is_default ft x d q Hs Hdx Hdd Eq) in Hc. destruct q.
      * apply IH; assumption.
      * apply (Hemit false x Hdx Hxx); [left; reflexivity|exact Hc].
    + apply IH; assumption.
Qed.

Theorem content_complete_deep : forall T, content_complete T.
Proof.
  induction T as [| | | | | | | | n|fs IH|fs IH|t IH|t IH|alts IH| |tg x IH|tg x IH] using ty_ind'.
  16: { exact IH. }
  16: { exact IH. }
  all: intros v e Hd Hx Hc; cbn [base_of] in *.
  (* the simple types *)
  all: try (cbn [der_ref_deep deep_extra] in Hd, Hx;
            match type of Hc with canon false ?B _ = _ =>
              assert (Hex: der_exact_base B v = true) by (unfold der_exact_base; rewrite Hd, Hx; reflexivity);
              destruct (der_contents_total B v Hex) as (cd & fl & Hce & Htot);
              destruct (canon_simple B v eq_refl) as [Htb Hcb]; rewrite Hc in Hcb;
              destruct Htot as [Hnone|[[content ic] Hcont]]; [rewrite Hnone in Hcb; discriminate Hcb|];
              destruct (der_contents_sound B v cd fl content ic Hd Hce Hcont) as [-> Hrc];
              rewrite Hrc in Hcb; injection Hcb as ->;
              exists (base_tag B), content, cd, fl, false;
              split; [exact Htb|split; [reflexivity|split; [exact Hce|split; [intros _; exact Hcont|split; [discriminate|reflexivity]]]]]
            end).
  - (* SEQUENCE *)
    destruct v as [bb|z|bs|bo|cs| |arcs|r|vs|xs|i x|ab]; try discriminate Hd.
    rewrite deep_seq in Hd. rewrite extra_seq in Hx. rewrite canon_seq in Hc.
    destruct (canon_fields false fs vs) as [es|] eqn:Ef; cbn [opt_bind] in Hc; [|discriminate Hc]. injection Hc as <-.
    exists (utag true 16), (concat es), EcSeq, (mkEncFlags true false true None 0 0), true.
    split; [reflexivity|split; [reflexivity|split; [vm_compute; reflexivity|split; [|split; [reflexivity|discriminate]]]]].
    intros Hlen. rewrite enc_content_seq. cbn [ef_omit_empty].
    destruct (seq_fields_complete fs IH vs es Hd Hx Ef Hlen) as (parts & Hp & Hm). rewrite Hp. cbn [bind]. rewrite Hm. reflexivity.
  - destruct v; discriminate Hd.
  - (* SEQUENCE OF *)
    destruct v as [bb|z|bs|bo|cs| |arcs|r|vs|xs|i x|ab]; try discriminate Hd. cbn [der_ref_deep deep_extra] in Hd, Hx.
    rewrite canon_seqof in Hc.
    destruct (opt_all (map (canon false t) xs)) as [es|] eqn:Ef; cbn [opt_bind] in Hc; [|discriminate Hc]. injection Hc as <-.
    exists (utag true 16), (concat es), EcSeqOfCer, (mkEncFlags true false false None 0 0), true.
    split; [reflexivity|split; [reflexivity|split; [vm_compute; reflexivity|split; [|split; [reflexivity|discriminate]]]]].
    intros Hlen. rewrite enc_content_seqof. rewrite (seqof_parts_complete t IH xs es Hd Hx Ef Hlen). reflexivity.
  - destruct v; discriminate Hd.
  - destruct v; discriminate Hd.
  - destruct v; discriminate Hd.
Qed.

(* Completeness on the fragment *)
Theorem der_is_reference_deep_complete : forall T v b,
  der_exact_deep T v = true -> X690.der T v = Some b -> N.of_nat (length b) < max_len ->
  encode DER true 0 T v = Ok b.
Proof.
  intros T v b Hx Hr Hlen. unfold der_exact_deep in Hx. apply Bool.andb_true_iff in Hx. destruct Hx as [Hd Hx].
  exact (complete_of_content T (content_complete_deep T) false v b Hd Hx (or_introl eq_refl) Hr Hlen).
Qed.

(* the two directions together: on the fragment, for encodings of expressible length, the DER encoder
   and the reference are the same partial function *)
Corollary der_encoder_is_reference_deep : forall T v b,
  der_exact_deep T v = true -> N.of_nat (length b) < max_len ->
  (encode DER true 0 T v = Ok b <-> X690.der T v = Some b).
Proof.
  intros T v b Hx Hlen. split.
  - apply der_is_reference_deep. unfold der_exact_deep in Hx. apply Bool.andb_true_iff in Hx. tauto.
  - intros Hr. apply der_is_reference_deep_complete; assumption.
Qed.

(* ---- witnesses for the fragment ---- *)

(* [APPLICATION 7] IMPLICIT SEQUENCE { INTEGER, [0] IMPLICIT UTF8String OPTIONAL,
     [1] EXPLICIT BOOLEAN DEFAULT FALSE (equal to its default: omitted), [2] IMPLICIT INTEGER DEFAULT 5 (6: written),
     [3] EXPLICIT SEQUENCE OF SEQUENCE { OBJECT IDENTIFIER, NULL OPTIONAL }, BIT STRING OPTIONAL (absent) } *)
Example der_is_reference_deep_witness :
  let T := TImp (mkTag Appl false 7) (TSeq [
     (Req, TInt);
     (Opt, TImp (mkTag Ctx false 0) (TStr 12));
     (Def (VBool false), TExp (mkTag Ctx false 1) TBool);
     (Def (VInt 5), TImp (mkTag Ctx false 2) TInt);
     (Req, TExp (mkTag Ctx false 3) (TSeqOf (TSeq [(Req, TOid); (Opt, TNull)])));
     (Opt, TBits)]) in
  let v := VRec [Some (VInt 300); Some (VChars [[104];[105]]); Some (VBool false); Some (VInt 6);
     Some (VList [VRec [Some (VOid [1;2;840]); Some VNull]; VRec [Some (VOid [2;5]); None]]); None] in
  let b := [103; 29; 2; 2; 1; 44; 128; 2; 104; 105; 130; 1; 6; 163; 16; 48;
            14; 48; 7; 6; 3; 42; 134; 72; 5; 0; 48; 3; 6; 1; 85] in
  der_ref_deep T v = true /\ der_exact_deep T v = true /\ encode DER true 0 T v = Ok b /\ der T v = Some b.
Proof. vm_compute. repeat split. Qed.

Example der_is_reference_deep_witness_nested :
  let T := TSeqOf (TSeqOf TBool) in let v := VList [VList []; VList [VBool true]] in
  der_exact_deep T v = true /\ encode DER true 0 T v = Ok [48; 7; 48; 0; 48; 3; 1; 1; 255]
  /\ der T v = Some [48; 7; 48; 0; 48; 3; 1; 1; 255].
Proof. vm_compute. repeat split. Qed.

(* why OPTIONAL components of the fragment are of simple type: a present, empty OPTIONAL SEQUENCE OF
   is left out by the library's DER encoder, while X.690 8.9/8.10 encodes it (known finding F24) *)
Example der_deep_excludes_empty_optional_constructed :
  let T := TSeq [(Opt, TSeqOf TInt)] in let v := VRec [Some (VList [])] in
  encode DER true 0 T v = Ok [48; 0] /\ der T v = Some [48; 2; 48; 0] /\ der_ref_deep T v = false.
Proof. vm_compute. repeat split. Qed.

(* why mandatory components must be assigned: an unassigned mandatory component whose type has only
   OPTIONAL members is encoded by the library as present and empty; the reference has no encoding *)
Example der_deep_excludes_unassigned_mandatory :
  let T := TSeq [(Req, TSeq [(Opt, TInt)])] in let v := VRec [None] in
  encode DER true 0 T v = Ok [48; 2; 48; 0] /\ der T v = None /\ der_ref_deep T v = false.
Proof. vm_compute. repeat split. Qed.

Print Assumptions split_ident_ident.
Print Assumptions frame_is_ref.
Print Assumptions frame_total.
Print Assumptions canon_wrappers.
Print Assumptions der_contents_sound.
Print Assumptions der_is_reference_simple.
Print Assumptions der_is_reference_stage1.
Print Assumptions der_is_reference_complete.
Print Assumptions der_refusal_is_reference.
Print Assumptions content_sound_deep.
Print Assumptions der_is_reference_deep.
Print Assumptions der_is_reference_deep_complete.
Print Assumptions der_encoder_is_reference_deep.

(* Leaf content octets, OBJECT IDENTIFIER and BIT STRING:
   - the decoder's reading inverts the encoder's writing (for every arc list the encoder
     accepts, for every bit list of every length);
   - the independent reference of Spec/X690.v (8.19, 8.6) coincides with the model. *)
From Coq Require Import Lia NArith ZArith ZifyNat ZifyN.
From PV Require Import Base.Bytes Model.Tag Model.Enc Model.Dec Spec.X690
                       Proofs.Bits Proofs.TagOctets Proofs.SpecOctets.
Local Open Scope N_scope.

Ltac Zify.zify_post_hook ::= Z.div_mod_to_equations.

(* ====================================================================== *)
(* A. OBJECT IDENTIFIER                                                    *)
(* ====================================================================== *)

(* the inner loop of [oid_subids], with its continuation made a parameter *)
Definition more_gen (k: bytes -> res (list N)) :=
  fix more (fuel2: nat) (acc: N) (next: N) (r: bytes) : res (list N) :=
    match fuel2 with
    | O => Err EOutOfFuel
    | S f2 =>
        if N.leb 128 next then
          match r with
          | [] => Err EUnderrun
          | n' :: r' => more f2 (N.shiftl acc 7 + N.land next 127) n' r'
          end
        else do rest <- k r; Ok ((N.shiftl acc 7 + next) :: rest)
    end.

Lemma more_gen_S k f2 acc next r :
  more_gen k (S f2) acc next r =
  if N.leb 128 next then
    match r with
    | [] => Err EUnderrun
    | n' :: r' => more_gen k f2 (N.shiftl acc 7 + N.land next 127) n' r'
    end
  else do rest <- k r; Ok ((N.shiftl acc 7 + next) :: rest).
Proof. reflexivity. Qed.

Lemma oid_subids_S f s r :
  oid_subids (S f) (s :: r) =
  if N.ltb s 128 then do rest <- oid_subids f r; Ok (s :: rest)
  else if N.eqb s 128 then Err EMalformed
  else more_gen (oid_subids f) (S (length r)) 0 s r.
Proof. reflexivity. Qed.

Lemma dec_b128_cons acc o r :
  dec_b128 acc (o :: r) =
  if N.eqb (N.land o 128) 0 then Some (N.lor (N.shiftl acc 7) (N.land o 127), r)
  else dec_b128 (N.lor (N.shiftl acc 7) (N.land o 127)) r.
Proof. reflexivity. Qed.

(* whenever the first octet is not 0x80 the decoder's three-way test is the inner loop *)
Lemma oid_subids_head f s r : s <> 128 ->
  oid_subids (S f) (s :: r) = more_gen (oid_subids f) (S (length r)) 0 s r.
Proof.
  intros Hne. rewrite oid_subids_S, more_gen_S.
  destruct (N.ltb_spec s 128) as [Hlt|Hge].
  - destruct (N.leb_spec 128 s); [lia|]. rewrite N.shiftl_0_l, N.add_0_l. reflexivity.
  - destruct (N.eqb_spec s 128); [congruence|].
    destruct (N.leb_spec 128 s); [|lia]. reflexivity.
Qed.

Lemma shl7_add acc m : m < 128 -> N.lor (N.shiftl acc 7) m = N.shiftl acc 7 + m.
Proof. intros H. rewrite lor_shl7 by assumption. rewrite shiftl_mul. reflexivity. Qed.

(* on a well-shaped group (continuation octets then a last octet) the inner loop computes
   what [dec_b128] computes *)
Lemma more_gen_dec : forall r next, cont_then_last (next :: r) = true ->
  forall k fuel acc tail, (length (next :: r) <= fuel)%nat ->
  more_gen k fuel acc next (r ++ tail) =
  match dec_b128 acc ((next :: r) ++ tail) with
  | Some (v, t) => do rest <- k t; Ok (v :: rest)
  | None => Err EUnderrun
  end.
Proof.
  induction r as [|o2 r' IH]; intros next Hs k fuel acc tail Hf.
  - cbn [cont_then_last] in Hs. apply N.ltb_lt in Hs.
    destruct fuel as [|f2]; [cbn [length] in Hf; lia|].
    rewrite more_gen_S. cbn [app]. rewrite dec_b128_cons.
    destruct (N.leb_spec 128 next); [lia|].
    rewrite (land128_lo _ Hs). cbn [N.eqb].
    rewrite land127, N.mod_small by assumption. rewrite shl7_add by assumption. reflexivity.
  - change (cont_then_last (next :: o2 :: r'))
      with (N.leb 128 next && N.ltb next 256 && cont_then_last (o2 :: r')) in Hs.
    apply andb_prop in Hs. destruct Hs as [Hs Hr]. apply andb_prop in Hs. destruct Hs as [H1 H2].
    apply N.leb_le in H1. apply N.ltb_lt in H2.
    destruct fuel as [|f2]; [cbn [length] in Hf; lia|].
    rewrite more_gen_S. cbn [app]. rewrite dec_b128_cons.
    destruct (N.leb_spec 128 next); [|lia].
    rewrite (IH o2 Hr) by (cbn [length] in Hf |- *; lia).
    assert (Hm: N.land next 127 < 128) by (rewrite land127; apply N.mod_lt; lia).
    replace next with (128 + (next - 128)) at 2 by lia.
    rewrite land128_hi by lia. cbn [N.eqb].
    rewrite shl7_add by assumption. reflexivity.
Qed.

Lemma b128_hi_0 fuel acc : b128_hi fuel 0 acc = acc.
Proof. destruct fuel; reflexivity. Qed.

Lemma b128_small n : n < 128 -> b128 n = [n].
Proof.
  intros H. unfold b128. rewrite shiftr7, land127, N.div_small, N.mod_small by assumption.
  apply b128_hi_0.
Qed.

Lemma b128_nonempty n : b128 n <> [].
Proof. intros H. pose proof (b128_shape n) as Hs. rewrite H in Hs. discriminate. Qed.

(* a sub-identifier never starts with 0x80 *)
Lemma b128_head n : exists s r, b128 n = s :: r /\ s <> 128.
Proof.
  destruct (N.lt_ge_cases n 128) as [Hlt|Hge].
  - exists n, []. split; [apply b128_small; assumption|lia].
  - apply b128_minimal; assumption.
Qed.

(* reading one sub-identifier followed by anything *)
Lemma oid_subids_b128_one n tail f :
  oid_subids (S f) (b128 n ++ tail) = do rest <- oid_subids f tail; Ok (n :: rest).
Proof.
  pose proof (b128_shape n) as Hs. pose proof (dec_b128_b128 n tail) as Hd.
  destruct (b128_head n) as (s & r & E & Hne). rewrite E in Hs, Hd |- *.
  rewrite <- app_comm_cons. rewrite oid_subids_head by assumption.
  rewrite (more_gen_dec r s Hs) by (cbn [length]; rewrite app_length; lia).
  rewrite Hd. reflexivity.
Qed.

Theorem oid_subids_b128 : forall subs fuel, (length subs < fuel)%nat ->
  oid_subids fuel (concat (map b128 subs)) = Ok subs.
Proof.
  induction subs as [|n subs IH]; intros fuel Hf.
  - destruct fuel; [lia|]. reflexivity.
  - destruct fuel as [|f]; [lia|]. cbn [map concat].
    rewrite oid_subids_b128_one. rewrite IH by (cbn [length] in Hf; lia). reflexivity.
Qed.

Lemma length_concat_b128 subs : (length subs <= length (concat (map b128 subs)))%nat.
Proof.
  induction subs as [|n subs IH]; [apply Nat.le_refl|].
  cbn [map concat length]. rewrite app_length.
  pose proof (b128_nonempty n). destruct (b128 n); [congruence|]. cbn [length]. lia.
Qed.

Lemma dec_oid_nonempty b : b <> [] ->
  dec_oid b = do subs <- oid_subids (S (length b)) b;
              match subs with
              | [] => Err (ECrash IndexError)
              | x :: r => if N.leb x 39 then Ok (0 :: x :: r)
                          else if N.leb x 79 then Ok (1 :: (x - 40) :: r)
                          else Ok (2 :: (x - 80) :: r)
              end.
Proof. destruct b; [congruence|reflexivity]. Qed.

(* the decoder on what the encoder writes for a non-empty list of sub-identifiers *)
Lemma dec_oid_subs x rest :
  dec_oid (concat (map b128 (x :: rest))) =
  if N.leb x 39 then Ok (0 :: x :: rest)
  else if N.leb x 79 then Ok (1 :: (x - 40) :: rest)
  else Ok (2 :: (x - 80) :: rest).
Proof.
  rewrite dec_oid_nonempty.
  - rewrite oid_subids_b128; [reflexivity|].
    pose proof (length_concat_b128 (x :: rest)). lia.
  - cbn [map concat]. intros H. apply app_eq_nil in H. destruct H as [H _].
    exact (b128_nonempty x H).
Qed.

Lemma oid_first_inv arcs subs : oid_first arcs = Ok subs ->
  exists first second rest x, arcs = first :: second :: rest /\ subs = x :: rest /\
    ((first = 0 /\ second <= 39 /\ x = second) \/
     (first = 1 /\ second <= 39 /\ x = second + 40) \/
     (first = 2 /\ x = second + 80)).
Proof.
  destruct arcs as [|first [|second rest]]; try discriminate.
  unfold oid_first. intros H.
  destruct (N.leb_spec second 39) as [H39|H39].
  - destruct (N.eqb_spec first 1) as [->|N1].
    { injection H as <-. exists 1, second, rest, (second + 40). repeat split; auto. }
    destruct (N.eqb_spec first 0) as [->|N0].
    { injection H as <-. exists 0, second, rest, second. repeat split; auto. }
    destruct (N.eqb_spec first 2) as [->|N2]; [|discriminate].
    injection H as <-. exists 2, second, rest, (second + 80). repeat split; auto.
  - destruct (N.eqb_spec first 2) as [->|N2]; [|discriminate].
    injection H as <-. exists 2, second, rest, (second + 80). repeat split; auto.
Qed.

Theorem oid_roundtrip : forall arcs b, enc_oid arcs = Ok b -> dec_oid b = Ok arcs.
Proof.
  intros arcs b. unfold enc_oid.
  destruct (oid_first arcs) as [subs|e] eqn:E; cbn [bind]; [|discriminate].
  intros H. injection H as <-.
  destruct (oid_first_inv _ _ E) as (first & second & rest & x & -> & -> & Hc).
  rewrite dec_oid_subs.
  destruct Hc as [(-> & H39 & ->)|[(-> & H39 & ->)|(-> & ->)]].
  - destruct (N.leb_spec second 39); [reflexivity|lia].
  - destruct (N.leb_spec (second + 40) 39); [lia|].
    destruct (N.leb_spec (second + 40) 79); [|lia].
    replace (second + 40 - 40) with second by lia. reflexivity.
  - destruct (N.leb_spec (second + 80) 39); [lia|].
    destruct (N.leb_spec (second + 80) 79); [lia|].
    replace (second + 80 - 80) with second by lia. reflexivity.
Qed.

(* ====================================================================== *)
(* B. reference (X.690 8.19) = model                                       *)
(* ====================================================================== *)

Lemma subid_octets_is_b128 n : subid_octets n = b128 n.
Proof. unfold subid_octets. apply digits_of_128_is_b128. Qed.

Theorem oid_contents_is_enc_oid : forall arcs,
  oid_contents arcs = match enc_oid arcs with Ok b => Some b | Err _ => None end.
Proof.
  intros arcs.
  assert (Hm: forall l, map subid_octets l = map b128 l)
    by (intros l; apply map_ext; intros; apply subid_octets_is_b128).
  destruct arcs as [|a1 [|a2 rest]]; try reflexivity.
  unfold oid_contents, enc_oid, oid_first. rewrite Hm.
  destruct (N.leb_spec a2 39) as [H39|H39];
    destruct (N.eqb_spec a1 1) as [E1|E1]; destruct (N.eqb_spec a1 0) as [E0|E0];
    destruct (N.eqb_spec a1 2) as [E2|E2]; destruct (N.leb_spec a1 2) as [L2|L2];
    try lia; cbn [andb orb bind]; try reflexivity; subst a1.
  all: try (replace (40 * 1 + a2) with (a2 + 40) by lia; reflexivity).
  all: try (replace (40 * 0 + a2) with a2 by lia; reflexivity).
  all: try (replace (40 * 2 + a2) with (a2 + 80) by lia; reflexivity).
Qed.

(* ====================================================================== *)
(* C. BIT STRING                                                           *)
(* ====================================================================== *)

Lemma be_bytes_length k : forall n, length (be_bytes k n) = k.
Proof.
  induction k as [|k IH]; intros n; cbn [be_bytes]; [reflexivity|].
  rewrite app_length, IH. cbn [length]. lia.
Qed.

Lemma N_to_bits_length k : forall n, length (N_to_bits k n) = k.
Proof.
  induction k as [|k IH]; intros n; cbn [N_to_bits]; [reflexivity|].
  rewrite app_length, IH. cbn [length]. lia.
Qed.

Lemma pow2_nz k : 2 ^ k <> 0.
Proof. apply N.pow_nonzero. discriminate. Qed.

(* only the low k bits matter *)
Lemma N_to_bits_mod k : forall n, N_to_bits k (n mod 2 ^ N.of_nat k) = N_to_bits k n.
Proof.
  induction k as [|k IH]; intros n; [reflexivity|].
  cbn [N_to_bits]. f_equal.
  - rewrite <- (IH (n / 2)). f_equal.
    rewrite Nat2N.inj_succ, N.pow_succ_r'.
    rewrite N.mod_mul_r by (try apply pow2_nz; discriminate).
    rewrite N.add_comm, N.mul_comm, N.div_add_l by discriminate.
    rewrite (N.div_small (n mod 2)) by (apply N.mod_lt; discriminate).
    apply N.add_0_r.
  - f_equal. rewrite <- !N.bit0_odd. apply N.mod_pow2_bits_low. lia.
Qed.

Lemma N_to_bits_app a : forall b n,
  N_to_bits (a + b) n = N_to_bits a (n / 2 ^ N.of_nat b) ++ N_to_bits b n.
Proof.
  induction b as [|b IH]; intros n.
  - rewrite Nat.add_0_r. cbn [N_to_bits N.of_nat]. rewrite N.pow_0_r, N.div_1_r, app_nil_r. reflexivity.
  - rewrite Nat.add_succ_r. cbn [N_to_bits]. rewrite IH, app_assoc. f_equal. f_equal.
    rewrite Nat2N.inj_succ, N.pow_succ_r'.
    rewrite N.div_div by (try apply pow2_nz; discriminate). reflexivity.
Qed.

Lemma octets_to_bits_be_bytes k : forall n, octets_to_bits (be_bytes k n) = N_to_bits (8 * k) n.
Proof.
  induction k as [|k IH]; intros n; [reflexivity|].
  cbn [be_bytes]. unfold octets_to_bits in *. rewrite map_app, concat_app, IH.
  cbn [map concat]. rewrite app_nil_r.
  replace (8 * S k)%nat with (8 * k + 8)%nat by lia.
  rewrite N_to_bits_app. change (2 ^ N.of_nat 8) with 256. f_equal.
  apply (N_to_bits_mod 8 n).
Qed.

Lemma bits_to_N_snoc l : forall acc b,
  bits_to_N acc (l ++ [b]) = 2 * bits_to_N acc l + (if b then 1 else 0).
Proof. induction l as [|x l IH]; intros; cbn [app bits_to_N]; [reflexivity|apply IH]. Qed.

Lemma bits_to_N_app l : forall acc m, bits_to_N acc (l ++ m) = bits_to_N (bits_to_N acc l) m.
Proof. induction l as [|x l IH]; intros; cbn [app bits_to_N]; [reflexivity|apply IH]. Qed.

Lemma bits_to_N_repeat_false p : forall acc,
  bits_to_N acc (repeat false p) = acc * 2 ^ N.of_nat p.
Proof.
  induction p as [|p IH]; intros acc.
  - cbn [repeat bits_to_N N.of_nat]. rewrite N.pow_0_r. lia.
  - cbn [repeat bits_to_N]. rewrite IH, Nat2N.inj_succ, N.pow_succ_r'. lia.
Qed.

Lemma bits_to_N_pad bs p : bits_to_N 0 (bs ++ repeat false p) = bits_to_N 0 bs * 2 ^ N.of_nat p.
Proof. rewrite bits_to_N_app. apply bits_to_N_repeat_false. Qed.

Lemma N_to_bits_bits_to_N l : N_to_bits (length l) (bits_to_N 0 l) = l.
Proof.
  induction l as [|b l IH] using rev_ind; [reflexivity|].
  rewrite app_length, bits_to_N_snoc. cbn [length]. rewrite Nat.add_1_r. cbn [N_to_bits].
  f_equal.
  - replace ((2 * bits_to_N 0 l + (if b then 1 else 0)) / 2) with (bits_to_N 0 l); [exact IH|].
    destruct b; lia.
  - f_equal. rewrite N.add_comm, N.odd_add_mul_2. destruct b; reflexivity.
Qed.

Theorem pad_of_lt n : (pad_of n < 8)%nat.
Proof. unfold pad_of. lia. Qed.

Lemma pad_aligned n : ((n + pad_of n) mod 8 = 0)%nat.
Proof. unfold pad_of. lia. Qed.

Theorem bits_octets_length bs :
  length (bits_octets bs) = ((length bs + pad_of (length bs)) / 8)%nat.
Proof.
  unfold bits_octets. cbv zeta. rewrite be_bytes_length, app_length, repeat_length. reflexivity.
Qed.

Theorem bits_roundtrip : forall bs,
  bits_of_octets (bits_octets bs) (N.of_nat (pad_of (length bs))) = Ok bs.
Proof.
  intros bs. unfold bits_of_octets, bits_octets. cbv zeta.
  set (p := pad_of (length bs)). set (padded := bs ++ repeat false p).
  rewrite be_bytes_length, Nat2N.id.
  assert (HL: length padded = (length bs + p)%nat)
    by (subst padded; rewrite app_length, repeat_length; reflexivity).
  assert (H8: (8 * (length padded / 8) = length padded)%nat).
  { rewrite HL. pose proof (pad_aligned (length bs)) as Ha. fold p in Ha. lia. }
  rewrite H8. destruct (Nat.ltb_spec (length padded) p) as [Hc|_]; [lia|].
  rewrite octets_to_bits_be_bytes, H8, N_to_bits_bits_to_N.
  replace (length padded - p)%nat with (length bs) by lia.
  subst padded. rewrite firstn_app_exact. reflexivity.
Qed.

(* ====================================================================== *)
(* D. reference (X.690 8.6) = model                                        *)
(* ====================================================================== *)

Lemma octets_of_N_be_bytes k : forall n, octets_of_N k n = be_bytes k n.
Proof. induction k as [|k IH]; intros n; cbn [octets_of_N be_bytes]; [reflexivity|]. rewrite IH. reflexivity. Qed.

Lemma bits_to_N_value l : forall acc,
  bits_to_N acc l = acc * 2 ^ N.of_nat (length l) + bits_value l.
Proof.
  induction l as [|b l IH]; intros acc.
  - cbn [bits_to_N length bits_value N.of_nat]. rewrite N.pow_0_r. lia.
  - cbn [bits_to_N length bits_value]. rewrite IH, Nat2N.inj_succ, N.pow_succ_r'.
    destruct b; lia.
Qed.

Lemma bits_to_N_is_bits_value l : bits_to_N 0 l = bits_value l.
Proof. rewrite bits_to_N_value. lia. Qed.

Theorem bitstring_contents_is_enc_bits_prim : forall bs, bitstring_contents bs = enc_bits_prim bs.
Proof.
  intros bs. unfold bitstring_contents, enc_bits_prim, bits_octets, pad_of. cbv zeta. f_equal.
  rewrite octets_of_N_be_bytes, app_length, repeat_length. f_equal.
  rewrite bits_to_N_pad, bits_to_N_is_bits_value. reflexivity.
Qed.

Print Assumptions oid_subids_b128.
Print Assumptions oid_roundtrip.
Print Assumptions oid_contents_is_enc_oid.
Print Assumptions bits_roundtrip.
Print Assumptions bits_octets_length.
Print Assumptions pad_of_lt.
Print Assumptions bitstring_contents_is_enc_bits_prim.

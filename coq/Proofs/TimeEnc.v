(* C20, second sentence: what TimeEncoderMixIn.encodeValue makes of a UTC time string
   digits '.' digits 'Z', when its output is canonical, and when it denotes the same instant
   per X.680 (Spec/X680Time.v). *)
From Coq Require Import Lia.
From PV Require Import Base.Bytes Spec.X680Time Model.Time Proofs.TimeText.
Local Open Scope N_scope.

Definition nz : text -> text := filter (fun c => negb (c =? 48)).
Definition squeeze_n (n: nat) (l: text) : text := nz (firstn n l) ++ skipn n l.
Definition dotfrac (f: text) : text := match f with [] => [] | _ => 46 :: f end.

Lemma squeeze_is_squeeze_n l : squeeze l = squeeze_n 4 l. Proof. reflexivity. Qed.

(* ---------- list facts ---------- *)

Lemma has_rev c l : has c (rev l) = has c l.
Proof.
  induction l as [|x l IH]; [reflexivity|].
  cbn [rev]. rewrite has_app, IH, !has_cons. cbn [has existsb]. rewrite orb_false_r. apply orb_comm.
Qed.

Lemma skipn_app_len {A} (a b: list A) n : skipn (length a + n) (a ++ b) = skipn n b.
Proof. induction a; [reflexivity|]. cbn [length Nat.add app skipn]. assumption. Qed.

Lemma firstn_min_len {A} (l: list A) n : firstn (Nat.min n (length l)) l = firstn n l.
Proof.
  destruct (Nat.le_ge_cases n (length l)) as [H|H].
  - rewrite Nat.min_l by assumption. reflexivity.
  - rewrite Nat.min_r by assumption. rewrite !firstn_all2 by lia. reflexivity.
Qed.
Lemma skipn_min_len {A} (l: list A) n : skipn (Nat.min n (length l)) l = skipn n l.
Proof.
  destruct (Nat.le_ge_cases n (length l)) as [H|H].
  - rewrite Nat.min_l by assumption. reflexivity.
  - rewrite Nat.min_r by assumption. rewrite !skipn_all2 by lia. reflexivity.
Qed.

Lemma nz_app a b : nz (a ++ b) = nz a ++ nz b.
Proof. apply filter_app. Qed.

(* ---------- the loop ---------- *)

Lemma scan_back_spec r : forall l acc, has 46 l = false ->
  scan_back (l ++ 46 :: r) acc = Some (r, nz (rev l) ++ acc).
Proof.
  induction l as [|c l IH]; intros acc H.
  - reflexivity.
  - rewrite has_cons in H. apply orb_false_iff in H. destruct H as [Hc Hl].
    cbn [app scan_back rev]. rewrite N.eqb_sym, Hc, nz_app.
    destruct (N.eqb_spec c 48) as [->|Hn].
    + rewrite IH by assumption. cbn. rewrite app_nil_r. reflexivity.
    + rewrite IH by assumption. unfold nz at 3. cbn [filter].
      apply N.eqb_neq in Hn. rewrite Hn. cbn [negb]. rewrite <- app_assoc. reflexivity.
Qed.

Lemma trim_shape pre X : has 46 pre = false -> has 46 X = false -> X <> [] ->
  trim (pre ++ 46 :: X) =
  match squeeze_n 4 X with
  | c :: _ => if c =? 90 then pre ++ squeeze_n 4 X else pre ++ 46 :: squeeze_n 4 X
  | [] => pre ++ [46]
  end.
Proof.
  intros Hp HX Hne. unfold trim.
  rewrite length_split_at_fst by assumption.
  replace (pre ++ 46 :: X) with ((pre ++ [46]) ++ X) by (rewrite <- app_assoc; reflexivity).
  assert (Hi: S (Nat.min (length pre + 4) (length ((pre ++ [46]) ++ X) - 1))
              = (length (pre ++ [46%N]) + Nat.min 4 (length X))%nat).
  { rewrite !app_length. cbn [length]. destruct X; [congruence|]. cbn [length]. lia. }
  rewrite Hi, firstn_app_2, skipn_app_len, firstn_min_len, skipn_min_len.
  rewrite rev_app_distr, rev_unit.
  rewrite scan_back_spec.
  2:{ rewrite has_rev. clear -HX. revert HX. generalize 4%nat. induction X as [|x X IH]; intros n H.
      - destruct n; reflexivity.
      - destruct n; [reflexivity|]. rewrite has_cons in H. apply orb_false_iff in H.
        cbn [firstn]. rewrite has_cons. destruct H as [-> H]. apply IH. assumption. }
  rewrite rev_involutive, app_nil_r. fold (squeeze_n 4 X). rewrite rev_involutive. reflexivity.
Qed.

Lemma squeeze_n_snoc : forall n X, squeeze_n n (X ++ [90]) = squeeze_n n X ++ [90].
Proof.
  induction n as [|n IH]; intros X; [reflexivity|].
  destruct X as [|x X].
  - unfold squeeze_n. cbn [app firstn skipn]. rewrite firstn_nil, skipn_nil. reflexivity.
  - unfold squeeze_n in *. cbn [app firstn skipn nz filter].
    destruct (negb (x =? 48)); cbn [app]; rewrite IH; reflexivity.
Qed.

Lemma forallb_filter {A} (p q: A -> bool) l : forallb p l = true -> forallb p (filter q l) = true.
Proof.
  induction l as [|x l IH]; [reflexivity|]. cbn [forallb filter]. rewrite andb_true_iff.
  intros [H1 H2]. destruct (q x); cbn [forallb]; rewrite ?H1; auto.
Qed.
Lemma forallb_firstn {A} (p: A -> bool) l : forall n, forallb p l = true -> forallb p (firstn n l) = true.
Proof.
  induction l as [|x l IH]; intros n H; [rewrite firstn_nil; reflexivity|].
  destruct n; [reflexivity|]. cbn [forallb firstn] in *. apply andb_true_iff in H. destruct H as [H1 H2].
  rewrite H1, IH by assumption. reflexivity.
Qed.
Lemma forallb_skipn {A} (p: A -> bool) l : forall n, forallb p l = true -> forallb p (skipn n l) = true.
Proof.
  induction l as [|x l IH]; intros n H; [rewrite skipn_nil; reflexivity|].
  destruct n; [exact H|]. cbn [forallb skipn] in *. apply andb_true_iff in H. destruct H as [H1 H2]. auto.
Qed.

Lemma squeeze_n_forallb (p: N -> bool) n l : forallb p l = true -> forallb p (squeeze_n n l) = true.
Proof.
  intros H. unfold squeeze_n, nz. rewrite forallb_app, forallb_filter, forallb_skipn; auto using forallb_firstn.
Qed.

(* the loop on a string  digits . digits Z *)
Lemma trim_gram pre frac : all_digits pre = true -> all_digits frac = true ->
  trim (pre ++ 46 :: frac ++ [90]) = pre ++ dotfrac (squeeze frac) ++ [90].
Proof.
  intros Hp Hf.
  assert (Hs: all_digits (squeeze frac) = true) by (apply squeeze_n_forallb; assumption).
  rewrite trim_shape.
  - rewrite squeeze_n_snoc, <- squeeze_is_squeeze_n.
    destruct (squeeze frac) as [|c r] eqn:E; [reflexivity|].
    cbn [app dotfrac]. cbn [all_digits forallb] in Hs. apply andb_true_iff in Hs. destruct Hs as [Hc _].
    rewrite (digit_ne c 90 Hc eq_refl). reflexivity.
  - apply has_digits; [reflexivity|assumption].
  - rewrite has_app, (has_digits 46 frac eq_refl Hf). reflexivity.
  - destruct frac; discriminate.
Qed.

(* ---------- the whole transformation on such strings ---------- *)

Lemma time_enc_cons a b s : s <> [] -> time_enc a b s = time_enc_body a b s.
Proof. destruct s; [congruence|reflexivity]. Qed.

Lemma time_enc_frac a b pre frac s' :
  all_digits pre = true -> all_digits frac = true ->
  time_enc a b (pre ++ 46 :: frac ++ [90]) = Ok s' ->
  s' = pre ++ dotfrac (squeeze frac) ++ [90].
Proof.
  intros Hp Hf. rewrite time_enc_cons by (destruct pre; discriminate).
  unfold time_enc_body.
  rewrite !has_app, !has_cons, !has_app.
  rewrite (has_digits 43 pre eq_refl Hp), (has_digits 45 pre eq_refl Hp), (has_digits 44 pre eq_refl Hp).
  rewrite (has_digits 43 frac eq_refl Hf), (has_digits 45 frac eq_refl Hf), (has_digits 44 frac eq_refl Hf).
  replace (pre ++ 46 :: frac ++ [90]) with ((pre ++ 46 :: frac) ++ [90]) by (rewrite <- app_assoc; reflexivity).
  rewrite last_last. rewrite <- app_assoc. cbn [app has existsb N.eqb Pos.eqb orb negb].
  rewrite orb_true_r. rewrite trim_gram by assumption.
  destruct (_ && _); [|discriminate]. intros H. inversion H. reflexivity.
Qed.

Lemma time_enc_nofrac a b pre s' :
  all_digits pre = true -> time_enc a b (pre ++ [90]) = Ok s' -> s' = pre ++ [90].
Proof.
  intros Hp. rewrite time_enc_cons by (destruct pre; discriminate).
  unfold time_enc_body. rewrite !has_app, last_last.
  rewrite (has_digits 43 pre eq_refl Hp), (has_digits 45 pre eq_refl Hp), (has_digits 44 pre eq_refl Hp),
          (has_digits 46 pre eq_refl Hp).
  cbn [has existsb N.eqb Pos.eqb orb negb].
  destruct (_ && _); [|discriminate]. intros H. inversion H. reflexivity.
Qed.

(* non-UTC values are refused, whatever the limits *)
Theorem refuses_non_utc a b s : non_utc s = true ->
  time_enc a b s = Err (match s with [] => ECrash IndexError | _ => EMalformed end).
Proof.
  intros H. destruct s as [|c s]; [reflexivity|].
  cbn [time_enc]. unfold time_enc_body. unfold non_utc in H.
  destruct (has 43 (c :: s) || has 45 (c :: s)); [reflexivity|].
  cbn [orb] in H. rewrite H. reflexivity.
Qed.

(* ---------- canonical output ---------- *)

Lemma span_digits_app pre rest : forallb is_dig pre = true ->
  match rest with [] => True | c :: _ => is_dig c = false end ->
  span_digits (pre ++ rest) = (pre, rest).
Proof.
  induction pre as [|x pre IH]; intros Hp Hr.
  - destruct rest as [|c r]; [reflexivity|]. cbn [app span_digits]. rewrite Hr. reflexivity.
  - cbn [forallb] in Hp. apply andb_true_iff in Hp. destruct Hp as [Hx Hp].
    cbn [app span_digits]. rewrite Hx, IH by assumption. reflexivity.
Qed.

Lemma last_forallb {A} (p: A -> bool) l d : forallb p l = true -> l <> [] -> p (last l d) = true.
Proof.
  induction l as [|x l IH]; intros H Hn; [congruence|].
  cbn [forallb] in H. apply andb_true_iff in H. destruct H as [Hx Hl].
  destruct l as [|y l]; [exact Hx|]. apply IH; [assumption|discriminate].
Qed.

Lemma canonical_shape pre f : all_digits pre = true -> all_digits f = true ->
  (f = [] \/ last f 0 <> 48) -> canonical (pre ++ dotfrac f ++ [90]) = true.
Proof.
  intros Hp Hf Hl. unfold canonical.
  rewrite app_assoc, rev_unit, rev_involutive.
  rewrite span_digits_app; [|exact Hp|destruct f; exact I || reflexivity].
  destruct f as [|c r]; [reflexivity|]. cbn [dotfrac].
  change (forallb is_dig (c :: r)) with (all_digits (c :: r)). rewrite Hf.
  destruct Hl as [Hl|Hl]; [discriminate|]. apply N.eqb_neq in Hl. rewrite Hl. reflexivity.
Qed.

Lemma last_skipn {A} (l: list A) n d : (n < length l)%nat -> last (skipn n l) d = last l d.
Proof.
  intros H. rewrite <- (firstn_skipn n l) at 2. rewrite last_app_ne; [reflexivity|].
  intros E. apply (f_equal (@length A)) in E. rewrite skipn_length in E. cbn in E. lia.
Qed.

Lemma squeeze_last frac : no_far_trailing_zero frac = true ->
  squeeze frac = [] \/ last (squeeze frac) 0 <> 48.
Proof.
  unfold no_far_trailing_zero. intros H.
  destruct (Nat.le_gt_cases (length frac) 4) as [Hle|Hgt].
  - unfold squeeze. rewrite skipn_all2, firstn_all2, app_nil_r by assumption.
    destruct (filter _ frac) eqn:E; [left; reflexivity|right]. rewrite <- E.
    assert (P: forallb (fun c => negb (c =? 48)) (filter (fun c => negb (c =? 48)) frac) = true).
    { clear. induction frac as [|x l IH]; [reflexivity|]. cbn [filter].
      destruct (negb (x =? 48)) eqn:Ex; [cbn [forallb]; rewrite Ex, IH; reflexivity|exact IH]. }
    pose proof (last_forallb _ _ 0 P) as Q. rewrite E in Q. specialize (Q ltac:(discriminate)).
    rewrite <- E in Q. apply negb_true_iff, N.eqb_neq in Q. exact Q.
  - right. apply orb_true_iff in H. destruct H as [H|H]; [apply Nat.leb_le in H; lia|].
    unfold squeeze. rewrite last_app_ne.
    + rewrite last_skipn by lia. apply negb_true_iff, N.eqb_neq in H. exact H.
    + intros E. apply (f_equal (@length N)) in E. rewrite skipn_length in E. cbn in E. lia.
Qed.

Theorem canonical_output a b pre frac s' :
  all_digits pre = true -> all_digits frac = true ->
  time_enc a b (pre ++ 46 :: frac ++ [90]) = Ok s' ->
  no_far_trailing_zero frac = true ->
  canonical s' = true.
Proof.
  intros Hp Hf He Ht. rewrite (time_enc_frac _ _ _ _ _ Hp Hf He).
  apply canonical_shape; [assumption|apply squeeze_n_forallb; assumption|apply squeeze_last; assumption].
Qed.

Theorem canonical_output_nofrac a b pre s' :
  all_digits pre = true -> time_enc a b (pre ++ [90]) = Ok s' -> s' = pre ++ [90] /\ canonical s' = true.
Proof.
  intros Hp He. rewrite (time_enc_nofrac _ _ _ _ Hp He). split; [reflexivity|].
  apply (canonical_shape pre []); auto.
Qed.

(* ---------- same instant ---------- *)

Lemma fracval_zeros l : forallb (N.eqb 48) l = true -> (fracval l == 0)%Q.
Proof.
  induction l as [|c l IH]; intros H; [reflexivity|].
  cbn [forallb] in H. apply andb_true_iff in H. destruct H as [Hc Hl]. apply N.eqb_eq in Hc. subst c.
  cbn [fracval]. rewrite (IH Hl). reflexivity.
Qed.

Lemma nz_zeros l : forallb (N.eqb 48) l = true -> nz l = [].
Proof.
  induction l as [|c l IH]; intros H; [reflexivity|].
  cbn [forallb] in H. apply andb_true_iff in H. destruct H as [Hc Hl]. apply N.eqb_eq in Hc. subst c.
  cbn. apply IH. assumption.
Qed.

Lemma squeeze_n_value : forall n l, zeros_only_trailing n l = true ->
  (fracval (squeeze_n n l) == fracval l)%Q.
Proof.
  induction n as [|n IH]; intros l H; [reflexivity|].
  destruct l as [|c r]; [reflexivity|].
  cbn [zeros_only_trailing] in H. unfold squeeze_n. cbn [firstn skipn nz filter].
  destruct (N.eqb_spec c 48) as [->|Hc].
  - cbn [negb]. fold nz. rewrite (nz_zeros (firstn n r)) by (apply forallb_firstn; assumption).
    cbn [app]. rewrite (fracval_zeros (skipn n r)) by (apply forallb_skipn; assumption).
    cbn [fracval]. rewrite (fracval_zeros r H). reflexivity.
  - cbn [negb app]. fold nz. fold (squeeze_n n r). cbn [fracval]. rewrite (IH r H). reflexivity.
Qed.

Lemma split_zone_Z tt body : split_zone tt (body ++ [90]) = Some (body, Some 0%Z).
Proof. unfold split_zone. rewrite rev_unit, rev_involutive. reflexivity. Qed.

Lemma split_fraction_none pre : all_digits pre = true -> split_fraction pre = Some (pre, None).
Proof.
  intros Hp. unfold split_fraction.
  pose proof (span_digits_app pre [] Hp I) as E. rewrite app_nil_r in E. rewrite E. reflexivity.
Qed.

Lemma split_fraction_dot pre f : all_digits pre = true -> all_digits f = true ->
  split_fraction (pre ++ 46 :: f) = match f with [] => None | _ => Some (pre, Some f) end.
Proof.
  intros Hp Hf. unfold split_fraction. rewrite span_digits_app; [|exact Hp|reflexivity].
  change (forallb is_dig f) with (all_digits f). rewrite Hf. destruct f; reflexivity.
Qed.

Theorem same_instant a b tt pre frac s' i :
  all_digits pre = true -> all_digits frac = true ->
  time_enc a b (pre ++ 46 :: frac ++ [90]) = Ok s' ->
  zeros_only_trailing 4 frac = true ->
  instant tt (pre ++ 46 :: frac ++ [90]) = Some i -> instant tt s' = Some i.
Proof.
  intros Hp Hf He Hz. rewrite (time_enc_frac _ _ _ _ _ Hp Hf He).
  assert (Hs: all_digits (squeeze frac) = true) by (apply squeeze_n_forallb; assumption).
  pose proof (squeeze_n_value 4 frac Hz) as Hv. rewrite <- squeeze_is_squeeze_n in Hv.
  replace (pre ++ 46 :: frac ++ [90]) with ((pre ++ 46 :: frac) ++ [90]) by (rewrite <- app_assoc; reflexivity).
  rewrite app_assoc.
  unfold instant. rewrite !split_zone_Z.
  rewrite split_fraction_dot by assumption.
  destruct frac as [|c0 r0]; [discriminate|]. set (frac := c0 :: r0) in *.
  destruct (squeeze frac) as [|c r] eqn:E.
  - cbn [dotfrac]. rewrite app_nil_r, split_fraction_none by assumption.
    destruct (date_time tt pre) as [[secs unit]|]; [|discriminate].
    destruct tt; [|discriminate].
    intros H. rewrite <- H. do 2 f_equal. apply Qred_complete.
    rewrite <- Hv. reflexivity.
  - cbn [dotfrac]. rewrite split_fraction_dot by assumption.
    destruct (date_time tt pre) as [[secs unit]|]; [|discriminate].
    destruct tt; [|discriminate].
    intros H. rewrite <- H. do 2 f_equal. apply Qred_complete.
    rewrite Hv. reflexivity.
Qed.

(* ---------- from "in the grammar and accepted" to the shape  digits [. digits] Z ---------- *)

Lemma span_digits_spec : forall l a b, span_digits l = (a, b) ->
  l = a ++ b /\ forallb is_dig a = true.
Proof.
  induction l as [|c l IH]; intros a b H.
  - inversion H. split; reflexivity.
  - cbn [span_digits] in H. destruct (is_dig c) eqn:Ec.
    + destruct (span_digits l) as [a' b'] eqn:E. inversion H; subst.
      destruct (IH a' b eq_refl) as [-> Hd]. split; [reflexivity|]. cbn [forallb]. rewrite Ec, Hd. reflexivity.
    + inversion H; subst. split; reflexivity.
Qed.

Lemma accepted_in_grammar_shape a b tt s s' i :
  time_enc a b s = Ok s' -> instant tt s = Some i ->
  (exists pre, all_digits pre = true /\ s = pre ++ [90])
  \/ (exists pre frac, all_digits pre = true /\ all_digits frac = true /\ s = pre ++ 46 :: frac ++ [90]).
Proof.
  intros He Hi.
  destruct s as [|c0 s0]; [cbn in He; discriminate He|].
  rewrite time_enc_cons in He by discriminate.
  set (s := c0 :: s0) in *. unfold time_enc_body in He.
  destruct (has 43 s || has 45 s); [cbn [negb] in He; discriminate He|].
  destruct (N.eqb_spec (last s 0) 90) as [Hl|]; cbn [negb] in He; [|discriminate He].
  destruct (has 44 s) eqn:H44; [discriminate He|]. clear He.
  destruct (@exists_last _ s ltac:(discriminate)) as (body & z & Es).
  rewrite Es in Hl, Hi, H44 |- *. rewrite last_last in Hl. subst z.
  unfold instant in Hi. rewrite split_zone_Z in Hi.
  unfold split_fraction in Hi. destruct (span_digits body) as [main rest] eqn:Esp.
  destruct (span_digits_spec _ _ _ Esp) as [-> Hm].
  destruct rest as [|sep f].
  - left. exists main. rewrite app_nil_r. split; [exact Hm|reflexivity].
  - right. destruct ((sep =? 46) || (sep =? 44)) eqn:Esep; [|discriminate].
    cbn [andb] in Hi. destruct (forallb is_dig f) eqn:Ef; [|rewrite andb_false_r in Hi; discriminate].
    exists main, f. split; [exact Hm|]. split; [exact Ef|].
    destruct (N.eqb_spec sep 46) as [->|Hn]; [rewrite <- app_assoc; reflexivity|].
    cbn [orb] in Esep. apply N.eqb_eq in Esep. subst sep.
    rewrite !has_app, has_cons in H44. cbn [N.eqb Pos.eqb] in H44.
    rewrite orb_true_r in H44. cbn in H44. discriminate.
Qed.

Lemma frac_of_shape pre frac : all_digits pre = true -> frac_of (pre ++ 46 :: frac ++ [90]) = frac.
Proof.
  intros Hp. unfold frac_of. rewrite split_at_app by (apply has_digits; [reflexivity|assumption]).
  cbn [snd]. apply removelast_last.
Qed.

Lemma has46_digits_Z pre : all_digits pre = true -> has 46 (pre ++ [90]) = false.
Proof. intros H. rewrite has_app, (has_digits 46 pre eq_refl H). reflexivity. Qed.

(* the statement closest to the property text: any string that X.680 gives an instant to and
   that the encoder accepts *)
Theorem accepted_canonical_same_instant a b tt s s' i :
  time_enc a b s = Ok s' -> instant tt s = Some i ->
  (has 46 s = true -> no_far_trailing_zero (frac_of s) = true -> canonical s' = true)
  /\ (has 46 s = true -> zeros_only_trailing 4 (frac_of s) = true -> instant tt s' = Some i)
  /\ (has 46 s = false -> s' = s /\ canonical s' = true).
Proof.
  intros He Hi.
  destruct (accepted_in_grammar_shape _ _ _ _ _ _ He Hi) as [(pre & Hp & ->)|(pre & frac & Hp & Hf & ->)].
  - rewrite has46_digits_Z by assumption. repeat split; try discriminate.
    + apply (time_enc_nofrac _ _ _ _ Hp He).
    + apply (canonical_output_nofrac _ _ _ _ Hp He).
  - rewrite frac_of_shape by assumption. repeat split.
    + intros _ Ht. exact (canonical_output a b pre frac s' Hp Hf He Ht).
    + intros _ Hz. exact (same_instant a b tt pre frac s' i Hp Hf He Hz Hi).
    + rewrite has_app, has_cons, N.eqb_refl, orb_true_r in H. discriminate.
    + rewrite has_app, has_cons, N.eqb_refl, orb_true_r in H. discriminate.
Qed.

(* Live type maps (Model/OpenTypeMap.v): lookups after a history, independence of the moment an
   OpenType object was made, and the schema-module pattern (defined empty, filled later) evaluated. *)
From PV Require Import Model.Types Model.Proc Model.Enc Model.Dec Model.Obs Model.OpenType Model.OpenTypeDef Model.OpenTypeMap.
From PV Require Import Proofs.OpenType Proofs.OpenTypeDef.
Local Open Scope N_scope.

Lemma gov_eqb_eq : forall a b, gov_eqb a b = true -> a = b.
Proof.
  intros a b H. destruct a, b; simpl in H; try discriminate.
  - apply Z.eqb_eq in H. now subst.
  - apply list_eqb_N_eq in H. now subst.
Qed.

Lemma find_remove_same : forall g m, omap_find g (omap_remove g m) = None.
Proof.
  intros g m. induction m as [|[k t] r IH]; simpl; [reflexivity|].
  destruct (gov_eqb g k) eqn:E; [exact IH|]. simpl. rewrite E. exact IH.
Qed.

Lemma find_remove_other : forall g g' m, gov_eqb g' g = false -> omap_find g' (omap_remove g m) = omap_find g' m.
Proof.
  intros g g' m H. induction m as [|[k t] r IH]; simpl; [reflexivity|].
  destruct (gov_eqb g k) eqn:E.
  - apply gov_eqb_eq in E. subst k. rewrite H. exact IH.
  - simpl. rewrite IH. reflexivity.
Qed.

(* typeMap[g] = t registers or replaces the entry of g and nothing else *)
Theorem find_after_set : forall m g t, gov_eqb g g = true -> omap_find g (map_step m (MSet g t)) = Some t.
Proof. intros m g t H. simpl. rewrite H. reflexivity. Qed.

Theorem find_after_set_other : forall m g t g', gov_eqb g' g = false ->
  omap_find g' (map_step m (MSet g t)) = omap_find g' m.
Proof. intros m g t g' H. simpl. rewrite H. apply find_remove_other. exact H. Qed.

(* del typeMap[g] unregisters g and nothing else *)
Theorem find_after_del : forall m g, omap_find g (map_step m (MDel g)) = None.
Proof. intros. simpl. apply find_remove_same. Qed.

Theorem find_after_del_other : forall m g g', gov_eqb g' g = false ->
  omap_find g' (map_step m (MDel g)) = omap_find g' m.
Proof. intros. simpl. apply find_remove_other. assumption. Qed.

Lemma map_now_app : forall m a b, map_now m (a ++ b) = map_now (map_now m a) b.
Proof. intros. unfold map_now. apply fold_left_app. Qed.

(* two OpenType objects over one dict, whenever they were made, show the same content *)
Theorem views_agree : forall m0 h1 h2 h1' h2', h1 ++ h2 = h1' ++ h2' -> view_of m0 h1 h2 = view_of m0 h1' h2'.
Proof. intros. unfold view_of. rewrite <- !map_now_app. now rewrite H. Qed.

(* the last word on g decides, whatever the dict held when the type was defined - nothing, in particular *)
Theorem registered_later_resolves : forall m0 ops g t, gov_eqb g g = true ->
  resolve_type [] (map_now m0 (ops ++ [MSet g t])) g = Some t.
Proof.
  intros. rewrite map_now_app. unfold resolve_type. simpl omap_find at 1.
  change (map_now (map_now m0 ops) [MSet g t]) with (map_step (map_now m0 ops) (MSet g t)).
  now rewrite find_after_set.
Qed.

Theorem removed_later_unmapped : forall m0 ops g,
  resolve_type [] (map_now m0 (ops ++ [MDel g])) g = None.
Proof.
  intros. rewrite map_now_app. unfold resolve_type. simpl omap_find at 1.
  change (map_now (map_now m0 ops) [MDel g]) with (map_step (map_now m0 ops) (MDel g)).
  now rewrite find_after_del.
Qed.

(* ---- witnesses: SEQUENCE { id INTEGER, blob ANY DEFINED BY id } with a map that is empty when the
        type is defined ---- *)
Definition TL1 := TSeq [(Req, TInt); (Req, TAny)].
Definition TL2 := TSet [(Req, TInt); (Req, TSetOf (TImp (mkTag Ctx false 3) TAny))].

Lemma ex_defined_empty_then_filled :
  dec_open_live BER TL1 0 1 [] [MSet (VInt 3) Pt] [] true [48;11;2;1;3;48;6;2;1;3;2;1;252]
    = Ok (DV (TSeq [(Req, TInt); (Req, Pt)]) (VRec [Some (VInt 3); Some pt]), [])
  /\ dec_open_live BER TL1 0 1 [] [] [] true [48;11;2;1;3;48;6;2;1;3;2;1;252]
    = Ok (DV TL1 (VRec [Some (VInt 3); Some (VAny [48;6;2;1;3;2;1;252])]), [])
  /\ dec_open_live DER TL2 0 1 [] [MSet (VInt 5) TNull; MSet (VInt 3) Pt] [] true [49;15;2;1;3;49;10;163;8;48;6;2;1;3;2;1;252]
    = Ok (DV (TSet [(Req, TInt); (Req, TSetOf Pt)]) (VRec [Some (VInt 3); Some (VList [pt])]), []).
Proof. repeat split; vm_compute; reflexivity. Qed.

Lemma ex_replaced_and_removed :
  dec_open_live BER TL1 0 1 [(VInt 3, TOcts)] [MSet (VInt 3) Pt] [] true [48;11;2;1;3;48;6;2;1;3;2;1;252]
    = Ok (DV (TSeq [(Req, TInt); (Req, Pt)]) (VRec [Some (VInt 3); Some pt]), [])
  /\ dec_open_live BER TL1 0 1 [(VInt 3, Pt)] [MDel (VInt 3)] [] true [48;11;2;1;3;48;6;2;1;3;2;1;252]
    = Ok (DV TL1 (VRec [Some (VInt 3); Some (VAny [48;6;2;1;3;2;1;252])]), []).
Proof. split; vm_compute; reflexivity. Qed.

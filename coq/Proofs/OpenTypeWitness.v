(* Executable witnesses for the open-type model: non-vacuity of the C18 theorems and the classes
   where the property is refuted (F01, and the encoders before fixes/F50.diff and fixes/F51.diff). *)
From PV Require Import Model.Types Model.Proc Model.Enc Model.Dec Model.Obs Model.OpenType Proofs.OpenType.
Local Open Scope N_scope.

(* ---- the documented example: SEQUENCE { id INTEGER, blob ANY DEFINED BY id } ---- *)
Definition T1 := TSeq [(Req, TInt); (Req, TAny)].
Definition m1 : omap := [(VInt 1, TInt); (VInt 2, TOcts)].

Lemma ex_int_keyed :
  enc_open BER true 0 T1 1 (VRec [Some (VInt 1); None]) true [(TInt, VInt 12)] = Ok [48;6;2;1;1;2;1;12]
  /\ encode BER true 0 TInt (VInt 12) = Ok [2;1;12]
  /\ dec_open BER T1 0 1 m1 [] true [48;6;2;1;1;2;1;12]
     = Ok (DV (TSeq [(Req, TInt); (Req, TInt)]) (VRec [Some (VInt 1); Some (VInt 12)]), [])
  /\ dec_open BER T1 0 1 m1 [] false [48;6;2;1;1;2;1;12]
     = Ok (DV T1 (VRec [Some (VInt 1); Some (VAny [2;1;12])]), []).
Proof. repeat split; vm_compute; reflexivity. Qed.

(* unmapped governing value: the complete encoding stays, resolution on or off *)
Lemma ex_unmapped :
  resolve_type [] m1 (VInt 3) = None
  /\ dec_open BER T1 0 1 m1 [] true [48;6;2;1;3;2;1;12]
     = Ok (DV T1 (VRec [Some (VInt 3); Some (VAny [2;1;12])]), []).
Proof. split; vm_compute; reflexivity. Qed.

(* a caller-supplied map wins over the default one, and switches resolution on by itself *)
Lemma ex_override :
  resolve_type [(VInt 1, TOcts)] m1 (VInt 1) = Some TOcts
  /\ enc_open BER true 0 T1 1 (VRec [Some (VInt 1); None]) true [(TOcts, VOcts [12])] = Ok [48;6;2;1;1;4;1;12]
  /\ dec_open BER T1 0 1 m1 [(VInt 1, TOcts)] false [48;6;2;1;1;4;1;12]
     = Ok (DV (TSeq [(Req, TInt); (Req, TOcts)]) (VRec [Some (VInt 1); Some (VOcts [12])]), []).
Proof. repeat split; vm_compute; reflexivity. Qed.

(* OID-keyed map, explicitly tagged ANY in front of its governing member, constructed inner value, CER *)
Definition Tin2 := TSeq [(Req, TInt); (Req, TBool)].
Definition T2 := TSeq [(Req, TExp (mkTag Ctx true 0) TAny); (Req, TOid)].
Definition m2 : omap := [(VOid [1;3;6;1;1], TStr 12); (VOid [1;3;6;1;2], Tin2)].
Definition wire2 : bytes := [48;128;160;128;48;128;2;1;5;1;1;255;0;0;0;0;6;4;43;6;1;2;0;0].

Lemma ex_oid_keyed_cer :
  enc_open CER true 0 T2 0 (VRec [None; Some (VOid [1;3;6;1;2])]) true [(Tin2, VRec [Some (VInt 5); Some (VBool true)])] = Ok wire2
  /\ encode CER true 0 Tin2 (VRec [Some (VInt 5); Some (VBool true)]) = Ok [48;128;2;1;5;1;1;255;0;0]
  /\ dec_open CER T2 1 0 m2 [] true wire2
     = Ok (DV (TSeq [(Req, Tin2); (Req, TOid)]) (VRec [Some (VRec [Some (VInt 5); Some (VBool true)]); Some (VOid [1;3;6;1;2])]), [])
  /\ dec_open CER T2 1 0 m2 [] false wire2
     = Ok (DV T2 (VRec [Some (VAny [48;128;2;1;5;1;1;255;0;0]); Some (VOid [1;3;6;1;2])]), []).
Proof. repeat split; vm_compute; reflexivity. Qed.

(* SET OF [3] IMPLICIT ANY member, DER: every element is wrapped, then resolved *)
Definition T5 := TSeq [(Req, TInt); (Req, TSetOf (TImp (mkTag Ctx false 3) TAny))].
Lemma ex_set_of_der :
  enc_open DER true 0 T5 1 (VRec [Some (VInt 1); None]) true [(TInt, VInt 256); (TInt, VInt 1)]
    = Ok [48;16;2;1;1;49;11;131;3;2;1;1;131;4;2;2;1;0]
  /\ dec_open DER T5 0 1 m1 [] true [48;16;2;1;1;49;11;131;3;2;1;1;131;4;2;2;1;0]
     = Ok (DV (TSeq [(Req, TInt); (Req, TSetOf TInt)]) (VRec [Some (VInt 1); Some (VList [VInt 1; VInt 256])]), []).
Proof. split; vm_compute; reflexivity. Qed.

(* SET with an explicitly tagged ANY member under DER: the SET encoder orders the members by the tag
   of the typed inner value (BOOLEAN before INTEGER), so these bytes are not those of the plain
   record encoder; resolution still returns the inner value *)
Definition T6 := TSet [(Req, TInt); (Req, TExp (mkTag Ctx true 3) TAny)].
Lemma ex_sorted_set_der :
  enc_open DER true 0 T6 1 (VRec [Some (VInt 1); None]) true [(TBool, VBool true)] = Ok [49;8;163;3;1;1;255;2;1;1]
  /\ encode DER true 0 T6 (VRec [Some (VInt 1); Some (VAny [1;1;255])]) = Ok [49;8;2;1;1;163;3;1;1;255]
  /\ dec_open DER T6 0 1 [(VInt 1, TBool)] [] true [49;8;163;3;1;1;255;2;1;1]
     = Ok (DV (TSet [(Req, TInt); (Req, TBool)]) (VRec [Some (VInt 1); Some (VBool true)]), []).
Proof. repeat split; vm_compute; reflexivity. Qed.

(* the premises of the theorems are satisfiable: instance of the record facts for the example *)
Lemma ex_premises :
  rec_fields T1 = Some [(Req, TInt); (Req, TAny)] /\ is_any TAny = true /\ gov_ok TInt (VInt 1) = true
  /\ holds_blob TAny TInt = false /\ no_eoo_prefix [2;1;12] = true
  /\ (exists ce, concrete_encoder BER T1 = Ok ce /\ sorts_members (fst ce) = false).
Proof.
  repeat match goal with |- _ /\ _ => split end;
    match goal with
    | |- exists _, _ => eexists; split; [vm_compute; reflexivity | vm_compute; reflexivity]
    | |- _ => vm_compute; reflexivity
    end.
Qed.

(* ---- F01 (open, pinned): an EXPLICIT tag over a primitive in indefinite mode ---- *)
Definition Tx := TExp (mkTag Ctx true 1) TInt.
Definition m7 : omap := [(VInt 5, Tx)].

(* the round-trip premise fails for such an inner type: two octets are left over *)
Lemma f01_inner_roundtrip_fails : ~ roundtrips BER false 0 Tx.
Proof.
  intros RT. destruct (RT (VInt 5) [161;3;2;1;5;0;0] eq_refl) as [v' [H _]].
  vm_compute in H. discriminate.
Qed.

(* and the open record built from it does not come back: the record ends early, its own
   end-of-octets marker is left over, with resolution on and off *)
Lemma f01_open_record :
  exists wire, enc_open BER false 0 T1 1 (VRec [Some (VInt 5); None]) true [(Tx, VInt 5)] = Ok wire
  /\ f01_top Tx = true
  /\ (exists d, dec_open BER T1 0 1 m7 [] true wire = Ok (d, [0;0]))
  /\ (exists vs', dec_open BER T1 0 1 m7 [] false wire = Ok (DV T1 (VRec vs'), [0;0])
                 /\ nth 1 vs' None = Some (VAny [161;3;2;1;5])
                 /\ encode BER false 0 Tx (VInt 5) = Ok [161;3;2;1;5;0;0]).
Proof.
  eexists. split; [vm_compute; reflexivity|]. split; [vm_compute; reflexivity|]. split.
  - eexists. vm_compute. reflexivity.
  - eexists. split; [vm_compute; reflexivity|]. split; vm_compute; reflexivity.
Qed.

(* ---- F50 (repaired by fixes/F50.diff): tag sets alone decided that a component needs no wrapping ---- *)
Definition Ti50 := TImp (mkTag Ctx false 3) TInt.
Definition T50 := TSeq [(Req, TInt); (Req, TExp (mkTag Ctx true 3) TAny)].
(* what the unrepaired encoder emitted: the inner encoding in the place of the member, unwrapped *)
Definition T50_unwrapped := TSeq [(Req, TInt); (Req, Ti50)].

Lemma f50_unrepaired_refuted :
  f50_class (TExp (mkTag Ctx true 3) TAny) Ti50 = true
  /\ encode BER true 0 Ti50 (VInt 5) = Ok [131;1;5]
  /\ encode BER true 0 T50_unwrapped (VRec [Some (VInt 6); Some (VInt 5)]) = Ok [48;6;2;1;6;131;1;5]
  (* the member then holds the contents octets only, not the complete encoding *)
  /\ dec_open BER T50 0 1 [(VInt 6, Ti50)] [] false [48;6;2;1;6;131;1;5]
     = Ok (DV T50 (VRec [Some (VInt 6); Some (VAny [5])]), [])
  (* and resolution fails *)
  /\ dec_open BER T50 0 1 [(VInt 6, Ti50)] [] true [48;6;2;1;6;131;1;5] = Err EEndOfStream.
Proof. repeat split; vm_compute; reflexivity. Qed.

Lemma f50_repaired :
  holds_blob (TExp (mkTag Ctx true 3) TAny) Ti50 = false
  /\ enc_open BER true 0 T50 1 (VRec [Some (VInt 6); None]) true [(Ti50, VInt 5)] = Ok [48;8;2;1;6;163;3;131;1;5]
  /\ dec_open BER T50 0 1 [(VInt 6, Ti50)] [] true [48;8;2;1;6;163;3;131;1;5]
     = Ok (DV (TSeq [(Req, TInt); (Req, Ti50)]) (VRec [Some (VInt 6); Some (VInt 5)]), [])
  /\ dec_open BER T50 0 1 [(VInt 6, Ti50)] [] false [48;8;2;1;6;163;3;131;1;5]
     = Ok (DV T50 (VRec [Some (VInt 6); Some (VAny [131;1;5])]), []).
Proof. repeat split; vm_compute; reflexivity. Qed.

(* ---- F51 (repaired by fixes/F51.diff): CER/DER SET, elements of an open SEQUENCE OF [3] ANY not wrapped ---- *)
Definition T51 := TSet [(Req, TInt); (Req, TSeqOf (TExp (mkTag Ctx true 3) TAny))].
Definition T51_unwrapped := TSet [(Req, TInt); (Req, TSeqOf TOcts)].

Lemma f51_unrepaired_refuted :
  encode DER true 0 T51_unwrapped (VRec [Some (VInt 2); Some (VList [VOcts [97]])]) = Ok [49;8;2;1;2;48;3;4;1;97]
  /\ dec_open DER T51 0 1 [(VInt 2, TOcts)] [] false [49;8;2;1;2;48;3;4;1;97] = Err EMalformed.
Proof. split; vm_compute; reflexivity. Qed.

Lemma f51_repaired :
  enc_open DER true 0 T51 1 (VRec [Some (VInt 2); None]) true [(TOcts, VOcts [97])] = Ok [49;10;2;1;2;48;5;163;3;4;1;97]
  /\ dec_open DER T51 0 1 [(VInt 2, TOcts)] [] true [49;10;2;1;2;48;5;163;3;4;1;97]
     = Ok (DV (TSet [(Req, TInt); (Req, TSeqOf TOcts)]) (VRec [Some (VInt 2); Some (VList [VOcts [97]])]), []).
Proof. split; vm_compute; reflexivity. Qed.

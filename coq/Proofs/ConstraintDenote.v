(* C14, first clause: on every well-formed constraint expression applied to a value it is
   applicable to, the evaluator as coded decides membership in the set-theoretic denotation
   (and never raises a built-in exception).  Structural induction, any depth. *)
From Coq Require Import Lia.
From PV Require Import Model.Constraint Spec.SetTheory Proofs.ConstraintInd.
Local Open Scope Z_scope.

(* ---------- equality of values ---------- *)

Lemma nlist_eqb_eq : forall a b, nlist_eqb a b = true <-> a = b.
Proof.
  unfold nlist_eqb. induction a as [|x a IH]; destruct b as [|y b]; cbn [list_eqb];
    try (split; [discriminate|discriminate]); [split; reflexivity|].
  rewrite Bool.andb_true_iff, N.eqb_eq, IH. split.
  - intros [-> ->]. reflexivity.
  - intros H. inversion H. auto.
Qed.

Lemma sval_eqb_eq a b : nonbits a = true -> nonbits b = true -> (sval_eqb a b = true <-> a = b).
Proof.
  destruct a, b; cbn [nonbits sval_eqb]; intros Ha Hb; try discriminate;
    try (split; [discriminate|discriminate]).
  - rewrite Z.eqb_eq. split; [intros ->; reflexivity|intros H; inversion H; reflexivity].
  - rewrite nlist_eqb_eq. split; [intros ->; reflexivity|intros H; inversion H; reflexivity].
  - rewrite nlist_eqb_eq. split; [intros ->; reflexivity|intros H; inversion H; reflexivity].
  - rewrite nlist_eqb_eq. split; [intros ->; reflexivity|intros H; inversion H; reflexivity].
Qed.

Lemma sval_eqb_refl a : sval_eqb a a = true.
Proof.
  destruct a; cbn [sval_eqb]; try apply Z.eqb_refl; apply nlist_eqb_eq; reflexivity.
Qed.

Lemma sval_mem_in s vs :
  nonbits s = true -> forallb nonbits vs = true -> (sval_mem s vs = true <-> In s vs).
Proof.
  intros Hs Hvs. unfold sval_mem. rewrite existsb_exists. rewrite forallb_forall in Hvs. split.
  - intros [y [Hy E]]. apply sval_eqb_eq in E; [subst; exact Hy|exact Hs|apply Hvs; exact Hy].
  - intros H. exists s. split; [exact H|apply sval_eqb_refl].
Qed.

Lemma eq_dec_eqb i k :
  nonbits i = true -> nonbits k = true ->
  (if sval_eq_dec i k then true else false) = sval_eqb i k.
Proof.
  intros Hi Hk. destruct (sval_eq_dec i k) as [E|E].
  - subst. symmetry. apply sval_eqb_refl.
  - destruct (sval_eqb i k) eqn:Eb; [|reflexivity].
    apply sval_eqb_eq in Eb; [contradiction|assumption|assumption].
Qed.

Lemma map_get_component m f :
  nonbits f = true -> forallb (fun kv => nonbits (fst kv)) m = true -> map_get m f = component m f.
Proof.
  intros Hf Hm. unfold map_get, component.
  replace (find (fun kv => sval_eqb f (fst kv)) m)
    with (find (fun kv => if sval_eq_dec f (fst kv) then true else false) m); [reflexivity|].
  induction m as [|kv m IH]; [reflexivity|].
  cbn [forallb] in Hm. apply Bool.andb_true_iff in Hm. destruct Hm as [Hk Hm].
  cbn [find]. rewrite (eq_dec_eqb f (fst kv) Hf Hk). rewrite (IH Hm). reflexivity.
Qed.

Lemma component_cases m f : component m f = VNone \/ exists s, component m f = VS s.
Proof. unfold component. destruct (find _ m); [right; eexists; reflexivity|left; reflexivity]. Qed.

(* ---------- the statement proved by induction ---------- *)

Definition decides (c: constr) (idx: option sval) (x: cval) : Prop :=
  (ceval c idx x = Pass /\ denote c idx x) \/ (ceval c idx x = Fail /\ ~ denote c idx x).

Lemma wf_truthy c : wf c = true -> truthy c = true.
Proof.
  destruct c; cbn [wf truthy]; intros H; try reflexivity;
    repeat (apply Bool.andb_true_iff in H; destruct H as [H ?]); assumption.
Qed.

(* loops over operand lists *)
Lemma and_v_decides {A} (f: A -> verdict) (D: A -> Prop) (l: list A) :
  Forall (fun a => (f a = Pass /\ D a) \/ (f a = Fail /\ ~ D a)) l ->
  (and_v (map f l) = Pass /\ Forall D l) \/ (and_v (map f l) = Fail /\ ~ Forall D l).
Proof.
  induction 1 as [|a l Ha Hl IH]; [left; split; [reflexivity|constructor]|].
  cbn [map and_v]. destruct Ha as [[Ea Da]|[Ea Da]]; rewrite Ea.
  - destruct IH as [[E F]|[E F]]; [left|right]; (split; [exact E|]).
    + constructor; assumption.
    + intros H. inversion H; subst. contradiction.
  - right. split; [reflexivity|]. intros H. inversion H; subst. contradiction.
Qed.

Lemma or_v_decides {A} (f: A -> verdict) (D: A -> Prop) (l: list A) :
  Forall (fun a => (f a = Pass /\ D a) \/ (f a = Fail /\ ~ D a)) l ->
  (or_v (map f l) = Pass /\ Exists D l) \/ (or_v (map f l) = Fail /\ ~ Exists D l).
Proof.
  induction 1 as [|a l Ha Hl IH]; [right; split; [reflexivity|intros H; inversion H]|].
  cbn [map or_v]. destruct Ha as [[Ea Da]|[Ea Da]]; rewrite Ea.
  - left. split; [reflexivity|left; exact Da].
  - destruct IH as [[E F]|[E F]]; [left|right]; (split; [exact E|]).
    + right; exact F.
    + intros H. inversion H; subst; contradiction.
Qed.

Lemma excl_v_decides {A} (f: A -> verdict) (D: A -> Prop) (l: list A) :
  Forall (fun a => (f a = Pass /\ D a) \/ (f a = Fail /\ ~ D a)) l ->
  (excl_v (map f l) = Pass /\ Forall (fun a => ~ D a) l)
  \/ (excl_v (map f l) = Fail /\ ~ Forall (fun a => ~ D a) l).
Proof.
  induction 1 as [|a l Ha Hl IH]; [left; split; [reflexivity|constructor]|].
  cbn [map excl_v]. destruct Ha as [[Ea Da]|[Ea Da]]; rewrite Ea.
  - right. split; [reflexivity|]. intros H. inversion H; subst. contradiction.
  - destruct IH as [[E F]|[E F]]; [left|right]; (split; [exact E|]).
    + constructor; assumption.
    + intros H. inversion H; subst. contradiction.
Qed.

Lemma operands_decide (cs: list constr) idx x :
  Forall (fun c => forall idx x, wf c = true -> typed c idx x = true -> decides c idx x) cs ->
  forallb wf cs = true -> forallb (fun c => typed c idx x) cs = true ->
  Forall (fun c => (ceval c idx x = Pass /\ denote c idx x)
                   \/ (ceval c idx x = Fail /\ ~ denote c idx x)) cs.
Proof.
  induction 1 as [|c l Hc Hl IH]; intros Hw Ht; [constructor|].
  cbn [forallb] in Hw, Ht. apply Bool.andb_true_iff in Hw, Ht.
  destruct Hw as [Hw1 Hw2], Ht as [Ht1 Ht2].
  constructor; [exact (Hc idx x Hw1 Ht1)|exact (IH Hw2 Ht2)].
Qed.

(* ---------- InnerTypeConstraint: the two folds, as plain functions ---------- *)

Definition tagged {A} (a: option (sval * sval) * A) : bool :=
  match fst a with Some _ => true | None => false end.

Section inner_folds.
  Variable x : cval.
  Fixpoint single_v' (l: list (option (sval * sval) * constr)) (acc: option (bool * verdict)) :=
    match l with
    | [] => acc
    | (None, c') :: r => single_v' r (Some (truthy c', ceval c' None x))
    | (Some _, _) :: r => single_v' r acc
    end.
  Fixpoint single_P' (l: list (option (sval * sval) * constr)) (acc: option Prop) :=
    match l with
    | [] => acc
    | (None, c') :: r => single_P' r (Some (denote c' None x))
    | (Some _, _) :: r => single_P' r acc
    end.
  Variable i : sval.
  Fixpoint lookup_v' (l: list (option (sval * sval) * constr)) (acc: option verdict) :=
    match l with
    | [] => acc
    | (Some (k, st), c') :: r =>
        lookup_v' r (if sval_eqb i k
                     then Some (if sval_eqb st ABSENT then Fail else ceval c' None x) else acc)
    | (None, _) :: r => lookup_v' r acc
    end.
  Fixpoint lookup_P' (l: list (option (sval * sval) * constr)) (acc: Prop) : Prop :=
    match l with
    | [] => acc
    | (Some (k, st), c') :: r =>
        lookup_P' r (if sval_eq_dec i k then st <> status_absent /\ denote c' None x else acc)
    | (None, _) :: r => lookup_P' r acc
    end.
End inner_folds.
Definition single_v l x acc := single_v' x l acc.
Definition single_P l x acc := single_P' x l acc.
Definition lookup_v l i x acc := lookup_v' x i l acc.
Definition lookup_P l i x acc := lookup_P' x i l acc.

Lemma ceval_inner a0 args idx x :
  ceval (CInner (a0 :: args)) idx x =
    match single_v (a0 :: args) x None with
    | Some (true, v) => v
    | _ => if existsb tagged (a0 :: args)
           then match idx with
                | None => Fail
                | Some i => match lookup_v (a0 :: args) i x None with Some v => v | None => Fail end
                end
           else Pass
    end.
Proof. reflexivity. Qed.

Lemma denote_inner args idx x :
  denote (CInner args) idx x =
    match single_P args x None with
    | Some P => P
    | None => match idx with None => False | Some i => lookup_P args i x False end
    end.
Proof. reflexivity. Qed.

Definition rel_single (a: option (bool * verdict)) (p: option Prop) : Prop :=
  match a, p with
  | None, None => True
  | Some (true, v), Some P => (v = Pass /\ P) \/ (v = Fail /\ ~ P)
  | _, _ => False
  end.

Lemma single_related l x :
  Forall (fun a => wf (snd a) = true /\ decides (snd a) None x) l ->
  forall acc accP, rel_single acc accP -> rel_single (single_v l x acc) (single_P l x accP).
Proof.
  induction 1 as [|[[t|] c] l [Hw Hd] Hl IH]; intros acc accP Hr; [exact Hr| |].
  - cbn [single_v single_P]. apply IH. exact Hr.
  - cbn [single_v single_P]. apply IH. cbn [snd] in *. cbn [rel_single].
    rewrite (wf_truthy _ Hw). exact Hd.
Qed.

Definition rel_lookup (a: option verdict) (P: Prop) : Prop :=
  match a with
  | None => ~ P
  | Some v => (v = Pass /\ P) \/ (v = Fail /\ ~ P)
  end.

Lemma absent_eq st : sval_eqb st ABSENT = true <-> st = status_absent.
Proof.
  change status_absent with ABSENT. destruct st; cbn [sval_eqb ABSENT];
    try (split; [discriminate|discriminate]).
  rewrite nlist_eqb_eq. split; [intros ->; reflexivity|intros H; inversion H; reflexivity].
Qed.

Lemma lookup_related l i x :
  nonbits i = true ->
  Forall (fun a => match fst a with Some (k, _) => nonbits k = true | None => True end
                   /\ decides (snd a) None x) l ->
  forall acc accP, rel_lookup acc accP -> rel_lookup (lookup_v l i x acc) (lookup_P l i x accP).
Proof.
  intros Hi. induction 1 as [|[[[k st]|] c] l [Hk Hd] Hl IH]; intros acc accP Hr; [exact Hr| |].
  - cbn [lookup_v lookup_P]. apply IH. cbn [fst snd] in *.
    rewrite <- (eq_dec_eqb i k Hi Hk). destruct (sval_eq_dec i k) as [E|E]; [|exact Hr].
    cbn [rel_lookup]. destruct (sval_eqb st ABSENT) eqn:Ea.
    + right. split; [reflexivity|]. apply absent_eq in Ea. tauto.
    + assert (st <> status_absent) by (intros Hc; apply absent_eq in Hc; congruence).
      destruct Hd as [[E1 D1]|[E1 D1]]; [left|right]; (split; [exact E1|tauto]).
  - cbn [lookup_v lookup_P]. apply IH. exact Hr.
Qed.

Lemma single_v_some l x acc : acc <> None -> single_v l x acc <> None.
Proof.
  revert acc. induction l as [|[[t|] c] l IH]; intros acc H; cbn [single_v]; [exact H| |].
  - apply IH. exact H.
  - apply IH. discriminate.
Qed.

(* ---------- the theorem ---------- *)

Theorem ceval_decides : forall c idx x, wf c = true -> typed c idx x = true -> decides c idx x.
Proof.
  induction c using constr_nested_ind; intros idx x Hwf Hty.
  - (* SingleValueConstraint *)
    cbn [wf] in Hwf. apply Bool.andb_true_iff in Hwf. destruct Hwf as [Hn Hb].
    destruct vs as [|v0 vs]; [discriminate|].
    unfold decides. cbn [ceval truthy nonnil negb]. cbn [typed] in Hty.
    destruct x as [s| |m]; [|right; split; [reflexivity|intros [s [E _]]; discriminate]|discriminate].
    assert (Hs: nonbits s = true) by (destruct s; [reflexivity..|discriminate]).
    cbn [in_set]. destruct (sval_mem s (v0 :: vs)) eqn:E.
    + left. split; [reflexivity|]. exists s. split; [reflexivity|].
      apply (sval_mem_in s _ Hs Hb). exact E.
    + right. split; [reflexivity|]. intros [s' [Es Hin]]. inversion Es; subst s'.
      apply (sval_mem_in s _ Hs Hb) in Hin. congruence.
  - (* ContainedSubtypeConstraint *)
    rewrite wf_ops_contained in Hwf. rewrite typed_ops_contained in Hty.
    repeat (apply Bool.andb_true_iff in Hwf; destruct Hwf as [Hwf ?]).
    repeat (apply Bool.andb_true_iff in Hty; destruct Hty as [Hty ?]).
    destruct plain as [|p0 plain]; [|discriminate].
    destruct post as [|q0 post]; [|cbn in H3; discriminate].
    unfold decides. rewrite ceval_contained, denote_contained.
    2:{ cbn [truthy]. exact Hwf. }
    pose proof (operands_decide pre idx x H H2 H6) as Hd.
    destruct (and_v_decides (fun c => ceval c idx x) (fun c => denote c idx x) pre Hd) as [[E F]|[E F]];
      rewrite E; [left|right]; (split; [reflexivity|]).
    + split; [exact F|split; [constructor|left; reflexivity]].
    + intros [F' _]. contradiction.
  - (* ValueRangeConstraint *)
    cbn [typed] in Hty. destruct x as [[z| | | |]| |]; try discriminate.
    unfold decides. cbn [ceval truthy negb range_test as_int].
    destruct (Z.ltb_spec z lo); cbn [orb].
    + right. split; [reflexivity|]. intros [z' [E Hz]]. inversion E; subst. lia.
    + destruct (Z.gtb_spec z hi).
      * right. split; [reflexivity|]. intros [z' [E Hz]]. inversion E; subst. lia.
      * left. split; [reflexivity|]. exists z. split; [reflexivity|lia].
  - (* ValueSizeConstraint *)
    cbn [typed] in Hty. unfold decides. cbn [ceval truthy negb]. unfold size_test.
    assert (Hs: exists n, size_of x = Some n /\ has_size x n
                          /\ forall n', has_size x n' -> n' = n).
    { destruct x as [[z|b|s|a|n z]| |m]; try discriminate; cbn [size_of];
        eexists; (split; [reflexivity|split; [constructor|intros n' Hn'; inversion Hn'; reflexivity]]). }
    destruct Hs as [n [-> [Hn Hu]]].
    destruct (Z.ltb_spec n lo); cbn [orb].
    + right. split; [reflexivity|]. intros [n' [Hn' Hz]]. apply Hu in Hn'. lia.
    + destruct (Z.gtb_spec n hi).
      * right. split; [reflexivity|]. intros [n' [Hn' Hz]]. apply Hu in Hn'. lia.
      * left. split; [reflexivity|]. exists n. split; [exact Hn|lia].
  - (* PermittedAlphabetConstraint *)
    cbn [wf] in Hwf. apply Bool.andb_true_iff in Hwf. destruct Hwf as [Hn Hb].
    destruct vs as [|v0 vs]; [discriminate|].
    unfold decides. cbn [ceval truthy nonnil negb]. unfold alpha_test. cbn [typed] in Hty.
    assert (Hs: exists es, elements x = Some es /\ made_of x es
                           /\ (forall es', made_of x es' -> es' = es)
                           /\ forallb nonbits es = true).
    { destruct x as [[z|b|s|a|n z]| |m]; try discriminate; cbn [elements];
        eexists; (split; [reflexivity|split; [constructor|split;
          [intros es' He; inversion He; reflexivity|]]]);
        apply forallb_forall; intros e He; apply in_map_iff in He; destruct He as [? [<- _]];
        reflexivity. }
    destruct Hs as [es [-> [Hm [Hu Hnb]]]].
    destruct (forallb (fun e => sval_mem e (v0 :: vs)) es) eqn:E.
    + left. split; [reflexivity|]. exists es. split; [exact Hm|].
      intros e He. rewrite forallb_forall in E, Hnb.
      apply (sval_mem_in e _ (Hnb e He) Hb). apply E. exact He.
    + right. split; [reflexivity|]. intros [es' [Hm' Hall]]. apply Hu in Hm'. subst es'.
      assert (forallb (fun e => sval_mem e (v0 :: vs)) es = true); [|congruence].
      apply forallb_forall. intros e He. rewrite forallb_forall in Hnb.
      apply (sval_mem_in e _ (Hnb e He) Hb). apply Hall. exact He.
  - (* ComponentPresentConstraint *)
    unfold decides. cbn [ceval truthy negb denote]. destruct x.
    + left. split; [reflexivity|discriminate].
    + right. split; [reflexivity|]. intros Hc. apply Hc. reflexivity.
    + left. split; [reflexivity|discriminate].
  - (* ComponentAbsentConstraint *)
    unfold decides. cbn [ceval truthy negb denote]. cbn [typed] in Hty. destruct x as [s| |m].
    + right. destruct s; try discriminate; (split; [reflexivity|discriminate]).
    + left. split; reflexivity.
    + right. split; [reflexivity|discriminate].
  - (* WithComponentsConstraint *)
    rewrite wf_ops_with in Hwf. apply Bool.andb_true_iff in Hwf. destruct Hwf as [Hn Hw].
    destruct fields as [|f0 fields]; [discriminate|].
    destruct x as [s| |m]; try discriminate.
    rewrite typed_ops_with in Hty. apply Bool.andb_true_iff in Hty. destruct Hty as [Hk Ht].
    unfold decides. rewrite ceval_with, denote_with.
    assert (Hd: Forall (fun fc => (ceval (snd fc) None (map_get m (fst fc)) = Pass
                                    /\ denote (snd fc) None (component m (fst fc)))
                                  \/ (ceval (snd fc) None (map_get m (fst fc)) = Fail
                                      /\ ~ denote (snd fc) None (component m (fst fc))))
                       (f0 :: fields)).
    { revert Hw Ht. generalize (f0 :: fields) H. clear - Hk.
      induction 1 as [|[f c] l Hc Hl IH]; intros Hw Ht; [constructor|].
      cbn [forallb fst snd] in *. apply Bool.andb_true_iff in Hw, Ht.
      destruct Hw as [Hw1 Hw2], Ht as [Ht1 Ht2]. apply Bool.andb_true_iff in Hw1.
      destruct Hw1 as [Hf Hwc]. constructor; [|exact (IH Hw2 Ht2)].
      cbn [fst snd]. rewrite (map_get_component m f Hf Hk). exact (Hc None _ Hwc Ht1). }
    destruct (and_v_decides _ _ _ Hd) as [[E F]|[E F]]; rewrite E; [left|right];
      (split; [reflexivity|]).
    + exists m. split; [reflexivity|exact F].
    + intros [m' [Em F']]. inversion Em; subst m'. contradiction.
  - (* InnerTypeConstraint *)
    rewrite wf_ops_inner in Hwf. apply Bool.andb_true_iff in Hwf. destruct Hwf as [Hn Hw].
    destruct args as [|a0 args]; [discriminate|].
    rewrite typed_ops_inner in Hty. apply Bool.andb_true_iff in Hty. destruct Hty as [Hi Ht].
    assert (Hall: Forall (fun a => (match fst a with Some (k, _) => nonbits k = true | None => True end
                                    /\ wf (snd a) = true) /\ decides (snd a) None x) (a0 :: args)).
    { revert Hw Ht. generalize (a0 :: args) H. clear - x.
      induction 1 as [|[t c] l Hc Hl IH]; intros Hw Ht; [constructor|].
      cbn [forallb fst snd] in *. apply Bool.andb_true_iff in Hw, Ht.
      destruct Hw as [Hw1 Hw2], Ht as [Ht1 Ht2]. apply Bool.andb_true_iff in Hw1.
      destruct Hw1 as [Hk Hwc]. constructor; [|exact (IH Hw2 Ht2)].
      cbn [fst snd]. split; [split; [destruct t as [[k st]|]; [exact Hk|exact I]|exact Hwc]|].
      exact (Hc None x Hwc Ht1). }
    unfold decides. rewrite ceval_inner, denote_inner.
    assert (Hs: rel_single (single_v (a0 :: args) x None) (single_P (a0 :: args) x None)).
    { apply single_related; [|exact I].
      eapply Forall_impl; [|exact Hall]. cbn beta. intros a [[_ Hwa] Hda]. split; assumption. }
    destruct (single_v (a0 :: args) x None) as [[[|] v]|] eqn:Esv;
      destruct (single_P (a0 :: args) x None) as [P|] eqn:Esp; cbn [rel_single] in Hs;
      try contradiction.
    + exact Hs.
    + assert (Htag: existsb tagged (a0 :: args) = true).
      { destruct a0 as [[t|] c0]; [reflexivity|]. exfalso.
        unfold single_v in Esv. cbn [single_v'] in Esv.
        refine (single_v_some args x (Some (truthy c0, ceval c0 None x)) _ Esv). discriminate. }
      rewrite Htag. destruct idx as [i|]; [|right; split; [reflexivity|tauto]].
      cbn [opt_nonbits] in Hi.
      assert (Hl: rel_lookup (lookup_v (a0 :: args) i x None) (lookup_P (a0 :: args) i x False)).
      { apply lookup_related; [exact Hi| |cbn; tauto].
        eapply Forall_impl; [|exact Hall]. cbn beta. intros a [[Hka _] Hda]. split; assumption. }
      destruct (lookup_v (a0 :: args) i x None) as [v|]; cbn [rel_lookup] in Hl.
      * exact Hl.
      * right. split; [reflexivity|exact Hl].
  - (* ConstraintsIntersection *)
    rewrite wf_ops_and in Hwf. apply Bool.andb_true_iff in Hwf. destruct Hwf as [Hn Hw].
    destruct cs as [|c0 cs]; [discriminate|]. rewrite typed_ops_and in Hty.
    unfold decides. rewrite ceval_and, denote_and.
    exact (and_v_decides _ _ _ (operands_decide _ idx x H Hw Hty)).
  - (* ConstraintsUnion *)
    rewrite wf_ops_or in Hwf. apply Bool.andb_true_iff in Hwf. destruct Hwf as [Hn Hw].
    destruct cs as [|c0 cs]; [discriminate|]. rewrite typed_ops_or in Hty.
    unfold decides. rewrite ceval_or, denote_or.
    exact (or_v_decides _ _ _ (operands_decide _ idx x H Hw Hty)).
  - (* ConstraintsExclusion *)
    rewrite wf_ops_excl in Hwf. apply Bool.andb_true_iff in Hwf. destruct Hwf as [Hn Hw].
    destruct cs as [|c0 cs]; [discriminate|]. rewrite typed_ops_excl in Hty.
    unfold decides. rewrite ceval_excl, denote_excl.
    exact (excl_v_decides _ _ _ (operands_decide _ idx x H Hw Hty)).
Qed.

(* accepted exactly when in the denotation *)
Theorem ceval_iff_denote c idx x :
  wf c = true -> typed c idx x = true -> (ceval c idx x = Pass <-> denote c idx x).
Proof.
  intros Hw Ht. destruct (ceval_decides c idx x Hw Ht) as [[E D]|[E D]]; rewrite E; split; intros H;
    try assumption; try reflexivity; try discriminate; contradiction.
Qed.

(* and rejected by ValueConstraintError, never by a built-in exception, otherwise *)
Theorem ceval_rejects_cleanly c idx x :
  wf c = true -> typed c idx x = true -> ~ denote c idx x -> ceval c idx x = Fail.
Proof.
  intros Hw Ht Hn. destruct (ceval_decides c idx x Hw Ht) as [[E D]|[E D]]; [contradiction|exact E].
Qed.

Theorem ceval_no_crash c idx x k :
  wf c = true -> typed c idx x = true -> ceval c idx x <> Crash k.
Proof.
  intros Hw Ht. destruct (ceval_decides c idx x Hw Ht) as [[E D]|[E D]]; rewrite E; discriminate.
Qed.

(* EVERY consuming run of the item decoder is a clean run.

   [consumes p bs v] (DecFrame.v) is what all the round-trip theorems establish of the decoder: on any
   stream that starts with bs, WHATEVER FOLLOWS, p yields v and stops right after bs.  This file shows,
   for the decoder entry point [dec_call] with any codec, fuel, specification and flags, that such a
   run never executes ReadAll (readFromStream with size -1) - AtEOS does not occur in [dec_call] - so
   that it is a clean run in the sense of StreamStage2.v and the generic streaming theorems apply.

   The argument is a global invariant of the decoder (by induction on the fuel, through every payload
   decoder of Model/Dec.v), not an induction over an encoding:
     (a) a run that ends in a value either was clean or ends with the stream position at the end of what
         has arrived (ReadAll moves it there);
     (b) from the end of what has arrived, a run of the entry point that BEGINS an element never ends in a value (its
         first read, of the end-of-octets look-ahead or of the identifier octet, fails), and the loops of the payload
         decoders, which only begin elements, stay there.
   The seek-back of the ANY decoders (to the marked start of the element) and the re-entry of the entry point past a
   header (untagged CHOICE, which no longer sets the mark) only occur at the head of a value decoder, before any
   element is begun: for them (a) alone is needed, and the ANY decoder proper is a clean tree.
   A consuming run followed by at least one more octet does not end at the end of the stream, so by (a) it
   was clean; and a clean run stays clean when octets are removed from the end of the stream. *)
From Coq Require Import Lia.
From PV Require Import Base.Bytes Model.Tag Model.TableTypes Model.Types Model.Proc Model.Enc Model.Dec Gen.Tables
     Proofs.ProcBind Proofs.RunLemmas Proofs.TagOctets Proofs.DecHeader Proofs.DecFrame Proofs.ProcSim Proofs.ProcSched Proofs.DecStream
     Proofs.StreamStage2.
Local Open Scope nat_scope.

(* ====================================================================================== *)
(* Part 1: the two invariants and their calculus                                           *)
(* ====================================================================================== *)

Definition at_end (s: stream) : Prop := length (avail s) = 0.

(* (a) *)
Definition PA {A} (p: proc A) : Prop :=
  forall s a s', resume p s = inr (Ok a, s') -> clean_run p s = true \/ at_end s'.
(* (b), for trees that do not look at the marked position / that run right after it was set *)
Definition PB1 {A} (p: proc A) : Prop :=
  forall s a s', at_end s -> resume p s = inr (Ok a, s') -> at_end s'.
Definition PB2 {A} (p: proc A) : Prop :=
  forall s a s', at_end s -> mark s = pos s -> resume p s = inr (Ok a, s') -> at_end s'.

Definition Inv1 {A} (p: proc A) : Prop := PA p /\ PB1 p.
Definition Inv2 {A} (p: proc A) : Prop := PA p /\ PB2 p.

(* no value from the end of the stream *)
Definition stuck {A} (p: proc A) : Prop := forall s a s', at_end s -> resume p s <> inr (Ok a, s').

Lemma Inv1_to_2 {A} (p: proc A) : Inv1 p -> Inv2 p.
Proof. intros [Ha Hb]. split; [exact Ha|]. intros s a s' He _ H. exact (Hb s a s' He H). Qed.

Lemma PA_Ret {A} (a: A) : PA (Ret a).
Proof. intros s a0 s' _. left. reflexivity. Qed.
Lemma PA_Raise {A} e : PA (@Raise A e).
Proof. intros s a0 s' _. left. reflexivity. Qed.

Lemma Inv1_Ret {A} (a: A) : Inv1 (Ret a).
Proof. split; [apply PA_Ret|]. intros s a0 s' He H. cbn [resume] in H. inversion H; subst. exact He. Qed.

Lemma Inv1_Raise {A} e : Inv1 (@Raise A e).
Proof. split; [apply PA_Raise|]. intros s a0 s' He H. cbn [resume] in H. discriminate H. Qed.

Lemma attempt_at_end s n : at_end s -> n <> 0 -> forall c s', attempt s n <> (Got c, s').
Proof.
  intros He Hn c s'. unfold attempt. destruct (Nat.eqb_spec n 0) as [E|_]; [contradiction|].
  unfold at_end in He. rewrite He. destruct (Nat.ltb_spec 0 n) as [_|Hl]; [|lia].
  destruct (closed s); discriminate.
Qed.

Lemma PA_ReadN {A} n (k: bytes -> proc A) : (forall b, PA (k b)) -> PA (ReadN n k).
Proof.
  intros Hk s a s' H. cbn [resume clean_run] in *.
  destruct (attempt s n) as [[c| |] sm]; try discriminate H. exact (Hk c sm a s' H).
Qed.

Lemma stuck_ReadN {A} n (k: bytes -> proc A) : n <> 0 -> stuck (ReadN n k).
Proof.
  intros Hn s a s' He H. cbn [resume] in H.
  destruct (attempt s n) as [[c| |] sm] eqn:E; try discriminate H.
  exact (attempt_at_end s n He Hn c sm E).
Qed.

Lemma stuck_PB1 {A} (p: proc A) : stuck p -> PB1 p.
Proof. intros Hs s a s' He H. exfalso. exact (Hs s a s' He H). Qed.

Lemma Inv1_ReadN {A} n (k: bytes -> proc A) : (forall b, Inv1 (k b)) -> Inv1 (ReadN n k).
Proof.
  intros Hk. split; [apply PA_ReadN; intros b; exact (proj1 (Hk b))|].
  intros s a s' He H. cbn [resume] in H.
  destruct (Nat.eqb_spec n 0) as [->|Hn].
  - unfold attempt in H. cbn [Nat.eqb] in H. exact (proj2 (Hk []) s a s' He H).
  - exfalso. exact (stuck_ReadN n k Hn s a s' He H).
Qed.

(* a read of at least one octet: (b) holds vacuously *)
Lemma Inv1_ReadN_pos {A} n (k: bytes -> proc A) : n <> 0 -> (forall b, PA (k b)) -> Inv1 (ReadN n k).
Proof. intros Hn Hk. split; [apply PA_ReadN; exact Hk|apply stuck_PB1; apply stuck_ReadN; exact Hn]. Qed.

Lemma Inv1_Tell {A} (k: nat -> proc A) : (forall q, Inv1 (k q)) -> Inv1 (Tell k).
Proof.
  intros Hk. split.
  - intros s a s' H. exact (proj1 (Hk (pos s)) s a s' H).
  - intros s a s' He H. exact (proj2 (Hk (pos s)) s a s' He H).
Qed.

Lemma Inv2_Tell {A} (k: nat -> proc A) : (forall q, Inv2 (k q)) -> Inv2 (Tell k).
Proof.
  intros Hk. split.
  - intros s a s' H. exact (proj1 (Hk (pos s)) s a s' H).
  - intros s a s' He Hm H. exact (proj2 (Hk (pos s)) s a s' He Hm H).
Qed.

Lemma Inv1_GetMark {A} (k: nat -> proc A) : (forall q, Inv1 (k q)) -> Inv1 (GetMark k).
Proof.
  intros Hk. split.
  - intros s a s' H. exact (proj1 (Hk (mark s)) s a s' H).
  - intros s a s' He H. exact (proj2 (Hk (mark s)) s a s' He H).
Qed.

Lemma PA_SeekBack {A} d (k: proc A) : PA k -> PA (SeekBack d k).
Proof. intros Hk s a s' H. exact (Hk _ a s' H). Qed.

(* setting the mark establishes what the ANY decoders rely on *)
Lemma Inv1_Mark {A} (k: proc A) : Inv2 k -> Inv1 (Mark k).
Proof.
  intros [Ha Hb]. split.
  - intros s a s' H. exact (Ha _ a s' H).
  - intros s a s' He H. cbn [resume] in H. exact (Hb (setmark s (pos s)) a s' He eq_refl H).
Qed.

Lemma at_end_all s : at_end (setpos s (length (arrived s))).
Proof. unfold at_end, avail, setpos. cbn [pos arrived]. rewrite skipn_all. reflexivity. Qed.

(* ReadAll: never clean, but it moves to the end of the stream *)
Lemma Inv1_ReadAll {A} (k: bytes -> proc A) : (forall b, PB1 (k b)) -> Inv1 (ReadAll k).
Proof.
  intros Hk. split.
  - intros s a s' H. right. cbn [resume] in H.
    destruct (Nat.eqb (length (avail s)) 0); [destruct (closed s); discriminate H|].
    exact (Hk _ _ a s' (at_end_all s) H).
  - intros s a s' He H. cbn [resume] in H. unfold at_end in He. rewrite He in H. cbn [Nat.eqb] in H.
    destruct (closed s); discriminate H.
Qed.

Lemma PA_pbind {A B} (p: proc A) (f: A -> proc B) : PA p -> (forall a, Inv1 (f a)) -> PA (pbind p f).
Proof.
  intros Hp Hf s b s' H.
  destruct (resume_pbind_inv p f s b s' H) as (a & s1 & H1 & H2).
  rewrite (clean_run_pbind_done p f s a s1 H1).
  destruct (Hp s a s1 H1) as [Hc|He].
  - rewrite Hc. cbn [andb]. exact (proj1 (Hf a) s1 b s' H2).
  - right. exact (proj2 (Hf a) s1 b s' He H2).
Qed.

(* after a clean tree, (a) of the continuation is enough *)
Lemma PA_pbind_clean {A B} (p: proc A) (f: A -> proc B) : clean p -> (forall a, PA (f a)) -> PA (pbind p f).
Proof.
  intros Hp Hf s b s' H.
  destruct (resume_pbind_inv p f s b s' H) as (a & s1 & H1 & H2).
  rewrite (clean_run_pbind_done p f s a s1 H1), (clean_clean_run p Hp s). cbn [andb].
  exact (Hf a s1 b s' H2).
Qed.

Lemma Inv1_pbind {A B} (p: proc A) (f: A -> proc B) : Inv1 p -> (forall a, Inv1 (f a)) -> Inv1 (pbind p f).
Proof.
  intros [Hpa Hpb] Hf. split; [apply PA_pbind; assumption|].
  intros s b s' He H.
  destruct (resume_pbind_inv p f s b s' H) as (a & s1 & H1 & H2).
  exact (proj2 (Hf a) s1 b s' (Hpb s a s1 He H1) H2).
Qed.

Lemma Inv2_pbind {A B} (p: proc A) (f: A -> proc B) : Inv2 p -> (forall a, Inv1 (f a)) -> Inv2 (pbind p f).
Proof.
  intros [Hpa Hpb] Hf. split; [apply PA_pbind; assumption|].
  intros s b s' He Hm H.
  destruct (resume_pbind_inv p f s b s' H) as (a & s1 & H1 & H2).
  exact (proj2 (Hf a) s1 b s' (Hpb s a s1 He Hm H1) H2).
Qed.

Lemma stuck_pbind {A B} (p: proc A) (f: A -> proc B) : stuck p -> stuck (pbind p f).
Proof.
  intros Hp s b s' He H.
  destruct (resume_pbind_inv p f s b s' H) as (a & s1 & H1 & _). exact (Hp s a s1 He H1).
Qed.

Lemma stuck_PB2 {A} (p: proc A) : stuck p -> PB2 p.
Proof. intros Hs s a s' He _ H. exfalso. exact (Hs s a s' He H). Qed.

(* the seek-back of the ANY decoders: to the marked position *)
Lemma Inv2_seek_mark {A} (k: nat -> nat -> proc A) : (forall m p, Inv1 (k m p)) ->
  Inv2 (let! m := getmark in let! p := tell in SeekBack (p - m) (k m p)).
Proof.
  intros Hk. split.
  - intros s a s' H. exact (proj1 (Hk (mark s) (pos s)) _ a s' H).
  - intros s a s' He Hm H. cbn [pbind getmark tell resume] in H.
    rewrite Hm, Nat.sub_diag, Nat.sub_0_r, (setpos_same s (pos s) eq_refl) in H.
    exact (proj2 (Hk _ _) s a s' He H).
Qed.

Lemma PA_Inv1 {A} (p: proc A) : Inv1 p -> PA p.
Proof. intros H. exact (proj1 H). Qed.

Lemma PA_clean {A} (p: proc A) : clean p -> PA p.
Proof. intros Hc s a s' _. left. apply clean_clean_run. exact Hc. Qed.

Lemma PA_Tell {A} (k: nat -> proc A) : (forall q, PA (k q)) -> PA (Tell k).
Proof. intros Hk s a s' H. exact (Hk (pos s) s a s' H). Qed.

(* setting the mark in front of a tree that cannot yield a value at the end of the stream *)
Lemma Inv1_Mark_stuck {A} (k: proc A) : PA k -> stuck k -> Inv1 (Mark k).
Proof.
  intros Ha Hs. split.
  - intros s a s' H. exact (Ha _ a s' H).
  - intros s a s' He H. cbn [resume] in H. exfalso. exact (Hs (setmark s (pos s)) a s' He H).
Qed.

(* ---------- the stream primitives ---------- *)
Lemma Inv1_readN n : Inv1 (readN n).
Proof. apply Inv1_ReadN. intros b. apply Inv1_Ret. Qed.

Lemma Inv1_tell : Inv1 tell.
Proof. apply Inv1_Tell. intros q. apply Inv1_Ret. Qed.

Lemma Inv1_lift {A} (r: res A) : Inv1 (lift r).
Proof. destruct r; [apply Inv1_Ret|apply Inv1_Raise]. Qed.

Lemma Inv1_read1 : Inv1 read1.
Proof. unfold read1. apply Inv1_pbind; [apply Inv1_readN|]. intros b. apply Inv1_Ret. Qed.

Lemma stuck_read1 : stuck read1.
Proof. unfold read1. apply stuck_pbind. apply stuck_ReadN. discriminate. Qed.

Ltac inv_step :=
  match goal with
  | |- Inv1 (Ret _) => apply Inv1_Ret
  | |- Inv1 (Raise _) => apply Inv1_Raise
  | |- Inv1 tell => apply Inv1_tell
  | |- Inv1 read1 => apply Inv1_read1
  | |- Inv1 (readN _) => apply Inv1_readN
  | |- Inv1 (lift _) => apply Inv1_lift
  | |- Inv1 (pbind _ _) => apply Inv1_pbind; [|intro]
  | |- Inv1 (if ?b then _ else _) => destruct b
  | |- Inv1 (match ?x with _ => _ end) => destruct x
  end.

Lemma Inv1_create sp proto ts v : Inv1 (create sp proto ts v).
Proof. unfold create. cbv zeta. repeat inv_step. Qed.

Section DecInv.
  Variable c : codec.
  Variable rec : spec -> tagset -> option (option N) -> bool -> bool -> proc dval.
  Variable lf : nat.
  (* beginning an element: both invariants; re-entry past a header: (a) *)
  Hypothesis Hrec : forall sp ts ae sf, Inv1 (rec sp ts None ae sf).
  Hypothesis HrecS : forall sp ts len ae sf, PA (rec sp ts (Some len) ae sf).

  Lemma Inv1_read_len n : Inv1 (read_len lf n).
  Proof. unfold read_len. repeat inv_step. Qed.

  Ltac inv1 :=
    repeat first [ inv_step | apply Inv1_create | apply Inv1_read_len | apply Hrec ].

  Lemma Inv1_dec_integer sp proto ts len : Inv1 (dec_integer lf sp proto ts len).
  Proof. unfold dec_integer. inv1. Qed.

  Lemma Inv1_dec_bool_cer sp ts len : Inv1 (dec_bool_cer lf sp ts len).
  Proof. unfold dec_bool_cer. inv1. Qed.

  Lemma Inv1_dec_null sp ts len : Inv1 (dec_null lf sp ts len).
  Proof. unfold dec_null. inv1. Qed.

  Lemma Inv1_dec_oid_v sp ts len : Inv1 (dec_oid_v lf sp ts len).
  Proof. unfold dec_oid_v. inv1. Qed.

  Lemma Inv1_dec_real_v sp ts len : Inv1 (dec_real_v lf sp ts len).
  Proof. unfold dec_real_v. inv1. Qed.

  (* the substrate collector: with an indefinite length it reads whatever is there *)
  Lemma Inv1_collector len : Inv1 (collector lf len).
  Proof.
    unfold collector. destruct len as [n|]; [inv1|].
    unfold readall. cbn [pbind]. apply Inv1_ReadAll. intros b. exact (proj2 (Inv1_Ret (DRaw b))).
  Qed.

  Lemma Inv1_fragment proto ae : Inv1 (fragment rec proto ae).
  Proof. unfold fragment. apply Hrec. Qed.

  Lemma Inv1_octets_loop proto sp ts len start : forall n acc, Inv1 (octets_loop rec proto sp ts len start n acc).
  Proof.
    induction n as [|n IH]; intros acc; cbn [octets_loop]; [apply Inv1_Raise|].
    repeat first [ apply IH | apply Inv1_fragment | inv_step | apply Inv1_create ].
  Qed.

  Lemma Inv1_dec_octets proto fl sp ts len sfun : Inv1 (dec_octets rec lf proto fl sp ts len sfun).
  Proof. unfold dec_octets. repeat first [ apply Inv1_octets_loop | inv_step | apply Inv1_create | apply Inv1_read_len ]. Qed.

  Lemma Inv1_octets_indef_loop proto sp ts : forall n acc, Inv1 (octets_indef_loop rec proto sp ts n acc).
  Proof.
    induction n as [|n IH]; intros acc; cbn [octets_indef_loop]; [apply Inv1_Raise|].
    repeat first [ apply IH | apply Inv1_fragment | inv_step | apply Inv1_create ].
  Qed.

  Lemma Inv1_dec_octets_indef proto sp ts : Inv1 (dec_octets_indef rec lf proto sp ts).
  Proof. unfold dec_octets_indef. apply Inv1_octets_indef_loop. Qed.

  Lemma Inv1_bits_fragment ae : Inv1 (bits_fragment rec ae).
  Proof. unfold bits_fragment. apply Hrec. Qed.

  Lemma Inv1_add_bits_fragment acc f : Inv1 (add_bits_fragment acc f).
  Proof. unfold add_bits_fragment. inv1. Qed.

  Lemma Inv1_bits_loop sp ts len start : forall n acc, Inv1 (bits_loop rec sp ts len start n acc).
  Proof.
    induction n as [|n IH]; intros acc; cbn [bits_loop]; [apply Inv1_Raise|].
    repeat first [ apply IH | apply Inv1_bits_fragment | apply Inv1_add_bits_fragment | inv_step | apply Inv1_create ].
  Qed.

  Lemma Inv1_dec_bits fl sp ts len sfun : Inv1 (dec_bits rec lf fl sp ts len sfun).
  Proof.
    unfold dec_bits.
    repeat first [ apply Inv1_bits_loop | apply Inv1_collector | inv_step | apply Inv1_create | apply Inv1_read_len ].
  Qed.

  Lemma Inv1_bits_indef_loop sp ts : forall n acc, Inv1 (bits_indef_loop rec sp ts n acc).
  Proof.
    induction n as [|n IH]; intros acc; cbn [bits_indef_loop]; [apply Inv1_Raise|].
    apply Inv1_pbind; [apply Inv1_bits_fragment|]. intros f.
    destruct f; repeat first [ apply IH | apply Inv1_add_bits_fragment | inv_step | apply Inv1_create ].
  Qed.

  Lemma Inv1_dec_bits_indef sp ts sfun : Inv1 (dec_bits_indef rec lf sp ts sfun).
  Proof. unfold dec_bits_indef. destruct sfun; [apply Inv1_collector|apply Inv1_bits_indef_loop]. Qed.

  (* ANY: the seek-back to the marked position, then a read: a clean tree *)
  Lemma clean_dec_any sp ts len sfun : clean (dec_any lf sp ts len sfun).
  Proof.
    unfold dec_any. cbv zeta. apply clean_pbind.
    - destruct (match sp with None => true | Some T => negb (tagset_eqb ts (tagset_of' T)) end); [|constructor].
      constructor. intros m. constructor. intros p. constructor. constructor.
    - intros len'. apply clean_pbind; [apply clean_read_len|]. intros b. destruct sfun; [constructor|apply clean_create].
  Qed.

  Lemma PA_dec_any sp ts len sfun : PA (dec_any lf sp ts len sfun).
  Proof. apply PA_clean. apply clean_dec_any. Qed.

  Lemma Inv1_any_indef_loop sp ts sfun tagged : forall n acc, Inv1 (any_indef_loop rec sp ts sfun tagged n acc).
  Proof.
    induction n as [|n IH]; intros acc; cbn [any_indef_loop]; [apply Inv1_Raise|].
    repeat first [ apply IH | apply Inv1_fragment | inv_step | apply Inv1_create ].
  Qed.

  Lemma PA_dec_any_indef sp ts sfun : PA (dec_any_indef rec lf sp ts sfun).
  Proof.
    unfold dec_any_indef. cbv zeta. apply PA_pbind_clean.
    - destruct (match sp with None => false | Some T => tagset_eqb ts (tagset_of' T) end); [constructor|].
      constructor. intros m. constructor. intros p. constructor. apply clean_readN.
    - intros header. exact (proj1 (Inv1_any_indef_loop sp ts sfun _ lf header)).
  Qed.

  (* the constructed types *)
  Lemma Inv1_record_loop T fs is_set len start : forall n idx vs extra,
    Inv1 (record_loop rec lf T fs is_set len start n idx vs extra).
  Proof.
    induction n as [|n IH]; intros idx vs extra; cbn [record_loop]; cbv zeta; [apply Inv1_Raise|].
    apply Inv1_pbind; [apply Inv1_tell|]. intros p.
    repeat first [ apply IH | apply Hrec | inv_step ].
  Qed.

  Lemma Inv1_dec_record T fs is_set len : Inv1 (dec_record rec lf T fs is_set len).
  Proof. unfold dec_record. cbv zeta. apply Inv1_pbind; [apply Inv1_tell|]. intros start. apply Inv1_record_loop. Qed.

  Lemma Inv1_listof_loop T t len start : forall n acc, Inv1 (listof_loop rec T t len start n acc).
  Proof.
    induction n as [|n IH]; intros acc; cbn [listof_loop]; cbv zeta; [apply Inv1_Raise|].
    repeat first [ apply IH | apply Hrec | inv_step ].
  Qed.

  Lemma Inv1_dec_listof T t len : Inv1 (dec_listof rec lf T t len).
  Proof. unfold dec_listof. apply Inv1_pbind; [apply Inv1_tell|]. intros start. apply Inv1_listof_loop. Qed.

  Lemma Inv1_schemaless_loop is_set ts len start : forall n acc, Inv1 (schemaless_loop rec is_set ts len start n acc).
  Proof.
    induction n as [|n IH]; intros acc; cbn [schemaless_loop]; cbv zeta; [apply Inv1_Raise|].
    repeat first [ apply IH | apply Hrec | inv_step ].
  Qed.

  Lemma Inv1_dec_schemaless is_set ts len : Inv1 (dec_schemaless rec lf is_set ts len).
  Proof. unfold dec_schemaless. apply Inv1_pbind; [apply Inv1_tell|]. intros start. apply Inv1_schemaless_loop. Qed.

  Lemma Inv1_choice_place T alts d : Inv1 (choice_place lf T alts d).
  Proof. unfold choice_place. inv1. Qed.

  (* tagged CHOICE in indefinite form: a loop of elements *)
  Lemma Inv1_choice_loop_tagged T alts ts : forall n cur, Inv1 (choice_loop rec lf T alts ts true n cur).
  Proof.
    induction n as [|n IH]; intros cur; cbn [choice_loop]; cbv zeta; [apply Inv1_Raise|].
    apply Inv1_pbind; [apply Hrec|]. intros d.
    destruct d; repeat first [ apply IH | apply Inv1_choice_place | inv_step ].
  Qed.

  (* untagged CHOICE: the entry point is re-entered past the header, once *)
  Lemma PA_choice_loop T alts ts tagged n cur : PA (choice_loop rec lf T alts ts tagged n cur).
  Proof.
    destruct tagged; [exact (proj1 (Inv1_choice_loop_tagged T alts ts n cur))|].
    destruct n as [|n]; cbn [choice_loop]; cbv zeta; [apply PA_Raise|].
    apply PA_pbind; [apply HrecS|]. intros d.
    destruct d; repeat first [ apply Inv1_choice_place | inv_step ].
  Qed.

  Lemma PA_dec_choice T alts ts len : PA (dec_choice rec lf T alts ts len).
  Proof.
    unfold dec_choice. cbv zeta. destruct len as [l|]; [|apply PA_choice_loop].
    apply PA_pbind; [|intros d; apply Inv1_choice_place].
    destruct (tagset_eqb (tagset_of' T) ts); [exact (proj1 (Hrec _ _ _ _))|apply HrecS].
  Qed.

  Lemma Inv1_raw_loop sp ts : forall n last, Inv1 (raw_loop rec sp ts n last).
  Proof.
    induction n as [|n IH]; intros last; cbn [raw_loop]; [apply Inv1_Raise|].
    apply Inv1_pbind; [apply Hrec|]. intros d.
    destruct d; repeat first [ apply IH | inv_step ].
  Qed.

  Lemma Inv1_dec_raw sp ts len sfun : Inv1 (dec_raw rec lf sp ts len sfun).
  Proof.
    unfold dec_raw. destruct sfun; [apply Inv1_collector|]. destruct len; [apply Hrec|apply Inv1_raw_loop].
  Qed.

  Lemma PA_dec_value cd fl sp ts len sfun : PA (dec_value rec lf cd fl sp ts len sfun).
  Proof.
    unfold dec_value. cbv zeta.
    destruct cd, len;
      try (apply PA_dec_any); try (apply PA_dec_any_indef);
      repeat match goal with
             | |- PA (if ?b then _ else _) => destruct b
             | |- PA (match ?x with _ => _ end) => destruct x
             end;
      try (apply PA_dec_choice);
      try (apply PA_Inv1;
           repeat first [ apply Inv1_dec_integer | apply Inv1_dec_bool_cer | apply Inv1_dec_null | apply Inv1_dec_oid_v
                        | apply Inv1_dec_real_v | apply Inv1_dec_octets | apply Inv1_dec_octets_indef | apply Inv1_dec_bits
                        | apply Inv1_dec_bits_indef | apply Inv1_collector | apply Inv1_dec_schemaless
                        | apply Inv1_dec_record | apply Inv1_dec_listof | inv_step ]).
  Qed.

  (* the header *)
  Lemma Inv1_long_tag cl f : forall k acc, Inv1 (long_tag cl f k acc).
  Proof. induction k as [|k IH]; intros acc; cbn [long_tag]; cbv zeta; [apply Inv1_Raise|]. repeat first [ apply IH | inv_step ]. Qed.

  Lemma stuck_read_tag : stuck (read_tag lf).
  Proof. unfold read_tag. apply stuck_pbind. apply stuck_read1. Qed.

  Lemma PA_run_value (len: option N) (k: proc dval) : PA k ->
    PA (match len with
        | None => k
        | Some l => let! p0 := tell in let! v := k in let! p1 := tell in
                    if N.eqb (N.of_nat (p1 - p0)) l then Ret v else Raise EMalformed
        end).
  Proof.
    intros Hk. destruct len as [l|]; [|exact Hk].
    apply (PA_Tell (fun p0 => let! v := k in let! p1 := tell in if N.eqb (N.of_nat (p1 - p0)) l then Ret v else Raise EMalformed)).
    intros p0. apply PA_pbind; [exact Hk|]. intros v. repeat inv_step.
  Qed.

  Lemma PA_dispatch sp ts len sfun : PA (dispatch c rec lf sp ts len sfun).
  Proof.
    unfold dispatch. cbv zeta.
    assert (Hfail: PA (match (match ts with
                              | t :: _ => if tcon t && negb (cls_eqb (tcls t) Univ) then Some (dec_raw rec lf sp ts len sfun) else None
                              | [] => None end) with
                       | Some k => match len with
                                   | None => k
                                   | Some l => let! p0 := tell in let! v := k in let! p1 := tell in
                                               if N.eqb (N.of_nat (p1 - p0)) l then Ret v else Raise EMalformed
                                   end
                       | None => Raise EMalformed end)).
    { destruct ts as [|t r]; [apply PA_Raise|].
      destruct (tcon t && negb (cls_eqb (tcls t) Univ))%bool; [|apply PA_Raise].
      apply PA_run_value. apply PA_Inv1. apply Inv1_dec_raw. }
    destruct sp as [|T|m].
    - destruct (by_tag c ts) as [[cd fl]|]; [apply PA_run_value; apply PA_dec_value|].
      destruct (by_tag c (firstn 1 ts)) as [[cd fl]|]; [apply PA_run_value; apply PA_dec_value|exact Hfail].
    - destruct (tagset_eqb ts (tagset_of' T) || tm_contains (tagmap_of T) ts)%bool; [|exact Hfail].
      destruct (tm_postponed (tagmap_of T)); [apply PA_Raise|].
      destruct (by_type c T) as [[cd fl]|]; [apply PA_run_value; apply PA_dec_value|exact Hfail].
    - destruct (tm_get m ts) as [chosen|e]; cbn [lift pbind]; [|apply PA_Raise].
      destruct chosen as [T|]; [|exact Hfail].
      destruct (by_type c T) as [[cd fl]|]; [apply PA_run_value; apply PA_dec_value|exact Hfail].
  Qed.

  (* the end-of-octets look-ahead in front of [main] *)
  Lemma PA_eoo_block (main: proc dval) : PA main ->
    forall b: bytes, PA (match b with [0%N; 0%N] => Ret DEoo | _ => SeekBack 2 main end).
  Proof.
    intros Hm b.
    repeat match goal with |- PA (match ?x with _ => _ end) => destruct x end;
      first [apply PA_Ret|apply PA_SeekBack; exact Hm].
  Qed.

  (* beginning an element *)
  Lemma Inv1_dec_body_begin sp acc ae sfun : Inv1 (dec_body c rec lf sp acc None ae sfun).
  Proof.
    unfold dec_body. cbv zeta.
    assert (Hmain: Inv1 (Mark (let! t := read_tag lf in let! len := read_length c in dispatch c rec lf sp (t :: acc) len sfun))).
    { apply Inv1_Mark_stuck.
      - apply PA_pbind_clean; [apply clean_read_tag|]. intros t.
        apply PA_pbind_clean; [apply clean_read_length|]. intros len. apply PA_dispatch.
      - apply stuck_pbind. apply stuck_read_tag. }
    destruct (ae && support_indef c)%bool; [|exact Hmain].
    unfold readN. cbn [pbind]. apply Inv1_ReadN_pos; [discriminate|]. apply PA_eoo_block. exact (proj1 Hmain).
  Qed.

  (* re-entry past the header *)
  Lemma PA_dec_body_reenter sp acc len ae sfun : PA (dec_body c rec lf sp acc (Some len) ae sfun).
  Proof.
    unfold dec_body. cbv zeta.
    destruct (ae && support_indef c)%bool; [|apply PA_dispatch].
    unfold readN. cbn [pbind]. apply PA_ReadN. apply PA_eoo_block. apply PA_dispatch.
  Qed.
End DecInv.

(* the invariants hold of the entry point, whatever the codec, the fuel, the specification, the flags *)
Theorem Inv_dec_call c : forall f,
  (forall sp acc ae sfun, Inv1 (dec_call c f sp acc None ae sfun))
  /\ (forall sp acc len ae sfun, PA (dec_call c f sp acc (Some len) ae sfun)).
Proof.
  induction f as [|f [IH1 IH2]]; cbn [dec_call].
  - split; intros; [apply Inv1_Raise|apply PA_Raise].
  - split; intros.
    + apply Inv1_dec_body_begin; assumption.
    + apply PA_dec_body_reenter; assumption.
Qed.

Theorem Inv1_dec_call c f sp acc ae sfun : Inv1 (dec_call c f sp acc None ae sfun).
Proof. exact (proj1 (Inv_dec_call c f) sp acc ae sfun). Qed.

Theorem PA_dec_call c f sp acc rs ae sfun : PA (dec_call c f sp acc rs ae sfun).
Proof.
  destruct rs as [len|]; [exact (proj2 (Inv_dec_call c f) sp acc len ae sfun)|exact (proj1 (Inv1_dec_call c f sp acc ae sfun))].
Qed.

Print Assumptions Inv_dec_call.

(* ====================================================================================== *)
(* Part 2: consuming runs are clean runs                                                   *)
(* ====================================================================================== *)

(* a clean run stays a clean run when octets are taken away from the end of the stream: it is cut short
   at a read, before anything else can happen *)
Lemma clean_run_shorter {A} (p: proc A) : forall s1 s2, extends s1 s2 -> clean_run p s2 = true -> clean_run p s1 = true.
Proof.
  induction p as [a0|e|n k IH|k IH|d k IH|k IH|k IH|k IH|k IH]; intros s1 s2 Hx H; cbn [clean_run] in *;
    try reflexivity; try discriminate H.
  - destruct (attempt s1 n) as [[c1| |] s1'] eqn:E1; try reflexivity.
    destruct (attempt_got_ext s1 s2 n c1 s1' Hx E1) as (s2' & E2 & Hx' & _). rewrite E2 in H.
    exact (IH c1 s1' s2' Hx' H).
  - destruct Hx as [Hp Hr]. rewrite Hp. apply (IH (pos s2) s1 s2); [split; assumption|exact H].
  - apply (IH _ (setpos s2 (pos s2 - d))); [|exact H]. apply extends_setpos; [exact Hx|]. destruct Hx as [Hp _]. rewrite Hp. reflexivity.
  - apply (IH _ (setmark s2 (pos s2))); [|exact H]. apply extends_setmark; [exact Hx|]. destruct Hx as [Hp _]. exact Hp.
  - destruct Hx as [Hp [Hm Hr]]. rewrite Hm. apply (IH (mark s2) s1 s2); [split; [assumption|split; assumption]|exact H].
Qed.

(* one more octet at the end of what has arrived *)
Definition one_more (s: stream) : stream := mkStream (arrived s ++ [0%N]) (pos s) (closed s) (mark s).

Lemma extends_one_more s : extends s (one_more s).
Proof. split; [reflexivity|]. split; [reflexivity|]. exists [0%N]. reflexivity. Qed.

Lemma avail_one_more s : avail s <> [] -> avail (one_more s) = avail s ++ [0%N].
Proof.
  intros Hne. unfold avail, one_more. cbn [pos arrived]. apply skipn_app_le.
  assert (H: length (avail s) <> 0) by (destruct (avail s); [congruence|discriminate]).
  rewrite avail_length in H. lia.
Qed.

(* for ANY tree with the invariant (a) *)
Theorem consumes_cleans (p: proc dval) (bs: bytes) (v: dval) : PA p -> bs <> [] -> consumes p bs v -> cleans p bs.
Proof.
  intros Hpa Hne Hc s tl Hav.
  assert (Hav2: avail (one_more s) = bs ++ (tl ++ [0%N])).
  { rewrite avail_one_more; [rewrite Hav; symmetry; apply app_assoc|]. rewrite Hav. destruct bs; [congruence|discriminate]. }
  destruct (Hc (one_more s) (tl ++ [0%N]) Hav2) as (s' & Hr & Hp & Ha & _).
  apply (clean_run_shorter p s (one_more s) (extends_one_more s)).
  destruct (Hpa _ _ _ Hr) as [Hcl|He]; [exact Hcl|].
  exfalso. unfold at_end in He. rewrite (consumes_avail bs (one_more s) (tl ++ [0%N]) s' Hav2 Hp Ha) in He.
  rewrite app_length in He. cbn [length] in He. lia.
Qed.

(* (1) every consuming run of the item decoder - any codec, any fuel, with or without a guiding type, any
   accumulated tag set, re-entry state, end-of-octets / substrateFun flags - is a clean run *)
Theorem consumes_clean_dec_call c f sp acc rs ae sfun bs v : bs <> [] ->
  consumes (dec_call c f sp acc rs ae sfun) bs v -> consumes_clean (dec_call c f sp acc rs ae sfun) bs v.
Proof.
  intros Hne Hc. apply consumes_clean_split. split; [exact Hc|].
  exact (consumes_cleans _ bs v (PA_dec_call c f sp acc rs ae sfun) Hne Hc).
Qed.

Corollary consumes_clean_dec_item c fuel sp bs v : (0 < length bs) ->
  consumes (dec_item c fuel sp) bs v -> consumes_clean (dec_item c fuel sp) bs v.
Proof. intros Hl. apply consumes_clean_dec_call. destruct bs; [cbn in Hl; lia|discriminate]. Qed.

Print Assumptions consumes_clean_dec_call.

(* ====================================================================================== *)
(* Part 3: the streaming properties of any item whose decoding run is a clean consuming run *)
(* ====================================================================================== *)

Theorem guarded_run_of_clean c fuel sp b d : consumes_clean (dec_item c fuel sp) b d ->
  forall tl cl, exists s',
    resume (guard EUnclean (dec_item c fuel sp)) (mkStream (b ++ tl) 0 cl 0) = inr (Ok d, s')
    /\ resume (dec_item c fuel sp) (mkStream (b ++ tl) 0 cl 0) = inr (Ok d, s')
    /\ pos s' = length b /\ arrived s' = b ++ tl /\ closed s' = cl.
Proof.
  intros Hc tl cl.
  destruct (Hc (mkStream (b ++ tl) 0 cl 0) tl eq_refl) as (s' & Hr & Hp & Ha & Hcl & Hclean).
  exists s'. split; [exact (clean_run_guard_done EUnclean _ _ _ _ Hclean Hr)|]. split; [exact Hr|].
  cbn [pos arrived closed] in *. repeat split; assumption.
Qed.

(* C06: every strict prefix is insufficient - on a closed stream the end-of-stream error, on an open one
   the decoder suspends on a read whose octets have not all arrived *)
Theorem c06_of_clean c fuel sp b d k : consumes_clean (dec_item c fuel sp) b d -> k < length b ->
  decode_with c fuel sp (firstn k b) = Err EEndOfStream
  /\ exists n kont s1, resume (dec_item c fuel sp) (mkStream (firstn k b) 0 false 0) = inl (ReadN n kont, s1)
                       /\ length (avail s1) < n.
Proof.
  intros Hc Hk.
  destruct (guarded_run_of_clean c fuel sp b d Hc [] true) as (s' & Hgr & _ & Hp & _). rewrite app_nil_r in Hgr.
  split.
  - apply (decoder_prefix c fuel sp b k d s' Hk Hgr). lia.
  - destruct (prefix_insufficient_open _ (guard_clean EUnclean (dec_item c fuel sp)) b k 0 d s' Hk
                (Nat.le_0_l k) Hgr ltac:(lia)) as (q & s1 & E).
    destruct (underrun_only_when_missing_run EUnclean _ _ q s1 E) as (n & kont & E' & Hlt). eauto.
Qed.

(* C05: whatever way the encoding (and anything after it) arrives - chunks, empty polls in between, the
   stream closed at the end or not - the driver yields underruns and then the object and the position of
   one-shot decoding *)
Theorem c05_of_clean c fuel sp b d : consumes_clean (dec_item c fuel sp) b d ->
  forall tl sched, wf_sched false sched -> arrivals sched = b ++ tl ->
  decode_with c fuel sp (b ++ tl) = Ok (d, tl)
  /\ exists j, drive sched (dec_item c fuel sp) (mkStream [] 0 false 0) = repeat OUnder j ++ [ODone (Ok d) (length b)].
Proof.
  intros Hc tl sched Hw Harr.
  destruct (guarded_run_of_clean c fuel sp b d Hc tl true) as (s' & Hgr & Hr & Hp & Ha & _).
  split.
  - unfold decode_with, run_complete. rewrite Hr. f_equal. f_equal.
    unfold avail. rewrite Hp, Ha. apply skipn_app_exact.
  - assert (Hcomp: complete (mkStream [] 0 false 0) sched = mkStream (b ++ tl) 0 true 0).
    { unfold complete. cbn [arrived pos mark app]. rewrite Harr. reflexivity. }
    destruct (sched_indep_ok_run EUnclean sched (dec_item c fuel sp) (mkStream [] 0 false 0) d s') as [j Hj].
    + exact Hw.
    + rewrite Hcomp. exact Hgr.
    + exists j. rewrite Hj, Hp. reflexivity.
Qed.

(* C07: a stream of items *)
Definition items_ok (c: codec) (fuel: nat) (sp: option ty) (bs: list bytes) (ds: list dval) : Prop :=
  Forall2 (fun b d => consumes_clean (dec_item c fuel sp) b d /\ 0 < length b) bs ds.

Lemma item_pos_run_g c fuel sp b d s tl :
  consumes_clean (dec_item c fuel sp) b d -> avail s = b ++ tl ->
  exists s1, resume (item_pos c fuel sp) s = inr (Ok (d, pos s + length b), s1)
    /\ pos s1 = pos s + length b /\ arrived s1 = arrived s /\ closed s1 = closed s /\ avail s1 = tl
    /\ clean_run (item_pos c fuel sp) s = true.
Proof.
  intros Hc Hav. destruct (Hc s tl Hav) as (s1 & Hr & Hp & Ha & Hcl & Hclean).
  exists s1. unfold item_pos. rewrite (resume_pbind_done _ _ _ _ _ Hr). rewrite resume_tell. cbn [resume]. rewrite Hp.
  split; [reflexivity|]. split; [reflexivity|]. split; [exact Ha|]. split; [exact Hcl|].
  split; [exact (consumes_avail b s tl s1 Hav Hp Ha)|].
  apply clean_run_pbind_k; [exact Hclean|]. intros d0. constructor. intros q. constructor.
Qed.

Lemma iter_loop_run_g c fuel sp : forall bs ds, items_ok c fuel sp bs ds -> bs <> [] ->
  forall n s, length bs <= n -> avail s = concat bs -> closed s = true ->
  exists sF, resume (iter_loop n (item_pos c fuel sp)) s = inr (Ok (combine ds (ends (pos s) bs)), sF)
    /\ pos sF = pos s + length (concat bs) /\ arrived sF = arrived s
    /\ ra_free_run (iter_loop n (item_pos c fuel sp)) s = true.
Proof.
  intros bs ds HF. induction HF as [|b d bs ds [Hc Hbpos] HF IH]; intros Hne n s Hn Hav Hcl; [congruence|].
  destruct n as [|n']; [cbn [length] in Hn; lia|].
  cbn [concat] in Hav.
  destruct (item_pos_run_g c fuel sp b d s (concat bs) Hc Hav) as (s1 & Hr & Hp1 & Ha1 & Hcl1 & Hav1 & Hclean).
  cbn [iter_loop]. rewrite (resume_pbind_done _ _ _ _ _ Hr).
  rewrite ra_free_run_pbind, Hr, (clean_run_ra_free _ _ Hclean). cbn [andb].
  cbn [resume ra_free_run]. rewrite Hav1, Hcl1, Hcl.
  destruct bs as [|b2 bs'].
  - inversion HF; subst. cbn [concat length Nat.eqb resume ra_free_run].
    exists s1. cbn [combine ends]. split; [reflexivity|].
    cbn [concat]. rewrite app_nil_r. repeat split; assumption.
  - assert (Hne2: b2 :: bs' <> []) by discriminate.
    assert (Hb2: 0 < length b2) by (inversion HF as [|? ? ? ? [_ H] _]; subst; exact H).
    assert (Hnz: Nat.eqb (length (concat (b2 :: bs'))) 0 = false).
    { apply Nat.eqb_neq. cbn [concat]. rewrite app_length. lia. }
    rewrite Hnz.
    destruct (IH Hne2 n' s1 ltac:(cbn [length] in *; lia) Hav1 ltac:(congruence)) as (sF & Hrun & HpF & HaF & Hra).
    exists sF.
    rewrite (resume_pbind_done _ _ _ _ _ Hrun). cbn [resume].
    rewrite ra_free_run_pbind, Hrun, Hra. cbn [andb ra_free_run].
    change (ends (pos s) (b :: b2 :: bs')) with ((pos s + length b) :: ends (pos s + length b) (b2 :: bs')).
    rewrite <- Hp1.
    destruct ds as [|d2 ds']; [inversion HF|]. cbn [combine]. split; [reflexivity|].
    change (concat (b :: b2 :: bs')) with (b ++ concat (b2 :: bs')). rewrite app_length.
    repeat split; [lia|congruence].
Qed.

(* n >= 1 encodings laid end to end: exactly n objects, the i-th reported with the stream position right
   after the i-th encoding, under EVERY well-formed schedule that eventually closes the stream *)
Theorem c07_of_clean c fuel sp bs ds : items_ok c fuel sp bs ds -> bs <> [] -> length bs <= fuel ->
  length ds = length bs
  /\ (forall i, i < length bs -> nth i (ends 0 bs) 0 = length (concat (firstn (S i) bs)))
  /\ (exists sF, run_complete (streaming c fuel sp) (concat bs) = inr (Ok (combine ds (ends 0 bs)), sF)
                 /\ pos sF = length (concat bs))
  /\ forall sched, wf_sched false sched -> has_close sched = true -> arrivals sched = concat bs ->
     exists j, drive sched (streaming c fuel sp) (mkStream [] 0 false 0)
               = repeat OUnder j ++ [ODone (Ok (combine ds (ends 0 bs))) (length (concat bs))].
Proof.
  intros HF Hne Hn.
  destruct (iter_loop_run_g c fuel sp bs ds HF Hne fuel (mkStream (concat bs) 0 true 0) Hn eq_refl eq_refl)
    as (sF & Hrun & HpF & HaF & Hra).
  cbn [pos arrived] in *.
  split; [symmetry; exact (Forall2_len _ _ _ HF)|].
  split; [intros i Hi; rewrite (ends_nth bs 0 i Hi); reflexivity|].
  split; [exists sF; split; [exact Hrun|exact HpF]|].
  intros sched Hw Hcl Harr.
  assert (Hcomp: complete (mkStream [] 0 false 0) sched = mkStream (concat bs) 0 true 0).
  { unfold complete. cbn [arrived pos mark app]. rewrite Harr. reflexivity. }
  destruct (streaming_sched_indep c fuel sp sched (mkStream [] 0 false 0) (Ok (combine ds (ends 0 bs))) sF) as [j Hj].
  - exact Hw.
  - rewrite Hcl. apply Bool.orb_true_r.
  - rewrite Hcomp. unfold streaming. rewrite (ra_free_run_guard EUnclean _ _ Hra). unfold streaming in Hrun. rewrite Hrun. reflexivity.
  - discriminate.
  - exists j. rewrite Hj, HpF. reflexivity.
Qed.

(* from per-value hypotheses to the list of items *)
Lemma items_of_vals {V} (Q: V -> bytes -> Prop) (S: V -> dval -> Prop) c fuel sp :
  (forall v b, Q v b -> exists d, S v d /\ consumes_clean (dec_item c fuel sp) b d /\ 0 < length b) ->
  forall vs bs, Forall2 Q vs bs -> exists ds, Forall2 S vs ds /\ items_ok c fuel sp bs ds.
Proof.
  intros H vs bs HF. induction HF as [|v b vs bs Hq HF (ds & IH1 & IH2)].
  - exists []. split; constructor.
  - destruct (H v b Hq) as (d & Hs & Hc & Hl). exists (d :: ds). split; constructor; auto.
Qed.

Print Assumptions c06_of_clean.
Print Assumptions c05_of_clean.
Print Assumptions c07_of_clean.

(* Stage 3 of the round trip, tag maps: what the tag map of a CHOICE, of a SET and of a run of
   OPTIONAL/DEFAULT components of a SEQUENCE answers for the tag sets met on the wire, under the
   condition the decoder genuinely needs: no key (complete tag set of a sibling, or of an
   alternative of an untagged CHOICE sibling) is a suffix of (or equal to) another key. *)
From Coq Require Import Lia.
From PV Require Import Base.Bytes Model.Tag Model.TableTypes Model.Types Model.Proc Model.Enc Model.Dec Gen.Tables
     Proofs.DecFrame Proofs.Schemaless Proofs.TagsetShape Proofs.ContainerCodecSort Proofs.RoundTrip1 Proofs.TagReject Proofs.RoundTrip3.
Local Open Scope N_scope.

(* ---------- tag set equality is an equivalence ---------- *)

Lemma tag_eqb_symb a b : tag_eqb a b = tag_eqb b a.
Proof. unfold tag_eqb. rewrite N.eqb_sym. destruct (tcls a), (tcls b); reflexivity. Qed.

Lemma tagset_eqb_cons x a y b : tagset_eqb (x :: a) (y :: b) = (tag_eqb x y && tagset_eqb a b)%bool.
Proof. reflexivity. Qed.

Lemma tagset_eqb_symb : forall a b, tagset_eqb a b = tagset_eqb b a.
Proof.
  induction a as [|x a IH]; intros [|y b]; try reflexivity.
  rewrite !tagset_eqb_cons, tag_eqb_symb, IH. reflexivity.
Qed.

Lemma tagset_eqb_trans : forall a b c, tagset_eqb a b = true -> tagset_eqb b c = true -> tagset_eqb a c = true.
Proof.
  induction a as [|x a IH]; intros [|y b] [|z c] H1 H2; try discriminate; [reflexivity|].
  rewrite tagset_eqb_cons in *. apply Bool.andb_true_iff in H1. apply Bool.andb_true_iff in H2.
  destruct H1 as [A1 A2]. destruct H2 as [B1 B2].
  rewrite (tag_eqb_trans _ _ _ A1 B1), (IH _ _ A2 B2). reflexivity.
Qed.

Lemma tagset_eqb_false_l a b c : tagset_eqb a b = true -> tagset_eqb b c = false -> tagset_eqb a c = false.
Proof.
  intros H1 H2. destruct (tagset_eqb a c) eqn:E; [|reflexivity].
  rewrite tagset_eqb_symb in H1. rewrite (tagset_eqb_trans _ _ _ H1 E) in H2. discriminate.
Qed.

(* membership up to tag set equality *)
Lemma tm_mem_app k a b : tm_mem k (a ++ b) = (tm_mem k a || tm_mem k b)%bool.
Proof. unfold tm_mem. apply existsb_app. Qed.

Lemma tm_mem_eqb k k' l : tagset_eqb k k' = true -> tm_mem k l = tm_mem k' l.
Proof.
  intros H. unfold tm_mem. induction l as [|x l IH]; [reflexivity|]. cbn [existsb]. rewrite IH. f_equal.
  destruct (tagset_eqb k' x) eqn:E.
  - exact (tagset_eqb_trans _ _ _ H E).
  - exact (tagset_eqb_false_l _ _ _ H E).
Qed.

Lemma tm_mem_in k l : In k l -> tm_mem k l = true.
Proof.
  intros H. unfold tm_mem. apply existsb_exists. exists k. split; [exact H|apply tagset_eqb_refl].
Qed.

Lemma tm_mem_true k l : tm_mem k l = true -> exists k', In k' l /\ tagset_eqb k k' = true.
Proof. unfold tm_mem. intros H. apply existsb_exists in H. exact H. Qed.

(* ---------- association lists keyed by tag sets ---------- *)

Definition is_some {A} (o: option A) : bool := match o with Some _ => true | None => false end.

Lemma find_mem {B} k (p: list (tagset * B)) : is_some (assoc tagset_eqb k p) = tm_mem k (map fst p).
Proof.
  induction p as [|[a x] p IH]; [reflexivity|]. cbn [assoc map fst]. unfold tm_mem in *. cbn [existsb].
  destruct (tagset_eqb k a); [reflexivity|exact IH].
Qed.

Lemma find_app {B} k (a b: list (tagset * B)) :
  assoc tagset_eqb k (a ++ b) = match assoc tagset_eqb k a with Some x => Some x | None => assoc tagset_eqb k b end.
Proof.
  induction a as [|[c x] a IH]; [reflexivity|]. cbn [app assoc]. destruct (tagset_eqb k c); [reflexivity|exact IH].
Qed.

Lemma find_filter {B} k k1 (p: list (tagset * B)) :
  assoc tagset_eqb k (filter (fun e => negb (tagset_eqb (fst e) k1)) p) =
  if tagset_eqb k k1 then None else assoc tagset_eqb k p.
Proof.
  induction p as [|[a x] p IH]; [destruct (tagset_eqb k k1); reflexivity|].
  cbn [filter fst]. destruct (tagset_eqb a k1) eqn:Ea; cbn [negb].
  - rewrite IH. destruct (tagset_eqb k k1) eqn:Ek; [reflexivity|].
    cbn [assoc]. rewrite (tagset_eqb_symb a k1) in Ea.
    assert (Hka: tagset_eqb k a = false).
    { destruct (tagset_eqb k a) eqn:E; [|reflexivity]. rewrite tagset_eqb_symb in Ea.
      rewrite (tagset_eqb_trans _ _ _ E Ea) in Ek. discriminate. }
    rewrite Hka. reflexivity.
  - cbn [assoc]. rewrite IH. destruct (tagset_eqb k k1) eqn:Ek.
    + assert (Hka: tagset_eqb k a = false).
      { destruct (tagset_eqb k a) eqn:E; [|reflexivity]. rewrite tagset_eqb_symb in E.
        rewrite (tagset_eqb_trans _ _ _ E Ek) in Ea. discriminate. }
      rewrite Hka. reflexivity.
    + reflexivity.
Qed.

Lemma fold_override k T kts : forall p0,
  tm_find k (fold_left (fun p (kt: tagset * ty) => filter (fun e => negb (tagset_eqb (fst e) (fst kt))) p ++ [(fst kt, T)]) kts p0)
  = if tm_mem k (map fst kts) then Some T else tm_find k p0.
Proof.
  induction kts as [|[k1 x] kts IH]; intros p0; [reflexivity|].
  cbn [fold_left map fst]. rewrite IH. unfold tm_mem. cbn [existsb].
  fold (tm_mem k (map fst kts)). destruct (tm_mem k (map fst kts)); [rewrite Bool.orb_true_r; reflexivity|].
  rewrite Bool.orb_false_r. unfold tm_find. rewrite find_app, find_filter. cbn [assoc].
  destruct (tagset_eqb k k1); [reflexivity|]. destruct (assoc tagset_eqb k p0); reflexivity.
Qed.

(* ---------- combine_maps ---------- *)

Definition mkeys (m: tmap) : list tagset := map fst (tm_present m).

Fixpoint cm_find (k: tagset) (l: list (tmap * ty)) (d: option ty) : option ty :=
  match l with
  | [] => d
  | (m, T) :: r => cm_find k r (if tm_mem k (mkeys m) then Some T else d)
  end.

Lemma combine_find u k : forall l acc,
  tm_find k (tm_present (combine_maps u l acc)) = cm_find k l (tm_find k (tm_present acc)).
Proof.
  induction l as [|[m T] l IH]; intros acc; [reflexivity|].
  cbn [combine_maps cm_find]. rewrite IH. cbn [tm_present]. rewrite fold_override. reflexivity.
Qed.

Lemma combine_default u : forall l acc, Forall (fun mt => tm_default (fst mt) = None) l ->
  tm_default (combine_maps u l acc) = tm_default acc.
Proof.
  induction l as [|[m T] l IH]; intros acc HF; [reflexivity|].
  inversion HF as [|? ? Hm HF']; subst. cbn [fst] in Hm.
  cbn [combine_maps]. rewrite (IH _ HF'). cbn [tm_default]. rewrite Hm. destruct (tm_default acc); reflexivity.
Qed.

Lemma cm_find_absent k : forall l d, Forall (fun mt => tm_mem k (mkeys (fst mt)) = false) l -> cm_find k l d = d.
Proof.
  induction l as [|[m T] l IH]; intros d HF; [reflexivity|].
  inversion HF as [|? ? Hm HF']; subst. cbn [fst] in Hm. cbn [cm_find]. rewrite Hm. apply IH. exact HF'.
Qed.

Lemma cm_find_is_some k : forall l d, is_some (cm_find k l d) = (is_some d || existsb (fun mt => tm_mem k (mkeys (fst mt))) l)%bool.
Proof.
  induction l as [|[m T] l IH]; intros d; [cbn; rewrite Bool.orb_false_r; reflexivity|].
  cbn [cm_find existsb fst]. rewrite IH. destruct (tm_mem k (mkeys m)); cbn [is_some orb].
  - rewrite Bool.orb_true_r. reflexivity.
  - reflexivity.
Qed.

(* siblings whose key sets are pairwise disjoint (up to tag set equality) *)
Inductive maps_disj : list (tmap * ty) -> Prop :=
| maps_disj_nil : maps_disj []
| maps_disj_cons m T r :
    Forall (fun mt => forall k, tm_mem k (mkeys m) = true -> tm_mem k (mkeys (fst mt)) = false) r ->
    maps_disj r -> maps_disj ((m, T) :: r).

Lemma combine_postponed u : forall l acc,
  tm_postponed acc = false -> tm_default acc = None ->
  Forall (fun mt => tm_postponed (fst mt) = false /\ tm_default (fst mt) = None) l ->
  Forall (fun mt => forall k, tm_mem k (mkeys acc) = true -> tm_mem k (mkeys (fst mt)) = false) l ->
  maps_disj l ->
  tm_postponed (combine_maps u l acc) = false.
Proof.
  induction l as [|[m T] l IH]; intros acc Hp Hd HF Hacc Hdisj; [exact Hp|].
  inversion HF as [|? ? [Hmp Hmd] HF']; subst. cbn [fst] in Hmp, Hmd.
  inversion Hacc as [|? ? Ham Hacc']; subst. cbn [fst] in Ham.
  inversion Hdisj as [|? ? ? Hmr Hdisj']; subst.
  cbn [combine_maps]. apply IH; cbn [tm_postponed tm_default tm_present].
  - rewrite Hp, Hmp, Hd. cbn [orb]. rewrite Bool.orb_false_r, Bool.andb_false_iff. right.
    (* no key of m is found in acc *)
    destruct (existsb _ (tm_present m)) eqn:E; [|reflexivity]. exfalso.
    apply existsb_exists in E. destruct E as ([k x] & Hin & Hf). cbn [fst] in Hf.
    assert (Hk: tm_mem k (mkeys acc) = true).
    { unfold mkeys. rewrite <- find_mem. unfold tm_find in Hf. destruct (assoc tagset_eqb k (tm_present acc)); [reflexivity|discriminate]. }
    specialize (Ham k Hk). rewrite tm_mem_in in Ham; [discriminate|]. unfold mkeys. apply in_map_iff. exists (k, x). split; [reflexivity|exact Hin].
  - rewrite Hd. exact Hmd.
  - exact HF'.
  - (* keys of the new accumulator: those of acc and those of m *)
    rewrite Forall_forall in *. intros mt Hin k Hk.
    assert (Hor: tm_mem k (mkeys acc) = true \/ tm_mem k (mkeys m) = true).
    { unfold mkeys in Hk. cbn [tm_present] in Hk. rewrite <- find_mem in Hk.
      change (assoc tagset_eqb k) with (tm_find k) in Hk. rewrite fold_override in Hk.
      destruct (tm_mem k (map fst (tm_present m))) eqn:E; [right; exact E|left].
      unfold mkeys. rewrite <- find_mem. exact Hk. }
    destruct Hor as [H1|H1]; [exact (Hacc' mt Hin k H1)|exact (Hmr mt Hin k H1)].
  - exact Hdisj'.
Qed.

(* ---------- the keys of a type's tag map ---------- *)

Fixpoint ckeys (T: ty) : list tagset :=
  match T with
  | TChoice alts => (fix go (l: list ty) : list tagset := match l with [] => [] | a :: r => ckeys a ++ go r end) alts
  | TAny => [[]]
  | _ => [tagset_of' T]
  end.

Lemma ckeys_choice alts : ckeys (TChoice alts) = flat_map ckeys alts.
Proof. cbn [ckeys]. induction alts as [|a r IH]; [reflexivity|]. cbn [flat_map]. rewrite <- IH. reflexivity. Qed.

(* neither is a non-empty suffix of the other, nor are they equal *)
Definition no_clash (a b: tagset) : bool := suffix_free a b && suffix_free b a.

Fixpoint keys_ok (K: list tagset) : bool :=
  match K with
  | [] => true
  | k :: r => negb (match k with [] => true | _ => false end) && forallb (no_clash k) r && keys_ok r
  end.

Lemma no_clash_sym a b : no_clash a b = no_clash b a.
Proof. unfold no_clash. apply Bool.andb_comm. Qed.

Lemma keys_ok_app a b : keys_ok (a ++ b) = true ->
  keys_ok a = true /\ keys_ok b = true /\ forall x y, In x a -> In y b -> no_clash x y = true.
Proof.
  induction a as [|k a IH]; intros H.
  - split; [reflexivity|]. split; [exact H|]. intros x y [].
  - cbn [app keys_ok] in H. apply Bool.andb_true_iff in H. destruct H as [H H3].
    apply Bool.andb_true_iff in H. destruct H as [H1 H2].
    rewrite forallb_app in H2. apply Bool.andb_true_iff in H2. destruct H2 as [H2a H2b].
    destruct (IH H3) as (Ia & Ib & Iab). split.
    + cbn [keys_ok]. rewrite H1, H2a, Ia. reflexivity.
    + split; [exact Ib|]. intros x y [<-|Hx] Hy.
      * rewrite forallb_forall in H2b. exact (H2b y Hy).
      * exact (Iab x y Hx Hy).
Qed.

Lemma keys_ok_nonempty K k : keys_ok K = true -> In k K -> k <> [].
Proof.
  induction K as [|k0 K IH]; intros H Hin; [destruct Hin|]. destruct Hin as [<-|Hin].
  - cbn [keys_ok] in H. destruct k0; [discriminate H|discriminate].
  - cbn [keys_ok] in H. apply Bool.andb_true_iff in H. destruct H as [_ H]. exact (IH H Hin).
Qed.

Lemma keys_ok_pair K : keys_ok K = true -> forall k k2, In k K -> In k2 K -> k2 = k \/ no_clash k k2 = true.
Proof.
  induction K as [|k0 K IH]; intros H k k2 Hk Hk2; [destruct Hk|].
  cbn [keys_ok] in H. apply Bool.andb_true_iff in H. destruct H as [H H3].
  apply Bool.andb_true_iff in H. destruct H as [_ H2]. rewrite forallb_forall in H2.
  destruct Hk as [<-|Hk]; destruct Hk2 as [<-|Hk2].
  - left; reflexivity.
  - right. exact (H2 k2 Hk2).
  - right. rewrite no_clash_sym. exact (H2 k Hk).
  - exact (IH H3 k k2 Hk Hk2).
Qed.

Lemma no_clash_neq a b : a <> [] -> no_clash a b = true -> tagset_eqb a b = false.
Proof.
  intros Hne H. unfold no_clash in H. apply Bool.andb_true_iff in H. destruct H as [H _].
  exact (tags_differ_neq a b Hne H).
Qed.

(* a non-empty proper suffix of a key is (up to equality) no key *)
Lemma suffix_not_key K k p s : keys_ok K = true -> In k K -> k = p ++ s -> p <> [] -> s <> [] -> tm_mem s K = false.
Proof.
  intros HK Hk Hps Hp Hs. destruct (tm_mem s K) eqn:E; [|reflexivity]. exfalso.
  destruct (tm_mem_true _ _ E) as (k2 & Hk2 & Heq).
  destruct (keys_ok_pair K HK k k2 Hk Hk2) as [->|Hnc].
  - apply tagset_eqb_length in Heq. rewrite Hps, app_length in Heq. destruct p; [congruence|cbn [length] in Heq; lia].
  - unfold no_clash in Hnc. apply Bool.andb_true_iff in Hnc. destruct Hnc as [H1 _].
    rewrite (suffix_free_spec k k2 H1 p s Hps Hs) in Heq. discriminate.
Qed.

(* distinct keys of a good key list differ *)
Lemma keys_disjoint a b : keys_ok (a ++ b) = true -> forall k, tm_mem k a = true -> tm_mem k b = false.
Proof.
  intros H k Ha. destruct (keys_ok_app a b H) as (Ka & Kb & Kab).
  destruct (tm_mem k b) eqn:Eb; [|reflexivity]. exfalso.
  destruct (tm_mem_true _ _ Ha) as (x & Hx & Ex). destruct (tm_mem_true _ _ Eb) as (y & Hy & Ey).
  pose proof (no_clash_neq x y (keys_ok_nonempty a x Ka Hx) (Kab x y Hx Hy)) as Hxy.
  rewrite tagset_eqb_symb in Ex. rewrite (tagset_eqb_trans _ _ _ Ex Ey) in Hxy. discriminate.
Qed.

Definition tmaps (l: list ty) : list (tmap * ty) := map (fun t => (tagmap_of t, t)) l.

Lemma tagmap_choice alts : tagmap_of (TChoice alts) = combine_maps true (tmaps alts) empty_tmap.
Proof.
  reflexivity.
Qed.

(* what is needed of each sibling's own tag map *)
Definition map_good (T: ty) : Prop :=
  tm_postponed (tagmap_of T) = false /\ tm_default (tagmap_of T) = None /\
  forall k, tm_mem k (mkeys (tagmap_of T)) = tm_mem k (ckeys T).

Lemma maps_disj_of_keys : forall l, Forall map_good l -> keys_ok (flat_map ckeys l) = true -> maps_disj (tmaps l).
Proof.
  induction l as [|t l IH]; intros HF HK; [constructor|].
  inversion HF as [|? ? Ht HF']; subst. cbn [flat_map] in HK.
  destruct (keys_ok_app _ _ HK) as (_ & Kl & _).
  cbn [tmaps map]. constructor; [|exact (IH HF' Kl)].
  apply Forall_forall. intros mt Hin k Hk. apply in_map_iff in Hin. destruct Hin as (B & <- & HB). cbn [fst].
  destruct Ht as (_ & _ & Htm). rewrite Htm in Hk.
  rewrite Forall_forall in HF'. destruct (HF' B HB) as (_ & _ & HBm). rewrite HBm.
  pose proof (keys_disjoint _ _ HK k Hk) as Hd.
  destruct (tm_mem k (ckeys B)) eqn:E; [|reflexivity].
  assert (Hm: tm_mem k (flat_map ckeys l) = true).
  { destruct (tm_mem_true _ _ E) as (k' & Hk' & Ek'). unfold tm_mem. apply existsb_exists. exists k'. split; [|exact Ek'].
    apply in_flat_map. exists B. split; assumption. }
  congruence.
Qed.

Lemma existsb_tmaps_mem k l : Forall map_good l ->
  existsb (fun mt => tm_mem k (mkeys (fst mt))) (tmaps l) = tm_mem k (flat_map ckeys l).
Proof.
  induction 1 as [|t l (_ & _ & Hm) _ IH]; [reflexivity|].
  cbn [tmaps map existsb fst flat_map]. rewrite tm_mem_app, Hm. f_equal. exact IH.
Qed.

Lemma Forall_tmaps_good l : Forall map_good l ->
  Forall (fun mt => tm_postponed (fst mt) = false /\ tm_default (fst mt) = None) (tmaps l).
Proof. induction 1 as [|t l (H1 & H2 & _) _ IH]; cbn [tmaps map]; constructor; [split; assumption|exact IH]. Qed.

Lemma Forall_tmaps_nodefault l : Forall map_good l -> Forall (fun mt => tm_default (fst mt) = None) (tmaps l).
Proof. induction 1 as [|t l (H1 & H2 & _) _ IH]; cbn [tmaps map]; constructor; [assumption|exact IH]. Qed.

(* the tag map of a list of siblings with good keys *)
Lemma sibling_map u l : Forall map_good l -> keys_ok (flat_map ckeys l) = true ->
  let m := combine_maps u (tmaps l) empty_tmap in
  tm_postponed m = false /\ tm_default m = None /\ forall k, tm_mem k (mkeys m) = tm_mem k (flat_map ckeys l).
Proof.
  intros HF HK m. split; [|split].
  - apply combine_postponed; try reflexivity.
    + apply Forall_tmaps_good; exact HF.
    + apply Forall_forall. intros mt _ k Hk. discriminate Hk.
    + apply maps_disj_of_keys; assumption.
  - subst m. rewrite combine_default; [reflexivity|apply Forall_tmaps_nodefault; exact HF].
  - intros k. unfold mkeys. rewrite <- find_mem. change (assoc tagset_eqb k) with (tm_find k). subst m.
    rewrite combine_find. cbn [empty_tmap tm_present tm_find assoc]. rewrite cm_find_is_some. cbn [is_some orb].
    apply existsb_tmaps_mem. exact HF.
Qed.

Theorem tagmap_good : forall T, keys_ok (ckeys T) = true -> map_good T.
Proof.
  induction T as [| | | | | | | | n|fs IH|fs IH|t IH|t IH|alts IH| |tg x IH|tg x IH] using ty_ind'; intros HK;
    try (split; [reflexivity|split; [reflexivity|intros k; reflexivity]]).
  - (* CHOICE *)
    rewrite ckeys_choice in HK.
    assert (HF: Forall map_good alts).
    { clear - IH HK. induction alts as [|a r IHr]; [constructor|].
      inversion IH as [|? ? Ha Hr]; subst. cbn [flat_map] in HK. destruct (keys_ok_app _ _ HK) as (Ka & Kr & _).
      constructor; [exact (Ha Ka)|exact (IHr Hr Kr)]. }
    unfold map_good. rewrite tagmap_choice, ckeys_choice. exact (sibling_map true alts HF HK).
  - (* ANY: the empty key *)
    discriminate HK.
Qed.

Lemma Forall_map_good l : keys_ok (flat_map ckeys l) = true -> Forall map_good l.
Proof.
  induction l as [|t l IH]; intros HK; [constructor|]. cbn [flat_map] in HK.
  destruct (keys_ok_app _ _ HK) as (Kt & Kl & _). constructor; [exact (tagmap_good t Kt)|exact (IH Kl)].
Qed.

(* ---------- a list of siblings: the answers of its tag map and of its position map ---------- *)

Lemma cm_find_app k a b d : cm_find k (a ++ b) d = cm_find k b (cm_find k a d).
Proof. revert d. induction a as [|[m T] a IH]; intros d; [reflexivity|]. cbn [app cm_find]. apply IH. Qed.

Lemma tmaps_app a b : tmaps (a ++ b) = tmaps a ++ tmaps b.
Proof. unfold tmaps. apply map_app. Qed.

Lemma mem_flat k B l : In B l -> tm_mem k (ckeys B) = true -> tm_mem k (flat_map ckeys l) = true.
Proof.
  intros HB E. destruct (tm_mem_true _ _ E) as (k' & Hk' & Ek'). unfold tm_mem. apply existsb_exists.
  exists k'. split; [|exact Ek']. apply in_flat_map. exists B. split; assumption.
Qed.

Lemma sib_disjoint l1 A l2 k : keys_ok (flat_map ckeys (l1 ++ A :: l2)) = true -> tm_mem k (ckeys A) = true ->
  forall B, In B l1 \/ In B l2 -> tm_mem k (ckeys B) = false.
Proof.
  intros HK HA B HB. rewrite flat_map_app in HK. cbn [flat_map] in HK.
  destruct (tm_mem k (ckeys B)) eqn:E; [|reflexivity]. exfalso. destruct HB as [HB|HB].
  - pose proof (keys_disjoint _ _ HK k (mem_flat k B l1 HB E)) as Hd. rewrite tm_mem_app, HA in Hd. discriminate.
  - destruct (keys_ok_app _ _ HK) as (_ & K2 & _).
    pose proof (keys_disjoint _ _ K2 k HA) as Hd. rewrite (mem_flat k B l2 HB E) in Hd. discriminate.
Qed.

Lemma nth_error_split' {X} (l: list X) i x : nth_error l i = Some x -> exists l1 l2, l = l1 ++ x :: l2 /\ length l1 = i.
Proof. apply nth_error_split. Qed.

Fixpoint pos_find (k: tagset) (l: list ty) (i0: nat) : option nat :=
  match l with
  | [] => None
  | t :: r => if tm_mem k (mkeys (tagmap_of t)) then Some i0 else pos_find k r (S i0)
  end.

Lemma assoc_keys_const k (keys: list tagset) (i0: nat) :
  assoc tagset_eqb k (map (fun k0 => (k0, i0)) keys) = if tm_mem k keys then Some i0 else None.
Proof.
  induction keys as [|a keys IH]; [reflexivity|]. cbn [map assoc]. unfold tm_mem in *. cbn [existsb].
  destruct (tagset_eqb k a); [reflexivity|exact IH].
Qed.

Lemma tag_to_pos_spec : forall l i0 acc, Forall map_good l -> maps_disj (tmaps l) ->
  Forall (fun t => forall k, tm_mem k (map fst acc) = true -> tm_mem k (mkeys (tagmap_of t)) = false) l ->
  exists mp, tag_to_pos l i0 acc = Some mp /\
    forall k, assoc tagset_eqb k mp = match assoc tagset_eqb k acc with Some j => Some j | None => pos_find k l i0 end.
Proof.
  induction l as [|t r IH]; intros i0 acc HF Hdisj Hacc.
  - exists acc. split; [reflexivity|]. intros k. cbn [pos_find]. destruct (assoc tagset_eqb k acc); reflexivity.
  - inversion HF as [|? ? (Hp & Hd & Hm) HF']; subst.
    inversion Hacc as [|? ? Hat Hacc']; subst.
    cbn [tmaps map] in Hdisj. inversion Hdisj as [|? ? ? Hmr Hdisj']; subst.
    cbn [tag_to_pos]. rewrite Hp.
    assert (Hno: existsb (fun k => match assoc tagset_eqb k acc with Some _ => true | None => false end)
                   (map fst (tm_present (tagmap_of t))) = false).
    { destruct (existsb _ _) eqn:E; [|reflexivity]. exfalso. apply existsb_exists in E. destruct E as (k & Hin & Hf).
      assert (Hk: tm_mem k (map fst acc) = true).
      { rewrite <- find_mem. destruct (assoc tagset_eqb k acc); [reflexivity|discriminate]. }
      specialize (Hat k Hk). unfold mkeys in Hat. rewrite (tm_mem_in _ _ Hin) in Hat. discriminate. }
    rewrite Hno.
    destruct (IH (S i0) (acc ++ map (fun k => (k, i0)) (map fst (tm_present (tagmap_of t)))) HF' Hdisj') as (mp & Hmp & Hfind).
    { rewrite Forall_forall in *. intros B HB k Hk. rewrite map_app, map_map in Hk. cbn [fst] in Hk. rewrite map_id in Hk.
      rewrite tm_mem_app in Hk. apply Bool.orb_true_iff in Hk. destruct Hk as [Hk|Hk].
      - exact (Hacc' B HB k Hk).
      - apply (Hmr (tagmap_of B, B)); [apply in_map_iff; exists B; split; [reflexivity|exact HB]|exact Hk]. }
    exists mp. split; [exact Hmp|]. intros k. rewrite Hfind, find_app, assoc_keys_const. cbn [pos_find]. unfold mkeys.
    destruct (assoc tagset_eqb k acc); [reflexivity|].
    destruct (tm_mem k (map fst (tm_present (tagmap_of t)))); reflexivity.
Qed.

Lemma pos_find_app k a b i0 : Forall (fun t => tm_mem k (mkeys (tagmap_of t)) = false) a ->
  pos_find k (a ++ b) i0 = pos_find k b (i0 + length a).
Proof.
  revert i0. induction a as [|t a IH]; intros i0 HF; [cbn [app length]; rewrite Nat.add_0_r; reflexivity|].
  inversion HF as [|? ? Ht HF']; subst. cbn [app pos_find length]. rewrite Ht, (IH (S i0) HF'). f_equal. lia.
Qed.

Section Siblings.
  Variable u : bool.
  Variable l : list ty.
  Hypothesis HK : keys_ok (flat_map ckeys l) = true.

  Lemma sib_get k : tm_get (fields_tagmap u l) k = Ok (tm_find k (tm_present (fields_tagmap u l))).
  Proof.
    destruct (sibling_map u l (Forall_map_good l HK) HK) as (Hp & Hd & _).
    unfold tm_get, fields_tagmap. fold (tmaps l). rewrite Hp, Hd. destruct (tm_find k _); reflexivity.
  Qed.

  Lemma sib_miss s : tm_mem s (flat_map ckeys l) = false -> tm_get (fields_tagmap u l) s = Ok None.
  Proof.
    intros Hs. rewrite sib_get.
    destruct (sibling_map u l (Forall_map_good l HK) HK) as (_ & _ & Hm).
    specialize (Hm s). unfold mkeys in Hm. rewrite <- find_mem in Hm. unfold fields_tagmap. fold (tmaps l).
    unfold tm_find. destruct (assoc tagset_eqb s _); [cbn [is_some] in Hm; congruence|reflexivity].
  Qed.

  Lemma sib_hit i A k : nth_error l i = Some A -> tm_mem k (ckeys A) = true -> tm_get (fields_tagmap u l) k = Ok (Some A).
  Proof.
    intros Hn HA. rewrite sib_get. f_equal. unfold fields_tagmap. fold (tmaps l).
    rewrite combine_find. cbn [empty_tmap tm_present tm_find assoc].
    destruct (nth_error_split' l i A Hn) as (l1 & l2 & Hl & _).
    pose proof (Forall_map_good l HK) as HF. rewrite Hl in HF |- *.
    apply Forall_app in HF. destruct HF as [HF1 HF2]. inversion HF2 as [|? ? (_ & _ & HAm) HF2']; subst.
    rewrite tmaps_app, cm_find_app. cbn [tmaps map cm_find]. rewrite HAm, HA.
    apply cm_find_absent. apply Forall_forall. intros mt Hin. apply in_map_iff in Hin. destruct Hin as (B & <- & HB). cbn [fst].
    rewrite Forall_forall in HF2'. destruct (HF2' B HB) as (_ & _ & HBm). rewrite HBm.
    apply (sib_disjoint l1 A l2 k HK HA). right. exact HB.
  Qed.

  Lemma sib_pos i A k : nth_error l i = Some A -> tm_mem k (ckeys A) = true -> position_by_type l k = Ok i.
  Proof.
    intros Hn HA. unfold position_by_type.
    pose proof (Forall_map_good l HK) as HF.
    destruct (tag_to_pos_spec l 0 [] HF (maps_disj_of_keys l HF HK)) as (mp & Hmp & Hfind).
    { apply Forall_forall. intros t _ k0 Hk0. discriminate Hk0. }
    rewrite Hmp, Hfind. cbn [assoc].
    destruct (nth_error_split' l i A Hn) as (l1 & l2 & Hl & Hlen).
    rewrite Hl in HF, HK |- *. apply Forall_app in HF. destruct HF as [HF1 HF2]. inversion HF2 as [|? ? (_ & _ & HAm) HF2']; subst.
    rewrite pos_find_app.
    - cbn [pos_find]. rewrite HAm, HA. reflexivity.
    - apply Forall_forall. intros B HB. rewrite Forall_forall in HF1. destruct (HF1 B HB) as (_ & _ & HBm). rewrite HBm.
      apply (sib_disjoint l1 A l2 k HK HA). left. exact HB.
  Qed.

  (* a non-empty proper suffix of a key resolves to nothing *)
  Lemma sib_suffix_miss A key p s : In A l -> In key (ckeys A) -> key = p ++ s -> p <> [] -> s <> [] ->
    tm_get (fields_tagmap u l) s = Ok None.
  Proof.
    intros HA Hk Hps Hp Hs. apply sib_miss.
    apply (suffix_not_key _ key p s HK); try assumption. apply in_flat_map. exists A. split; assumption.
  Qed.
End Siblings.

Lemma keys_ok_sub a l : In a l -> keys_ok (flat_map ckeys l) = true -> keys_ok (ckeys a) = true.
Proof.
  induction l as [|y l IH]; intros [] HK.
  - subst. cbn [flat_map] in HK. exact (proj1 (keys_ok_app _ _ HK)).
  - cbn [flat_map] in HK. apply IH; [assumption|]. exact (proj1 (proj2 (keys_ok_app _ _ HK))).
Qed.

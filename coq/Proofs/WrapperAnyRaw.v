(* CachingStreamWrapper over an arbitrary raw stream (short reads, None answers, anything
   deterministic) refines the seekable stream that keeps everything delivered so far and draws
   on the same source: dropping the cache and renumbering by the kept offset is invisible (C11).
   Also: without fixes/F05.diff a None from the raw stream ends in TypeError (finding F05). *)
From Coq Require Import Lia Arith.
From PV Require Import Base.Bytes Model.Wrapper Proofs.Wrapper.

Lemma wstep_other_raw_rest v bufsize w o :
  match o with ORead _ | OReadAll | OPeek _ => False | _ => True end ->
  raw_rest (fst (wstep v bufsize w o)) = raw_rest w.
Proof.
  destruct o; intros H; try contradiction; cbn [wstep].
  - destruct (Nat.ltb p (w_base v w)); reflexivity.
  - reflexivity.
  - reflexivity.
  - unfold w_set_mark. destruct (Nat.ltb bufsize (bpos (wcache w))); [destruct v|]; reflexivity.
  - reflexivity.
Qed.

Section AnyRaw.
  Variable R : Type.
  Variable rread : option nat -> R -> option bytes * R.

  (* what the relation says once the records are opened *)
  Lemma grelated_open (g: gwstate R) (f: fstate R) : grelated g f ->
    exists D C cp off mk r,
      g = mkGW r (mkW [] (mkBio C cp) off mk)
      /\ f = mkF r (mkS (D ++ C) (off + cp) mk)
      /\ length D = off /\ cp <= length C /\ off <= mk.
  Proof.
    destruct g as [r [RR [C cp] off mk]], f as [r' [all pos smk]].
    intros ((D & Hall & HD & Hpos & Hcp & Hmk & Hoff) & Hrr & Hraw).
    cbn [gw graw fs fraw raw_rest wcache bbuf bpos woff wmark sall spos smark] in *.
    subst. rewrite app_nil_r. exists D, C, cp, (length D), mk, r'. repeat split; auto.
  Qed.

  Lemma grelated_make D C cp off mk (r: R) :
    length D = off -> cp <= length C -> off <= mk ->
    grelated (mkGW r (mkW [] (mkBio C cp) off mk)) (mkF r (mkS (D ++ C) (off + cp) mk)).
  Proof.
    intros HD Hcp Hoff. split; [|split; reflexivity].
    exists D. cbn [gw fs raw_rest wcache bbuf bpos woff wmark sall spos smark].
    rewrite app_nil_r. repeat split; auto.
  Qed.

  Lemma skipn_DC (D C: bytes) off cp : length D = off -> skipn (off + cp) (D ++ C) = skipn cp C.
  Proof. intros H. rewrite skipn_app_ge by lia. f_equal. lia. Qed.

  Lemma g_read_refines n g f : grelated g f ->
    snd (g_read rread true n g) = snd (f_read rread n f)
    /\ grelated (fst (g_read rread true n g)) (fst (f_read rread n f)).
  Proof.
    intros H. destruct (grelated_open g f H) as (D & C & cp & off & mk & r & -> & -> & HD & Hcp & Hoff).
    unfold g_read, f_read, bio_read.
    cbn [gw graw fs fraw raw_rest wcache bbuf bpos woff wmark sall spos smark with_cache].
    rewrite (skipn_DC D C off cp HD).
    set (c := firstn n (skipn cp C)).
    assert (Hc: length c = Nat.min n (length C - cp)) by (subst c; rewrite firstn_length, skipn_length; reflexivity).
    destruct (n - length c) as [|k] eqn:En.
    - cbn [fst snd]. split; [reflexivity|].
      replace (off + cp + length c) with (off + (cp + length c)) by lia.
      apply grelated_make; lia.
    - assert (Epos: cp + length c = length C) by lia.
      rewrite Epos. destruct (rread (Some (S k)) r) as [[d|] r'].
      + rewrite bio_write_end. cbn [fst snd]. split; [reflexivity|].
        rewrite <- app_assoc.
        replace (off + cp + length c + length d) with (off + (length C + length d)) by lia.
        apply grelated_make; try lia. rewrite app_length. lia.
      + cbn [fst snd g_after_none]. split; [reflexivity|].
        replace (off + cp + length c) with (off + length C) by lia.
        apply grelated_make; lia.
  Qed.

  Lemma g_read_all_refines g f : grelated g f ->
    snd (g_read_all rread true g) = snd (f_read_all rread f)
    /\ grelated (fst (g_read_all rread true g)) (fst (f_read_all rread f)).
  Proof.
    intros H. destruct (grelated_open g f H) as (D & C & cp & off & mk & r & -> & -> & HD & Hcp & Hoff).
    unfold g_read_all, f_read_all, bio_read_all.
    cbn [gw graw fs fraw raw_rest wcache bbuf bpos woff wmark sall spos smark with_cache].
    rewrite (skipn_DC D C off cp HD).
    assert (Epos: cp + length (skipn cp C) = length C) by (rewrite skipn_length; lia).
    rewrite Epos. destruct (rread None r) as [[d|] r'].
    - rewrite bio_write_end. cbn [fst snd]. split; [reflexivity|].
      rewrite <- app_assoc.
      replace (off + cp + length (skipn cp C) + length d) with (off + (length C + length d)) by lia.
      apply grelated_make; try lia. rewrite app_length. lia.
    - cbn [fst snd g_after_none]. split; [reflexivity|].
      replace (off + cp + length (skipn cp C)) with (off + length C) by lia.
      apply grelated_make; lia.
  Qed.

  Lemma g_read_moves n g f : grelated g f ->
    match snd (f_read rread n f) with
    | OBytes r => length r <= bpos (wcache (gw (fst (g_read rread true n g))))
                  /\ length r <= spos (fs (fst (f_read rread n f)))
                  /\ woff (gw (fst (g_read rread true n g))) <= spos (fs (fst (f_read rread n f))) - length r
    | _ => True
    end.
  Proof.
    intros H. destruct (grelated_open g f H) as (D & C & cp & off & mk & r & -> & -> & HD & Hcp & Hoff).
    unfold g_read, f_read, bio_read.
    cbn [gw graw fs fraw raw_rest wcache bbuf bpos woff wmark sall spos smark with_cache].
    rewrite (skipn_DC D C off cp HD).
    set (c := firstn n (skipn cp C)).
    destruct (n - length c) as [|k] eqn:En.
    - cbn [fst snd gw wcache bpos fs spos woff with_cache]. lia.
    - destruct (rread (Some (S k)) r) as [[d|] r']; cbn [fst snd].
      + unfold bio_write. destruct d; cbn [gw wcache bpos fs spos woff with_cache];
          rewrite ?app_length; cbn [length]; lia.
      + destruct c; [exact I|]. cbn [gw wcache bpos fs spos woff with_cache length]. lia.
  Qed.

  Lemma g_peek_refines n g f : grelated g f ->
    snd (g_peek rread true n g) = snd (f_peek rread n f)
    /\ grelated (fst (g_peek rread true n g)) (fst (f_peek rread n f)).
  Proof.
    intros H. destruct (g_read_refines n g f H) as [Hout Hrel].
    pose proof (g_read_moves n g f H) as Hmv.
    unfold g_peek, f_peek.
    destruct (g_read rread true n g) as [g1 x]. destruct (f_read rread n f) as [f1 y].
    cbn [fst snd] in *. subst y.
    destruct x; try (split; [reflexivity|exact Hrel]).
    destruct Hmv as (Hm1 & Hm2 & Hm3).
    destruct (grelated_open g1 f1 Hrel) as (D & C & cp & off & mk & r & -> & -> & HD & Hcp & Hoff).
    cbn [gw graw fs fraw raw_rest wcache bbuf bpos woff wmark sall spos smark with_cache bio_seek_cur_back fst snd] in *.
    split; [reflexivity|].
    replace (off + cp - length b) with (off + (cp - length b)) by lia.
    apply grelated_make; lia.
  Qed.

  Lemma g_other_refines bufsize (g: gwstate R) (f: fstate R) o :
    match o with ORead _ | OReadAll | OPeek _ => False | _ => True end ->
    grelated g f -> op_okb (fs f) o = true ->
    snd (let (w', x) := wstep Fix bufsize (gw g) o in (mkGW (graw g) w', x))
      = snd (let (s', y) := sstep (fs f) o in (mkF (fraw f) s', y))
    /\ grelated (fst (let (w', x) := wstep Fix bufsize (gw g) o in (mkGW (graw g) w', x)))
                (fst (let (s', y) := sstep (fs f) o in (mkF (fraw f) s', y))).
  Proof.
    intros Hk (Hrel & Hrr & Hraw) Hok.
    pose proof (step_refines bufsize (gw g) (fs f) o Hrel Hok) as [Hout Hrel'].
    pose proof (wstep_other_raw_rest Fix bufsize (gw g) o Hk) as Hkeep.
    destruct (wstep Fix bufsize (gw g) o) as [w' x]. destruct (sstep (fs f) o) as [s' y].
    cbn [fst snd] in *. split; [assumption|].
    unfold grelated. cbn [gw graw fs fraw].
    split; [assumption|split; [congruence|assumption]].
  Qed.

  Lemma gstep_refines bufsize g f o :
    grelated g f -> op_okb (fs f) o = true ->
    snd (gwstep rread true Fix bufsize g o) = snd (fstep rread f o)
    /\ grelated (fst (gwstep rread true Fix bufsize g o)) (fst (fstep rread f o)).
  Proof.
    intros H Hok.
    destruct o as [n| |n|p|d| |v| ]; cbn [gwstep fstep].
    - apply g_read_refines; assumption.
    - apply g_read_all_refines; assumption.
    - apply g_peek_refines; assumption.
    - apply g_other_refines; [exact I|assumption|assumption].
    - apply g_other_refines; [exact I|assumption|assumption].
    - apply g_other_refines; [exact I|assumption|assumption].
    - apply g_other_refines; [exact I|assumption|assumption].
    - apply g_other_refines; [exact I|assumption|assumption].
  Qed.

  Theorem wrapper_refines_any_raw bufsize : forall ops g f,
    grelated g f -> gpermittedb rread f ops = true ->
    outputs (run (gwstep rread true Fix bufsize) g ops) = outputs (run (fstep rread) f ops).
  Proof.
    induction ops as [|o ops IH]; intros g f Hrel Hperm; [reflexivity|].
    cbn [gpermittedb] in Hperm. apply andb_prop in Hperm. destruct Hperm as [Hok Hrest].
    destruct (gstep_refines bufsize g f o Hrel Hok) as [Hout Hrel'].
    rewrite !run_cons, Hout. f_equal. apply IH; assumption.
  Qed.

  Lemma grelated_init (r: R) : grelated (gw_init r) (f_init r).
  Proof. apply (grelated_make [] [] 0 0 0 r); cbn; lia. Qed.
End AnyRaw.

(* finding F05, in Coq: a raw stream that has nothing yet makes the unrepaired read() raise
   TypeError where the reference (and the repaired class) report "no data yet" *)
Theorem refuted_none_old :
  let r := mkPraw [[1; 2; 3]%N] [true; false] in
  outputs (run (gwstep pread false Fix 8) (gw_init r) [ORead 2; ORead 2])
    = [OTypeError; OBytes [1; 2]%N]
  /\ outputs (run (fstep pread) (f_init r) [ORead 2; ORead 2]) = [ONoData; OBytes [1; 2]%N]
  /\ outputs (run (gwstep pread true Fix 8) (gw_init r) [ORead 2; ORead 2]) = [ONoData; OBytes [1; 2]%N].
Proof. repeat split. Qed.

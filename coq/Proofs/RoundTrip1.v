(* Stage 1 of the BER round trip (C01): every simple type under any stack of IMPLICIT/EXPLICIT
   tags of any class and number, definite-length mode, unsegmented. *)
From Coq Require Import Lia.
From PV Require Import Base.Bytes Model.Tag Model.TableTypes Model.Types Model.Proc Model.Enc Model.Dec Gen.Tables
     Proofs.ProcBind Proofs.RunLemmas Proofs.TagOctets Proofs.DecHeader Proofs.DecFrame Proofs.DecPrim
     Proofs.TagsetShape Proofs.Schemaless.
Local Open Scope N_scope.

Definition def_opts : eopts := mkOpts true 0 false.

(* encoder codecs whose fixed options leave definite-length, unsegmented mode alone: BER and DER *)
Definition def_codec (ce: codec) : Prop := fix_opts ce def_opts = def_opts.
Lemma def_codec_ber : def_codec BER. Proof. reflexivity. Qed.
Lemma def_codec_der : def_codec DER. Proof. reflexivity. Qed.

(* what the generic framing argument needs to know about one base type *)
Record leaf_ok (ce cd: codec) (T: ty) (v: val) (content: bytes) (vdec: val) : Prop := {
  lo_enc : exists ec fl, concrete_encoder ce T = Ok (ec, fl)
                         /\ enc_content ce T ec fl def_opts v = Ok (content, false);
  lo_dec : exists dcd dfl, by_type cd T = Some (dcd, dfl)
             /\ forall f ts, tag0_simple ts = true -> fits f content ->
                consumes (dec_value (dec_call cd f) f dcd dfl (Some T) ts (Some (N.of_nat (length content))) false)
                         content (DV T vdec)
}.

Lemma tagset_of'_ok T ts : tagset_of T = Ok ts -> tagset_of' T = ts.
Proof. intros H. unfold tagset_of'. rewrite H. reflexivity. Qed.

Theorem stage1_generic : forall ce cd T v content vdec b f0,
  def_codec ce ->
  prim_base T = true -> wf_tags T = true -> leaf_ok ce cd T v content vdec ->
  encode ce true 0 T v = Ok b ->
  fits f0 content -> (length b <= S f0)%nat ->
  consumes (dec_item cd (S f0 + (length (tagset_of' T) - 1)) (Some T)) b (DV T vdec).
Proof.
  intros ce cd T v content vdec b f0 Hdef Hp Hw [Henc Hdec] He Hfit Hb.
  destruct (tagset_prim_shape T Hp Hw) as (t0 & r & Hts & Hc0 & Hex & Hd).
  destruct Henc as (ec & fl & Hce & Hcont). destruct Hdec as (dcd & dfl & Hby & Hval).
  unfold def_codec in Hdef. unfold encode, enc, enc_with in He. change (mkOpts true 0 false) with def_opts in He. rewrite Hdef in He.
  rewrite Hce in He. cbn [bind] in He.
  rewrite Hts in He. cbn [bind] in He. change (mkOpts (o_def def_opts) (o_chunk def_opts) false) with def_opts in He.
  rewrite Hcont in He. cbn [bind] in He.
  cbn [frame] in He. rewrite Bool.andb_false_r in He. cbn [andb o_def def_opts] in He.
  destruct (frame_one t0 false true (ef_indef fl) content) as [s0|e] eqn:E0; cbn [bind] in He; [|discriminate].
  rewrite (tagset_of'_ok T _ Hts). replace (length (t0 :: r) - 1)%nat with (length r) by (cbn [length]; lia).
  unfold dec_item.
  (* every identifier of the encoding is shorter than the encoding itself *)
  assert (Hpm: plain_map T).
  { apply plain_map_tagged. destruct T; try exact I; discriminate Hp. }
  assert (Hlen0: (length s0 <= length b)%nat).
  { clear - He. revert s0 b He. induction r as [|x r IH]; intros s0 b He; cbn [frame_outer] in He.
    - inversion He; subst. lia.
    - destruct (frame_one x false true (ef_indef fl) s0) as [s1|e] eqn:E1; cbn [bind] in He; [|discriminate].
      specialize (IH _ _ He). unfold frame_one in E1.
      destruct (enc_len (N.of_nat (length s0)) (negb true && ef_indef fl)); cbn [bind] in E1; [|discriminate].
      inversion E1; subst. rewrite !app_length in IH. lia. }
  assert (Htaglens: Forall (fun t => (length (enc_tag t false) <= S (S f0))%nat) r).
  { clear - He Hb. revert s0 b He Hb. induction r as [|x r IH]; intros s0 b He Hb; [constructor|].
    cbn [frame_outer] in He.
    destruct (frame_one x false true (ef_indef fl) s0) as [s1|e] eqn:E1; cbn [bind] in He; [|discriminate].
    assert (Hs1: (length s1 <= length b)%nat).
    { clear - He. revert s1 b He. induction r as [|y r IH]; intros s1 b He; cbn [frame_outer] in He.
      - inversion He; subst. lia.
      - destruct (frame_one y false true (ef_indef fl) s1) as [s2|e] eqn:E2; cbn [bind] in He; [|discriminate].
        specialize (IH _ _ He). unfold frame_one in E2.
        destruct (enc_len (N.of_nat (length s1)) (negb true && ef_indef fl)); cbn [bind] in E2; [|discriminate].
        inversion E2; subst. rewrite !app_length in IH. lia. }
    constructor; [|exact (IH _ _ He Hb)].
    unfold frame_one in E1. destruct (enc_len (N.of_nat (length s0)) (negb true && ef_indef fl)); cbn [bind] in E1; [|discriminate].
    inversion E1; subst. rewrite !app_length in Hs1. lia. }
  apply (peel_all cd T (S f0) (ef_indef fl) r [] s0 b (DV T vdec) He Hex Htaglens Hpm).
  - rewrite (tagset_of'_ok T _ Hts). cbn [length]. lia.
  - rewrite app_nil_r.
    apply (match_level cd f0 T r t0 false (ef_indef fl) content s0 (DV T vdec) dcd dfl E0).
    + rewrite wire_false, (tagset_of'_ok T _ Hts). apply tagset_eqb_refl.
    + rewrite Hpm. reflexivity.
    + exact Hby.
    + unfold frame_one in E0. destruct (enc_len (N.of_nat (length content)) (negb true && ef_indef fl)); cbn [bind] in E0; [|discriminate].
      inversion E0; subst. rewrite !app_length in Hlen0. lia.
    + apply Hval; [|exact Hfit]. rewrite wire_false. unfold tag0_simple. rewrite Hc0. reflexivity.
Qed.

(* ---------- the leaves ---------- *)
From PV Require Import Proofs.LeafInt Proofs.LeafOidBits Proofs.LeafReal.

Lemma enc_content_base : forall c T cd fl o v, enc_content c T cd fl o v = enc_content c (base_of T) cd fl o v.
Proof.
  induction T as [| | | | | | | | n|fs IH|fs IH|t IH|t IH|alts IH| |tg x IH|tg x IH] using ty_ind'; intros; try reflexivity.
  - cbn [base_of enc_content]. apply IH.
  - cbn [base_of enc_content]. apply IH.
Qed.

Lemma key_of_base T : key_of T = key_of (base_of T).
Proof.
  unfold key_of.
  assert (H: base_of (base_of T) = base_of T).
  { induction T as [| | | | | | | | n|fs IH|fs IH|t IH|t IH|alts IH| |tg x IH|tg x IH] using ty_ind'; try reflexivity; exact IH. }
  rewrite H. reflexivity.
Qed.

Lemma concrete_encoder_base c T : concrete_encoder c T = concrete_encoder c (base_of T).
Proof.
  unfold concrete_encoder, tag_fallback_key. rewrite (key_of_base T). rewrite (key_of_base (base_of T)).
  reflexivity.
Qed.

Lemma by_type_base c T : by_type c T = by_type c (base_of T).
Proof. unfold by_type, tag_fallback_key. rewrite (key_of_base T), (key_of_base (base_of T)). reflexivity. Qed.

(* encoder codecs BER and DER (definite, unsegmented), decoder codecs BER, CER and DER *)
Definition enc_ok (ce: codec) : Prop := ce = BER \/ ce = DER.

Ltac codecs ce cd Hce := destruct Hce as [-> | ->]; destruct cd.

Lemma leaf_int ce cd T z : enc_ok ce -> (base_of T = TInt \/ base_of T = TEnum) ->
  leaf_ok ce cd T (VInt z) (enc_integer false z) (VInt z).
Proof.
  intros Hce Hb. split.
  - rewrite concrete_encoder_base. destruct Hb as [Hb|Hb]; rewrite Hb; eexists; eexists;
      (split; [destruct Hce as [-> | ->]; vm_compute; reflexivity|]); rewrite enc_content_base, Hb; reflexivity.
  - rewrite by_type_base. destruct Hb as [Hb|Hb]; rewrite Hb; eexists; eexists; (split; [destruct cd; vm_compute; reflexivity|]);
      intros f ts Hts Hfit; cbn [dec_value df_proto];
      replace (DV T (VInt z)) with (DV T (VInt (from_bytes_signed (enc_integer false z))))
        by (rewrite (enc_integer_roundtrip_all false z); reflexivity);
      apply consumes_integer; try assumption; rewrite Hb; exact I.
Qed.

Definition bool_octet (ce: codec) (b: bool) : N := if b then (match ce with BER => 1 | _ => 255 end) else 0.

(* the strict BOOLEAN decoder of CER/DER takes 00 and FF only; the BER encoder writes 01 for TRUE *)
Definition bool_compat (ce cd: codec) (b: bool) : bool :=
  match ce, cd with BER, (CER | DER) => negb b | _, _ => true end.

Lemma consumes_bool_cer f T ts (b: bool) :
  base_of T = TBool ->
  consumes (dec_bool_cer f (Some T) ts 1) [if b then 255 else 0] (DV T (VBool b)).
Proof.
  intros Hb s tl Hav. unfold dec_bool_cer. cbn [N.eqb Pos.eqb negb].
  change 1 with (N.of_nat (length [if b then 255 else 0])).
  rewrite (resume_read_len f [if b then 255 else 0] tl s _ Hav); [|vm_compute; discriminate|cbn; lia].
  destruct b; unfold create; rewrite Hb; cbn [Z.eqb negb resume];
    (eexists; split; [reflexivity|]; repeat split).
Qed.

Lemma leaf_bool ce cd T b : enc_ok ce -> base_of T = TBool -> bool_compat ce cd b = true ->
  leaf_ok ce cd T (VBool b) [bool_octet ce b] (VBool b).
Proof.
  intros Hce Hb Hcompat. split.
  - rewrite concrete_encoder_base, Hb. destruct Hce as [-> | ->]; eexists; eexists;
      (split; [vm_compute; reflexivity|]); rewrite enc_content_base, Hb; destruct b; reflexivity.
  - rewrite by_type_base, Hb. destruct cd.
    + eexists; eexists. split; [vm_compute; reflexivity|].
      intros f ts Hts Hfit. cbn [dec_value df_proto].
      replace (DV T (VBool b)) with (DV T (VBool (negb (Z.eqb (from_bytes_signed [bool_octet ce b]) 0))))
        by (destruct Hce as [-> | ->]; destruct b; reflexivity).
      apply consumes_boolean; assumption.
    + eexists; eexists. split; [vm_compute; reflexivity|].
      intros f ts Hts Hfit. cbn [dec_value length].
      destruct Hce as [-> | ->]; [destruct b; [discriminate Hcompat|apply (consumes_bool_cer f T ts false Hb)]|];
        apply (consumes_bool_cer f T ts b Hb).
    + eexists; eexists. split; [vm_compute; reflexivity|].
      intros f ts Hts Hfit. cbn [dec_value length].
      destruct Hce as [-> | ->]; [destruct b; [discriminate Hcompat|apply (consumes_bool_cer f T ts false Hb)]|];
        apply (consumes_bool_cer f T ts b Hb).
Qed.

Lemma leaf_null ce cd T : enc_ok ce -> base_of T = TNull -> leaf_ok ce cd T VNull [] VNull.
Proof.
  intros Hce Hb. split.
  - rewrite concrete_encoder_base, Hb. eexists; eexists. split; [destruct Hce as [-> | ->]; vm_compute; reflexivity|].
    rewrite enc_content_base, Hb. reflexivity.
  - rewrite by_type_base, Hb. eexists; eexists. split; [destruct cd; vm_compute; reflexivity|].
    intros f ts Hts Hfit. cbn [dec_value length]. apply consumes_null; [assumption|]. rewrite Hb. exact I.
Qed.

Lemma leaf_octets ce cd T bs : enc_ok ce -> base_of T = TOcts -> leaf_ok ce cd T (VOcts bs) bs (VOcts bs).
Proof.
  intros Hce Hb. split.
  - rewrite concrete_encoder_base, Hb. eexists; eexists. split; [destruct Hce as [-> | ->]; vm_compute; reflexivity|].
    rewrite enc_content_base, Hb. reflexivity.
  - rewrite by_type_base, Hb. destruct cd; (eexists; eexists; split; [vm_compute; reflexivity|]);
    intros f ts Hts Hfit; cbn [dec_value]; rewrite Hb; apply consumes_octets; assumption.
Qed.

Lemma leaf_oid ce cd T arcs content : enc_ok ce -> base_of T = TOid -> enc_oid arcs = Ok content ->
  leaf_ok ce cd T (VOid arcs) content (VOid arcs).
Proof.
  intros Hce Hb He. split.
  - rewrite concrete_encoder_base, Hb. eexists; eexists. split; [destruct Hce as [-> | ->]; vm_compute; reflexivity|].
    rewrite enc_content_base, Hb. cbn [enc_content]. rewrite He. reflexivity.
  - rewrite by_type_base, Hb. eexists; eexists. split; [destruct cd; vm_compute; reflexivity|].
    intros f ts Hts Hfit. cbn [dec_value]. apply consumes_oid; try assumption. exact (oid_roundtrip arcs content He).
Qed.

Lemma leaf_real ce cd T r content r' : enc_ok ce -> base_of T = TReal -> enc_real r = Ok content -> dec_real content = Ok r' ->
  leaf_ok ce cd T (VReal r) content (VReal r').
Proof.
  intros Hce Hb He Hd. split.
  - rewrite concrete_encoder_base, Hb. destruct Hce as [-> | ->]; (eexists; eexists; split; [vm_compute; reflexivity|]);
    rewrite enc_content_base, Hb; cbn [enc_content]; rewrite He; reflexivity.
  - rewrite by_type_base, Hb. eexists; eexists. split; [destruct cd; vm_compute; reflexivity|].
    intros f ts Hts Hfit. cbn [dec_value]. apply consumes_real; assumption.
Qed.

Lemma leaf_bits ce cd T bs : enc_ok ce -> base_of T = TBits ->
  leaf_ok ce cd T (VBits bs) (enc_bits_prim bs) (VBits bs).
Proof.
  intros Hce Hb. split.
  - rewrite concrete_encoder_base, Hb. destruct Hce as [-> | ->]; (eexists; eexists; split; [vm_compute; reflexivity|]);
    rewrite enc_content_base, Hb; reflexivity.
  - rewrite by_type_base, Hb. destruct cd; (eexists; eexists; split; [vm_compute; reflexivity|]);
    intros f ts Hts Hfit; cbn [dec_value]; unfold enc_bits_prim in *;
    (apply consumes_bits; try assumption; [pose proof (pad_of_lt (length bs)); lia|apply bits_roundtrip]).
Qed.

Lemma leaf_string ce cd T n bs efl dfl : base_of T = TStr n -> str_octets_ok n bs = Some true ->
  lookup3 (KStr n) (enc_type_map ce) = Some (EcOcts, efl) ->
  lookup3 (KStr n) (dec_type_map cd) = Some (DcStr, dfl) ->
  leaf_ok ce cd T (VOcts bs) bs (VOcts bs).
Proof.
  intros Hb Hok Hle Hld. split.
  - rewrite concrete_encoder_base, Hb. eexists; eexists. split.
    + unfold concrete_encoder. cbn [key_of base_of]. rewrite Hle. reflexivity.
    + rewrite enc_content_base, Hb. reflexivity.
  - rewrite by_type_base, Hb. eexists; eexists. split.
    + unfold by_type. cbn [key_of base_of]. rewrite Hld. reflexivity.
    + intros f ts Hts Hfit. cbn [dec_value]. rewrite Hb. apply consumes_string; assumption.
Qed.

(* the string types registered in the type maps regenerated from /repo, on both sides *)
Definition known_string (ce cd: codec) (n: N) : bool :=
  (match lookup3 (KStr n) (enc_type_map ce) with Some (EcOcts, _) => true | _ => false end)
  && (match lookup3 (KStr n) (dec_type_map cd) with Some (DcStr, _) => true | _ => false end).

(* ---------- from "consumes" to the one-shot decode function ---------- *)

Lemma consumes_decode_with : forall c fuel sp b tl v,
  consumes (dec_item c fuel sp) b v -> decode_with c fuel sp (b ++ tl) = Ok (v, tl).
Proof.
  intros c fuel sp b tl v H. unfold decode_with, run_complete.
  destruct (H (mkStream (b ++ tl) 0 true 0) tl eq_refl) as (s' & Hr & Hp & Ha & Hc).
  rewrite Hr. f_equal. f_equal.
  apply (consumes_avail b (mkStream (b ++ tl) 0 true 0) tl s' eq_refl Hp Ha).
Qed.

Definition stage1_val (ce cd: codec) (T: ty) (v: val) : bool :=
  match base_of T, v with
  | (TInt | TEnum), VInt _ | TNull, VNull | TOcts, VOcts _ | TBits, VBits _ | TOid, VOid _ => true
  | TBool, VBool b => bool_compat ce cd b
  | TReal, VReal (RBin m _) => negb (Z.eqb m 0)
  | TReal, VReal (RPInf | RNInf) => true
  | TStr n, VOcts bs => known_string ce cd n && match str_octets_ok n bs with Some true => true | _ => false end
  | _, _ => false
  end.

Lemma stage1_leaf ce cd T v b : enc_ok ce -> stage1_val ce cd T v = true -> encode ce true 0 T v = Ok b ->
  exists content vdec, leaf_ok ce cd T v content vdec /\ abs T vdec = abs T v.
Proof.
  unfold stage1_val. intros Hce Hs He.
  assert (Hdef: def_codec ce) by (destruct Hce as [-> | ->]; reflexivity).
  assert (Hpb: forall ec fl, concrete_encoder ce T = Ok (ec, fl) -> exists cc, enc_content ce (base_of T) ec fl def_opts v = Ok cc).
  { intros ec fl Hc. unfold encode, enc, enc_with in He. change (mkOpts true 0 false) with def_opts in He.
    unfold def_codec in Hdef. rewrite Hdef, Hc in He. cbn [bind] in He.
    destruct (tagset_of T); cbn [bind] in He; [|discriminate].
    change (mkOpts (o_def def_opts) (o_chunk def_opts) false) with def_opts in He.
    rewrite enc_content_base in He. destruct (enc_content ce (base_of T) ec fl def_opts v) as [cc|]; [eauto|discriminate]. }
  destruct (base_of T) eqn:Hb; destruct v as [bb|z|bs|bo|cs| |arcs|r|vfs|xs|i x|ab]; try discriminate.
  - exists [bool_octet ce bb], (VBool bb). split; [apply leaf_bool; assumption|reflexivity].
  - exists (enc_integer false z), (VInt z). split; [apply leaf_int; [assumption|left; exact Hb]|reflexivity].
  - exists (enc_integer false z), (VInt z). split; [apply leaf_int; [assumption|right; exact Hb]|reflexivity].
  - exists (enc_bits_prim bs), (VBits bs). split; [apply leaf_bits; assumption|reflexivity].
  - exists bo, (VOcts bo). split; [apply leaf_octets; assumption|reflexivity].
  - exists [], VNull. split; [apply leaf_null; assumption|reflexivity].
  - (* OID: the encoder succeeded, so enc_oid did *)
    destruct (Hpb EcOid (mkEncFlags false false false None 0 0)) as [cc Hcc].
    { rewrite concrete_encoder_base, Hb. destruct Hce as [-> | ->]; vm_compute; reflexivity. }
    cbn [enc_content] in Hcc. destruct (enc_oid arcs) as [content|] eqn:Eo; cbn [bind] in Hcc; [|discriminate].
    exists content, (VOid arcs). split; [apply leaf_oid; assumption|reflexivity].
  - (* REAL *)
    assert (Hr: exists content, enc_real r = Ok content).
    { destruct Hce as [-> | ->].
      - destruct (Hpb EcRealBer (mkEncFlags false false false (Some 2) 0 0)) as [cc Hcc].
        { rewrite concrete_encoder_base, Hb. vm_compute. reflexivity. }
        cbn [enc_content] in Hcc. destruct (enc_real r) as [content|]; cbn [bind] in Hcc; [eauto|discriminate].
      - destruct (Hpb EcRealCer (mkEncFlags false false false (Some 2) 0 0)) as [cc Hcc].
        { rewrite concrete_encoder_base, Hb. vm_compute. reflexivity. }
        cbn [enc_content] in Hcc. destruct (enc_real r) as [content|]; cbn [bind] in Hcc; [eauto|discriminate]. }
    destruct Hr as [content Er].
    destruct r as [| |m e|m e|]; try discriminate.
    + exists content, (VReal RPInf). destruct real_roundtrip_special as [[E1 D1] _].
      rewrite E1 in Er. inversion Er; subst. split; [apply (leaf_real ce cd T RPInf [64] RPInf Hce Hb E1 D1)|reflexivity].
    + exists content, (VReal RNInf). destruct real_roundtrip_special as [_ [[E1 D1] _]].
      rewrite E1 in Er. inversion Er; subst. split; [apply (leaf_real ce cd T RNInf [65] RNInf Hce Hb E1 D1)|reflexivity].
    + assert (Hm: m <> 0%Z) by (destruct (Z.eqb_spec m 0); [discriminate|assumption]).
      destruct (real_roundtrip_bin m e content Hm Er) as (r' & Hd & Habs).
      exists content, (VReal r'). split; [apply (leaf_real ce cd T _ content r' Hce Hb Er Hd)|].
      rewrite (abs_wrappers T (VReal r')), (abs_wrappers T (VReal (RBin m e))), Hb. cbn [abs]. rewrite Habs. reflexivity.
  - (* strings *)
    apply Bool.andb_true_iff in Hs. destruct Hs as [Hk Hok].
    destruct (str_octets_ok n bo) as [[|]|] eqn:Eok; try discriminate.
    unfold known_string in Hk. apply Bool.andb_true_iff in Hk. destruct Hk as [Hk1 Hk2].
    destruct (lookup3 (KStr n) (enc_type_map ce)) as [[ec ef]|] eqn:Ele; [|discriminate].
    destruct (lookup3 (KStr n) (dec_type_map cd)) as [[dc df]|] eqn:Eld; [|discriminate].
    destruct ec; try discriminate. destruct dc; try discriminate.
    exists bo, (VOcts bo). split; [apply (leaf_string ce cd T n bo ef df Hb Eok Ele Eld)|reflexivity].
Qed.

Lemma stage1_prim ce cd T v : stage1_val ce cd T v = true -> prim_base T = true.
Proof. unfold stage1_val, prim_base. destruct (base_of T); try reflexivity; destruct v; discriminate. Qed.

Lemma content_le_encoding : forall ce cd T v content vdec b,
  def_codec ce ->
  prim_base T = true -> wf_tags T = true -> leaf_ok ce cd T v content vdec -> encode ce true 0 T v = Ok b ->
  (length content <= length b)%nat.
Proof.
  intros ce cd T v content vdec b Hdef Hp Hw [Henc _] He.
  destruct (tagset_prim_shape T Hp Hw) as (t0 & r & Hts & _ & _ & _).
  destruct Henc as (ec & fl & Hce & Hcont).
  unfold encode, enc, enc_with in He. change (mkOpts true 0 false) with def_opts in He.
  unfold def_codec in Hdef. rewrite Hdef, Hce in He. cbn [bind] in He.
  rewrite Hts in He. cbn [bind] in He.
  change (mkOpts (o_def def_opts) (o_chunk def_opts) false) with def_opts in He.
  rewrite Hcont in He. cbn [bind frame] in He. rewrite Bool.andb_false_r in He. cbn [andb o_def def_opts] in He.
  destruct (frame_one t0 false true (ef_indef fl) content) as [s0|e] eqn:E0; cbn [bind] in He; [|discriminate].
  assert (H0: (length content <= length s0)%nat).
  { unfold frame_one in E0. destruct (enc_len _ _); cbn [bind] in E0; [|discriminate]. inversion E0; subst. rewrite !app_length. lia. }
  assert (H1: (length s0 <= length b)%nat).
  { clear - He. revert s0 b He. induction r as [|x r IH]; intros s0 b He; cbn [frame_outer] in He.
    - inversion He; subst. lia.
    - destruct (frame_one x false true (ef_indef fl) s0) as [s1|e] eqn:E1; cbn [bind] in He; [|discriminate].
      specialize (IH _ _ He). unfold frame_one in E1. destruct (enc_len _ _); cbn [bind] in E1; [|discriminate].
      inversion E1; subst. rewrite !app_length in IH. lia. }
  lia.
Qed.

(* Round trip, stage 1: every simple type - BOOLEAN, INTEGER, ENUMERATED, BIT STRING, OCTET STRING,
   NULL, OBJECT IDENTIFIER, REAL (binary and infinite), character and useful strings (octets
   acceptable to the type's text codec as far as modelled) - under ANY stack of IMPLICIT/EXPLICIT
   tags of any class and number, definite lengths, unsegmented, written by the BER or the DER
   encoder and read by the BER, the CER or the DER decoder: the decoder returns a value with the same
   abstract content and exactly the bytes that followed the encoding. *)
Theorem roundtrip_stage1 : forall ce cd T v b tl,
  enc_ok ce -> wf_tags T = true -> stage1_val ce cd T v = true ->
  encode ce true 0 T v = Ok b -> N.of_nat (length b) <= index_max ->
  exists v', decode cd (Some T) (b ++ tl) = Ok (DV T v', tl) /\ abs T v' = abs T v.
Proof.
  intros ce cd T v b tl Hce Hw Hs He Hmax.
  assert (Hdef: def_codec ce) by (destruct Hce as [-> | ->]; reflexivity).
  destruct (stage1_leaf ce cd T v b Hce Hs He) as (content & vdec & Hleaf & Habs).
  pose proof (stage1_prim ce cd T v Hs) as Hp.
  pose proof (content_le_encoding ce cd T v content vdec b Hdef Hp Hw Hleaf He) as Hcl.
  destruct (tagset_prim_shape T Hp Hw) as (t0 & r & Hts & _ & _ & Hd).
  exists vdec. split; [|exact Habs]. unfold decode.
  set (fuel := dec_fuel (Some T) (b ++ tl)).
  assert (Hfuel: fuel = (S (fuel - 1 - length r) + (length (tagset_of' T) - 1))%nat).
  { rewrite (tagset_of'_ok T _ Hts). cbn [length]. subst fuel. unfold dec_fuel. rewrite app_length. lia. }
  assert (Hbig: (length b <= S (fuel - 1 - length r))%nat).
  { subst fuel. unfold dec_fuel. rewrite app_length. lia. }
  pose proof (stage1_generic ce cd T v content vdec b (fuel - 1 - length r) Hdef Hp Hw Hleaf He) as Hg.
  rewrite <- Hfuel in Hg.
  assert (Hfit: DecPrim.fits (fuel - 1 - length r) content) by (split; lia).
  specialize (Hg Hfit Hbig).
  pose proof (consumes_decode_with cd fuel (Some T) b tl (DV T vdec) Hg) as Hdw.
  unfold decode_with in Hdw. exact Hdw.
Qed.

Corollary ber_roundtrip_stage1 : forall T v b tl,
  wf_tags T = true -> stage1_val BER BER T v = true ->
  encode BER true 0 T v = Ok b -> N.of_nat (length b) <= index_max ->
  exists v', decode BER (Some T) (b ++ tl) = Ok (DV T v', tl) /\ abs T v' = abs T v.
Proof. intros. eapply roundtrip_stage1; eauto. left; reflexivity. Qed.

(* DER encodings of stage-1 values are accepted by all three decoders (C02) *)
Corollary der_accepted_stage1 : forall cd T v b tl,
  wf_tags T = true -> stage1_val DER cd T v = true ->
  encode DER true 0 T v = Ok b -> N.of_nat (length b) <= index_max ->
  exists v', decode cd (Some T) (b ++ tl) = Ok (DV T v', tl) /\ abs T v' = abs T v.
Proof. intros. eapply roundtrip_stage1; eauto. right; reflexivity. Qed.

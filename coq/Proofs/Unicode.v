(* The three Unicode checkers of Model/Dec.v (utf8_ok, utf16be_ok, utf32be_ok: what CPython's strict
   'utf-8' / 'utf-16-be' / 'utf-32-be' decoders accept) against the independent reference
   Spec/Unicode.v: a byte string is accepted iff it is the encoding of a sequence of Unicode scalar
   values.  Consequences for str_octets_ok: the model answers for every character-string type. *)
From Coq Require Import Lia ZifyBool ZifyN.
From PV Require Import Base.Bytes Model.Types Model.Proc Model.Dec Proofs.AcceptedWellFormed Spec.Unicode.
Local Open Scope N_scope.

Local Ltac Zify.zify_post_hook ::= Z.div_mod_to_equations.

Definition octets (b: bytes) : Prop := Forall (fun x => x < 256) b.

Lemma wf_bytes_octets b : wf_bytes b = true -> octets b.
Proof.
  unfold wf_bytes, octets. rewrite forallb_forall, Forall_forall. intros H x Hx.
  specialize (H x Hx). unfold wf_byte in H. lia.
Qed.

(* split every boolean test in the goal; arithmetic closes the impossible branches *)
Ltac conds :=
  repeat match goal with
         | |- context[if ?c then _ else _] => let E := fresh "E" in destruct c eqn:E; try (exfalso; lia)
         end.

(* [guards && rest = rest]: the guards hold by arithmetic *)
Ltac guards :=
  first [ reflexivity
        | match goal with |- ?a && ?x = ?x => replace a with true; [reflexivity | symmetry; lia] end
        | exfalso; lia ].

(* ------------------------------------------------------------------------------------------ *)
(* UTF-8                                                                                      *)
(* ------------------------------------------------------------------------------------------ *)

(* encoder direction: the checker walks over one encoded scalar value *)
Lemma utf8_ok_enc1 c r : scalar c -> utf8_ok (utf8_enc1 c ++ r) = utf8_ok r.
Proof.
  intros [H1 H2]. unfold utf8_enc1.
  destruct (c <? 0x80) eqn:E1; [cbn [app utf8_ok]; rewrite E1; reflexivity|].
  destruct (c <? 0x800) eqn:E2; [|destruct (c <? 0x10000) eqn:E3];
    cbn [app utf8_ok]; unfold utf8_cont; conds; guards.
Qed.

Theorem utf8_ok_enc cps : Forall scalar cps -> utf8_ok (utf8_enc cps) = true.
Proof.
  induction 1 as [|c cps Hc _ IH]; [reflexivity|].
  unfold utf8_enc in *. cbn [flat_map]. rewrite utf8_ok_enc1 by exact Hc. exact IH.
Qed.

(* the scalar value a well-formed sequence of each length denotes *)
Lemma utf8_enc1_2 x c1 : (0xC2 <=? x) && (x <=? 0xDF) = true -> utf8_cont c1 = true ->
  let c := (x - 0xC0) * 64 + (c1 - 0x80) in scalar c /\ utf8_enc1 c = [x; c1].
Proof.
  unfold utf8_cont. intros Hx H1. cbv zeta. split; [unfold scalar; lia|].
  unfold utf8_enc1. conds. repeat f_equal; lia.
Qed.

Lemma utf8_enc1_3 x c1 c2 : (0xE0 <=? x) && (x <=? 0xEF) = true ->
  ((if x =? 0xE0 then 0xA0 else 0x80) <=? c1) && (c1 <=? (if x =? 0xED then 0x9F else 0xBF)) = true ->
  utf8_cont c2 = true ->
  let c := (x - 0xE0) * 4096 + (c1 - 0x80) * 64 + (c2 - 0x80) in scalar c /\ utf8_enc1 c = [x; c1; c2].
Proof.
  unfold utf8_cont. intros Hx H1 H2. cbv zeta.
  destruct (x =? 0xE0) eqn:E0; destruct (x =? 0xED) eqn:ED; try (exfalso; lia).
  all: split; [unfold scalar; lia|]; unfold utf8_enc1; conds; repeat f_equal; lia.
Qed.

Lemma utf8_enc1_4 x c1 c2 c3 : (0xF0 <=? x) && (x <=? 0xF4) = true ->
  ((if x =? 0xF0 then 0x90 else 0x80) <=? c1) && (c1 <=? (if x =? 0xF4 then 0x8F else 0xBF)) = true ->
  utf8_cont c2 = true -> utf8_cont c3 = true ->
  let c := (x - 0xF0) * 262144 + (c1 - 0x80) * 4096 + (c2 - 0x80) * 64 + (c3 - 0x80) in
  scalar c /\ utf8_enc1 c = [x; c1; c2; c3].
Proof.
  unfold utf8_cont. intros Hx H1 H2 H3. cbv zeta.
  destruct (x =? 0xF0) eqn:E0; destruct (x =? 0xF4) eqn:E4; try (exfalso; lia).
  all: split; [unfold scalar; lia|]; unfold utf8_enc1; conds; repeat f_equal; lia.
Qed.

Lemma utf8_sound_aux : forall n b, (length b <= n)%nat -> utf8_ok b = true ->
  exists cps, Forall scalar cps /\ utf8_enc cps = b.
Proof.
  induction n as [|n IH]; intros b L H.
  { destruct b; [exists []; split; [constructor|reflexivity] | cbn in L; lia]. }
  destruct b as [|x r]; [exists []; split; [constructor|reflexivity]|].
  cbn [utf8_ok] in H. cbn [length] in L.
  destruct (x <? 0x80) eqn:E1.
  { destruct (IH r) as (cps & F & E); [lia|exact H|]. exists (x :: cps). split.
    - constructor; [unfold scalar; lia|exact F].
    - unfold utf8_enc in *. cbn [flat_map]. rewrite E. unfold utf8_enc1. rewrite E1. reflexivity. }
  destruct ((0xC2 <=? x) && (x <=? 0xDF)) eqn:E2.
  { destruct r as [|c1 r1]; [discriminate|]. apply andb_true_iff in H. destruct H as [H1 H].
    cbn [length] in L. destruct (IH r1) as (cps & F & E); [lia|exact H|].
    destruct (utf8_enc1_2 x c1 E2 H1) as [Hs He].
    eexists (_ :: cps). split; [constructor; [exact Hs|exact F]|].
    unfold utf8_enc in *. cbn [flat_map]. rewrite E, He. reflexivity. }
  destruct ((0xE0 <=? x) && (x <=? 0xEF)) eqn:E3.
  { destruct r as [|c1 [|c2 r2]]; try discriminate.
    apply andb_true_iff in H. destruct H as [H H'].
    apply andb_true_iff in H. destruct H as [H1 H2].
    cbn [length] in L. destruct (IH r2) as (cps & F & E); [lia|exact H'|].
    destruct (utf8_enc1_3 x c1 c2 E3 H1 H2) as [Hs He].
    eexists (_ :: cps). split; [constructor; [exact Hs|exact F]|].
    unfold utf8_enc in *. cbn [flat_map]. rewrite E, He. reflexivity. }
  destruct ((0xF0 <=? x) && (x <=? 0xF4)) eqn:E4; [|discriminate].
  destruct r as [|c1 [|c2 [|c3 r3]]]; try discriminate.
  apply andb_true_iff in H. destruct H as [H H'].
  apply andb_true_iff in H. destruct H as [H H3].
  apply andb_true_iff in H. destruct H as [H1 H2].
  cbn [length] in L. destruct (IH r3) as (cps & F & E); [lia|exact H'|].
  destruct (utf8_enc1_4 x c1 c2 c3 E4 H1 H2 H3) as [Hs He].
  eexists (_ :: cps). split; [constructor; [exact Hs|exact F]|].
  unfold utf8_enc in *. cbn [flat_map]. rewrite E, He. reflexivity.
Qed.

Theorem utf8_ok_sound b : utf8_ok b = true -> exists cps, Forall scalar cps /\ utf8_enc cps = b.
Proof. apply (utf8_sound_aux (length b)). apply le_n. Qed.

(* soundness and completeness, for every list of numbers (no octet bound needed: the checker
   itself refuses anything above F4) *)
Theorem utf8_ok_iff b : utf8_ok b = true <-> exists cps, Forall scalar cps /\ utf8_enc cps = b.
Proof.
  split; [apply utf8_ok_sound|]. intros (cps & F & <-). apply utf8_ok_enc. exact F.
Qed.

(* ------------------------------------------------------------------------------------------ *)
(* UTF-16, big-endian                                                                         *)
(* ------------------------------------------------------------------------------------------ *)

Lemma utf16be_ok_enc1 c r : scalar c -> utf16be_ok (utf16be_enc1 c ++ r) = utf16be_ok r.
Proof.
  intros [H1 H2]. unfold utf16be_enc1, be16.
  destruct (c <? 0x10000) eqn:E1; cbn [app utf16be_ok]; cbv zeta; conds; guards.
Qed.

Theorem utf16be_ok_enc cps : Forall scalar cps -> utf16be_ok (utf16be_enc cps) = true.
Proof.
  induction 1 as [|c cps Hc _ IH]; [reflexivity|].
  unfold utf16be_enc in *. cbn [flat_map]. rewrite utf16be_ok_enc1 by exact Hc. exact IH.
Qed.

Lemma utf16be_enc1_unit h l : h < 256 -> l < 256 ->
  (0xD800 <=? h * 256 + l) && (h * 256 + l <=? 0xDBFF) = false ->
  (0xDC00 <=? h * 256 + l) && (h * 256 + l <=? 0xDFFF) = false ->
  scalar (h * 256 + l) /\ utf16be_enc1 (h * 256 + l) = [h; l].
Proof.
  intros Hh Hl E1 E2. split; [unfold scalar; lia|].
  unfold utf16be_enc1, be16. conds. repeat f_equal; lia.
Qed.

Lemma utf16be_enc1_pair h l h2 l2 : h < 256 -> l < 256 -> h2 < 256 -> l2 < 256 ->
  (0xD800 <=? h * 256 + l) && (h * 256 + l <=? 0xDBFF) = true ->
  (0xDC00 <=? h2 * 256 + l2) && (h2 * 256 + l2 <=? 0xDFFF) = true ->
  let c := 0x10000 + (h * 256 + l - 0xD800) * 1024 + (h2 * 256 + l2 - 0xDC00) in
  scalar c /\ utf16be_enc1 c = [h; l; h2; l2].
Proof.
  intros Hh Hl Hh2 Hl2 E1 E2 c. subst c. split; [unfold scalar; lia|].
  unfold utf16be_enc1, be16. conds. cbn [app]. repeat f_equal; lia.
Qed.

Lemma utf16be_sound_aux : forall n b, (length b <= n)%nat -> octets b -> utf16be_ok b = true ->
  exists cps, Forall scalar cps /\ utf16be_enc cps = b.
Proof.
  induction n as [|n IH]; intros b L O H.
  { destruct b; [exists []; split; [constructor|reflexivity] | cbn in L; lia]. }
  destruct b as [|h [|l r]]; [exists []; split; [constructor|reflexivity]|discriminate|].
  cbn [utf16be_ok] in H. cbv zeta in H. cbn [length] in L.
  inversion O as [|? ? Hh O1]; subst. inversion O1 as [|? ? Hl O2]; subst.
  destruct ((0xD800 <=? h * 256 + l) && (h * 256 + l <=? 0xDBFF)) eqn:E1.
  { destruct r as [|h2 [|l2 r2]]; try discriminate.
    apply andb_true_iff in H. destruct H as [E2 H].
    inversion O2 as [|? ? Hh2 O3]; subst. inversion O3 as [|? ? Hl2 O4]; subst.
    cbn [length] in L. destruct (IH r2) as (cps & F & E); [lia|exact O4|exact H|].
    destruct (utf16be_enc1_pair h l h2 l2 Hh Hl Hh2 Hl2 E1 E2) as [Hs He].
    eexists (_ :: cps). split; [constructor; [exact Hs|exact F]|].
    unfold utf16be_enc in *. cbn [flat_map]. rewrite E, He. reflexivity. }
  destruct ((0xDC00 <=? h * 256 + l) && (h * 256 + l <=? 0xDFFF)) eqn:E2; [discriminate|].
  destruct (IH r) as (cps & F & E); [lia|exact O2|exact H|].
  destruct (utf16be_enc1_unit h l Hh Hl E1 E2) as [Hs He].
  eexists (_ :: cps). split; [constructor; [exact Hs|exact F]|].
  unfold utf16be_enc in *. cbn [flat_map]. rewrite E, He. reflexivity.
Qed.

Theorem utf16be_ok_sound b : octets b -> utf16be_ok b = true ->
  exists cps, Forall scalar cps /\ utf16be_enc cps = b.
Proof. apply (utf16be_sound_aux (length b)). apply le_n. Qed.

Theorem utf16be_ok_iff b : octets b ->
  (utf16be_ok b = true <-> exists cps, Forall scalar cps /\ utf16be_enc cps = b).
Proof.
  intros O. split; [apply utf16be_ok_sound; exact O|]. intros (cps & F & <-). apply utf16be_ok_enc. exact F.
Qed.

(* ------------------------------------------------------------------------------------------ *)
(* UTF-32, big-endian                                                                         *)
(* ------------------------------------------------------------------------------------------ *)

Lemma utf32be_ok_enc1 c r : scalar c -> utf32be_ok (utf32be_enc1 c ++ r) = utf32be_ok r.
Proof.
  intros [H1 H2]. unfold utf32be_enc1. cbn [app utf32be_ok]. cbv zeta.
  guards.
Qed.

Theorem utf32be_ok_enc cps : Forall scalar cps -> utf32be_ok (utf32be_enc cps) = true.
Proof.
  induction 1 as [|c cps Hc _ IH]; [reflexivity|].
  unfold utf32be_enc in *. cbn [flat_map]. rewrite utf32be_ok_enc1 by exact Hc. exact IH.
Qed.

Lemma utf32be_enc1_unit b3 b2 b1 b0 : b3 < 256 -> b2 < 256 -> b1 < 256 -> b0 < 256 ->
  let u := ((b3 * 256 + b2) * 256 + b1) * 256 + b0 in
  (u <? 0x110000) && negb ((0xD800 <=? u) && (u <=? 0xDFFF)) = true ->
  scalar u /\ utf32be_enc1 u = [b3; b2; b1; b0].
Proof.
  intros H3 H2 H1 H0 u. subst u. intros E. split; [unfold scalar; lia|].
  unfold utf32be_enc1. repeat f_equal; lia.
Qed.

Lemma utf32be_sound_aux : forall n b, (length b <= n)%nat -> octets b -> utf32be_ok b = true ->
  exists cps, Forall scalar cps /\ utf32be_enc cps = b.
Proof.
  induction n as [|n IH]; intros b L O H.
  { destruct b; [exists []; split; [constructor|reflexivity] | cbn in L; lia]. }
  destruct b as [|b3 [|b2 [|b1 [|b0 r]]]]; try discriminate; [exists []; split; [constructor|reflexivity]|].
  cbn [utf32be_ok] in H. cbv zeta in H. cbn [length] in L.
  inversion O as [|? ? H3 O1]; subst. inversion O1 as [|? ? H2 O2]; subst.
  inversion O2 as [|? ? H1 O3]; subst. inversion O3 as [|? ? H0 O4]; subst.
  apply andb_true_iff in H. destruct H as [E H].
  destruct (IH r) as (cps & F & Er); [lia|exact O4|exact H|].
  destruct (utf32be_enc1_unit b3 b2 b1 b0 H3 H2 H1 H0 E) as [Hs He].
  eexists (_ :: cps). split; [constructor; [exact Hs|exact F]|].
  unfold utf32be_enc in *. cbn [flat_map]. rewrite Er, He. reflexivity.
Qed.

Theorem utf32be_ok_sound b : octets b -> utf32be_ok b = true ->
  exists cps, Forall scalar cps /\ utf32be_enc cps = b.
Proof. apply (utf32be_sound_aux (length b)). apply le_n. Qed.

Theorem utf32be_ok_iff b : octets b ->
  (utf32be_ok b = true <-> exists cps, Forall scalar cps /\ utf32be_enc cps = b).
Proof.
  intros O. split; [apply utf32be_ok_sound; exact O|]. intros (cps & F & <-). apply utf32be_ok_enc. exact F.
Qed.

(* ------------------------------------------------------------------------------------------ *)
(* str_octets_ok                                                                              *)
(* ------------------------------------------------------------------------------------------ *)

(* the ASCII short cut of str_octets_ok 12 agrees with the checker *)
Lemma utf8_ok_ascii b : forallb (fun x => x <? 128) b = true -> utf8_ok b = true.
Proof.
  induction b as [|x r IH]; [reflexivity|]. cbn [forallb utf8_ok]. intros H.
  apply andb_true_iff in H. destruct H as [Hx Hr]. change 128 with 0x80 in Hx. rewrite Hx. exact (IH Hr).
Qed.

Lemma str_octets_ok_utf8 b : str_octets_ok 12 b = Some (utf8_ok b).
Proof.
  unfold str_octets_ok. cbv zeta. cbn [existsb N.eqb Pos.eqb orb].
  destruct (forallb (fun x => x <? 128) b) eqn:E; [|reflexivity]. rewrite (utf8_ok_ascii b E). reflexivity.
Qed.
Lemma str_octets_ok_bmp b : str_octets_ok 30 b = Some (utf16be_ok b).
Proof. reflexivity. Qed.
Lemma str_octets_ok_universal b : str_octets_ok 28 b = Some (utf32be_ok b).
Proof. reflexivity. Qed.

(* the model no longer declines for any character-string type of pyasn1/type/char.py (and
   ObjectDescriptor, 7) *)
Theorem str_octets_ok_total : forall n b,
  In n [12; 18; 19; 20; 21; 22; 23; 24; 25; 26; 27; 28; 30; 7] -> str_octets_ok n b <> None.
Proof.
  intros n b H. cbn [In] in H.
  repeat (destruct H as [<-|H]; [try (rewrite str_octets_ok_utf8; discriminate);
                                 unfold str_octets_ok; cbv zeta; cbn [existsb N.eqb Pos.eqb orb]; discriminate|]).
  contradiction.
Qed.

(* an accepted string value is a sequence of Unicode scalar values, and a refused one is not *)
Theorem str_utf8_is_unicode b : str_octets_ok 12 b = Some true ->
  exists cps, Forall scalar cps /\ utf8_enc cps = b.
Proof. rewrite str_octets_ok_utf8. intros H. apply utf8_ok_sound. congruence. Qed.

Theorem str_bmp_is_unicode b : octets b -> str_octets_ok 30 b = Some true ->
  exists cps, Forall scalar cps /\ utf16be_enc cps = b.
Proof. rewrite str_octets_ok_bmp. intros O H. apply utf16be_ok_sound; [exact O|congruence]. Qed.

Theorem str_universal_is_unicode b : octets b -> str_octets_ok 28 b = Some true ->
  exists cps, Forall scalar cps /\ utf32be_enc cps = b.
Proof. rewrite str_octets_ok_universal. intros O H. apply utf32be_ok_sound; [exact O|congruence]. Qed.

Theorem str_utf8_refused_not_unicode b : str_octets_ok 12 b = Some false ->
  ~ exists cps, Forall scalar cps /\ utf8_enc cps = b.
Proof. rewrite str_octets_ok_utf8. intros H X. apply utf8_ok_iff in X. congruence. Qed.

Theorem str_bmp_refused_not_unicode b : str_octets_ok 30 b = Some false ->
  ~ exists cps, Forall scalar cps /\ utf16be_enc cps = b.
Proof.
  rewrite str_octets_ok_bmp. intros H (cps & F & <-). rewrite (utf16be_ok_enc cps F) in H. discriminate.
Qed.

Theorem str_universal_refused_not_unicode b : str_octets_ok 28 b = Some false ->
  ~ exists cps, Forall scalar cps /\ utf32be_enc cps = b.
Proof.
  rewrite str_octets_ok_universal. intros H (cps & F & <-). rewrite (utf32be_ok_enc cps F) in H. discriminate.
Qed.

(* ------------------------------------------------------------------------------------------ *)
(* the decoders: for EVERY input, every codec and fuel, every guiding type whose base is a      *)
(* Unicode string type (any stack of tags; primitive or segmented encoding)                     *)
(* ------------------------------------------------------------------------------------------ *)

Theorem accepted_utf8_is_unicode : forall c fuel T b d tl,
  base_of T = TStr 12 -> decode_with c fuel (Some T) b = Ok (d, tl) ->
  exists bs cps, d = DV T (VOcts bs) /\ Forall scalar cps /\ utf8_enc cps = bs.
Proof.
  intros c fuel T b d tl HB H.
  destruct (accepted_string_codec_ok _ _ _ _ _ _ _ HB H) as (bs & -> & Hs).
  destruct (str_utf8_is_unicode bs Hs) as (cps & F & E). exists bs, cps. auto.
Qed.

Theorem accepted_bmp_is_unicode : forall c fuel T b d tl,
  base_of T = TStr 30 -> decode_with c fuel (Some T) b = Ok (d, tl) ->
  exists bs, d = DV T (VOcts bs) /\ (octets bs -> exists cps, Forall scalar cps /\ utf16be_enc cps = bs).
Proof.
  intros c fuel T b d tl HB H.
  destruct (accepted_string_codec_ok _ _ _ _ _ _ _ HB H) as (bs & -> & Hs).
  exists bs. split; [reflexivity|]. intros O. exact (str_bmp_is_unicode bs O Hs).
Qed.

Theorem accepted_universal_is_unicode : forall c fuel T b d tl,
  base_of T = TStr 28 -> decode_with c fuel (Some T) b = Ok (d, tl) ->
  exists bs, d = DV T (VOcts bs) /\ (octets bs -> exists cps, Forall scalar cps /\ utf32be_enc cps = bs).
Proof.
  intros c fuel T b d tl HB H.
  destruct (accepted_string_codec_ok _ _ _ _ _ _ _ HB H) as (bs & -> & Hs).
  exists bs. split; [reflexivity|]. intros O. exact (str_universal_is_unicode bs O Hs).
Qed.

(* ------------------------------------------------------------------------------------------ *)
(* non-vacuity: "é中😀" (U+00E9 U+4E2D U+1F600) and the classical ill-formed sequences          *)
(* ------------------------------------------------------------------------------------------ *)

Example utf8_sample_accepted :
  str_octets_ok 12 [0xC3; 0xA9; 0xE4; 0xB8; 0xAD; 0xF0; 0x9F; 0x98; 0x80] = Some true
  /\ utf8_enc [0xE9; 0x4E2D; 0x1F600] = [0xC3; 0xA9; 0xE4; 0xB8; 0xAD; 0xF0; 0x9F; 0x98; 0x80].
Proof. split; vm_compute; reflexivity. Qed.

Example utf8_ill_formed_refused :
  map (str_octets_ok 12) [[0xE0; 0x80; 0x80]; [0xED; 0xA0; 0x80]; [0xF4; 0x90; 0x80; 0x80]; [0xF0; 0x8F; 0xBF; 0xBF];
                          [0xC0; 0x80]; [0xC1; 0xBF]; [0xC2]; [0x80]; [0xF5; 0x80; 0x80; 0x80]; [0xE1; 0x80]]
  = repeat (Some false) 10
  /\ map (str_octets_ok 12) [[0xED; 0x9F; 0xBF]; [0xF4; 0x8F; 0xBF; 0xBF]; [0xEF; 0xBB; 0xBF]; []] = repeat (Some true) 4.
Proof. split; vm_compute; reflexivity. Qed.

Example bmp_sample_accepted :
  str_octets_ok 30 [0x00; 0xE9; 0x4E; 0x2D; 0xD8; 0x3D; 0xDE; 0x00] = Some true
  /\ utf16be_enc [0xE9; 0x4E2D; 0x1F600] = [0x00; 0xE9; 0x4E; 0x2D; 0xD8; 0x3D; 0xDE; 0x00]
  /\ map (str_octets_ok 30) [[0xDC; 0]; [0xD8; 0]; [0xD8; 0; 0; 0x41]; [0xD8; 0; 0xD8; 0]; [0]; [0; 0x41; 0]]
     = repeat (Some false) 6
  /\ map (str_octets_ok 30) [[0xFE; 0xFF]; [0xFF; 0xFE]; [0xDB; 0xFF; 0xDF; 0xFF]; []] = repeat (Some true) 4.
Proof. repeat split; vm_compute; reflexivity. Qed.

Example universal_sample_accepted :
  str_octets_ok 28 [0; 0; 0; 0xE9; 0; 0; 0x4E; 0x2D; 0; 1; 0xF6; 0] = Some true
  /\ utf32be_enc [0xE9; 0x4E2D; 0x1F600] = [0; 0; 0; 0xE9; 0; 0; 0x4E; 0x2D; 0; 1; 0xF6; 0]
  /\ map (str_octets_ok 28) [[0; 0x11; 0; 0]; [0; 0; 0xD8; 0]; [0; 0; 0xDF; 0xFF]; [1; 0; 0; 0]; [0; 0; 0]; [0; 0; 0; 0x41; 0]]
     = repeat (Some false) 6
  /\ map (str_octets_ok 28) [[0; 0x10; 0xFF; 0xFF]; [0; 0; 0xFE; 0xFF]; [0; 0; 0xD7; 0xFF]; []] = repeat (Some true) 4.
Proof. repeat split; vm_compute; reflexivity. Qed.

Example str_octets_ok_total_nonvacuous :
  map (fun n => str_octets_ok n [0xC3; 0xA9]) [12; 18; 20; 28; 30; 7; 4]
  = [Some true; Some false; Some true; Some false; Some true; Some true; None].
Proof. vm_compute. reflexivity. Qed.

(* the decoder theorems are not vacuous: "é中😀" as a UTF8String, primitive, segmented (BER) and
   under an explicit tag; an overlong form and a CESU-8 surrogate are refused with a Unicode error *)
Example accepted_utf8_nonvacuous :
  decode BER (Some (TStr 12)) [12; 9; 0xC3; 0xA9; 0xE4; 0xB8; 0xAD; 0xF0; 0x9F; 0x98; 0x80]
    = Ok (DV (TStr 12) (VOcts [0xC3; 0xA9; 0xE4; 0xB8; 0xAD; 0xF0; 0x9F; 0x98; 0x80]), [])
  /\ decode DER (Some (TExp (mkTag Ctx false 0) (TStr 12))) [160; 4; 12; 2; 0xC3; 0xA9]
    = Ok (DV (TExp (mkTag Ctx false 0) (TStr 12)) (VOcts [0xC3; 0xA9]), [])
  /\ decode BER (Some (TStr 12)) [12; 2; 0xC0; 0x80] = Err EUnicode
  /\ decode BER (Some (TStr 12)) [12; 3; 0xED; 0xA0; 0x80] = Err EUnicode
  /\ decode BER (Some (TStr 30)) [30; 4; 0xD8; 0x3D; 0xDE; 0x00] = Ok (DV (TStr 30) (VOcts [0xD8; 0x3D; 0xDE; 0x00]), [])
  /\ decode BER (Some (TStr 30)) [30; 2; 0xDE; 0x00] = Err EUnicode
  /\ decode BER (Some (TStr 28)) [28; 4; 0; 1; 0xF6; 0] = Ok (DV (TStr 28) (VOcts [0; 1; 0xF6; 0]), [])
  /\ decode BER (Some (TStr 28)) [28; 4; 0; 0x11; 0; 0] = Err EUnicode.
Proof. repeat split; vm_compute; reflexivity. Qed.

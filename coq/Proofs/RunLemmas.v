(* Running the stream primitives on a stream that holds the bytes they need. *)
From Coq Require Import Lia.
From PV Require Import Base.Bytes Model.Tag Model.Proc Proofs.ProcBind Proofs.TagOctets.
Local Open Scope nat_scope.

Lemma skipn_add {X} (a b: nat) (l: list X) : skipn (a + b) l = skipn b (skipn a l).
Proof.
  revert l. induction a as [|a IH]; intros l; [reflexivity|].
  destruct l as [|x l]; [cbn; destruct b; reflexivity|]. cbn [Nat.add skipn]. apply IH.
Qed.

Definition adv (s: stream) (n: nat) : stream := setpos s (pos s + n).

Lemma avail_adv s n : avail (adv s n) = skipn n (avail s).
Proof.
  unfold avail, adv, setpos. cbn [pos arrived].
  generalize (pos s) (arrived s). intros p l. revert l.
  induction p as [|p IH]; intros l; [reflexivity|].
  destruct l as [|x l]; [cbn; destruct n; reflexivity|]. cbn [Nat.add skipn]. apply IH.
Qed.

Lemma adv_adv s a b : adv (adv s a) b = adv s (a + b).
Proof. unfold adv, setpos. cbn [pos arrived closed mark]. f_equal. lia. Qed.

Lemma adv_0 s : adv s 0 = s.
Proof. unfold adv, setpos. rewrite Nat.add_0_r. destruct s; reflexivity. Qed.

Lemma pos_adv s n : pos (adv s n) = pos s + n. Proof. reflexivity. Qed.
Lemma mark_adv s n : mark (adv s n) = mark s. Proof. reflexivity. Qed.
Lemma closed_adv s n : closed (adv s n) = closed s. Proof. reflexivity. Qed.
Lemma arrived_adv s n : arrived (adv s n) = arrived s. Proof. reflexivity. Qed.

(* a read of n octets when at least n are there *)
Lemma attempt_enough s n b rest : avail s = b ++ rest -> length b = n ->
  attempt s n = (Got b, adv s n).
Proof.
  intros Hav Hlen. unfold attempt.
  destruct (Nat.eqb_spec n 0) as [->|Hn].
  - destruct b; [|discriminate]. rewrite adv_0. reflexivity.
  - rewrite Hav, app_length.
    destruct (Nat.ltb_spec (length b + length rest) n) as [Hl|_]; [lia|].
    rewrite <- Hlen, firstn_app, Nat.sub_diag, firstn_all. cbn [firstn]. rewrite app_nil_r. reflexivity.
Qed.

Lemma resume_readN {A} s n b rest (f: bytes -> proc A) : avail s = b ++ rest -> length b = n ->
  resume (pbind (readN n) f) s = resume (f b) (adv s n).
Proof.
  intros Hav Hlen. unfold readN. cbn [pbind resume]. rewrite (attempt_enough s n b rest Hav Hlen). reflexivity.
Qed.

Lemma resume_ReadN {A} s n b rest (k: bytes -> proc A) : avail s = b ++ rest -> length b = n ->
  resume (ReadN n k) s = resume (k b) (adv s n).
Proof. intros Hav Hlen. cbn [resume]. rewrite (attempt_enough s n b rest Hav Hlen). reflexivity. Qed.

Lemma resume_tell {A} s (f: nat -> proc A) : resume (pbind tell f) s = resume (f (pos s)) s.
Proof. reflexivity. Qed.

Lemma resume_getmark {A} s (f: nat -> proc A) : resume (pbind getmark f) s = resume (f (mark s)) s.
Proof. reflexivity. Qed.

Lemma avail_cons_adv s o r : avail s = o :: r -> avail (adv s 1) = r.
Proof. intros H. rewrite avail_adv, H. reflexivity. Qed.

Lemma avail_app_adv s a b : avail s = a ++ b -> avail (adv s (length a)) = b.
Proof. intros H. rewrite avail_adv, H. apply skipn_app_exact. Qed.

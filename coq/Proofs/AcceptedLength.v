(* C10, third part: an accepted input really starts with identifier and length octets, and under a
   definite length the decoder consumed exactly the announced number of contents octets; what is
   handed back as unread is what follows them.  For EVERY input and every guiding type. *)
From Coq Require Import Lia.
From PV Require Import Base.Bytes Model.Tag Model.TableTypes Model.Types Model.Proc Model.Enc Model.Dec Gen.Tables
     Proofs.ProcBind Proofs.RunLemmas Proofs.TagOctets Proofs.DecSound Proofs.AcceptedWellFormed.
Local Open Scope N_scope.

(* the read position never passes the end of the input *)
Lemma resume_pos_bounded {A} (p: proc A) : forall s r s',
  (pos s <= length (arrived s))%nat -> resume p s = inr (r, s') -> (pos s' <= length (arrived s'))%nat.
Proof.
  induction p as [a0|e0|n k IH|k IH|d k IH|k IH|k IH|k IH|k IH]; intros s r s' Hb H; cbn [resume] in H.
  - inversion H; subst; exact Hb.
  - inversion H; subst; exact Hb.
  - unfold attempt in H. destruct (Nat.eqb n 0).
    + apply (IH _ _ _ _ Hb H).
    + destruct (Nat.ltb_spec (length (avail s)) n) as [Hl|Hl].
      * destruct (closed s); [inversion H; subst; exact Hb|discriminate].
      * apply (IH _ _ _ _) in H; [exact H|]. cbn [pos arrived setpos]. unfold avail in Hl. rewrite skipn_length in Hl. lia.
  - apply (IH _ _ _ _ Hb H).
  - apply (IH _ _ _) in H; [exact H|]. cbn [pos arrived setpos]. lia.
  - apply (IH _ _ _) in H; [exact H|]. exact Hb.
  - apply (IH _ _ _ _ Hb H).
  - destruct (Nat.eqb (length (avail s)) 0).
    + destruct (closed s); [apply (IH _ _ _ _ Hb H)|discriminate].
    + apply (IH _ _ _ _ Hb H).
  - destruct (Nat.eqb (length (avail s)) 0).
    + destruct (closed s); [inversion H; subst; exact Hb|discriminate].
    + apply (IH _ _ _ _) in H; [exact H|]. cbn [pos arrived setpos]. lia.
Qed.

(* ---------------- inversion of the header readers ---------------- *)

Lemma readN_inv n s b s1 : resume (readN n) s = inr (Ok b, s1) ->
  avail s = b ++ avail s1 /\ length b = n /\ s1 = adv s n.
Proof.
  unfold readN. cbn [resume]. unfold attempt. destruct (Nat.eqb_spec n 0) as [->|Hn].
  - cbn [resume]. intros H. inversion H; subst. rewrite adv_0. auto.
  - destruct (Nat.ltb_spec (length (avail s)) n) as [Hl|Hl]; [destruct (closed s); discriminate|].
    cbn [resume]. intros H. inversion H; subst. fold (adv s n). rewrite avail_adv.
    split; [symmetry; apply firstn_skipn|]. split; [apply firstn_length_le; exact Hl|reflexivity].
Qed.

Lemma read1_inv s o s1 : resume read1 s = inr (Ok o, s1) -> avail s = o :: avail s1 /\ s1 = adv s 1.
Proof.
  unfold read1. intros H. binv H. apply readN_inv in Ha. destruct Ha as (Hav & Hlen & ->).
  cbn [resume] in H. inversion H; subst. destruct a as [|x [|y r]]; try discriminate Hlen.
  cbn [hd]. split; [exact Hav|reflexivity].
Qed.

Lemma long_tag_inv cl fm : forall k acc s t s', resume (long_tag cl fm k acc) s = inr (Ok t, s') ->
  exists n m, dec_b128 acc (avail s) = Some (n, avail s') /\ t = mkTag cl fm n /\ s' = adv s m.
Proof.
  induction k as [|k IH]; intros acc s t s' H; cbn [long_tag] in H; [dead H|].
  binv H. apply read1_inv in Ha. destruct Ha as [Hav ->]. cbv zeta in H.
  rewrite Hav. cbn [dec_b128]. destruct (N.eqb (N.land a 128) 0).
  - cbn [resume] in H. inversion H; subst. eexists; exists 1%nat; auto.
  - destruct (IH _ _ _ _ H) as (n & m & Hd & Ht & Hs). exists n, (1 + m)%nat. rewrite Hd. rewrite Hs, adv_adv. auto.
Qed.

Lemma read_tag_inv lf s t s' : resume (read_tag lf) s = inr (Ok t, s') ->
  exists m, dec_ident (avail s) = Some (t, avail s') /\ s' = adv s m.
Proof.
  unfold read_tag. intros H. binv H. apply read1_inv in Ha. destruct Ha as [Hav ->]. cbv zeta in H.
  rewrite Hav. cbn [dec_ident]. cbv zeta. destruct (N.eqb (N.land a 31) 31).
  - apply long_tag_inv in H. destruct H as (n & m & Hd & -> & Hs). rewrite Hd. exists (1 + m)%nat. rewrite Hs, adv_adv. auto.
  - cbn [resume] in H. inversion H; subst. exists 1%nat. auto.
Qed.

Lemma read_length_inv c s ol s' : resume (read_length c) s = inr (Ok ol, s') ->
  exists m, dec_len (avail s) = Some (ol, avail s') /\ s' = adv s m.
Proof.
  unfold read_length. intros H. binv H. apply read1_inv in Ha. destruct Ha as [Hav ->].
  rewrite Hav, dec_len_cons. destruct (N.ltb a 128).
  - cbn [resume] in H. inversion H; subst. exists 1%nat. auto.
  - destruct (N.eqb a 128).
    + destruct (support_indef c); [|dead H]. cbn [resume] in H. inversion H; subst. exists 1%nat. auto.
    + binv H. apply readN_inv in Ha. destruct Ha as (Hav2 & Hlen & ->). cbn [resume] in H. inversion H; subst.
      cbv zeta. rewrite Hav2, app_length.
      destruct (Nat.ltb_spec (length a0 + length (avail (adv (adv s 1) (N.to_nat (N.land a 127))))) (N.to_nat (N.land a 127))) as [Hc|_]; [lia|].
      rewrite <- Hlen, firstn_app_exact, skipn_app_exact. exists (1 + length a0)%nat. rewrite adv_adv. auto.
Qed.

Lemma lift_inv_s {A} (r: res A) s a s' : resume (lift r) s = inr (Ok a, s') -> r = Ok a /\ s' = s.
Proof. destruct r; cbn [lift resume]; intros H; inversion H; subst; auto. Qed.

(* every successful path of the dispatcher under a definite length goes through the length check *)
Lemma dispatch_length c rec lf sp ts l sfun s d s' :
  resume (dispatch c rec lf sp ts (Some l) sfun) s = inr (Ok d, s') -> N.of_nat (pos s' - pos s) = l.
Proof.
  intros H. unfold dispatch in H. cbv zeta in H.
  assert (Hrun: forall (k: proc dval) s d s',
    resume (let! p0 := tell in let! v := k in let! p1 := tell in
            if N.eqb (N.of_nat (p1 - p0)) l then Ret v else Raise EMalformed) s = inr (Ok d, s') ->
    N.of_nat (pos s' - pos s) = l).
  { intros k s1 d1 s1' H1. apply run_value_exact in H1. destruct H1 as (s2 & _ & Hl & ->). exact Hl. }
  assert (Hfail: forall s d s',
    resume (match match ts with
                  | t :: _ => if tcon t && negb (cls_eqb (tcls t) Univ) then Some (dec_raw rec lf sp ts (Some l) sfun) else None
                  | [] => None end with
            | Some k => let! p0 := tell in let! v := k in let! p1 := tell in
                        if N.eqb (N.of_nat (p1 - p0)) l then Ret v else Raise EMalformed
            | None => Raise EMalformed end) s = inr (Ok d, s') -> N.of_nat (pos s' - pos s) = l).
  { intros s1 d1 s1' H1. destruct ts as [|t r]; [dead H1|].
    destruct (tcon t && negb (cls_eqb (tcls t) Univ)); [|dead H1]. apply (Hrun _ _ _ _ H1). }
  destruct sp as [|T|mp].
  - destruct (by_tag c ts) as [[cd fl]|]; [apply (Hrun _ _ _ _ H)|].
    destruct (by_tag c (firstn 1 ts)) as [[cd fl]|]; [apply (Hrun _ _ _ _ H)|apply (Hfail _ _ _ H)].
  - destruct (tagset_eqb ts (tagset_of' T) || tm_contains (tagmap_of T) ts); [|apply (Hfail _ _ _ H)].
    destruct (tm_postponed (tagmap_of T)); [dead H|].
    destruct (by_type c T) as [[cd fl]|]; [apply (Hrun _ _ _ _ H)|apply (Hfail _ _ _ H)].
  - binv H. apply lift_inv_s in Ha. destruct Ha as [_ ->].
    destruct a as [T|]; [|apply (Hfail _ _ _ H)].
    destruct (by_type c T) as [[cd fl]|]; [apply (Hrun _ _ _ _ H)|apply (Hfail _ _ _ H)].
Qed.

(* an accepted input starts with identifier octets and length octets; under a definite non-zero
   length what follows splits into exactly that many contents octets and the unread tail *)
Theorem accepted_length_respected : forall c fuel sp b d tl,
  decode_with c fuel sp b = Ok (d, tl) ->
  exists t r ol r2, dec_ident b = Some (t, r) /\ dec_len r = Some (ol, r2)
    /\ (ol = None -> support_indef c = true)
    /\ forall l, ol = Some l -> l <> 0 -> exists content, r2 = content ++ tl /\ N.of_nat (length content) = l.
Proof.
  intros c fuel sp b d tl H. unfold decode_with, run_complete in H.
  destruct (resume (dec_item c fuel sp) (mkStream b 0 true 0)) as [[p s]|[[d0|e] s3]] eqn:E; try discriminate.
  inversion H; subst d0 tl. clear H. unfold dec_item in E.
  destruct fuel as [|f]; [cbn [dec_call resume] in E; discriminate|].
  cbn [dec_call] in E. unfold dec_body in E. cbn [andb] in E. cbn [resume] in E.
  set (s0 := setmark (mkStream b 0 true 0) (pos (mkStream b 0 true 0))) in E.
  assert (Hav0: avail s0 = b) by reflexivity.
  assert (Hb0: (pos s0 <= length (arrived s0))%nat) by (cbn; lia).
  apply resume_pbind_inv in E. destruct E as (t & s1 & Ht & E).
  pose proof (resume_pos_bounded _ _ _ _ Hb0 Ht) as Hb1.
  pose proof (read_tag_inv _ _ _ _ Ht) as (m1 & Hid & Hs1).
  apply resume_pbind_inv in E. destruct E as (ol & s2 & Hol & E).
  pose proof (resume_pos_bounded _ _ _ _ Hb1 Hol) as Hb2.
  pose proof (read_length_inv _ _ _ _ Hol) as (m2 & Hlen & Hs2).
  rewrite Hav0 in Hid.
  exists t, (avail s1), ol, (avail s2). split; [exact Hid|]. split; [exact Hlen|].
  split.
  { intros ->. clear - Hol. unfold read_length in Hol. binv Hol. destruct (N.ltb a 128); [cbn [resume] in Hol; inversion Hol|].
    destruct (N.eqb a 128); [destruct (support_indef c); [reflexivity|dead Hol]|].
    binv Hol. cbn [resume] in Hol. inversion Hol. }
  intros l -> Hl0.
  pose proof (dispatch_length _ _ _ _ _ _ _ _ _ _ E) as Hl.
  pose proof (resume_pos_bounded _ _ _ _ Hb2 E) as Hb3.
  destruct (resume_arrived _ _ _ _ E) as [Harr _].
  assert (Hpos: pos s3 = (pos s2 + N.to_nat l)%nat) by lia.
  exists (firstn (N.to_nat l) (avail s2)). split.
  - unfold avail at 3. rewrite Hpos, Harr, skipn_add. fold (avail s2). symmetry. apply firstn_skipn.
  - rewrite firstn_length_le; [lia|]. unfold avail. rewrite skipn_length. rewrite Harr in Hb3. lia.
Qed.

Print Assumptions accepted_length_respected.

Example accepted_length_witness :
  decode BER (Some (TSeqOf TInt)) [48;129;6; 2;1;5; 2;1;7; 99] = Ok (DV (TSeqOf TInt) (VList [VInt 5; VInt 7]), [99])
  /\ dec_ident [48;129;6; 2;1;5; 2;1;7; 99] = Some (mkTag Univ true 16, [129;6; 2;1;5; 2;1;7; 99])
  /\ dec_len [129;6; 2;1;5; 2;1;7; 99] = Some (Some 6, [2;1;5; 2;1;7; 99]).
Proof. repeat split; vm_compute; reflexivity. Qed.

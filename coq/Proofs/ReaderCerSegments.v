(* CER string segmentation (X.690 9.2): the model of pyasn1's chunked OCTET STRING / character
   string / BIT STRING encoders (Model/Enc.v: enc_octets_like, enc_string_chunked, enc_bits)
   writes exactly the segments of the independent reference (Spec/X690.v: string_tlv,
   bitstring_tlv). *)
From Coq Require Import Lia.
From PV Require Import Base.Bytes Model.Tag Model.TableTypes Model.Types Model.Enc Gen.Tables Spec.X690
     Proofs.LeafInt Proofs.LeafOidBits Proofs.DerReference.
Local Open Scope N_scope.

(* ====================================================================== *)
(* 1. generic: chunks = segs, the fold over framed pieces                   *)
(* ====================================================================== *)

Lemma chunks_is_segs : forall f k (l: bytes), chunks f k l = segs f k l.
Proof. induction f as [|f IH]; intros k l; cbn [chunks segs]; [reflexivity|]. destruct l; [reflexivity|]. rewrite IH. reflexivity. Qed.

Lemma segs1000_is_segs : forall f (l: bytes), segs1000 f l = segs f 1000 l.
Proof. induction f as [|f IH]; intros l; cbn [segs1000 segs]; [reflexivity|]. destruct l; [reflexivity|]. rewrite IH. reflexivity. Qed.

Lemma frame_piece_is_tlv n c s : frame_piece n c = Ok s -> s = tlv Univ false n c.
Proof.
  unfold frame_piece. intros H.
  apply (frame_one_is_tlv (utag false n) false true c s (form_agrees_prim _)) in H. exact H.
Qed.

Definition piece_step {A} (n: N) (g: A -> bytes) : res bytes -> A -> res bytes :=
  fun acc piece => do a <- acc; do p <- frame_piece n (g piece); Ok (a ++ p).

Lemma fold_pieces_err {A} n (g: A -> bytes) : forall l e, fold_left (piece_step n g) l (Err e) = Err e.
Proof. induction l as [|x l IH]; intros e; cbn [fold_left]; [reflexivity|]. unfold piece_step at 2. cbn [bind]. apply IH. Qed.

Lemma fold_pieces_ok {A} n (g: A -> bytes) : forall l a0 s,
  fold_left (piece_step n g) l (Ok a0) = Ok s ->
  s = a0 ++ concat (map (fun p => tlv Univ false n (g p)) l).
Proof.
  induction l as [|x l IH]; intros a0 s H; cbn [fold_left] in H.
  - cbn [map concat]. rewrite app_nil_r.
    apply (f_equal (fun x => match x with Ok a => a | Err _ => [] end)) in H. symmetry. exact H.
  - unfold piece_step at 2 in H. cbn [bind] in H.
    destruct (frame_piece n (g x)) as [p|e] eqn:E; cbn [bind] in H.
    + apply frame_piece_is_tlv in E. subst p. apply IH in H. subst s.
      cbn [map concat]. rewrite app_assoc. reflexivity.
    + rewrite fold_pieces_err in H. discriminate.
Qed.

(* ====================================================================== *)
(* 2. OCTET STRING and character strings                                    *)
(* ====================================================================== *)

Lemma string_chunked_is_segs v b k s : octets_of v = Some b ->
  enc_string_chunked v k = Ok s -> s = concat (map (tlv Univ false 4) (segs (S (length b)) k b)).
Proof.
  intros Ho H.
  assert (G: forall b0, fold_left (fun acc piece => do a <- acc; do p <- frame_piece 4 piece; Ok (a ++ p))
                                  (chunks (S (length b0)) k b0) (Ok []) = Ok s ->
                        s = concat (map (tlv Univ false 4) (segs (S (length b0)) k b0))).
  { intros b0 H0. apply (fold_pieces_ok 4 (fun x : bytes => x)) in H0. rewrite chunks_is_segs in H0.
    subst s. reflexivity. }
  destruct v; cbn [octets_of] in Ho; try discriminate Ho; cbn [enc_string_chunked] in H;
    injection Ho as Ho; subst b; apply G; exact H.
Qed.

Theorem cer_string_is_reference : forall (v: val) (b: bytes) (num: N) (d i: bool) (s: bytes) (ic: bool),
  octets_of v = Some b -> enc_octets_like (mkOpts d 1000 i) v = Ok (s, ic) ->
  string_tlv true num b = (if ic then ctlv true Univ num s else tlv Univ false num s).
Proof.
  intros v b num d i s ic Ho H.
  unfold enc_octets_like in H. rewrite Ho in H. cbn [o_chunk] in H.
  change (N.eqb 1000 0) with false in H. cbn [orb] in H.
  assert (E1000: N.to_nat 1000 = 1000%nat) by lia. rewrite E1000 in H.
  unfold string_tlv. cbn [andb].
  destruct (Nat.leb_spec (length b) 1000) as [Hle|Hgt]; destruct (Nat.ltb_spec 1000 (length b)) as [Hlt|Hge]; try lia.
  - injection H as H1 H2. subst s ic. reflexivity.
  - destruct (enc_string_chunked v 1000) as [s0|e] eqn:E; cbn [bind] in H; [|discriminate H].
    injection H as H1 H2. subst s ic.
    apply (string_chunked_is_segs v b 1000 s0 Ho) in E. subst s0.
    rewrite segs1000_is_segs. reflexivity.
Qed.

Example cer_string_is_reference_ex :
  let b := repeat 65 (25 * 100)%nat in
  exists s, enc_octets_like (mkOpts false 1000 false) (VOcts b) = Ok (s, true)
            /\ length s = (25 * 100 + 3 * 4)%nat
            /\ string_tlv true 4 b = ctlv true Univ 4 s.
Proof. vm_compute. eexists. split; [reflexivity|]. split; reflexivity. Qed.

(* ====================================================================== *)
(* 3. BIT STRING: octets of a concatenation cut at an octet boundary        *)
(* ====================================================================== *)

Lemma be_bytes_app : forall k j x y, y < 256 ^ N.of_nat k ->
  be_bytes (j + k) (x * 256 ^ N.of_nat k + y) = be_bytes j x ++ be_bytes k y.
Proof.
  induction k as [|k IH]; intros j x y Hy.
  - change (256 ^ N.of_nat 0) with 1 in *. assert (y = 0) by lia. subst y.
    rewrite Nat.add_0_r, N.mul_1_r, N.add_0_r. cbn [be_bytes]. rewrite app_nil_r. reflexivity.
  - rewrite Nat.add_succ_r. cbn [be_bytes]. rewrite pow256_succ in *.
    assert (Hq: y / 256 < 256 ^ N.of_nat k) by (apply N.div_lt_upper_bound; lia).
    replace ((x * (256 * 256 ^ N.of_nat k) + y) / 256) with (x * 256 ^ N.of_nat k + y / 256).
    2:{ replace (x * (256 * 256 ^ N.of_nat k) + y) with (y + (x * 256 ^ N.of_nat k) * 256) by lia.
        rewrite N.div_add by discriminate. lia. }
    replace ((x * (256 * 256 ^ N.of_nat k) + y) mod 256) with (y mod 256).
    2:{ replace (x * (256 * 256 ^ N.of_nat k) + y) with (y + (x * 256 ^ N.of_nat k) * 256) by lia.
        rewrite N.mod_add by discriminate. reflexivity. }
    rewrite (IH j x (y / 256) Hq), app_assoc. reflexivity.
Qed.

Lemma bits_value_lt l : bits_value l < 2 ^ N.of_nat (length l).
Proof.
  induction l as [|b l IH]; [cbn; lia|].
  cbn [bits_value length]. rewrite Nat2N.inj_succ, N.pow_succ_r'. destruct b; lia.
Qed.

Lemma pow2_8 q : 2 ^ N.of_nat (8 * q) = 256 ^ N.of_nat q.
Proof. rewrite Nat2N.inj_mul, N.pow_mul_r. reflexivity. Qed.

Lemma pad_of_0 n : (n mod 8 = 0)%nat -> pad_of n = 0%nat.
Proof. unfold pad_of. lia. Qed.

Lemma pad_of_add a b : (a mod 8 = 0)%nat -> pad_of (a + b) = pad_of b.
Proof. unfold pad_of. lia. Qed.

(* the key lemma *)
Lemma bits_octets_app a b : (length a mod 8 = 0)%nat ->
  bits_octets (a ++ b) = bits_octets a ++ bits_octets b.
Proof.
  intros Ha. unfold bits_octets. cbv zeta.
  rewrite (app_length a b), (pad_of_add _ _ Ha), (pad_of_0 _ Ha).
  cbn [repeat]. rewrite (app_nil_r a), <- app_assoc.
  set (pb := b ++ repeat false (pad_of (length b))).
  assert (Hpb: (length pb mod 8 = 0)%nat).
  { subst pb. rewrite app_length, repeat_length. apply pad_aligned. }
  rewrite app_length.
  replace ((length a + length pb) / 8)%nat with (length a / 8 + length pb / 8)%nat by lia.
  rewrite bits_to_N_app, bits_to_N_value, (bits_to_N_is_bits_value pb).
  assert (E: 2 ^ N.of_nat (length pb) = 256 ^ N.of_nat (length pb / 8)).
  { rewrite <- pow2_8. f_equal. lia. }
  pose proof (bits_value_lt pb) as Hlt. rewrite E in *.
  apply be_bytes_app. exact Hlt.
Qed.

(* ====================================================================== *)
(* 4. BIT STRING segments                                                   *)
(* ====================================================================== *)

(* the reference's inner [go], named *)
Section Go.
  Variable unused : N.
  Fixpoint bit_go (l: list bytes) : list bytes :=
    match l with
    | [] => []
    | [p] => [tlv Univ false 3 (unused :: p)]
    | p :: r => tlv Univ false 3 (0 :: p) :: bit_go r
    end.
End Go.

Lemma bitstring_tlv_named cer bs :
  bitstring_tlv cer bs =
  let c := bitstring_contents bs in
  if (cer && Nat.ltb 1000 (length c))%bool
  then ctlv true Univ 3 (concat (bit_go (hd 0 c) (segs (S (length (tl c))) 999 (tl c))))
  else tlv Univ false 3 c.
Proof. reflexivity. Qed.

Lemma bit_go_one u p : bit_go u [p] = [tlv Univ false 3 (u :: p)].
Proof. reflexivity. Qed.
Lemma bit_go_cons2 u p q r : bit_go u (p :: q :: r) = tlv Univ false 3 (0 :: p) :: bit_go u (q :: r).
Proof. reflexivity. Qed.

Lemma chunks_nil {A} f k : @chunks A f k [] = [].
Proof. destruct f; reflexivity. Qed.
Lemma chunks_cons {A} f k (l: list A) : l <> [] -> chunks (S f) k l = firstn k l :: chunks f k (skipn k l).
Proof. destruct l; [congruence|reflexivity]. Qed.
Lemma segs_nil f k : segs f k [] = [].
Proof. destruct f; reflexivity. Qed.
Lemma segs_cons f k (l: bytes) : l <> [] -> segs (S f) k l = firstn k l :: segs f k (skipn k l).
Proof. destruct l; [congruence|reflexivity]. Qed.

Lemma firstn_app_len {A} (a b: list A) n : length a = n -> firstn n (a ++ b) = a.
Proof. intros <-. rewrite firstn_app, Nat.sub_diag, firstn_all. cbn [firstn]. apply app_nil_r. Qed.
Lemma skipn_app_len {A} (a b: list A) n : length a = n -> skipn n (a ++ b) = b.
Proof. intros <-. rewrite skipn_app, Nat.sub_diag, skipn_all. reflexivity. Qed.

Lemma nonempty_length {A} (l: list A) : (0 < length l)%nat -> l <> [].
Proof. destruct l; cbn [length]; [lia|congruence]. Qed.

Lemma bit_pieces m k : (0 < m)%nat -> k = (m * 8)%nat ->
  forall n bs f g, (length bs <= n)%nat -> (length bs < f)%nat -> (length (bits_octets bs) < g)%nat ->
  map (fun p => tlv Univ false 3 (enc_bits_prim p)) (chunks f k bs)
  = bit_go (N.of_nat (pad_of (length bs))) (segs g m (bits_octets bs)).
Proof.
  intros Hm Hk. induction n as [|n IH]; intros bs f g Hn Hf Hg.
  - destruct bs; [|cbn [length] in Hn; lia]. rewrite chunks_nil.
    change (bits_octets []) with (@nil N). rewrite segs_nil. reflexivity.
  - destruct (Nat.eq_dec (length bs) 0) as [H0|H0].
    { destruct bs; [|cbn [length] in H0; lia]. rewrite chunks_nil.
      change (bits_octets []) with (@nil N). rewrite segs_nil. reflexivity. }
    assert (Hne: bs <> []) by (apply nonempty_length; lia).
    destruct f as [|f]; [lia|]. destruct g as [|g]; [lia|].
    rewrite (chunks_cons f k bs Hne).
    pose proof (bits_octets_length bs) as HL.
    pose proof (pad_aligned (length bs)) as HA.
    pose proof (pad_of_lt (length bs)) as HP.
    assert (Hone: bits_octets bs <> []) by (apply nonempty_length; lia).
    rewrite (segs_cons g m _ Hone).
    destruct (Nat.le_gt_cases (length bs) k) as [Hle|Hgt].
    + rewrite (firstn_all2 bs Hle), (skipn_all2 bs Hle), chunks_nil.
      assert (Hlm: (length (bits_octets bs) <= m)%nat) by lia.
      rewrite (firstn_all2 _ Hlm), (skipn_all2 _ Hlm), segs_nil.
      cbn [map]. rewrite bit_go_one. reflexivity.
    + set (a := firstn k bs). set (b := skipn k bs).
      assert (Hab: bs = a ++ b) by (symmetry; apply firstn_skipn).
      assert (Hla: length a = k) by (subst a; apply firstn_length_le; lia).
      assert (Hlb: length b = (length bs - k)%nat) by (subst b; apply skipn_length).
      assert (Ha8: (length a mod 8 = 0)%nat) by lia.
      assert (HA0: bits_octets bs = bits_octets a ++ bits_octets b).
      { rewrite Hab at 1. apply bits_octets_app. exact Ha8. }
      assert (Hlena: length (bits_octets a) = m).
      { rewrite bits_octets_length, (pad_of_0 _ Ha8). lia. }
      rewrite HA0 in *.
      rewrite (firstn_app_len _ _ m Hlena), (skipn_app_len _ _ m Hlena).
      pose proof (bits_octets_length b) as HLb.
      pose proof (pad_aligned (length b)) as HAb.
      assert (Hbne: bits_octets b <> []) by (apply nonempty_length; lia).
      rewrite app_length in Hg.
      destruct g as [|g]; [lia|].
      assert (IHb := IH b f (S g)).
      rewrite (segs_cons g m _ Hbne) in *.
      rewrite bit_go_cons2. cbn [map]. f_equal.
      * unfold enc_bits_prim. rewrite Hla, (pad_of_0 k) by lia. reflexivity.
      * rewrite IHb by lia. f_equal. f_equal. unfold pad_of. lia.
Qed.

Theorem cer_bits_is_reference : forall (d i: bool) (bs: list bool) (s: bytes) (ic: bool),
  enc_bits (mkOpts d 999 i) bs = Ok (s, ic) ->
  bitstring_tlv true bs = (if ic then ctlv true Univ 3 s else tlv Univ false 3 s).
Proof.
  intros d i bs s ic H.
  unfold enc_bits in H. cbv zeta in H. cbn [o_chunk] in H.
  change (N.eqb 999 0) with false in H. cbn [orb] in H.
  assert (E999: N.to_nat 999 = 999%nat) by lia. rewrite E999 in H.
  rewrite bitstring_tlv_named. cbv zeta. rewrite bitstring_contents_is_enc_bits_prim.
  cbn [andb]. unfold enc_bits_prim. cbn [hd tl length].
  pose proof (bits_octets_length bs) as HL.
  pose proof (pad_aligned (length bs)) as HA.
  destruct (Nat.leb_spec (length bs + pad_of (length bs)) (999 * 8)) as [Hle|Hgt];
    destruct (Nat.ltb_spec 1000 (S (length (bits_octets bs)))) as [Hlt|Hge]; try lia.
  - injection H as H1 H2. subst s ic. reflexivity.
  - match type of H with bind ?F _ = _ => destruct F as [s1|e1] eqn:E end; cbn [bind] in H; [|discriminate H].
    injection H as H1 H2. subst s ic.
    apply (fold_pieces_ok 3 enc_bits_prim) in E. cbn [app] in E. subst s1.
    f_equal. f_equal.
    symmetry. apply (bit_pieces 999 (999 * 8) ltac:(lia) eq_refl (length bs)); lia.
Qed.

(* 8003 bits: one full segment of 999 octets of bits, then 11 bits with 5 unused *)
Example cer_bits_is_reference_ex :
  let bs := repeat true (8 * 1000 + 3)%nat in
  exists s, enc_bits (mkOpts false 999 false) bs = Ok (s, true)
            /\ length s = (4 + 1000 + (2 + 3))%nat
            /\ bitstring_tlv true bs = ctlv true Univ 3 s.
Proof. vm_compute. eexists. split; [reflexivity|]. split; reflexivity. Qed.

(* three segments, the boundary falling inside the value: 2 * 7992 + 1 bits; the hypothesis of the
   theorem is computed, the agreement with the reference then follows from the theorem *)
Example cer_bits_is_reference_ex3 :
  let bs := repeat true (2 * (999 * 8) + 1)%nat in
  exists s, enc_bits (mkOpts true 999 true) bs = Ok (s, true)
            /\ length s = (2 * (4 + 1000) + (2 + 2))%nat
            /\ bitstring_tlv true bs = ctlv true Univ 3 s.
Proof.
  cbv zeta.
  assert (H: exists s, enc_bits (mkOpts true 999 true) (repeat true (2 * (999 * 8) + 1)%nat) = Ok (s, true)
                       /\ length s = (2 * (4 + 1000) + (2 + 2))%nat).
  { vm_compute. eexists. split; reflexivity. }
  destruct H as [s [H1 H2]]. exists s. split; [exact H1|]. split; [exact H2|].
  exact (cer_bits_is_reference _ _ _ _ _ H1).
Qed.

(* exactly 999 octets of bits stay primitive on both sides (no large computation: only the test) *)
Example cer_bits_is_reference_prim :
  let bs := repeat true (999 * 8)%nat in
  exists s, enc_bits (mkOpts false 999 false) bs = Ok (s, false)
            /\ length s = 1000%nat
            /\ bitstring_tlv true bs = tlv Univ false 3 s.
Proof.
  cbv zeta. set (bs := repeat true (999 * 8)%nat).
  assert (H1: enc_bits (mkOpts false 999 false) bs = Ok (enc_bits_prim bs, false)).
  { unfold enc_bits. cbv zeta. cbn [o_chunk].
    match goal with |- (if ?c then _ else _) = _ => assert (Hc: c = true) by (vm_compute; reflexivity); rewrite Hc end.
    reflexivity. }
  exists (enc_bits_prim bs). split; [exact H1|]. split.
  - unfold enc_bits_prim. cbn [length]. rewrite bits_octets_length. subst bs. rewrite repeat_length.
    vm_compute. reflexivity.
  - exact (cer_bits_is_reference _ _ _ _ _ H1).
Qed.

Print Assumptions bits_octets_app.
Print Assumptions cer_string_is_reference.
Print Assumptions cer_bits_is_reference.

(* C03, reading side: the independent reference's parser (Spec/X690.v [parse_one]) on well-formed
   TLVs.  A property of the specification alone - no model function occurs here.

   1. length octets read back ([split_length] of [length_octets]);
   2. [parse_one] unfolded once, with its two local loops named;
   3. [parses e n]: the octets e are read as the node n, whatever follows, with fuel >= length e;
      primitive TLVs, definite constructed TLVs, indefinite constructed TLVs. *)
From Coq Require Import Lia.
From PV Require Import Base.Bytes Model.Tag Model.Types Spec.X690
     Proofs.Bits Proofs.SpecOctets Proofs.LeafInt Proofs.DerReference.
Local Open Scope N_scope.

(* ====================================================================== *)
(* 1. length octets                                                        *)
(* ====================================================================== *)

Lemma octets_value_snoc l : forall acc d, octets_value acc (l ++ [d]) = octets_value acc l * 256 + d.
Proof. induction l as [|x l IH]; intros acc d; [reflexivity|]. cbn [app octets_value]. apply IH. Qed.

Lemma digits256_value : forall f n, (N.size_nat n <= f)%nat -> octets_value 0 (digits f 256 n) = n.
Proof.
  induction f as [|f IH]; intros n Hf.
  - assert (n = 0) as -> by (apply size_nat_0; lia). reflexivity.
  - cbn [digits]. destruct (N.ltb_spec n 256) as [Hs|Hl].
    + cbn [octets_value]. lia.
    + assert (Hn: n <> 0) by lia.
      pose proof (size_nat_div n 8 Hn eq_refl) as Hd. change (2 ^ 8) with 256 in Hd.
      rewrite octets_value_snoc, IH by lia. pose proof (N.div_mod n 256). lia.
Qed.

Lemma digits_of_256_value n : octets_value 0 (digits_of 256 n) = n.
Proof. unfold digits_of. apply digits256_value. lia. Qed.

Lemma digits_length_pos f b n : (1 <= length (digits f b n))%nat.
Proof.
  pose proof (digits_nonempty f b n) as H. destruct (digits f b n); [congruence|cbn [length]; lia].
Qed.

(* X.690 8.1.3 read back *)
Theorem split_length_length_octets (n: N) (rest: bytes) : n < max_len ->
  split_length (length_octets n ++ rest) = Some (Some n, rest).
Proof.
  intros Hn. unfold length_octets. destruct (N.ltb_spec n 128) as [Hs|Hl].
  - cbn [app split_length]. destruct (N.ltb_spec n 128) as [_|Hc]; [reflexivity|lia].
  - cbv zeta. set (ds := digits_of 256 n).
    assert (Hk1: (1 <= length ds)%nat) by apply digits_length_pos.
    assert (Hk2: (length ds <= 126)%nat).
    { apply (digits256_length (N.size_nat n) 126 n); [lia|exact Hn]. }
    cbn [app split_length].
    destruct (N.ltb_spec (128 + N.of_nat (length ds)) 128) as [Hc|_]; [lia|].
    destruct (N.eqb_spec (128 + N.of_nat (length ds)) 128) as [Hc|_]; [lia|].
    destruct (N.eqb_spec (128 + N.of_nat (length ds)) 255) as [Hc|_]; [lia|].
    replace (128 + N.of_nat (length ds) - 128) with (N.of_nat (length ds)) by lia.
    rewrite Nat2N.id.
    destruct (Nat.ltb_spec (length (ds ++ rest)) (length ds)) as [Hc|_]; [rewrite app_length in Hc; lia|].
    rewrite firstn_app, Nat.sub_diag, firstn_all, firstn_O, app_nil_r.
    rewrite skipn_app, Nat.sub_diag, skipn_all. cbn [skipn app].
    subst ds. rewrite digits_of_256_value. reflexivity.
Qed.

(* ====================================================================== *)
(* 2. parse_one, one step                                                  *)
(* ====================================================================== *)

Definition many_def (f: nat) : nat -> bytes -> option (list node) :=
  fix many (k: nat) (cs: bytes) : option (list node) :=
    match k with
    | O => None
    | S k' => match cs with
              | [] => Some []
              | _ => match parse_one f cs with
                     | Some (nd, cs') => match many k' cs' with Some l => Some (nd :: l) | None => None end
                     | None => None
                     end
              end
    end.

Definition many_indef (f: nat) : nat -> bytes -> option (list node * bytes) :=
  fix many (k: nat) (cs: bytes) : option (list node * bytes) :=
    match k with
    | O => None
    | S k' => match cs with
              | 0 :: 0 :: cs' => Some ([], cs')
              | _ => match parse_one f cs with
                     | Some (nd, cs') => match many k' cs' with Some (l, r) => Some (nd :: l, r) | None => None end
                     | None => None
                     end
              end
    end.

Lemma parse_one_S f b :
  parse_one (S f) b =
  match split_ident b with
  | None => None
  | Some (c, pc, num, r1) =>
      match split_length r1 with
      | None => None
      | Some (Some n, r2) =>
          let n' := N.to_nat n in
          if Nat.ltb (length r2) n' then None else
          let contents := firstn n' r2 in
          let rest := skipn n' r2 in
          let raw := firstn (length b - length rest) b in
          if pc then
            match many_def f (S (length contents)) contents with
            | Some kids => Some (Cons c num false kids raw, rest)
            | None => None
            end
          else Some (Prim c num contents raw, rest)
      | Some (None, r2) =>
          if negb pc then None else
          match many_indef f (S (length r2)) r2 with
          | Some (kids, rest) => Some (Cons c num true kids (firstn (length b - length rest) b), rest)
          | None => None
          end
      end
  end.
Proof. reflexivity. Qed.

Definition starts_eoc (cs: bytes) : bool := match cs with 0 :: 0 :: _ => true | _ => false end.

Lemma many_indef_step f k cs : starts_eoc cs = false ->
  many_indef f (S k) cs =
  match parse_one f cs with
  | Some (nd, cs') => match many_indef f k cs' with Some (l, r) => Some (nd :: l, r) | None => None end
  | None => None
  end.
Proof.
  intros H. destruct cs as [|[|p] [|[|q] r]]; try reflexivity. discriminate H.
Qed.

Lemma many_indef_eoc f k rest : many_indef f (S k) (0 :: 0 :: rest) = Some ([], rest).
Proof. reflexivity. Qed.

Lemma many_def_step f k x cs :
  many_def f (S k) (x :: cs) =
  match parse_one f (x :: cs) with
  | Some (nd, cs') => match many_def f k cs' with Some l => Some (nd :: l) | None => None end
  | None => None
  end.
Proof. reflexivity. Qed.

(* ====================================================================== *)
(* 3. reading well-formed TLVs                                              *)
(* ====================================================================== *)

(* the octets e are read as the node n, whatever follows them, as soon as the fuel covers e *)
Definition parses (e: bytes) (n: node) : Prop :=
  node_raw n = e /\ forall f rest, (length e <= f)%nat -> parse_one f (e ++ rest) = Some (n, rest).

Lemma parses_nonempty e n : parses e n -> e <> [].
Proof.
  intros [_ H] ->. specialize (H O [] (Nat.le_refl _)). discriminate H.
Qed.

Lemma firstn_app_exact_len {A} (e rest: list A) : firstn (length (e ++ rest) - length rest) (e ++ rest) = e.
Proof.
  rewrite app_length. replace (length e + length rest - length rest)%nat with (length e) by lia.
  rewrite firstn_app, Nat.sub_diag, firstn_all, firstn_O, app_nil_r. reflexivity.
Qed.

Lemma firstn_skipn_exact {A} (a b: list A) : firstn (length a) (a ++ b) = a /\ skipn (length a) (a ++ b) = b.
Proof.
  split.
  - rewrite firstn_app, Nat.sub_diag, firstn_all, firstn_O, app_nil_r. reflexivity.
  - rewrite skipn_app, Nat.sub_diag, skipn_all. reflexivity.
Qed.

Lemma tlv_length c pc num contents : (2 + length contents <= length (tlv c pc num contents))%nat.
Proof.
  unfold tlv. rewrite !app_length.
  assert (1 <= length (ident c pc num))%nat.
  { unfold ident. destruct (N.ltb num 31); cbn [length]; lia. }
  assert (1 <= length (length_octets (N.of_nat (length contents))))%nat.
  { unfold length_octets. destruct (N.ltb _ 128); cbn [length]; lia. }
  lia.
Qed.

(* 8.1.1 primitive, definite *)
Theorem parses_prim c num contents : N.of_nat (length contents) < max_len ->
  parses (tlv c false num contents) (Prim c num contents (tlv c false num contents)).
Proof.
  intros Hlen. split; [reflexivity|]. intros f rest Hf.
  pose proof (tlv_length c false num contents) as Hl.
  destruct f as [|f]; [lia|]. rewrite parse_one_S.
  set (b := tlv c false num contents ++ rest).
  assert (Eb: b = ident c false num ++ (length_octets (N.of_nat (length contents)) ++ (contents ++ rest))).
  { subst b. unfold tlv. rewrite <- !app_assoc. reflexivity. }
  rewrite Eb at 1. rewrite split_ident_ident, (split_length_length_octets _ _ Hlen). cbv zeta.
  rewrite Nat2N.id.
  destruct (Nat.ltb_spec (length (contents ++ rest)) (length contents)) as [Hc|_]; [rewrite app_length in Hc; lia|].
  destruct (firstn_skipn_exact contents rest) as [E1 E2]. rewrite E1, E2.
  subst b. rewrite firstn_app_exact_len. reflexivity.
Qed.

Lemma many_def_concat f : forall es kids, Forall2 parses es kids ->
  (length (concat es) <= f)%nat -> forall k, (length (concat es) < k)%nat ->
  many_def f k (concat es) = Some kids.
Proof.
  induction 1 as [|e n es kids He Hes IH]; intros Hf k Hk.
  - destruct k as [|k]; [lia|]. reflexivity.
  - pose proof (parses_nonempty e n He) as Hne. destruct He as [_ Hp].
    cbn [concat] in *. rewrite app_length in Hf, Hk.
    destruct k as [|k]; [lia|].
    destruct e as [|x e']; [congruence|].
    change ((x :: e') ++ concat es) with (x :: (e' ++ concat es)). rewrite many_def_step.
    change (x :: (e' ++ concat es)) with ((x :: e') ++ concat es).
    rewrite (Hp f (concat es)) by lia.
    rewrite IH; [reflexivity|lia|cbn [length] in Hk; lia].
Qed.

(* 8.1.1 constructed, definite *)
Theorem parses_cons_def c num es kids : Forall2 parses es kids ->
  N.of_nat (length (concat es)) < max_len ->
  parses (tlv c true num (concat es)) (Cons c num false kids (tlv c true num (concat es))).
Proof.
  intros Hk Hlen. split; [reflexivity|]. intros f rest Hf.
  set (contents := concat es) in *.
  pose proof (tlv_length c true num contents) as Hl.
  destruct f as [|f]; [lia|]. rewrite parse_one_S.
  set (b := tlv c true num contents ++ rest).
  assert (Eb: b = ident c true num ++ (length_octets (N.of_nat (length contents)) ++ (contents ++ rest))).
  { subst b. unfold tlv. rewrite <- !app_assoc. reflexivity. }
  rewrite Eb at 1. rewrite split_ident_ident, (split_length_length_octets _ _ Hlen). cbv zeta.
  rewrite Nat2N.id.
  destruct (Nat.ltb_spec (length (contents ++ rest)) (length contents)) as [Hc|_]; [rewrite app_length in Hc; lia|].
  destruct (firstn_skipn_exact contents rest) as [E1 E2]. rewrite E1, E2.
  subst contents. rewrite (many_def_concat f es kids Hk); [|lia|lia].
  subst b. rewrite firstn_app_exact_len. reflexivity.
Qed.

(* the indefinite form *)
Definition itlv (c: tclass) (num: N) (contents: bytes) : bytes := ident c true num ++ [128] ++ contents ++ [0; 0].

Lemma ctlv_true c num contents : ctlv true c num contents = itlv c num contents.
Proof. reflexivity. Qed.
Lemma ctlv_false c num contents : ctlv false c num contents = tlv c true num contents.
Proof. reflexivity. Qed.

Definition nz_head (e: bytes) : Prop := hd 0 e <> 0.

Lemma nz_head_not_eoc e rest : e <> [] -> nz_head e -> starts_eoc (e ++ rest) = false.
Proof.
  intros Hne Hz. destruct e as [|x e']; [congruence|]. unfold nz_head in Hz. cbn [hd] in Hz.
  cbn [app starts_eoc]. destruct x as [|p]; [congruence|reflexivity].
Qed.

Lemma many_indef_concat f : forall es kids, Forall2 parses es kids -> Forall nz_head es ->
  (length (concat es) <= f)%nat -> forall k rest, (length (concat es) < k)%nat ->
  many_indef f k (concat es ++ 0 :: 0 :: rest) = Some (kids, rest).
Proof.
  induction 1 as [|e n es kids He Hes IH]; intros Hnz Hf k rest Hk.
  - destruct k as [|k]; [lia|]. reflexivity.
  - pose proof (parses_nonempty e n He) as Hne. destruct He as [_ Hp].
    inversion Hnz as [|? ? Hz Hnz']; subst.
    cbn [concat] in *. rewrite app_length in Hf, Hk.
    destruct k as [|k]; [lia|].
    rewrite <- app_assoc.
    rewrite many_indef_step by (apply nz_head_not_eoc; assumption).
    rewrite (Hp f (concat es ++ 0 :: 0 :: rest)) by lia.
    assert (1 <= length e)%nat by (destruct e; [congruence|cbn [length]; lia]).
    rewrite (IH Hnz'); [reflexivity|lia|lia].
Qed.

Lemma ident_length_pos c pc num : (1 <= length (ident c pc num))%nat.
Proof. unfold ident. destruct (N.ltb num 31); cbn [length]; lia. Qed.

(* 8.1.3.6 constructed, indefinite: members that do not begin with a zero octet *)
Theorem parses_cons_indef c num es kids : Forall2 parses es kids -> Forall nz_head es ->
  parses (itlv c num (concat es)) (Cons c num true kids (itlv c num (concat es))).
Proof.
  intros Hk Hnz. split; [reflexivity|]. intros f rest Hf.
  set (contents := concat es) in *.
  assert (Hl: (4 + length contents <= length (itlv c num contents))%nat).
  { unfold itlv. rewrite !app_length. pose proof (ident_length_pos c true num). cbn [length]. lia. }
  destruct f as [|f]; [lia|]. rewrite parse_one_S.
  set (b := itlv c num contents ++ rest).
  assert (Eb: b = ident c true num ++ (128 :: (contents ++ 0 :: 0 :: rest))).
  { subst b. unfold itlv. rewrite <- app_assoc. f_equal. cbn [app]. rewrite <- app_assoc. reflexivity. }
  rewrite Eb at 1. rewrite split_ident_ident. cbn [split_length N.ltb N.compare Pos.compare Pos.compare_cont N.eqb Pos.eqb negb].
  subst contents.
  rewrite (many_indef_concat f es kids Hk Hnz); [| lia | rewrite app_length; cbn [length]; lia].
  subst b. rewrite firstn_app_exact_len. reflexivity.
Qed.

(* the leading identifier octet is zero only for UNIVERSAL 0 in primitive form (end-of-contents) *)
Lemma ident_nz_head c pc num r : (c <> Univ \/ pc = true \/ num <> 0) -> nz_head (ident c pc num ++ r).
Proof.
  intros H. unfold nz_head, ident.
  destruct (N.ltb_spec num 31) as [Hs|Hl]; cbn [app hd].
  - destruct c, pc; cbn [class_no]; try lia. destruct H as [H|[H|H]]; [congruence|discriminate|lia].
  - destruct c, pc; cbn [class_no]; lia.
Qed.

Print Assumptions split_length_length_octets.
Print Assumptions parses_prim.
Print Assumptions parses_cons_def.
Print Assumptions parses_cons_indef.

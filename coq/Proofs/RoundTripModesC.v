(* Round trip under every encoder mode (C01/C02), part C: the simple types in every mode -
   unsegmented, segmented (maxChunkSize) in definite and indefinite form - for the BER, CER and DER
   encoders and the BER and CER decoders. *)
From Coq Require Import Lia.
From PV Require Import Base.Bytes Model.Tag Model.TableTypes Model.Types Model.Proc Model.Enc Model.Dec Gen.Tables
     Proofs.ProcBind Proofs.RunLemmas Proofs.TagOctets Proofs.TagAlgebra Proofs.DecHeader Proofs.DecFrame Proofs.DecPrim
     Proofs.TagsetShape Proofs.Schemaless Proofs.LeafOidBits Proofs.LeafReal Proofs.RoundTrip1 Proofs.RoundTrip2
     Proofs.RoundTripModesA Proofs.RoundTripModesB.
Local Open Scope N_scope.

(* ---------- encoder options ---------- *)

Definition mo (d: bool) (k: N) : eopts := mkOpts d k false.

(* options the codec's fixed options leave alone: any for BER; defMode=False, maxChunkSize=1000 for
   CER; defMode=True, maxChunkSize=0 for DER *)
Definition stable (ce: codec) (d: bool) (k: N) : Prop := fix_opts ce (mo d k) = mo d k.

Lemma stable_ber d k : stable BER d k. Proof. reflexivity. Qed.
Lemma stable_cer : stable CER false 1000. Proof. reflexivity. Qed.
Lemma stable_der : stable DER true 0. Proof. reflexivity. Qed.

Lemma enc_with_inv_g ce T d k v b : stable ce d k -> enc_with ce (enc_content ce) T (mo d k) v = Ok b ->
  exists ec fl ts content cns, concrete_encoder ce T = Ok (ec, fl) /\ tagset_of T = Ok ts
    /\ enc_content ce T ec fl (mo d k) v = Ok (content, cns) /\ frame ts content cns (mo d k) (ef_indef fl) = Ok b.
Proof.
  unfold enc_with, stable. intros Hst H. rewrite Hst in H.
  destruct (concrete_encoder ce T) as [[ec fl]|e] eqn:E1; cbn [bind] in H; [|discriminate].
  destruct (tagset_of T) as [ts|e] eqn:E2; cbn [bind] in H; [|discriminate].
  change (mkOpts (o_def (mo d k)) (o_chunk (mo d k)) false) with (mo d k) in H.
  destruct (enc_content ce T ec fl (mo d k) v) as [[content cns]|e] eqn:E3; cbn [bind] in H; [|discriminate].
  exists ec, fl, ts, content, cns. split; [reflexivity|]. split; [reflexivity|]. split; [exact E3|exact H].
Qed.

(* decoders that read indefinite lengths and constructed strings: BER and CER *)
Definition dec_ok (cd: codec) : Prop := cd = BER \/ cd = CER.

Lemma dec_ok_indef cd : dec_ok cd -> support_indef cd = true.
Proof. intros [-> | ->]; reflexivity. Qed.

(* ---------- table facts ---------- *)

Lemma assoc_map_in {A B} (eqb: A -> A -> bool) (k: A) (l: list (A * B)) v :
  assoc eqb k l = Some v -> exists k', In (k', v) l /\ eqb k k' = true.
Proof.
  induction l as [|[a b] l IH]; cbn [assoc]; [discriminate|].
  destruct (eqb k a) eqn:E.
  - intros H. inversion H; subst. exists a. split; [left; reflexivity|exact E].
  - intros H. destruct (IH H) as (k' & Hin & Hk). exists k'. split; [right; exact Hin|exact Hk].
Qed.

Lemma lookup3_in {B C} (k: tkey) (l: list (tkey * B * C)) b c :
  lookup3 k l = Some (b, c) -> exists k', In (k', b, c) l /\ tkey_eqb k k' = true.
Proof.
  unfold lookup3. intros H. destruct (assoc_map_in _ _ _ _ H) as (k' & Hin & Hk).
  apply in_map_iff in Hin. destruct Hin as ([[k0 b0] c0] & E & Hin). cbn [fst snd] in E. inversion E; subst.
  eexists. split; [exact Hin|exact Hk].
Qed.

Definition enc_str_row_ok (x: tkey * enc_codec * enc_flags) : bool :=
  match x with (KStr n, EcOcts, fl) => ef_indef fl && negb (N.eqb n 0) | _ => true end.

Lemma enc_str_rows ce : forallb enc_str_row_ok (enc_type_map ce) = true.
Proof. destruct ce; vm_compute; reflexivity. Qed.

Lemma enc_str_flag ce n fl : lookup3 (KStr n) (enc_type_map ce) = Some (EcOcts, fl) -> ef_indef fl = true /\ n <> 0.
Proof.
  intros H. destruct (lookup3_in _ _ _ _ H) as (k' & Hin & Hk).
  pose proof (enc_str_rows ce) as Hall. rewrite forallb_forall in Hall. specialize (Hall _ Hin).
  destruct k'; try discriminate Hk. cbn [tkey_eqb] in Hk. apply N.eqb_eq in Hk. subst n0.
  cbn [enc_str_row_ok] in Hall. apply Bool.andb_true_iff in Hall. destruct Hall as [H1 H2].
  split; [exact H1|]. intros ->. discriminate H2.
Qed.

Definition dec_str_row_ok (x: tkey * dec_codec * dec_flags) : bool :=
  match x with (KStr n, DcStr, fl) => df_constructed fl | _ => true end.

Lemma dec_str_flag cd n fl : dec_ok cd -> lookup3 (KStr n) (dec_type_map cd) = Some (DcStr, fl) -> df_constructed fl = true.
Proof.
  intros Hcd H. destruct (lookup3_in _ _ _ _ H) as (k' & Hin & Hk).
  assert (Hall: forallb dec_str_row_ok (dec_type_map cd) = true) by (destruct Hcd as [-> | ->]; vm_compute; reflexivity).
  rewrite forallb_forall in Hall. specialize (Hall _ Hin).
  destruct k'; try discriminate Hk. exact Hall.
Qed.

(* ---------- segments ---------- *)

Lemma chunks_concat {A} : forall fuel (k: nat) (l: list A), (0 < k)%nat -> (length l < fuel)%nat ->
  concat (chunks fuel k l) = l.
Proof.
  induction fuel as [|f IH]; intros k l Hk Hf; [lia|].
  cbn [chunks]. destruct l as [|x l']; [reflexivity|].
  cbn [concat]. rewrite IH; [apply firstn_skipn|exact Hk|].
  rewrite skipn_length. cbn [length] in *. lia.
Qed.

Lemma chunks_nonempty {A} fuel (k: nat) (l: list A) : l <> [] -> chunks (S fuel) k l <> [].
Proof. destruct l; [congruence|]. cbn [chunks]. discriminate. Qed.

Lemma fold_err {A} (g: res bytes -> A -> res bytes) (Hg: forall e x, g (Err e) x = Err e) :
  forall l e, fold_left g l (Err e) = Err e.
Proof. induction l as [|x l IH]; intros e; [reflexivity|]. cbn [fold_left]. rewrite Hg. apply IH. Qed.

Lemma fold_pieces {A} (tagnum: N) (g: A -> bytes) : forall (pieces: list A) a0 s,
  fold_left (fun acc piece => do a <- acc; do p <- frame_piece tagnum (g piece); Ok (a ++ p)) pieces (Ok a0) = Ok s ->
  exists ps, Forall2 (fun piece p => frame_piece tagnum (g piece) = Ok p) pieces ps /\ s = a0 ++ concat ps.
Proof.
  induction pieces as [|x l IH]; intros a0 s H; cbn [fold_left] in H.
  - inversion H; subst. exists []. split; [constructor|]. rewrite app_nil_r. reflexivity.
  - cbn [bind] in H. destruct (frame_piece tagnum (g x)) as [p|e] eqn:Ep; cbn [bind] in H.
    + destruct (IH _ _ H) as (ps & HF & ->). exists (p :: ps). split; [constructor; assumption|].
      cbn [concat]. rewrite app_assoc. reflexivity.
    + rewrite fold_err in H; [discriminate|reflexivity].
Qed.

Lemma frame_piece_facts n content p : frame_piece n content = Ok p -> n <> 0 ->
  (length content + 2 <= length p)%nat /\ hd 0 p <> 0.
Proof.
  unfold frame_piece. intros H Hn.
  destruct (frame_one_facts _ _ _ _ _ _ H) as (F1 & _ & F3); [right; exact Hn|]. split; assumption.
Qed.

Lemma pieces_length {A} n (g: A -> bytes) pieces ps : n <> 0 ->
  Forall2 (fun piece p => frame_piece n (g piece) = Ok p) pieces ps ->
  (2 * length pieces <= length (concat ps))%nat.
Proof.
  intros Hn. induction 1 as [|x p l ps Hp _ IH]; [cbn; lia|].
  destruct (frame_piece_facts _ _ _ Hp Hn) as [F _]. cbn [length concat]. rewrite app_length. lia.
Qed.

Lemma Forall2_in_r {A B} (P: A -> B -> Prop) l1 l2 y : Forall2 P l1 l2 -> In y l2 -> exists x, In x l1 /\ P x y.
Proof.
  induction 1 as [|a b l1 l2 Hab _ IH]; intros Hin; [destruct Hin|].
  destruct Hin as [->|Hin]; [exists a; split; [left; reflexivity|exact Hab]|].
  destruct (IH Hin) as (x & Hx & Hp). exists x. split; [right; exact Hx|exact Hp].
Qed.

Lemma in_concat_le {A} (p: list A) ps : In p ps -> (length p <= length (concat ps))%nat.
Proof.
  induction ps as [|q ps IH]; intros Hin; [destruct Hin|]. cbn [concat]. rewrite app_length.
  destruct Hin as [->|Hin]; [lia|]. specialize (IH Hin). lia.
Qed.

Lemma Forall2_impl_in {A B} (P Q: A -> B -> Prop) l1 l2 :
  (forall x y, In y l2 -> P x y -> Q x y) -> Forall2 P l1 l2 -> Forall2 Q l1 l2.
Proof.
  intros HPQ HF. induction HF as [|a b l1 l2 Hab HF IH]; constructor.
  - apply HPQ; [left; reflexivity|exact Hab].
  - apply IH. intros x y Hin. apply HPQ. right. exact Hin.
Qed.

(* ---------- one fragment ---------- *)

Lemma by_type_octs cd : dec_ok cd -> exists fl, by_type cd TOcts = Some (DcOcts, fl) /\ df_constructed fl = true.
Proof. intros [-> | ->]; (eexists; split; [vm_compute; reflexivity | vm_compute; reflexivity]). Qed.

Lemma by_type_bits cd : dec_ok cd -> exists fl, by_type cd TBits = Some (DcBits, fl) /\ df_constructed fl = true.
Proof. intros [-> | ->]; (eexists; split; [vm_compute; reflexivity | vm_compute; reflexivity]). Qed.

(* a primitive OCTET STRING segment, read with the fragment collector in force *)
Lemma frag_octets cd f piece p ae : dec_ok cd ->
  frame_piece 4 piece = Ok p -> N.of_nat (length p) <= index_max -> (length p <= f)%nat ->
  frag_o (dec_call cd f) ae piece p.
Proof.
  intros Hcd Hp Hmax Hf.
  destruct (frame_piece_facts 4 piece p Hp ltac:(discriminate)) as [Fl Fh].
  split; [|lia].
  destruct (by_type_octs cd Hcd) as (fl & Hby & _).
  destruct f as [|f']; [lia|].
  apply ae_any; [apply dec_ok_indef; exact Hcd|lia|exact Fh|].
  unfold frame_piece in Hp.
  apply (match_level_g cd f' TOcts [] (utag false 4) false true piece p _ DcOcts fl true Hp).
  - reflexivity.
  - reflexivity.
  - exact Hby.
  - cbn. lia.
  - cbn [dec_value base_of]. rewrite wire_false. apply consumes_octets; [reflexivity|split; lia|reflexivity].
Qed.

(* a primitive BIT STRING segment: a BIT STRING value of its own *)
Lemma frag_bits cd f piece p ae : dec_ok cd ->
  frame_piece 3 (enc_bits_prim piece) = Ok p -> N.of_nat (length p) <= index_max -> (length p <= f)%nat ->
  frag_b (dec_call cd f) ae piece p.
Proof.
  intros Hcd Hp Hmax Hf.
  destruct (frame_piece_facts 3 _ p Hp ltac:(discriminate)) as [Fl Fh].
  split; [|lia].
  destruct (by_type_bits cd Hcd) as (fl & Hby & _).
  destruct f as [|f']; [lia|].
  apply ae_any; [apply dec_ok_indef; exact Hcd|lia|exact Fh|].
  unfold frame_piece in Hp.
  apply (match_level_g cd f' TBits [] (utag false 3) false true (enc_bits_prim piece) p _ DcBits fl false Hp).
  - reflexivity.
  - reflexivity.
  - exact Hby.
  - cbn. lia.
  - cbn [dec_value]. rewrite wire_false. unfold enc_bits_prim in *.
    apply consumes_bits; [reflexivity|split; lia|reflexivity|pose proof (pad_of_lt (length piece)); lia|apply bits_roundtrip].
Qed.

(* ---------- what the value decoder must do with the contents octets, per mode ---------- *)

Definition val_consumes (cd: codec) (f0: nat) (dcd: dec_codec) (dfl: dec_flags) (T: ty) (ts: tagset)
           (d cns: bool) (content: bytes) (vdec: val) : Prop :=
  if cns && negb d
  then consumes (dec_value (dec_call cd f0) f0 dcd dfl (Some T) ts None false) (content ++ [0; 0]) (DV T vdec)
  else consumes (dec_value (dec_call cd f0) f0 dcd dfl (Some T) ts (Some (N.of_nat (length content))) false) content (DV T vdec).

Definition dec_leaf (cd: codec) (T: ty) (content: bytes) (vdec: val) : Prop :=
  exists dcd dfl, by_type cd T = Some (dcd, dfl)
    /\ forall f ts, tag0_simple ts = true -> fits f content ->
       consumes (dec_value (dec_call cd f) f dcd dfl (Some T) ts (Some (N.of_nat (length content))) false)
                content (DV T vdec).

Lemma leaf_ok_dec ce cd T v content vdec : leaf_ok ce cd T v content vdec -> dec_leaf cd T content vdec.
Proof. intros [_ H]. exact H. Qed.

(* the conclusion every simple type establishes *)
Definition leaf_goal (cd: codec) (d: bool) (T: ty) (v: val) (content: bytes) (cns: bool) : Prop :=
  exists dcd dfl vdec, by_type cd T = Some (dcd, dfl) /\ abs T vdec = abs T v /\
    forall f0 t0 r, tcon t0 = false -> N.of_nat (length content) <= index_max -> (length content + 2 <= f0)%nat ->
      val_consumes cd f0 dcd dfl T (wire t0 cns :: r) d cns content vdec.

Lemma prim_goal cd d T v content vdec : dec_leaf cd T content vdec -> abs T vdec = abs T v ->
  leaf_goal cd d T v content false.
Proof.
  intros (dcd & dfl & Hby & Hval) Habs. exists dcd, dfl, vdec. split; [exact Hby|]. split; [exact Habs|].
  intros f0 t0 r Hc0 Hmax Hf. unfold val_consumes. cbn [andb].
  apply Hval; [|split; lia]. rewrite wire_false. unfold tag0_simple. rewrite Hc0. reflexivity.
Qed.

Lemma eoo_ok_call cd f : dec_ok cd -> eoo_ok (dec_call cd (S f)).
Proof. intros Hcd sp sfun s tl Hav. exact (eoo_read cd f sp [] None sfun s tl (dec_ok_indef cd Hcd) Hav). Qed.

Lemma wire_true_not_simple t0 r : tag0_simple (wire t0 true :: r) = false.
Proof. unfold tag0_simple, wire. cbn [tcon]. rewrite Bool.orb_true_r. reflexivity. Qed.

(* segmented OCTET STRING / character string contents, definite or indefinite *)
Lemma chunked_octets_consumes cd f0 dcd dfl T ts d bs pieces ps :
  dec_ok cd -> (dcd = DcOcts \/ dcd = DcStr) -> df_constructed dfl = true -> tag0_simple ts = false ->
  (forall proto, create (Some T) proto ts (VOcts bs) = Ret (DV T (VOcts bs))) ->
  concat pieces = bs -> Forall2 (fun piece p => frame_piece 4 piece = Ok p) pieces ps ->
  N.of_nat (length (concat ps)) <= index_max -> (length (concat ps) + 2 <= f0)%nat ->
  val_consumes cd f0 dcd dfl T ts d true (concat ps) (VOcts bs).
Proof.
  intros Hcd Hdcd Hcf Hts Hcreate Hcat HF Hmax Hf.
  destruct f0 as [|f']; [lia|].
  pose proof (pieces_length 4 (fun x => x) pieces ps ltac:(discriminate) HF) as Hcount.
  assert (Hfr: forall ae, Forall2 (frag_o (dec_call cd (S f')) ae) pieces ps).
  { intros ae. apply (Forall2_impl_in _ _ _ _ (fun piece p Hin Hp =>
      frag_octets cd (S f') piece p ae Hcd Hp
        ltac:(pose proof (in_concat_le p ps Hin); lia) ltac:(pose proof (in_concat_le p ps Hin); lia)) HF). }
  set (proto := match base_of T with TStr n => TStr n | _ => TOcts end).
  unfold val_consumes. destruct d; cbn [andb negb].
  - (* definite: the loop runs until the announced length is used up *)
    intros s tl Hav.
    assert (Hdv: dec_value (dec_call cd (S f')) (S f') dcd dfl (Some T) ts (Some (N.of_nat (length (concat ps)))) false
                 = dec_octets (dec_call cd (S f')) (S f') proto dfl (Some T) ts
                              (N.of_nat (length (concat ps))) false)
      by (destruct Hdcd as [-> | ->]; reflexivity).
    rewrite Hdv. unfold dec_octets. rewrite Hts, Hcf. cbn [negb]. rewrite resume_tell.
    destruct (octets_loop_run (dec_call cd (S f')) proto (Some T) ts pieces ps (Hfr false) (S f') [] (pos s)
                (length (concat ps)) s tl ltac:(lia) Hav ltac:(lia) ltac:(lia)) as (s' & Hrun & Hpos & Harr & Hcl).
    exists s'. rewrite Hrun. cbn [app]. rewrite Hcat, Hcreate. cbn [resume]. repeat split; assumption.
  - (* indefinite: the loop runs until end-of-octets *)
    intros s tl Hav. rewrite <- app_assoc in Hav.
    assert (Hdv: dec_value (dec_call cd (S f')) (S f') dcd dfl (Some T) ts None false
                 = dec_octets_indef (dec_call cd (S f')) (S f') proto (Some T) ts)
      by (destruct Hdcd as [-> | ->]; reflexivity).
    rewrite Hdv. unfold dec_octets_indef.
    destruct (octets_indef_run (dec_call cd (S f')) (eoo_ok_call cd f' Hcd) proto (Some T) ts pieces ps (Hfr true) (S f') []
                s tl ltac:(lia) Hav) as (s' & Hrun & Hpos & Harr & Hcl).
    exists s'. rewrite Hrun. cbn [app]. rewrite Hcat, Hcreate. cbn [resume]. rewrite app_length. cbn [length].
    repeat split; try assumption. lia.
Qed.

(* segmented BIT STRING contents, definite or indefinite *)
Lemma chunked_bits_consumes cd f0 dfl T ts d bs pieces ps :
  dec_ok cd -> df_constructed dfl = true -> tag0_simple ts = false -> base_of T = TBits ->
  concat pieces = bs -> pieces <> [] ->
  Forall2 (fun piece p => frame_piece 3 (enc_bits_prim piece) = Ok p) pieces ps ->
  N.of_nat (length (concat ps)) <= index_max -> (length (concat ps) + 2 <= f0)%nat ->
  val_consumes cd f0 DcBits dfl T ts d true (concat ps) (VBits bs).
Proof.
  intros Hcd Hcf Hts Hb Hcat Hne HF Hmax Hf.
  destruct f0 as [|f']; [lia|].
  pose proof (pieces_length 3 enc_bits_prim pieces ps ltac:(discriminate) HF) as Hcount.
  assert (Hfr: forall ae, Forall2 (frag_b (dec_call cd (S f')) ae) pieces ps).
  { intros ae. apply (Forall2_impl_in _ _ _ _ (fun piece p Hin Hp =>
      frag_bits cd (S f') piece p ae Hcd Hp
        ltac:(pose proof (in_concat_le p ps Hin); lia) ltac:(pose proof (in_concat_le p ps Hin); lia)) HF). }
  assert (Hcreate: create (Some T) TBits ts (VBits bs) = Ret (DV T (VBits bs))) by (unfold create; rewrite Hb; reflexivity).
  unfold val_consumes. destruct d; cbn [andb negb].
  - intros s tl Hav. cbn [dec_value]. unfold dec_bits.
    destruct (N.eqb_spec (N.of_nat (length (concat ps))) 0) as [E|_].
    { destruct pieces as [|x l]; [congruence|]. cbn [length] in Hcount. lia. }
    rewrite Hts, Hcf. cbn [negb]. rewrite resume_tell.
    destruct (bits_loop_run (dec_call cd (S f')) (Some T) ts pieces ps (Hfr false) (S f') [] (pos s)
                (length (concat ps)) s tl ltac:(lia) Hav ltac:(lia) ltac:(lia)) as (s' & Hrun & Hpos & Harr & Hcl).
    exists s'. rewrite Hrun. cbn [app]. rewrite Hcat, Hcreate. cbn [resume]. repeat split; assumption.
  - intros s tl Hav. rewrite <- app_assoc in Hav. cbn [dec_value]. unfold dec_bits_indef.
    destruct (bits_indef_run (dec_call cd (S f')) (eoo_ok_call cd f' Hcd) (Some T) ts pieces ps (Hfr true) (S f') []
                s tl ltac:(lia) Hav) as (s' & Hrun & Hpos & Harr & Hcl).
    exists s'. rewrite Hrun. cbn [app]. rewrite Hcat, Hcreate. cbn [resume]. rewrite app_length. cbn [length].
    repeat split; try assumption. lia.
Qed.

(* ---------- the encoder's side of the string types ---------- *)

Lemma enc_octets_like_cases o b content cns : enc_octets_like o (VOcts b) = Ok (content, cns) ->
  (cns = false /\ content = b) \/
  (cns = true /\ exists pieces ps, concat pieces = b /\ Forall2 (fun piece p => frame_piece 4 piece = Ok p) pieces ps
                                  /\ content = concat ps).
Proof.
  unfold enc_octets_like. cbn [octets_of].
  destruct (N.eqb (o_chunk o) 0 || Nat.leb (length b) (N.to_nat (o_chunk o)))%bool eqn:Ec.
  - intros H. inversion H; subst. left. split; reflexivity.
  - apply Bool.orb_false_iff in Ec. destruct Ec as [Ek _]. apply N.eqb_neq in Ek.
    cbn [enc_string_chunked].
    destruct (fold_left _ _ _) as [s|e] eqn:Ef; cbn [bind]; [|discriminate].
    intros H. inversion H; subst. right. split; [reflexivity|].
    destruct (fold_pieces 4 (fun x => x) _ _ _ Ef) as (ps & HF & ->).
    exists (chunks (S (length b)) (N.to_nat (o_chunk o)) b), ps.
    split; [apply chunks_concat; lia|]. split; [exact HF|reflexivity].
Qed.

Lemma enc_bits_cases o bs content cns : enc_bits o bs = Ok (content, cns) ->
  (cns = false /\ content = enc_bits_prim bs) \/
  (cns = true /\ exists pieces ps, concat pieces = bs /\ pieces <> []
                   /\ Forall2 (fun piece p => frame_piece 3 (enc_bits_prim piece) = Ok p) pieces ps
                   /\ content = concat ps).
Proof.
  unfold enc_bits. cbv zeta.
  destruct (N.eqb (o_chunk o) 0 || Nat.leb (length bs + pad_of (length bs)) (N.to_nat (o_chunk o) * 8))%bool eqn:Ec.
  - intros H. inversion H; subst. left. split; reflexivity.
  - apply Bool.orb_false_iff in Ec. destruct Ec as [Ek El]. apply N.eqb_neq in Ek. apply Nat.leb_gt in El.
    destruct (fold_left _ _ _) as [s|e] eqn:Ef; cbn [bind]; [|discriminate].
    intros H. inversion H; subst. right. split; [reflexivity|].
    destruct (fold_pieces 3 enc_bits_prim _ _ _ Ef) as (ps & HF & ->).
    exists (chunks (S (length bs)) (N.to_nat (o_chunk o) * 8) bs), ps.
    split; [apply chunks_concat; lia|]. split; [|split; [exact HF|reflexivity]].
    apply chunks_nonempty. intros ->. cbn in El. lia.
Qed.

(* ---------- every simple type, every mode ---------- *)

Definition six (T: ty) : bool :=
  match base_of T with TBool | TInt | TEnum | TNull | TOid | TReal => true | _ => false end.

(* the definite-mode encoder whose contents octets the given encoder shares *)
Definition ce0 (ce: codec) : codec := match ce with BER => BER | _ => DER end.
Lemma ce0_ok ce : enc_ok (ce0 ce). Proof. destruct ce; [left|right|right]; reflexivity. Qed.

Lemma bool_compat_ce0 ce cd b : bool_compat ce cd b = true -> bool_compat (ce0 ce) cd b = true.
Proof. destruct ce; intros H; try exact H; reflexivity. Qed.

Lemma leaf_modes ce cd d k T v ec fl content cns :
  dec_ok cd -> stage1_val ce cd T v = true ->
  concrete_encoder ce T = Ok (ec, fl) -> enc_content ce T ec fl (mo d k) v = Ok (content, cns) ->
  (six T = true -> cns = false) /\ (six T = false -> ef_indef fl = true) /\ leaf_goal cd d T v content cns.
Proof.
  intros Hcd Hs Hce Hcont.
  rewrite concrete_encoder_base in Hce. rewrite enc_content_base in Hcont.
  unfold stage1_val in Hs. unfold six.
  pose proof (ce0_ok ce) as Hce0.
  destruct (base_of T) eqn:Hb; destruct v as [bb|z|bs|bo|cs| |arcs|r|vfs|xs|i x|ab]; try discriminate Hs.
  - (* BOOLEAN *)
    assert (Hc: cns = false /\ content = [bool_octet (ce0 ce) bb]).
    { destruct ce; vm_compute in Hce; inversion Hce; subst ec fl; cbn [enc_content] in Hcont; inversion Hcont; subst;
        (split; [reflexivity|destruct bb; reflexivity]). }
    destruct Hc as [-> ->].
    split; [reflexivity|]. split; [discriminate|].
    apply (prim_goal cd d T _ _ (VBool bb)); [|reflexivity].
    exact (leaf_ok_dec _ _ _ _ _ _ (leaf_bool (ce0 ce) cd T bb Hce0 Hb (bool_compat_ce0 ce cd bb Hs))).
  - (* INTEGER *)
    assert (Hc: cns = false /\ content = enc_integer false z).
    { destruct ce; vm_compute in Hce; inversion Hce; subst ec fl; cbn [enc_content ef_compact_zero] in Hcont; inversion Hcont; subst;
        (split; reflexivity). }
    destruct Hc as [-> ->].
    split; [reflexivity|]. split; [discriminate|].
    apply (prim_goal cd d T _ _ (VInt z)); [|reflexivity].
    exact (leaf_ok_dec _ _ _ _ _ _ (leaf_int (ce0 ce) cd T z Hce0 (or_introl Hb))).
  - (* ENUMERATED *)
    assert (Hc: cns = false /\ content = enc_integer false z).
    { destruct ce; vm_compute in Hce; inversion Hce; subst ec fl; cbn [enc_content ef_compact_zero] in Hcont; inversion Hcont; subst;
        (split; reflexivity). }
    destruct Hc as [-> ->].
    split; [reflexivity|]. split; [discriminate|].
    apply (prim_goal cd d T _ _ (VInt z)); [|reflexivity].
    exact (leaf_ok_dec _ _ _ _ _ _ (leaf_int (ce0 ce) cd T z Hce0 (or_intror Hb))).
  - (* BIT STRING *)
    assert (Hc: ef_indef fl = true /\ exists o', enc_bits o' bs = Ok (content, cns)).
    { destruct ce; vm_compute in Hce; inversion Hce; subst ec fl; cbn [enc_content] in Hcont; (split; [reflexivity|]); eexists; exact Hcont. }
    destruct Hc as [Hsi [o' Hc]].
    split; [discriminate|]. split; [intros _; exact Hsi|].
    destruct (enc_bits_cases _ _ _ _ Hc) as [[-> ->]|(-> & pieces & ps & Hcat & Hne & HF & ->)].
    + apply (prim_goal cd d T _ _ (VBits bs)); [|reflexivity].
      exact (leaf_ok_dec _ _ _ _ _ _ (leaf_bits (ce0 ce) cd T bs Hce0 Hb)).
    + destruct (by_type_bits cd Hcd) as (dfl & Hby & Hcf).
      exists DcBits, dfl, (VBits bs). split; [rewrite by_type_base, Hb; exact Hby|]. split; [reflexivity|].
      intros f0 t0 r Hc0 Hmax Hf.
      apply (chunked_bits_consumes cd f0 dfl T _ d bs pieces ps Hcd Hcf (wire_true_not_simple t0 r) Hb Hcat Hne HF Hmax Hf).
  - (* OCTET STRING *)
    assert (Hc: ef_indef fl = true /\ exists o', enc_octets_like o' (VOcts bo) = Ok (content, cns)).
    { destruct ce; vm_compute in Hce; inversion Hce; subst ec fl; cbn [enc_content] in Hcont; (split; [reflexivity|]); eexists; exact Hcont. }
    destruct Hc as [Hsi [o' Hc]].
    split; [discriminate|]. split; [intros _; exact Hsi|].
    destruct (enc_octets_like_cases _ _ _ _ Hc) as [[-> ->]|(-> & pieces & ps & Hcat & HF & ->)].
    + apply (prim_goal cd d T _ _ (VOcts bo)); [|reflexivity].
      exact (leaf_ok_dec _ _ _ _ _ _ (leaf_octets (ce0 ce) cd T bo Hce0 Hb)).
    + destruct (by_type_octs cd Hcd) as (dfl & Hby & Hcf).
      exists DcOcts, dfl, (VOcts bo). split; [rewrite by_type_base, Hb; exact Hby|]. split; [reflexivity|].
      intros f0 t0 r Hc0 Hmax Hf.
      apply (chunked_octets_consumes cd f0 DcOcts dfl T _ d bo pieces ps Hcd (or_introl eq_refl) Hcf (wire_true_not_simple t0 r));
        try assumption.
      intros proto. unfold create. rewrite Hb. reflexivity.
  - (* NULL *)
    assert (Hc: cns = false /\ content = []).
    { destruct ce; vm_compute in Hce; inversion Hce; subst ec fl; cbn [enc_content] in Hcont; inversion Hcont; subst;
        (split; reflexivity). }
    destruct Hc as [-> ->].
    split; [reflexivity|]. split; [discriminate|].
    apply (prim_goal cd d T _ _ VNull); [|reflexivity].
    exact (leaf_ok_dec _ _ _ _ _ _ (leaf_null (ce0 ce) cd T Hce0 Hb)).
  - (* OBJECT IDENTIFIER *)
    assert (Hc: cns = false /\ enc_oid arcs = Ok content).
    { destruct ce; vm_compute in Hce; inversion Hce; subst ec fl; cbn [enc_content] in Hcont;
        (destruct (enc_oid arcs) as [c0|]; cbn [bind] in Hcont; [|discriminate]); inversion Hcont; subst; (split; reflexivity). }
    destruct Hc as [-> Eo].
    split; [reflexivity|]. split; [discriminate|].
    apply (prim_goal cd d T _ _ (VOid arcs)); [|reflexivity].
    exact (leaf_ok_dec _ _ _ _ _ _ (leaf_oid (ce0 ce) cd T arcs content Hce0 Hb Eo)).
  - (* REAL *)
    assert (Hc: cns = false /\ enc_real r = Ok content).
    { destruct ce; vm_compute in Hce; inversion Hce; subst ec fl; cbn [enc_content] in Hcont;
        (destruct (enc_real r) as [c0|]; cbn [bind] in Hcont; [|discriminate]); inversion Hcont; subst; (split; reflexivity). }
    destruct Hc as [-> Er].
    split; [reflexivity|]. split; [discriminate|].
    destruct r as [| |m e|m e|]; try discriminate Hs.
    + destruct real_roundtrip_special as [[E1 D1] _]. rewrite E1 in Er. inversion Er; subst.
      apply (prim_goal cd d T _ _ (VReal RPInf)); [|reflexivity].
      exact (leaf_ok_dec _ _ _ _ _ _ (leaf_real (ce0 ce) cd T RPInf [64] RPInf Hce0 Hb E1 D1)).
    + destruct real_roundtrip_special as [_ [[E1 D1] _]]. rewrite E1 in Er. inversion Er; subst.
      apply (prim_goal cd d T _ _ (VReal RNInf)); [|reflexivity].
      exact (leaf_ok_dec _ _ _ _ _ _ (leaf_real (ce0 ce) cd T RNInf [65] RNInf Hce0 Hb E1 D1)).
    + assert (Hm: m <> 0%Z) by (destruct (Z.eqb_spec m 0); [discriminate|assumption]).
      destruct (real_roundtrip_bin m e content Hm Er) as (r' & Hd & Habs).
      apply (prim_goal cd d T _ _ (VReal r')).
      * exact (leaf_ok_dec _ _ _ _ _ _ (leaf_real (ce0 ce) cd T _ content r' Hce0 Hb Er Hd)).
      * rewrite (abs_wrappers T (VReal r')), (abs_wrappers T (VReal (RBin m e))), Hb. cbn [abs]. rewrite Habs. reflexivity.
  - (* character and useful strings *)
    apply Bool.andb_true_iff in Hs. destruct Hs as [Hk Hok].
    destruct (str_octets_ok n bo) as [[|]|] eqn:Eok; try discriminate.
    unfold known_string in Hk. apply Bool.andb_true_iff in Hk. destruct Hk as [Hk1 Hk2].
    destruct (lookup3 (KStr n) (enc_type_map ce)) as [[ec' ef]|] eqn:Ele; [|discriminate].
    destruct (lookup3 (KStr n) (dec_type_map cd)) as [[dc df]|] eqn:Eld; [|discriminate].
    destruct ec'; try discriminate. destruct dc; try discriminate.
    unfold concrete_encoder in Hce. cbn [key_of base_of] in Hce. rewrite Ele in Hce. inversion Hce; subst ec fl; clear Hce.
    destruct (enc_str_flag ce n ef Ele) as [Hsi _].
    cbn [enc_content] in Hcont.
    split; [discriminate|]. split; [intros _; exact Hsi|].
    destruct (enc_octets_like_cases _ _ _ _ Hcont) as [[-> ->]|(-> & pieces & ps & Hcat & HF & ->)].
    + apply (prim_goal cd d T _ _ (VOcts bo)); [|reflexivity].
      exact (leaf_ok_dec _ _ _ _ _ _ (leaf_string (ce0 ce) cd T n bo ef df Hb Eok
               ltac:(destruct ce; exact Ele) Eld)).
    + exists DcStr, df, (VOcts bo). split.
      { rewrite by_type_base, Hb. unfold by_type. cbn [key_of base_of]. rewrite Eld. reflexivity. }
      split; [reflexivity|].
      intros f0 t0 r Hc0 Hmax Hf.
      apply (chunked_octets_consumes cd f0 DcStr df T _ d bo pieces ps Hcd (or_intror eq_refl)
               (dec_str_flag cd n df Hcd Eld) (wire_true_not_simple t0 r)); try assumption.
      intros proto. unfold create. rewrite Hb, Eok. reflexivity.
Qed.

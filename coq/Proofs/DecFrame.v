(* Decoding what the encoder's framing wrote: one explicit-tag level at a time. *)
From Coq Require Import Lia.
From PV Require Import Base.Bytes Model.Tag Model.Types Model.Proc Model.Enc Model.Dec
     Proofs.ProcBind Proofs.RunLemmas Proofs.TagOctets Proofs.DecHeader.
Local Open Scope N_scope.

(* running p on a stream that starts with bs yields v and consumes exactly bs, whatever follows *)
Definition consumes (p: proc dval) (bs: bytes) (v: dval) : Prop :=
  forall s tl, avail s = bs ++ tl ->
  exists s', resume p s = inr (Ok v, s') /\ pos s' = (pos s + length bs)%nat
             /\ arrived s' = arrived s /\ closed s' = closed s.

Lemma consumes_avail (bs: bytes) s tl s' : avail s = bs ++ tl ->
  pos s' = (pos s + length bs)%nat -> arrived s' = arrived s -> avail s' = tl.
Proof.
  intros Hav Hp Ha. unfold avail in *. rewrite Hp, Ha.
  rewrite skipn_add, Hav. apply skipn_app_exact.
Qed.

Definition wire (t: tag) (cns: bool) : tag := mkTag (tcls t) (tcon t || cns) (tnum t).

Lemma avail_setmark s m : avail (setmark s m) = avail s. Proof. reflexivity. Qed.

(* one header: the decoder entry point reads the identifier and (definite) length octets the encoder
   wrote and arrives at the dispatch with the tag prepended and the announced length *)
Lemma dec_call_header : forall c f sp acc sfun t cns n l body s,
  enc_len n false = Ok l ->
  avail s = enc_tag t cns ++ l ++ body ->
  (length (enc_tag t cns) <= S f)%nat ->
  resume (dec_call c (S f) sp acc None false sfun) s =
  resume (dispatch c (dec_call c f) f sp (wire t cns :: acc) (Some n) sfun)
         (adv (setmark s (pos s)) (length (enc_tag t cns) + length l)).
Proof.
  intros c f sp acc sfun t cns n l body s Hl Hav Hlen.
  cbn [dec_call]. unfold dec_body. cbn [andb]. cbn [resume].
  set (s0 := setmark s (pos s)).
  assert (Hav0: avail s0 = enc_tag t cns ++ l ++ body) by exact Hav.
  pose proof (dec_enc_tag t cns (l ++ body)) as Hid.
  assert (Hcons: (length (enc_tag t cns ++ l ++ body) - length (l ++ body))%nat = length (enc_tag t cns)).
  { rewrite app_length. lia. }
  rewrite (resume_read_tag f (enc_tag t cns ++ l ++ body) (wire t cns) (l ++ body) s0 _ Hid Hav0) by (rewrite Hcons; exact Hlen).
  rewrite Hcons.
  pose proof (dec_enc_len n l body Hl) as Hdl.
  assert (Hav1: avail (adv s0 (length (enc_tag t cns))) = l ++ body) by (apply (avail_app_adv _ _ _ Hav0)).
  rewrite (resume_read_length c (l ++ body) (Some n) body _ _ Hdl Hav1) by discriminate.
  rewrite adv_adv. f_equal. f_equal. rewrite app_length. lia.
Qed.

Lemma wire_false t : wire t false = t.
Proof. destruct t as [c f n]. unfold wire. cbn. rewrite Bool.orb_false_r. reflexivity. Qed.

(* one EXPLICIT tag level in definite-length form: the decoder does not know the tag set yet, takes
   the constructed non-universal tag for an explicit wrapper, re-enters with the tag accumulated and
   finally checks that exactly the announced number of octets was consumed *)
Lemma explicit_level : forall c f T acc0 t si inner b v,
  frame_one t false true si inner = Ok b ->
  tcon t = true -> tcls t <> Univ ->
  tagset_eqb (t :: acc0) (tagset_of' T) = false ->
  tm_contains (tagmap_of T) (t :: acc0) = false ->
  (length (enc_tag t false) <= S f)%nat ->
  consumes (dec_call c f (STy T) (t :: acc0) None false false) inner v ->
  consumes (dec_call c (S f) (STy T) acc0 None false false) b v.
Proof.
  intros c f T acc0 t si inner b v Hfr Hcon Hcls Hne Hnm Hlen Hin s tl Hav.
  unfold frame_one in Hfr. cbn [negb andb] in Hfr.
  destruct (enc_len (N.of_nat (length inner)) false) as [l|e] eqn:El; cbn [bind] in Hfr; [|discriminate].
  inversion Hfr; subst b; clear Hfr. rewrite app_nil_r in Hav. rewrite <- !app_assoc in Hav.
  rewrite (dec_call_header c f (STy T) acc0 false t false _ l (inner ++ tl) s El Hav Hlen).
  rewrite wire_false.
  set (s1 := adv (setmark s (pos s)) (length (enc_tag t false) + length l)).
  assert (Hav1: avail s1 = inner ++ tl).
  { subst s1. rewrite avail_adv, avail_setmark, Hav. rewrite app_assoc.
    rewrite <- app_length. apply skipn_app_exact. }
  assert (Hp1: pos s1 = (pos s + (length (enc_tag t false) + length l))%nat) by reflexivity.
  assert (Ha1: arrived s1 = arrived s) by reflexivity.
  assert (Hc1: closed s1 = closed s) by reflexivity.
  clearbody s1.
  unfold dispatch. rewrite Hne, Hnm. cbn [orb]. rewrite Hcon. cbn [andb].
  assert (Hnu: negb (cls_eqb (tcls t) Univ) = true) by (destruct (tcls t); [congruence|reflexivity|reflexivity|reflexivity]).
  rewrite Hnu. rewrite resume_tell.
  unfold dec_raw.
  destruct (Hin s1 tl Hav1) as (s2 & Hrun & Hpos & Harr & Hcl).
  rewrite (resume_pbind_done _ _ _ _ _ Hrun). rewrite resume_tell.
  rewrite Hpos. rewrite (Nat.add_comm (pos s1)), Nat.add_sub.
  rewrite N.eqb_refl. cbn [resume].
  exists s2. split; [reflexivity|].
  rewrite !app_length. cbn [length]. repeat split; [lia|congruence|congruence].
Qed.

(* the level at which the accumulated tags are the type's tag set: the value decoder chosen by type
   is run on exactly the contents octets *)
Lemma match_level : forall c f T acc0 t0 cns si content b v cd fl,
  frame_one t0 cns true si content = Ok b ->
  tagset_eqb (wire t0 cns :: acc0) (tagset_of' T) = true ->
  tm_postponed (tagmap_of T) = false ->
  by_type c T = Some (cd, fl) ->
  (length (enc_tag t0 cns) <= S f)%nat ->
  consumes (dec_value (dec_call c f) f cd fl (Some T) (wire t0 cns :: acc0) (Some (N.of_nat (length content))) false) content v ->
  consumes (dec_call c (S f) (STy T) acc0 None false false) b v.
Proof.
  intros c f T acc0 t0 cns si content b v cd fl Hfr Heq Hpp Hby Hlen Hin s tl Hav.
  unfold frame_one in Hfr. cbn [negb andb] in Hfr.
  destruct (enc_len (N.of_nat (length content)) false) as [l|e] eqn:El; cbn [bind] in Hfr; [|discriminate].
  inversion Hfr; subst b; clear Hfr. rewrite app_nil_r in Hav. rewrite <- !app_assoc in Hav.
  rewrite (dec_call_header c f (STy T) acc0 false t0 cns _ l (content ++ tl) s El Hav Hlen).
  set (s1 := adv (setmark s (pos s)) (length (enc_tag t0 cns) + length l)).
  assert (Hav1: avail s1 = content ++ tl).
  { subst s1. rewrite avail_adv, avail_setmark, Hav. rewrite app_assoc.
    rewrite <- app_length. apply skipn_app_exact. }
  assert (Hp1: pos s1 = (pos s + (length (enc_tag t0 cns) + length l))%nat) by reflexivity.
  assert (Ha1: arrived s1 = arrived s) by reflexivity.
  assert (Hc1: closed s1 = closed s) by reflexivity.
  clearbody s1.
  unfold dispatch. rewrite Heq. cbn [orb]. rewrite Hpp, Hby. rewrite resume_tell.
  destruct (Hin s1 tl Hav1) as (s2 & Hrun & Hpos & Harr & Hcl).
  rewrite (resume_pbind_done _ _ _ _ _ Hrun). rewrite resume_tell.
  rewrite Hpos. rewrite (Nat.add_comm (pos s1)), Nat.add_sub.
  rewrite N.eqb_refl. cbn [resume].
  exists s2. split; [reflexivity|].
  rewrite !app_length. cbn [length]. repeat split; [lia|congruence|congruence].
Qed.

Lemma tagset_eqb_length : forall a b, tagset_eqb a b = true -> length a = length b.
Proof.
  induction a as [|x a IH]; intros [|y b] H; try discriminate; [reflexivity|].
  cbn in H. apply Bool.andb_true_iff in H. destruct H as [_ H]. cbn. f_equal. apply IH. exact H.
Qed.

(* the tag map of every type but the untagged CHOICE and ANY has the type's own tag set as only key *)
Definition plain_map (T: ty) : Prop := tagmap_of T = mkTmap [(tagset_of' T, T)] [] None false.

Lemma plain_map_contains T ts : plain_map T -> tagset_eqb ts (tagset_of' T) = false -> tm_contains (tagmap_of T) ts = false.
Proof.
  intros Hp Hne. rewrite Hp. unfold tm_contains, tm_find. cbn [tm_present tm_default assoc].
  rewrite Hne. reflexivity.
Qed.

Lemma frame_outer_snoc : forall r t c d si sub,
  frame_outer (r ++ [t]) c d si sub = (do s' <- frame_outer r c d si sub; frame_one t c d si s').
Proof.
  induction r as [|x r IH]; intros t c d si sub; cbn [app frame_outer].
  - cbn [bind]. destruct (frame_one t c d si sub); reflexivity.
  - destruct (frame_one x c d si sub) as [s1|e]; cbn [bind]; [apply IH|reflexivity].
Qed.

Definition explicit_like (t: tag) : Prop := tcon t = true /\ tcls t <> Univ.

(* all the EXPLICIT levels of a definite-length encoding, from the outermost inwards *)
Lemma peel_all : forall c T f si r acc0 sub b v,
  frame_outer r false true si sub = Ok b ->
  Forall explicit_like r ->
  Forall (fun t => (length (enc_tag t false) <= S f)%nat) r ->
  plain_map T ->
  length (tagset_of' T) = S (length r + length acc0) ->
  consumes (dec_call c f (STy T) (r ++ acc0) None false false) sub v ->
  consumes (dec_call c (f + length r) (STy T) acc0 None false false) b v.
Proof.
  intros c T f si r. induction r as [|tn r' IH] using rev_ind; intros acc0 sub b v Hfr Hex Hlen Hpm Hts Hin.
  - cbn [frame_outer] in Hfr. inversion Hfr; subst. cbn [length app] in *. rewrite Nat.add_0_r. exact Hin.
  - rewrite frame_outer_snoc in Hfr.
    destruct (frame_outer r' false true si sub) as [inner|e] eqn:Ein; cbn [bind] in Hfr; [|discriminate].
    apply Forall_app in Hex. destruct Hex as [Hex' Hexn]. inversion Hexn as [|? ? [Hcon Hcls] _]; subst.
    apply Forall_app in Hlen. destruct Hlen as [Hlen' Hlenn]. inversion Hlenn as [|? ? Hl _]; subst.
    rewrite app_length in *. cbn [length] in *.
    replace (f + (length r' + 1))%nat with (S (f + length r')) by lia.
    assert (Hmis: tagset_eqb (tn :: acc0) (tagset_of' T) = false).
    { destruct (tagset_eqb (tn :: acc0) (tagset_of' T)) eqn:E; [|reflexivity].
      apply tagset_eqb_length in E. cbn [length] in E. lia. }
    apply (explicit_level c (f + length r') T acc0 tn si inner b v Hfr Hcon Hcls Hmis (plain_map_contains T _ Hpm Hmis)); [lia|].
    apply (IH (tn :: acc0) sub inner v Ein Hex' Hlen' Hpm).
    + cbn [length]. lia.
    + rewrite <- app_assoc in Hin. exact Hin.
Qed.

(* Shape of a type's tag set: the base tag first, then one constructed non-universal tag per
   EXPLICIT tagging that survived (IMPLICIT tagging renames the outermost one). *)
From Coq Require Import Lia.
From PV Require Import Base.Bytes Model.Tag Model.Types Model.Proc Model.Enc Model.Dec Proofs.TagAlgebra Proofs.DecFrame.
Local Open Scope N_scope.

(* every tag written in the type is APPLICATION, CONTEXT or PRIVATE *)
Fixpoint wf_tags (T: ty) : bool :=
  match T with
  | TImp t x | TExp t x => negb (cls_eqb (tcls t) Univ) && wf_tags x
  | _ => true
  end.

Definition prim_base (T: ty) : bool :=
  match base_of T with
  | TBool | TInt | TEnum | TBits | TOcts | TNull | TOid | TReal | TStr _ => true
  | _ => false
  end.

Lemma last_app_singleton {X} (l: list X) (x: X) : rev (l ++ [x]) = x :: rev l.
Proof. rewrite rev_app_distr. reflexivity. Qed.

Lemma tag_implicitly_cons t0 r t : r <> [] ->
  exists r', tag_implicitly (t0 :: r) t = t0 :: r' /\ length r' = length r
             /\ (Forall explicit_like r -> tcls t <> Univ -> Forall explicit_like r').
Proof.
  intros Hne. destruct (exists_last Hne) as (r0 & lastt & ->).
  rewrite app_comm_cons. rewrite tag_implicitly_spec. cbn [app].
  exists (r0 ++ [mkTag (tcls t) (tcon lastt) (tnum t)]). split; [reflexivity|].
  split; [rewrite !app_length; reflexivity|].
  intros Hex Hcls. apply Forall_app in Hex. destruct Hex as [H0 Hl]. apply Forall_app. split; [exact H0|].
  constructor; [|constructor]. inversion Hl as [|? ? [Hc _] _]; subst. split; [exact Hc|exact Hcls].
Qed.

(* for a type over a simple (primitive) base: tag set = primitive base tag, then explicit-like tags *)
Lemma tagset_prim_shape : forall T, prim_base T = true -> wf_tags T = true ->
  exists t0 r, tagset_of T = Ok (t0 :: r) /\ tcon t0 = false /\ Forall explicit_like r /\ (length r < ty_depth T)%nat.
Proof.
  induction T as [| | | | | | | | n|fs IH|fs IH|t IH|t IH|alts IH| |tg x IH|tg x IH] using ty_ind';
    intros Hp Hw; try discriminate Hp;
    try (eexists; exists []; split; [reflexivity|split; [reflexivity|split; [constructor|cbn; lia]]]).
  - (* TImp *)
    cbn [wf_tags] in Hw. apply Bool.andb_true_iff in Hw. destruct Hw as [Hcl Hw].
    destruct (IH Hp Hw) as (t0 & r & Hts & Hc0 & Hex & Hd).
    cbn [tagset_of]. rewrite Hts. cbn [bind].
    destruct r as [|r1 r'].
    + exists (mkTag (tcls tg) (tcon t0) (tnum tg)), []. split; [reflexivity|split; [exact Hc0|split; [constructor|cbn [ty_depth length]; lia]]].
    + destruct (tag_implicitly_cons t0 (r1 :: r') tg) as (r2 & E & Hl & Hf); [discriminate|].
      exists t0, r2. rewrite E. split; [reflexivity|split; [exact Hc0|split; [|cbn [ty_depth]; lia]]].
      apply Hf; [exact Hex|]. destruct (tcls tg); try discriminate; cbn in Hcl; congruence.
  - (* TExp *)
    cbn [wf_tags] in Hw. apply Bool.andb_true_iff in Hw. destruct Hw as [Hcl Hw].
    destruct (IH Hp Hw) as (t0 & r & Hts & Hc0 & Hex & Hd).
    cbn [tagset_of]. rewrite Hts. cbn [bind]. unfold tag_explicitly.
    assert (Hnu: tcls tg <> Univ) by (destruct (tcls tg); try discriminate; cbn in Hcl; congruence).
    exists t0, (r ++ [mkTag (tcls tg) true (tnum tg)]).
    split; [destruct (tcls tg); try reflexivity; congruence|].
    split; [exact Hc0|]. split.
    + apply Forall_app. split; [exact Hex|]. constructor; [|constructor]. split; [reflexivity|exact Hnu].
    + rewrite app_length. cbn [length ty_depth]. lia.
Qed.

Lemma abs_wrappers : forall T v, abs T v = abs (base_of T) v.
Proof.
  induction T as [| | | | | | | | n|fs IH|fs IH|t IH|t IH|alts IH| |tg x IH|tg x IH] using ty_ind'; intros v; try reflexivity.
  - cbn [base_of]. rewrite <- IH. destruct v; reflexivity.
  - cbn [base_of]. rewrite <- IH. destruct v; reflexivity.
Qed.

Lemma plain_map_tagged T : (match T with TChoice _ | TAny => False | _ => True end) -> plain_map T.
Proof. unfold plain_map. destruct T; intros H; try reflexivity; contradiction. Qed.

(* Stage 3 of the round trip, appendix: the relation [aeq] of RoundTrip3e.v (equality of abstract contents up
   to the order of SET OF elements) is the comparison [aval_eqb] of the model (Model/Types.v), on contents
   without the two values that [aval_eqb] does not take as equal to themselves (AReal AFloat). *)
From Coq Require Import Lia Permutation.
From PV Require Import Base.Bytes Model.Tag Model.TableTypes Model.Types Model.Proc Model.Enc Model.Dec Gen.Tables
     Proofs.RoundTrip1 Proofs.RoundTrip3 Proofs.RoundTrip3b Proofs.RoundTrip3e.
Local Open Scope N_scope.

(* ---------- structural induction through the nested lists ---------- *)

Definition opt_all (P: aval -> Prop) (o: option aval) : Prop := match o with Some x => P x | None => True end.

Section aval_ind_strong.
  Variable P : aval -> Prop.
  Hypothesis HBool: forall b, P (ABool b). Hypothesis HInt: forall z, P (AInt z). Hypothesis HBits: forall bs, P (ABits bs).
  Hypothesis HOcts: forall b, P (AOcts b). Hypothesis HNull: P ANull. Hypothesis HOid: forall a, P (AOid a).
  Hypothesis HReal: forall r, P (AReal r).
  Hypothesis HRec: forall fs, Forall (opt_all P) fs -> P (ARec fs).
  Hypothesis HList: forall xs, Forall P xs -> P (AList xs).
  Hypothesis HBag: forall xs, Forall P xs -> P (ABag xs).
  Hypothesis HChoice: forall i v, P v -> P (AChoice i v).
  Hypothesis HAny: forall b, P (AAny b). Hypothesis HBad: P ABad.
  Fixpoint aval_ind' (a: aval) : P a :=
    match a with
    | ABool b => HBool b | AInt z => HInt z | ABits bs => HBits bs | AOcts b => HOcts b | ANull => HNull
    | AOid x => HOid x | AReal r => HReal r
    | ARec fs => HRec fs ((fix go (l: list (option aval)) : Forall (opt_all P) l :=
                   match l with
                   | [] => Forall_nil _
                   | o :: r => Forall_cons o (match o return opt_all P o with Some x => aval_ind' x | None => I end) (go r)
                   end) fs)
    | AList xs => HList xs ((fix go (l: list aval) : Forall P l :=
                   match l with [] => Forall_nil _ | x :: r => Forall_cons x (aval_ind' x) (go r) end) xs)
    | ABag xs => HBag xs ((fix go (l: list aval) : Forall P l :=
                   match l with [] => Forall_nil _ | x :: r => Forall_cons x (aval_ind' x) (go r) end) xs)
    | AChoice i v => HChoice i v (aval_ind' v)
    | AAny b => HAny b | ABad => HBad
    end.
End aval_ind_strong.

(* ---------- inversion of aeq ---------- *)

Lemma Forall2_refl {A} (R: A -> A -> Prop) : (forall x, R x x) -> forall l, Forall2 R l l.
Proof. intros H. induction l; constructor; auto. Qed.

Lemma opt_rel_refl {A} (R: A -> A -> Prop) : (forall x, R x x) -> forall o, opt_rel R o o.
Proof. intros H [x|]; constructor. apply H. Qed.

Lemma aeq_list_inv xs b : aeq (AList xs) b -> exists ys, b = AList ys /\ Forall2 aeq xs ys.
Proof.
  intros H. inversion H; subst.
  - exists xs. split; [reflexivity|apply Forall2_refl; exact aeq_refl].
  - eexists. split; [reflexivity|assumption].
Qed.

Lemma aeq_bag_inv xs b : aeq (ABag xs) b -> exists ys zs, b = ABag ys /\ Permutation xs zs /\ Forall2 aeq zs ys.
Proof.
  intros H. inversion H; subst.
  - exists xs, xs. split; [reflexivity|]. split; [apply Permutation_refl|apply Forall2_refl; exact aeq_refl].
  - eexists. eexists. split; [reflexivity|]. split; eassumption.
Qed.

Lemma aeq_rec_inv xs b : aeq (ARec xs) b -> exists ys, b = ARec ys /\ Forall2 (opt_rel aeq) xs ys.
Proof.
  intros H. inversion H; subst.
  - exists xs. split; [reflexivity|apply Forall2_refl; apply opt_rel_refl; exact aeq_refl].
  - eexists. split; [reflexivity|assumption].
Qed.

Lemma aeq_choice_inv i x b : aeq (AChoice i x) b -> exists y, b = AChoice i y /\ aeq x y.
Proof.
  intros H. inversion H; subst.
  - exists x. split; [reflexivity|apply aeq_refl].
  - eexists. split; [reflexivity|assumption].
Qed.

Definition aleaf (a: aval) : Prop :=
  match a with ARec _ | AList _ | ABag _ | AChoice _ _ => False | _ => True end.

Lemma aeq_leaf_inv a b : aeq a b -> aleaf a -> b = a.
Proof. intros H Hl. inversion H; subst; try reflexivity; contradiction. Qed.

(* ---------- lists related element by element, up to permutation ---------- *)

Lemma Forall2_perm_left {A B} (P: A -> B -> Prop) : forall l1 l1', Permutation l1 l1' ->
  forall l2, Forall2 P l1 l2 -> exists l2', Permutation l2 l2' /\ Forall2 P l1' l2'.
Proof.
  induction 1 as [|a l1 l1' Hp IH|a b l1|l1 l1' l1'' Hp1 IH1 Hp2 IH2]; intros l2 HF.
  - inversion HF; subst. exists []. split; constructor.
  - inversion HF as [|? y ? l2t Hay HFt]; subst. destruct (IH _ HFt) as (l2' & Hp' & HF').
    exists (y :: l2'). split; [apply perm_skip; exact Hp'|constructor; assumption].
  - inversion HF as [|? y ? l2t Hay HFt]; subst. inversion HFt as [|? z ? l2u Hbz HFu]; subst.
    exists (z :: y :: l2u). split; [apply perm_swap|constructor; [assumption|constructor; assumption]].
  - destruct (IH1 _ HF) as (m & Hpm & HFm). destruct (IH2 _ HFm) as (n & Hpn & HFn).
    exists n. split; [eapply perm_trans; eassumption|exact HFn].
Qed.

Lemma Forall2_flip {A B} (P: A -> B -> Prop) l1 l2 : Forall2 P l1 l2 -> Forall2 (fun b a => P a b) l2 l1.
Proof. induction 1; constructor; assumption. Qed.

Lemma Forall2_perm_right {A B} (P: A -> B -> Prop) l1 l2 l2' : Forall2 P l1 l2 -> Permutation l2 l2' ->
  exists l1', Permutation l1 l1' /\ Forall2 P l1' l2'.
Proof.
  intros HF Hp. destruct (Forall2_perm_left (fun b a => P a b) l2 l2' Hp l1 (Forall2_flip _ _ _ HF)) as (l1' & Hp' & HF').
  exists l1'. split; [exact Hp'|]. apply Forall2_flip in HF'. exact HF'.
Qed.

Lemma Forall2_trans_in {A} (R: A -> A -> Prop) : forall l1 l2 l3,
  (forall x, In x l1 -> forall y z, R x y -> R y z -> R x z) ->
  Forall2 R l1 l2 -> Forall2 R l2 l3 -> Forall2 R l1 l3.
Proof.
  intros l1 l2 l3 Ht H12. revert l3. induction H12 as [|x y l1 l2 Hxy H12 IH]; intros l3 H23.
  - inversion H23; subst. constructor.
  - inversion H23 as [|? z ? l3t Hyz H23t]; subst. constructor.
    + exact (Ht x (or_introl eq_refl) y z Hxy Hyz).
    + apply IH; [|exact H23t]. intros x0 Hin. apply Ht. right. exact Hin.
Qed.

Lemma Forall2_sym_in {A} (R: A -> A -> Prop) : forall l1 l2,
  (forall x, In x l1 -> forall y, R x y -> R y x) -> Forall2 R l1 l2 -> Forall2 R l2 l1.
Proof.
  intros l1 l2 Hs H. induction H as [|x y l1 l2 Hxy H IH]; constructor.
  - exact (Hs x (or_introl eq_refl) y Hxy).
  - apply IH. intros x0 Hin. apply Hs. right. exact Hin.
Qed.

(* ---------- aeq is an equivalence ---------- *)

Definition aeq_equiv_at (a: aval) : Prop :=
  (forall b, aeq a b -> aeq b a) /\ (forall b c, aeq a b -> aeq b c -> aeq a c).

Lemma opt_rel_inv_some {A} (R: A -> A -> Prop) x o : opt_rel R (Some x) o -> exists y, o = Some y /\ R x y.
Proof. intros H. inversion H; subst. eexists. split; [reflexivity|assumption]. Qed.

Theorem aeq_equiv : forall a, aeq_equiv_at a.
Proof.
  induction a as [bb|z|bs|bo| |o|r|fs IH|xs IH|xs IH|i v IH|ba| ] using aval_ind';
    try (split; [intros b0 H; rewrite (aeq_leaf_inv _ b0 H I); apply aeq_refl
                |intros b0 c H1 H2; rewrite (aeq_leaf_inv _ b0 H1 I) in H2; exact H2]).
  - (* ARec *)
    split.
    + intros b H. destruct (aeq_rec_inv _ _ H) as (ys & -> & HF). apply aeq_rec.
      clear H. induction HF as [|x y l1 l2 Hxy HF IHF]; [constructor|].
      inversion IH as [|? ? Hx IHr]; subst. constructor; [|exact (IHF IHr)].
      destruct Hxy as [|x y Hxy]; constructor. exact (proj1 Hx y Hxy).
    + intros b c H1 H2. destruct (aeq_rec_inv _ _ H1) as (ys & -> & HF1). destruct (aeq_rec_inv _ _ H2) as (us & -> & HF2).
      apply aeq_rec. clear H1 H2. revert us HF2. induction HF1 as [|x y l1 l2 Hxy HF1 IHF]; intros us HF2.
      * inversion HF2; subst. constructor.
      * inversion HF2 as [|? u ? ust Hyu HF2t]; subst. inversion IH as [|? ? Hx IHr]; subst.
        constructor; [|exact (IHF IHr _ HF2t)].
        destruct Hxy as [|x y Hxy]; [inversion Hyu; subst; constructor|].
        destruct (opt_rel_inv_some _ _ _ Hyu) as (u0 & -> & Hyu0). constructor. exact (proj2 Hx y u0 Hxy Hyu0).
  - (* AList *)
    rewrite Forall_forall in IH. split.
    + intros b H. destruct (aeq_list_inv _ _ H) as (ys & -> & HF). apply aeq_list.
      apply (Forall2_sym_in aeq xs ys); [|exact HF]. intros x Hin y Hxy. exact (proj1 (IH x Hin) y Hxy).
    + intros b c H1 H2. destruct (aeq_list_inv _ _ H1) as (ys & -> & HF1). destruct (aeq_list_inv _ _ H2) as (us & -> & HF2).
      apply aeq_list. apply (Forall2_trans_in aeq xs ys us); [|exact HF1|exact HF2].
      intros x Hin y z Hxy Hyz. exact (proj2 (IH x Hin) y z Hxy Hyz).
  - (* ABag *)
    rewrite Forall_forall in IH. split.
    + intros b H. destruct (aeq_bag_inv _ _ H) as (ys & zs & -> & Hp & HF).
      assert (HFs: Forall2 aeq ys zs).
      { apply (Forall2_sym_in aeq zs ys); [|exact HF]. intros x Hin y Hxy.
        apply (proj1 (IH x (Permutation_in _ (Permutation_sym Hp) Hin))). exact Hxy. }
      destruct (Forall2_perm_right aeq ys zs xs HFs (Permutation_sym Hp)) as (ws & Hpw & HFw).
      exact (aeq_bag ys xs ws Hpw HFw).
    + intros b c H1 H2. destruct (aeq_bag_inv _ _ H1) as (ys & zs & -> & Hp1 & HF1).
      destruct (aeq_bag_inv _ _ H2) as (us & ws & -> & Hp2 & HF2).
      destruct (Forall2_perm_right aeq zs ys ws HF1 Hp2) as (zs' & Hpz & HFz).
      apply (aeq_bag xs us zs'); [eapply perm_trans; eassumption|].
      apply (Forall2_trans_in aeq zs' ws us); [|exact HFz|exact HF2].
      intros x Hin y z Hxy Hyz.
      assert (Hinx: In x xs).
      { apply (Permutation_in _ (Permutation_sym Hp1)). apply (Permutation_in _ (Permutation_sym Hpz)). exact Hin. }
      exact (proj2 (IH x Hinx) y z Hxy Hyz).
  - (* AChoice *)
    split.
    + intros b H. destruct (aeq_choice_inv _ _ _ H) as (y & -> & Hxy). apply aeq_choice. exact (proj1 IH y Hxy).
    + intros b c H1 H2. destruct (aeq_choice_inv _ _ _ H1) as (y & -> & Hxy). destruct (aeq_choice_inv _ _ _ H2) as (z & -> & Hyz).
      apply aeq_choice. exact (proj2 IH y z Hxy Hyz).
Qed.

Lemma aeq_sym a b : aeq a b -> aeq b a.
Proof. exact (proj1 (aeq_equiv a) b). Qed.
Lemma aeq_trans a b c : aeq a b -> aeq b c -> aeq a c.
Proof. exact (proj2 (aeq_equiv a) b c). Qed.

(* ---------- the multiset comparison of the model ---------- *)

Lemma remove_first_cons {A} (f: A -> bool) y r :
  remove_first f (y :: r) = if f y then Some r else match remove_first f r with Some r' => Some (y :: r') | None => None end.
Proof. reflexivity. Qed.

Lemma bag_eqb_cons {A} (eqb: A -> A -> bool) x a b :
  bag_eqb eqb (x :: a) b = match remove_first (eqb x) b with Some b' => bag_eqb eqb a b' | None => false end.
Proof. reflexivity. Qed.

Lemma remove_first_spec {A} (f: A -> bool) : forall l l', remove_first f l = Some l' ->
  exists l1 y l2, l = l1 ++ y :: l2 /\ l' = l1 ++ l2 /\ f y = true.
Proof.
  induction l as [|y r IH]; intros l' H; [discriminate H|].
  rewrite remove_first_cons in H. destruct (f y) eqn:E.
  - inversion H; subst. exists [], y, l'. repeat split. exact E.
  - destruct (remove_first f r) as [r'|] eqn:Er; [|discriminate]. inversion H; subst.
    destruct (IH r' eq_refl) as (l1 & y0 & l2 & -> & -> & Hy). exists (y :: l1), y0, l2. repeat split. exact Hy.
Qed.

Lemma remove_first_some {A} (f: A -> bool) : forall l y, In y l -> f y = true -> exists l', remove_first f l = Some l'.
Proof.
  induction l as [|z r IH]; intros y Hin Hy; [destruct Hin|].
  rewrite remove_first_cons. destruct (f z) eqn:E; [eexists; reflexivity|].
  destruct Hin as [->|Hin]; [congruence|]. destruct (IH y Hin Hy) as (l' & ->). eexists; reflexivity.
Qed.

Definition bmatch (xs ys: list aval) : Prop := exists zs, Permutation xs zs /\ Forall2 aeq zs ys.

Lemma bmatch_nil ys : bmatch [] ys -> ys = [].
Proof. intros (zs & Hp & HF). apply Permutation_nil in Hp. subst. inversion HF. reflexivity. Qed.

Lemma bmatch_perm_r a b b' : bmatch a b -> Permutation b b' -> bmatch a b'.
Proof.
  intros (zs & Hp & HF) Hpb. destruct (Forall2_perm_right aeq zs b b' HF Hpb) as (zs' & Hpz & HFz).
  exists zs'. split; [eapply perm_trans; eassumption|exact HFz].
Qed.

Lemma bmatch_in x a ys : bmatch (x :: a) ys -> exists y, In y ys /\ aeq x y.
Proof.
  intros (zs & Hp & HF). assert (Hin: In x zs) by (apply (Permutation_in _ Hp); left; reflexivity).
  destruct (in_split _ _ Hin) as (z1 & z2 & ->).
  destruct (Forall2_app_inv_l _ _ HF) as (y1 & y2' & HF1 & HF2 & ->).
  inversion HF2 as [|? y ? y2 Hxy _]; subst. exists y. split; [apply in_or_app; right; left; reflexivity|exact Hxy].
Qed.

Lemma bmatch_cancel x a y b : bmatch (x :: a) (y :: b) -> aeq x y -> bmatch a b.
Proof.
  intros (zs & Hp & HF) Hxy. inversion HF as [|z0 ? zs0 ? Hz0 HF0]; subst.
  assert (Hin: In x (z0 :: zs0)) by (apply (Permutation_in _ Hp); left; reflexivity).
  destruct Hin as [->|Hin].
  - exists zs0. split; [exact (Permutation_cons_inv Hp)|exact HF0].
  - destruct (in_split _ _ Hin) as (p & q & ->).
    destruct (Forall2_app_inv_l _ _ HF0) as (bp & bq' & HFp & HFq & ->).
    inversion HFq as [|? bx ? bq Hxbx HFq']; subst.
    exists (p ++ z0 :: q). split.
    + (* x :: a ~ z0 :: p ++ x :: q, hence a ~ z0 :: p ++ q ~ p ++ z0 :: q *)
      assert (Hp2: Permutation (x :: a) (x :: z0 :: p ++ q)).
      { eapply perm_trans; [exact Hp|]. apply Permutation_sym. exact (Permutation_middle (z0 :: p) q x). }
      apply Permutation_cons_inv in Hp2. eapply perm_trans; [exact Hp2|]. apply Permutation_middle.
    + apply Forall2_app; [exact HFp|]. constructor; [|exact HFq'].
      (* z0 ~ y ~ x ~ bx *)
      apply (aeq_trans z0 y bx Hz0). apply (aeq_trans y x bx (aeq_sym _ _ Hxy) Hxbx).
Qed.

Lemma bag_sound : forall xs ys,
  (forall x, In x xs -> forall y, aval_eqb x y = true -> aeq x y) ->
  bag_eqb aval_eqb xs ys = true -> bmatch xs ys.
Proof.
  induction xs as [|x xs IH]; intros ys Hs H.
  - destruct ys; [|discriminate H]. exists []. split; constructor.
  - rewrite bag_eqb_cons in H. destruct (remove_first (aval_eqb x) ys) as [ys'|] eqn:Er; [|discriminate].
    destruct (remove_first_spec _ _ _ Er) as (l1 & y & l2 & -> & -> & Hy).
    destruct (IH (l1 ++ l2) (fun x0 Hin => Hs x0 (or_intror Hin)) H) as (zs & Hp & HF).
    destruct (Forall2_app_inv_r _ _ HF) as (z1 & z2 & HF1 & HF2 & ->).
    exists (z1 ++ x :: z2). split; [apply Permutation_cons_app; exact Hp|].
    apply Forall2_app; [exact HF1|]. constructor; [|exact HF2]. exact (Hs x (or_introl eq_refl) y Hy).
Qed.

Lemma bag_complete : forall xs ys,
  (forall x, In x xs -> forall y, aval_eqb x y = true -> aeq x y) ->
  (forall x, In x xs -> forall y, aeq x y -> aval_eqb x y = true) ->
  bmatch xs ys -> bag_eqb aval_eqb xs ys = true.
Proof.
  induction xs as [|x xs IH]; intros ys Hs Hc HM.
  - rewrite (bmatch_nil ys HM). reflexivity.
  - rewrite bag_eqb_cons.
    destruct (bmatch_in x xs ys HM) as (yj & Hinj & Hxj).
    destruct (remove_first_some (aval_eqb x) ys yj Hinj (Hc x (or_introl eq_refl) yj Hxj)) as (ys' & Er).
    rewrite Er. destruct (remove_first_spec _ _ _ Er) as (l1 & yi & l2 & -> & -> & Hyi).
    apply IH; [intros x0 Hin; exact (Hs x0 (or_intror Hin))|intros x0 Hin; exact (Hc x0 (or_intror Hin))|].
    apply (bmatch_cancel x xs yi (l1 ++ l2)); [|exact (Hs x (or_introl eq_refl) yi Hyi)].
    apply (bmatch_perm_r _ _ _ HM). apply Permutation_sym, Permutation_middle.
Qed.

(* ---------- aeq and aval_eqb ---------- *)

(* no REAL that went through a Python float: the only contents [aval_eqb] does not take as equal to themselves *)
Fixpoint agoodb (a: aval) : bool :=
  match a with
  | AReal AFloat => false
  | ARec fs => forallb (fun o => match o with Some x => agoodb x | None => true end) fs
  | AList xs | ABag xs => forallb agoodb xs
  | AChoice _ v => agoodb v
  | _ => true
  end.

Lemma list_eqb_refl {A} (eqb: A -> A -> bool) : forall l, (forall a, In a l -> eqb a a = true) -> list_eqb eqb l l = true.
Proof.
  induction l as [|a l IH]; intros H; [reflexivity|]. cbn [list_eqb]. rewrite (H a (or_introl eq_refl)). cbn [andb].
  apply IH. intros b Hb. apply H. right. exact Hb.
Qed.

Lemma list_eqb_Forall2 {A} (eqb: A -> A -> bool) (R: A -> A -> Prop) : forall l1 l2,
  (forall x, In x l1 -> forall y, eqb x y = true -> R x y) -> list_eqb eqb l1 l2 = true -> Forall2 R l1 l2.
Proof.
  induction l1 as [|x l1 IH]; intros [|y l2] Hs H; try discriminate; [constructor|].
  cbn [list_eqb] in H. apply Bool.andb_true_iff in H. destruct H as [H1 H2]. constructor.
  - exact (Hs x (or_introl eq_refl) y H1).
  - apply IH; [|exact H2]. intros x0 Hin. apply Hs. right. exact Hin.
Qed.

Lemma Forall2_list_eqb {A} (eqb: A -> A -> bool) (R: A -> A -> Prop) : forall l1 l2,
  (forall x, In x l1 -> forall y, R x y -> eqb x y = true) -> Forall2 R l1 l2 -> list_eqb eqb l1 l2 = true.
Proof.
  intros l1 l2 Hc H. induction H as [|x y l1 l2 Hxy H IH]; [reflexivity|].
  cbn [list_eqb]. rewrite (Hc x (or_introl eq_refl) y Hxy). cbn [andb]. apply IH. intros x0 Hin. apply Hc. right. exact Hin.
Qed.

Lemma areal_eqb_eq x y : areal_eqb x y = true -> x = y.
Proof.
  destruct x, y; cbn [areal_eqb]; intros H; try discriminate; try reflexivity;
    apply Bool.andb_true_iff in H; destruct H as [H1 H2]; apply Z.eqb_eq in H1; apply Z.eqb_eq in H2; subst; reflexivity.
Qed.

Lemma areal_eqb_refl x : x <> AFloat -> areal_eqb x x = true.
Proof. destruct x; intros H; cbn [areal_eqb]; rewrite ?Z.eqb_refl; try reflexivity. congruence. Qed.

Definition link_at (a: aval) : Prop :=
  (forall b, aval_eqb a b = true -> aeq a b) /\ (agoodb a = true -> forall b, aeq a b -> aval_eqb a b = true).

Theorem aval_eqb_aeq : forall a, link_at a.
Proof.
  induction a as [bb|z|bs|bo| |o|r|fs IH|xs IH|xs IH|i v IH|ba| ] using aval_ind'.
  - split.
    + intros b H. destruct b; try discriminate H. cbn [aval_eqb] in H. apply Bool.eqb_prop in H. subst. apply aeq_refl.
    + intros _ b H. rewrite (aeq_leaf_inv _ b H I). cbn [aval_eqb]. apply Bool.eqb_reflx.
  - split.
    + intros b H. destruct b; try discriminate H. cbn [aval_eqb] in H. apply Z.eqb_eq in H. subst. apply aeq_refl.
    + intros _ b H. rewrite (aeq_leaf_inv _ b H I). cbn [aval_eqb]. apply Z.eqb_refl.
  - split.
    + intros b H. destruct b; try discriminate H. cbn [aval_eqb] in H. apply (list_eqb_eq Bool.eqb Bool.eqb_prop) in H. subst. apply aeq_refl.
    + intros _ b H. rewrite (aeq_leaf_inv _ b H I). cbn [aval_eqb]. apply list_eqb_refl. intros a _. apply Bool.eqb_reflx.
  - split.
    + intros b H. destruct b; try discriminate H. cbn [aval_eqb] in H. apply bytes_eqb_eq in H. subst. apply aeq_refl.
    + intros _ b H. rewrite (aeq_leaf_inv _ b H I). cbn [aval_eqb]. apply list_eqb_refl. intros a _. apply N.eqb_refl.
  - split.
    + intros b H. destruct b; try discriminate H. apply aeq_refl.
    + intros _ b H. rewrite (aeq_leaf_inv _ b H I). reflexivity.
  - split.
    + intros b H. destruct b; try discriminate H. cbn [aval_eqb] in H.
      apply (list_eqb_eq N.eqb (fun a b => proj1 (N.eqb_eq a b))) in H. subst. apply aeq_refl.
    + intros _ b H. rewrite (aeq_leaf_inv _ b H I). cbn [aval_eqb]. apply list_eqb_refl. intros a _. apply N.eqb_refl.
  - split.
    + intros b H. destruct b; try discriminate H. cbn [aval_eqb] in H. apply areal_eqb_eq in H. subst. apply aeq_refl.
    + intros Hg b H. rewrite (aeq_leaf_inv _ b H I). cbn [aval_eqb]. apply areal_eqb_refl. intros ->. discriminate Hg.
  - (* ARec *)
    rewrite Forall_forall in IH. split.
    + intros b H. destruct b; try discriminate H. cbn [aval_eqb] in H. apply aeq_rec.
      apply (list_eqb_Forall2 (opt_eqb aval_eqb) (opt_rel aeq) fs fs0); [|exact H].
      intros o Hin o' Ho. specialize (IH o Hin). destruct o as [x|]; destruct o' as [y|]; try discriminate Ho; constructor.
      exact (proj1 IH y Ho).
    + intros Hg b H. destruct (aeq_rec_inv _ _ H) as (ys & -> & HF). cbn [aval_eqb].
      cbn [agoodb] in Hg. rewrite forallb_forall in Hg.
      apply (Forall2_list_eqb (opt_eqb aval_eqb) (opt_rel aeq) fs ys); [|exact HF].
      intros o Hin o' Ho. specialize (IH o Hin). specialize (Hg o Hin). destruct Ho as [|x y Hxy]; [reflexivity|].
      cbn [opt_eqb]. exact (proj2 IH Hg y Hxy).
  - (* AList *)
    rewrite Forall_forall in IH. split.
    + intros b H. destruct b; try discriminate H. cbn [aval_eqb] in H. apply aeq_list.
      apply (list_eqb_Forall2 aval_eqb aeq xs xs0); [|exact H]. intros x Hin y Hxy. exact (proj1 (IH x Hin) y Hxy).
    + intros Hg b H. destruct (aeq_list_inv _ _ H) as (ys & -> & HF). cbn [aval_eqb].
      cbn [agoodb] in Hg. rewrite forallb_forall in Hg.
      apply (Forall2_list_eqb aval_eqb aeq xs ys); [|exact HF]. intros x Hin y Hxy. exact (proj2 (IH x Hin) (Hg x Hin) y Hxy).
  - (* ABag *)
    rewrite Forall_forall in IH. split.
    + intros b H. destruct b; try discriminate H. cbn [aval_eqb] in H.
      destruct (bag_sound xs xs0 (fun x Hin => proj1 (IH x Hin)) H) as (zs & Hp & HF).
      exact (aeq_bag xs xs0 zs Hp HF).
    + intros Hg b H. destruct (aeq_bag_inv _ _ H) as (ys & zs & -> & Hp & HF). cbn [aval_eqb].
      cbn [agoodb] in Hg. rewrite forallb_forall in Hg.
      apply bag_complete.
      * intros x Hin. exact (proj1 (IH x Hin)).
      * intros x Hin. exact (proj2 (IH x Hin) (Hg x Hin)).
      * exists zs. split; assumption.
  - (* AChoice *)
    split.
    + intros b H. destruct b; try discriminate H. cbn [aval_eqb] in H. apply Bool.andb_true_iff in H. destruct H as [H1 H2].
      apply Nat.eqb_eq in H1. subst. apply aeq_choice. exact (proj1 IH _ H2).
    + intros Hg b H. destruct (aeq_choice_inv _ _ _ H) as (y & -> & Hxy). cbn [aval_eqb]. rewrite Nat.eqb_refl. cbn [andb].
      exact (proj2 IH Hg y Hxy).
  - split.
    + intros b H. destruct b; try discriminate H. cbn [aval_eqb] in H. apply bytes_eqb_eq in H. subst. apply aeq_refl.
    + intros _ b H. rewrite (aeq_leaf_inv _ b H I). cbn [aval_eqb]. apply list_eqb_refl. intros a _. apply N.eqb_refl.
  - split.
    + intros b H. destruct b; try discriminate H. apply aeq_refl.
    + intros _ b H. rewrite (aeq_leaf_inv _ b H I). reflexivity.
Qed.

(* on contents without float REALs, [aeq] is exactly the model's comparison *)
Corollary aeq_iff_aval_eqb a b : agoodb a = true -> (aeq a b <-> aval_eqb a b = true).
Proof. intros Hg. split; [exact (proj2 (aval_eqb_aeq a) Hg b)|exact (proj1 (aval_eqb_aeq a) b)]. Qed.

(* Round trip, stage 3, SET OF under the sorting encoder included, with the model's own comparison *)
Theorem roundtrip_stage3_eqb : forall ce cd T v b tl,
  enc_ok ce -> stage3_ty true ce T = true -> stage3_val ce cd T v = true -> agoodb (abs T v) = true ->
  encode ce true 0 T v = Ok b -> N.of_nat (length b) <= index_max ->
  exists v', decode cd (Some T) (b ++ tl) = Ok (DV T v', tl) /\ aval_eqb (abs T v) (abs T v') = true.
Proof.
  intros ce cd T v b tl Hce Hty Hv Hg He Hmax.
  destruct (roundtrip_stage3_bag ce cd T v b tl Hce Hty Hv He Hmax) as (v' & Hd & Ha).
  exists v'. split; [exact Hd|]. apply (proj2 (aval_eqb_aeq (abs T v)) Hg). apply aeq_sym. exact Ha.
Qed.

Print Assumptions roundtrip_stage3_eqb.

Example roundtrip_stage3_eqb_nonvacuous :
  agoodb (abs stage3_example_ty stage3_example_val) = true
  /\ agoodb (abs (TSetOf (TSetOf TReal)) (VList [VList [VReal (RBin 3 1); VReal RPInf]; VList []])) = true.
Proof. vm_compute. split; reflexivity. Qed.

(* Facts about the dispatch tables regenerated from /repo (Gen/Tables.v), decided by computation:
   a change to a table or flag in /repo changes these proof obligations. *)
From PV Require Import Base.Bytes Model.Types Model.TableTypes Model.Enc Model.Dec Gen.Tables.
Local Open Scope N_scope.

Definition dec_codec_eqb (a b: dec_codec) : bool :=
  match a, b with
  | DcInt, DcInt | DcBoolBer, DcBoolBer | DcBoolCer, DcBoolCer | DcBits, DcBits | DcOcts, DcOcts | DcNull, DcNull
  | DcOid, DcOid | DcReal, DcReal | DcSeqOrSeqOf, DcSeqOrSeqOf | DcSetOrSetOf, DcSetOrSetOf | DcSeq, DcSeq
  | DcSeqOf, DcSeqOf | DcSet, DcSet | DcSetOf, DcSetOf | DcChoice, DcChoice | DcAny, DcAny | DcStr, DcStr => true
  | _, _ => false end.

(* entry [strict] only adds rejections to entry [wide]: same codec, except the stricter BOOLEAN
   (FF/00 only), and the constructed form may be forbidden but never newly allowed *)
Definition entry_refines (strict wide: dec_codec * dec_flags) : bool :=
  (dec_codec_eqb (fst strict) (fst wide)
   || match fst strict, fst wide with DcBoolCer, DcBoolBer => true | _, _ => false end)
  && (implb (df_constructed (snd strict)) (df_constructed (snd wide)))
  && opt_eqb tkey_eqb (df_proto (snd strict)) (df_proto (snd wide)).

(* same keys, entry by entry refinement *)
Definition tables_refine (strict wide: list (tkey * dec_codec * dec_flags)) : bool :=
  forallb (fun e => match lookup3 (fst (fst e)) wide with
                    | Some w => entry_refines (snd (fst e), snd e) w
                    | None => false end) strict
  && forallb (fun e => match lookup3 (fst (fst e)) strict with Some _ => true | None => false end) wide.

Lemma tables_refine_facts :
  tables_refine (dec_tag_map DER) (dec_tag_map CER) = true
  /\ tables_refine (dec_type_map DER) (dec_type_map CER) = true
  /\ tables_refine (dec_tag_map CER) (dec_tag_map BER) = true
  /\ tables_refine (dec_type_map CER) (dec_type_map BER) = true.
Proof. repeat split; vm_compute; reflexivity. Qed.

Lemma fixed_modes_facts :
  enc_fixed CER = (Some false, Some 1000) /\ enc_fixed DER = (Some true, Some 0) /\ enc_fixed BER = (None, None).
Proof. repeat split. Qed.

Definition exc_sub (a b: exc_name) : bool := existsb (fun p => exc_eqb (fst p) a && exc_eqb (snd p) b) exc_subclass.

Lemma error_lattice_facts :
  exc_sub XEndOfStreamError XSubstrateUnderrunError = true
  /\ exc_sub XSubstrateUnderrunError XPyAsn1Error = true.
Proof. split; vm_compute; reflexivity. Qed.

(* C15: the strict entries *)
Definition is_string_key (k: tkey) : bool := match k with KOcts | KBits | KStr _ => true | _ => false end.
Definition strings_primitive_only (m: list (tkey * dec_codec * dec_flags)) : bool :=
  forallb (fun e => implb (is_string_key (fst (fst e))) (negb (df_constructed (snd e)))) m
  && existsb (fun e => is_string_key (fst (fst e))) m.
Definition strict_bool (m: list (tkey * dec_codec * dec_flags)) : bool :=
  match lookup3 KBool m with Some (DcBoolCer, _) => true | _ => false end.

Lemma strict_tables_facts :
  strings_primitive_only (dec_tag_map DER) = true /\ strings_primitive_only (dec_type_map DER) = true
  /\ support_indef DER = false
  /\ strict_bool (dec_tag_map DER) = true /\ strict_bool (dec_type_map DER) = true
  /\ strict_bool (dec_tag_map CER) = true /\ strict_bool (dec_type_map CER) = true.
Proof. repeat split; vm_compute; reflexivity. Qed.

(* Identifier and length octets: the decoder's reading inverts the encoder's writing,
   for every class, form, tag number and length (no bound), and the octets emitted
   have the X.690 8.1.2 / 8.1.3 shape. *)
From Coq Require Import Lia.
From PV Require Import Base.Bytes Model.Tag Proofs.Bits.
Local Open Scope N_scope.

(* ---------- base 128 ---------- *)

Lemma dec_b128_hi : forall fuel n acc r,
  (N.size_nat n <= fuel)%nat ->
  dec_b128 0 (b128_hi fuel n acc ++ r) = dec_b128 n (acc ++ r).
Proof.
  induction fuel as [|f IH]; intros n acc r Hf.
  - destruct n; [reflexivity|]. simpl in Hf. destruct p; simpl in Hf; lia.
  - cbn [b128_hi]. destruct (N.eqb_spec n 0) as [->|Hn]; [reflexivity|].
    rewrite IH.
    + cbn [dec_b128 app].
      assert (Hm: N.land n 127 < 128) by (rewrite land127; apply N.mod_lt; lia).
      rewrite (lor128 _ Hm), (land128_hi _ Hm). cbn [N.eqb].
      replace (N.land (128 + N.land n 127) 127) with (N.land n 127).
      2:{ rewrite (land127 (128 + _)), land127.
          rewrite N.add_mod by lia. rewrite N.mod_same by lia. rewrite N.add_0_l.
          rewrite !N.mod_mod by lia. reflexivity. }
      rewrite lor_shl7 by assumption. rewrite shiftr7, land127.
      replace (n / 128 * 128 + n mod 128) with n; [reflexivity|].
      rewrite N.mul_comm. apply N.div_mod. lia.
    + rewrite shiftr7. pose proof (size_nat_div n 7 Hn). change (2 ^ 7) with 128 in H. lia.
Qed.

Lemma dec_b128_b128 n r : dec_b128 0 (b128 n ++ r) = Some (n, r).
Proof.
  unfold b128. destruct (N.eqb_spec n 0) as [->|Hn]; [reflexivity|].
  rewrite dec_b128_hi.
  - cbn [dec_b128 app].
    assert (Hm: N.land n 127 < 128) by (rewrite land127; apply N.mod_lt; lia).
    rewrite (land128_lo _ Hm). cbn [N.eqb].
    replace (N.land (N.land n 127) 127) with (N.land n 127).
    2:{ rewrite (land127 (N.land n 127)), land127, N.mod_mod by lia. reflexivity. }
    rewrite lor_shl7 by assumption. rewrite shiftr7, land127.
    replace (n / 128 * 128 + n mod 128) with n; [reflexivity|].
    rewrite N.mul_comm. apply N.div_mod. lia.
  - rewrite shiftr7. pose proof (size_nat_div n 7 Hn). change (2 ^ 7) with 128 in H. lia.
Qed.

(* ---------- identifier octets ---------- *)

Lemma cls_of_bits_lor c x : x < 64 -> cls_of_bits (N.lor (cls_bits c) x) = c.
Proof.
  intros Hx. unfold cls_of_bits.
  assert (E: N.land (N.lor (cls_bits c) x) 192 = cls_bits c).
  { rewrite N.land_lor_distr_l.
    assert (N.land x 192 = 0) as ->.
    { apply N.bits_inj. intros i. rewrite N.land_spec, N.bits_0.
      destruct (N.lt_ge_cases i 6) as [Hi|Hi].
      - replace (N.testbit 192 i) with false; [apply andb_false_r|].
        assert (i = 0 \/ i = 1 \/ i = 2 \/ i = 3 \/ i = 4 \/ i = 5) as [->|[->|[->|[->|[->| ->]]]]] by lia; reflexivity.
      - rewrite (testbit_small x 6 i); [reflexivity|exact Hx|exact Hi]. }
    rewrite N.lor_0_r. destruct c; reflexivity. }
  rewrite E. destruct c; reflexivity.
Qed.

Lemma first_octet_fields c (f: bool) n : n < 32 ->
  let o := N.lor (N.lor (cls_bits c) (if f then 32 else 0)) n in
  cls_of_bits o = c /\ negb (N.eqb (N.land o 32) 0) = f /\ N.land o 31 = n.
Proof.
  intros Hn o. subst o.
  assert (forall k, k < 32 -> exists a b c d e: bool,
            k = (if a then 16 else 0) + (if b then 8 else 0) + (if c then 4 else 0)
                + (if d then 2 else 0) + (if e then 1 else 0)) as Hbits.
  { intros k Hk.
    exists (N.testbit k 4), (N.testbit k 3), (N.testbit k 2), (N.testbit k 1), (N.testbit k 0).
    assert (k = 0 \/ k = 1 \/ k = 2 \/ k = 3 \/ k = 4 \/ k = 5 \/ k = 6 \/ k = 7 \/ k = 8 \/ k = 9 \/
            k = 10 \/ k = 11 \/ k = 12 \/ k = 13 \/ k = 14 \/ k = 15 \/ k = 16 \/ k = 17 \/ k = 18 \/
            k = 19 \/ k = 20 \/ k = 21 \/ k = 22 \/ k = 23 \/ k = 24 \/ k = 25 \/ k = 26 \/ k = 27 \/
            k = 28 \/ k = 29 \/ k = 30 \/ k = 31) as H by lia.
    repeat (destruct H as [->|H]; [reflexivity|]). subst; reflexivity. }
  destruct (Hbits n Hn) as (a & b & c' & d & e & ->).
  split; [|split].
  - rewrite <- N.lor_assoc. apply cls_of_bits_lor.
    destruct f, a, b, c', d, e; vm_compute; reflexivity.
  - destruct c, f, a, b, c', d, e; reflexivity.
  - destruct c, f, a, b, c', d, e; reflexivity.
Qed.

(* C13, first half: for every class, form and number the decoder reads back exactly
   the tag that was written, and leaves what follows untouched *)
Theorem dec_enc_tag (t: tag) (c: bool) (r: bytes) :
  dec_ident (enc_tag t c ++ r) = Some (mkTag (tcls t) (tcon t || c) (tnum t), r).
Proof.
  unfold enc_tag. destruct (N.ltb_spec (tnum t) 31) as [Hs|Hl].
  - cbn [app dec_ident].
    destruct (first_octet_fields (tcls t) (tcon t || c) (tnum t)) as (H1 & H2 & H3); [lia|].
    cbn zeta in H1, H2, H3. rewrite H1, H2, H3.
    destruct (N.eqb_spec (tnum t) 31); [lia|reflexivity].
  - cbn [app dec_ident].
    destruct (first_octet_fields (tcls t) (tcon t || c) 31) as (H1 & H2 & H3); [lia|].
    cbn zeta in H1, H2, H3. rewrite H1, H2, H3. cbn [N.eqb Pos.eqb].
    rewrite dec_b128_b128. reflexivity.
Qed.

(* shape (X.690 8.1.2): short form iff number < 31; in the long form every octet but the
   last has bit 8 set, the last has it clear, and the first subsequent octet is not 0x80 *)
Fixpoint cont_then_last (b: bytes) : bool :=
  match b with
  | [] => false
  | [o] => N.ltb o 128
  | o :: r => N.leb 128 o && N.ltb o 256 && cont_then_last r
  end.

Lemma b128_hi_shape : forall fuel n acc, cont_then_last acc = true ->
  cont_then_last (b128_hi fuel n acc) = true.
Proof.
  induction fuel as [|f IH]; intros n acc Ha; [exact Ha|].
  cbn [b128_hi]. destruct (N.eqb n 0); [exact Ha|]. apply IH.
  assert (Hm: N.land n 127 < 128) by (rewrite land127; apply N.mod_lt; lia).
  rewrite (lor128 _ Hm). destruct acc as [|a acc']; [discriminate|].
  change (cont_then_last ((128 + N.land n 127) :: a :: acc'))
    with (N.leb 128 (128 + N.land n 127) && N.ltb (128 + N.land n 127) 256 && cont_then_last (a :: acc')).
  rewrite Ha. destruct (N.leb_spec 128 (128 + N.land n 127)); [|lia].
  destruct (N.ltb_spec (128 + N.land n 127) 256); [reflexivity|lia].
Qed.

Theorem b128_shape n : cont_then_last (b128 n) = true.
Proof.
  unfold b128. apply b128_hi_shape. cbn [cont_then_last].
  apply N.ltb_lt. rewrite land127. apply N.mod_lt. lia.
Qed.

Lemma b128_hi_head : forall fuel n acc, (N.size_nat n <= fuel)%nat -> n <> 0 ->
  exists d rest, b128_hi fuel n acc = d :: rest /\ d <> 128.
Proof.
  induction fuel as [|f IH]; intros n acc Hf Hn.
  - destruct n; [congruence|]. simpl in Hf. destruct p; simpl in Hf; lia.
  - cbn [b128_hi]. destruct (N.eqb_spec n 0); [congruence|].
    destruct (N.eq_dec (N.shiftr n 7) 0) as [Hz|Hnz].
    + rewrite Hz. destruct f; cbn [b128_hi N.eqb].
      all: eexists; eexists; split; [reflexivity|].
      all: assert (Hm: N.land n 127 < 128) by (rewrite land127; apply N.mod_lt; lia).
      all: rewrite (lor128 _ Hm); rewrite shiftr7 in Hz; rewrite land127.
      all: assert (n mod 128 <> 0); [|lia].
      all: intros Hc; apply Hn; rewrite (N.div_mod n 128) by lia; rewrite Hz, Hc; reflexivity.
    + apply IH; [|assumption].
      rewrite shiftr7. pose proof (size_nat_div n 7 n0). change (2 ^ 7) with 128 in H. lia.
Qed.

(* no leading 0x80 in the long form, for numbers >= 31 (indeed >= 1) *)
Theorem b128_minimal n : 128 <= n -> exists d rest, b128 n = d :: rest /\ d <> 128.
Proof.
  intros Hn. unfold b128. apply b128_hi_head.
  - rewrite shiftr7. assert (n <> 0) by lia.
    pose proof (size_nat_div n 7 H). change (2 ^ 7) with 128 in H0. lia.
  - rewrite shiftr7. intros Hc. apply N.div_small_iff in Hc; lia.
Qed.

(* ---------- length octets ---------- *)

Lemma be_num_app : forall a b acc, be_num acc (a ++ b) = be_num (be_num acc a) b.
Proof. induction a as [|x a IH]; intros; [reflexivity|]. cbn [app be_num]. apply IH. Qed.

Lemma be_num_b256_hi : forall fuel n acc, (N.size_nat n <= fuel)%nat ->
  be_num 0 (b256_hi fuel n acc) = be_num n acc.
Proof.
  induction fuel as [|f IH]; intros n acc Hf.
  - destruct n; [reflexivity|]. simpl in Hf. destruct p; simpl in Hf; lia.
  - cbn [b256_hi]. destruct (N.eqb_spec n 0) as [->|Hn]; [reflexivity|].
    rewrite IH.
    + cbn [be_num].
      assert (Hm: N.land n 255 < 256) by (rewrite land255; apply N.mod_lt; lia).
      rewrite lor_shl8 by assumption. rewrite shiftr8, land255.
      replace (n / 256 * 256 + n mod 256) with n; [reflexivity|].
      rewrite N.mul_comm. apply N.div_mod. lia.
    + rewrite shiftr8. pose proof (size_nat_div n 8 Hn). change (2 ^ 8) with 256 in H. lia.
Qed.

Lemma be_num_b256 n : be_num 0 (b256 n) = n.
Proof. unfold b256. rewrite be_num_b256_hi by lia. reflexivity. Qed.

Lemma firstn_app_exact {X} (a b: list X) : firstn (length a) (a ++ b) = a.
Proof. induction a; simpl; [destruct b; reflexivity|]. f_equal. assumption. Qed.
Lemma skipn_app_exact {X} (a b: list X) : skipn (length a) (a ++ b) = b.
Proof. induction a; simpl; [reflexivity|assumption]. Qed.

Lemma dec_len_cons o r : dec_len (o :: r) =
  if N.ltb o 128 then Some (Some o, r)
  else if N.eqb o 128 then Some (None, r)
  else let k := N.to_nat (N.land o 127) in
       if Nat.ltb (length r) k then None
       else Some (Some (be_num 0 (firstn k r)), skipn k r).
Proof. reflexivity. Qed.

(* definite lengths of any size read back exactly; the tail is untouched *)
Theorem dec_enc_len (n: N) (l r: bytes) :
  enc_len n false = Ok l -> dec_len (l ++ r) = Some (Some n, r).
Proof.
  unfold enc_len. destruct (N.ltb_spec n 128) as [Hs|Hl].
  - intros H; inversion H; subst. cbn [app dec_len].
    destruct (N.ltb_spec n 128); [reflexivity|lia].
  - destruct (Nat.ltb_spec 126 (length (b256 n))) as [Hbig|Hok]; [discriminate|].
    intros H. apply (f_equal (fun x => match x with Ok a => a | Err _ => [] end)) in H. cbv beta iota in H. subst l. rewrite <- app_comm_cons, dec_len_cons. cbv zeta.
    set (k := N.of_nat (length (b256 n))).
    assert (Hk: k < 128) by (subst k; lia).
    assert (Hk0: k <> 0).
    { subst k. unfold b256. destruct n as [|p]; [lia|].
      assert (forall fuel m acc, (length acc <= length (b256_hi fuel m acc))%nat) as Hmono.
      { induction fuel as [|f IH]; intros m acc; cbn [b256_hi]; [lia|].
        destruct (N.eqb m 0); [lia|]. specialize (IH (N.shiftr m 8) (N.land m 255 :: acc)).
        cbn [length] in IH. lia. }
      destruct (N.size_nat (N.pos p)) eqn:Es.
      { simpl in Es. destruct p; simpl in Es; lia. }
      cbn [b256_hi N.eqb]. specialize (Hmono n (N.shiftr (N.pos p) 8) [N.land (N.pos p) 255]).
      cbn [length] in Hmono. lia. }
    rewrite (lor128 _ Hk).
    destruct (N.ltb_spec (128 + k) 128); [lia|].
    destruct (N.eqb_spec (128 + k) 128); [lia|].
    replace (N.land (128 + k) 127) with k.
    2:{ rewrite land127. rewrite N.add_mod by lia. rewrite N.mod_same by lia.
        rewrite N.add_0_l, N.mod_mod by lia. rewrite N.mod_small by assumption. reflexivity. }
    subst k. rewrite Nat2N.id.
    destruct (Nat.ltb_spec (length (b256 n ++ r)) (length (b256 n))) as [Hc|_].
    { rewrite app_length in Hc. lia. }
    rewrite firstn_app_exact, skipn_app_exact, be_num_b256. reflexivity.
Qed.

Theorem dec_enc_len_indef (n: N) (r: bytes) :
  enc_len n true = Ok [128] /\ dec_len ([128] ++ r) = Some (None, r).
Proof. split; reflexivity. Qed.

(* shape (X.690 8.1.3): short form iff < 128; long form is minimal (no leading zero octet) *)
Theorem enc_len_short n : n < 128 -> enc_len n false = Ok [n].
Proof. intros H. unfold enc_len. destruct (N.ltb_spec n 128); [reflexivity|lia]. Qed.

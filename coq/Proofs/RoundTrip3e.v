(* Stage 3 of the round trip, part (e): ANY - tagged (any octets) and untagged (one complete TLV, where
   the type guides the decoder directly: outermost, element of SEQUENCE OF / SET OF, mandatory component
   of a SEQUENCE that does not end a run of OPTIONAL components) - and the theorem for the whole
   universe. *)
From Coq Require Import Lia Permutation.
From PV Require Import Base.Bytes Model.Tag Model.TableTypes Model.Types Model.Proc Model.Enc Model.Dec Gen.Tables
     Proofs.ProcBind Proofs.RunLemmas Proofs.TagOctets Proofs.TagAlgebra Proofs.DecHeader Proofs.DecFrame Proofs.DecPrim
     Proofs.TagsetShape Proofs.Schemaless Proofs.RoundTrip1 Proofs.RoundTrip2 Proofs.TagReject Proofs.ContainerCodecSort
     Proofs.RoundTrip3 Proofs.RoundTrip3a Proofs.RoundTrip3b Proofs.RoundTrip3c Proofs.RoundTrip3d.
Local Open Scope N_scope.

(* the header parsers do not look beyond the header *)
Lemma dec_b128_app : forall b acc n r tl, dec_b128 acc b = Some (n, r) -> dec_b128 acc (b ++ tl) = Some (n, r ++ tl).
Proof.
  induction b as [|o b IH]; intros acc n r tl H; [discriminate H|].
  cbn [dec_b128 app] in *. destruct (N.eqb (N.land o 128) 0).
  - inversion H; subst. reflexivity.
  - apply IH. exact H.
Qed.

Lemma dec_ident_app b t r tl : dec_ident b = Some (t, r) -> dec_ident (b ++ tl) = Some (t, r ++ tl).
Proof.
  destruct b as [|o b]; [discriminate|]. cbn [dec_ident app]. cbv zeta.
  destruct (N.eqb (N.land o 31) 31).
  - destruct (dec_b128 0 b) as [[num r']|] eqn:E; [|discriminate]. intros H. inversion H; subst.
    rewrite (dec_b128_app b 0 num r tl E). reflexivity.
  - intros H. inversion H; subst. reflexivity.
Qed.

Lemma dec_len_app b ol r tl : dec_len b = Some (ol, r) -> dec_len (b ++ tl) = Some (ol, r ++ tl).
Proof.
  destruct b as [|o b]; [discriminate|]. change ((o :: b) ++ tl) with (o :: (b ++ tl)). rewrite !dec_len_cons.
  destruct (N.ltb o 128); [intros H; inversion H; subst; reflexivity|].
  destruct (N.eqb o 128); [intros H; inversion H; subst; reflexivity|]. cbv zeta.
  destruct (Nat.ltb_spec (length b) (N.to_nat (N.land o 127))) as [Hs|Hs]; [discriminate|].
  intros H. inversion H; subst; clear H.
  destruct (Nat.ltb_spec (length (b ++ tl)) (N.to_nat (N.land o 127))) as [Hs2|_]; [rewrite app_length in Hs2; lia|].
  rewrite firstn_app, skipn_app.
  replace (N.to_nat (N.land o 127) - length b)%nat with 0%nat by lia. cbn [firstn skipn]. rewrite app_nil_r. reflexivity.
Qed.

Lemma dec_ident_len b t r : dec_ident b = Some (t, r) -> (length r < length b)%nat.
Proof.
  destruct b as [|o b]; [discriminate|]. cbn [dec_ident]. cbv zeta.
  destruct (N.eqb (N.land o 31) 31).
  - destruct (dec_b128 0 b) as [[num r']|] eqn:E; [|discriminate]. intros H. inversion H; subst.
    pose proof (b128_rest_le _ _ _ _ E). cbn [length]. lia.
  - intros H. inversion H; subst. cbn [length]. lia.
Qed.

Lemma dec_len_len b ol r : dec_len b = Some (ol, r) -> (length r < length b)%nat.
Proof.
  destruct b as [|o b]; [discriminate|]. rewrite dec_len_cons.
  destruct (N.ltb o 128); [intros H; inversion H; subst; cbn [length]; lia|].
  destruct (N.eqb o 128); [intros H; inversion H; subst; cbn [length]; lia|]. cbv zeta.
  destruct (Nat.ltb (length b) (N.to_nat (N.land o 127))); [discriminate|].
  intros H. inversion H; subst. rewrite skipn_length. cbn [length]. lia.
Qed.

(* one header in any form, definite length *)
Lemma dec_call_header_g : forall c f sp acc sfun bs tl t r1 n r2 s,
  dec_ident bs = Some (t, r1) -> dec_len r1 = Some (Some n, r2) ->
  avail s = bs ++ tl ->
  (length bs - length r1 <= S f)%nat ->
  resume (dec_call c (S f) sp acc None false sfun) s =
  resume (dispatch c (dec_call c f) f sp (t :: acc) (Some n) sfun)
         (adv (setmark s (pos s)) (length bs - length r2)).
Proof.
  intros c f sp acc sfun bs tl t r1 n r2 s Hid Hdl Hav Hlen.
  pose proof (dec_ident_len _ _ _ Hid) as L1. pose proof (dec_len_len _ _ _ Hdl) as L2.
  cbn [dec_call]. unfold dec_body. cbn [andb]. cbn [resume].
  set (s0 := setmark s (pos s)).
  assert (Hav0: avail s0 = bs ++ tl) by exact Hav.
  pose proof (dec_ident_app bs t r1 tl Hid) as Hid'.
  assert (Hcons: (length (bs ++ tl) - length (r1 ++ tl))%nat = (length bs - length r1)%nat) by (rewrite !app_length; lia).
  rewrite (resume_read_tag f (bs ++ tl) t (r1 ++ tl) s0 _ Hid' Hav0) by (rewrite Hcons; exact Hlen).
  rewrite Hcons.
  assert (Hav1: avail (adv s0 (length bs - length r1)) = r1 ++ tl).
  { rewrite avail_adv, Hav0.
    (* r1 is what remains of bs after the identifier octets *)
    assert (Hsuf: skipn (length bs - length r1) bs = r1).
    { clear - Hid. destruct bs as [|o b]; [discriminate|]. cbn [dec_ident] in Hid. cbv zeta in Hid.
      destruct (N.eqb (N.land o 31) 31).
      - destruct (dec_b128 0 b) as [[num r']|] eqn:E; [|discriminate]. inversion Hid; subst.
        pose proof (b128_rest_le _ _ _ _ E) as Hl. cbn [length].
        replace (S (length b) - length r1)%nat with (S (length b - length r1)) by lia. cbn [skipn].
        clear - E. revert E. generalize 0 as acc. induction b as [|x b IH]; intros acc E; [discriminate|].
        cbn [dec_b128] in E. destruct (N.eqb (N.land x 128) 0).
        + inversion E; subst. cbn [length]. replace (S (length r1) - length r1)%nat with 1%nat by lia. reflexivity.
        + pose proof (b128_rest_le _ _ _ _ E) as Hl. cbn [length].
          replace (S (length b) - length r1)%nat with (S (length b - length r1)) by lia. cbn [skipn]. exact (IH _ E).
      - inversion Hid; subst. cbn [length]. replace (S (length r1) - length r1)%nat with 1%nat by lia. reflexivity. }
    rewrite skipn_app. rewrite Hsuf. replace (length bs - length r1 - length bs)%nat with 0%nat by lia. reflexivity. }
  pose proof (dec_len_app r1 (Some n) r2 tl Hdl) as Hdl'.
  rewrite (resume_read_length c (r1 ++ tl) (Some n) (r2 ++ tl) _ _ Hdl' Hav1) by discriminate.
  rewrite adv_adv. f_equal. f_equal. rewrite !app_length. lia.
Qed.

(* what the check on the octets of an untagged ANY says *)
Lemma tlv_ok_inv b : tlv_ok b = true ->
  exists t r1 r2, dec_ident b = Some (t, r1) /\ dec_len r1 = Some (Some (N.of_nat (length r2)), r2)
    /\ (cls_eqb (tcls t) Univ && N.eqb (tnum t) 0)%bool = false.
Proof.
  unfold tlv_ok. intros H.
  destruct (dec_ident b) as [[t r1]|]; [|discriminate].
  destruct (dec_len r1) as [[[n|] r2]|] eqn:El; try discriminate.
  apply Bool.andb_true_iff in H. destruct H as [H1 H2].
  apply N.eqb_eq in H1. subst n.
  exists t, r1, r2. split; [reflexivity|]. split; [exact El|].
  destruct (cls_eqb (tcls t) Univ && N.eqb (tnum t) 0)%bool; [discriminate H2|reflexivity].
Qed.

Lemma frame_cons_flag t0 r content si : tcon t0 = true -> Forall explicit_like r ->
  frame (t0 :: r) content false def_opts si = frame (t0 :: r) content true def_opts si.
Proof.
  intros Hc Hex. cbn [frame]. rewrite !Bool.andb_false_r. cbn [o_def def_opts].
  rewrite (frame_one_con t0 true true si content Hc).
  destruct (frame_one t0 false true si content) as [s0|e]; cbn [bind]; [|reflexivity].
  rewrite (frame_outer_con r true true si s0 Hex). reflexivity.
Qed.

Section Stage3e.
  Variables ce cd : codec.
  Hypothesis Hce : enc_ok ce.
  Variable R : aval -> aval -> Prop.
  Variable srt : bool.
  Hypothesis HR : rel_ok R srt.

  Lemma any_codecs T' : base_of T' = TAny ->
    (exists fl, concrete_encoder ce T' = Ok (EcAny, fl) /\ ef_indef fl = true)
    /\ by_type cd T' = Some (DcAny, mkDecFlags true (Some KAny)).
  Proof.
    intros Hb. split.
    - rewrite concrete_encoder_base, Hb. destruct Hce as [E|E]; rewrite E; eexists; (split; [vm_compute; reflexivity|reflexivity]).
    - rewrite by_type_base, Hb. destruct cd; vm_compute; reflexivity.
  Qed.

  Lemma any_octets v : (match v with VAny _ | VOcts _ => true | _ => false end) = true ->
    exists bs, octets_of v = Some bs /\ abs TAny v = AAny bs.
  Proof. destruct v; intros H; try discriminate H; eexists; split; reflexivity. Qed.

  (* a tagged ANY holds any octets *)
  Lemma any_val_tagged srt0 T' : base_of T' = TAny -> is_wrapped T' = true -> stage3_ty srt0 ce T' = true ->
    forall v, stage3_val ce cd T' v = true -> val_ok ce cd R T' v.
  Proof.
    intros Hb Hwr Hty v Hv b He Hmax.
    assert (Hub: untagged_base T' = true) by (unfold untagged_base; rewrite Hb; reflexivity).
    destruct (tagset_shape_u srt0 ce T' Hty Hub Hwr) as (t0 & r & Hts & Hc0 & Hexall & Hd).
    inversion Hexall as [|? ? _ Hex]; subst.
    assert (Hnc: match T' with TChoice _ => False | _ => True end) by (destruct T'; try exact I; discriminate Hwr).
    assert (Hvo: (match v with VAny _ | VOcts _ => true | _ => false end) = true).
    { clear - Hb Hwr Hv. revert Hb Hv. induction T' as [| | | | | | | | n|fs IH|fs IH|t IH|t IH|alts IH| |tg x IH|tg x IH] using ty_ind';
        intros Hb Hv; try discriminate Hwr; cbn [base_of] in Hb; cbn [stage3_val] in Hv; rewrite Hb in Hv; exact Hv. }
    destruct (any_octets v Hvo) as (bs & Hoct & Habs).
    destruct (any_codecs T' Hb) as [(fl & Hcenc & Hsi) Hby].
    destruct (enc_with_inv_g ce Hce _ _ b He) as (ec & fl' & ts & content & cns & Hcenc' & Hts' & Hcont & Hfr).
    rewrite Hcenc in Hcenc'. inversion Hcenc'; subst ec fl'; clear Hcenc'.
    rewrite Hts in Hts'. inversion Hts'; subst ts; clear Hts'.
    rewrite enc_content_base, Hb in Hcont. cbn [enc_content] in Hcont. rewrite Hoct in Hcont.
    inversion Hcont; subst content cns; clear Hcont. cbn [o_def def_opts negb] in Hfr.
    rewrite (frame_cons_flag t0 r bs _ Hc0 Hex) in Hfr.
    pose proof (frame_len_r _ _ _ _ _ _ Hfr) as Hlr.
    exists t0, r, bs, (ef_indef fl), (VAny bs).
    split; [rewrite (wire_tags_plain T' _ Hnc); apply tagset_of'_ok; exact Hts|].
    split; [exact Hex|]. split; [lia|]. split; [rewrite Hc0; exact Hfr|].
    split; [rewrite (wire_tags_plain T' _ Hnc); apply tagset_of'_ok; exact Hts|].
    split.
    { rewrite (abs_wrappers T' (VAny bs)), (abs_wrappers T' v), Hb, Habs. apply (r_refl _ _ HR). }
    exists DcAny, (mkDecFlags true (Some KAny)). split; [exact Hby|].
    intros f Hf. cbn [dec_value]. unfold dec_any.
    rewrite (tagset_of'_ok T' _ Hts), tagset_eqb_refl. cbn [negb pbind].
    apply consumes_ret; [split; lia|]. unfold create. rewrite Hb. reflexivity.
  Qed.

  (* the untagged ANY guided by its own type: the decoder goes back to the start of the header *)
  Lemma any_item v : stage3_val ce cd TAny v = true -> item_sty ce cd R TAny v.
  Proof.
    intros Hv p Ep Hmax.
    assert (Hvo: exists bs, octets_of v = Some bs /\ abs TAny v = AAny bs /\ tlv_ok bs = true).
    { destruct v; try discriminate Hv; eexists; (split; [reflexivity|split; [reflexivity|exact Hv]]). }
    destruct Hvo as (bs & Hoct & Habs & Htlv).
    destruct (any_codecs TAny eq_refl) as [(fl & Hcenc & Hsi) Hby].
    destruct (enc_with_inv_g ce Hce _ _ p Ep) as (ec & fl' & ts & content & cns & Hcenc' & Hts' & Hcont & Hfr).
    rewrite Hcenc in Hcenc'. inversion Hcenc'; subst ec fl'; clear Hcenc'.
    cbn [tagset_of] in Hts'. inversion Hts'; subst ts; clear Hts'.
    cbn [enc_content] in Hcont. rewrite Hoct in Hcont. inversion Hcont; subst content cns; clear Hcont.
    cbn [frame] in Hfr. inversion Hfr; subst p; clear Hfr.
    destruct (tlv_ok_inv bs Htlv) as (t & r1 & content & Hid & Hdl & Hneoo).
    pose proof (dec_ident_len _ _ _ Hid) as L1. pose proof (dec_len_len _ _ _ Hdl) as L2.
    exists (VAny bs). split; [rewrite Habs; apply (r_refl _ _ HR)|].
    split; [lia|].
    intros f Hf. unfold fuel_ok in Hf. cbn [ty_depth] in Hf.
    destruct f as [|f']; [lia|].
    intros s tl Hav.
    rewrite (dec_call_header_g cd f' (STy TAny) [] false bs tl t r1 _ content s Hid Hdl Hav) by lia.
    set (hl := (length bs - length content)%nat).
    set (s1 := adv (setmark s (pos s)) hl).
    (* the dispatch: the untagged ANY takes every tag but the end-of-octets marker *)
    unfold dispatch.
    assert (Hcontains: (tagset_eqb [t] (tagset_of' TAny) || tm_contains (tagmap_of TAny) [t])%bool = true).
    { cbn [tagset_of' tagset_of tagmap_of]. unfold tm_contains, tm_find, tm_mem, eoo_tagset. cbn [tm_present tm_default tm_skip assoc existsb].
      change (tagset_eqb [t] []) with false. cbn [orb].
      change (tagset_eqb [t] [utag false 0]) with (tag_eqb t (utag false 0) && true)%bool.
      unfold tag_eqb, utag. cbn [tcls tnum]. rewrite Hneoo. reflexivity. }
    rewrite Hcontains. change (tm_postponed (tagmap_of TAny)) with false. cbv iota. rewrite Hby.
    rewrite resume_tell. cbn [dec_value]. unfold dec_any.
    change (tagset_eqb [t] (tagset_of' TAny)) with false. cbn [negb].
    (* back to the mark, then the whole TLV *)
    assert (Hlenb: length bs = (hl + length content)%nat) by (subst hl; lia).
    set (s2 := setpos s1 (pos s1 - (pos s1 - mark s1))).
    assert (Hstep1: resume (let! m := getmark in let! p := tell in
                            SeekBack (p - m) (Ret (N.of_nat (length content) + N.of_nat (p - m)))) s1
                    = inr (Ok (N.of_nat (length bs)), s2)).
    { unfold getmark, tell. cbn [pbind resume]. fold s2. f_equal. f_equal. f_equal.
      change (mark s1) with (pos s). change (pos s1) with (pos s + hl)%nat. lia. }
    assert (Hs2: avail s2 = bs ++ tl).
    { subst s2. unfold avail, setpos. cbn [pos arrived]. change (mark s1) with (pos s). change (pos s1) with (pos s + hl)%nat.
      replace (pos s + hl - (pos s + hl - pos s))%nat with (pos s) by lia. exact Hav. }
    assert (Hps2: pos s2 = pos s).
    { subst s2. unfold setpos. cbn [pos]. change (mark s1) with (pos s). change (pos s1) with (pos s + hl)%nat. lia. }
    assert (Hstep2: resume (let! len' := (let! m := getmark in let! p := tell in
                                          SeekBack (p - m) (Ret (N.of_nat (length content) + N.of_nat (p - m)))) in
                            let! b := read_len f' len' in create (Some TAny) TAny [t] (VAny b)) s1
                    = inr (Ok (DV TAny (VAny bs)), adv s2 (length bs))).
    { rewrite (resume_pbind_done _ _ _ _ _ Hstep1).
      rewrite (resume_read_len f' bs tl s2 _ Hs2 Hmax) by lia. reflexivity. }
    rewrite (resume_pbind_done _ _ _ _ _ Hstep2). rewrite resume_tell.
    change (pos (adv s2 (length bs))) with (pos s2 + length bs)%nat. rewrite Hps2.
    change (pos s1) with (pos s + hl)%nat.
    replace (pos s + length bs - (pos s + hl))%nat with (length content) by lia.
    rewrite N.eqb_refl. cbn [resume].
    exists (adv s2 (length bs)). split; [reflexivity|]. split; [rewrite pos_adv, Hps2; reflexivity|]. split; reflexivity.
  Qed.
End Stage3e.

Lemma frag_all : forall T, frag true true T = true.
Proof.
  induction T as [| | | | | | | | n|fs IH|fs IH|t IH|t IH|alts IH| |tg x IH|tg x IH] using ty_ind'; try reflexivity; cbn [frag]; try exact IH.
  - apply forallb_forall. intros f Hin. rewrite Forall_forall in IH. exact (IH f Hin).
  - cbn [andb]. apply forallb_forall. intros f Hin. rewrite Forall_forall in IH. exact (IH f Hin).
  - apply forallb_forall. intros a Hin. rewrite Forall_forall in IH. exact (IH a Hin).
Qed.

(* the induction for the whole universe, for any admissible relation between abstract contents *)
Theorem stage3_generic : forall ce cd R srt, enc_ok ce -> rel_ok R srt -> forall T v b tl,
  stage3_ty srt ce T = true -> stage3_val ce cd T v = true ->
  encode ce true 0 T v = Ok b -> N.of_nat (length b) <= index_max ->
  exists v', decode cd (Some T) (b ++ tl) = Ok (DV T v', tl) /\ R (abs T v') (abs T v).
Proof.
  intros ce cd R srt Hce HR T v b tl Hty Hv He Hmax.
  apply (stage3_decode ce cd Hce R srt HR true true); try assumption.
  - intros _ T' fs. exact (set_val ce cd Hce R srt HR (Pv3 ce cd) T' fs).
  - intros _ x Hx. exact (any_item ce cd Hce R srt HR x Hx).
  - intros _ T' Hb Hwr Hty' x Hx. exact (any_val_tagged ce cd Hce R srt HR srt T' Hb Hwr Hty' x Hx).
  - apply frag_all.
Qed.

(* Round trip, stage 3: the whole universe - simple types, SEQUENCE OF, SET OF, SEQUENCE and SET with
   mandatory, OPTIONAL and DEFAULT components, CHOICE, ANY, IMPLICIT/EXPLICIT tagging, to any depth -
   written by the BER or the DER encoder (definite lengths, unsegmented), read by the BER, the CER or the
   DER decoder.  [stage3_ty false ce]: the well-formedness the decoder needs (keys of the siblings of a SET,
   of a CHOICE, of a run of OPTIONAL components are not suffixes of one another; untagged ANY only where
   the type guides the decoder directly; no IMPLICIT tag directly on CHOICE/ANY); SET OF only with the BER
   encoder here (the DER encoder sorts the elements: see [roundtrip_stage3_bag]).  [stage3_val ce cd]: the
   value fits the type, leaves as in stage 1, a present OPTIONAL component is not emptied by the DER
   encoder (defect F24), an untagged ANY holds one TLV of definite length (header in any form). *)
Theorem roundtrip_stage3 : forall ce cd T v b tl,
  enc_ok ce -> stage3_ty false ce T = true -> stage3_val ce cd T v = true ->
  encode ce true 0 T v = Ok b -> N.of_nat (length b) <= index_max ->
  exists v', decode cd (Some T) (b ++ tl) = Ok (DV T v', tl) /\ abs T v' = abs T v.
Proof.
  intros ce cd T v b tl Hce Hty Hv He Hmax.
  exact (stage3_generic ce cd eq false Hce rel_ok_eq T v b tl Hty Hv He Hmax).
Qed.

Print Assumptions roundtrip_stage3.

(* ---------- SET OF under the sorting encoder: contents compared as multisets ---------- *)

(* equality of abstract contents up to the order of the elements of SET OF (ABag), at any depth *)
Inductive aeq : aval -> aval -> Prop :=
| aeq_refl a : aeq a a
| aeq_list xs ys : Forall2 aeq xs ys -> aeq (AList xs) (AList ys)
| aeq_bag xs ys zs : Permutation xs zs -> Forall2 aeq zs ys -> aeq (ABag xs) (ABag ys)
| aeq_rec xs ys : Forall2 (opt_rel aeq) xs ys -> aeq (ARec xs) (ARec ys)
| aeq_choice i a b : aeq a b -> aeq (AChoice i a) (AChoice i b).

Lemma rel_ok_aeq : rel_ok aeq true.
Proof.
  constructor.
  - exact aeq_refl.
  - exact aeq_list.
  - intros xs ys H. exact (aeq_bag xs ys xs (Permutation_refl _) H).
  - exact aeq_rec.
  - exact aeq_choice.
  - intros _ xs ys zs Hp HF. exact (aeq_bag xs ys zs Hp HF).
Qed.

(* Round trip, stage 3, with SET OF under the DER encoder as well *)
Theorem roundtrip_stage3_bag : forall ce cd T v b tl,
  enc_ok ce -> stage3_ty true ce T = true -> stage3_val ce cd T v = true ->
  encode ce true 0 T v = Ok b -> N.of_nat (length b) <= index_max ->
  exists v', decode cd (Some T) (b ++ tl) = Ok (DV T v', tl) /\ aeq (abs T v') (abs T v).
Proof.
  intros ce cd T v b tl Hce Hty Hv He Hmax.
  exact (stage3_generic ce cd aeq true Hce rel_ok_aeq T v b tl Hty Hv He Hmax).
Qed.

Print Assumptions roundtrip_stage3_bag.

(* the hypotheses are met (BER encoder and decoder for the first, DER encoder and decoder for the second):
   [APPLICATION 9] EXPLICIT SEQUENCE { ANY, [0] EXPLICIT ANY OPTIONAL,
       SET { [1] IMPLICIT [2] EXPLICIT ANY OPTIONAL, BOOLEAN DEFAULT FALSE, CHOICE { INTEGER, [3] EXPLICIT SEQUENCE OF ANY } },
       SET OF ANY, UTF8String OPTIONAL } *)
Definition stage3_example_ty : ty :=
  TExp (mkTag Appl false 9)
   (TSeq [ (Req, TAny);
           (Opt, TExp (mkTag Ctx false 0) TAny);
           (Req, TSet [ (Opt, TImp (mkTag Ctx false 1) (TExp (mkTag Ctx false 2) TAny));
                        (Def (VBool false), TBool);
                        (Req, TChoice [TInt; TExp (mkTag Ctx false 3) (TSeqOf TAny)]) ]);
           (Req, TSetOf TAny);
           (Opt, TStr 12) ]).
Definition stage3_example_val : val :=
  VRec [ Some (VAny [4; 2; 7; 8]);
         Some (VAny [255; 255; 255]);
         Some (VRec [ Some (VOcts [1; 2; 3]); Some (VBool true); Some (VChoice 1 (VList [VAny [5; 0]; VAny [160; 3; 2; 1; 5]])) ]);
         Some (VList [VAny [2; 1; 9]; VAny [1; 1; 0]]);
         None ].

Example roundtrip_stage3_nonvacuous :
  stage3_ty false BER stage3_example_ty = true
  /\ stage3_val BER BER stage3_example_ty stage3_example_val = true
  /\ encode BER true 0 stage3_example_ty stage3_example_val
     = Ok [105; 40; 48; 38; 4; 2; 7; 8; 160; 3; 255; 255; 255; 49; 19; 161; 3; 1; 2; 3; 1; 1; 1; 163; 9; 48; 7; 5; 0;
           160; 3; 2; 1; 5; 49; 6; 2; 1; 9; 1; 1; 0]
  /\ N.of_nat 42 <= index_max.
Proof. vm_compute. repeat split; try reflexivity; discriminate. Qed.

Example roundtrip_stage3_bag_nonvacuous :
  stage3_ty true DER stage3_example_ty = true
  /\ stage3_val DER DER stage3_example_ty stage3_example_val = true
  /\ encode DER true 0 stage3_example_ty stage3_example_val
     = Ok [105; 40; 48; 38; 4; 2; 7; 8; 160; 3; 255; 255; 255; 49; 19; 1; 1; 255; 161; 3; 1; 2; 3; 163; 9; 48; 7; 5; 0;
           160; 3; 2; 1; 5; 49; 6; 1; 1; 0; 2; 1; 9]
  /\ N.of_nat 42 <= index_max.
Proof. vm_compute. repeat split; try reflexivity; discriminate. Qed.

(* with equality instead of [aeq] the statement is false for the DER encoder: the elements come back sorted *)
Example der_setof_reorders :
  encode DER true 0 (TSetOf TInt) (VList [VInt 2; VInt 1]) = Ok [49; 6; 2; 1; 1; 2; 1; 2]
  /\ decode DER (Some (TSetOf TInt)) [49; 6; 2; 1; 1; 2; 1; 2] = Ok (DV (TSetOf TInt) (VList [VInt 1; VInt 2]), [])
  /\ abs (TSetOf TInt) (VList [VInt 1; VInt 2]) <> abs (TSetOf TInt) (VList [VInt 2; VInt 1])
  /\ aval_eqb (abs (TSetOf TInt) (VList [VInt 1; VInt 2])) (abs (TSetOf TInt) (VList [VInt 2; VInt 1])) = true.
Proof. vm_compute. repeat split; try reflexivity; discriminate. Qed.

(* an untagged ANY may hold a TLV whose length is not in the minimal form *)
Example any_nonminimal_header :
  stage3_val BER DER (TSeqOf TAny) (VList [VAny [4; 129; 1; 7]]) = true
  /\ encode BER true 0 (TSeqOf TAny) (VList [VAny [4; 129; 1; 7]]) = Ok [48; 4; 4; 129; 1; 7]
  /\ decode DER (Some (TSeqOf TAny)) [48; 4; 4; 129; 1; 7] = Ok (DV (TSeqOf TAny) (VList [VAny [4; 129; 1; 7]]), []).
Proof. vm_compute. repeat split; reflexivity. Qed.

(* ---------- where the untagged ANY is excluded, the round trip is FALSE of the model ---------- *)

(* (1) an untagged ANY ending a run of OPTIONAL components: the catch-all entry of the run's tag map takes the outer
   tag of an EXPLICIT-tagged OPTIONAL component for the ANY, and the input is refused:
   SEQUENCE { [0] EXPLICIT INTEGER OPTIONAL, ANY } with the optional component present *)
Example any_after_optional_explicit :
  let T := TSeq [(Opt, TExp (mkTag Ctx false 0) TInt); (Req, TAny)] in
  let v := VRec [Some (VInt 5); Some (VAny [5; 0])] in
  stage3_ty false BER T = false                                  (* only because of the keys of the run *)
  /\ stage3_val BER BER T v = true
  /\ encode BER true 0 T v = Ok [48; 7; 160; 3; 2; 1; 5; 5; 0]
  /\ decode BER (Some T) [48; 7; 160; 3; 2; 1; 5; 5; 0] = Err EMalformed
  /\ (* with the optional component absent, or tagged IMPLICIT, it is accepted *)
     decode BER (Some T) [48; 2; 5; 0] = Ok (DV T (VRec [None; Some (VAny [5; 0])]), [])
  /\ decode BER (Some (TSeq [(Opt, TImp (mkTag Ctx false 0) TInt); (Req, TAny)])) [48; 5; 128; 1; 5; 5; 0]
     = Ok (DV (TSeq [(Opt, TImp (mkTag Ctx false 0) TInt); (Req, TAny)]) (VRec [Some (VInt 5); Some (VAny [5; 0])]), []).
Proof. vm_compute. repeat split; reflexivity. Qed.

(* (2) an untagged ANY as alternative of an untagged CHOICE: formerly the ANY came back without its header octets (the
   marked position was reset when the CHOICE decoder re-entered the item decoder); since the repair of the library the
   element-start mark is kept on re-entry and the round trip holds on this input.  The case stays outside [stage3_ty]
   (the empty key of the ANY is refused by [keys_ok]): the ANY is the catch-all of the tag map, so it also takes the
   outer tag of an EXPLICIT-tagged sibling, as in (1) - see the last line. *)
Example any_alternative_keeps_header :
  let T := TChoice [TInt; TAny] in
  stage3_ty false BER T = false
  /\ encode BER true 0 T (VChoice 1 (VAny [5; 0])) = Ok [5; 0]
  /\ decode BER (Some T) [5; 0] = Ok (DV T (VChoice 1 (VAny [5; 0])), [])
  /\ decode DER (Some T) [4; 129; 1; 9] = Ok (DV T (VChoice 1 (VAny [4; 129; 1; 9])), [])
  /\ decode BER (Some T) [2; 1; 7] = Ok (DV T (VChoice 0 (VInt 7)), [])
  /\ (let T2 := TChoice [TExp (mkTag Ctx false 0) TInt; TAny] in
      encode BER true 0 T2 (VChoice 0 (VInt 5)) = Ok [160; 3; 2; 1; 5]
      /\ decode BER (Some T2) [160; 3; 2; 1; 5] = Ok (DV T2 (VChoice 1 (VAny [160; 3; 2; 1; 5])), [])).
Proof. vm_compute. repeat split; reflexivity. Qed.

(* what the non-emptiness condition on a present OPTIONAL component excludes: contents that are empty and either
   constructed (SEQUENCE / SET with nothing to write, SEQUENCE OF / SET OF without elements: defect F24) or not framed
   at all (an untagged ANY holding no octets) *)
Lemma nonempty_enc_false ce T v : enc_ok ce -> nonempty_enc ce T v = false ->
  exists ec fl ts cns, concrete_encoder ce T = Ok (ec, fl) /\ tagset_of T = Ok ts
    /\ enc_content ce T ec fl def_opts v = Ok ([], cns) /\ (ts = [] \/ cns = true).
Proof.
  intros Hce H. unfold nonempty_enc, encw, enc_with in H.
  assert (Hf1: fix_opts ce ifne_opts = ifne_opts) by (destruct Hce as [E|E]; rewrite E; reflexivity).
  rewrite Hf1 in H.
  destruct (concrete_encoder ce T) as [[ec fl]|e]; cbn [bind] in H; [|discriminate].
  destruct (tagset_of T) as [ts|e]; cbn [bind] in H; [|discriminate].
  change (mkOpts (o_def ifne_opts) (o_chunk ifne_opts) false) with def_opts in H.
  destruct (enc_content ce T ec fl def_opts v) as [[content cns]|e] eqn:Ec; cbn [bind] in H; [|discriminate].
  destruct ts as [|t0 r].
  - cbn [frame] in H. destruct content; [|discriminate H].
    exists ec, fl, [], cns. split; [reflexivity|]. split; [reflexivity|]. split; [exact Ec|]. left. reflexivity.
  - cbn [frame] in H. cbn [o_ifne o_def ifne_opts] in H.
    destruct content as [|c0 content].
    + destruct cns.
      * exists ec, fl, (t0 :: r), true. split; [reflexivity|]. split; [reflexivity|]. split; [exact Ec|]. right. reflexivity.
      * exfalso. cbn [andb] in H.
        destruct (frame_one t0 false true (ef_indef fl) []) as [s0|e] eqn:E0; cbn [bind] in H; [|discriminate].
        destruct (frame_outer r false true (ef_indef fl) s0) as [bb|e] eqn:E1; [|discriminate].
        pose proof (frame_outer_length _ _ _ _ _ E1) as Hl. destruct (frame_one_length _ _ _ _ _ E0) as (l & -> & Hl0).
        pose proof (enc_tag_nonempty t0 false). rewrite !app_length in Hl. destruct bb; [cbn [length] in Hl; lia|discriminate H].
    + exfalso. cbn [andb] in H.
      assert (Hd: (if cns then true else true) = true) by (destruct cns; reflexivity). rewrite Hd in H.
      destruct (frame_one t0 cns true (ef_indef fl) (c0 :: content)) as [s0|e] eqn:E0; cbn [bind] in H; [|discriminate].
      destruct (frame_outer r cns true (ef_indef fl) s0) as [bb|e] eqn:E1; [|discriminate].
      pose proof (frame_outer_length _ _ _ _ _ E1) as Hl. destruct (frame_one_length _ _ _ _ _ E0) as (l & -> & Hl0).
      rewrite !app_length in Hl. cbn [length] in Hl. destruct bb; [cbn [length] in Hl; lia|discriminate H].
Qed.

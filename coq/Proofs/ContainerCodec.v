(* C04 / C12 on the container model: the DER a container yields is a function of its abstract content
   (so of nothing in the way it was built), reads and encoding leave it alone, and independent
   machines (suspended decoders) do not disturb each other under any interleaving. *)
From Coq Require Import Lia.
From PV Require Import Spec.ListSpec Proofs.ContainerBase Proofs.ContainerSeqOf Proofs.ContainerChoice
                       Proofs.ContainerRecord Model.Proc Model.Enc Model.Dec Proofs.ContainerCodecDefs.
Local Open Scope nat_scope.

(* ---------- SEQUENCE OF / SET OF ---------- *)

Theorem factor_seqof ct isset ops1 ops2 :
  l_wf_hist ct isset None ops1 = true -> l_wf_hist ct isset None ops2 = true ->
  fst (l_run isset None ops1) = fst (l_run isset None ops2) ->
  fst (sof_run ct isset None ops1) = fst (sof_run ct isset None ops2) /\
  sof_observe ct isset (fst (sof_run ct isset None ops1)) = sof_observe ct isset (fst (sof_run ct isset None ops2)).
Proof.
  intros H1 H2 E. pose proof (sof_refines ct isset ops1 H1) as R1. pose proof (sof_refines ct isset ops2 H2) as R2.
  destruct (sof_run ct isset None ops1) as [s1 o1]. destruct (l_run isset None ops1) as [a1 p1].
  destruct (sof_run ct isset None ops2) as [s2 o2]. destruct (l_run isset None ops2) as [a2 p2].
  cbn [fst] in *. destruct R1 as (-> & _ & O1). destruct R2 as (-> & _ & O2). subst a2. split; reflexivity.
Qed.

Theorem encode_preserves_seqof ct isset a o : is_some a = true ->
  fst (sof_step ct isset (conc a) SEncode) = conc a /\
  (sof_reader o = true -> f18d ct a o = false ->
   snd (sof_step ct isset (fst (sof_step ct isset (conc a) o)) SEncode) = snd (sof_step ct isset (conc a) SEncode)).
Proof.
  intros Ha. split.
  - apply sof_reads_inert_partial; [reflexivity|reflexivity].
  - intros Hr Hx. rewrite (sof_reads_inert_partial ct isset a o Hr Hx). reflexivity.
Qed.

(* ---------- SEQUENCE / SET ---------- *)

Lemma out_abs_bytes x r : out_abs x = out_of_bytes r -> x = out_of_bytes r.
Proof. destruct r; cbn [out_of_bytes]; destruct x; cbn [out_abs]; intros E; try discriminate; exact E. Qed.

Lemma rec_encode_abs cfg isset s : has_req cfg = true -> rinv cfg s -> r_isvalue cfg (rabs cfg s) = true ->
  snd (rec_step cfg isset s REncode) = out_of_bytes (r_der cfg isset (rabs cfg s)).
Proof.
  intros Hreq Hinv Hv. destruct (rec_sim_step cfg isset s REncode Hreq Hinv Hv) as (_ & _ & Ho).
  apply out_abs_bytes. exact Ho.
Qed.

Theorem factor_record cfg isset ops1 ops2 : has_req cfg = true ->
  r_wf_hist cfg isset (r_init cfg) ops1 = true -> r_wf_hist cfg isset (r_init cfg) ops2 = true ->
  fst (r_run cfg isset (r_init cfg) ops1) = fst (r_run cfg isset (r_init cfg) ops2) ->
  let s1 := fst (rec_run cfg isset (Some []) ops1) in
  let s2 := fst (rec_run cfg isset (Some []) ops2) in
  rec_isvalue cfg s1 = rec_isvalue cfg s2 /\
  (rec_isvalue cfg s1 = true -> snd (rec_step cfg isset s1 REncode) = snd (rec_step cfg isset s2 REncode)).
Proof.
  intros Hreq H1 H2 E. pose proof (rec_refines cfg isset ops1 Hreq H1) as R1.
  pose proof (rec_refines cfg isset ops2 Hreq H2) as R2.
  destruct (rec_run cfg isset (Some []) ops1) as [s1 o1]. destruct (r_run cfg isset (r_init cfg) ops1) as [a1 p1].
  destruct (rec_run cfg isset (Some []) ops2) as [s2 o2]. destruct (r_run cfg isset (r_init cfg) ops2) as [a2 p2].
  cbn [fst] in *. destruct R1 as (A1 & _ & V1 & D1). destruct R2 as (A2 & _ & V2 & D2). subst a2.
  cbn zeta. split; [congruence|]. intros Hv. rewrite V1 in Hv. rewrite (D1 Hv), (D2 Hv). reflexivity.
Qed.

Theorem reads_preserve_der_record cfg isset s o : has_req cfg = true -> rinv cfg s ->
  rec_reader o = true -> r_isvalue cfg (rabs cfg s) = true ->
  snd (rec_step cfg isset (fst (rec_step cfg isset s o)) REncode) = snd (rec_step cfg isset s REncode).
Proof.
  intros Hreq Hinv Hr Hv. destruct (rec_reads_inert cfg isset s o Hinv Hr) as [Hinv' Ha].
  rewrite (rec_encode_abs cfg isset s Hreq Hinv Hv).
  rewrite (rec_encode_abs cfg isset _ Hreq Hinv') by (rewrite Ha; exact Hv). rewrite Ha. reflexivity.
Qed.

Lemma out_abs_bool x b : out_abs x = OBool b -> x = OBool b.
Proof. destruct x; cbn [out_abs]; intros E; try discriminate; exact E. Qed.

Theorem encode_preserves_record cfg isset s : has_req cfg = true -> rinv cfg s ->
  let s' := fst (rec_step cfg isset s REncode) in
  rinv cfg s' /\ rabs cfg s' = rabs cfg s /\ rec_isvalue cfg s' = rec_isvalue cfg s /\
  (r_isvalue cfg (rabs cfg s) = true -> snd (rec_step cfg isset s' REncode) = snd (rec_step cfg isset s REncode)) /\
  (forall l, all_explicit cfg (rabs cfg s) = true -> snd (rec_step cfg isset s' (REq l)) = snd (rec_step cfg isset s (REq l))).
Proof.
  intros Hreq Hinv. cbn zeta. destruct (rec_reads_inert cfg isset s REncode Hinv eq_refl) as [Hinv' Ha].
  split; [exact Hinv'|]. split; [exact Ha|]. split.
  - rewrite !isvalue_abs by auto. rewrite Ha. reflexivity.
  - split.
    + intros Hv. apply reads_preserve_der_record; auto.
    + intros l Hall.
      destruct (rec_sim_step cfg isset s (REq l) Hreq Hinv Hall) as (_ & _ & O1).
      destruct (rec_sim_step cfg isset _ (REq l) Hreq Hinv') as (_ & _ & O2); [cbn [r_wf]; rewrite Ha; exact Hall|].
      cbn [r_step snd] in O1, O2. rewrite Ha in O2.
      rewrite (out_abs_bool _ _ O1), (out_abs_bool _ _ O2). reflexivity.
Qed.

(* ---------- CHOICE ---------- *)

Theorem encode_preserves_choice cfg s : fst (ch_step cfg s REncode) = s.
Proof. cbn [ch_step]. destruct (c_cur s); reflexivity. Qed.

Lemma ch_encode_abs cfg s : no_def cfg = true -> cinv cfg s ->
  match cabs s with Some (_, Some _) => True | _ => False end ->
  snd (ch_step cfg s REncode) = snd (c_step cfg (cabs s) REncode).
Proof.
  intros Hnd Hinv Hv. destruct (ch_sim_step cfg s REncode Hnd Hinv) as (_ & _ & Ho).
  - unfold c_wf. cbn [f18a negb andb]. destruct (cabs s) as [[k [z|]]|]; try contradiction. reflexivity.
  - destruct (cabs s) as [[k [z|]]|] eqn:E; try contradiction. cbn [c_step snd] in *.
    destruct (snd (ch_step cfg s REncode)); cbn [out_abs] in Ho; try discriminate; exact Ho.
Qed.

Theorem factor_choice cfg ops1 ops2 : no_def cfg = true ->
  c_wf_hist cfg None ops1 = true -> c_wf_hist cfg None ops2 = true ->
  fst (c_run cfg None ops1) = fst (c_run cfg None ops2) ->
  match fst (c_run cfg None ops1) with Some (_, Some _) => True | _ => False end ->
  snd (ch_step cfg (fst (ch_run cfg ch_init ops1)) REncode) = snd (ch_step cfg (fst (ch_run cfg ch_init ops2)) REncode).
Proof.
  intros Hnd H1 H2 E Hv.
  destruct (ch_refines_from cfg Hnd ops1 ch_init (cinv_init cfg) H1) as [A1 _].
  destruct (ch_refines_from cfg Hnd ops2 ch_init (cinv_init cfg) H2) as [A2 _].
  change (cabs ch_init) with (@None (nat * option Z)) in *.
  pose proof (cinv_run cfg ops1 ch_init (cinv_init cfg)) as I1.
  pose proof (cinv_run cfg ops2 ch_init (cinv_init cfg)) as I2.
  rewrite (ch_encode_abs cfg _ Hnd I1) by (rewrite A1; exact Hv).
  rewrite (ch_encode_abs cfg _ Hnd I2) by (rewrite A2, <- E; exact Hv).
  rewrite A1, A2, E. reflexivity.
Qed.

(* ---------- interleaving ---------- *)

Section Interleave.
  Context {St Ev: Type} (step: St -> Ev -> St).

  Lemma nth_error_set_nth_same (ss: list St) i x s : nth_error ss i = Some s -> nth_error (set_nth i x ss) i = Some x.
  Proof. revert i; induction ss as [|y ss IH]; intros [|i] H; cbn in *; try discriminate; auto. Qed.

  Lemma nth_error_set_nth_other (ss: list St) i j x : i <> j -> nth_error (set_nth j x ss) i = nth_error ss i.
  Proof. revert i j; induction ss as [|y ss IH]; intros [|i] [|j] H; cbn; auto; try congruence. Qed.

  (* machine i ends where it ends alone on its own events, whatever the others did in between *)
  Theorem interleave : forall (w: list (nat * Ev)) (ss: list St) i s, nth_error ss i = Some s ->
    nth_error (prun step ss w) i = Some (fold_left step (proj i w) s).
  Proof.
    induction w as [|[j e] w IH]; intros ss i s H; [exact H|].
    unfold prun in *. cbn [fold_left]. unfold proj in *. cbn [filter fst].
    destruct (Nat.eqb_spec j i) as [->|Hne].
    - cbn [map snd fold_left]. apply IH. unfold pstep. cbn [fst snd]. rewrite H.
      apply (nth_error_set_nth_same ss i _ s H).
    - apply IH. unfold pstep. cbn [fst snd]. destruct (nth_error ss j); [|exact H].
      rewrite nth_error_set_nth_other by auto. exact H.
  Qed.

  Theorem interleave_length : forall (w: list (nat * Ev)) (ss: list St), length (prun step ss w) = length ss.
  Proof.
    induction w as [|[j e] w IH]; intros ss; [reflexivity|]. unfold prun in *. cbn [fold_left]. rewrite IH.
    unfold pstep. destruct (nth_error ss (fst (j, e))); [apply set_nth_length|reflexivity].
  Qed.
End Interleave.

Theorem interleave_decoders {A} (w: list (nat * envev)) (ds: list (dstate A)) i d :
  nth_error ds i = Some d ->
  nth_error (prun dstep ds w) i = Some (fold_left dstep (proj i w) d).
Proof. apply interleave. Qed.

(* the model's codec functions are functions *)
Theorem model_deterministic : forall c1 c2 d1 d2 k1 k2 T1 T2 v1 v2 b1 b2,
  c1 = c2 -> d1 = d2 -> k1 = k2 -> T1 = T2 -> v1 = v2 -> b1 = b2 ->
  encode c1 d1 k1 T1 v1 = encode c2 d2 k2 T2 v2 /\ decode c1 (Some T1) b1 = decode c2 (Some T2) b2.
Proof. intros; subst; split; reflexivity. Qed.

(* ---------- SEQUENCE OF / SET OF: the order in which the positions were first assigned ---------- *)

Lemma dget_dset k k' v (d: dict) : dget k (dset k' v d) = if Nat.eqb k k' then Some v else dget k d.
Proof.
  induction d as [|[j w] d IH]; cbn [dset dget].
  - destruct (Nat.eqb k k'); reflexivity.
  - destruct (Nat.eqb_spec k' j) as [->|Hne]; cbn [dget].
    + destruct (Nat.eqb_spec k j); reflexivity.
    + rewrite IH. destruct (Nat.eqb_spec k j) as [->|]; [|reflexivity].
      destruct (Nat.eqb_spec j k'); [congruence|reflexivity].
Qed.

(* the encoder walks positions 0 .. len-1 in ascending order and looks each one up: on a state without
   holes or placeholders what it emits is a function of the lookup, not of the dict's insertion order *)
Lemma sof_chunks_full ct (d: dict) (val: nat -> Z) n : slen (Some d) = n ->
  (forall k, k < n -> dget k d = Some (CVal (val k))) ->
  forall m from acc, from + m <= n ->
  sof_chunks ct (Some d) from m acc =
  (Some d, Ok (rev acc ++ map (fun k => int_tlv tag_integer (val k)) (seq from m))).
Proof.
  intros Hn Hv. induction m as [|m IH]; intros from acc H; cbn [sof_chunks seq map].
  - rewrite app_nil_r. reflexivity.
  - unfold sof_get. rewrite norm_idx_nat. unfold sget. cbn [sdict]. rewrite (Hv from) by lia.
    rewrite IH by lia. cbn [rev]. rewrite <- app_assoc. reflexivity.
Qed.

Theorem seqof_assignment_order ct isset (d1 d2: dict) (val: nat -> Z) n :
  slen (Some d1) = n -> slen (Some d2) = n ->
  (forall k, k < n -> dget k d1 = Some (CVal (val k))) ->
  (forall k, k < n -> dget k d2 = Some (CVal (val k))) ->
  snd (sof_step ct isset (Some d1) SEncode) = snd (sof_step ct isset (Some d2) SEncode) /\
  fst (sof_step ct isset (Some d1) SEncode) = Some d1 /\
  snd (sof_step ct isset (Some d1) SIter) = OSlots (map (fun k => Some (CVal (val k))) (seq 0 n)).
Proof.
  intros H1 H2 V1 V2. cbn [sof_step]. rewrite H1, H2.
  rewrite (sof_chunks_full ct d1 val n H1 V1 n 0 []) by lia.
  rewrite (sof_chunks_full ct d2 val n H2 V2 n 0 []) by lia.
  split; [reflexivity|]. split; [reflexivity|].
  assert (G: forall m from acc, from + m <= n ->
             sof_iter ct (Some d1) from m acc = (Some d1, Ok (rev acc ++ map (fun k => Some (CVal (val k))) (seq from m)))).
  { induction m as [|m IH]; intros from acc H; cbn [sof_iter seq map].
    - rewrite app_nil_r. reflexivity.
    - unfold sof_get. rewrite norm_idx_nat. unfold sget. cbn [sdict]. rewrite (V1 from) by lia.
      rewrite IH by lia. cbn [rev]. rewrite <- app_assoc. reflexivity. }
  rewrite (G n 0 []) by lia. reflexivity.
Qed.

(* s[2] = 30; s[1] = 20; s[0] = 10 against the ascending twin: different dicts, same lookup, same DER *)
Lemma seqof_assignment_order_example :
  let h1 := [SSetItem 2 (PInt 30); SSetItem 1 (PInt 20); SSetItem 0 (PInt 10)] in
  let h2 := [SSetItem 0 (PInt 10); SSetItem 1 (PInt 20); SSetItem 2 (PInt 30)] in
  fst (sof_run true false None h1) = Some [(2, CVal 30%Z); (1, CVal 20%Z); (0, CVal 10%Z)] /\
  fst (sof_run true false None h2) = Some [(0, CVal 10%Z); (1, CVal 20%Z); (2, CVal 30%Z)] /\
  snd (sof_step true false (fst (sof_run true false None h1)) SEncode) =
  snd (sof_step true false (fst (sof_run true false None h2)) SEncode) /\
  snd (sof_step true false (fst (sof_run true false None h1)) SEncode) = OBytes [48; 9; 2; 1; 10; 2; 1; 20; 2; 1; 30]%N.
Proof. repeat split. Qed.

(* The streaming properties (C05, C06, C07) of the decoder on what the BER encoder writes for the
   stage-2 types, UNCONDITIONALLY: the runs of the round trip never execute AtEOS / ReadAll, so
   the generic theorems of ProcSim / ProcSched about clean trees transfer to them. *)
From Coq Require Import Lia.
From PV Require Import Base.Bytes Model.Tag Model.TableTypes Model.Types Model.Proc Model.Enc Model.Dec Gen.Tables
     Proofs.ProcBind Proofs.RunLemmas Proofs.TagOctets Proofs.TagAlgebra Proofs.DecHeader Proofs.DecFrame Proofs.DecPrim
     Proofs.TagsetShape Proofs.Schemaless Proofs.RoundTrip1 Proofs.RoundTrip2
     Proofs.ProcSim Proofs.ProcSched Proofs.DecStream.

(* ====================================================================================== *)
(* Part 1: clean RUNS (any tree), transfer to the guarded tree, compositionality           *)
(* ====================================================================================== *)
Local Open Scope nat_scope.

(* the run of p from s, up to its end or its first suspension, executes neither AtEOS nor ReadAll *)
Fixpoint clean_run {A} (p: proc A) (s: stream) : bool :=
  match p with
  | Ret _ | Raise _ => true
  | ReadN n k => match attempt s n with (Got c, s') => clean_run (k c) s' | _ => true end
  | Tell k => clean_run (k (pos s)) s
  | SeekBack d k => clean_run k (setpos s (pos s - d))
  | Mark k => clean_run k (setmark s (pos s))
  | GetMark k => clean_run (k (mark s)) s
  | AtEOS _ | ReadAll _ => false
  end.

(* the outcome of a run with the suspended continuation guarded *)
Definition gmap {A} (u: err) (x: (proc A * stream) + (res A * stream)) : (proc A * stream) + (res A * stream) :=
  match x with inl (q, s) => inl (guard u q, s) | inr y => inr y end.

(* (1) transfer: on a clean run the guarded tree does what the tree does *)
Theorem clean_run_guard {A} (u: err) (p: proc A) : forall s,
  clean_run p s = true -> resume (guard u p) s = gmap u (resume p s).
Proof.
  induction p as [a0|e|n k IH|k IH|d k IH|k IH|k IH|k IH|k IH]; intros s H; cbn [guard resume clean_run] in *;
    try reflexivity; try discriminate; auto.
  destruct (attempt s n) as [[c| |] sm]; [apply IH; exact H|reflexivity|reflexivity].
Qed.

Corollary clean_run_guard_done {A} (u: err) (p: proc A) s r s' :
  clean_run p s = true -> resume p s = inr (r, s') -> resume (guard u p) s = inr (r, s').
Proof. intros Hc H. rewrite (clean_run_guard u p s Hc), H. reflexivity. Qed.

Corollary clean_run_guard_susp {A} (u: err) (p: proc A) s q s' :
  clean_run p s = true -> resume p s = inl (q, s') -> resume (guard u p) s = inl (guard u q, s').
Proof. intros Hc H. rewrite (clean_run_guard u p s Hc), H. reflexivity. Qed.

(* conversely: a guarded run that did not end in the guard's error was a clean run *)
Theorem guard_run_clean {A} (u: err) (p: proc A) : forall s r s',
  resume (guard u p) s = inr (r, s') -> r <> Err u -> clean_run p s = true.
Proof.
  induction p as [a0|e|n k IH|k IH|d k IH|k IH|k IH|k IH|k IH]; intros s r s' H Hne; cbn [guard resume clean_run] in *;
    try reflexivity; eauto.
  - destruct (attempt s n) as [[c| |] sm]; [eauto|reflexivity|reflexivity].
  - inversion H; subst. congruence.
  - inversion H; subst. congruence.
Qed.

(* trees without the two primitives run cleanly on every stream *)
Lemma clean_clean_run {A} (p: proc A) : clean p -> forall s, clean_run p s = true.
Proof.
  induction 1 as [a0|e|n k Hk IH|k Hk IH|d k Hk IH|k Hk IH|k Hk IH]; intros s; cbn [clean_run]; auto.
  destruct (attempt s n) as [[c| |] sm]; auto.
Qed.

(* compositionality *)
Theorem clean_run_pbind {A B} (p: proc A) (f: A -> proc B) : forall s,
  clean_run (pbind p f) s =
  clean_run p s && match resume p s with inr (Ok a, s1) => clean_run (f a) s1 | _ => true end.
Proof.
  induction p as [a0|e|n k IH|k IH|d k IH|k IH|k IH|k IH|k IH]; intros s; cbn [pbind resume clean_run andb]; auto.
  destruct (attempt s n) as [[c| |] sm]; [apply IH|reflexivity|reflexivity].
Qed.

Corollary clean_run_pbind_done {A B} (p: proc A) (f: A -> proc B) s a s1 :
  resume p s = inr (Ok a, s1) -> clean_run (pbind p f) s = clean_run p s && clean_run (f a) s1.
Proof. intros H. rewrite clean_run_pbind, H. reflexivity. Qed.

Corollary clean_run_pbind_intro {A B} (p: proc A) (f: A -> proc B) s :
  clean_run p s = true -> (forall a s1, resume p s = inr (Ok a, s1) -> clean_run (f a) s1 = true) ->
  clean_run (pbind p f) s = true.
Proof.
  intros Hp Hf. rewrite clean_run_pbind, Hp. cbn [andb].
  destruct (resume p s) as [[q sq]|[[a|e] s1]]; auto.
Qed.

Lemma clean_pbind {A B} (p: proc A) (f: A -> proc B) :
  clean p -> (forall a, clean (f a)) -> clean (pbind p f).
Proof. intros Hp Hf. induction Hp; cbn [pbind]; try constructor; auto. Qed.

(* a clean run followed by continuations that are clean trees *)
Corollary clean_run_pbind_k {A B} (p: proc A) (f: A -> proc B) s :
  clean_run p s = true -> (forall a, clean (f a)) -> clean_run (pbind p f) s = true.
Proof. intros Hp Hf. apply clean_run_pbind_intro; [exact Hp|]. intros a s1 _. apply clean_clean_run. apply Hf. Qed.

Lemma pbind_ret_done {A} (p: proc A) s a s1 :
  resume (pbind p Ret) s = inr (Ok a, s1) -> resume p s = inr (Ok a, s1).
Proof.
  intros H. destruct (resume_pbind_inv p Ret s a s1 H) as (a' & s' & Hp & Hr).
  cbn [resume] in Hr. inversion Hr; subst. exact Hp.
Qed.

(* stepping over a clean reader whose result is known (from the equational run lemmas, with g := Ret) *)
Lemma clean_run_step {A B} (p: proc A) (f: A -> proc B) s a s1 :
  clean p -> resume (pbind p Ret) s = inr (Ok a, s1) -> clean_run (pbind p f) s = clean_run (f a) s1.
Proof.
  intros Hc H. apply pbind_ret_done in H. rewrite (clean_run_pbind_done p f s a s1 H).
  rewrite (clean_clean_run p Hc s). reflexivity.
Qed.

Lemma clean_run_tell {A} s (f: nat -> proc A) : clean_run (pbind tell f) s = clean_run (f (pos s)) s.
Proof. reflexivity. Qed.

(* ---------- the same for runs that may ask AtEOS but never ReadAll (the item loop) ---------- *)
Fixpoint ra_free_run {A} (p: proc A) (s: stream) : bool :=
  match p with
  | Ret _ | Raise _ => true
  | ReadN n k => match attempt s n with (Got c, s') => ra_free_run (k c) s' | _ => true end
  | Tell k => ra_free_run (k (pos s)) s
  | SeekBack d k => ra_free_run k (setpos s (pos s - d))
  | Mark k => ra_free_run k (setmark s (pos s))
  | GetMark k => ra_free_run (k (mark s)) s
  | AtEOS k => if Nat.eqb (length (avail s)) 0 then (if closed s then ra_free_run (k true) s else true)
               else ra_free_run (k false) s
  | ReadAll _ => false
  end.

Definition gmap_ra {A} (u: err) (x: (proc A * stream) + (res A * stream)) : (proc A * stream) + (res A * stream) :=
  match x with inl (q, s) => inl (guard_ra u q, s) | inr y => inr y end.

Theorem ra_free_run_guard {A} (u: err) (p: proc A) : forall s,
  ra_free_run p s = true -> resume (guard_ra u p) s = gmap_ra u (resume p s).
Proof.
  induction p as [a0|e|n k IH|k IH|d k IH|k IH|k IH|k IH|k IH]; intros s H; cbn [guard_ra resume ra_free_run] in *;
    try reflexivity; try discriminate; auto.
  - destruct (attempt s n) as [[c| |] sm]; [apply IH; exact H|reflexivity|reflexivity].
  - destruct (Nat.eqb (length (avail s)) 0); [|auto]. destruct (closed s); [auto|reflexivity].
Qed.

Lemma clean_run_ra_free {A} (p: proc A) : forall s, clean_run p s = true -> ra_free_run p s = true.
Proof.
  induction p as [a0|e|n k IH|k IH|d k IH|k IH|k IH|k IH|k IH]; intros s H; cbn [clean_run ra_free_run] in *;
    try reflexivity; try discriminate; auto.
  destruct (attempt s n) as [[c| |] sm]; auto.
Qed.

Theorem ra_free_run_pbind {A B} (p: proc A) (f: A -> proc B) : forall s,
  ra_free_run (pbind p f) s =
  ra_free_run p s && match resume p s with inr (Ok a, s1) => ra_free_run (f a) s1 | _ => true end.
Proof.
  induction p as [a0|e|n k IH|k IH|d k IH|k IH|k IH|k IH|k IH]; intros s; cbn [pbind resume ra_free_run andb]; auto.
  - destruct (attempt s n) as [[c| |] sm]; [apply IH|reflexivity|reflexivity].
  - destruct (Nat.eqb (length (avail s)) 0); [|apply IH]. destruct (closed s); [apply IH|reflexivity].
Qed.


(* ====================================================================================== *)
(* Part 2: the runs of the stage-2 round trip are clean runs                               *)
(* ====================================================================================== *)
Local Open Scope N_scope.

(* p runs cleanly on every stream that starts with bs *)
Definition cleans {A} (p: proc A) (bs: bytes) : Prop :=
  forall s tl, avail s = bs ++ tl -> clean_run p s = true.

(* consumes, strengthened: the consuming run is a clean run *)
Definition consumes_clean (p: proc dval) (bs: bytes) (v: dval) : Prop :=
  forall s tl, avail s = bs ++ tl ->
  exists s', resume p s = inr (Ok v, s') /\ pos s' = (pos s + length bs)%nat
             /\ arrived s' = arrived s /\ closed s' = closed s /\ clean_run p s = true.

Lemma consumes_clean_split p bs v : consumes_clean p bs v <-> consumes p bs v /\ cleans p bs.
Proof.
  split.
  - intros H. split; intros s tl Hav; destruct (H s tl Hav) as (s' & Hr & Hp & Ha & Hc & Hcl); eauto 6.
  - intros [H1 H2] s tl Hav. destruct (H1 s tl Hav) as (s' & Hr & Hp & Ha & Hc).
    exists s'. repeat split; auto. exact (H2 s tl Hav).
Qed.

(* ---------- clean trees of the decoder ---------- *)
Lemma clean_readN n : clean (readN n).
Proof. constructor. intros b. constructor. Qed.

Lemma clean_read1 : clean read1.
Proof. unfold read1. apply clean_pbind; [apply clean_readN|]. intros b. constructor. Qed.

Lemma clean_lift {A} (r: res A) : clean (lift r).
Proof. destruct r; constructor. Qed.

Lemma clean_create sp proto ts v : clean (create sp proto ts v).
Proof.
  unfold create. destruct (base_of _); destruct v; try constructor;
    destruct (str_octets_ok _ _) as [[|]|]; constructor.
Qed.

Lemma clean_read_len lf n : clean (read_len lf n).
Proof. unfold read_len. destruct (N.ltb index_max n); [constructor|apply clean_readN]. Qed.

Lemma clean_long_tag cl f : forall k acc, clean (long_tag cl f k acc).
Proof.
  induction k as [|k IH]; intros acc; cbn [long_tag]; [constructor|].
  apply clean_pbind; [apply clean_read1|]. intros b.
  destruct (N.eqb (N.land b 128) 0); [constructor|apply IH].
Qed.

Lemma clean_read_tag lf : clean (read_tag lf).
Proof.
  unfold read_tag. apply clean_pbind; [apply clean_read1|]. intros o. cbv zeta.
  destruct (N.eqb (N.land o 31) 31); [apply clean_long_tag|constructor].
Qed.

Lemma clean_read_length c : clean (read_length c).
Proof.
  unfold read_length. apply clean_pbind; [apply clean_read1|]. intros o.
  destruct (N.ltb o 128); [constructor|].
  destruct (N.eqb o 128); [destruct (support_indef c); constructor|].
  apply clean_pbind; [apply clean_readN|]. intros b. constructor.
Qed.

(* every value decoder, handed a primitive encoding in definite form and no substrateFun, is a clean
   tree (whatever the recursive entry point is): it reads the contents and returns or raises *)
Lemma clean_prim_value rec lf cd fl T ts l :
  tag0_simple ts = true -> (match base_of T with TChoice _ => False | _ => True end) ->
  clean (dec_value rec lf cd fl (Some T) ts (Some l) false).
Proof.
  intros Hts Hb.
  assert (Hcons: tag0_cons ts = false).
  { unfold tag0_simple in Hts. unfold tag0_cons. destruct ts as [|t r]; [reflexivity|]. destruct (tcon t); [discriminate|reflexivity]. }
  destruct cd; cbn [dec_value]; rewrite ?Hcons; cbn [negb];
    try (constructor; fail).
  - (* integer *) unfold dec_integer. rewrite Hts. cbn [negb]. apply clean_pbind; [apply clean_read_len|]. intros b. apply clean_create.
  - unfold dec_integer. rewrite Hts. cbn [negb]. apply clean_pbind; [apply clean_read_len|]. intros b. apply clean_create.
  - unfold dec_bool_cer. destruct (negb (N.eqb l 1)); [constructor|].
    apply clean_pbind; [apply clean_read_len|]. intros b.
    destruct b as [|x [|y r]];
    repeat (match goal with |- clean (match ?x with _ => _ end) => destruct x end);
      try (constructor; fail); apply clean_create.
  - unfold dec_bits. rewrite Hts. destruct (N.eqb l 0); [constructor|].
    apply clean_pbind; [apply clean_read1|]. intros tb. destruct (N.ltb 7 tb); [constructor|].
    apply clean_pbind; [apply clean_read_len|]. intros b. apply clean_pbind; [apply clean_lift|]. intros bs. apply clean_create.
  - unfold dec_octets. rewrite Hts. apply clean_pbind; [apply clean_read_len|]. intros b. apply clean_create.
  - unfold dec_null. rewrite Hts. cbn [negb]. apply clean_pbind; [apply clean_read_len|]. intros b.
    destruct b; [apply clean_create|constructor].
  - unfold dec_oid_v. rewrite Hts. cbn [negb]. apply clean_pbind; [apply clean_read_len|]. intros b.
    apply clean_pbind; [apply clean_lift|]. intros a. apply clean_create.
  - unfold dec_real_v. rewrite Hts. cbn [negb]. apply clean_pbind; [apply clean_read_len|]. intros b.
    apply clean_pbind; [apply clean_lift|]. intros a. apply clean_create.
  - destruct (base_of T); try constructor. contradiction.
  - unfold dec_any. apply clean_pbind.
    + destruct (negb _); [|constructor]. constructor. intros m. constructor. intros p. constructor. constructor.
    + intros len'. apply clean_pbind; [apply clean_read_len|]. intros b. apply clean_create.
  - unfold dec_octets. rewrite Hts. apply clean_pbind; [apply clean_read_len|]. intros b. apply clean_create.
Qed.


(* ---------- the framing, level by level (cf. DecFrame.v) ---------- *)
Lemma dec_call_header_clean : forall c f sp acc sfun t cns n l body s,
  enc_len n false = Ok l ->
  avail s = enc_tag t cns ++ l ++ body ->
  (length (enc_tag t cns) <= S f)%nat ->
  clean_run (dec_call c (S f) sp acc None false sfun) s =
  clean_run (dispatch c (dec_call c f) f sp (wire t cns :: acc) (Some n) sfun)
            (adv (setmark s (pos s)) (length (enc_tag t cns) + length l)).
Proof.
  intros c f sp acc sfun t cns n l body s Hl Hav Hlen.
  cbn [dec_call]. unfold dec_body. cbn [andb]. cbn [clean_run].
  set (s0 := setmark s (pos s)).
  assert (Hav0: avail s0 = enc_tag t cns ++ l ++ body) by exact Hav.
  pose proof (dec_enc_tag t cns (l ++ body)) as Hid.
  assert (Hcons: (length (enc_tag t cns ++ l ++ body) - length (l ++ body))%nat = length (enc_tag t cns)).
  { rewrite app_length. lia. }
  assert (Htag: resume (pbind (read_tag f) Ret) s0 = inr (Ok (wire t cns), adv s0 (length (enc_tag t cns)))).
  { rewrite (resume_read_tag f (enc_tag t cns ++ l ++ body) (wire t cns) (l ++ body) s0 _ Hid Hav0) by (rewrite Hcons; exact Hlen).
    rewrite Hcons. reflexivity. }
  rewrite (clean_run_step _ _ _ _ _ (clean_read_tag f) Htag).
  pose proof (dec_enc_len n l body Hl) as Hdl.
  assert (Hav1: avail (adv s0 (length (enc_tag t cns))) = l ++ body) by (apply (avail_app_adv _ _ _ Hav0)).
  assert (Hlenr: resume (pbind (read_length c) Ret) (adv s0 (length (enc_tag t cns)))
                 = inr (Ok (Some n), adv s0 (length (enc_tag t cns) + length l))).
  { rewrite (resume_read_length c (l ++ body) (Some n) body _ _ Hdl Hav1) by discriminate.
    rewrite adv_adv. cbn [resume]. f_equal. f_equal. f_equal. rewrite app_length. lia. }
  rewrite (clean_run_step _ _ _ _ _ (clean_read_length c) Hlenr). reflexivity.
Qed.

Lemma clean_value_check (p0: nat) (l: N) (v: dval) :
  clean (let! p1 := tell in if N.eqb (N.of_nat (p1 - p0)) l then Ret v else Raise EMalformed).
Proof. constructor. intros q. cbn [pbind]. destruct (N.eqb _ l); constructor. Qed.

Lemma explicit_level_clean : forall c f T acc0 t si inner b,
  frame_one t false true si inner = Ok b ->
  tcon t = true -> tcls t <> Univ ->
  tagset_eqb (t :: acc0) (tagset_of' T) = false ->
  tm_contains (tagmap_of T) (t :: acc0) = false ->
  (length (enc_tag t false) <= S f)%nat ->
  cleans (dec_call c f (STy T) (t :: acc0) None false false) inner ->
  cleans (dec_call c (S f) (STy T) acc0 None false false) b.
Proof.
  intros c f T acc0 t si inner b Hfr Hcon Hcls Hne Hnm Hlen Hin s tl Hav.
  unfold frame_one in Hfr. cbn [negb andb] in Hfr.
  destruct (enc_len (N.of_nat (length inner)) false) as [l|e] eqn:El; cbn [bind] in Hfr; [|discriminate].
  inversion Hfr; subst b; clear Hfr. rewrite app_nil_r in Hav. rewrite <- !app_assoc in Hav.
  rewrite (dec_call_header_clean c f (STy T) acc0 false t false _ l (inner ++ tl) s El Hav Hlen).
  rewrite wire_false.
  set (s1 := adv (setmark s (pos s)) (length (enc_tag t false) + length l)).
  assert (Hav1: avail s1 = inner ++ tl).
  { subst s1. rewrite avail_adv, avail_setmark, Hav. rewrite app_assoc.
    rewrite <- app_length. apply skipn_app_exact. }
  clearbody s1.
  unfold dispatch. rewrite Hne, Hnm. cbn [orb]. rewrite Hcon. cbn [andb].
  assert (Hnu: negb (cls_eqb (tcls t) Univ) = true) by (destruct (tcls t); [congruence|reflexivity|reflexivity|reflexivity]).
  rewrite Hnu. rewrite clean_run_tell.
  unfold dec_raw.
  apply clean_run_pbind_k; [exact (Hin s1 tl Hav1)|]. intros v. apply clean_value_check.
Qed.

Lemma match_level_clean : forall c f T acc0 t0 cns si content b cd fl,
  frame_one t0 cns true si content = Ok b ->
  tagset_eqb (wire t0 cns :: acc0) (tagset_of' T) = true ->
  tm_postponed (tagmap_of T) = false ->
  by_type c T = Some (cd, fl) ->
  (length (enc_tag t0 cns) <= S f)%nat ->
  cleans (dec_value (dec_call c f) f cd fl (Some T) (wire t0 cns :: acc0) (Some (N.of_nat (length content))) false) content ->
  cleans (dec_call c (S f) (STy T) acc0 None false false) b.
Proof.
  intros c f T acc0 t0 cns si content b cd fl Hfr Heq Hpp Hby Hlen Hin s tl Hav.
  unfold frame_one in Hfr. cbn [negb andb] in Hfr.
  destruct (enc_len (N.of_nat (length content)) false) as [l|e] eqn:El; cbn [bind] in Hfr; [|discriminate].
  inversion Hfr; subst b; clear Hfr. rewrite app_nil_r in Hav. rewrite <- !app_assoc in Hav.
  rewrite (dec_call_header_clean c f (STy T) acc0 false t0 cns _ l (content ++ tl) s El Hav Hlen).
  set (s1 := adv (setmark s (pos s)) (length (enc_tag t0 cns) + length l)).
  assert (Hav1: avail s1 = content ++ tl).
  { subst s1. rewrite avail_adv, avail_setmark, Hav. rewrite app_assoc.
    rewrite <- app_length. apply skipn_app_exact. }
  clearbody s1.
  unfold dispatch. rewrite Heq. cbn [orb]. rewrite Hpp, Hby. rewrite clean_run_tell.
  apply clean_run_pbind_k; [exact (Hin s1 tl Hav1)|]. intros v. apply clean_value_check.
Qed.

Lemma peel_all_clean : forall c T f si r acc0 sub b,
  frame_outer r false true si sub = Ok b ->
  Forall explicit_like r ->
  Forall (fun t => (length (enc_tag t false) <= S f)%nat) r ->
  plain_map T ->
  length (tagset_of' T) = S (length r + length acc0) ->
  cleans (dec_call c f (STy T) (r ++ acc0) None false false) sub ->
  cleans (dec_call c (f + length r) (STy T) acc0 None false false) b.
Proof.
  intros c T f si r. induction r as [|tn r' IH] using rev_ind; intros acc0 sub b Hfr Hex Hlen Hpm Hts Hin.
  - cbn [frame_outer] in Hfr. inversion Hfr; subst. cbn [length app] in *. rewrite Nat.add_0_r. exact Hin.
  - rewrite frame_outer_snoc in Hfr.
    destruct (frame_outer r' false true si sub) as [inner|e] eqn:Ein; cbn [bind] in Hfr; [|discriminate].
    apply Forall_app in Hex. destruct Hex as [Hex' Hexn]. inversion Hexn as [|? ? [Hcon Hcls] _]; subst.
    apply Forall_app in Hlen. destruct Hlen as [Hlen' Hlenn]. inversion Hlenn as [|? ? Hl _]; subst.
    rewrite app_length in *. cbn [length] in *.
    replace (f + (length r' + 1))%nat with (S (f + length r')) by lia.
    assert (Hmis: tagset_eqb (tn :: acc0) (tagset_of' T) = false).
    { destruct (tagset_eqb (tn :: acc0) (tagset_of' T)) eqn:E; [|reflexivity].
      apply tagset_eqb_length in E. cbn [length] in E. lia. }
    apply (explicit_level_clean c (f + length r') T acc0 tn si inner b Hfr Hcon Hcls Hmis (plain_map_contains T _ Hpm Hmis)); [lia|].
    apply (IH (tn :: acc0) sub inner Ein Hex' Hlen' Hpm).
    + cbn [length]. lia.
    + rewrite <- app_assoc in Hin. exact Hin.
Qed.

(* every level of the framing the encoder wrote (cf. framed_consumes) *)
Theorem framed_clean : forall c T t0 r cns si content b f0 dcd dfl,
  tagset_of T = Ok (t0 :: r) -> tcon t0 = cns -> Forall explicit_like r -> plain_map T ->
  by_type c T = Some (dcd, dfl) ->
  frame (t0 :: r) content cns def_opts si = Ok b ->
  (length b <= S f0)%nat ->
  cleans (dec_value (dec_call c f0) f0 dcd dfl (Some T) (t0 :: r) (Some (N.of_nat (length content))) false) content ->
  cleans (dec_call c (S f0 + length r) (STy T) [] None false false) b.
Proof.
  intros c T t0 r cns si content b f0 dcd dfl Hts Hc0 Hex Hpm Hby He Hb Hval.
  cbn [frame] in He. rewrite Bool.andb_false_r in He. cbn [o_def def_opts] in He.
  assert (Hd: (if cns then true else true) = true) by (destruct cns; reflexivity). rewrite Hd in He. clear Hd.
  destruct (frame_one t0 cns true si content) as [s0|e] eqn:E0; cbn [bind] in He; [|discriminate].
  rewrite (frame_outer_con r cns true si s0 Hex) in He.
  pose proof (frame_outer_length _ _ _ _ _ He) as Hlen0.
  pose proof (frame_outer_taglens _ _ _ _ _ (S (S f0)) He ltac:(lia)) as Htl.
  apply (peel_all_clean c T (S f0) si r [] s0 b He Hex Htl Hpm).
  - rewrite (tagset_of'_ok T _ Hts). cbn [length]. lia.
  - rewrite app_nil_r.
    assert (Hw: wire t0 cns = t0).
    { destruct cns; [apply wire_con; exact Hc0|apply wire_false]. }
    apply (match_level_clean c f0 T r t0 cns si content s0 dcd dfl E0).
    + rewrite Hw, (tagset_of'_ok T _ Hts). apply tagset_eqb_refl.
    + rewrite Hpm. reflexivity.
    + exact Hby.
    + destruct (frame_one_length _ _ _ _ _ E0) as (l & -> & _). rewrite !app_length in Hlen0. lia.
    + rewrite Hw. exact Hval.
Qed.


(* ---------- the component loops ---------- *)
Section LoopsClean.
  Variable rec : spec -> tagset -> option (option N) -> bool -> bool -> proc dval.

  Definition elem_clean (t: ty) (p: bytes) : Prop := cleans (rec (STy t) [] None false false) p.

  Lemma listof_loop_clean T t : forall parts xs',
    Forall2 (elem_ok rec t) parts xs' -> Forall (elem_clean t) parts ->
    forall n acc start total s tl,
      (length parts < n)%nat ->
      avail s = concat parts ++ tl ->
      (start <= pos s)%nat ->
      (pos s - start + length (concat parts) = total)%nat ->
      clean_run (listof_loop rec T t (Some (N.of_nat total)) start n acc) s = true.
  Proof.
    intros parts xs' HF. induction HF as [|p x' parts xs' [Hp Hpl] HF IH]; intros HC n acc start total s tl Hn Hav Hst Htot.
    - destruct n as [|n']; [cbn [length] in Hn; lia|].
      cbn [listof_loop]. cbv zeta. rewrite clean_run_tell.
      cbn [concat length] in Htot.
      destruct (N.ltb_spec (N.of_nat (pos s - start)) (N.of_nat total)) as [Hlt|_]; [lia|].
      reflexivity.
    - destruct n as [|n']; [cbn [length] in Hn; lia|].
      pose proof (Forall_inv HC) as Hcp. pose proof (Forall_inv_tail HC) as HC'.
      cbn [listof_loop]. cbv zeta. rewrite clean_run_tell.
      cbn [concat] in Htot, Hav. rewrite app_length in Htot.
      destruct (N.ltb_spec (N.of_nat (pos s - start)) (N.of_nat total)) as [_|Hge]; [|lia].
      cbn [negb]. rewrite <- app_assoc in Hav.
      destruct (Hp s _ Hav) as (s1 & Hrun & Hpos & Harr & Hcl).
      rewrite (clean_run_pbind_done _ _ _ _ _ Hrun), (Hcp s _ Hav). cbn [andb].
      pose proof (consumes_avail p s _ s1 Hav Hpos Harr) as Hav1.
      cbn [length] in Hn.
      apply (IH HC' n' (acc ++ [x']) start total s1 tl); lia || assumption.
  Qed.

  Lemma dec_listof_clean lf T t parts xs' :
    Forall2 (elem_ok rec t) parts xs' -> Forall (elem_clean t) parts -> (length parts < lf)%nat ->
    cleans (dec_listof rec lf T t (Some (N.of_nat (length (concat parts))))) (concat parts).
  Proof.
    intros HF HC Hlf s tl Hav. unfold dec_listof. rewrite clean_run_tell.
    apply (listof_loop_clean T t parts xs' HF HC lf [] (pos s) (length (concat parts)) s tl Hlf Hav); lia.
  Qed.

  Variable lf : nat.

  Inductive fields_clean : list (presence * ty) -> list bytes -> Prop :=
  | fields_clean_nil : fields_clean [] []
  | fields_clean_cons f p fs ps : elem_clean (snd f) p -> fields_clean fs ps -> fields_clean (f :: fs) (p :: ps).

  Lemma fields_clean_inv f fs p ps : fields_clean (f :: fs) (p :: ps) -> elem_clean (snd f) p /\ fields_clean fs ps.
  Proof. inversion 1; auto. Qed.

  Lemma record_loop_clean T fs :
    forallb (fun f => is_req (fst f)) fs = true ->
    (match fs with [] => true | _ => false end) = false ->
    forall todo parts xs', fields_ok rec todo parts xs' -> fields_clean todo parts ->
    forall done vdone n start total s tl,
      fs = done ++ todo -> length vdone = length done ->
      (length todo < n)%nat ->
      avail s = concat parts ++ tl ->
      (start <= pos s)%nat ->
      (pos s - start + length (concat parts) = total)%nat ->
      clean_run (record_loop rec lf T fs false (Some (N.of_nat total)) start n (length done)
                             (map Some vdone ++ map (fun _ => None) todo) 0%nat) s = true.
  Proof.
    intros Hreq Hne todo parts xs' HF.
    induction HF as [|f p x' todo parts xs' [Hp Hpl] HF IH]; intros HC done vdone n start total s tl Hfs Hvd Hn Hav Hst Htot.
    - destruct n as [|n']; [cbn [length] in Hn; lia|].
      cbn [record_loop]. cbv zeta. rewrite clean_run_tell.
      cbn [concat length] in Htot.
      destruct (N.ltb_spec (N.of_nat (pos s - start)) (N.of_nat total)) as [Hlt|_]; [lia|].
      cbn [negb]. rewrite Hne. cbn [map]. rewrite !app_nil_r. rewrite required_seen_all_some. reflexivity.
    - destruct n as [|n']; [cbn [length] in Hn; lia|].
      destruct (fields_clean_inv _ _ _ _ HC) as [Hcp HC'].
      cbn [record_loop]. cbv zeta. rewrite clean_run_tell.
      cbn [concat] in Htot, Hav. rewrite app_length in Htot.
      destruct (N.ltb_spec (N.of_nat (pos s - start)) (N.of_nat total)) as [_|Hge]; [|lia].
      cbn [negb andb]. rewrite Hne, Hreq.
      unfold seq_component_spec.
      assert (Hnth: nth_error fs (length done) = Some f) by (rewrite Hfs; apply nth_error_app_exact). rewrite Hnth.
      destruct f as [pr ft]. cbn [orb snd] in *.
      rewrite <- app_assoc in Hav.
      destruct (Hp s _ Hav) as (s1 & Hrun & Hpos & Harr & Hcl).
      rewrite (clean_run_pbind_done _ _ _ _ _ Hrun), (Hcp s _ Hav). cbn [andb].
      pose proof (consumes_avail p s _ s1 Hav Hpos Harr) as Hav1.
      assert (Hidx: Nat.leb (length fs) (length done) = false).
      { apply Nat.leb_gt. rewrite Hfs, app_length. cbn [length]. lia. }
      rewrite Hidx. unfold seq_position. cbn [lift pbind]. rewrite Hidx.
      cbn [map].
      match goal with |- context [set_nth ?i ?x (?a ++ ?y :: ?b)] =>
        replace (set_nth i x (a ++ y :: b)) with (a ++ x :: b)
          by (symmetry; rewrite <- Hvd, <- (map_length Some vdone); apply set_nth_app) end.
      cbn [length] in Hn.
      assert (Hfs': fs = (done ++ [(pr, ft)]) ++ todo) by (rewrite <- app_assoc; exact Hfs).
      assert (Hvd': length (vdone ++ [x']) = length (done ++ [(pr, ft)])) by (rewrite !app_length; cbn [length]; lia).
      pose proof (IH HC' (done ++ [(pr, ft)]) (vdone ++ [x']) n' start total s1 tl Hfs' Hvd' ltac:(lia) Hav1 ltac:(lia) ltac:(lia)) as Hrun2.
      rewrite app_length in Hrun2. cbn [length] in Hrun2. rewrite Nat.add_1_r in Hrun2.
      rewrite map_app in Hrun2. cbn [map] in Hrun2. rewrite <- app_assoc in Hrun2. cbn [app] in Hrun2.
      exact Hrun2.
  Qed.

  Lemma dec_record_clean T fs parts xs' :
    forallb (fun f => is_req (fst f)) fs = true -> fields_ok rec fs parts xs' -> fields_clean fs parts -> (length fs < lf)%nat ->
    cleans (dec_record rec lf T fs false (Some (N.of_nat (length (concat parts))))) (concat parts).
  Proof.
    intros Hreq HF HC Hlf s tl Hav. unfold dec_record. rewrite clean_run_tell.
    destruct fs as [|f0 fs0].
    - inversion HF; subst. destruct lf as [|n]; [cbn [length] in Hlf; lia|].
      cbn [record_loop]. cbv zeta. rewrite clean_run_tell. cbn [concat length]. rewrite Nat.sub_diag.
      reflexivity.
    - apply (record_loop_clean T (f0 :: fs0) Hreq eq_refl (f0 :: fs0) parts xs' HF HC [] [] lf (pos s)
                (length (concat parts)) s tl eq_refl eq_refl Hlf Hav); lia.
  Qed.
End LoopsClean.


(* ---------- one item: the induction over the type (cf. stage2_item) ---------- *)
Definition item_clean (T: ty) (v: val) : Prop :=
  forall b, enc_with BER (enc_content BER) T def_opts v = Ok b -> N.of_nat (length b) <= index_max ->
  forall f, fuel_ok T b f -> cleans (dec_call BER f (STy T) [] None false false) b.

Lemma prim_clean T v : prim_base T = true -> wf_tags T = true -> stage1_val BER BER T v = true -> item_clean T v.
Proof.
  intros Hp Hw Hs b He Hmax f Hf. unfold fuel_ok in Hf.
  assert (He': encode BER true 0 T v = Ok b) by exact He.
  destruct (stage1_leaf BER BER T v b (or_introl eq_refl) Hs He') as (content & vdec & [Henc Hdec] & _).
  destruct (tagset_prim_shape T Hp Hw) as (t0 & r & Hts & Hc0 & Hex & Hd).
  destruct Henc as (ec & fl & Hce & Hcont). destruct Hdec as (dcd & dfl & Hby & _).
  destruct (enc_with_inv T v b He) as (ec' & fl' & ts & content' & cns & Hce' & Hts' & Hcont' & Hfr).
  rewrite Hce in Hce'. inversion Hce'; subst ec' fl'; clear Hce'.
  rewrite Hts in Hts'. inversion Hts'; subst ts; clear Hts'.
  rewrite Hcont in Hcont'. inversion Hcont'; subst content' cns; clear Hcont'.
  assert (Hpm: plain_map T).
  { apply plain_map_tagged. destruct T; try exact I; discriminate Hp. }
  replace f with (S (f - 1 - length r) + length r)%nat by lia.
  apply (framed_clean BER T t0 r false (ef_indef fl) content b (f - 1 - length r) dcd dfl Hts Hc0 Hex Hpm Hby Hfr); [lia|].
  intros s tl _. apply clean_clean_run. apply clean_prim_value.
  - unfold tag0_simple. rewrite Hc0. reflexivity.
  - unfold prim_base in Hp. destruct (base_of T); try exact I; discriminate Hp.
Qed.

Lemma elems_clean t : (forall x, stage2_val t x = true -> item_clean t x) ->
  forall xs parts, enc_elems t def_opts xs = Ok parts -> forallb (stage2_val t) xs = true ->
  N.of_nat (length (concat parts)) <= index_max ->
  forall f, (length (concat parts) + ty_depth t <= f)%nat -> Forall (elem_clean (dec_call BER f) t) parts.
Proof.
  intros IHt. induction xs as [|x xs IH]; intros parts He Hs Hmax f Hf.
  - inversion He; subst. constructor.
  - rewrite enc_elems_cons in He.
    destruct (enc_with BER (enc_content BER) t def_opts x) as [p|e] eqn:Ep; cbn [bind] in He; [|discriminate].
    destruct (enc_elems t def_opts xs) as [ps|e] eqn:Eps; cbn [bind] in He; [|discriminate].
    inversion He; subst parts; clear He.
    cbn [forallb] in Hs. apply Bool.andb_true_iff in Hs. destruct Hs as [Hx Hxs].
    cbn [concat] in Hmax, Hf. rewrite app_length in Hmax, Hf.
    constructor.
    + apply (IHt x Hx p Ep); [lia|]. unfold fuel_ok. lia.
    + apply (IH ps eq_refl Hxs); lia.
Qed.

Lemma stage2_item_t t : stage2_ty t = true -> forall x, stage2_val t x = true -> item_ok t x.
Proof. intros Ht x Hx. exact (stage2_item t t eq_refl Ht x Hx). Qed.

Lemma listof_clean T' t : (base_of T' = TSeqOf t \/ base_of T' = TSetOf t) -> wf_tags T' = true ->
  stage2_ty t = true ->
  (forall x, stage2_val t x = true -> item_clean t x) ->
  forall xs, forallb (stage2_val t) xs = true -> item_clean T' (VList xs).
Proof.
  intros Hb Hw Hty IHt xs Hs b He Hmax f Hf. unfold fuel_ok in Hf.
  assert (Htb: tagged_base T' = true) by (unfold tagged_base; destruct Hb as [-> | ->]; reflexivity).
  destruct (tagset_shape T' Htb Hw) as (t0 & r & b0 & Hb0 & Hts & Hc0 & Hex & Hd).
  assert (Hcon: tcon t0 = true).
  { rewrite Hc0. destruct Hb as [Hb|Hb]; rewrite Hb in Hb0; inversion Hb0; reflexivity. }
  assert (Hdep: ty_depth (base_of T') = S (ty_depth t)) by (destruct Hb as [-> | ->]; reflexivity).
  destruct (enc_with_inv T' _ b He) as (ec & fl & ts & content & cns & Hce & Hts' & Hcont & Hfr).
  rewrite Hts in Hts'. inversion Hts'; subst ts; clear Hts'.
  rewrite concrete_encoder_base in Hce. rewrite enc_content_base in Hcont.
  assert (Hparts: exists parts, enc_elems t def_opts xs = Ok parts /\ content = concat parts /\ cns = true /\ ef_indef fl = true).
  { destruct Hb as [Hb|Hb]; rewrite Hb in Hce, Hcont; vm_compute in Hce; inversion Hce; subst ec fl; clear Hce.
    - rewrite enc_content_seqof in Hcont. destruct (enc_elems t def_opts xs) as [parts|e]; cbn [bind] in Hcont; [|discriminate].
      inversion Hcont; subst. exists parts. repeat split.
    - rewrite enc_content_setof in Hcont. destruct (enc_elems t def_opts xs) as [parts|e]; cbn [bind] in Hcont; [|discriminate].
      inversion Hcont; subst. exists parts. repeat split. }
  destruct Hparts as (parts & Hel & -> & -> & Hsi). rewrite Hsi in Hfr.
  pose proof (frame_nonempty _ _ _ _ _ _ Hfr) as Hlen.
  destruct (elems_item t (stage2_item_t t Hty) xs parts Hel Hs ltac:(lia)) as (xs' & _ & Helems).
  assert (Hby: exists dcd dfl, by_type BER T' = Some (dcd, dfl) /\ (dcd = DcSeqOf \/ dcd = DcSetOf)).
  { rewrite by_type_base. destruct Hb as [-> | ->]; eexists; eexists; (split; [vm_compute; reflexivity|]); [left|right]; reflexivity. }
  destruct Hby as (dcd & dfl & Hby & Hdcd).
  assert (Hpm: plain_map T').
  { apply plain_map_tagged. destruct T'; try exact I; destruct Hb; discriminate. }
  replace f with (S (f - 1 - length r) + length r)%nat by lia.
  apply (framed_clean BER T' t0 r true true (concat parts) b (f - 1 - length r) dcd dfl Hts Hcon Hex Hpm Hby Hfr); [lia|].
  assert (Hdv: dec_value (dec_call BER (f - 1 - length r)) (f - 1 - length r) dcd dfl (Some T') (t0 :: r)
                         (Some (N.of_nat (length (concat parts)))) false
               = dec_listof (dec_call BER (f - 1 - length r)) (f - 1 - length r) T' t (Some (N.of_nat (length (concat parts))))).
  { destruct Hdcd as [-> | ->]; cbn [dec_value tag0_cons]; rewrite Hcon; cbn [negb]; destruct Hb as [-> | ->]; reflexivity. }
  rewrite Hdv.
  assert (HF: Forall2 (elem_ok (dec_call BER (f - 1 - length r)) t) parts xs') by (apply Helems; lia).
  assert (HC: Forall (elem_clean (dec_call BER (f - 1 - length r)) t) parts).
  { apply (elems_clean t IHt xs parts Hel Hs); lia. }
  apply (dec_listof_clean _ _ T' t parts xs' HF HC).
  pose proof (Forall2_elem_count _ _ _ _ HF). lia.
Qed.

Lemma fields_clean_item : forall fs,
  Forall (fun f => forall x, stage2_val (snd f) x = true -> item_clean (snd f) x) fs ->
  forallb (fun f => is_req (fst f)) fs = true ->
  forall vs parts, sv_fields fs vs = true -> enc_rec_fields EcSeq false def_opts fs vs = Ok parts ->
  N.of_nat (length (concat (map snd parts))) <= index_max ->
  forall f, (length (concat (map snd parts)) + max_depth fs <= f)%nat ->
            fields_clean (dec_call BER f) fs (map snd parts).
Proof.
  intros fs HF. induction HF as [|[p ft] fs IHf HF IH]; intros Hreq vs parts Hs He Hmax f Hf.
  - destruct vs; [|discriminate Hs]. inversion He; subst. constructor.
  - cbn [forallb fst] in Hreq. apply Bool.andb_true_iff in Hreq. destruct Hreq as [Hp Hreq].
    destruct p; try discriminate Hp. cbn [snd] in IHf.
    destruct vs as [|[x|] vs']; try discriminate Hs.
    change (sv_fields ((Req, ft) :: fs) (Some x :: vs')) with (stage2_val ft x && sv_fields fs vs')%bool in Hs.
    apply Bool.andb_true_iff in Hs. destruct Hs as [Hx Hxs].
    rewrite enc_rec_fields_req in He.
    destruct (enc_with BER (enc_content BER) ft def_opts x) as [pb|e] eqn:Ep; cbn [bind] in He; [|discriminate].
    destruct (enc_rec_fields EcSeq false def_opts fs vs') as [ps|e] eqn:Eps; cbn [bind] in He; [|discriminate].
    inversion He; subst parts; clear He.
    cbn [map snd concat] in Hmax. rewrite app_length in Hmax.
    cbn [map snd concat max_depth fold_right] in Hf. rewrite app_length in Hf.
    cbn [map snd]. constructor.
    + cbn [snd]. apply (IHf x Hx pb Ep); [lia|]. unfold fuel_ok. lia.
    + apply (IH Hreq vs' ps Hxs Eps); [lia|]. unfold max_depth. lia.
Qed.

Lemma record_clean T' fs : base_of T' = TSeq fs -> wf_tags T' = true ->
  forallb (fun f => is_req (fst f)) fs = true ->
  Forall (fun f => stage2_ty (snd f) = true) fs ->
  Forall (fun f => forall x, stage2_val (snd f) x = true -> item_clean (snd f) x) fs ->
  forall vs, sv_fields fs vs = true -> item_clean T' (VRec vs).
Proof.
  intros Hb Hw Hreq Htys IHfs vs Hs b He Hmax f Hf. unfold fuel_ok in Hf.
  assert (Htb: tagged_base T' = true) by (unfold tagged_base; rewrite Hb; reflexivity).
  destruct (tagset_shape T' Htb Hw) as (t0 & r & b0 & Hb0 & Hts & Hc0 & Hex & Hd).
  assert (Hcon: tcon t0 = true).
  { rewrite Hc0. rewrite Hb in Hb0; inversion Hb0; reflexivity. }
  assert (Hdep: ty_depth (base_of T') = S (max_depth fs)) by (rewrite Hb; reflexivity).
  destruct (enc_with_inv T' _ b He) as (ec & fl & ts & content & cns & Hce & Hts' & Hcont & Hfr).
  rewrite Hts in Hts'. inversion Hts'; subst ts; clear Hts'.
  rewrite concrete_encoder_base in Hce. rewrite enc_content_base in Hcont.
  rewrite Hb in Hce, Hcont. vm_compute in Hce. inversion Hce; subst ec fl; clear Hce.
  rewrite enc_content_seq in Hcont. cbn [ef_omit_empty] in Hcont.
  destruct (enc_rec_fields EcSeq false def_opts fs vs) as [parts|e] eqn:Eparts; cbn [bind] in Hcont; [|discriminate].
  inversion Hcont; subst content cns; clear Hcont. cbn [ef_indef] in Hfr.
  pose proof (frame_nonempty _ _ _ _ _ _ Hfr) as Hlen.
  assert (IHok: Forall (fun f => forall x, stage2_val (snd f) x = true -> item_ok (snd f) x) fs).
  { apply Forall_forall. intros g Hin x Hx. rewrite Forall_forall in Htys. exact (stage2_item_t (snd g) (Htys g Hin) x Hx). }
  destruct (fields_item fs IHok Hreq vs parts Hs Eparts ltac:(lia)) as (xs' & _ & Hfields).
  assert (Hby: by_type BER T' = Some (DcSeq, mkDecFlags true (Some KSeq))).
  { rewrite by_type_base, Hb. vm_compute. reflexivity. }
  assert (Hpm: plain_map T').
  { apply plain_map_tagged. destruct T'; try exact I; discriminate. }
  replace f with (S (f - 1 - length r) + length r)%nat by lia.
  apply (framed_clean BER T' t0 r true true (concat (map snd parts)) b (f - 1 - length r) _ _ Hts Hcon Hex Hpm Hby Hfr); [lia|].
  cbn [dec_value tag0_cons]. rewrite Hcon. cbn [negb]. rewrite Hb.
  assert (HF: fields_ok (dec_call BER (f - 1 - length r)) fs (map snd parts) xs') by (apply Hfields; lia).
  assert (HC: fields_clean (dec_call BER (f - 1 - length r)) fs (map snd parts)).
  { apply (fields_clean_item fs IHfs Hreq vs parts Hs Eparts); lia. }
  apply (dec_record_clean _ _ T' fs (map snd parts) xs' Hreq HF HC).
  pose proof (fields_ok_count _ _ _ _ HF). lia.
Qed.

Theorem stage2_clean : forall T T', base_of T' = base_of T -> stage2_ty T' = true ->
  forall v, stage2_val T' v = true -> item_clean T' v.
Proof.
  induction T as [| | | | | | | | n|fs IH|fs IH|t IH|t IH|alts IH| |tg x IH|tg x IH] using ty_ind';
    intros T' Hb Hty v Hv; cbn [base_of] in Hb;
    destruct (stage2_ty_base T' Hty) as [Hw Htb];
    try (assert (Hp: prim_base T' = true) by (unfold prim_base; rewrite Hb; reflexivity);
         rewrite (stage2_val_prim T' v Hp) in Hv; exact (prim_clean T' v Hp Hw Hv));
    try (rewrite Hb in Htb; discriminate Htb).
  - (* SEQUENCE *)
    rewrite Hb in Htb. cbn [stage2_ty] in Htb.
    rewrite stage2_val_base, Hb in Hv. destruct v; try discriminate Hv. rewrite stage2_val_seq in Hv.
    assert (Hreq: forallb (fun f => is_req (fst f)) fs = true).
    { apply forallb_forall. intros f Hin. rewrite forallb_forall in Htb. specialize (Htb f Hin).
      apply Bool.andb_true_iff in Htb. exact (proj1 Htb). }
    assert (Htys: Forall (fun f => stage2_ty (snd f) = true) fs).
    { apply Forall_forall. intros f Hin. rewrite forallb_forall in Htb. specialize (Htb f Hin).
      apply Bool.andb_true_iff in Htb. exact (proj2 Htb). }
    apply (record_clean T' fs Hb Hw Hreq Htys); [|exact Hv].
    apply Forall_forall. intros f Hin x Hx. rewrite Forall_forall in IH, Htys.
    exact (IH f Hin (snd f) eq_refl (Htys f Hin) x Hx).
  - (* SEQUENCE OF *)
    rewrite Hb in Htb. cbn [stage2_ty] in Htb.
    rewrite stage2_val_base, Hb in Hv. destruct v; try discriminate Hv. cbn [stage2_val] in Hv.
    apply (listof_clean T' t (or_introl Hb) Hw Htb); [|exact Hv].
    intros x Hx. exact (IH t eq_refl Htb x Hx).
  - (* SET OF *)
    rewrite Hb in Htb. cbn [stage2_ty] in Htb.
    rewrite stage2_val_base, Hb in Hv. destruct v; try discriminate Hv. cbn [stage2_val] in Hv.
    apply (listof_clean T' t (or_intror Hb) Hw Htb); [|exact Hv].
    intros x Hx. exact (IH t eq_refl Htb x Hx).
  - exact (IH T' Hb Hty v Hv).
  - exact (IH T' Hb Hty v Hv).
Qed.

(* (2) the consuming runs of the stage-2 round trip are clean runs *)
Theorem stage2_consumes_clean : forall T v b,
  stage2_ty T = true -> stage2_val T v = true ->
  encode BER true 0 T v = Ok b -> N.of_nat (length b) <= index_max ->
  exists v', abs T v' = abs T v /\
    forall fuel, (length b + ty_depth T <= fuel)%nat -> consumes_clean (dec_item BER fuel (Some T)) b (DV T v').
Proof.
  intros T v b Hty Hv He Hmax.
  destruct (stage2_item T T eq_refl Hty v Hv b He Hmax) as (_ & v' & Habs & Hc).
  exists v'. split; [exact Habs|]. intros fuel Hf. apply consumes_clean_split. split.
  - exact (Hc fuel Hf).
  - exact (stage2_clean T T eq_refl Hty v Hv b He Hmax fuel Hf).
Qed.

Print Assumptions stage2_consumes_clean.


(* ====================================================================================== *)
(* Part 3: the streaming properties, unconditionally                                       *)
(* ====================================================================================== *)

(* the hypothesis of DecStream.decoder_prefix / decoder_exact / streaming_sched_indep, discharged *)
Theorem stage2_guarded_run : forall T v b,
  stage2_ty T = true -> stage2_val T v = true ->
  encode BER true 0 T v = Ok b -> N.of_nat (length b) <= index_max ->
  exists v', abs T v' = abs T v /\
    forall fuel tl cl, (length b + ty_depth T <= fuel)%nat ->
    exists s', resume (guard EUnclean (dec_item BER fuel (Some T))) (mkStream (b ++ tl) 0 cl 0) = inr (Ok (DV T v'), s')
               /\ resume (dec_item BER fuel (Some T)) (mkStream (b ++ tl) 0 cl 0) = inr (Ok (DV T v'), s')
               /\ pos s' = length b /\ arrived s' = b ++ tl /\ closed s' = cl.
Proof.
  intros T v b Hty Hv He Hmax.
  destruct (stage2_consumes_clean T v b Hty Hv He Hmax) as (v' & Habs & Hc).
  exists v'. split; [exact Habs|]. intros fuel tl cl Hf.
  destruct (Hc fuel Hf (mkStream (b ++ tl) 0 cl 0) tl eq_refl) as (s' & Hr & Hp & Ha & Hcl & Hclean).
  exists s'. split; [exact (clean_run_guard_done EUnclean _ _ _ _ Hclean Hr)|]. split; [exact Hr|].
  cbn [pos arrived closed] in *. repeat split; assumption.
Qed.

(* ---------- C06: every strict prefix of an encoding is insufficient ---------- *)
(* one-shot decoding of the prefix on a closed stream: the end-of-stream error; on a stream that
   is still open: the decoder suspends on a read whose octets have not all arrived *)
Theorem c06_stage2_prefix : forall T v b fuel k,
  stage2_ty T = true -> stage2_val T v = true ->
  encode BER true 0 T v = Ok b -> N.of_nat (length b) <= index_max ->
  (length b + ty_depth T <= fuel)%nat -> (k < length b)%nat ->
  decode_with BER fuel (Some T) (firstn k b) = Err EEndOfStream
  /\ exists n kont s1, resume (dec_item BER fuel (Some T)) (mkStream (firstn k b) 0 false 0) = inl (ReadN n kont, s1)
                       /\ (length (avail s1) < n)%nat.
Proof.
  intros T v b fuel k Hty Hv He Hmax Hf Hk.
  destruct (stage2_guarded_run T v b Hty Hv He Hmax) as (v' & _ & Hg).
  destruct (Hg fuel [] true Hf) as (s' & Hgr & _ & Hp & _). rewrite app_nil_r in Hgr.
  split.
  - apply (decoder_prefix BER fuel (Some T) b k (DV T v') s' Hk Hgr). lia.
  - destruct (prefix_insufficient_open _ (guard_clean EUnclean (dec_item BER fuel (Some T))) b k 0%nat (DV T v') s' Hk
                (Nat.le_0_l k) Hgr ltac:(lia)) as (q & s1 & E).
    destruct (underrun_only_when_missing_run EUnclean _ _ q s1 E) as (n & kont & E' & Hlt). eauto.
Qed.

(* the same through [decode], which chooses its fuel from the (shorter) input: for the prefixes that are
   long enough for that fuel to cover the whole encoding (at least half of it, roughly) *)
Corollary c06_stage2_prefix_decode_partial : forall T v b k,
  stage2_ty T = true -> stage2_val T v = true ->
  encode BER true 0 T v = Ok b -> N.of_nat (length b) <= index_max ->
  (k < length b)%nat -> (length b <= 2 * k + ty_depth T + 6)%nat ->
  decode BER (Some T) (firstn k b) = Err EEndOfStream.
Proof.
  intros T v b k Hty Hv He Hmax Hk Hlong.
  assert (Hf: (length b + ty_depth T <= dec_fuel (Some T) (firstn k b))%nat).
  { unfold dec_fuel. rewrite firstn_length, Nat.min_l by lia. lia. }
  destruct (c06_stage2_prefix T v b _ k Hty Hv He Hmax Hf Hk) as [H _].
  unfold decode_with in H. unfold decode. exact H.
Qed.

(* ---------- C05: any arrival schedule ---------- *)
Local Open Scope nat_scope.

(* a clean decoder whose complete run ends in a value ends in that value as soon as the schedule is
   exhausted, whether or not the schedule closes the stream *)
Theorem sched_indep_ok {A} : forall sched (p: proc A) s a sF,
  clean p -> wf_sched (closed s) sched ->
  resume p (complete s sched) = inr (Ok a, sF) ->
  exists j, drive sched p s = repeat OUnder j ++ [ODone (Ok a) (pos sF)].
Proof.
  induction sched as [|e rest IH]; intros p s a sF Hc Hw H; cbn [drive].
  - assert (Hx: extends (complete s []) s).
    { split; [reflexivity|]. split; [reflexivity|]. exists []. cbn [complete arrived arrivals]. rewrite !app_nil_r. reflexivity. }
    destruct (resume_done_ext p Hc _ s a sF Hx H) as (s2 & E2 & Hp2 & _).
    rewrite E2. exists 0. cbn [repeat app]. rewrite <- Hp2. reflexivity.
  - destruct (resume p s) as [[p' s']|[r' s']] eqn:E.
    + destruct (resume_susp_complete p s e rest p' s' Hc Hw E) as [Hc' [Hw' Hr]].
      rewrite Hr in H.
      destruct (IH p' (apply_ev e s') a sF Hc' Hw' H) as [j Hj].
      exists (S j). cbn [repeat app]. rewrite Hj. reflexivity.
    + exists 0.
      destruct (resume_done_complete p s (e :: rest) (Ok a) sF r' s' Hc Hw H E) as [-> ->]. reflexivity.
Qed.

Theorem sched_indep_ok_run {A} (u: err) (sched: list envev) (p: proc A) s a sF :
  wf_sched (closed s) sched ->
  resume (guard u p) (complete s sched) = inr (Ok a, sF) ->
  exists j, drive sched p s = repeat OUnder j ++ [ODone (Ok a) (pos sF)].
Proof.
  intros Hw H.
  rewrite <- (guard_drive u sched p s (Ok a) sF Hw H ltac:(discriminate)).
  apply sched_indep_ok; auto. apply guard_clean.
Qed.

(* whatever way the encoding (and anything after it) is cut into chunks, with empty polls in between,
   closing the stream at the end or not: the driver yields underruns and then the very object, at the
   very position, of one-shot decoding *)
Theorem c05_stage2_sched : forall T v b,
  stage2_ty T = true -> stage2_val T v = true ->
  encode BER true 0 T v = Ok b -> (N.of_nat (length b) <= index_max)%N ->
  exists v', abs T v' = abs T v /\
    forall fuel tl sched, length b + ty_depth T <= fuel ->
    wf_sched false sched -> arrivals sched = b ++ tl ->
    decode_with BER fuel (Some T) (b ++ tl) = Ok (DV T v', tl)
    /\ exists j, drive sched (dec_item BER fuel (Some T)) (mkStream [] 0 false 0)
                 = repeat OUnder j ++ [ODone (Ok (DV T v')) (length b)].
Proof.
  intros T v b Hty Hv He Hmax.
  destruct (stage2_guarded_run T v b Hty Hv He Hmax) as (v' & Habs & Hg).
  exists v'. split; [exact Habs|]. intros fuel tl sched Hf Hw Harr.
  destruct (Hg fuel tl true Hf) as (s' & Hgr & Hr & Hp & Ha & _).
  split.
  - unfold decode_with, run_complete. rewrite Hr. f_equal. f_equal.
    unfold avail. rewrite Hp, Ha. apply skipn_app_exact.
  - assert (Hcomp: complete (mkStream [] 0 false 0) sched = mkStream (b ++ tl) 0 true 0).
    { unfold complete. cbn [arrived pos mark app]. rewrite Harr. reflexivity. }
    destruct (sched_indep_ok_run EUnclean sched (dec_item BER fuel (Some T)) (mkStream [] 0 false 0) (DV T v') s') as [j Hj].
    + exact Hw.
    + rewrite Hcomp. exact Hgr.
    + exists j. rewrite Hj, Hp. reflexivity.
Qed.


(* ---------- C07 (second half): a stream of items ---------- *)

(* stream positions right after each of the encodings bs laid end to end from position start *)
Fixpoint ends (start: nat) (bs: list bytes) : list nat :=
  match bs with
  | [] => []
  | b :: r => (start + length b) :: ends (start + length b) r
  end.

Lemma ends_length start bs : length (ends start bs) = length bs.
Proof. revert start. induction bs as [|b r IH]; intros start; cbn [ends length]; [reflexivity|]. rewrite IH. reflexivity. Qed.

(* the position after the i-th object (counting from 0) is the length of b_0 ++ ... ++ b_i *)
Lemma ends_nth : forall bs start i, i < length bs ->
  nth i (ends start bs) 0 = start + length (concat (firstn (S i) bs)).
Proof.
  induction bs as [|b r IH]; intros start i Hi; [cbn [length] in Hi; lia|].
  destruct i as [|i].
  - cbn [ends nth firstn concat]. rewrite app_nil_r. reflexivity.
  - cbn [ends nth]. cbn [length] in Hi. rewrite (IH (start + length b) i) by lia.
    change (firstn (S (S i)) (b :: r)) with (b :: firstn (S i) r). cbn [concat]. rewrite app_length. lia.
Qed.

Lemma Forall2_len {X Y} (R: X -> Y -> Prop) l1 l2 : Forall2 R l1 l2 -> length l1 = length l2.
Proof. induction 1; cbn [length]; congruence. Qed.

Definition enc_all (T: ty) (vs: list val) (bs: list bytes) : Prop :=
  Forall2 (fun v b => stage2_val T v = true /\ encode BER true 0 T v = Ok b /\ (N.of_nat (length b) <= index_max)%N) vs bs.

Definition same_abs (T: ty) (v: val) (d: dval) : Prop := exists v', d = DV T v' /\ abs T v' = abs T v.

Lemma item_pos_run T fuel b v' s tl :
  consumes_clean (dec_item BER fuel (Some T)) b (DV T v') -> avail s = b ++ tl ->
  exists s1, resume (item_pos BER fuel (Some T)) s = inr (Ok (DV T v', pos s + length b), s1)
    /\ pos s1 = pos s + length b /\ arrived s1 = arrived s /\ closed s1 = closed s /\ avail s1 = tl
    /\ clean_run (item_pos BER fuel (Some T)) s = true.
Proof.
  intros Hc Hav. destruct (Hc s tl Hav) as (s1 & Hr & Hp & Ha & Hcl & Hclean).
  exists s1. unfold item_pos. rewrite (resume_pbind_done _ _ _ _ _ Hr). rewrite resume_tell. cbn [resume]. rewrite Hp.
  split; [reflexivity|]. split; [reflexivity|]. split; [exact Ha|]. split; [exact Hcl|].
  split; [exact (consumes_avail b s tl s1 Hav Hp Ha)|].
  apply clean_run_pbind_k; [exact Hclean|]. intros d. constructor. intros q. constructor.
Qed.

(* the item loop on a closed stream holding n >= 1 encodings end to end: n objects, then the end test *)
Lemma iter_loop_run T fuel : stage2_ty T = true ->
  forall vs bs, enc_all T vs bs -> bs <> [] ->
  (forall b, In b bs -> length b + ty_depth T <= fuel) ->
  forall n s, length bs <= n -> avail s = concat bs -> closed s = true ->
  exists ds sF, resume (iter_loop n (item_pos BER fuel (Some T))) s = inr (Ok (combine ds (ends (pos s) bs)), sF)
    /\ Forall2 (same_abs T) vs ds
    /\ pos sF = pos s + length (concat bs) /\ arrived sF = arrived s
    /\ ra_free_run (iter_loop n (item_pos BER fuel (Some T))) s = true.
Proof.
  intros Hty vs bs HF. induction HF as [|v b vs bs (Hv & He & Hmax) HF IH]; intros Hne Hfuel n s Hn Hav Hcl; [congruence|].
  destruct n as [|n']; [cbn [length] in Hn; lia|].
  destruct (stage2_consumes_clean T v b Hty Hv He Hmax) as (v' & Habs & Hc).
  destruct (stage2_item T T eq_refl Hty v Hv b He Hmax) as (Hbpos & _).
  cbn [concat] in Hav.
  destruct (item_pos_run T fuel b v' s (concat bs) (Hc fuel (Hfuel b (or_introl eq_refl))) Hav)
    as (s1 & Hr & Hp1 & Ha1 & Hcl1 & Hav1 & Hclean).
  cbn [iter_loop]. rewrite (resume_pbind_done _ _ _ _ _ Hr).
  rewrite ra_free_run_pbind, Hr, (clean_run_ra_free _ _ Hclean). cbn [andb].
  cbn [resume ra_free_run]. rewrite Hav1, Hcl1, Hcl.
  destruct bs as [|b2 bs'].
  - (* last item *)
    inversion HF; subst. cbn [concat length Nat.eqb resume ra_free_run].
    exists [DV T v'], s1. cbn [combine ends]. split; [reflexivity|].
    split; [constructor; [exists v'; auto|constructor]|].
    cbn [concat]. rewrite app_nil_r. repeat split; assumption.
  - assert (Hne2: b2 :: bs' <> []) by discriminate.
    assert (Hb2: 0 < length b2).
    { inversion HF as [|v2 ? vs2 ? (Hv2 & He2 & Hmax2) _]; subst.
      destruct (stage2_item T T eq_refl Hty v2 Hv2 b2 He2 Hmax2) as (H & _). exact H. }
    assert (Hnz: Nat.eqb (length (concat (b2 :: bs'))) 0 = false).
    { apply Nat.eqb_neq. cbn [concat]. rewrite app_length. lia. }
    rewrite Hnz.
    destruct (IH Hne2 (fun x Hin => Hfuel x (or_intror Hin)) n' s1 ltac:(cbn [length] in *; lia) Hav1 ltac:(congruence))
      as (ds & sF & Hrun & Hds & HpF & HaF & Hra).
    exists (DV T v' :: ds), sF.
    rewrite (resume_pbind_done _ _ _ _ _ Hrun). cbn [resume].
    rewrite ra_free_run_pbind, Hrun, Hra. cbn [andb ra_free_run].
    change (ends (pos s) (b :: b2 :: bs')) with ((pos s + length b) :: ends (pos s + length b) (b2 :: bs')).
    rewrite <- Hp1. cbn [combine]. split; [reflexivity|].
    split; [constructor; [exists v'; auto|exact Hds]|].
    change (concat (b :: b2 :: bs')) with (b ++ concat (b2 :: bs')). rewrite app_length.
    repeat split; [lia|congruence].
Qed.

(* n >= 1 values of a stage-2 type written one after the other: the streaming decoder yields exactly
   n objects, the i-th with the abstract value of the i-th value, reported with the stream position
   right after the i-th encoding; under EVERY well-formed schedule that eventually closes the stream *)
Theorem c07_stage2_stream : forall T vs bs fuel,
  stage2_ty T = true -> enc_all T vs bs -> bs <> [] ->
  length bs <= fuel -> (forall b, In b bs -> length b + ty_depth T <= fuel) ->
  exists ds, Forall2 (same_abs T) vs ds
    /\ length ds = length bs
    /\ (forall i, i < length bs -> nth i (ends 0 bs) 0 = length (concat (firstn (S i) bs)))
    /\ (exists sF, run_complete (streaming BER fuel (Some T)) (concat bs) = inr (Ok (combine ds (ends 0 bs)), sF)
                   /\ pos sF = length (concat bs))
    /\ forall sched, wf_sched false sched -> has_close sched = true -> arrivals sched = concat bs ->
       exists j, drive sched (streaming BER fuel (Some T)) (mkStream [] 0 false 0)
                 = repeat OUnder j ++ [ODone (Ok (combine ds (ends 0 bs))) (length (concat bs))].
Proof.
  intros T vs bs fuel Hty HF Hne Hn Hfuel.
  destruct (iter_loop_run T fuel Hty vs bs HF Hne Hfuel fuel (mkStream (concat bs) 0 true 0) Hn eq_refl eq_refl)
    as (ds & sF & Hrun & Hds & HpF & HaF & Hra).
  cbn [pos arrived] in *.
  exists ds. split; [exact Hds|].
  split; [rewrite <- (Forall2_len _ _ _ Hds); exact (Forall2_len _ _ _ HF)|].
  split; [intros i Hi; rewrite (ends_nth bs 0 i Hi); reflexivity|].
  split; [exists sF; split; [exact Hrun|exact HpF]|].
  intros sched Hw Hcl Harr.
  assert (Hcomp: complete (mkStream [] 0 false 0) sched = mkStream (concat bs) 0 true 0).
  { unfold complete. cbn [arrived pos mark app]. rewrite Harr. reflexivity. }
  destruct (streaming_sched_indep BER fuel (Some T) sched (mkStream [] 0 false 0) (Ok (combine ds (ends 0 bs))) sF) as [j Hj].
  - exact Hw.
  - rewrite Hcl. apply Bool.orb_true_r.
  - rewrite Hcomp. unfold streaming. rewrite (ra_free_run_guard EUnclean _ _ Hra). unfold streaming in Hrun. rewrite Hrun. reflexivity.
  - discriminate.
  - exists j. rewrite Hj, HpF. reflexivity.
Qed.

Print Assumptions clean_run_guard.
Print Assumptions guard_run_clean.
Print Assumptions clean_run_pbind.
Print Assumptions ra_free_run_guard.
Print Assumptions ra_free_run_pbind.

Print Assumptions stage2_clean.
Print Assumptions stage2_guarded_run.
Print Assumptions c06_stage2_prefix.
Print Assumptions c06_stage2_prefix_decode_partial.
Print Assumptions sched_indep_ok.
Print Assumptions sched_indep_ok_run.
Print Assumptions c05_stage2_sched.
Print Assumptions iter_loop_run.
Print Assumptions c07_stage2_stream.

(* ====================================================================================== *)
(* Non-vacuity                                                                              *)
(* ====================================================================================== *)
Local Open Scope N_scope.

Definition stage2_example_enc : bytes :=
  [103; 48; 48; 46; 160; 9; 48; 7; 2; 1; 5; 2; 2; 255; 127; 161; 17;
   48; 8; 1; 1; 1; 4; 3; 1; 2; 3; 48; 5; 1; 1; 0; 4; 0; 255; 135;
   104; 10; 48; 8; 48; 4; 5; 0; 5; 0; 48; 0; 48; 0].

(* the hypotheses of (2), C06 and C05 hold of the nested example of RoundTrip2 with fuel 60 (encoding:
   50 octets, type depth 7); its run is a clean run *)
Example stage2_stream_hyps :
  stage2_ty stage2_example_ty = true /\ stage2_val stage2_example_ty stage2_example_val = true
  /\ encode BER true 0 stage2_example_ty stage2_example_val = Ok stage2_example_enc
  /\ N.of_nat (length stage2_example_enc) <= index_max
  /\ (length stage2_example_enc + ty_depth stage2_example_ty <= 60)%nat
  /\ clean_run (dec_item BER 60 (Some stage2_example_ty)) (mkStream stage2_example_enc 0 true 0) = true.
Proof.
  split; [vm_compute; reflexivity|]. split; [vm_compute; reflexivity|]. split; [vm_compute; reflexivity|].
  split; [vm_compute; discriminate|]. split; [vm_compute; lia|]. vm_compute. reflexivity.
Qed.

(* clean_run is not trivially true: a constructed OCTET STRING whose fragment is an indefinite-length
   item under a context tag is collected raw with ReadAll; that run is unclean although it succeeds *)
Example unclean_run_exists :
  decode_with BER 20 (Some TOcts) [36; 4; 160; 128; 1; 2] = Ok (DV TOcts (VOcts [1; 2]), [])
  /\ clean_run (dec_item BER 20 (Some TOcts)) (mkStream [36; 4; 160; 128; 1; 2] 0 true 0) = false.
Proof. vm_compute. split; reflexivity. Qed.

(* ... and for such a run the conclusions of C05 / C07 are FALSE of the model: the outcome depends on how
   the same six octets are cut into chunks, and on what follows them *)
Example unclean_run_schedule_dependent :
  drive [Arrive [36; 4; 160; 128; 1; 2]; Close] (dec_item BER 20 (Some TOcts)) (mkStream [] 0 false 0)
    = [OUnder; ODone (Ok (DV TOcts (VOcts [1; 2]))) 6]
  /\ drive [Arrive [36; 4; 160; 128; 1]; Arrive [2]; Close] (dec_item BER 20 (Some TOcts)) (mkStream [] 0 false 0)
    = [OUnder; OUnder; OUnder; ODone (Err EEndOfStream) 6]
  /\ decode_with BER 20 (Some TOcts) ([36; 4; 160; 128; 1; 2] ++ [3]) = Err EMalformed.
Proof. vm_compute. repeat split; reflexivity. Qed.

(* C06 on the example: each of the 50 strict prefixes gives the end-of-stream error on a closed stream
   and suspends on an open one *)
Example c06_example :
  forallb (fun k => match decode_with BER 60 (Some stage2_example_ty) (firstn k stage2_example_enc) with
                    | Err EEndOfStream => true | _ => false end
                    && match resume (dec_item BER 60 (Some stage2_example_ty)) (mkStream (firstn k stage2_example_enc) 0 false 0) with
                       | inl (ReadN _ _, _) => true | _ => false end) (seq 0 50) = true.
Proof. vm_compute. reflexivity. Qed.

(* C05 on the example: three chunks, an empty poll, trailing octets, no Close *)
Example c05_example :
  let sched := [Arrive (firstn 7 stage2_example_enc); Poll; Arrive (skipn 7 (firstn 30 stage2_example_enc));
                Arrive (skipn 30 stage2_example_enc ++ [9; 9])] in
  wf_sched false sched /\ arrivals sched = stage2_example_enc ++ [9; 9]
  /\ drive sched (dec_item BER 60 (Some stage2_example_ty)) (mkStream [] 0 false 0)
     = repeat OUnder 4 ++ [ODone (Ok (DV stage2_example_ty stage2_example_val)) 50].
Proof. vm_compute. repeat split; reflexivity. Qed.

(* C07 on three SEQUENCE OF INTEGER values, one of them empty, under a schedule that cuts across items *)
Example c07_example :
  let T := TSeqOf TInt in
  let vs := [VList [VInt 1; VInt 300]; VList []; VList [VInt (-1)]] in
  let bs := [[48; 7; 2; 1; 1; 2; 2; 1; 44]; [48; 0]; [48; 3; 2; 1; 255]] in
  let sched := [Arrive [48; 7; 2; 1]; Arrive [1; 2; 2; 1; 44; 48]; Poll; Arrive [0; 48; 3; 2; 1; 255]; Close] in
  stage2_ty T = true /\ map (encode BER true 0 T) vs = map Ok bs /\ forallb (stage2_val T) vs = true
  /\ (length bs <= 12)%nat /\ forallb (fun b => Nat.leb (length b + ty_depth T) 12) bs = true
  /\ wf_sched false sched /\ has_close sched = true /\ arrivals sched = concat bs
  /\ drive sched (streaming BER 12 (Some T)) (mkStream [] 0 false 0)
     = repeat OUnder 5 ++ [ODone (Ok (combine (map (DV T) vs) (ends 0 bs))) (length (concat bs))]
  /\ ends 0 bs = [9; 11; 16]%nat.
Proof.
  cbv zeta. split; [reflexivity|]. split; [vm_compute; reflexivity|]. split; [vm_compute; reflexivity|].
  split; [vm_compute; lia|]. repeat split; vm_compute; reflexivity.
Qed.

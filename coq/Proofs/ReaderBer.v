(* C03, second half: every BER and CER encoder output, read by the independent X.690 reader guided
   by the same type, denotes the same abstract value - in every mode (definite / indefinite
   lengths, any maxChunkSize), outside finding F01.
   Simple types under any stack of tags for all three codecs; SEQUENCE / SEQUENCE OF nesting for BER. *)
From Coq Require Import Lia.
From PV Require Import Base.Bytes Model.Tag Model.TableTypes Model.Types Model.Enc Gen.Tables Spec.X690
     Proofs.Bits Proofs.SpecOctets Proofs.LeafInt Proofs.LeafOidBits Proofs.LeafReal Proofs.TagAlgebra
     Proofs.DerReference Proofs.ReaderParse Proofs.ReaderInterp Proofs.ReaderLeafOidBits Proofs.ReaderLeafReal
     Proofs.ReaderSound Proofs.ReaderFrame Proofs.ReaderCerSegments Proofs.ReaderModel.
From PV Require Proofs.TagsetShape.
Local Open Scope N_scope.

(* what follows the identifier of the innermost encoding *)
Definition inner_rb (ic indef: bool) (content: bytes) : bytes :=
  if ic && indef then [128] ++ content ++ [0; 0] else length_octets (N.of_nat (length content)) ++ content.

Lemma inner_rb_length ic indef content : (length content <= length (inner_rb ic indef content))%nat.
Proof. unfold inner_rb. destruct (ic && indef)%bool; rewrite !app_length; lia. Qed.

(* the contents octets an encodeValue produced are read back, under the base tag, as the value *)
Definition content_fact (c: codec) (T: ty) (o': eopts) (v: val) : Prop :=
  forall cd fl content ic,
    concrete_encoder c (base_of T) = Ok (cd, fl) ->
    enc_content c (base_of T) cd fl (mkOpts (o_def o') (o_chunk o') false) v = Ok (content, ic) ->
    N.of_nat (length content) < max_len ->
    ef_indef fl = indef_base (base_of T) /\ (ic = true -> indef_base (base_of T) = true) /\
    exists tb, tagset_of (base_of T) = Ok [tb] /\ tcls tb = Univ /\
      reads_as (base_of T) (abs (base_of T) v)
               (ident Univ (tcon tb || ic) (tnum tb) ++ inner_rb ic (negb (o_def o')) content).

Lemma gframe_ts_length indef t0 r pc rb : (length rb <= length (gframe_ts indef (t0 :: r) pc rb))%nat.
Proof.
  cbn [gframe_ts]. pose proof (fold_wrap_length indef r (ident (tcls t0) pc (tnum t0) ++ rb)) as H.
  rewrite app_length in H. lia.
Qed.

(* SingleItemEncoder.__call__ around an encodeValue whose contents are read back: the whole
   encoding is read back, in any mode, outside finding F01 *)
Theorem reads_of_content c T o v b :
  content_fact c T (fix_opts c o) v ->
  o_ifne (fix_opts c o) = false ->
  (o_def (fix_opts c o) = false -> no_f01 T = true /\ eoc_safe T = true) ->
  enc c T o v = Ok b -> N.of_nat (length b) < max_len ->
  reads_as T (abs T v) b.
Proof.
  intros Hcf Hi Hindef He Hl. rewrite enc_unfold in He. set (o' := fix_opts c o) in *.
  destruct (concrete_encoder c T) as [[cd fl]|] eqn:Ece; cbn [bind fst snd] in He; [|discriminate He].
  destruct (tagset_of T) as [ts|] eqn:Ets; cbn [bind] in He; [|discriminate He].
  destruct (enc_content c T cd fl (mkOpts (o_def o') (o_chunk o') false) v) as [[content ic]|] eqn:Ec;
    cbn [bind fst snd] in He; [|discriminate He].
  rewrite concrete_encoder_base in Ece. rewrite enc_content_base in Ec.
  (* shape of the tag set does not need the contents fact *)
  assert (Hshape: forall tb, tagset_of (base_of T) = Ok [tb] ->
            exists t0 r, ts = t0 :: r /\ tcon t0 = tcon tb /\ Forall (fun t => tcon t = true) r).
  { intros tb Htb. apply (tagset_shape_g T tb Htb ts Ets). }
  (* a first, crude bound on the contents: they are part of the output *)
  assert (Hpre: forall tb, tagset_of (base_of T) = Ok [tb] -> ef_indef fl = indef_base (base_of T) ->
            (ic = true -> indef_base (base_of T) = true) ->
            exists t0 r, ts = t0 :: r /\ tcon t0 = tcon tb /\
              b = gframe_ts (negb (o_def o')) (t0 :: r) (tcon t0 || ic) (inner_rb ic (negb (o_def o')) content)).
  { intros tb Htb Hfl Hic. destruct (Hshape tb Htb) as (t0 & r & -> & Hc0 & Hall).
    exists t0, r. split; [reflexivity|split; [exact Hc0|]].
    apply (frame_gframe t0 r content ic o' (ef_indef fl) b Hi Hall) in He; [exact He| |].
    - intros Hd Hne. rewrite Hfl. destruct (Hindef Hd) as [Hf _]. unfold no_f01 in Hf.
      apply Bool.orb_true_iff in Hf. destruct Hf as [Hf|Hf]; [exact Hf|].
      destruct (no_exp_single T _ Htb Hf _ Ets) as (t & E). injection E as _ Er. exfalso. exact (Hne Er).
    - intros _ Hic'. rewrite Hfl. apply Hic. exact Hic'. }
  (* contents bound: needs the output shape, which needs the flags: obtain them with a dummy-free route *)
  assert (Hlen: N.of_nat (length content) < max_len).
  { (* frame only ever wraps the contents *)
    clear - He Hl Hi. destruct ts as [|t0 r]; cbn [frame] in He.
    - apply ok_inj in He. subst b. exact Hl.
    - rewrite Hi, Bool.andb_false_r in He.
      destruct (frame_one t0 ic (if ic then o_def o' else true) (ef_indef fl) content) as [s0|] eqn:E0; cbn [bind] in He; [|discriminate He].
        assert (H0: (length content <= length s0)%nat).
        { unfold frame_one in E0. destruct (enc_len _ _) as [l|]; cbn [bind] in E0; [|discriminate E0].
          apply ok_inj in E0. subst s0. rewrite !app_length. lia. }
        assert (Hout: forall r1 s, frame_outer r1 ic (o_def o') (ef_indef fl) s = Ok b -> (length s <= length b)%nat).
        { induction r1 as [|x r1 IH]; intros s H; cbn [frame_outer] in H.
          - apply ok_inj in H. subst b. lia.
          - destruct (frame_one x ic (o_def o') (ef_indef fl) s) as [s1|] eqn:E1; cbn [bind] in H; [|discriminate H].
            apply IH in H. unfold frame_one in E1. destruct (enc_len _ _) as [l|]; cbn [bind] in E1; [|discriminate E1].
            apply ok_inj in E1. subst s1. rewrite !app_length in H. lia. }
        apply Hout in He. lia. }
  destruct (Hcf cd fl content ic Ece Ec Hlen) as (Hfl & Hic & tb & Htb & Hcls & Hr).
  destruct (Hpre tb Htb Hfl Hic) as (t0 & r & -> & Hc0 & ->).
  rewrite (TagsetShape.abs_wrappers T v). rewrite <- Hc0, <- Hcls in Hr.
  apply (reads_gframe T (tagged_of_base T tb Htb) (negb (o_def o')) _ (tcon t0 || ic) _ tb Htb Hr _ Ets).
  - intros Hd. apply Bool.negb_true_iff in Hd. destruct (Hindef Hd) as [_ Hs].
    apply (eoc_safe_free T _ _ Hs Ets).
  - intros Hd. rewrite Hd in Hl |- *. apply bound_of_length. exact Hl.
Qed.

(* ---------- simple types, any codec ---------- *)

Lemma content_fact_simple c T o' v : der_ref_val T v = true -> content_fact c T o' v.
Proof.
  intros Hd cd fl content ic Hce Hc Hl. unfold der_ref_val in Hd.
  pose proof (der_ref_simple _ _ Hd) as Hs.
  destruct (leaf_reads c (base_of T) v cd fl _ content ic Hd Hce Hc) as (Hfl & Hic & Hr).
  split; [exact Hfl|split; [exact Hic|]].
  destruct (canon_simple (base_of T) v Hs) as [Htb _].
  exists (base_tag (base_of T)). split; [exact Htb|split; [apply base_tag_univ|]].
  specialize (Hr Hl). cbn [o_def] in Hr.
  replace (tcon (base_tag (base_of T)) || ic)%bool with ic by (destruct (base_of T); try discriminate Hs; reflexivity).
  exact Hr.
Qed.

(* (2), simple types: the output of any of the three encoders, in any mode *)
Theorem enc_output_reads_simple : forall c T o v b,
  der_ref_val T v = true -> o_ifne (fix_opts c o) = false ->
  (o_def (fix_opts c o) = false -> no_f01 T = true /\ eoc_safe T = true) ->
  enc c T o v = Ok b -> N.of_nat (length b) < max_len ->
  X690.read T b = Some (abs T v, []).
Proof.
  intros c T o v b Hd Hi Hindef He Hl. rewrite <- (app_nil_r b). apply reads_read.
  apply (reads_of_content c T o v b); try assumption. apply content_fact_simple. exact Hd.
Qed.

Theorem ber_output_reads_simple : forall T v defMode chunk b,
  der_ref_val T v = true -> (defMode = false -> no_f01 T = true /\ eoc_safe T = true) ->
  encode BER defMode chunk T v = Ok b -> N.of_nat (length b) < max_len ->
  X690.read T b = Some (abs T v, []).
Proof.
  intros T v d k b Hd Hindef He Hl. apply (enc_output_reads_simple BER T (mkOpts d k false) v b); try assumption; reflexivity.
Qed.

Theorem cer_output_reads_simple : forall T v defMode chunk b,
  der_ref_val T v = true -> no_f01 T = true -> eoc_safe T = true ->
  encode CER defMode chunk T v = Ok b -> N.of_nat (length b) < max_len ->
  X690.read T b = Some (abs T v, []).
Proof.
  intros T v d k b Hd Hf Hs He Hl. apply (enc_output_reads_simple CER T (mkOpts d k false) v b); try assumption; try reflexivity.
  intros _. split; assumption.
Qed.

(* ---- witnesses ---- *)

(* [0] EXPLICIT [PRIVATE 5] IMPLICIT OCTET STRING of 10 octets in 4-octet pieces, indefinite mode *)
Example ber_output_reads_witness :
  let T := TExp (mkTag Ctx false 0) (TImp (mkTag Priv false 5) TOcts) in
  let v := VOcts [1;2;3;4;5;6;7;8;9;10] in
  der_ref_val T v = true /\ no_f01 T = true /\ eoc_safe T = true /\
  encode BER false 4 T v = Ok [160;128; 229;128; 4;4;1;2;3;4; 4;4;5;6;7;8; 4;2;9;10; 0;0; 0;0] /\
  read T [160;128; 229;128; 4;4;1;2;3;4; 4;4;5;6;7;8; 4;2;9;10; 0;0; 0;0] = Some (abs T v, []) /\
  encode BER true 4 T v = Ok [160;18; 229;16; 4;4;1;2;3;4; 4;4;5;6;7;8; 4;2;9;10] /\
  read T [160;18; 229;16; 4;4;1;2;3;4; 4;4;5;6;7;8; 4;2;9;10] = Some (abs T v, []).
Proof. vm_compute. repeat split. Qed.

(* a 19-bit BIT STRING in 1-octet pieces, BOOLEAN TRUE as 01 *)
Example ber_output_reads_witness_bits :
  (let T := TImp (mkTag Ctx false 2) TBits in
   let v := VBits [true;false;true;true;false;false;false;false; true;true;true;true;false;false;false;false; true;false;true] in
   der_ref_val T v = true /\
   encode BER false 1 T v = Ok [162;128; 3;2;0;176; 3;2;0;240; 3;2;5;160; 0;0] /\
   read T [162;128; 3;2;0;176; 3;2;0;240; 3;2;5;160; 0;0] = Some (abs T v, [])) /\
  encode BER true 0 TBool (VBool true) = Ok [1; 1; 1] /\ read TBool [1; 1; 1] = Some (ABool true, []).
Proof. vm_compute. repeat split. Qed.

(* finding F01: [1] EXPLICIT INTEGER in indefinite mode - definite length, yet 00 00 appended: the
   independent reader stops before them *)
Example ber_output_reads_refuted_F01 :
  let T := TExp (mkTag Appl false 1) TInt in let v := VInt 1 in
  der_ref_val T v = true /\ no_f01 T = false /\
  encode BER false 0 T v = Ok [97; 3; 2; 1; 1; 0; 0] /\
  read T [97; 3; 2; 1; 1; 0; 0] = Some (AInt 1, [0; 0]).
Proof. vm_compute. repeat split. Qed.

(* why [eoc_safe]: [1] EXPLICIT [UNIVERSAL 0] IMPLICIT NULL in indefinite mode is a1 80 00 00 00 00;
   any reader takes the first 00 00 for the end-of-contents octets *)
Example ber_output_reads_needs_eoc_safe :
  let T := TExp (mkTag Ctx false 1) (TImp (mkTag Univ false 0) TOcts) in let v := VOcts [] in
  der_ref_val T v = true /\ no_f01 T = true /\ eoc_safe T = false /\
  encode BER false 0 T v = Ok [161; 128; 0; 0; 0; 0] /\ read T [161; 128; 0; 0; 0; 0] = None.
Proof. vm_compute. repeat split. Qed.

Print Assumptions reads_of_content.
Print Assumptions enc_output_reads_simple.
Print Assumptions ber_output_reads_simple.
Print Assumptions cer_output_reads_simple.

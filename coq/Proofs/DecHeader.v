(* The streaming decoder's header reading (one octet per read) computes the pure functions
   dec_ident / dec_len of Model/Tag.v on a stream that holds the octets. *)
From Coq Require Import Lia.
From PV Require Import Base.Bytes Model.Tag Model.Types Model.Proc Model.Enc Model.Dec
     Proofs.ProcBind Proofs.RunLemmas Proofs.TagOctets.
Local Open Scope N_scope.

Lemma resume_read1 {A} s o r (f: N -> proc A) : avail s = o :: r ->
  resume (pbind read1 f) s = resume (f o) (adv s 1).
Proof.
  intros Hav. unfold read1, readN. cbn [pbind].
  rewrite (resume_ReadN s 1 [o] r) by (rewrite ?Hav; reflexivity). reflexivity.
Qed.

Lemma run_read1 s o r : avail s = o :: r -> resume read1 s = inr (Ok o, adv s 1).
Proof.
  intros Hav. unfold read1, readN. cbn [pbind].
  rewrite (resume_ReadN s 1 [o] r) by (rewrite ?Hav; reflexivity). reflexivity.
Qed.

Lemma b128_rest_le : forall b acc n r, dec_b128 acc b = Some (n, r) -> (length r < length b)%nat.
Proof.
  induction b as [|x b IH]; intros acc n r Hd; [cbn in Hd; discriminate|].
  cbn [dec_b128] in Hd. destruct (N.eqb (N.land x 128) 0).
  - inversion Hd; subst. cbn. lia.
  - specialize (IH _ _ _ Hd). cbn. lia.
Qed.

(* the long-form tag number loop follows dec_b128 *)
Lemma resume_long_tag {A} : forall k (b: bytes) cl fm acc n r s (g: tag -> proc A),
  dec_b128 acc b = Some (n, r) -> avail s = b -> (length b - length r <= k)%nat ->
  resume (pbind (long_tag cl fm k acc) g) s = resume (g (mkTag cl fm n)) (adv s (length b - length r)).
Proof.
  induction k as [|k IH]; intros b cl fm acc n r s g Hd Hav Hlen.
  - pose proof (b128_rest_le _ _ _ _ Hd). lia.
  - destruct b as [|o b']; [cbn in Hd; discriminate|].
    cbn [long_tag]. rewrite (resume_pbind_assoc _ _ _ _ _ _ (run_read1 s o b' Hav)).
    cbn [dec_b128] in Hd.
    destruct (N.eqb (N.land o 128) 0) eqn:E.
    + inversion Hd; subst; clear Hd. cbn [pbind]. cbn [length].
      replace (S (length r) - length r)%nat with 1%nat by lia. reflexivity.
    + pose proof (b128_rest_le _ _ _ _ Hd) as Hr.
      rewrite (IH b' cl fm _ n r (adv s 1) g Hd (avail_cons_adv _ _ _ Hav)) by (cbn [length] in Hlen; lia).
      rewrite adv_adv. f_equal. f_equal. cbn [length]. lia.
Qed.

(* read_tag on a stream holding identifier octets: what dec_ident computes *)
Lemma resume_read_tag {A} : forall fuel b t r s (g: tag -> proc A),
  dec_ident b = Some (t, r) -> avail s = b -> (length b - length r <= S fuel)%nat ->
  resume (pbind (read_tag fuel) g) s = resume (g t) (adv s (length b - length r)).
Proof.
  intros fuel b t r s g Hd Hav Hlen. destruct b as [|o b']; [cbn in Hd; discriminate|].
  unfold read_tag. rewrite (resume_pbind_assoc _ _ _ _ _ _ (run_read1 s o b' Hav)).
  cbn [dec_ident] in Hd. cbv zeta in Hd. cbv zeta.
  destruct (N.eqb (N.land o 31) 31) eqn:E.
  - destruct (dec_b128 0 b') as [[num r']|] eqn:Hb; [|discriminate].
    inversion Hd; subst; clear Hd.
    pose proof (b128_rest_le _ _ _ _ Hb) as Hr.
    rewrite (resume_long_tag fuel b' _ _ 0 num r (adv s 1) g Hb (avail_cons_adv _ _ _ Hav)) by (cbn [length] in Hlen; lia).
    rewrite adv_adv. f_equal. f_equal. cbn [length]. lia.
  - inversion Hd; subst; clear Hd. cbn [pbind length].
    replace (S (length r) - length r)%nat with 1%nat by lia. reflexivity.
Qed.

(* read_length on a stream holding length octets: what dec_len computes *)
Lemma resume_read_length {A} : forall c b ol r s (g: option N -> proc A),
  dec_len b = Some (ol, r) -> avail s = b -> (ol = None -> support_indef c = true) ->
  resume (pbind (read_length c) g) s = resume (g ol) (adv s (length b - length r)).
Proof.
  intros c b ol r s g Hd Hav Hind. destruct b as [|o b']; [cbn in Hd; discriminate|].
  unfold read_length. rewrite (resume_pbind_assoc _ _ _ _ _ _ (run_read1 s o b' Hav)).
  rewrite dec_len_cons in Hd.
  destruct (N.ltb o 128) eqn:E1.
  - inversion Hd; subst; clear Hd. cbn [pbind length].
    replace (S (length r) - length r)%nat with 1%nat by lia. reflexivity.
  - destruct (N.eqb o 128) eqn:E2.
    + inversion Hd; subst; clear Hd. rewrite (Hind eq_refl). cbn [pbind length].
      replace (S (length r) - length r)%nat with 1%nat by lia. reflexivity.
    + cbv zeta in Hd.
      destruct (Nat.ltb_spec (length b') (N.to_nat (N.land o 127))) as [Hs|Hs]; [discriminate|].
      inversion Hd; subst; clear Hd.
      assert (Hsplit: b' = firstn (N.to_nat (N.land o 127)) b' ++ skipn (N.to_nat (N.land o 127)) b') by (symmetry; apply firstn_skipn).
      rewrite (resume_pbind_assoc _ _ _ (adv s 1) (firstn (N.to_nat (N.land o 127)) b') (adv (adv s 1) (N.to_nat (N.land o 127)))).
      2:{ unfold readN. rewrite (resume_ReadN (adv s 1) _ (firstn (N.to_nat (N.land o 127)) b') (skipn (N.to_nat (N.land o 127)) b')).
          - reflexivity.
          - rewrite (avail_cons_adv _ _ _ Hav). exact Hsplit.
          - apply firstn_length_le. exact Hs. }
      cbn [pbind]. rewrite adv_adv. f_equal. f_equal. cbn [length]. rewrite skipn_length. lia.
Qed.

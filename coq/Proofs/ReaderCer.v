(* C03: the CER encoder's output is byte-identical to the canonical encoding computed by the
   independent reference ([X690.cer] = [canon true]), and meets the clause 9 shape rules
   ([cer_canonical]): simple types under any stack of tags, strings of any length (1000-octet
   segments; BIT STRING 999 octets of bits per segment), TRUE = FF.  Outside finding F01. *)
From Coq Require Import Lia.
From PV Require Proofs.TagsetShape.
From PV Require Import Base.Bytes Model.Tag Model.TableTypes Model.Types Model.Enc Gen.Tables Spec.X690
     Proofs.Bits Proofs.SpecOctets Proofs.LeafInt Proofs.LeafOidBits Proofs.LeafReal Proofs.TagAlgebra
     Proofs.DerReference Proofs.ReaderParse Proofs.ReaderInterp Proofs.ReaderLeafOidBits Proofs.ReaderLeafReal
     Proofs.ReaderSound Proofs.ReaderFrame Proofs.ReaderCerSegments Proofs.ReaderModel.
Local Open Scope N_scope.

(* CER's fixed options: indefinite lengths, 1000-octet segments *)
Definition cer_opts : eopts := mkOpts false 1000 false.

Lemma encode_cer_unfold d k T v :
  encode CER d k T v =
  (do ce <- concrete_encoder CER T;
   do ts <- tagset_of T;
   do cc <- enc_content CER T (fst ce) (snd ce) cer_opts v;
   frame ts (fst cc) (snd cc) cer_opts (ef_indef (snd ce))).
Proof. unfold encode. rewrite enc_unfold. reflexivity. Qed.

(* ---------- contents: the reference's canonical encoding of the base type ---------- *)

Lemma base_enc_if B (ic: bool) content :
  (if ic then ctlv true Univ (tnum (base_tag B)) content else tlv Univ false (tnum (base_tag B)) content)
  = base_enc B ic true content.
Proof. destruct ic; reflexivity. Qed.

Theorem cer_contents B v cd fl content ic :
  der_ref_base B v = true -> concrete_encoder CER B = Ok (cd, fl) ->
  enc_content CER B cd fl cer_opts v = Ok (content, ic) ->
  canon true B v = Some (base_enc B ic true content).
Proof.
  intros Hd Hce He.
  destruct B; try discriminate Hd; destruct v as [bb|z|bs|bo|cs| |arcs|r|vfs|xs|i x|ab]; try discriminate Hd.
  - (* BOOLEAN: FF for TRUE *) encoder_is' Hce. cbn [enc_content] in He. injection He as <- <-. reflexivity.
  - (* INTEGER *) encoder_is' Hce. cbn [enc_content ef_compact_zero] in He. injection He as <- <-.
    cbn [canon]. rewrite int_contents_is_enc_integer. reflexivity.
  - (* ENUMERATED *) encoder_is' Hce. cbn [enc_content ef_compact_zero] in He. injection He as <- <-.
    cbn [canon]. rewrite int_contents_is_enc_integer. reflexivity.
  - (* BIT STRING: 999 octets of bits after the initial octet of each segment *)
    encoder_is' Hce. cbn [enc_content] in He.
    change (enc_bits (mkOpts false 999 false) bs = Ok (content, ic)) in He.
    cbn [canon]. rewrite (cer_bits_is_reference false false bs content ic He).
    rewrite <- (base_enc_if TBits). reflexivity.
  - (* OCTET STRING *)
    encoder_is' Hce. cbn [enc_content] in He. cbn [canon].
    rewrite (cer_string_is_reference (VOcts bo) bo 4 false false content ic eq_refl He).
    rewrite <- (base_enc_if TOcts). reflexivity.
  - (* NULL *) encoder_is' Hce. cbn [enc_content] in He. injection He as <- <-. reflexivity.
  - (* OBJECT IDENTIFIER *)
    encoder_is' Hce. cbn [enc_content] in He. cbn [canon]. rewrite oid_contents_is_enc_oid.
    destruct (enc_oid arcs) as [c|]; cbn [bind] in He; [|discriminate He]. injection He as <- <-. reflexivity.
  - (* REAL *)
    encoder_is' Hce. cbn [enc_content] in He. cbn [canon].
    destruct (enc_real r) as [c|] eqn:Er; cbn [bind] in He; [|discriminate He]. injection He as <- <-.
    assert (Hrc: real_contents r = Some c).
    { destruct r as [| |m e|m e|].
      - cbn [enc_real] in Er. injection Er as <-. reflexivity.
      - cbn [enc_real] in Er. injection Er as <-. reflexivity.
      - assert (Hfit: real_exp_fits m e = true) by (apply enc_real_bin_ok_iff; exists c; exact Er).
        rewrite (real_contents_is_enc_real_partial m e Hfit), Er. reflexivity.
      - cbn [der_ref_base] in Hd. cbn [enc_real real_contents] in *. rewrite Hd in *. injection Er as <-. reflexivity.
      - discriminate Er. }
    rewrite Hrc. reflexivity.
  - (* strings as octets *)
    destruct (string_encoder CER n cd fl Hce) as [Hcd _].
    assert (Hx: enc_octets_like cer_opts (VOcts bo) = Ok (content, ic)).
    { destruct Hcd as [->|[->| ->]]; cbn [enc_content octets_of] in He; [exact He| |];
        (destruct (time_guard fl bo) as [[]|]; cbn [bind] in He; [exact He|discriminate He]). }
    cbn [canon string_octets opt_bind].
    rewrite (cer_string_is_reference (VOcts bo) bo n false false content ic eq_refl Hx).
    rewrite <- (base_enc_if (TStr n)). reflexivity.
  - (* strings as characters *)
    destruct (string_encoder CER n cd fl Hce) as [Hcd _].
    assert (Hx: enc_octets_like cer_opts (VChars cs) = Ok (content, ic)).
    { destruct Hcd as [->|[->| ->]]; cbn [enc_content octets_of] in He; [exact He| |];
        (destruct (time_guard fl (concat cs)) as [[]|]; cbn [bind] in He; [exact He|discriminate He]). }
    cbn [canon string_octets opt_bind].
    rewrite (cer_string_is_reference (VChars cs) (concat cs) n false false content ic eq_refl Hx).
    rewrite <- (base_enc_if (TStr n)). reflexivity.
Qed.

(* ---------- what the CER encoder amounts to on the fragment ---------- *)

(* definite length octets exist only below 256^126 *)
Lemma digits256_bound : forall f n, (N.size_nat n <= f)%nat -> n < 256 ^ N.of_nat (length (digits f 256 n)).
Proof.
  induction f as [|f IH]; intros n Hf.
  - assert (n = 0) as -> by (apply size_nat_0; lia). cbn. lia.
  - cbn [digits]. destruct (N.ltb_spec n 256) as [Hs|Hl]; [cbn [length]; change (256 ^ N.of_nat 1) with 256; exact Hs|].
    assert (Hn: n <> 0) by lia.
    pose proof (size_nat_div n 8 Hn eq_refl) as Hd. change (2 ^ 8) with 256 in Hd.
    specialize (IH (n / 256) ltac:(lia)).
    rewrite app_length. cbn [length]. rewrite Nat.add_1_r, pow256_succ.
    pose proof (N.div_mod n 256 ltac:(lia)). pose proof (N.mod_lt n 256 ltac:(lia)). lia.
Qed.

Lemma enc_len_ok_bound n l : enc_len n false = Ok l -> n < max_len.
Proof.
  unfold enc_len. destruct (N.ltb_spec n 128) as [Hs|Hl].
  - intros _. assert (128 < max_len) by (vm_compute; reflexivity). lia.
  - destruct (Nat.ltb_spec 126 (length (b256 n))) as [Hbig|Hok]; [discriminate|]. intros _.
    rewrite <- digits_of_256_is_b256 in Hok by lia. unfold digits_of in Hok.
    pose proof (digits256_bound (N.size_nat n) n (Nat.le_refl _)) as Hb.
    assert (256 ^ N.of_nat (length (digits (N.size_nat n) 256 n)) <= 256 ^ 126) by (apply N.pow_le_mono_r; lia).
    unfold max_len. lia.
Qed.

Lemma frame_prim_bound t0 r content o si b : frame (t0 :: r) content false o si = Ok b ->
  N.of_nat (length content) < max_len.
Proof.
  cbn [frame]. rewrite Bool.andb_false_r. cbn [andb].
  destruct (frame_one t0 false true si content) as [s0|] eqn:E0; cbn [bind]; [|discriminate]. intros _.
  unfold frame_one in E0. cbn [negb andb] in E0.
  destruct (enc_len (N.of_nat (length content)) false) as [l|] eqn:El; cbn [bind] in E0; [|discriminate E0].
  apply (enc_len_ok_bound _ l El).
Qed.

Lemma cer_output_shape T v d k b : der_ref_val T v = true -> no_f01 T = true -> encode CER d k T v = Ok b ->
  exists cd fl content ic t0 r,
    concrete_encoder CER (base_of T) = Ok (cd, fl) /\
    enc_content CER (base_of T) cd fl cer_opts v = Ok (content, ic) /\
    tagset_of T = Ok (t0 :: r) /\ tcon t0 = false /\
    (ic = false -> N.of_nat (length content) < max_len) /\
    b = gframe_ts true (t0 :: r) ic (if ic then [128] ++ content ++ [0; 0]
                                      else length_octets (N.of_nat (length content)) ++ content).
Proof.
  intros Hd Hf He. unfold der_ref_val in Hd. rewrite encode_cer_unfold in He.
  destruct (concrete_encoder CER T) as [[cd fl]|] eqn:Ece; cbn [bind fst snd] in He; [|discriminate He].
  destruct (tagset_of T) as [ts|] eqn:Ets; cbn [bind] in He; [|discriminate He].
  destruct (enc_content CER T cd fl cer_opts v) as [[content ic]|] eqn:Ec; cbn [bind fst snd] in He; [|discriminate He].
  rewrite concrete_encoder_base in Ece. rewrite enc_content_base in Ec.
  pose proof (der_ref_simple _ _ Hd) as Hs.
  destruct (canon_simple (base_of T) v Hs) as [Htb _].
  destruct (tagset_shape_g T _ Htb ts Ets) as (t0 & r & -> & Hc0 & Hall).
  destruct (leaf_reads CER (base_of T) v cd fl cer_opts content ic Hd Ece Ec) as (Hfl & Hic & _).
  exists cd, fl, content, ic, t0, r. split; [exact Ece|split; [exact Ec|split; [reflexivity|]]].
  assert (Hc0': tcon t0 = false) by (rewrite Hc0; destruct (base_of T); try discriminate Hs; reflexivity).
  split; [exact Hc0'|]. split; [intros ->; apply (frame_prim_bound t0 r content cer_opts (ef_indef fl) b He)|].
  apply (frame_gframe t0 r content ic cer_opts (ef_indef fl) b eq_refl Hall) in He.
  - rewrite Hc0' in He. cbn [orb o_def cer_opts negb] in He. rewrite Bool.andb_true_r in He. exact He.
  - intros _ Hne. rewrite Hfl. unfold no_f01 in Hf. apply Bool.orb_true_iff in Hf. destruct Hf as [Hf|Hf]; [exact Hf|].
    destruct (no_exp_single T _ Htb Hf _ Ets) as (t & E). injection E as _ ->. congruence.
  - intros _ Hi. rewrite Hfl. apply Hic. exact Hi.
Qed.

(* (3) soundness: whatever the CER encoder outputs - in whatever mode it is called: defMode and
   maxChunkSize are overridden - is the canonical encoding of the reference *)
Theorem cer_is_reference_simple : forall T v d k b,
  der_ref_val T v = true -> no_f01 T = true -> encode CER d k T v = Ok b -> X690.cer T v = Some b.
Proof.
  intros T v d k b Hd Hf He.
  destruct (cer_output_shape T v d k b Hd Hf He) as (cd & fl & content & ic & t0 & r & Hce & Hc & Hts & Hc0 & _ & ->).
  unfold der_ref_val in Hd. pose proof (der_ref_simple _ _ Hd) as Hs.
  destruct (canon_simple (base_of T) v Hs) as [Htb _].
  unfold cer. apply (canon_wrappers_g T v true ic _ (base_tag (base_of T)) (simple_tagged T Hs) Htb); [|exact Hts].
  rewrite (cer_contents (base_of T) v cd fl content ic Hd Hce Hc). unfold base_enc.
  rewrite base_tag_univ, Bool.andb_true_r. reflexivity.
Qed.

(* ---------- clause 9 shape ---------- *)

Lemma small_lt_max n : (n <= 1000)%nat -> N.of_nat n < max_len.
Proof.
  intros H. assert (1000 < max_len) by (vm_compute; reflexivity). lia.
Qed.

Lemma E999 : N.to_nat 999 = 999%nat.
Proof. lia. Qed.

(* the CER encoder's string contents: at most 1000 octets in one piece, else full 1000-octet pieces
   and a last, non-empty one (for BIT STRING the initial octet of each piece is counted) *)
Lemma cer_contents_small B v cd fl content ic :
  der_ref_base B v = true -> concrete_encoder CER B = Ok (cd, fl) ->
  enc_content CER B cd fl cer_opts v = Ok (content, ic) ->
  (ic = false -> indef_base B = true -> (length content <= 1000)%nat) /\
  (ic = true -> exists n ps, (n = 3 \/ n = 4) /\ content = concat (map (tlv Univ false n) ps) /\
                              Forall (fun p => (length p <= 1000)%nat) ps /\ seg_ok ps = true).
Proof.
  intros Hd Hce He.
  assert (Hstr: forall v0 b0, octets_of v0 = Some b0 -> enc_octets_like cer_opts v0 = Ok (content, ic) ->
            (ic = false -> (length content <= 1000)%nat) /\
            (ic = true -> exists n ps, (n = 3 \/ n = 4) /\ content = concat (map (tlv Univ false n) ps) /\
                                        Forall (fun p => (length p <= 1000)%nat) ps /\ seg_ok ps = true)).
  { intros v0 b0 Ho Hx.
    destruct (enc_octets_like_shape cer_opts v0 b0 content ic Ho Hx) as [(-> & -> & Hk)|(-> & Hk & -> & Hgt)].
    - split; [|discriminate]. intros _. cbn [cer_opts o_chunk] in Hk. destruct Hk as [Hk|Hk]; [discriminate Hk|lia].
    - split; [discriminate|]. intros _. cbn [cer_opts o_chunk] in *.
      assert (E1000: N.to_nat 1000 = 1000%nat) by lia. rewrite E1000 in *.
      exists 4. eexists. split; [right; reflexivity|split; [reflexivity|split]].
      + apply Forall_forall. intros p Hp. apply segs_in_len in Hp. lia.
      + rewrite <- chunks_is_segs, <- (map_id (chunks _ _ _)).
        apply (seg_ok_chunks (fun x : bytes => x) 1000); [lia|intros p Hp; exact Hp| | |lia].
        * intros p Hne Hle. destruct p; [congruence|cbn [length] in *; lia].
        * destruct b0; [cbn [length] in Hgt; lia|discriminate]. }
  destruct B; try discriminate Hd; destruct v as [bb|z|bs|bo|cs| |arcs|r|vfs|xs|i x|ab]; try discriminate Hd.
  - encoder_is' Hce. cbn [enc_content] in He. injection He as <- <-. split; [discriminate|discriminate].
  - encoder_is' Hce. cbn [enc_content] in He. injection He as <- <-. split; [discriminate|discriminate].
  - encoder_is' Hce. cbn [enc_content] in He. injection He as <- <-. split; [discriminate|discriminate].
  - (* BIT STRING *)
    encoder_is' Hce. cbn [enc_content] in He.
    change (enc_bits (mkOpts false 999 false) bs = Ok (content, ic)) in He.
    destruct (enc_bits_shape _ bs content ic He) as [(-> & -> & Hk)|(-> & Hk & -> & Hgt)].
    + split; [|discriminate]. intros _ _. cbn [o_chunk] in Hk. destruct Hk as [Hk|Hk]; [discriminate Hk|].
      unfold enc_bits_prim. cbn [length]. rewrite bits_octets_length. rewrite E999 in Hk.
      assert ((length bs + pad_of (length bs)) / 8 <= 999)%nat by (apply Nat.div_le_upper_bound; lia). lia.
    + split; [discriminate|]. intros _. cbn [o_chunk] in *. rewrite E999 in *.
      assert (Hsz: forall p : list bool, (length p <= 999 * 8)%nat -> (length (enc_bits_prim p) <= 1000)%nat).
      { intros p Hp. unfold enc_bits_prim. cbn [length]. rewrite bits_octets_length.
        pose proof (pad_aligned (length p)) as Ha. pose proof (pad_of_lt (length p)) as Hlt.
        assert ((length p + pad_of (length p)) / 8 <= 999)%nat.
        { apply Nat.div_le_upper_bound; [lia|]. unfold pad_of in *. lia. }
        lia. }
      exists 3. eexists. split; [left; reflexivity|split; [reflexivity|split]].
      * apply Forall_forall. intros q Hq. apply in_map_iff in Hq. destruct Hq as (p & <- & Hp).
        apply chunks_in_len in Hp. apply Hsz. lia.
      * apply (seg_ok_chunks enc_bits_prim (999 * 8)); [lia| | | |lia].
        -- intros p Hp. unfold enc_bits_prim. cbn [length]. rewrite bits_octets_length, Hp.
           rewrite (pad_of_0 (999 * 8)) by (apply Nat.mod_mul; lia). rewrite Nat.add_0_r, Nat.div_mul by lia. reflexivity.
        -- intros p Hne Hle. split; [unfold enc_bits_prim; cbn [length]; lia|apply Hsz; exact Hle].
        -- destruct bs; [cbn [length pad_of] in Hgt; cbn in Hgt; lia|discriminate].
  - (* OCTET STRING *)
    encoder_is' Hce. cbn [enc_content] in He. destruct (Hstr (VOcts bo) bo eq_refl He) as [H1 H2]. split; auto.
  - encoder_is' Hce. cbn [enc_content] in He. injection He as <- <-. split; [discriminate|discriminate].
  - encoder_is' Hce. cbn [enc_content] in He.
    destruct (enc_oid arcs) as [c|]; cbn [bind] in He; [|discriminate He]. injection He as <- <-.
    split; [discriminate|discriminate].
  - encoder_is' Hce. cbn [enc_content] in He.
    destruct (enc_real r) as [c|]; cbn [bind] in He; [|discriminate He]. injection He as <- <-.
    split; [discriminate|discriminate].
  - destruct (string_encoder CER n cd fl Hce) as [Hcd _].
    assert (Hx: enc_octets_like cer_opts (VOcts bo) = Ok (content, ic)).
    { destruct Hcd as [->|[->| ->]]; cbn [enc_content octets_of] in He; [exact He| |];
        (destruct (time_guard fl bo) as [[]|]; cbn [bind] in He; [exact He|discriminate He]). }
    destruct (Hstr (VOcts bo) bo eq_refl Hx) as [H1 H2]. split; auto.
  - destruct (string_encoder CER n cd fl Hce) as [Hcd _].
    assert (Hx: enc_octets_like cer_opts (VChars cs) = Ok (content, ic)).
    { destruct Hcd as [->|[->| ->]]; cbn [enc_content octets_of] in He; [exact He| |];
        (destruct (time_guard fl (concat cs)) as [[]|]; cbn [bind] in He; [exact He|discriminate He]). }
    destruct (Hstr (VChars cs) (concat cs) eq_refl Hx) as [H1 H2]. split; auto.
Qed.

(* The shape check does not know the type: it recognises a string by a UNIVERSAL string tag number.
   A tag written [UNIVERSAL 4] IMPLICIT over, say, an INTEGER would make it apply the string rules
   to something that is not a string; [cer_tags_ok] excludes such tags (any type whose written tags
   are APPLICATION / CONTEXT / PRIVATE satisfies it: [wf_cer_tags_ok]). *)
Definition ustr_tag (t: tag) : bool := ustr (tcls t) (tnum t).
Definition cer_tags_ok (T: ty) : bool :=
  match tagset_of T with
  | Ok (t0 :: r) => (indef_base (base_of T) || negb (ustr_tag t0)) && forallb (fun t => negb (ustr_tag t)) r
  | _ => true
  end.

(* (3) canonical form: indefinite length exactly for the constructed encodings; a string of at most
   1000 contents octets primitive; a longer one a run of primitive segments of exactly 1000 contents
   octets and a last, non-empty one ([cer_segments], when the string carries its universal tag). *)
Theorem cer_output_canonical : forall T v d k b,
  der_ref_val T v = true -> no_f01 T = true -> eoc_safe T = true -> cer_tags_ok T = true ->
  encode CER d k T v = Ok b -> cer_canonical b = true.
Proof.
  intros T v d k b Hd Hf Hsafe Htags He.
  destruct (cer_output_shape T v d k b Hd Hf He) as (cd & fl & content & ic & t0 & r & Hce & Hc & Hts & Hc0 & Hbd & Hb).
  unfold der_ref_val in Hd.
  destruct (cer_contents_small (base_of T) v cd fl content ic Hd Hce Hc) as [Hs1 Hs2].
  destruct (leaf_reads CER (base_of T) v cd fl cer_opts content ic Hd Hce Hc) as (_ & Hic & _).
  pose proof (eoc_safe_free T _ ic Hsafe Hts) as Hfree.
  unfold cer_tags_ok in Htags. rewrite Hts in Htags. apply andb_true_iff in Htags. destruct Htags as [Ht0 Hr].
  apply cer_ok_canonical.
  pose (inner := ident (tcls t0) ic (tnum t0) ++
                (if ic then [128] ++ content ++ [0; 0] else length_octets (N.of_nat (length content)) ++ content)).
  change (b = fold_left (wrap_step true) r inner) in Hb.
  assert (Hinner: cer_ok inner).
  { subst inner. destruct ic.
    - destruct (Hs2 eq_refl) as (n & ps & Hn & -> & Hps & Hseg).
      apply (cer_ok_itlv_pieces (tcls t0) (tnum t0) n ps).
      + destruct Hn as [-> | ->]; discriminate.
      + apply Forall_forall. intros p Hp. rewrite Forall_forall in Hps. apply small_lt_max. apply Hps. exact Hp.
      + intros _. exact Hps.
      + intros _. exact Hseg.
    - apply (cer_ok_prim (tcls t0) (tnum t0) content); [apply Hbd; reflexivity|].
      intros Hu. apply Hs1; [reflexivity|].
      apply Bool.orb_true_iff in Ht0. destruct Ht0 as [Hi|Hn]; [exact Hi|].
      unfold ustr_tag in Hn. rewrite Hu in Hn. discriminate Hn. }
  assert (Hr': Forall (fun t => ustr (tcls t) (tnum t) = false) r).
  { apply Forall_forall. intros t Ht. rewrite forallb_forall in Hr. specialize (Hr t Ht).
    apply Bool.negb_true_iff in Hr. exact Hr. }
  destruct r as [|t1 r'].
  - cbn [fold_left] in Hb. subst b. exact Hinner.
  - subst b. apply cer_ok_wrap; [exact Hr'|exact Hinner|].
    subst inner. apply ident_nz_head. cbn [eoc_free] in Hfree. tauto.
Qed.

(* types whose written tags are all APPLICATION, CONTEXT or PRIVATE *)
Lemma wf_tagset : forall T, simple_base (base_of T) = true -> TagsetShape.wf_tags T = true ->
  forall ts, tagset_of T = Ok ts ->
  exists t0 r, ts = t0 :: r /\ (t0 = base_tag (base_of T) \/ tcls t0 <> Univ) /\ Forall (fun t => tcls t <> Univ) r.
Proof.
  induction T as [| | | | | | | | n|fs IH|fs IH|t IH|t IH|alts IH| |tg x IH|tg x IH] using ty_ind';
    intros Hs Hw ts Hts; try discriminate Hs;
    try (injection Hts as <-; eexists; exists []; split; [reflexivity|split; [left; reflexivity|constructor]]).
  - cbn [TagsetShape.wf_tags] in Hw. apply andb_true_iff in Hw. destruct Hw as [Hcl Hw].
    assert (Hnu: tcls tg <> Univ) by (destruct (tcls tg); try discriminate; cbn in Hcl; congruence).
    cbn [tagset_of] in Hts. destruct (tagset_of x) as [ts'|] eqn:Ex; cbn [bind] in Hts; [|discriminate].
    injection Hts as <-. destruct (IH Hs Hw ts' eq_refl) as (t0 & r & -> & H0 & Hall).
    destruct r as [|r1 r'].
    + eexists. exists []. split; [reflexivity|split; [right; exact Hnu|constructor]].
    + destruct (@exists_last _ (r1 :: r')) as (r0 & last & E); [discriminate|]. rewrite E in *.
      rewrite app_comm_cons, tag_implicitly_spec. cbn [app].
      exists t0. eexists. split; [reflexivity|split; [exact H0|]].
      apply Forall_app in Hall. destruct Hall as [Ha _]. apply Forall_app. split; [exact Ha|].
      constructor; [exact Hnu|constructor].
  - cbn [TagsetShape.wf_tags] in Hw. apply andb_true_iff in Hw. destruct Hw as [Hcl Hw].
    assert (Hnu: tcls tg <> Univ) by (destruct (tcls tg); try discriminate; cbn in Hcl; congruence).
    cbn [tagset_of] in Hts. destruct (tagset_of x) as [ts'|] eqn:Ex; cbn [bind] in Hts; [|discriminate].
    pose proof (tag_explicitly_spec ts' tg) as Hsp. rewrite Hts in Hsp. destruct Hsp as [_ ->].
    destruct (IH Hs Hw ts' eq_refl) as (t0 & r & -> & H0 & Hall).
    exists t0. eexists. split; [reflexivity|split; [exact H0|]].
    apply Forall_app. split; [exact Hall|]. constructor; [exact Hnu|constructor].
Qed.

Lemma ustr_non_univ c num : c <> Univ -> ustr c num = false.
Proof. intros H. unfold ustr. destruct c; [congruence|reflexivity|reflexivity|reflexivity]. Qed.

Lemma wf_cer_tags_ok T : simple_base (base_of T) = true -> TagsetShape.wf_tags T = true -> cer_tags_ok T = true.
Proof.
  intros Hs Hw. unfold cer_tags_ok. destruct (tagset_of T) as [ts|] eqn:Ets; [|reflexivity].
  destruct (wf_tagset T Hs Hw ts Ets) as (t0 & r & -> & H0 & Hall).
  apply andb_true_iff. split.
  - destruct H0 as [-> |Hn].
    + destruct (base_of T); try discriminate Hs; reflexivity.
    + unfold ustr_tag. rewrite (ustr_non_univ _ _ Hn). apply Bool.orb_true_r.
  - apply forallb_forall. intros t Ht. rewrite Forall_forall in Hall. unfold ustr_tag.
    rewrite (ustr_non_univ _ _ (Hall t Ht)). reflexivity.
Qed.

Corollary cer_output_canonical_wf : forall T v d k b,
  der_ref_val T v = true -> TagsetShape.wf_tags T = true -> no_f01 T = true -> eoc_safe T = true ->
  encode CER d k T v = Ok b -> cer_canonical b = true.
Proof.
  intros T v d k b Hd Hw Hf Hsafe He.
  apply (cer_output_canonical T v d k b Hd Hf Hsafe); [|exact He].
  apply wf_cer_tags_ok; [apply (der_ref_simple _ _ Hd)|exact Hw].
Qed.

(* ---- witnesses ---- *)

(* [0] EXPLICIT [PRIVATE 5] IMPLICIT OCTET STRING of 2500 octets: three segments inside an
   indefinite constructed string inside an indefinite wrapper *)
Example cer_is_reference_witness_octets :
  let T := TExp (mkTag Ctx false 0) (TImp (mkTag Priv false 5) TOcts) in
  let v := VOcts (repeat 65 (25 * 100)%nat) in
  der_ref_val T v = true /\ no_f01 T = true /\ eoc_safe T = true /\
  exists b, encode CER true 7 T v = Ok b /\ cer T v = Some b /\ cer_canonical b = true /\
            length b = (2 + 2 + (4 + 1000) + (4 + 1000) + (4 + 500) + 2 + 2)%nat.
Proof.
  cbv zeta. split; [vm_compute; reflexivity|]. split; [vm_compute; reflexivity|]. split; [vm_compute; reflexivity|].
  eexists. split; [vm_compute; reflexivity|]. split; [vm_compute; reflexivity|]. split; vm_compute; reflexivity.
Qed.

(* BOOLEAN TRUE is FF; a character string given as characters; a 8003-bit BIT STRING *)
Example cer_is_reference_witness_misc :
  (encode CER true 0 (TImp (mkTag Appl false 3) TBool) (VBool true) = Ok [67; 1; 255]
   /\ cer (TImp (mkTag Appl false 3) TBool) (VBool true) = Some [67; 1; 255] /\ cer_canonical [67; 1; 255] = true) /\
  (let T := TExp (mkTag Ctx false 1) (TStr 12) in let v := VChars [[195;169];[65]] in
   no_f01 T = true /\ encode CER true 0 T v = Ok [161; 128; 12; 3; 195; 169; 65; 0; 0]
   /\ cer T v = Some [161; 128; 12; 3; 195; 169; 65; 0; 0]) /\
  (let T := TBits in let v := VBits (repeat true (8 * 1000 + 3)%nat) in
   exists b, encode CER true 0 T v = Ok b /\ cer T v = Some b /\ cer_canonical b = true
             /\ length b = (2 + (4 + 1000) + (2 + 3) + 2)%nat).
Proof.
  split; [vm_compute; repeat split|]. split; [vm_compute; repeat split|].
  cbv zeta. eexists. split; [vm_compute; reflexivity|]. split; [vm_compute; reflexivity|]. split; vm_compute; reflexivity.
Qed.

(* ---- finding F01, seen from the theorem's side ---- *)

(* [1] EXPLICIT INTEGER under CER: the library writes a definite length and still appends 00 00;
   the reference's canonical encoding has the indefinite form; the reader leaves 00 00 unread *)
Example cer_is_reference_refuted_F01 :
  let T := TExp (mkTag Ctx false 1) TInt in let v := VInt 5 in
  der_ref_val T v = true /\ no_f01 T = false /\
  encode CER true 0 T v = Ok [161; 3; 2; 1; 5; 0; 0] /\
  cer T v = Some [161; 128; 2; 1; 5; 0; 0] /\
  read T [161; 3; 2; 1; 5; 0; 0] = Some (AInt 5, [0; 0]) /\
  cer_canonical [161; 3; 2; 1; 5; 0; 0] = false.
Proof. vm_compute. repeat split. Qed.

(* only strings are segmented (X.690 9.2): a primitive INTEGER of more than 1000 contents octets is
   canonical CER *)
Example cer_canonical_large_integer :
  let v := VInt (2 ^ (8 * 1001))%Z in
  cer_tags_ok TInt = true /\
  exists b, encode CER true 0 TInt v = Ok b /\ cer TInt v = Some b /\ length b = 1006%nat /\ cer_canonical b = true.
Proof.
  cbv zeta. split; [reflexivity|].
  eexists. split; [vm_compute; reflexivity|]. split; [vm_compute; reflexivity|]. split; vm_compute; reflexivity.
Qed.

(* why [cer_tags_ok]: [UNIVERSAL 4] IMPLICIT INTEGER - the untyped check takes it for an OCTET STRING *)
Example cer_canonical_needs_tags_ok :
  let T := TImp (mkTag Univ false 4) TInt in let v := VInt (2 ^ (8 * 1001))%Z in
  der_ref_val T v = true /\ no_f01 T = true /\ eoc_safe T = true /\ cer_tags_ok T = false /\
  exists b, encode CER true 0 T v = Ok b /\ cer T v = Some b /\ cer_canonical b = false.
Proof.
  cbv zeta. repeat (split; [vm_compute; reflexivity|]).
  eexists. split; [vm_compute; reflexivity|]. split; vm_compute; reflexivity.
Qed.

Print Assumptions cer_contents.
Print Assumptions cer_is_reference_simple.
Print Assumptions cer_output_canonical.
Print Assumptions cer_output_canonical_wf.

(* C03: the CER encoder's output is byte-identical to the canonical encoding computed by the
   independent reference ([X690.cer] = [canon true]), and meets the clause 9 shape rules
   ([cer_canonical]): simple types under any stack of tags, strings of any length (1000-octet
   segments; BIT STRING 999 octets of bits per segment), TRUE = FF.  Outside finding F01. *)
From Coq Require Import Lia.
From PV Require Import Base.Bytes Model.Tag Model.TableTypes Model.Types Model.Enc Gen.Tables Spec.X690
     Proofs.Bits Proofs.SpecOctets Proofs.LeafInt Proofs.LeafOidBits Proofs.LeafReal Proofs.TagAlgebra
     Proofs.DerReference Proofs.ReaderParse Proofs.ReaderInterp Proofs.ReaderLeafOidBits Proofs.ReaderLeafReal
     Proofs.ReaderSound Proofs.ReaderFrame Proofs.ReaderCerSegments Proofs.ReaderModel.
Local Open Scope N_scope.

(* CER's fixed options: indefinite lengths, 1000-octet segments *)
Definition cer_opts : eopts := mkOpts false 1000 false.

Lemma encode_cer_unfold d k T v :
  encode CER d k T v =
  (do ce <- concrete_encoder CER T;
   do ts <- tagset_of T;
   do cc <- enc_content CER T (fst ce) (snd ce) cer_opts v;
   frame ts (fst cc) (snd cc) cer_opts (ef_indef (snd ce))).
Proof. unfold encode. rewrite enc_unfold. reflexivity. Qed.

(* ---------- contents: the reference's canonical encoding of the base type ---------- *)

Lemma base_enc_if B (ic: bool) content :
  (if ic then ctlv true Univ (tnum (base_tag B)) content else tlv Univ false (tnum (base_tag B)) content)
  = base_enc B ic true content.
Proof. destruct ic; reflexivity. Qed.

Theorem cer_contents B v cd fl content ic :
  der_ref_base B v = true -> concrete_encoder CER B = Ok (cd, fl) ->
  enc_content CER B cd fl cer_opts v = Ok (content, ic) ->
  canon true B v = Some (base_enc B ic true content).
Proof.
  intros Hd Hce He.
  destruct B; try discriminate Hd; destruct v as [bb|z|bs|bo|cs| |arcs|r|vfs|xs|i x|ab]; try discriminate Hd.
  - (* BOOLEAN: FF for TRUE *) encoder_is' Hce. cbn [enc_content] in He. injection He as <- <-. reflexivity.
  - (* INTEGER *) encoder_is' Hce. cbn [enc_content ef_compact_zero] in He. injection He as <- <-.
    cbn [canon]. rewrite int_contents_is_enc_integer. reflexivity.
  - (* ENUMERATED *) encoder_is' Hce. cbn [enc_content ef_compact_zero] in He. injection He as <- <-.
    cbn [canon]. rewrite int_contents_is_enc_integer. reflexivity.
  - (* BIT STRING: 999 octets of bits after the initial octet of each segment *)
    encoder_is' Hce. cbn [enc_content] in He.
    change (enc_bits (mkOpts false 999 false) bs = Ok (content, ic)) in He.
    cbn [canon]. rewrite (cer_bits_is_reference false false bs content ic He).
    rewrite <- (base_enc_if TBits). reflexivity.
  - (* OCTET STRING *)
    encoder_is' Hce. cbn [enc_content] in He. cbn [canon].
    rewrite (cer_string_is_reference (VOcts bo) bo 4 false false content ic eq_refl He).
    rewrite <- (base_enc_if TOcts). reflexivity.
  - (* NULL *) encoder_is' Hce. cbn [enc_content] in He. injection He as <- <-. reflexivity.
  - (* OBJECT IDENTIFIER *)
    encoder_is' Hce. cbn [enc_content] in He. cbn [canon]. rewrite oid_contents_is_enc_oid.
    destruct (enc_oid arcs) as [c|]; cbn [bind] in He; [|discriminate He]. injection He as <- <-. reflexivity.
  - (* REAL *)
    encoder_is' Hce. cbn [enc_content] in He. cbn [canon].
    destruct (enc_real r) as [c|] eqn:Er; cbn [bind] in He; [|discriminate He]. injection He as <- <-.
    assert (Hrc: real_contents r = Some c).
    { destruct r as [| |m e|m e|].
      - cbn [enc_real] in Er. injection Er as <-. reflexivity.
      - cbn [enc_real] in Er. injection Er as <-. reflexivity.
      - assert (Hfit: real_exp_fits m e = true) by (apply enc_real_bin_ok_iff; exists c; exact Er).
        rewrite (real_contents_is_enc_real_partial m e Hfit), Er. reflexivity.
      - cbn [der_ref_base] in Hd. cbn [enc_real real_contents] in *. rewrite Hd in *. injection Er as <-. reflexivity.
      - discriminate Er. }
    rewrite Hrc. reflexivity.
  - (* strings as octets *)
    destruct (string_encoder CER n cd fl Hce) as [Hcd _].
    assert (Hx: enc_octets_like cer_opts (VOcts bo) = Ok (content, ic)).
    { destruct Hcd as [->|[->| ->]]; cbn [enc_content octets_of] in He; [exact He| |];
        (destruct (time_guard fl bo) as [[]|]; cbn [bind] in He; [exact He|discriminate He]). }
    cbn [canon string_octets opt_bind].
    rewrite (cer_string_is_reference (VOcts bo) bo n false false content ic eq_refl Hx).
    rewrite <- (base_enc_if (TStr n)). reflexivity.
  - (* strings as characters *)
    destruct (string_encoder CER n cd fl Hce) as [Hcd _].
    assert (Hx: enc_octets_like cer_opts (VChars cs) = Ok (content, ic)).
    { destruct Hcd as [->|[->| ->]]; cbn [enc_content octets_of] in He; [exact He| |];
        (destruct (time_guard fl (concat cs)) as [[]|]; cbn [bind] in He; [exact He|discriminate He]). }
    cbn [canon string_octets opt_bind].
    rewrite (cer_string_is_reference (VChars cs) (concat cs) n false false content ic eq_refl Hx).
    rewrite <- (base_enc_if (TStr n)). reflexivity.
Qed.

(* ---------- what the CER encoder amounts to on the fragment ---------- *)

Lemma cer_output_shape T v d k b : der_ref_val T v = true -> no_f01 T = true -> encode CER d k T v = Ok b ->
  exists cd fl content ic t0 r,
    concrete_encoder CER (base_of T) = Ok (cd, fl) /\
    enc_content CER (base_of T) cd fl cer_opts v = Ok (content, ic) /\
    tagset_of T = Ok (t0 :: r) /\ tcon t0 = false /\
    b = gframe_ts true (t0 :: r) ic (if ic then [128] ++ content ++ [0; 0]
                                      else length_octets (N.of_nat (length content)) ++ content).
Proof.
  intros Hd Hf He. unfold der_ref_val in Hd. rewrite encode_cer_unfold in He.
  destruct (concrete_encoder CER T) as [[cd fl]|] eqn:Ece; cbn [bind fst snd] in He; [|discriminate He].
  destruct (tagset_of T) as [ts|] eqn:Ets; cbn [bind] in He; [|discriminate He].
  destruct (enc_content CER T cd fl cer_opts v) as [[content ic]|] eqn:Ec; cbn [bind fst snd] in He; [|discriminate He].
  rewrite concrete_encoder_base in Ece. rewrite enc_content_base in Ec.
  pose proof (der_ref_simple _ _ Hd) as Hs.
  destruct (canon_simple (base_of T) v Hs) as [Htb _].
  destruct (tagset_shape_g T _ Htb ts Ets) as (t0 & r & -> & Hc0 & Hall).
  destruct (leaf_reads CER (base_of T) v cd fl cer_opts content ic Hd Ece Ec) as (Hfl & Hic & _).
  exists cd, fl, content, ic, t0, r. split; [exact Ece|split; [exact Ec|split; [reflexivity|]]].
  assert (Hc0': tcon t0 = false) by (rewrite Hc0; destruct (base_of T); try discriminate Hs; reflexivity).
  split; [exact Hc0'|].
  apply (frame_gframe t0 r content ic cer_opts (ef_indef fl) b eq_refl Hall) in He.
  - rewrite Hc0' in He. cbn [orb o_def cer_opts negb] in He. rewrite Bool.andb_true_r in He. exact He.
  - intros _ Hne. rewrite Hfl. unfold no_f01 in Hf. apply Bool.orb_true_iff in Hf. destruct Hf as [Hf|Hf]; [exact Hf|].
    destruct (no_exp_single T _ Htb Hf _ Ets) as (t & E). injection E as _ ->. congruence.
  - intros _ Hi. rewrite Hfl. apply Hic. exact Hi.
Qed.

(* (3) soundness: whatever the CER encoder outputs - in whatever mode it is called: defMode and
   maxChunkSize are overridden - is the canonical encoding of the reference *)
Theorem cer_is_reference_simple : forall T v d k b,
  der_ref_val T v = true -> no_f01 T = true -> encode CER d k T v = Ok b -> X690.cer T v = Some b.
Proof.
  intros T v d k b Hd Hf He.
  destruct (cer_output_shape T v d k b Hd Hf He) as (cd & fl & content & ic & t0 & r & Hce & Hc & Hts & Hc0 & ->).
  unfold der_ref_val in Hd. pose proof (der_ref_simple _ _ Hd) as Hs.
  destruct (canon_simple (base_of T) v Hs) as [Htb _].
  unfold cer. apply (canon_wrappers_g T v true ic _ (base_tag (base_of T)) (simple_tagged T Hs) Htb); [|exact Hts].
  rewrite (cer_contents (base_of T) v cd fl content ic Hd Hce Hc). unfold base_enc.
  rewrite base_tag_univ, Bool.andb_true_r. reflexivity.
Qed.

(* ---------- clause 9 shape ---------- *)

Lemma small_lt_max n : (n <= 1001)%nat -> N.of_nat n < max_len.
Proof.
  intros H. assert (1001 < max_len) by (vm_compute; reflexivity). lia.
Qed.

Lemma cer_ok_pieces n ps : n <> 0 -> Forall (fun p => (length p <= 1001)%nat) ps ->
  Forall cer_ok (map (tlv Univ false n) ps) /\ Forall nz_head (map (tlv Univ false n) ps).
Proof.
  intros Hn Hps. split; [|apply pieces_nz; exact Hn].
  apply Forall_forall. intros e He. apply in_map_iff in He. destruct He as (p & <- & Hp).
  rewrite Forall_forall in Hps. specialize (Hps p Hp). apply cer_ok_prim; [apply small_lt_max; exact Hps|exact Hps].
Qed.

(* the CER encoder's string contents: at most 1000 octets in one piece, else 1000-octet pieces *)
Lemma cer_contents_small B v cd fl content ic :
  der_ref_base B v = true -> concrete_encoder CER B = Ok (cd, fl) ->
  enc_content CER B cd fl cer_opts v = Ok (content, ic) ->
  (ic = false -> indef_base B = true -> (length content <= 1001)%nat) /\
  (ic = true -> exists n ps, n <> 0 /\ content = concat (map (tlv Univ false n) ps) /\
                              Forall (fun p => (length p <= 1001)%nat) ps).
Proof.
  intros Hd Hce He.
  assert (Hstr: forall v0 b0, octets_of v0 = Some b0 -> enc_octets_like cer_opts v0 = Ok (content, ic) ->
            (ic = false -> (length content <= 1001)%nat) /\
            (ic = true -> exists n ps, n <> 0 /\ content = concat (map (tlv Univ false n) ps) /\
                                        Forall (fun p => (length p <= 1001)%nat) ps)).
  { intros v0 b0 Ho Hx.
    destruct (enc_octets_like_shape cer_opts v0 b0 content ic Ho Hx) as [(-> & -> & Hk)|(-> & Hk & ->)].
    - split; [|discriminate]. intros _. cbn [cer_opts o_chunk] in Hk. destruct Hk as [Hk|Hk]; [discriminate Hk|lia].
    - split; [discriminate|]. intros _. exists 4. eexists. split; [lia|split; [reflexivity|]].
      apply Forall_forall. intros p Hp. apply segs_in_len in Hp. cbn [cer_opts o_chunk] in Hp. lia. }
  destruct B; try discriminate Hd; destruct v as [bb|z|bs|bo|cs| |arcs|r|vfs|xs|i x|ab]; try discriminate Hd.
  - encoder_is' Hce. cbn [enc_content] in He. injection He as <- <-. split; [discriminate|discriminate].
  - encoder_is' Hce. cbn [enc_content] in He. injection He as <- <-. split; [discriminate|discriminate].
  - encoder_is' Hce. cbn [enc_content] in He. injection He as <- <-. split; [discriminate|discriminate].
  - (* BIT STRING *)
    encoder_is' Hce. cbn [enc_content] in He.
    change (enc_bits (mkOpts false 999 false) bs = Ok (content, ic)) in He.
    destruct (enc_bits_shape _ bs content ic He) as [(-> & -> & Hk)|(-> & Hk & ->)].
    + split; [|discriminate]. intros _ _. cbn [o_chunk] in Hk. destruct Hk as [Hk|Hk]; [discriminate Hk|].
      unfold enc_bits_prim. cbn [length]. rewrite bits_octets_length.
      assert (E999: N.to_nat 999 = 999%nat) by lia. rewrite E999 in Hk.
      assert ((length bs + pad_of (length bs)) / 8 <= 999)%nat by (apply Nat.div_le_upper_bound; lia). lia.
    + split; [discriminate|]. intros _. exists 3. eexists. split; [lia|split; [reflexivity|]].
      apply Forall_forall. intros q Hq. apply in_map_iff in Hq. destruct Hq as (p & <- & Hp).
      apply chunks_in_len in Hp. destruct Hp as [Hp _]. cbn [o_chunk] in Hp.
      assert (E999: N.to_nat 999 = 999%nat) by lia. rewrite E999 in Hp.
      unfold enc_bits_prim. cbn [length]. rewrite bits_octets_length.
      pose proof (pad_aligned (length p)) as Ha. pose proof (pad_of_lt (length p)) as Hlt.
      assert ((length p + pad_of (length p)) / 8 <= 999)%nat.
      { apply Nat.div_le_upper_bound; [lia|]. unfold pad_of in *. lia. }
      lia.
  - (* OCTET STRING *)
    encoder_is' Hce. cbn [enc_content] in He. destruct (Hstr (VOcts bo) bo eq_refl He) as [H1 H2]. split; auto.
  - encoder_is' Hce. cbn [enc_content] in He. injection He as <- <-. split; [discriminate|discriminate].
  - encoder_is' Hce. cbn [enc_content] in He.
    destruct (enc_oid arcs) as [c|]; cbn [bind] in He; [|discriminate He]. injection He as <- <-.
    split; [discriminate|discriminate].
  - encoder_is' Hce. cbn [enc_content] in He.
    destruct (enc_real r) as [c|]; cbn [bind] in He; [|discriminate He]. injection He as <- <-.
    split; [discriminate|discriminate].
  - destruct (string_encoder CER n cd fl Hce) as [Hcd _].
    assert (Hx: enc_octets_like cer_opts (VOcts bo) = Ok (content, ic)).
    { destruct Hcd as [->|[->| ->]]; cbn [enc_content octets_of] in He; [exact He| |];
        (destruct (time_guard fl bo) as [[]|]; cbn [bind] in He; [exact He|discriminate He]). }
    destruct (Hstr (VOcts bo) bo eq_refl Hx) as [H1 H2]. split; auto.
  - destruct (string_encoder CER n cd fl Hce) as [Hcd _].
    assert (Hx: enc_octets_like cer_opts (VChars cs) = Ok (content, ic)).
    { destruct Hcd as [->|[->| ->]]; cbn [enc_content octets_of] in He; [exact He| |];
        (destruct (time_guard fl (concat cs)) as [[]|]; cbn [bind] in He; [exact He|discriminate He]). }
    destruct (Hstr (VChars cs) (concat cs) eq_refl Hx) as [H1 H2]. split; auto.
Qed.

(* (3) canonical form: indefinite length exactly for the constructed encodings, string segments
   of 1000 contents octets.  For the types that are never segmented (INTEGER, OBJECT IDENTIFIER,
   REAL ...) [cer_shape] - which does not know the type - asks that the whole encoding stay within
   1001 octets; see [cer_shape_limits_primitives] below. *)
Theorem cer_output_canonical : forall T v d k b,
  der_ref_val T v = true -> no_f01 T = true -> eoc_safe T = true ->
  (indef_base (base_of T) = true \/ (length b <= 1001)%nat) ->
  encode CER d k T v = Ok b -> cer_canonical b = true.
Proof.
  intros T v d k b Hd Hf Hsafe Hsmall He.
  destruct (cer_output_shape T v d k b Hd Hf He) as (cd & fl & content & ic & t0 & r & Hce & Hc & Hts & Hc0 & Hb).
  unfold der_ref_val in Hd.
  destruct (cer_contents_small (base_of T) v cd fl content ic Hd Hce Hc) as [Hs1 Hs2].
  pose proof (eoc_safe_free T _ ic Hsafe Hts) as Hfree.
  apply cer_ok_canonical.
  pose (inner := ident (tcls t0) ic (tnum t0) ++
                (if ic then [128] ++ content ++ [0; 0] else length_octets (N.of_nat (length content)) ++ content)).
  change (b = fold_left (wrap_step true) r inner) in Hb.
  assert (Hinner: cer_ok inner).
  { pose proof (fold_wrap_length true r inner) as Hw. rewrite <- Hb in Hw. clear Hb.
    subst inner. destruct ic.
    - destruct (Hs2 eq_refl) as (n & ps & Hn & -> & Hps).
      destruct (cer_ok_pieces n ps Hn Hps) as [H1 H2].
      apply (cer_ok_itlv (tcls t0) (tnum t0) _ H1 H2).
    - assert (Hlen: (length content <= 1001)%nat).
      { destruct Hsmall as [Hi|Hl]; [apply Hs1; [reflexivity|exact Hi]|].
        rewrite !app_length in Hw. lia. }
      apply (cer_ok_prim (tcls t0) (tnum t0) content); [apply small_lt_max; exact Hlen|exact Hlen]. }
  destruct r as [|t1 r'].
  - cbn [fold_left] in Hb. subst b. exact Hinner.
  - subst b. apply cer_ok_wrap; [exact Hinner|].
    subst inner. apply ident_nz_head. cbn [eoc_free] in Hfree. tauto.
Qed.

(* ---- witnesses ---- *)

(* [0] EXPLICIT [PRIVATE 5] IMPLICIT OCTET STRING of 2500 octets: three segments inside an
   indefinite constructed string inside an indefinite wrapper *)
Example cer_is_reference_witness_octets :
  let T := TExp (mkTag Ctx false 0) (TImp (mkTag Priv false 5) TOcts) in
  let v := VOcts (repeat 65 (25 * 100)%nat) in
  der_ref_val T v = true /\ no_f01 T = true /\ eoc_safe T = true /\
  exists b, encode CER true 7 T v = Ok b /\ cer T v = Some b /\ cer_canonical b = true /\
            length b = (2 + 2 + (4 + 1000) + (4 + 1000) + (4 + 500) + 2 + 2)%nat.
Proof.
  cbv zeta. split; [vm_compute; reflexivity|]. split; [vm_compute; reflexivity|]. split; [vm_compute; reflexivity|].
  eexists. split; [vm_compute; reflexivity|]. split; [vm_compute; reflexivity|]. split; vm_compute; reflexivity.
Qed.

(* BOOLEAN TRUE is FF; a character string given as characters; a 8003-bit BIT STRING *)
Example cer_is_reference_witness_misc :
  (encode CER true 0 (TImp (mkTag Appl false 3) TBool) (VBool true) = Ok [67; 1; 255]
   /\ cer (TImp (mkTag Appl false 3) TBool) (VBool true) = Some [67; 1; 255] /\ cer_canonical [67; 1; 255] = true) /\
  (let T := TExp (mkTag Ctx false 1) (TStr 12) in let v := VChars [[195;169];[65]] in
   no_f01 T = true /\ encode CER true 0 T v = Ok [161; 128; 12; 3; 195; 169; 65; 0; 0]
   /\ cer T v = Some [161; 128; 12; 3; 195; 169; 65; 0; 0]) /\
  (let T := TBits in let v := VBits (repeat true (8 * 1000 + 3)%nat) in
   exists b, encode CER true 0 T v = Ok b /\ cer T v = Some b /\ cer_canonical b = true
             /\ length b = (2 + (4 + 1000) + (2 + 3) + 2)%nat).
Proof.
  split; [vm_compute; repeat split|]. split; [vm_compute; repeat split|].
  cbv zeta. eexists. split; [vm_compute; reflexivity|]. split; [vm_compute; reflexivity|]. split; vm_compute; reflexivity.
Qed.

(* ---- finding F01, seen from the theorem's side ---- *)

(* [1] EXPLICIT INTEGER under CER: the library writes a definite length and still appends 00 00;
   the reference's canonical encoding has the indefinite form; the reader leaves 00 00 unread *)
Example cer_is_reference_refuted_F01 :
  let T := TExp (mkTag Ctx false 1) TInt in let v := VInt 5 in
  der_ref_val T v = true /\ no_f01 T = false /\
  encode CER true 0 T v = Ok [161; 3; 2; 1; 5; 0; 0] /\
  cer T v = Some [161; 128; 2; 1; 5; 0; 0] /\
  read T [161; 3; 2; 1; 5; 0; 0] = Some (AInt 5, [0; 0]) /\
  cer_canonical [161; 3; 2; 1; 5; 0; 0] = false.
Proof. vm_compute. repeat split. Qed.

(* the shape check of the reference does not know the type: a primitive INTEGER of more than 1001
   contents octets is canonical CER (only strings are segmented, X.690 9.2) but [cer_shape] rejects
   it - an imprecision of Spec/X690.v [cer_shape], not of the library; hence the size hypothesis *)
Example cer_shape_limits_primitives :
  let v := VInt (2 ^ (8 * 1001))%Z in
  exists b, encode CER true 0 TInt v = Ok b /\ cer TInt v = Some b /\ length b = 1006%nat /\ cer_canonical b = false.
Proof.
  cbv zeta. eexists. split; [vm_compute; reflexivity|]. split; [vm_compute; reflexivity|]. split; vm_compute; reflexivity.
Qed.

Print Assumptions cer_contents.
Print Assumptions cer_is_reference_simple.
Print Assumptions cer_output_canonical.
